package c18

import (
	"fmt"
	"strconv"
	"strings"
	"time"

	"github.com/ohler55/slip"
	"github.com/ohler55/slip/pkg/flavors"
	"verifharness/common"
)

// ---- histories of bag-parse / bag-set over several bags that are all kept --------------------------
//
// The state is the contents of every bag; after EVERY call all of them are read (deep copies) and compared with
// the model ModelStore.v, in which a bag is a value: a call changes the bag it is addressed to and nothing else.
// A parser, converter or setter that hands out the same Go maps or slices twice shows as a bag - or a disjoint
// path of the same bag - that changed although no call was addressed to it.

type storeOp struct {
	bag    int
	parse  bool
	text   string      // parse
	val    slip.Object // set
	path   []frag      // nil: no path argument
	method bool
	octets bool
}

func hasObject(v any) bool {
	switch tv := v.(type) {
	case map[string]any:
		return true
	case []any:
		for _, e := range tv {
			if hasObject(e) {
				return true
			}
		}
	}
	return false
}

func hasArray(v any) bool {
	switch tv := v.(type) {
	case []any:
		return true
	case map[string]any:
		for _, e := range tv {
			if hasArray(e) {
				return true
			}
		}
	}
	return false
}

func jvListTerm(docs []any) (string, bool) {
	ts := make([]string, len(docs))
	for i, d := range docs {
		t, ok := jvTerm(d)
		if !ok {
			return "", false
		}
		ts[i] = t
	}
	return common.GList(ts), true
}

// storeHistory runs ops one after the other on bags holding init and records one case per call (from index
// `from` on: the systematic block shares its first calls between many histories).
func (h *harness) storeHistory(init []any, ops []storeOp, from int, tag string) {
	ctx := h.ctx
	scope := slip.NewScope()
	bags := make([]*flavors.Instance, len(init))
	for i, d := range init {
		bags[i] = newBag(deepCopy(d))
		scope.Let(slip.Symbol(fmt.Sprintf("b%d", i)), bags[i])
	}
	scope.Let(slip.Symbol("val"), nil)
	scope.Let(slip.Symbol("txt"), nil)
	snapshot := func() []any {
		out := make([]any, len(bags))
		for i, b := range bags {
			out[i] = deepCopy(b.Any)
		}
		return out
	}
	var lisps []string
	heldObject, heldArray := false, false // some bag holds an object / array that came out of an earlier parse
	for k, op := range ops {
		pre := snapshot()
		preTerm, preOK := jvListTerm(pre)
		if !preOK {
			return
		}
		pathTerm, pathArg := "None", ""
		if op.path != nil {
			pathTerm = "(Some " + fragsTerm(op.path) + ")"
			pathArg = " " + strconv.Quote(pathString(ctx.Rng, op.path))
		}
		var opTerm, lisp string
		b := fmt.Sprintf("b%d", op.bag)
		if op.parse {
			if op.octets {
				scope.Set(slip.Symbol("txt"), slip.Octets(op.text))
			} else {
				scope.Set(slip.Symbol("txt"), slip.String(op.text))
			}
			opTerm = fmt.Sprintf("(SParse %d %s %s)", op.bag, gBytes(op.text), pathTerm)
			if op.method {
				lisp = "(send " + b + " :parse txt" + pathArg + ")"
			} else {
				lisp = "(bag-parse " + b + " txt" + pathArg + ")"
			}
		} else {
			scope.Set(slip.Symbol("val"), op.val)
			vt, ok := lobjTerm(op.val)
			if !ok {
				panic("generated Lisp value outside the modelled fragment")
			}
			opTerm = fmt.Sprintf("(SSet %d %s %s)", op.bag, vt, pathTerm)
			if op.method {
				lisp = "(send " + b + " :set val" + pathArg + ")"
			} else {
				lisp = "(bag-set " + b + " val" + pathArg + ")"
			}
		}
		shownOp := lisp
		if op.parse {
			shownOp = strings.Replace(lisp, " txt", " "+strconv.Quote(op.text), 1)
		} else {
			shownOp = strings.Replace(lisp, " val", " '"+slip.ObjectString(op.val), 1)
		}
		lisps = append(lisps, shownOp)
		out := common.EvalTimeout(scope, lisp, 5*time.Second)
		cyclic := false
		for _, bg := range bags {
			cyclic = cyclic || tooDeep(bg.Any, 0)
		}
		if cyclic {
			ctx.Violate("a history of bag-parse / bag-set calls left a bag containing itself (a cycle)",
				map[string]any{"history": lisps, "bags-before": func() []string {
					s := make([]string, len(pre))
					for i, d := range pre {
						s[i] = show(d)
					}
					return s
				}()}, "cyclic contents", "every bag holds JSON data; only the bag addressed changes")
			return
		}
		post := snapshot()
		postTerm, postOK := jvListTerm(post)
		errFlag := out.Err != ""
		shown := func(docs []any) []string {
			s := make([]string, len(docs))
			for i, d := range docs {
				s[i] = show(d)
			}
			return s
		}
		desc := map[string]any{"stream": "store-history", "kind": tag, "history": append([]string(nil), lisps...), "step": k,
			"bags-before": shown(pre), "bags-after": shown(post)}
		if errFlag {
			desc["error"] = out.Err + ": " + out.Msg
			if out.Err == "timeout" || common.Fault(out.Msg) {
				ctx.Violate("a bag operation faulted or hung", desc, out.Err+": "+out.Msg, "a value or a Lisp condition")
				return
			}
		}
		if !postOK {
			ctx.Violate("a bag operation produced data outside the modelled kinds", desc, shown(post), "JSON data")
			return
		}
		if k >= from {
			if op.parse {
				var parsed any
				if !errFlag {
					parsed = post[op.bag]
				}
				if heldObject && hasObject(parsed) {
					ctx.Hist("store:parse-with-object-while-parsed-object-held")
				}
				if heldArray && hasArray(parsed) {
					ctx.Hist("store:parse-with-array-while-parsed-array-held")
				}
			}
			ctx.Hist(fmt.Sprintf("store:step=%d", k))
			h.add(fmt.Sprintf("CStore %s %s %s %s", preTerm, opTerm, common.GBool(errFlag), postTerm), desc,
				"S|"+preTerm+"|"+opTerm)
		}
		if op.parse && !errFlag {
			for _, d := range post {
				heldObject = heldObject || hasObject(d)
				heldArray = heldArray || hasArray(d)
			}
		}
	}
}

// storeStream: (1) a systematic block - every ordered pair of calls from an alphabet of 5 targets (bag 0 whole,
// bag 0 at "a", bag 0 at "c", bag 1 whole, bag 1 at "k") x 4 texts (an object, an object holding an array holding
// an object, an array of two objects, arrays only), each pair on two fresh bags, the second call after the first
// with the first one's result still held; (2) random histories of 3..6 parse / set calls on 2..3 bags with
// generated documents, texts in random spelling and concrete paths.
func (h *harness) storeStream(nRandom int) {
	ctx := h.ctx
	type target struct {
		bag  int
		path []frag
	}
	targets := []target{
		{0, nil},
		{0, []frag{{kind: 'k', key: "a"}}},
		{0, []frag{{kind: 'k', key: "c"}}},
		{1, nil},
		{1, []frag{{kind: 'k', key: "k"}}},
	}
	texts := []string{"{x:1}", "{y:[2 {z:3}]}", "[{p:1} {q:2}]", "[1 [2]]"}
	var alphabet []storeOp
	for _, t := range targets {
		for _, x := range texts {
			alphabet = append(alphabet, storeOp{bag: t.bag, parse: true, text: x, path: t.path})
		}
	}
	init := func() []any { return []any{map[string]any{}, map[string]any{"k": nil}} }
	for i, first := range alphabet {
		for j, second := range alphabet {
			a, b := first, second
			a.method, a.octets = ctx.Rng.Chance(30), ctx.Rng.Chance(20)
			b.method, b.octets = ctx.Rng.Chance(30), ctx.Rng.Chance(20)
			from := 1
			if j == 0 {
				from = 0 // the first call alone is recorded once per first call
			}
			_ = i
			h.storeHistory(init(), []storeOp{a, b}, from, "all pairs")
		}
	}
	ctx.Hist(fmt.Sprintf("store:systematic-pairs=%d", len(alphabet)*len(alphabet)))
	for n := 0; n < nRandom; n++ {
		nb := 2 + ctx.Rng.Intn(2)
		o := genOpts{maxDepth: 2, floats: true, simpleKeys: true, moreNulls: true}
		bags := make([]any, nb)
		for i := range bags {
			bags[i] = genDoc(ctx.Rng, o, ctx.Rng.Intn(3), ctx.Hist)
		}
		// the paths are generated against a shadow of the contents kept by running the model-free part here: the
		// current contents are not known before the calls run, so paths are drawn from the initial documents and
		// from the keys used so far (missing members are created by the set)
		var ops []storeOp
		nOps := 3 + ctx.Rng.Intn(4)
		for k := 0; k < nOps; k++ {
			op := storeOp{bag: ctx.Rng.Intn(nb), method: ctx.Rng.Chance(30)}
			if ctx.Rng.Chance(60) {
				p := genPath(ctx.Rng, bags[op.bag], false, true, func(string) {})
				if len(p) > 2 {
					p = p[:2]
				}
				op.path = p
			}
			if ctx.Rng.Chance(65) {
				op.parse = true
				op.octets = ctx.Rng.Chance(20)
				doc := genDoc(ctx.Rng, genOpts{maxDepth: 3, floats: true, simpleKeys: true}, 1+ctx.Rng.Intn(3), ctx.Hist)
				op.text, _ = spell(ctx.Rng, doc, ctx.Rng.Chance(35))
			} else {
				op.val = genLispValue(ctx.Rng, 2, ctx.Hist)
			}
			ops = append(ops, op)
		}
		h.storeHistory(bags, ops, 0, "random")
	}
}
