package c18

import (
	"encoding/json"
	"fmt"
	"sort"
	"strconv"
	"strings"
	"unicode/utf8"

	"github.com/ohler55/slip"
	"github.com/ohler55/slip/pkg/bag"
	"github.com/ohler55/slip/pkg/flavors"
	"verifharness/common"
)

func newBag(doc any) *flavors.Instance {
	inst := bag.Flavor().MakeInstance().(*flavors.Instance)
	inst.Any = doc
	return inst
}

// writeOpt is one way of calling bag-write.
type writeOpt struct {
	args  string // keyword arguments
	kind  string // Gallina wkind
	json  bool
	exact bool
}

var writeOpts = []writeOpt{
	{":pretty nil :depth 0", "(WExact FSen Tight)", false, true},
	{":pretty nil :depth 0 :json t", "(WExact FJson Tight)", true, true},
	{":pretty t :depth 0 :color nil", "(WExact FSen Tight)", false, true},
	{":pretty nil :depth -1 :json t :color nil", "(WExact FJson Tight)", true, true},
	{":pretty nil", "(WExact FSen Indent2)", false, true},
	{":pretty nil :json t", "(WExact FJson Indent2)", true, true},
	{":pretty t :depth 1", "(WExact FSen Indent2)", false, true},
	{":pretty t :depth 1 :json t :color nil", "(WExact FJson Indent2)", true, true},
	{":pretty nil :depth 3 :right-margin 30", "(WExact FSen Indent2)", false, true},
	// pretty.Writer: layout not modelled
	{"", "(WPretty FSen)", false, false},
	{":pretty t", "(WPretty FSen)", false, false},
	{":pretty t :json t", "(WPretty FJson)", true, false},
	{":pretty t :depth 2", "(WPretty FSen)", false, false},
	{":pretty t :depth 3 :right-margin 20", "(WPretty FSen)", false, false},
	{":pretty t :depth 6 :right-margin 40 :json t", "(WPretty FJson)", true, false},
	{":pretty t :depth 2 :right-margin 120 :color nil", "(WPretty FSen)", false, false},
	{":json t :right-margin 10", "(WPretty FJson)", true, false},
	// unsorted keys
	{":depth 0", "(WUnsorted FSen)", false, false},
	{":depth 0 :json t", "(WUnsorted FJson)", true, false},
	{":depth 1 :json t", "(WUnsorted FJson)", true, false},
}

// parseVia parses text through one of slip's entry points and returns the bag contents.
func parseVia(r *common.Rng, text string, strictOK, streamOK bool) (doc any, errMsg string, via string) {
	scope := slip.NewScope()
	scope.Let(slip.Symbol("txt"), slip.String(text))
	scope.Let(slip.Symbol("got"), nil)
	var src string
	switch x := r.Intn(11); {
	case x == 10 && streamOK:
		scope.Let(slip.Symbol("in"), slip.NewInputStream(&chunkReader{data: []byte(text), r: r, big: r.Chance(30)}))
		via, src = "bag-read", "(bag-read (make-instance 'bag-flavor) in)"
	case x < 4:
		via, src = "make-bag", "(make-bag txt)"
	case x < 6:
		via, src = "bag-parse", "(bag-parse (make-instance 'bag-flavor) txt)"
	case x < 7:
		via, src = ":parse", "(send (make-instance 'bag-flavor) :parse txt)"
	case x < 8:
		via, src = "init :parse", "(make-instance 'bag-flavor :parse txt)"
	case x < 9 || !strictOK:
		if r.Bool() {
			via, src = "json-parse", "(progn (json-parse (lambda (x) (setq got x)) txt) got)"
		} else {
			via, src = "json-parse nil", "(progn (json-parse (lambda (x) (setq got x)) txt nil) got)"
		}
	default:
		via, src = "json-parse strict", "(progn (json-parse (lambda (x) (setq got x)) txt t) got)"
	}
	out := common.EvalIn(scope, src)
	if out.Err != "" {
		return nil, out.Err + ": " + out.Msg, via
	}
	inst, ok := out.Value.(*flavors.Instance)
	if !ok {
		if strings.HasPrefix(via, "json-parse") && out.Value == nil {
			// the callback was never called: empty input
			return nil, "", via
		}
		return nil, "not a bag: " + slip.ObjectString(out.Value), via
	}
	return inst.Any, "", via
}

func optJv(doc any, errMsg string) (string, bool) {
	if errMsg != "" {
		return "None", true
	}
	t, ok := jvTerm(doc)
	return "(Some " + t + ")", ok
}

// ---- the harness's own speller of SEN/JSON text ------------------------------------------------

type speller struct {
	r    *common.Rng
	json bool // strict JSON spelling (commas, double quotes, no bare tokens)
	b    strings.Builder
	dup  bool
}

func (sp *speller) ws(required bool) { sp.wsc(required, true) }

// wsc: commas count as white space for the SEN parser except between a key and its colon
func (sp *speller) wsc(required, commas bool) {
	opts := []string{"", " ", "  ", "\n", "\t", "\r\n", " \n  "}
	if !sp.json && commas {
		opts = append(opts, ",", " , ", ",\n")
	}
	w := common.Pick(sp.r, opts)
	if required && w == "" {
		w = " "
	}
	sp.b.WriteString(w)
}

func simpleBare(s string) bool {
	if s == "" || s == "true" || s == "false" || s == "null" || len(s) > 40 {
		return false
	}
	for i := 0; i < len(s); i++ {
		c := s[i]
		ok := c == '_' || (c >= 'a' && c <= 'z') || (c >= 'A' && c <= 'Z') || (i > 0 && (c >= '0' && c <= '9' || c == '-' || c == '.' || c == '$' || c == '@' || c == '*' || c == '+'))
		if !ok && c < 0x80 {
			return false
		}
	}
	return utf8.ValidString(s)
}

func (sp *speller) str(s string) {
	if !sp.json && simpleBare(s) && sp.r.Chance(50) {
		sp.b.WriteString(s)
		return
	}
	q := byte('"')
	if !sp.json && sp.r.Chance(30) {
		q = '\''
	}
	sp.b.WriteByte(q)
	for i := 0; i < len(s); {
		c := s[i]
		if c >= 0x80 {
			rn, n := utf8.DecodeRuneInString(s[i:])
			if rn != utf8.RuneError && rn < 0x10000 && !(rn >= 0xd800 && rn <= 0xdfff) && sp.r.Chance(40) {
				if sp.r.Bool() {
					fmt.Fprintf(&sp.b, "\\u%04x", rn)
				} else {
					fmt.Fprintf(&sp.b, "\\u%04X", rn)
				}
			} else {
				sp.b.WriteString(s[i : i+n])
			}
			i += n
			continue
		}
		i++
		switch {
		case c == q || c == '\\':
			sp.b.WriteByte('\\')
			sp.b.WriteByte(c)
		case c == '\n' && (sp.json || sp.r.Bool()):
			sp.b.WriteString("\\n")
		case c == '\t' && (sp.json || sp.r.Bool()):
			sp.b.WriteString("\\t")
		case c == '\r' && (sp.json || sp.r.Bool()):
			sp.b.WriteString("\\r")
		case c == '\b':
			sp.b.WriteString("\\b")
		case c == '\f':
			sp.b.WriteString("\\f")
		case c == '\n' || c == '\t' || c == '\r':
			sp.b.WriteByte(c)
		case c < 0x20 || c == 0x7f && sp.r.Bool():
			fmt.Fprintf(&sp.b, "\\u%04x", c)
		case c == '/' && sp.r.Chance(30):
			sp.b.WriteString("\\/")
		case c == '\'' && !sp.json && sp.r.Chance(30):
			sp.b.WriteString("\\'")
		case c >= 0x20 && sp.r.Chance(5):
			fmt.Fprintf(&sp.b, "\\u%04x", c)
		default:
			sp.b.WriteByte(c)
		}
	}
	sp.b.WriteByte(q)
}

func (sp *speller) val(v any) {
	switch tv := v.(type) {
	case nil:
		sp.b.WriteString("null")
	case bool:
		sp.b.WriteString(strconv.FormatBool(tv))
	case int64:
		sp.b.WriteString(strconv.FormatInt(tv, 10))
	case json.Number:
		sp.b.WriteString(string(tv))
	case float64:
		sp.b.WriteString(strconv.FormatFloat(tv, 'g', -1, 64))
	case string:
		sp.str(tv)
	case []any:
		sp.b.WriteByte('[')
		for i, e := range tv {
			sp.ws(false)
			sp.val(e)
			if i+1 < len(tv) {
				if sp.json {
					sp.ws(false)
					sp.b.WriteByte(',')
				} else {
					sp.ws(true)
				}
			}
		}
		sp.ws(false)
		sp.b.WriteByte(']')
	case map[string]any:
		keys := make([]string, 0, len(tv))
		for k := range tv {
			keys = append(keys, k)
		}
		sort.Strings(keys)
		sp.r.Intn(2)
		// random order
		for i := len(keys) - 1; i > 0; i-- {
			j := sp.r.Intn(i + 1)
			keys[i], keys[j] = keys[j], keys[i]
		}
		sp.b.WriteByte('{')
		first := true
		member := func(k string, e any) {
			if !first {
				if sp.json {
					sp.ws(false)
					sp.b.WriteByte(',')
				} else {
					sp.ws(true)
				}
			}
			first = false
			sp.ws(false)
			sp.str(k)
			sp.wsc(false, false)
			sp.b.WriteByte(':')
			sp.ws(false)
			sp.val(e)
		}
		for _, k := range keys {
			if sp.r.Chance(8) {
				// an earlier member with the same key that the later one replaces
				sp.dup = true
				member(k, common.Pick(sp.r, []any{nil, int64(7), "old", []any{int64(1)}, map[string]any{"q": true}}))
			}
			member(k, tv[k])
		}
		sp.ws(false)
		sp.b.WriteByte('}')
	}
}

func spell(r *common.Rng, v any, asJSON bool) (string, bool) {
	sp := &speller{r: r, json: asJSON}
	sp.ws(false)
	sp.val(v)
	sp.ws(false)
	return sp.b.String(), sp.dup
}

// ---- streams ---------------------------------------------------------------------------------

func (h *harness) textStream(n int) {
	ctx := h.ctx
	for i := 0; i < n; i++ {
		o := genOpts{maxDepth: 5, ambiguous: ctx.Rng.Chance(25), badUTF8: ctx.Rng.Chance(15), edgeInts: ctx.Rng.Chance(15), bigNums: true, floats: true}
		depth := 1 + ctx.Rng.Intn(5)
		if ctx.Rng.Chance(10) {
			depth = 0
		}
		doc := genDoc(ctx.Rng, o, depth, ctx.Hist)
		vterm, ok := jvTerm(doc)
		if !ok {
			panic("generated document outside the modelled universe: " + show(doc))
		}
		ctx.Hist(fmt.Sprintf("text:depth=%d", docDepth(doc)))
		// every document is written with three of the option sets
		picked := map[int]bool{}
		for len(picked) < 3 {
			picked[ctx.Rng.Intn(len(writeOpts))] = true
		}
		idxs := make([]int, 0, 3)
		for k := range picked {
			idxs = append(idxs, k)
		}
		sort.Ints(idxs)
		for _, k := range idxs {
			wo := writeOpts[k]
			scope := slip.NewScope()
			scope.Let(slip.Symbol("b"), newBag(deepCopy(doc)))
			src := "(bag-write b " + wo.args + ")"
			if ctx.Rng.Chance(25) {
				src = "(send b :write nil " + wo.args + ")"
			}
			out := common.EvalIn(scope, src)
			ctx.Hist("write:" + wo.kind)
			desc := map[string]any{"stream": "write+parse", "doc": show(doc), "write": src}
			if out.Err != "" {
				ctx.Violate("bag-write failed on bag data", desc, out.Err+": "+out.Msg, "a string")
				continue
			}
			text, isStr := out.Value.(slip.String)
			if !isStr {
				ctx.Violate("bag-write did not return a string", desc, slip.ObjectString(out.Value), "a string")
				continue
			}
			re, errMsg, via := parseVia(ctx.Rng, string(text), wo.json && utf8.ValidString(string(text)) && !hasEdgeLiteral(doc), !hasEdgeLiteral(doc))
			reTerm, reOK := optJv(re, errMsg)
			desc["text"] = string(text)
			desc["parsed-via"] = via
			if errMsg != "" {
				desc["reparsed"] = "error: " + errMsg
			} else {
				desc["reparsed"] = show(re)
			}
			if !reOK {
				// e.g. a float that lost its fraction: judged on the implementation alone (see implOnly)
				h.implOnlyText(doc, re, desc)
				continue
			}
			h.add(fmt.Sprintf("CText %s %s %s %s", wo.kind, vterm, gBytes(string(text)), reTerm), desc, "T|"+wo.kind+"|"+vterm)
		}
	}
}

// specialStream: every special scalar (token-like, invalid UTF-8, limits of int64, long tokens ...) alone, as an
// array element, as an object value and as a key, each through two write option sets.
func (h *harness) specialStream() {
	ctx := h.ctx
	var vals []any
	for _, s := range ambiguousStrings {
		vals = append(vals, s)
	}
	for _, s := range badUTF8Strings {
		vals = append(vals, s)
	}
	for _, s := range []string{"", "null ", "Null", "truex", "a b", "1", "1e5", "0x10", ".5", "e", "-", "--", "-x", "a-", "a:b", "a,b", "@", "~", "\u00e9", "\u2028", "\u2029", "\ufffd", "\x7f", "\x00",
		strings.Repeat("a", 64), strings.Repeat("a", 65), strings.Repeat("\u00e9", 32), strings.Repeat("\u00e9", 33), "a" + strings.Repeat("\u00e9", 32)} {
		vals = append(vals, s)
	}
	for _, n := range []int64{9223372036854775799, 9223372036854775800, 9223372036854775807, -9223372036854775807, -9223372036854775808, 0, -1} {
		vals = append(vals, n)
	}
	for _, n := range []string{"9223372036854775800", "9223372036854775808", "-9223372036854775808", "-9223372036854775809", "123456789012345678901234567890"} {
		vals = append(vals, json.Number(n))
	}
	for i, v := range vals {
		docs := []any{v, []any{v, v}, map[string]any{"k": v}}
		if s, isStr := v.(string); isStr {
			docs = append(docs, map[string]any{s: int64(1), "z": s})
		}
		for j, doc := range docs {
			vterm, ok := jvTerm(doc)
			if !ok {
				continue
			}
			for c := 0; c < 2; c++ {
				wo := writeOpts[(i*7+j*3+c*11+ctx.Rng.Intn(len(writeOpts)))%len(writeOpts)]
				scope := slip.NewScope()
				scope.Let(slip.Symbol("b"), newBag(deepCopy(doc)))
				src := "(bag-write b " + wo.args + ")"
				out := common.EvalIn(scope, src)
				desc := map[string]any{"stream": "special", "doc": show(doc), "write": src}
				text, isStr := out.Value.(slip.String)
				if out.Err != "" || !isStr {
					ctx.Violate("bag-write failed on bag data", desc, out.Err+": "+out.Msg, "a string")
					continue
				}
				re, errMsg, via := parseVia(ctx.Rng, string(text), false, !hasEdgeLiteral(doc))
				reTerm, reOK := optJv(re, errMsg)
				desc["text"], desc["parsed-via"] = string(text), via
				if errMsg != "" {
					desc["reparsed"] = "error: " + errMsg
				} else {
					desc["reparsed"] = show(re)
				}
				if !reOK {
					h.implOnlyText(doc, re, desc)
					continue
				}
				ctx.Hist("special:" + wo.kind)
				h.add(fmt.Sprintf("CText %s %s %s %s", wo.kind, vterm, gBytes(string(text)), reTerm), desc, "S|"+wo.kind+"|"+vterm)
			}
		}
	}
}

func (h *harness) parseStream(n int) {
	ctx := h.ctx
	for i := 0; i < n; i++ {
		o := genOpts{maxDepth: 4, bigNums: true, floats: true}
		doc := genDoc(ctx.Rng, o, ctx.Rng.Intn(5), ctx.Hist)
		vterm, ok := jvTerm(doc)
		if !ok {
			panic("generated document outside the modelled universe: " + show(doc))
		}
		asJSON := ctx.Rng.Chance(35)
		text, dup := spell(ctx.Rng, doc, asJSON)
		if dup {
			ctx.Hist("spell:duplicate-key")
		}
		if asJSON {
			ctx.Hist("spell:json")
		} else {
			ctx.Hist("spell:sen")
		}
		re, errMsg, via := parseVia(ctx.Rng, text, asJSON && !hasEdgeLiteral(doc), !hasEdgeLiteral(doc))
		reTerm, reOK := optJv(re, errMsg)
		desc := map[string]any{"stream": "parse", "doc": show(doc), "text": text, "parsed-via": via}
		if errMsg != "" {
			desc["parsed"] = "error: " + errMsg
		} else {
			desc["parsed"] = show(re)
		}
		if !reOK {
			ctx.Violate("parsing a spelled document gave data outside JSON", desc, show(re), show(doc))
			continue
		}
		h.add(fmt.Sprintf("CParse %s %s %s", vterm, gBytes(text), reTerm), desc, "P|"+text)
	}
}

// implOnlyText judges a write/parse round trip whose result left the modelled universe.
func (h *harness) implOnlyText(doc, re any, desc map[string]any) {
	h.ctx.Violate("written bag data does not parse back to JSON data of the modelled kinds", desc, show(re), show(doc))
}

// floatStream: documents with float64 values of every shape (integral, huge, tiny) through every writer; the
// result is judged on the implementation alone, with bag-compare as the equality of bags.
func (h *harness) floatStream() {
	ctx := h.ctx
	floats := []float64{0, 1, -2, 1500, 1e5, 999999, 1e6, 1e15, 123456789, -0.5, 0.1, 1e-7, 1e21, 1e100, 1.7976931348623157e308, 5e-324, 2.5, 1234567.5}
	for i, f := range floats {
		doc := []any{f, map[string]any{"f": f}}
		for _, wo := range writeOpts {
			if (i+len(wo.args))%3 != 0 {
				continue
			}
			scope := slip.NewScope()
			scope.Let(slip.Symbol("b"), newBag(deepCopy(doc)))
			src := "(bag-compare b (make-bag (bag-write b " + wo.args + ")))"
			out := common.EvalIn(scope, src)
			ctx.Meta.Evaluations++
			ctx.Hist("float-roundtrip")
			if out.Err != "" || out.Value != nil {
				ctx.Violate("a bag with a float differs from the bag parsed from its own text (bag-compare)", map[string]any{"doc": show(doc), "lisp": src},
					common.ShowOutcome(out), "nil")
			}
		}
	}
}
