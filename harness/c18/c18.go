// Package c18: JSON documents through bags (write options x parse entry points), JSONPath operation
// histories, bag <-> Lisp data and the Go data bridge, observed on the real implementation.
package c18

import (
	"verifharness/common"
)

type harness struct {
	ctx      *common.Ctx
	terms    []string
	descs    []any
	distinct map[string]bool
}

func (h *harness) add(term string, desc any, sig string) {
	h.terms = append(h.terms, term)
	h.descs = append(h.descs, desc)
	h.ctx.Meta.Evaluations++
	h.distinct[sig] = true
	if len(h.terms)%97 == 1 {
		h.ctx.Sample(desc)
	}
}

func Run(ctx *common.Ctx) {
	h := &harness{ctx: ctx, distinct: map[string]bool{}}
	nText, nParse := 120, 150
	if ctx.Thorough() {
		nText, nParse = 2500, 3000
	}
	nHist, nNative, nBridge := 220, 150, 200
	nMulti := 120
	nStore := 40
	if ctx.Thorough() {
		nHist, nNative, nBridge = 5000, 3000, 4000
		nMulti = 2500
		nStore = 1500
	}
	h.checkOjgTables()
	h.textStream(nText)
	h.specialStream()
	h.parseStream(nParse)
	h.multiStream(nMulti)
	h.pathStream(nHist)
	h.storeStream(nStore)
	h.nativeStream(nNative)
	h.bridgeStream(nBridge)
	h.floatStream()
	ctx.Meta.DistinctNontrivial = len(h.distinct)
	ctx.Meta.Rule = "documents of depth <= 5 (null, booleans, int64 incl. the limits, json.Number integers and decimals, float64, strings: plain, needing quotes or escapes, control characters, non-ASCII incl. U+2028/U+2029/U+FFFD and 4-byte runes, long, token-like, invalid UTF-8; empty containers) written with 3 of 20 bag-write option sets each and parsed back through one of 6 entry points; documents spelled by the harness in SEN/JSON with random white space, quotes, escapes and duplicate keys; inputs with 0..4 such documents given to json-parse (string, octets, streams read in chunks of 1..9 bytes) with a function or channel receiver that keeps the bags; histories of bag-parse / bag-set calls on 2..3 bags that are all kept, every bag read after every call: ALL 400 ordered pairs over 5 targets (bag 0 whole / at a / at c, bag 1 whole / at k) x 4 texts (object, object>array>object, array of objects, arrays only) plus random histories of 3..6 calls; distinct = distinct (document, options) / texts"
	header := "From Coq Require Import List ZArith NArith Strings.Byte String.\nFrom C18 Require Import Tables Model Spec ModelPath ModelBridge SpecPath ModelStore SpecStore Corr.\nImport ListNotations.\nOpen Scope Z_scope.\n"
	footer := "Definition res := Eval vm_compute in check_all cases.\nPrint res.\nDefinition gcount := Eval vm_compute in guard_count cases.\nPrint gcount.\nDefinition outside_broken := Eval vm_compute in outside_guard_broken cases.\nPrint outside_broken.\nDefinition store_kept := Eval vm_compute in store_frames_kept cases.\nPrint store_kept.\n"
	ctx.WriteShards("cases", header, "case", footer, h.terms, h.descs, 16)
	ctx.ReplayKnownLisp()
	h.replayKnownGo()
}
