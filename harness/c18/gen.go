package c18

import (
	"encoding/json"
	"fmt"
	"math"
	"sort"
	"strconv"
	"strings"

	"verifharness/common"
)

// ---- Go data -> Gallina jv ------------------------------------------------------------------

// gBytes renders a byte string as a Gallina term of type bytes: (Bs "...") when printable ASCII.
func gBytes(s string) string {
	printable := true
	for i := 0; i < len(s); i++ {
		if s[i] < 32 || s[i] >= 127 {
			printable = false
			break
		}
	}
	if printable {
		return "(Bs " + common.GStr(s) + ")"
	}
	return "(B " + common.GBytes([]byte(s)) + ")"
}

func isIntLiteral(s string) bool {
	if strings.HasPrefix(s, "-") {
		s = s[1:]
	}
	if s == "" {
		return false
	}
	for i := 0; i < len(s); i++ {
		if s[i] < '0' || s[i] > '9' {
			return false
		}
	}
	return true
}

// floatText is the text the model uses for a float64 (strconv 'g', shortest); ok is false when that
// text does not denote a JSON number with a fraction or an exponent (integral value, NaN, Inf).
func floatText(f float64) (string, bool) {
	if math.IsNaN(f) || math.IsInf(f, 0) {
		return "", false
	}
	t := strconv.FormatFloat(f, 'g', -1, 64)
	if isIntLiteral(t) {
		return t, false
	}
	return t, true
}

// jvTerm converts bag data into a Gallina jv term with object keys sorted bytewise.
// ok is false when the data holds something outside the modelled universe.
func jvTerm(v any) (term string, ok bool) {
	ok = true
	var b strings.Builder
	var walk func(v any)
	walk = func(v any) {
		switch tv := v.(type) {
		case nil:
			b.WriteString("JNull")
		case bool:
			b.WriteString("(JBool " + common.GBool(tv) + ")")
		case int64:
			b.WriteString("(JInt " + common.GZ(tv) + ")")
		case json.Number:
			if isIntLiteral(string(tv)) {
				b.WriteString("(JBig " + common.GZs(string(tv)) + ")")
			} else {
				b.WriteString("(JDec " + gBytes(string(tv)) + ")")
			}
		case float64:
			t, fine := floatText(tv)
			if !fine {
				ok = false
			}
			b.WriteString("(JDec " + gBytes(t) + ")")
		case string:
			b.WriteString("(JStr " + gBytes(tv) + ")")
		case []any:
			b.WriteString("(JArr [")
			for i, e := range tv {
				if i > 0 {
					b.WriteString("; ")
				}
				walk(e)
			}
			b.WriteString("])")
		case map[string]any:
			keys := make([]string, 0, len(tv))
			for k := range tv {
				keys = append(keys, k)
			}
			sort.Strings(keys)
			b.WriteString("(JObj [")
			for i, k := range keys {
				if i > 0 {
					b.WriteString("; ")
				}
				b.WriteString("(" + gBytes(k) + ", ")
				walk(tv[k])
				b.WriteString(")")
			}
			b.WriteString("])")
		default:
			ok = false
			b.WriteString("JNull")
		}
	}
	walk(v)
	return b.String(), ok
}

// show renders bag data for the human-readable case descriptions (sorted keys, Go syntax for strings).
func show(v any) string {
	switch tv := v.(type) {
	case nil:
		return "null"
	case bool, int64, float64:
		return fmt.Sprint(tv)
	case json.Number:
		return "#" + string(tv)
	case string:
		return strconv.Quote(tv)
	case []any:
		parts := make([]string, len(tv))
		for i, e := range tv {
			parts[i] = show(e)
		}
		return "[" + strings.Join(parts, " ") + "]"
	case map[string]any:
		keys := make([]string, 0, len(tv))
		for k := range tv {
			keys = append(keys, k)
		}
		sort.Strings(keys)
		parts := make([]string, len(keys))
		for i, k := range keys {
			parts[i] = strconv.Quote(k) + ":" + show(tv[k])
		}
		return "{" + strings.Join(parts, " ") + "}"
	default:
		return fmt.Sprintf("<%T %v>", v, v)
	}
}

// hasEdgeLiteral: a positive integer from 9223372036854775800 to MaxInt64. ojg reads its digits as int64 or as
// json.Number depending on whether they arrive in one buffer (known finding C18-int64-limit-depends-on-chunking),
// so texts with such a literal are only parsed from a string.
func hasEdgeLiteral(v any) bool {
	switch tv := v.(type) {
	case int64:
		return tv >= 9223372036854775800
	case json.Number:
		s := string(tv)
		return len(s) == 19 && s >= "9223372036854775800" && s <= "9223372036854775807"
	case []any:
		for _, e := range tv {
			if hasEdgeLiteral(e) {
				return true
			}
		}
	case map[string]any:
		for _, e := range tv {
			if hasEdgeLiteral(e) {
				return true
			}
		}
	}
	return false
}

// deepCopy copies bag data (maps and slices are fresh).
func deepCopy(v any) any {
	switch tv := v.(type) {
	case []any:
		out := make([]any, len(tv))
		for i, e := range tv {
			out[i] = deepCopy(e)
		}
		return out
	case map[string]any:
		out := make(map[string]any, len(tv))
		for k, e := range tv {
			out[k] = deepCopy(e)
		}
		return out
	default:
		return v
	}
}

// tooDeep reports bag data nested deeper than any generated or parsed document can be: contents that contain
// themselves (a container stored into itself through aliasing) would make every traversal run forever.
func tooDeep(v any, depth int) bool {
	if depth > 64 {
		return true
	}
	switch tv := v.(type) {
	case []any:
		for _, e := range tv {
			if tooDeep(e, depth+1) {
				return true
			}
		}
	case map[string]any:
		for _, e := range tv {
			if tooDeep(e, depth+1) {
				return true
			}
		}
	}
	return false
}

// ---- generators -----------------------------------------------------------------------------

type genOpts struct {
	maxDepth int
	// string classes allowed
	ambiguous bool // strings the SEN writer leaves unquoted although they read back differently (known findings)
	badUTF8   bool // strings that are not valid UTF-8 (known finding)
	edgeInts  bool // int64 values at and beyond 9223372036854775800 (known finding)
	bigNums   bool // json.Number values
	floats    bool
	simpleKeys bool // keys usable in a JSONPath without quoting
	moreNulls  bool // more null / false leaves
}

var plainStrings = []string{"a", "abc", "x1", "hello", "Zed", "k_1", "a-b", "a.b", "q?", "$x", "~", "|", "@a", "^x", "é", "a+b", "a*b", "x-1",
	"nullx", "truely", "nul", "tru", "fals", "n", "t", "f", "NULL", "True", "e5", "a<b>&c", "%", "a%b", "_", "<", ">", "&"}
var quotedStrings = []string{"", " ", "a b", "1", "12", "1e5", "0", "007", "a:b", "a,b", "[x]", "{x}", "a(b", "a)b", "a/b", "a'b", "a\"b", "a\\b",
	"#x", "!x", "a=b", "a;b", "\"", "\\", "'", "it's", "say \"hi\"", "back\\slash\\", "/", "//c", "a\tb", "line1\nline2", "cr\rlf\n", "\b\f",
	"\x00", "\x01\x02", "a\x1fb", "\x7f", "del\x7fete", "tab\t", "\n", "x y z", "http://a/b?c=d&e=f", "<tag a=\"1\">", "1.5", "2020-01-01T00:00:00Z"}
var unicodeStrings = []string{"\u00e9", "\u65e5\u672c\u8a9e", "\u4e2d", "a\u00f1b", "\u00fc", "\U0001F600", "a\U0001F600b", "\u2028", "a\u2029b", "\ufffd", "\u00a0", "\u07ff", "\u0800", "\uffff",
	"\U00010000", "\U0010ffff", "\u00dftra\u00dfe", "\u03a9mega", "\u03ba\u03bb\u03b5\u03b9\u03b4\u03af", "\u200b", "e\u0301", "\ud7ff", "\ue000", "x\u2028y\u2029z", "\ufeffbom", "\u0080", "\u007f\u0080"}
var ambiguousStrings = []string{"true", "false", "null", "-1", "-12", "-", "-a", "-1.5", "-0", "`", "`a", "a`b", "ab`", "-9223372036854775808"}
var badUTF8Strings = []string{"\xff", "a\xffb", "\xc0\x80", "\xc3", "a\xe2\x82", "\xed\xa0\x80", "\xf4\x90\x80\x80", "\x80", "ok\xbf", "\xf8\x88\x80\x80\x80", "é\xe9"}
var keyPool = []string{"a", "b", "c", "k", "key", "x", "y", "z", "id", "name", "val", "n1"}

func longString(r *common.Rng) string {
	n := 60 + r.Intn(12) // around maxTokenLen = 64
	var b strings.Builder
	for i := 0; i < n; i++ {
		b.WriteByte(byte('a' + r.Intn(26)))
	}
	return b.String()
}

func genString(r *common.Rng, o genOpts, hist func(string)) string {
	x := r.Intn(100)
	switch {
	case x < 30:
		hist("str:plain")
		return common.Pick(r, plainStrings)
	case x < 55:
		hist("str:quoted")
		return common.Pick(r, quotedStrings)
	case x < 75:
		hist("str:unicode")
		return common.Pick(r, unicodeStrings)
	case x < 80:
		hist("str:long")
		return longString(r)
	case x < 88 && o.ambiguous:
		hist("str:ambiguous")
		return common.Pick(r, ambiguousStrings)
	case x < 93 && o.badUTF8:
		hist("str:bad-utf8")
		return common.Pick(r, badUTF8Strings)
	default:
		// random bytes from a small alphabet that mixes all classes
		hist("str:random")
		alpha := []string{"a", "b", "1", "-", " ", "+", "\"", "\\", "\n", "\u00e9", "\u2028", "\U0001F600", ":", "t", "{", "\x01", "/", "'", "<"}
		n := 1 + r.Intn(5)
		var b strings.Builder
		for i := 0; i < n; i++ {
			b.WriteString(common.Pick(r, alpha))
		}
		s := b.String()
		if strings.HasPrefix(s, "+") || (!o.ambiguous && (strings.HasPrefix(s, "-") || s == "t")) {
			s = "a" + s
		}
		return s
	}
}

var floatPool = []float64{0.5, -0.5, 1.5, -1.25, 3.14159, 0.1, 0.2, 1e-7, -2.5e-10, 1e100, -1e21, 1.7976931348623157e308, 5e-324, 123456.7,
	1234567.5, 0.000123, 1e6, 1e7, 12345678.9, 2.2250738585072014e-308, 0.30000000000000004, 100.25, -0.001}
var bigNumPool = []string{"9223372036854775800", "9223372036854775807", "9223372036854775808", "-9223372036854775800", "-9223372036854775808",
	"12345678901234567890", "-12345678901234567890", "18446744073709551616", "100000000000000000000000000000000000000",
	"340282366920938463463374607431768211456", "-99999999999999999999999"}

func genScalar(r *common.Rng, o genOpts, hist func(string)) any {
	x := r.Intn(100)
	if o.moreNulls && r.Chance(20) {
		if r.Bool() {
			hist("scalar:null")
			return nil
		}
		hist("scalar:bool")
		return false
	}
	switch {
	case x < 8:
		hist("scalar:null")
		return nil
	case x < 18:
		hist("scalar:bool")
		return r.Bool()
	case x < 40:
		hist("scalar:int")
		switch r.Intn(8) {
		case 0:
			return int64(0)
		case 1:
			return int64(-1)
		case 2:
			return int64(r.Intn(100))
		case 3:
			return -int64(r.Intn(100000))
		case 4:
			return int64(r.Next() >> 1 >> uint(r.Intn(62)))
		case 5:
			return -int64(r.Next() >> 2 >> uint(r.Intn(60)))
		case 6:
			return int64(9223372036854775799) - int64(r.Intn(3))
		default:
			return -int64(9223372036854775799) + int64(r.Intn(3))
		}
	case x < 44 && o.edgeInts:
		hist("scalar:edge-int")
		return common.Pick(r, []int64{9223372036854775800, math.MaxInt64, math.MinInt64, -9223372036854775800, 9223372036854775801})
	case x < 52 && o.bigNums:
		hist("scalar:big")
		if r.Chance(40) {
			// a random long integer
			n := 19 + r.Intn(30)
			var b strings.Builder
			if r.Bool() {
				b.WriteByte('-')
			}
			b.WriteByte(byte('1' + r.Intn(9)))
			if n == 19 {
				b.Reset()
				b.WriteString("93")
				n = 19
				for i := 2; i < n; i++ {
					b.WriteByte(byte('0' + r.Intn(10)))
				}
				return json.Number(b.String())
			}
			for i := 1; i < n; i++ {
				b.WriteByte(byte('0' + r.Intn(10)))
			}
			return json.Number(b.String())
		}
		return json.Number(common.Pick(r, bigNumPool))
	case x < 62 && o.floats:
		hist("scalar:float")
		if r.Chance(30) {
			f := (float64(r.Intn(2000000)) - 1000000) / 64.0 * math.Pow(10, float64(r.Intn(40)-20))
			if _, fine := floatText(f); fine {
				return f
			}
		}
		return common.Pick(r, floatPool)
	default:
		return genString(r, o, hist)
	}
}

func genKey(r *common.Rng, o genOpts, hist func(string)) string {
	if o.simpleKeys || r.Chance(55) {
		return common.Pick(r, keyPool)
	}
	return genString(r, o, hist)
}

// genDoc generates a document whose container nesting is exactly depth (a scalar has depth 0): one child
// of every container on the spine reaches the full depth, the others are shallower at random.
func genDoc(r *common.Rng, o genOpts, depth int, hist func(string)) any {
	if depth <= 0 {
		return genScalar(r, o, hist)
	}
	n := 0
	switch x := r.Intn(10); {
	case x < 1 && depth == 1:
		n = 0
	case x < 4:
		n = 1
	case x < 8:
		n = 2 + r.Intn(2)
	default:
		n = 4 + r.Intn(3)
	}
	if n == 0 {
		hist("container:empty")
	}
	spine := r.Intn(n + 1)
	child := func(i int) any {
		if i == spine || (i == 0 && spine >= n) {
			return genDoc(r, o, depth-1, hist)
		}
		d := r.Intn(depth)
		if r.Chance(50) {
			d = 0
		}
		if d == 1 && r.Chance(30) {
			// an empty container
			hist("container:empty")
			if r.Bool() {
				return []any{}
			}
			return map[string]any{}
		}
		return genDoc(r, o, d, hist)
	}
	if r.Bool() {
		hist("container:array")
		out := make([]any, n)
		for i := range out {
			out[i] = child(i)
		}
		return out
	}
	hist("container:object")
	out := map[string]any{}
	for i := 0; i < n; i++ {
		k := genKey(r, o, hist)
		for tries := 0; tries < 4; tries++ {
			if _, dup := out[k]; !dup {
				break
			}
			k = genKey(r, o, hist)
		}
		out[k] = child(i)
	}
	return out
}

func docDepth(v any) int {
	d := 0
	switch tv := v.(type) {
	case []any:
		for _, e := range tv {
			if x := docDepth(e); x > d {
				d = x
			}
		}
		return d + 1
	case map[string]any:
		for _, e := range tv {
			if x := docDepth(e); x > d {
				d = x
			}
		}
		return d + 1
	}
	return 0
}
