package c18

import (
	"encoding/json"
	"fmt"
	"math"
	"math/big"
	"sort"
	"strconv"
	"strings"
	"time"

	"github.com/ohler55/slip"
	"github.com/ohler55/slip/pkg/flavors"
	"verifharness/common"
)

// ---- bag -> native Lisp data -> bag ------------------------------------------------------------

func (h *harness) nativeStream(n int) {
	ctx := h.ctx
	for i := 0; i < n; i++ {
		o := genOpts{maxDepth: 5, ambiguous: true, edgeInts: true, bigNums: ctx.Rng.Chance(40), floats: true}
		doc := genDoc(ctx.Rng, o, ctx.Rng.Intn(6), ctx.Hist)
		if ctx.Rng.Chance(60) {
			doc = stripForNative(doc)
			ctx.Hist("native:guarded-shape")
		}
		vterm, ok := jvTerm(doc)
		if !ok {
			panic("generated document outside the modelled universe")
		}
		scope := slip.NewScope()
		scope.Let(slip.Symbol("b"), newBag(deepCopy(doc)))
		src := "(bag-native b)"
		if ctx.Rng.Chance(30) {
			src = "(send b :native)"
		}
		out := common.EvalIn(scope, src)
		desc := map[string]any{"stream": "native", "doc": show(doc), "lisp": src}
		if out.Err != "" {
			ctx.Violate("bag-native failed", desc, out.Err+": "+out.Msg, "a Lisp value")
			continue
		}
		nat := sortPairs(out.Value)
		natTerm, natOK := lobjTerm(nat)
		desc["native"] = slip.ObjectString(nat)
		if !natOK {
			ctx.Violate("bag-native produced an object outside the modelled kinds", desc, slip.ObjectString(nat), "nil, t, numbers, strings, lists")
			continue
		}
		scope.Let(slip.Symbol("nat"), nat)
		var back string
		x := ctx.Rng.Intn(4)
		if _, isStr := nat.(slip.String); isStr && x == 0 {
			x = 1 // make-bag of a string parses it
		}
		switch x {
		case 0:
			back = "(make-bag nat)"
		case 1:
			back = "(bag-set (make-instance 'bag-flavor) nat)"
		case 2:
			back = "(make-instance 'bag-flavor :set nat)"
		default:
			back = "(send (make-instance 'bag-flavor) :set nat)"
		}
		desc["back"] = back
		out2 := common.EvalIn(scope, back)
		var reTerm string
		if out2.Err != "" {
			reTerm = "None"
			desc["contents"] = "error: " + out2.Err + ": " + out2.Msg
		} else {
			inst, isBag := out2.Value.(*flavors.Instance)
			if !isBag {
				ctx.Violate("making a bag from native data did not give a bag", desc, slip.ObjectString(out2.Value), "a bag")
				continue
			}
			t, fine := jvTerm(inst.Any)
			if !fine {
				ctx.Violate("a bag made from native data holds data outside the modelled kinds", desc, show(inst.Any), show(doc))
				continue
			}
			reTerm = "(Some " + t + ")"
			desc["contents"] = show(inst.Any)
		}
		h.add(fmt.Sprintf("CNative %s %s %s", vterm, natTerm, reTerm), desc, "N|"+vterm)
	}
}

// stripForNative rewrites a document into the shape that survives the native round trip: no false, no
// json.Number that fits an int64, no empty containers.
func stripForNative(v any) any {
	switch tv := v.(type) {
	case bool:
		return true
	case json.Number:
		if _, err := strconv.ParseInt(string(tv), 10, 64); err != nil && isIntLiteral(string(tv)) {
			return tv // beyond int64: a bignum in Lisp, a json.Number again on the way back
		}
		return int64(len(tv))
	case []any:
		if len(tv) == 0 {
			return []any{int64(0)}
		}
		out := make([]any, len(tv))
		for i, e := range tv {
			out[i] = stripForNative(e)
		}
		return out
	case map[string]any:
		if len(tv) == 0 {
			return map[string]any{"k": nil}
		}
		out := map[string]any{}
		for k, e := range tv {
			out[k] = stripForNative(e)
		}
		return out
	default:
		return v
	}
}

// ---- plain Go data -> Lisp objects -> plain Go data ------------------------------------------------

var ikinds = []string{"KInt", "KInt8", "KInt16", "KInt32", "KInt64", "KUint", "KUint8", "KUint16", "KUint32", "KUint64"}

// govTerm renders plain Go data as a Gallina gov (maps with sorted keys).
func govTerm(v any) (string, bool) {
	ok := true
	var b strings.Builder
	var walk func(v any)
	gint := func(kind string, z string) { b.WriteString("(GInt " + kind + " " + common.GZs(z) + ")") }
	walk = func(v any) {
		switch tv := v.(type) {
		case nil:
			b.WriteString("GNil")
		case bool:
			b.WriteString("(GBool " + common.GBool(tv) + ")")
		case int:
			gint("KInt", strconv.FormatInt(int64(tv), 10))
		case int8:
			gint("KInt8", strconv.FormatInt(int64(tv), 10))
		case int16:
			gint("KInt16", strconv.FormatInt(int64(tv), 10))
		case int32:
			gint("KInt32", strconv.FormatInt(int64(tv), 10))
		case int64:
			gint("KInt64", strconv.FormatInt(tv, 10))
		case uint:
			gint("KUint", strconv.FormatUint(uint64(tv), 10))
		case uint8:
			gint("KUint8", strconv.FormatUint(uint64(tv), 10))
		case uint16:
			gint("KUint16", strconv.FormatUint(uint64(tv), 10))
		case uint32:
			gint("KUint32", strconv.FormatUint(uint64(tv), 10))
		case uint64:
			gint("KUint64", strconv.FormatUint(tv, 10))
		case float64:
			if math.IsNaN(tv) {
				ok = false
			}
			b.WriteString("(GF64 " + gBytes(strconv.FormatFloat(tv, 'g', -1, 64)) + ")")
		case string:
			b.WriteString("(GStr " + gBytes(tv) + ")")
		case []byte:
			b.WriteString("(GBytes " + gBytes(string(tv)) + ")")
		case time.Time:
			b.WriteString("(GTime " + common.GZs(timeNanos(tv)) + ")")
		case json.Number:
			b.WriteString("(GNum " + gBytes(string(tv)) + ")")
		case []any:
			b.WriteString("(GSlice [")
			for i, e := range tv {
				if i > 0 {
					b.WriteString("; ")
				}
				walk(e)
			}
			b.WriteString("])")
		case map[string]any:
			keys := make([]string, 0, len(tv))
			for k := range tv {
				keys = append(keys, k)
			}
			sort.Strings(keys)
			b.WriteString("(GMap [")
			for i, k := range keys {
				if i > 0 {
					b.WriteString("; ")
				}
				b.WriteString("(" + gBytes(k) + ", ")
				walk(tv[k])
				b.WriteString(")")
			}
			b.WriteString("])")
		default:
			ok = false
			b.WriteString("GNil")
		}
	}
	walk(v)
	return b.String(), ok
}

func genGoScalar(r *common.Rng, guarded bool, hist func(string)) any {
	switch x := r.Intn(100); {
	case x < 8:
		hist("go:nil")
		return nil
	case x < 16:
		hist("go:bool")
		if guarded {
			return true
		}
		return r.Bool()
	case x < 50:
		hist("go:int")
		switch r.Intn(12) {
		case 0:
			return int(r.Intn(1000)) - 500
		case 1:
			return int8(r.Intn(256) - 128)
		case 2:
			return int16(r.Intn(65536) - 32768)
		case 3:
			return int32(int64(r.Next()>>33) - (1 << 30))
		case 4:
			return int64(r.Next() >> 1 >> uint(r.Intn(60)))
		case 5:
			return common.Pick(r, []int64{math.MinInt64, math.MaxInt64, 0, -1})
		case 6:
			return uint(r.Intn(100000))
		case 7:
			return uint8(r.Intn(256))
		case 8:
			return uint16(r.Intn(65536))
		case 9:
			return uint32(r.Next() >> 32)
		case 10:
			return uint64(r.Next() >> 1)
		default:
			if guarded {
				return uint64(math.MaxInt64)
			}
			hist("go:uint64-above-int64")
			return common.Pick(r, []any{uint64(1 << 63), uint64(math.MaxUint64), uint(1<<63 + 5), uint64(1<<63) + uint64(r.Intn(1000))})
		}
	case x < 60:
		hist("go:float64")
		return common.Pick(r, floatPool)
	case x < 66:
		hist("go:time")
		if r.Chance(50) {
			hist("go:time-outside-int64-nanoseconds-or-zoned")
			return common.Pick(r, edgeTimes())
		}
		return time.Unix(int64(r.Intn(2000000000)), int64(r.Intn(1000000000))).UTC()
	case x < 72:
		hist("go:bytes")
		return []byte(common.Pick(r, []string{"", "raw", "\x00\xff", "é"}))
	case x < 76:
		hist("go:json.Number")
		if guarded {
			return json.Number(common.Pick(r, []string{"0", "-1", "42", "9223372036854775807", "-9223372036854775808", "9223372036854775800"}))
		}
		return json.Number(common.Pick(r, bigNumPool))
	default:
		hist("go:string")
		return genString(r, genOpts{ambiguous: true, badUTF8: true}, func(string) {})
	}
}

func genGo(r *common.Rng, depth int, guarded bool, hist func(string)) any {
	if depth <= 0 || r.Chance(35) {
		return genGoScalar(r, guarded, hist)
	}
	n := r.Intn(4)
	if guarded || r.Chance(65) {
		hist("go:slice")
		out := make([]any, n)
		for i := range out {
			out[i] = genGo(r, depth-1, guarded, hist)
		}
		return out
	}
	hist("go:map")
	out := map[string]any{}
	for i := 0; i < n; i++ {
		out[common.Pick(r, keyPool)] = genGo(r, depth-1, guarded, hist)
	}
	return out
}

func (h *harness) bridgeStream(n int) {
	ctx := h.ctx
	for i := 0; i < n; i++ {
		guarded := ctx.Rng.Chance(60)
		g := genGo(ctx.Rng, ctx.Rng.Intn(5), guarded, ctx.Hist)
		gterm, ok := govTerm(g)
		if !ok {
			panic("generated Go value outside the modelled universe")
		}
		desc := map[string]any{"stream": "bridge", "go": fmt.Sprintf("%#v", g)}
		var obj slip.Object
		var back any
		fault := ""
		func() {
			defer func() {
				if rec := recover(); rec != nil {
					fault = fmt.Sprint(rec)
				}
			}()
			obj = sortPairs(slip.SimpleObject(g))
			back = slip.Simplify(obj)
		}()
		if fault != "" {
			ctx.Violate("SimpleObject/Simplify panicked on plain Go data", desc, fault, "a value")
			continue
		}
		oterm, ok1 := lobjTerm(obj)
		bterm, ok2 := govTerm(back)
		desc["object"] = slip.ObjectString(obj)
		desc["back"] = fmt.Sprintf("%#v", back)
		if !ok1 || !ok2 {
			ctx.Violate("SimpleObject/Simplify left the plain data kinds", desc, desc["back"], desc["go"])
			continue
		}
		h.add(fmt.Sprintf("CBridge %s %s %s", gterm, oterm, bterm), desc, "G|"+gterm)
	}
	// floats of both widths and times with zones: judged on the implementation alone
	for _, f := range []float32{0.5, 1.25, -3.5, 1e10, 16777216} {
		got := slip.Simplify(slip.SimpleObject(f))
		if gf, isF := got.(float64); !isF || gf != float64(f) {
			ctx.Violate("float32 does not survive SimpleObject/Simplify as the same number", f, got, float64(f))
		}
		ctx.Meta.Evaluations++
	}
	for _, f := range append([]float64{0, 1, -2, 1500, math.Inf(1), math.Inf(-1), math.MaxFloat64, math.SmallestNonzeroFloat64}, floatPool...) {
		got := slip.Simplify(slip.SimpleObject(f))
		if gf, isF := got.(float64); !isF || gf != f {
			ctx.Violate("float64 does not survive SimpleObject/Simplify", f, got, f)
		}
		ctx.Meta.Evaluations++
	}
	for _, t := range edgeTimes() {
		got := slip.Simplify(slip.SimpleObject(t))
		if gt, isT := got.(time.Time); !isT || !sameTime(gt, t) {
			ctx.Violate("time.Time does not survive SimpleObject/Simplify", t.Format(time.RFC3339Nano), fmt.Sprint(got), t.String())
		}
		ctx.Meta.Evaluations++
		ctx.Hist("time:bridge")
	}
	h.timeStream()
}

// replayKnownGo replays the known findings whose witness is Go-level.
func (h *harness) replayKnownGo() {
	ctx := h.ctx
	if _, ok := ctx.Known["C18-invalid-utf8-replaced"]; ok {
		scope := slip.NewScope()
		scope.Let(slip.Symbol("b"), newBag("a\xffb"))
		out := common.EvalIn(scope, "(make-bag (bag-write b :json t :pretty nil :depth 0))")
		got := "error"
		if inst, isBag := out.Value.(*flavors.Instance); isBag && out.Err == "" {
			got = strconv.QuoteToASCII(fmt.Sprint(inst.Any))
		}
		ctx.KnownResult("C18-invalid-utf8-replaced", got != strconv.QuoteToASCII("a\xffb"), got)
	}
	if _, ok := ctx.Known["C18-int64-limit-depends-on-chunking"]; ok {
		kind := func(in slip.Object) string {
			scope := slip.NewScope()
			scope.Let(slip.Symbol("in"), in)
			scope.Let(slip.Symbol("got"), nil)
			out := common.EvalIn(scope, "(progn (json-parse (lambda (x) (setq got x)) in) got)")
			if inst, isBag := out.Value.(*flavors.Instance); isBag && out.Err == "" {
				return fmt.Sprintf("%T", inst.Any)
			}
			return "error"
		}
		whole := kind(slip.String("9223372036854775807"))
		cut := kind(slip.NewInputStream(&chunkReader{data: []byte("9223372036854775807"), r: ctx.Rng}))
		ctx.KnownResult("C18-int64-limit-depends-on-chunking", whole != cut, "one buffer: "+whole+", small reads: "+cut)
	}
	if _, ok := ctx.Known["C18-bridge-false"]; ok {
		got := slip.Simplify(slip.SimpleObject(false))
		ctx.KnownResult("C18-bridge-false", got == nil, fmt.Sprint(got))
	}
	if _, ok := ctx.Known["C18-bridge-map"]; ok {
		got := slip.Simplify(slip.SimpleObject(map[string]any{"a": 1}))
		_, isMap := got.(map[string]any)
		ctx.KnownResult("C18-bridge-map", !isMap, fmt.Sprint(got))
	}
	if _, ok := ctx.Known["C18-bridge-uint64"]; ok {
		got := slip.Simplify(slip.SimpleObject(uint64(1 << 63)))
		_, wrapped := got.(int64)
		ctx.KnownResult("C18-bridge-uint64", wrapped, fmt.Sprintf("%T %v", got, got))
	}
	if _, ok := ctx.Known["C18-bridge-bignum-string"]; ok {
		got := slip.Simplify(slip.SimpleObject(uint64(1 << 63)))
		_, isStr := got.(string)
		ctx.KnownResult("C18-bridge-bignum-string", isStr, fmt.Sprintf("%T %v", got, got))
	}
}

// timeNanos: nanoseconds since the Unix epoch as a decimal string of any size (UnixNano wraps outside 1677..2262).
func timeNanos(t time.Time) string {
	n := new(big.Int).Mul(big.NewInt(t.Unix()), big.NewInt(1000000000))
	n.Add(n, big.NewInt(int64(t.Nanosecond())))
	return n.String()
}

// sameTime: the same instant in a zone with the same name and offset.
func sameTime(a, b time.Time) bool {
	an, ao := a.Zone()
	bn, bo := b.Zone()
	return a.Equal(b) && ao == bo && an == bn && a.Nanosecond() == b.Nanosecond() && a.Unix() == b.Unix()
}

// edgeTimes: the zero time, years far outside and just around the range an int64 of nanoseconds can hold
// (1677-09-21 .. 2262-04-11), fractions of a second, times before year 1 and non-UTC zones.
func edgeTimes() []time.Time {
	east := time.FixedZone("EAST", 5*3600+1800)
	west := time.FixedZone("WEST", -8*3600)
	base := []time.Time{
		{},
		time.Date(1, 1, 1, 0, 0, 0, 1, time.UTC),
		time.Date(-44, 3, 15, 12, 0, 0, 0, time.UTC),
		time.Date(1000, 7, 4, 1, 2, 3, 456789012, time.UTC),
		time.Date(1500, 6, 1, 12, 0, 0, 0, time.UTC),
		time.Date(1676, 12, 31, 23, 59, 59, 999999999, time.UTC),
		time.Date(1677, 9, 21, 0, 12, 43, 0, time.UTC),
		time.Date(1677, 9, 21, 0, 12, 44, 0, time.UTC),
		time.Date(1678, 1, 1, 0, 0, 0, 0, time.UTC),
		time.Unix(0, 0).UTC(),
		time.Date(1969, 7, 20, 20, 17, 0, 5, time.UTC),
		time.Date(2024, 2, 29, 23, 59, 59, 999999999, time.UTC),
		time.Date(2262, 4, 11, 23, 47, 16, 854775807, time.UTC),
		time.Date(2262, 4, 11, 23, 47, 17, 0, time.UTC),
		time.Date(2263, 1, 1, 0, 0, 0, 0, time.UTC),
		time.Date(2500, 12, 25, 6, 30, 0, 0, time.UTC),
		time.Date(9999, 12, 31, 23, 59, 59, 0, time.UTC),
	}
	out := append([]time.Time(nil), base...)
	for i, t := range base {
		if i%2 == 0 {
			out = append(out, t.In(east))
		} else {
			out = append(out, t.In(west))
		}
	}
	return out
}

// timeStream: times in bags, judged on the implementation alone: bag-set stores the instant and zone it was
// given (alone, in a list, in an assoc list), bag-get and bag-native give it back, bag-write with a layout writes
// what Go's own Format gives, with and without :time-wrap.
func (h *harness) timeStream() {
	ctx := h.ctx
	const layout = "2006-01-02T15:04:05.999999999Z07:00"
	for _, t := range edgeTimes() {
		in := map[string]any{"time": t.Format(layout)}
		scope := slip.NewScope()
		scope.Let(slip.Symbol("tm"), slip.Time(t))
		inst := newBag(map[string]any{})
		scope.Let(slip.Symbol("b"), inst)
		out := common.EvalIn(scope, "(progn (bag-set b tm \"t\") (bag-set b (list tm 1) \"l\") (bag-set b (list (cons \"k\" tm)) \"m\") (bag-get b \"t\"))")
		ctx.Meta.Evaluations++
		ctx.Hist("time:bag")
		if out.Err != "" {
			ctx.Violate("bag-set / bag-get of a time failed", in, out.Err+": "+out.Msg, "the time")
			continue
		}
		m, _ := inst.Any.(map[string]any)
		stored := []any{m["t"]}
		if l, ok := m["l"].([]any); ok && len(l) == 2 {
			stored = append(stored, l[0])
		} else {
			stored = append(stored, nil)
		}
		if mm, ok := m["m"].(map[string]any); ok {
			stored = append(stored, mm["k"])
		} else {
			stored = append(stored, nil)
		}
		for i, sv := range stored {
			if st, ok := sv.(time.Time); !ok || !sameTime(st, t) {
				ctx.Violate("bag-set does not store the time it was given", map[string]any{"time": t.Format(layout), "where": []string{"t", "l[0]", "m.k"}[i]}, fmt.Sprint(sv), t.String())
			}
		}
		if gt, ok := out.Value.(slip.Time); !ok || !sameTime(time.Time(gt), t) {
			ctx.Violate("bag-get does not return the time that was set", in, slip.ObjectString(out.Value), t.Format(layout))
		}
		nat := common.EvalIn(scope, "(cdr (assoc \"t\" (bag-native b) :test 'equal))")
		if gt, ok := nat.Value.(slip.Time); nat.Err == "" && (!ok || !sameTime(time.Time(gt), t)) {
			ctx.Violate("bag-native does not give the time in the bag", in, slip.ObjectString(nat.Value), t.Format(layout))
		}
		inst.Any = map[string]any{"t": t}
		for _, w := range []struct{ args, want string }{
			{":pretty nil :depth 0 :json t :time-format \"" + layout + "\"", "{\"t\":\"" + t.Format(layout) + "\"}"},
			{":pretty nil :depth 0 :time-format \"" + layout + "\"", "{t:\"" + t.Format(layout) + "\"}"},
			{":pretty nil :depth 0 :json t :time-format \"" + layout + "\" :time-wrap \"@\"", "{\"t\":{\"@\":\"" + t.Format(layout) + "\"}}"},
			{":pretty t :depth 3 :json t :time-format \"" + layout + "\"", "{\"t\": \"" + t.Format(layout) + "\"}"},
		} {
			wo := common.EvalIn(scope, "(bag-write b "+w.args+")")
			ctx.Meta.Evaluations++
			if txt, ok := wo.Value.(slip.String); wo.Err != "" || !ok || string(txt) != w.want {
				ctx.Violate("bag-write of a time with a layout differs from Go's Format", map[string]any{"time": t.Format(layout), "write": w.args}, common.ShowOutcome(wo), w.want)
			}
		}
	}
}
