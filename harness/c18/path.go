package c18

import (
	"fmt"
	"math/big"
	"sort"
	"strconv"
	"strings"
	"time"

	"github.com/ohler55/slip"
	"github.com/ohler55/slip/pkg/flavors"
	"verifharness/common"
)

// ---- Lisp objects <-> Gallina lobj ---------------------------------------------------------------

// isPair reports whether o is List{String, Tail{...}}, the shape SimpleObject gives a map entry.
func isPair(o slip.Object) (string, bool) {
	l, ok := o.(slip.List)
	if !ok || len(l) != 2 {
		return "", false
	}
	k, isStr := l[0].(slip.String)
	if !isStr {
		return "", false
	}
	if _, isTail := l[1].(slip.Tail); !isTail {
		return "", false
	}
	return string(k), true
}

// sortPairs returns a copy of o in which every list made only of map-entry pairs is sorted by key
// (SimpleObject ranges over a Go map, so their order is arbitrary).
func sortPairs(o slip.Object) slip.Object {
	switch to := o.(type) {
	case slip.List:
		out := make(slip.List, len(to))
		all := len(to) > 0
		for i, e := range to {
			out[i] = sortPairs(e)
			if _, ok := isPair(e); !ok {
				all = false
			}
		}
		if all {
			sort.SliceStable(out, func(i, j int) bool {
				a, _ := isPair(out[i])
				b, _ := isPair(out[j])
				return a < b
			})
		}
		return out
	case slip.Tail:
		return slip.Tail{Value: sortPairs(to.Value)}
	default:
		return o
	}
}

// lobjTerm renders a Lisp object as a Gallina lobj; ok is false outside the modelled fragment.
func lobjTerm(o slip.Object) (string, bool) {
	ok := true
	var b strings.Builder
	var walk func(o slip.Object)
	walk = func(o slip.Object) {
		switch to := o.(type) {
		case nil:
			b.WriteString("LNil")
		case slip.Fixnum:
			b.WriteString("(LFix " + common.GZ(int64(to)) + ")")
		case *slip.Bignum:
			b.WriteString("(LBig " + common.GZs((*big.Int)(to).String()) + ")")
		case *slip.LongFloat:
			b.WriteString("(LLong " + gBytes(to.String()) + ")")
		case slip.Octet:
			b.WriteString("(LOctet " + common.GZ(int64(to)) + ")")
		case slip.DoubleFloat:
			b.WriteString("(LDouble " + gBytes(strconv.FormatFloat(float64(to), 'g', -1, 64)) + ")")
		case slip.String:
			b.WriteString("(LStr " + gBytes(string(to)) + ")")
		case slip.Symbol:
			b.WriteString("(LSym " + gBytes(string(to)) + ")")
		case slip.Time:
			b.WriteString("(LTime " + common.GZs(timeNanos(time.Time(to))) + ")")
		case slip.List:
			b.WriteString("(LList [")
			for i, e := range to {
				if i > 0 {
					b.WriteString("; ")
				}
				walk(e)
			}
			b.WriteString("])")
		case slip.Tail:
			b.WriteString("(LTail ")
			walk(to.Value)
			b.WriteString(")")
		default:
			if o == slip.True {
				b.WriteString("LT")
			} else {
				ok = false
				b.WriteString("LNil")
			}
		}
	}
	walk(o)
	return b.String(), ok
}

// ---- values stored with bag-set ---------------------------------------------------------------

func genLispScalar(r *common.Rng, hist func(string)) slip.Object {
	switch x := r.Intn(100); {
	case x < 8:
		hist("setval:nil")
		return nil
	case x < 14:
		hist("setval:t")
		return slip.True
	case x < 20:
		hist("setval::false")
		return slip.Symbol(common.Pick(r, []string{":false", ":FALSE", ":False"}))
	case x < 46:
		hist("setval:int")
		return slip.Fixnum(common.Pick(r, []int64{0, 1, -1, 7, 42, -300, 1 << 40, 9223372036854775807, -9223372036854775808}))
	case x < 50:
		// a bignum: stored as a json.Number beyond int64, as an int64 when it fits
		hist("setval:bignum")
		bi, _ := new(big.Int).SetString(common.Pick(r, []string{"9223372036854775808", "-9223372036854775809", "12345678901234567890",
			"340282366920938463463374607431768211456", "-99999999999999999999999", "9223372036854775807", "-5"}), 10)
		return (*slip.Bignum)(bi)
	case x < 60:
		hist("setval:float")
		return slip.DoubleFloat(common.Pick(r, []float64{0.5, -2.25, 1e-7, 3.14159, 1e100}))
	case x < 68:
		hist("setval:symbol")
		return slip.Symbol(common.Pick(r, []string{"sym", ":key", "abc", "false", "nil-ish"}))
	default:
		hist("setval:string")
		return slip.String(common.Pick(r, []string{"v", "new", "", "x y", "true", "é", "a\"b", "-1", "line\n"}))
	}
}

func genLispValue(r *common.Rng, depth int, hist func(string)) slip.Object {
	if depth <= 0 || r.Chance(55) {
		return genLispScalar(r, hist)
	}
	n := 1 + r.Intn(3)
	if r.Bool() {
		hist("setval:list")
		out := make(slip.List, n)
		for i := range out {
			out[i] = genLispValue(r, depth-1, hist)
		}
		// a list that starts with a dotted pair is taken for an assoc list: keep the first element from being one
		return out
	}
	hist("setval:alist")
	out := make(slip.List, 0, n)
	used := map[string]bool{}
	for i := 0; i < n; i++ {
		k := common.Pick(r, keyPool)
		if used[k] && r.Chance(70) {
			continue
		}
		used[k] = true
		var key slip.Object = slip.String(k)
		if r.Chance(30) {
			key = slip.Symbol(k)
		}
		out = append(out, slip.List{key, slip.Tail{Value: genLispValue(r, depth-1, hist)}})
	}
	return out
}

// hasEdgeInt: fixnums the parser reads back as json.Number (known finding C18-int64-edge-becomes-number)
func hasEdgeInt(o slip.Object) bool {
	switch to := o.(type) {
	case slip.Fixnum:
		return int64(to) >= 9223372036854775800 || int64(to) == -9223372036854775808
	case *slip.Bignum:
		bi := (*big.Int)(to)
		return bi.IsInt64() && (bi.Int64() >= 9223372036854775800 || bi.Int64() == -9223372036854775808)
	case slip.List:
		for _, e := range to {
			if hasEdgeInt(e) {
				return true
			}
		}
	case slip.Tail:
		return hasEdgeInt(to.Value)
	}
	return false
}

// ---- paths ---------------------------------------------------------------------------------------

type frag struct {
	kind byte // 'k' key, 'i' index, '*' wildcard, 'd' descent
	key  string
	idx  int
}

func fragsTerm(p []frag) string {
	items := make([]string, len(p))
	for i, f := range p {
		switch f.kind {
		case 'k':
			items[i] = "FKey " + gBytes(f.key)
		case 'i':
			items[i] = "FIdx " + common.GZ(int64(f.idx))
		case '*':
			items[i] = "FWild"
		default:
			items[i] = "FDesc"
		}
	}
	return "[" + strings.Join(items, "; ") + "]"
}

// pathString spells a path in JSONPath syntax, choosing among equivalent spellings.
func pathString(r *common.Rng, p []frag) string {
	var b strings.Builder
	root := r.Chance(25)
	if root {
		b.WriteString("$")
	}
	afterDesc := false
	for i, f := range p {
		first := i == 0 && !root
		switch f.kind {
		case 'k':
			if r.Chance(20) {
				b.WriteString("['" + f.key + "']")
			} else {
				if !first && !afterDesc {
					b.WriteString(".")
				}
				b.WriteString(f.key)
			}
			afterDesc = false
		case 'i':
			b.WriteString("[" + strconv.Itoa(f.idx) + "]")
			afterDesc = false
		case '*':
			if r.Bool() {
				b.WriteString("[*]")
			} else {
				if !first && !afterDesc {
					b.WriteString(".")
				}
				b.WriteString("*")
			}
			afterDesc = false
		default:
			b.WriteString("..")
			afterDesc = true
		}
	}
	return b.String()
}

type located struct {
	path []frag
	node any
}

// allNodes lists every node of doc with the concrete path to it.
func allNodes(doc any) []located {
	var out []located
	var walk func(p []frag, v any)
	walk = func(p []frag, v any) {
		out = append(out, located{append([]frag(nil), p...), v})
		switch tv := v.(type) {
		case []any:
			for i, e := range tv {
				walk(append(p, frag{kind: 'i', idx: i}), e)
			}
		case map[string]any:
			for _, k := range common.SortedKeys(tv) {
				walk(append(p, frag{kind: 'k', key: k}), tv[k])
			}
		}
	}
	walk(nil, doc)
	return out
}

func nChildren(v any) int {
	switch tv := v.(type) {
	case []any:
		return len(tv)
	case map[string]any:
		return len(tv)
	}
	return -1
}

// negate rewrites some indices of a concrete path of doc as indices from the end.
func negate(r *common.Rng, doc any, p []frag) []frag {
	out := append([]frag(nil), p...)
	cur := doc
	for i, f := range out {
		switch tc := cur.(type) {
		case []any:
			if f.kind == 'i' && f.idx >= 0 && f.idx < len(tc) {
				cur = tc[f.idx]
				if r.Chance(35) {
					out[i].idx = f.idx - len(tc)
				}
				continue
			}
		case map[string]any:
			if f.kind == 'k' {
				cur = tc[f.key]
				continue
			}
		}
		break
	}
	return out
}

// genTargetPath aims at something specific in doc: a null / false / empty-container node (where has and get
// differ most easily), any node, or all children of a container with several children (wildcard last or
// followed by one more fragment).
func genTargetPath(r *common.Rng, doc any, allowMulti bool, hist func(string)) []frag {
	nodes := allNodes(doc)
	if len(nodes) <= 1 {
		return nil
	}
	if allowMulti && r.Chance(45) {
		var big []located
		for _, n := range nodes {
			if nChildren(n.node) >= 2 {
				big = append(big, n)
			}
		}
		if len(big) > 0 {
			n := common.Pick(r, big)
			p := append(negate(r, doc, n.path), frag{kind: '*'})
			hist("target:wildcard-over-several")
			if r.Chance(40) {
				// one more fragment that exists below some child
				var below []frag
				for _, m := range nodes {
					if len(m.path) == len(n.path)+2 {
						same := true
						for i := range n.path {
							if m.path[i] != n.path[i] {
								same = false
							}
						}
						if same {
							below = append(below, m.path[len(m.path)-1])
						}
					}
				}
				if len(below) > 0 {
					p = append(p, common.Pick(r, below))
				}
			}
			return p
		}
	}
	var special []located
	for _, n := range nodes[1:] {
		switch tv := n.node.(type) {
		case nil:
			special = append(special, n)
		case bool:
			if !tv {
				special = append(special, n)
			}
		default:
			if nChildren(n.node) == 0 {
				special = append(special, n)
			}
		}
	}
	if len(special) > 0 && r.Chance(60) {
		hist("target:null-false-empty")
		return negate(r, doc, common.Pick(r, special).path)
	}
	hist("target:node")
	return negate(r, doc, nodes[1+r.Intn(len(nodes)-1)].path)
}

// genPath walks down doc: mostly existing members (indices also counted from the end), sometimes a missing
// key, an index out of range, a fragment of the wrong kind, a wildcard or a descent.
func genPath(r *common.Rng, doc any, allowMulti, mutating bool, hist func(string)) []frag {
	if r.Chance(35) {
		if p := genTargetPath(r, doc, allowMulti, hist); p != nil {
			return p
		}
	}
	var p []frag
	cur := doc
	exists := true
	maxLen := 1 + r.Intn(5)
	for len(p) < maxLen {
		if !exists && len(p) > 0 && r.Chance(60) {
			break // mostly one step beyond what exists
		}
		x := r.Intn(100)
		if allowMulti && x < 10 {
			hist("frag:wildcard")
			p = append(p, frag{kind: '*'})
			// continue below some child
			switch tc := cur.(type) {
			case []any:
				if len(tc) > 0 {
					cur = tc[r.Intn(len(tc))]
				} else {
					cur, exists = nil, false
				}
			case map[string]any:
				if len(tc) > 0 {
					cur = tc[common.Pick(r, common.SortedKeys(tc))]
				} else {
					cur, exists = nil, false
				}
			default:
				cur, exists = nil, false
			}
			continue
		}
		hasWild := false
		for _, f := range p {
			if f.kind == '*' {
				hasWild = true
			}
		}
		// ojg follows only one branch of a wildcard once a descent comes after it - set/modify/remove and also
		// get/has/walk (known findings C18-wildcard-descent-single-branch, C18-wildcard-descent-get; over an object
		// which branch depends on map order): such paths are outside the model and are not generated
		_ = mutating
		if allowMulti && x < 15 && (len(p) == 0 || p[len(p)-1].kind != 'd') && !hasWild {
			hist("frag:descent")
			p = append(p, frag{kind: 'd'})
			maxLen++
			// afterwards any key of the pool / wildcard
			if r.Chance(70) {
				p = append(p, frag{kind: 'k', key: common.Pick(r, keyPool)})
			} else if r.Bool() {
				p = append(p, frag{kind: '*'})
			}
			cur, exists = nil, false
			continue
		}
		switch tc := cur.(type) {
		case map[string]any:
			keys := common.SortedKeys(tc)
			switch {
			case x < 75 && len(keys) > 0:
				hist("frag:key-present")
				k := common.Pick(r, keys)
				p = append(p, frag{kind: 'k', key: k})
				cur = tc[k]
			case x < 92:
				hist("frag:key-missing")
				k := common.Pick(r, keyPool)
				p = append(p, frag{kind: 'k', key: k})
				if c, has := tc[k]; has {
					cur = c
				} else {
					cur, exists = nil, false
				}
			default:
				hist("frag:index-at-object")
				p = append(p, frag{kind: 'i', idx: r.Intn(3) - 1})
				cur, exists = nil, false
			}
		case []any:
			n := len(tc)
			switch {
			case x < 45 && n > 0:
				hist("frag:index")
				i := r.Intn(n)
				p = append(p, frag{kind: 'i', idx: i})
				cur = tc[i]
			case x < 75 && n > 0:
				hist("frag:index-negative")
				i := r.Intn(n)
				p = append(p, frag{kind: 'i', idx: i - n})
				cur = tc[i]
			case x < 92:
				hist("frag:index-out-of-range")
				i := n + r.Intn(2)
				if r.Bool() {
					i = -n - 1 - r.Intn(2)
				}
				p = append(p, frag{kind: 'i', idx: i})
				cur, exists = nil, false
			default:
				hist("frag:key-at-array")
				p = append(p, frag{kind: 'k', key: common.Pick(r, keyPool)})
				cur, exists = nil, false
			}
		default:
			// below a scalar or in a part that does not exist (yet)
			if x < 60 {
				if exists {
					hist("frag:key-below-scalar")
				} else {
					hist("frag:key-new")
				}
				p = append(p, frag{kind: 'k', key: common.Pick(r, keyPool)})
			} else {
				if exists {
					hist("frag:index-below-scalar")
				} else {
					hist("frag:index-new")
				}
				p = append(p, frag{kind: 'i', idx: r.Intn(4) - 1})
			}
			cur, exists = nil, false
		}
	}
	return p
}

type stepRec struct {
	Lisp   string `json:"lisp"`
	Value  string `json:"value,omitempty"`
	Before string `json:"before"`
	After  string `json:"after"`
	Result string `json:"result,omitempty"`
	Err    string `json:"error,omitempty"`
}

func (h *harness) pathStream(nHist int) {
	ctx := h.ctx
	for k := 0; k < nHist; k++ {
		o := genOpts{maxDepth: 4, bigNums: ctx.Rng.Chance(30), floats: true, simpleKeys: true, moreNulls: true}
		doc := genDoc(ctx.Rng, o, 1+ctx.Rng.Intn(4), ctx.Hist)
		if ctx.Rng.Chance(4) {
			doc = genScalar(ctx.Rng, o, ctx.Hist) // a bag holding a scalar or nothing
		}
		inst := newBag(doc)
		scope := slip.NewScope()
		scope.Let(slip.Symbol("b"), inst)
		scope.Let(slip.Symbol("val"), nil)
		scope.Let(slip.Symbol("acc"), nil)
		scope.Let(slip.Symbol("pth"), nil)
		nOps := 1 + ctx.Rng.Intn(6)
		for step := 0; step < nOps; step++ {
			if tooDeep(inst.Any, 0) {
				break // reported when it arose
			}
			pre := deepCopy(inst.Any)
			preTerm, preOK := jvTerm(pre)
			if !preOK {
				break // left the modelled universe (e.g. a symbol value that became something else)
			}
			x := ctx.Rng.Intn(100)
			var opTerm, lisp, valShown string
			var isRead, isWalk, asBags bool
			pathArg := func(p []frag) string {
				ps := pathString(ctx.Rng, p)
				if ctx.Rng.Chance(15) {
					scope.Set(slip.Symbol("pth"), slip.String(ps))
					return "(make-bag-path pth)"
				}
				return strconv.Quote(ps)
			}
			switch {
			case x < 40:
				multi := ctx.Rng.Chance(25)
				p := genPath(ctx.Rng, pre, multi, true, ctx.Hist)
				var v slip.Object
				concrete := true
				for _, f := range p {
					if f.kind == '*' || f.kind == 'd' {
						concrete = false
					}
				}
				if concrete {
					v = genLispValue(ctx.Rng, 2, ctx.Hist)
				} else {
					v = genLispScalar(ctx.Rng, ctx.Hist)
				}
				scope.Set(slip.Symbol("val"), v)
				vt, ok := lobjTerm(v)
				if !ok {
					panic("generated Lisp value outside the modelled fragment")
				}
				valShown = slip.ObjectString(v)
				opTerm = fmt.Sprintf("(OSet %s %s)", fragsTerm(p), vt)
				_, isStr := v.(slip.String)
				if ctx.Rng.Chance(12) && !isStr && !hasEdgeInt(v) {
					// the same through the text: parse the JSON text of the value at the path
					lisp = "(bag-parse b (bag-write (make-bag val) :pretty nil :depth 0 :json t) " + pathArg(p) + ")"
					ctx.Hist("op:parse-at-path")
				} else if ctx.Rng.Chance(25) {
					lisp = "(send b :set val " + pathArg(p) + ")"
				} else {
					lisp = "(bag-set b val " + pathArg(p) + ")"
				}
				ctx.Hist("op:set")
			case x < 58:
				p := genPath(ctx.Rng, pre, ctx.Rng.Chance(30), false, ctx.Hist)
				opTerm = "(OGet " + fragsTerm(p) + ")"
				if ctx.Rng.Chance(25) {
					lisp = "(send b :get " + pathArg(p) + ")"
				} else {
					lisp = "(bag-get b " + pathArg(p) + ")"
				}
				isRead = true
				ctx.Hist("op:get")
			case x < 72:
				p := genPath(ctx.Rng, pre, ctx.Rng.Chance(30), false, ctx.Hist)
				opTerm = "(OHas " + fragsTerm(p) + ")"
				if ctx.Rng.Chance(25) {
					lisp = "(send b :has " + pathArg(p) + ")"
				} else {
					lisp = "(bag-has b " + pathArg(p) + ")"
				}
				isRead = true
				ctx.Hist("op:has")
			case x < 78:
				p := genPath(ctx.Rng, pre, ctx.Rng.Chance(30), true, ctx.Hist)
				if ctx.Rng.Chance(45) {
					// the function's result is converted like a value given to bag-set: the identity (the match as
					// native data, back again) or a constant list / assoc list / :false / bignum
					fn := "(lambda (x) x)"
					ft := "MId"
					if ctx.Rng.Chance(50) {
						v := genLispValue(ctx.Rng, 2, ctx.Hist)
						scope.Set(slip.Symbol("val"), v)
						vt, ok := lobjTerm(v)
						if !ok {
							panic("generated Lisp value outside the modelled fragment")
						}
						valShown = slip.ObjectString(v)
						fn = "(lambda (x) val)"
						ft = "(MConst " + vt + ")"
						ctx.Hist("op:modify-constant")
					} else {
						ctx.Hist("op:modify-identity")
					}
					opTerm = fmt.Sprintf("(OModifyFn %s %s)", fragsTerm(p), ft)
					if ctx.Rng.Chance(25) {
						lisp = "(send b :modify " + fn + " " + pathArg(p) + ")"
					} else {
						lisp = "(bag-modify b " + fn + " " + pathArg(p) + ")"
					}
					break
				}
				z := int64(ctx.Rng.Intn(1000)) + 1000
				opTerm = fmt.Sprintf("(OModify %s %s)", fragsTerm(p), common.GZ(z))
				if ctx.Rng.Chance(25) {
					lisp = fmt.Sprintf("(send b :modify (lambda (x) %d) %s)", z, pathArg(p))
				} else {
					lisp = fmt.Sprintf("(bag-modify b (lambda (x) %d) %s)", z, pathArg(p))
				}
				ctx.Hist("op:modify")
			case x < 92:
				p := genPath(ctx.Rng, pre, ctx.Rng.Chance(25), true, ctx.Hist)
				opTerm = "(ORemove " + fragsTerm(p) + ")"
				if ctx.Rng.Chance(25) {
					lisp = "(send b :remove " + pathArg(p) + ")"
				} else {
					lisp = "(bag-remove b " + pathArg(p) + ")"
				}
				ctx.Hist("op:remove")
			default:
				var p []frag
				if ctx.Rng.Chance(30) {
					p = []frag{{kind: 'd'}}
				} else {
					p = genPath(ctx.Rng, pre, true, false, ctx.Hist)
				}
				opTerm = "(OWalk " + fragsTerm(p) + ")"
				scope.Set(slip.Symbol("acc"), nil)
				if len(p) == 1 && p[0].kind == 'd' && ctx.Rng.Bool() {
					lisp = "(progn (bag-walk b (lambda (x) (setq acc (cons x acc)))) (reverse acc))"
				} else if ctx.Rng.Chance(25) {
					// the matches delivered as bags, kept and looked at afterwards
					asBags = true
					if ctx.Rng.Bool() {
						lisp = "(progn (bag-walk b (lambda (x) (setq acc (cons x acc))) " + pathArg(p) + " t) (reverse acc))"
					} else {
						lisp = "(bag-get-all b " + pathArg(p) + common.Pick(ctx.Rng, []string{"", " :bag-list"}) + ")"
					}
					ctx.Hist("op:walk-as-bags")
				} else if ctx.Rng.Chance(35) {
					lisp = "(bag-get-all b " + pathArg(p) + " :native)"
				} else if ctx.Rng.Chance(25) {
					lisp = "(progn (send b :walk (lambda (x) (setq acc (cons x acc))) " + pathArg(p) + ") (reverse acc))"
				} else {
					lisp = "(progn (bag-walk b (lambda (x) (setq acc (cons x acc))) " + pathArg(p) + ") (reverse acc))"
				}
				isRead, isWalk = true, true
				ctx.Hist("op:walk")
			}
			out := common.EvalTimeout(scope, lisp, 5*time.Second)
			if tooDeep(inst.Any, 0) {
				ctx.Violate("a bag operation left the bag containing itself (a cycle)", stepRec{Lisp: lisp, Value: valShown, Before: show(pre)}, "cyclic contents", "JSON data")
				break
			}
			post := deepCopy(inst.Any)
			postTerm, postOK := jvTerm(post)
			rec := stepRec{Lisp: lisp, Value: valShown, Before: show(pre), After: show(post)}
			errFlag := out.Err != ""
			if errFlag {
				rec.Err = out.Err + ": " + out.Msg
				if out.Err == "timeout" || common.Fault(out.Msg) {
					ctx.Violate("a bag operation faulted or hung", rec, rec.Err, "a value or a Lisp condition")
					break
				}
			}
			var resTerms []string
			resOK := true
			if isRead && !errFlag {
				if isWalk {
					l, _ := out.Value.(slip.List)
					seenBag := map[*flavors.Instance]bool{}
					for _, e := range l {
						if asBags {
							inst, isBag := e.(*flavors.Instance)
							if !isBag {
								resOK = false
								break
							}
							if seenBag[inst] {
								ctx.Violate("the same bag instance was delivered for two matches", rec, "one instance twice", "a bag per match")
							}
							seenBag[inst] = true
							e = slip.SimpleObject(inst.Any)
						}
						t, ok := lobjTerm(sortPairs(e))
						resOK = resOK && ok
						resTerms = append(resTerms, t)
					}
				} else {
					t, ok := lobjTerm(sortPairs(out.Value))
					resOK = resOK && ok
					resTerms = append(resTerms, t)
				}
				rec.Result = slip.ObjectString(out.Value)
			}
			if !postOK || !resOK {
				ctx.Violate("a bag operation produced data outside the modelled kinds", rec, rec.After+" / "+rec.Result, "JSON data")
				break
			}
			term := fmt.Sprintf("CPath %s %s %s %s %s", preTerm, opTerm, common.GBool(errFlag), postTerm, common.GList(resTerms))
			h.add(term, map[string]any{"stream": "path", "step": rec, "history-step": step}, "H|"+preTerm+"|"+opTerm)
		}
	}
}
