package c18

import (
	"os"
	"path/filepath"
	"regexp"
	"runtime/debug"
	"strconv"
	"strings"
)

// ojgSourceTables re-reads the class tables from the ojg source of the version this binary was built
// against (module cache); found is false when the source is not on this machine.
func ojgSourceTables() (version string, tables map[string]string, found bool) {
	info, ok := debug.ReadBuildInfo()
	if !ok {
		return "", nil, false
	}
	for _, d := range info.Deps {
		if d.Path == "github.com/ohler55/ojg" {
			version = d.Version
			if d.Replace != nil {
				version = d.Replace.Version
			}
		}
	}
	if version == "" {
		return "", nil, false
	}
	var roots []string
	if v := os.Getenv("GOMODCACHE"); v != "" {
		roots = append(roots, v)
	}
	if v := os.Getenv("GOPATH"); v != "" {
		roots = append(roots, filepath.Join(v, "pkg", "mod"))
	}
	if h, err := os.UserHomeDir(); err == nil {
		roots = append(roots, filepath.Join(h, "go", "pkg", "mod"))
	}
	roots = append(roots, "/root/go/pkg/mod")
	for _, r := range roots {
		dir := filepath.Join(r, "github.com", "ohler55", "ojg@"+version)
		a, err1 := os.ReadFile(filepath.Join(dir, "string.go"))
		b, err2 := os.ReadFile(filepath.Join(dir, "sen", "maps.go"))
		if err1 != nil || err2 != nil {
			continue
		}
		tables = map[string]string{}
		for name := range ojgTables {
			src := string(b)
			if name == "jMap" || name == "senMap" {
				src = string(a)
			}
			if t, ok := goStringConst(src, name); ok {
				tables[name] = t
			}
		}
		return version, tables, true
	}
	return version, nil, false
}

var litRe = regexp.MustCompile("`[^`]*`|\"(?:[^\"\\\\]|\\\\.)*\"")

// goStringConst extracts `name = "" + lit + lit ...` (raw or interpreted literals, comments in between).
func goStringConst(src, name string) (string, bool) {
	re := regexp.MustCompile(`\b` + name + `\s*=\s*""\s*\+\s*\n`)
	loc := re.FindStringIndex(src)
	if loc == nil {
		return "", false
	}
	var b strings.Builder
	for _, line := range strings.Split(src[loc[1]:], "\n") {
		lit := litRe.FindString(line)
		trim := strings.TrimSpace(line)
		if lit == "" || !(strings.HasPrefix(trim, "`") || strings.HasPrefix(trim, "\"")) {
			break
		}
		if lit[0] == '`' {
			b.WriteString(lit[1 : len(lit)-1])
		} else {
			s, err := strconv.Unquote(lit)
			if err != nil {
				return "", false
			}
			b.WriteString(s)
		}
		rest := strings.TrimSpace(line[strings.Index(line, lit)+len(lit):])
		if !strings.HasPrefix(rest, "+") {
			break
		}
	}
	s := b.String()
	if len(s) > 256 {
		s = s[:256]
	}
	for len(s) < 256 {
		s += "."
	}
	return s, true
}

// checkOjgTables compares the tables the model was generated from with the library actually linked.
func (h *harness) checkOjgTables() {
	version, tables, found := ojgSourceTables()
	if !found {
		h.ctx.Meta.Notes = append(h.ctx.Meta.Notes, "ojg source for "+version+" not found in the module cache: class tables not re-checked")
		return
	}
	var diff []string
	for name, want := range ojgTables {
		if got, ok := tables[name]; !ok || got != want {
			diff = append(diff, name)
		}
	}
	if len(diff) > 0 {
		h.ctx.Violate("the ojg class tables differ from those coq/C18/Tables.v was generated from (regenerate with coq/C18/gen_tables.py)",
			map[string]any{"ojg": version, "tables": diff}, "changed", "ojg v1.27.0 tables")
	} else {
		h.ctx.Hist("ojg-tables-rechecked:" + version)
	}
}
