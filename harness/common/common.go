// Package common holds what every per-property harness shares: the seeded PRNG, the evaluator
// wrapper around the slip interpreter, Gallina term printing, shard writing and the meta file.
package common

import (
	"encoding/json"
	"fmt"
	"os"
	"path/filepath"
	"sort"
	"strings"
	"time"

	"github.com/ohler55/slip"
	_ "github.com/ohler55/slip/pkg" // all built-ins
)

// Rng is SplitMix64; every random choice of a run derives from one state.
// RepoDir is the source tree the translators read: /repo, or a scratch worktree during development.
func RepoDir() string {
	if d := os.Getenv("VERIF_REPO"); d != "" {
		return d
	}
	return "/repo"
}

type Rng struct{ s uint64 }

// NewRng: the seed is mixed before use; with a state that is linear in the seed, the streams of the
// seeds k and k+1 would be shifts of one another (SplitMix64 advances the state by the same constant).
func NewRng(seed uint64) *Rng {
	z := seed + 0x1234567
	z = (z ^ (z >> 33)) * 0xFF51AFD7ED558CCD
	z = (z ^ (z >> 33)) * 0xC4CEB9FE1A85EC53
	return &Rng{s: z ^ (z >> 33)}
}
func (r *Rng) Next() uint64 {
	r.s += 0x9E3779B97F4A7C15
	z := r.s
	z = (z ^ (z >> 30)) * 0xBF58476D1CE4E5B9
	z = (z ^ (z >> 27)) * 0x94D049BB133111EB
	return z ^ (z >> 31)
}
func (r *Rng) Intn(n int) int {
	if n <= 0 {
		return 0
	}
	return int(r.Next() % uint64(n))
}
func (r *Rng) Bool() bool       { return r.Next()&1 == 1 }
func (r *Rng) Chance(p int) bool { return r.Intn(100) < p } // p percent
func Pick[T any](r *Rng, xs []T) T { return xs[r.Intn(len(xs))] }

// Violation is a failure established on the implementation alone (no model needed).
type Violation struct {
	What   string `json:"what"`
	Input  any    `json:"input"`
	Output any    `json:"observed"`
	Expect any    `json:"expected,omitempty"`
}

// KnownReplay records the replay of one KNOWN_FINDINGS witness on the current tree.
type KnownReplay struct {
	ID         string `json:"id"`
	Reproduced bool   `json:"reproduced"`
	Observed   string `json:"observed"`
}

// Shard lists the human-readable description of each case of one cases_<k>.v file.
type Shard struct {
	File  string `json:"file"`
	Cases []any  `json:"cases"`
}

type Meta struct {
	Property           string         `json:"property"`
	Seed               uint64         `json:"seed"`
	Tier               string         `json:"tier"`
	Evaluations        int            `json:"evaluations"`
	DistinctNontrivial int            `json:"distinct_nontrivial"`
	Rule               string         `json:"rule"`
	Samples            []any          `json:"samples"`
	Histogram          map[string]int `json:"histogram"`
	Shards             []Shard        `json:"shards"`
	Direct             []Violation    `json:"direct_violations"`
	Known              []KnownReplay  `json:"known_findings"`
	Notes              []string       `json:"notes,omitempty"`
	Extra              map[string]any `json:"extra,omitempty"`
}

type Ctx struct {
	Prop   string
	Seed   uint64
	Tier   string
	OutDir string
	Rng    *Rng
	Meta   Meta
	// Known maps finding id -> witness (from known_findings/<prop>.json), for replay.
	Known map[string]json.RawMessage
}

func (c *Ctx) Thorough() bool { return c.Tier == "thorough" }
func (c *Ctx) Hist(k string) {
	if c.Meta.Histogram == nil {
		c.Meta.Histogram = map[string]int{}
	}
	c.Meta.Histogram[k]++
}
func (c *Ctx) Sample(v any) {
	if len(c.Meta.Samples) < 6 {
		c.Meta.Samples = append(c.Meta.Samples, v)
	}
}
func (c *Ctx) Violate(what string, in, out, expect any) {
	c.Meta.Direct = append(c.Meta.Direct, Violation{What: what, Input: in, Output: out, Expect: expect})
}
func (c *Ctx) KnownResult(id string, reproduced bool, observed string) {
	c.Meta.Known = append(c.Meta.Known, KnownReplay{ID: id, Reproduced: reproduced, Observed: observed})
}

// WriteShards writes cases_<k>.v files: header, `Definition cases := [...]`, footer.
// terms[i] is the Gallina term of case i, descs[i] its human-readable description.
func (c *Ctx) WriteShards(prefix, header, caseType, footer string, terms []string, descs []any, nshards int) {
	if nshards < 1 {
		nshards = 1
	}
	if len(terms) < nshards {
		nshards = 1
	}
	per := (len(terms) + nshards - 1) / nshards
	for k := 0; k < nshards; k++ {
		lo, hi := k*per, (k+1)*per
		if lo >= len(terms) {
			break
		}
		if hi > len(terms) {
			hi = len(terms)
		}
		name := fmt.Sprintf("%s_%d.v", prefix, k)
		var b strings.Builder
		b.WriteString(header)
		b.WriteString("\nDefinition cases : list " + caseType + " := [\n")
		for i := lo; i < hi; i++ {
			b.WriteString("  ")
			b.WriteString(terms[i])
			if i+1 < hi {
				b.WriteString(";")
			}
			b.WriteString("\n")
		}
		b.WriteString("].\n")
		b.WriteString(footer)
		if err := os.WriteFile(filepath.Join(c.OutDir, name), []byte(b.String()), 0o644); err != nil {
			panic(err)
		}
		c.Meta.Shards = append(c.Meta.Shards, Shard{File: name, Cases: descs[lo:hi]})
	}
}

func (c *Ctx) Finish() {
	c.Meta.Property, c.Meta.Seed, c.Meta.Tier = c.Prop, c.Seed, c.Tier
	if c.Meta.Direct == nil {
		c.Meta.Direct = []Violation{}
	}
	if c.Meta.Known == nil {
		c.Meta.Known = []KnownReplay{}
	}
	if c.Meta.Samples == nil {
		c.Meta.Samples = []any{}
	}
	data, err := json.MarshalIndent(&c.Meta, "", " ")
	if err != nil {
		panic(err)
	}
	if err = os.WriteFile(filepath.Join(c.OutDir, "meta.json"), data, 0o644); err != nil {
		panic(err)
	}
}

// ---- evaluation --------------------------------------------------------------------------

// Outcome of evaluating Lisp source.
type Outcome struct {
	Value   slip.Object
	Printed string // ObjectString of Value when no error
	Err     string // "" or the condition class (first Hierarchy entry) / "go-panic" / "timeout"
	Msg     string
}

// Fault reports whether the message betrays an internal Go fault dressed as a condition.
func Fault(msg string) bool {
	for _, s := range []string{"runtime error:", "interface conversion:", "hash of unhashable", "invalid memory address", "index out of range", "slice bounds out of range", "nil pointer dereference"} {
		if strings.Contains(msg, s) {
			return true
		}
	}
	return false
}

func classify(r any) (cls, msg string) {
	switch tr := r.(type) {
	case *slip.Panic:
		cls = "error"
		if tr.Condition != nil {
			cls = string(tr.Condition.Hierarchy()[0])
		}
		return cls, tr.Message
	case slip.Instance:
		cls = string(tr.Hierarchy()[0])
		if mv, has := tr.SlotValue(slip.Symbol("message")); has {
			if ms, ok := mv.(slip.String); ok {
				msg = string(ms)
			}
		}
		return cls, msg
	case error:
		return "go-panic", tr.Error()
	default:
		return "go-panic", fmt.Sprint(r)
	}
}

// EvalIn evaluates every form of src in scope s (no watchdog).
func EvalIn(s *slip.Scope, src string) (out Outcome) {
	defer func() {
		if r := recover(); r != nil {
			out.Err, out.Msg = classify(r)
		}
	}()
	code := slip.ReadString(src, s)
	for _, o := range code {
		out.Value = s.Eval(o, 0)
	}
	out.Printed = slip.ObjectString(out.Value)
	return
}

// EvalTimeout is EvalIn under a watchdog; on timeout the goroutine is abandoned.
func EvalTimeout(s *slip.Scope, src string, d time.Duration) Outcome {
	ch := make(chan Outcome, 1)
	go func() { ch <- EvalIn(s, src) }()
	select {
	case o := <-ch:
		return o
	case <-time.After(d):
		return Outcome{Err: "timeout"}
	}
}

// ---- Gallina printing -------------------------------------------------------------------

func GStr(s string) string {
	// Coq string literal: only the double quote is special; restrict to printable ASCII
	var b strings.Builder
	b.WriteByte('"')
	for i := 0; i < len(s); i++ {
		ch := s[i]
		if ch == '"' {
			b.WriteString(`""`)
		} else if ch >= 32 && ch < 127 {
			b.WriteByte(ch)
		} else {
			panic(fmt.Sprintf("GStr: non-printable byte %d in %q (use GBytes)", ch, s))
		}
	}
	b.WriteString(`"%string`)
	return b.String()
}
func GList(items []string) string { return "[" + strings.Join(items, "; ") + "]" }
func GStrs(ss []string) string {
	items := make([]string, len(ss))
	for i, s := range ss {
		items[i] = GStr(s)
	}
	return GList(items)
}
func GN(n uint64) string   { return fmt.Sprintf("%d%%N", n) }
func GNat(n int) string    { return fmt.Sprintf("%d%%nat", n) }
func GZ(z int64) string    { return fmt.Sprintf("(%d)%%Z", z) }
func GZs(z string) string  { return "(" + z + ")%Z" } // decimal string of any size
func GBool(b bool) string  { if b { return "true" }; return "false" }
func GSome(s string) string { return "(Some " + s + ")" }
func GBytes(bs []byte) string {
	items := make([]string, len(bs))
	for i, b := range bs {
		items[i] = fmt.Sprintf("%d", b)
	}
	return "[" + strings.Join(items, ";") + "]%N"
}

// SortedKeys returns the keys of a string-keyed map in order.
func SortedKeys[V any](m map[string]V) []string {
	ks := make([]string, 0, len(m))
	for k := range m {
		ks = append(ks, k)
	}
	sort.Strings(ks)
	return ks
}

// LispWitness is the usual shape of a known-finding witness: a program and the (defective)
// output the unchanged tree produces for it. The finding is reproduced iff the output is the same.
type LispWitness struct {
	Program  string `json:"program"`
	Observed string `json:"observed"` // printed value, or "!<condition-class>" for an error
	Expected string `json:"expected"`
}

// ShowOutcome renders an outcome the way witnesses record it.
func ShowOutcome(o Outcome) string {
	if o.Err != "" {
		if Fault(o.Msg) {
			return "!fault"
		}
		return "!" + o.Err
	}
	return o.Printed
}

// ReplayKnownLisp replays every known finding whose witness has a "program".
func (c *Ctx) ReplayKnownLisp() {
	for _, id := range SortedKeys(c.Known) {
		var w LispWitness
		if err := json.Unmarshal(c.Known[id], &w); err != nil || w.Program == "" {
			continue
		}
		o := EvalTimeout(slip.NewScope(), w.Program, 5*time.Second)
		got := ShowOutcome(o)
		c.KnownResult(id, got == w.Observed, got)
	}
}
