// Package arity is the translator for C04's table: it re-reads the Go source of /repo on every run
// (go/parser, standard library only) and extracts, for every built-in defined with a FuncDoc
// literal, the documented lambda list and the constant bounds of the CheckArgCount call in the
// Call method of its type.
package arity

import (
	"go/ast"
	"go/parser"
	"go/token"
	"os"
	"path/filepath"
	"sort"
	"strconv"
	"strings"
)

type Row struct {
	Pkg      string   `json:"pkg"`
	File     string   `json:"file"`
	Name     string   `json:"name"`
	Kind     string   `json:"kind"`
	Args     []string `json:"args"`
	Type     string   `json:"type"`
	HasCheck bool     `json:"has_check"`
	Min      int      `json:"min"`
	Max      int      `json:"max"`
}

var amp = map[string]string{"AmpOptional": "&optional", "AmpRest": "&rest", "AmpBody": "&body", "AmpKey": "&key",
	"AmpAux": "&aux", "AmpAllowOtherKeys": "&allow-other-keys"}

func strOf(e ast.Expr) (string, bool) {
	switch t := e.(type) {
	case *ast.BasicLit:
		if t.Kind == token.STRING {
			s, err := strconv.Unquote(t.Value)
			return s, err == nil
		}
	case *ast.SelectorExpr:
		if v, ok := amp[t.Sel.Name]; ok {
			return v, true
		}
	case *ast.Ident:
		if v, ok := amp[t.Name]; ok {
			return v, true
		}
	}
	return "", false
}

func intOf(e ast.Expr) (int, bool) {
	switch t := e.(type) {
	case *ast.BasicLit:
		if t.Kind == token.INT {
			n, err := strconv.Atoi(t.Value)
			return n, err == nil
		}
	case *ast.UnaryExpr:
		if t.Op == token.SUB {
			if n, ok := intOf(t.X); ok {
				return -n, true
			}
		}
	case *ast.ParenExpr:
		return intOf(t.X)
	}
	return 0, false
}

func typeName(e ast.Expr) string {
	switch t := e.(type) {
	case *ast.Ident:
		return t.Name
	case *ast.SelectorExpr:
		return t.Sel.Name
	}
	return ""
}

func isFuncDoc(e ast.Expr) bool { return typeName(e) == "FuncDoc" }

// Extract walks every non-test Go file below root/pkg and root itself.
func Extract(root string) ([]Row, error) {
	var rows []Row
	var dirs []string
	_ = filepath.Walk(root, func(p string, info os.FileInfo, err error) error {
		if err != nil || !info.IsDir() {
			return nil
		}
		rel, _ := filepath.Rel(root, p)
		if rel == "." || rel == "pkg" || strings.HasPrefix(rel, "pkg"+string(filepath.Separator)) {
			dirs = append(dirs, p)
		} else if strings.HasPrefix(rel, ".") || rel == "test" || rel == "cmd" {
			return filepath.SkipDir
		}
		return nil
	})
	sort.Strings(dirs)
	for _, dir := range dirs {
		fset := token.NewFileSet()
		pkgs, err := parser.ParseDir(fset, dir, func(fi os.FileInfo) bool { return !strings.HasSuffix(fi.Name(), "_test.go") }, 0)
		if err != nil {
			return nil, err
		}
		rel, _ := filepath.Rel(root, dir)
		for _, pkg := range pkgs {
			// methods: type -> (has, min, max)
			type chk struct {
				has      bool
				min, max int
			}
			checks := map[string]chk{}
			// helpers: package-level functions and methods other than Call with a constant CheckArgCount;
			// a Call method without its own check that calls one of them inherits its bounds
			helpers := map[string]chk{}
			findCheck := func(body *ast.BlockStmt) chk {
				var c chk
				ast.Inspect(body, func(n ast.Node) bool {
					if c.has {
						return false
					}
					if ce, ok := n.(*ast.CallExpr); ok && typeName(ce.Fun) == "CheckArgCount" && len(ce.Args) == 6 {
						mn, ok1 := intOf(ce.Args[4])
						mx, ok2 := intOf(ce.Args[5])
						if ok1 && ok2 {
							c = chk{true, mn, mx}
						}
						return false
					}
					return true
				})
				return c
			}
			var fnames []string
			for fn := range pkg.Files {
				fnames = append(fnames, fn)
			}
			sort.Strings(fnames)
			// a helper is identified by its name alone (the call sites are not type-checked), so a name that is
			// declared more than once in the package - e.g. the method setKeysItem of searchVars (constant bounds)
			// and of seqFunVars (computed bounds) - identifies nothing and is not used
			declared := map[string]int{}
			for _, fn := range fnames {
				for _, d := range pkg.Files[fn].Decls {
					if fd, ok := d.(*ast.FuncDecl); ok && fd.Body != nil && fd.Name.Name != "Call" {
						declared[fd.Name.Name]++
						if c := findCheck(fd.Body); c.has {
							helpers[fd.Name.Name] = c
						}
					}
				}
			}
			for name, n := range declared {
				if n > 1 {
					delete(helpers, name)
				}
			}
			// the names under which each file imports other packages
			imported := map[string]map[string]bool{}
			for _, fn := range fnames {
				imported[fn] = map[string]bool{}
				for _, im := range pkg.Files[fn].Imports {
					path, _ := strconv.Unquote(im.Path.Value)
					name := path[strings.LastIndex(path, "/")+1:]
					if im.Name != nil {
						name = im.Name.Name
					}
					imported[fn][name] = true
				}
			}
			for _, fn := range fnames {
				for _, d := range pkg.Files[fn].Decls {
					fd, ok := d.(*ast.FuncDecl)
					if !ok || fd.Recv == nil || fd.Name.Name != "Call" || fd.Body == nil || len(fd.Recv.List) != 1 {
						continue
					}
					rt := fd.Recv.List[0].Type
					if st, ok := rt.(*ast.StarExpr); ok {
						rt = st.X
					}
					tn := typeName(rt)
					var c chk
					ast.Inspect(fd.Body, func(n ast.Node) bool {
						if c.has {
							return false
						}
						if ce, ok := n.(*ast.CallExpr); ok && typeName(ce.Fun) == "CheckArgCount" && len(ce.Args) == 6 {
							mn, ok1 := intOf(ce.Args[4])
							mx, ok2 := intOf(ce.Args[5])
							if ok1 && ok2 {
								c = chk{true, mn, mx}
							}
							return false
						}
						return true
					})
					if !c.has {
						// one level of delegation
						ast.Inspect(fd.Body, func(n ast.Node) bool {
							if c.has {
								return false
							}
							if ce, ok := n.(*ast.CallExpr); ok {
								if se, ok := ce.Fun.(*ast.SelectorExpr); ok {
									// pkg.Name(...) calls a function of ANOTHER package, not the helper of that name here
									if id, ok := se.X.(*ast.Ident); ok && imported[fn][id.Name] {
										return true
									}
								}
								if h, ok := helpers[typeName(ce.Fun)]; ok {
									c = h
									return false
								}
							}
							return true
						})
					}
					checks[tn] = c
				}
			}
			for _, fn := range fnames {
				ast.Inspect(pkg.Files[fn], func(n ast.Node) bool {
					ce, ok := n.(*ast.CallExpr)
					if !ok || typeName(ce.Fun) != "Define" || len(ce.Args) < 2 {
						return true
					}
					// creator: the first composite literal of a named type inside the function literal
					fl, ok := ce.Args[0].(*ast.FuncLit)
					if !ok {
						return true
					}
					tn := ""
					ast.Inspect(fl.Body, func(m ast.Node) bool {
						if tn != "" {
							return false
						}
						if cl, ok := m.(*ast.CompositeLit); ok {
							if id, ok := cl.Type.(*ast.Ident); ok {
								tn = id.Name
								return false
							}
						}
						return true
					})
					doc := ce.Args[1]
					if ue, ok := doc.(*ast.UnaryExpr); ok {
						doc = ue.X
					}
					cl, ok := doc.(*ast.CompositeLit)
					if !ok || !isFuncDoc(cl.Type) {
						return true
					}
					row := Row{Pkg: rel, File: filepath.Base(fn), Type: tn, Kind: "function"}
					okArgs := true
					for _, el := range cl.Elts {
						kv, ok := el.(*ast.KeyValueExpr)
						if !ok {
							continue
						}
						switch typeName(kv.Key) {
						case "Name":
							row.Name, _ = strOf(kv.Value)
						case "Kind":
							row.Kind = strings.TrimSuffix(strings.ToLower(typeName(kv.Value)), "symbol")
						case "Args":
							if al, ok := kv.Value.(*ast.CompositeLit); ok {
								for _, ae := range al.Elts {
									if ue, ok := ae.(*ast.UnaryExpr); ok {
										ae = ue.X
									}
									acl, ok := ae.(*ast.CompositeLit)
									if !ok {
										okArgs = false
										continue
									}
									name := ""
									for _, f := range acl.Elts {
										if fkv, ok := f.(*ast.KeyValueExpr); ok && typeName(fkv.Key) == "Name" {
											name, _ = strOf(fkv.Value)
										}
									}
									if name == "" {
										okArgs = false
									}
									row.Args = append(row.Args, name)
								}
							} else {
								okArgs = false
							}
						}
					}
					if row.Name == "" || !okArgs {
						return true
					}
					if c, ok := checks[tn]; ok && c.has {
						row.HasCheck, row.Min, row.Max = true, c.min, c.max
					}
					rows = append(rows, row)
					return true
				})
			}
		}
	}
	sort.Slice(rows, func(i, j int) bool {
		if rows[i].Pkg != rows[j].Pkg {
			return rows[i].Pkg < rows[j].Pkg
		}
		return rows[i].Name < rows[j].Name
	})
	return rows, nil
}
