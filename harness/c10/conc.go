// The concurrent clause of C10 on the real implementation: goroutines call a generic function,
// define and remove methods, and ask find-method / compute-applicable-methods at the same time.
// Every answer must be explained by a method table that existed between the start and the end of
// the operation (timestamps from one atomic counter): the tables are judged inside coqc by the
// cache-free semantics of the model (CorrConc.v).
//
// The scenario runs in a child process (the harness binary re-executed with VERIF_C10_CHILD set):
// a data race on a Go map stops the whole process ("fatal error: concurrent map read and map
// write"), which the parent then reports as a violation instead of dying with it.
package c10

import (
	"encoding/json"
	"fmt"
	"os"
	"os/exec"
	"strconv"
	"strings"
	"sync"
	"sync/atomic"
	"time"

	"github.com/ohler55/slip"
	"verifharness/common"
)

// sink collects the trace of one routine: vtr / vnp find it through the scope chain of the call
type sink struct{ tr []tev }

func (k *sink) String() string                              { return "#<vsink>" }
func (k *sink) Append(b []byte) []byte                      { return append(b, "#<vsink>"...) }
func (k *sink) Simplify() any                               { return "#<vsink>" }
func (k *sink) Equal(other slip.Object) bool                { return k == other }
func (k *sink) Hierarchy() []slip.Symbol                    { return []slip.Symbol{"vsink", slip.TrueSymbol} }
func (k *sink) Eval(s *slip.Scope, depth int) slip.Object   { return k }

const sinkVar = "~vsink~"

func record(s *slip.Scope, e tev) {
	if s.Has(slip.Symbol(sinkVar)) {
		if k, ok := s.Get(slip.Symbol(sinkVar)).(*sink); ok {
			k.tr = append(k.tr, e)
			return
		}
	}
	trace = append(trace, e)
}

// ---- what the child reports ----

type concObs struct {
	Kind   string   `json:"kind"` // call | find | applicable
	Lisp   string   `json:"lisp"`
	Start  int64    `json:"start"`
	End    int64    `json:"end"`
	Args   []string `json:"args,omitempty"`
	Var    []bool   `json:"variant,omitempty"`
	Qual   string   `json:"qual,omitempty"`
	Key    []string `json:"key,omitempty"`
	Trace  []tev    `json:"trace,omitempty"`
	Res    string   `json:"result"`           // Gallina result / true,false / the list
	Shown  string   `json:"shown,omitempty"`  // as printed by slip
	Lo     int      `json:"lo"`               // mutations certainly done before the start
	Hi     int      `json:"hi"`               // mutations possibly done before the end
	Routine int     `json:"routine"`
}

type concMut struct {
	Rec   opRec `json:"op"`
	Start int64 `json:"start"`
	End   int64 `json:"end"`
}

type concCase struct {
	Rep  int       `json:"rep"`
	Init []opRec   `json:"init"`
	Muts []concMut `json:"mutations"`
	Obs  []concObs `json:"observations"`
}

type replayOut struct {
	Shared  int    `json:"shared_wrong"`
	SharedN int    `json:"shared_of"`
	Closure int    `json:"closure_wrong"`
	ClosureN int   `json:"closure_of"`
	Example string `json:"example,omitempty"`
}

func init() {
	mode := os.Getenv("VERIF_C10_CHILD")
	if mode == "" {
		return
	}
	seed, _ := strconv.ParseUint(os.Getenv("VERIF_C10_SEED"), 10, 64)
	out := os.Getenv("VERIF_C10_OUT")
	defineVtr()
	var data []byte
	switch mode {
	case "conc":
		reps, _ := strconv.Atoi(os.Getenv("VERIF_C10_REPS"))
		data, _ = json.Marshal(childConc(seed, reps))
	case "replay":
		data, _ = json.Marshal(childReplay())
	case "readers":
		childReaders()
		data = []byte(`"survived"`)
	}
	if err := os.WriteFile(out, data, 0o644); err != nil {
		fmt.Fprintln(os.Stderr, err)
		os.Exit(3)
	}
	os.Exit(0)
}

func runChild(ctx *common.Ctx, mode string, extra []string, limit time.Duration) ([]byte, string, error) {
	exe, err := os.Executable()
	if err != nil {
		return nil, "", err
	}
	out := fmt.Sprintf("%s/c10-%s.json", ctx.OutDir, mode)
	_ = os.Remove(out)
	cmd := exec.Command(exe, "C10")
	cmd.Env = append(os.Environ(), "VERIF_C10_CHILD="+mode, fmt.Sprintf("VERIF_C10_SEED=%d", ctx.Seed), "VERIF_C10_OUT="+out)
	cmd.Env = append(cmd.Env, extra...)
	var stderr strings.Builder
	cmd.Stderr = &stderr
	done := make(chan error, 1)
	if err = cmd.Start(); err != nil {
		return nil, "", err
	}
	go func() { done <- cmd.Wait() }()
	select {
	case err = <-done:
	case <-time.After(limit):
		_ = cmd.Process.Kill()
		err = fmt.Errorf("timeout after %s", limit)
	}
	se := stderr.String()
	if len(se) > 1500 {
		se = se[:1500]
	}
	if err != nil {
		return nil, se, err
	}
	data, rerr := os.ReadFile(out)
	return data, se, rerr
}

// ---- the child: the random scenario ----

var concClasses = []struct {
	expr, alt, cls string
	hier           []string
}{
	{"1", "2", "fixnum", []string{"fixnum", "integer", "rational", "real", "number", "t"}},
	{"1/2", "1/3", "ratio", []string{"ratio", "rational", "real", "number", "t"}},
	{`"s"`, `"r"`, "string", nil},
	{"*vslow*", "*vslow2*", "vslow", []string{"vslow", "integer", "rational", "real", "number", "t"}},
}

func childSetup() *slip.Scope {
	scope := slip.NewScope()
	scope.Let(slip.Symbol("*vslow*"), slowObj{})
	scope.Let(slip.Symbol("*vslow2*"), slowObj{alt: true})
	for i := range concClasses {
		c := &concClasses[i]
		v := common.EvalIn(scope, c.expr)
		w := common.EvalIn(scope, c.alt)
		if v.Err != "" || w.Err != "" {
			panic("C10 conc pool: " + c.expr)
		}
		c.hier = nil
		for _, h := range v.Value.Hierarchy() {
			c.hier = append(c.hier, string(h))
		}
		alternates[objKey(v.Value)], alternates[objKey(w.Value)] = w.Value, v.Value
		isAlt[objKey(w.Value)] = true
	}
	return scope
}

func defLisp1(g string, r *opRec) {
	pn := fmt.Sprintf("a%d", r.ID)
	r.Lisp = fmt.Sprintf("(defmethod %s %s ((%s %s)) %s)", g, r.Qual, pn, r.Key[0], bodyLisp(r, []string{pn}))
}

func removeLisp1(g string, r *opRec) {
	ql := "nil"
	if r.Qual != "" {
		ql = "'(" + r.Qual + ")"
	}
	r.Lisp = fmt.Sprintf("(let ((m (find-method '%s %s '(%s)))) (if m (remove-method '%s m) nil))", g, ql, r.Key[0], g)
}

func resultOf(out common.Outcome) (gallina, shown string) {
	switch {
	case out.Err == "":
		if fx, ok := out.Value.(slip.Fixnum); ok {
			return fmt.Sprintf("RVal %d", int64(fx)), fmt.Sprint(int64(fx))
		} else if out.Value == nil {
			return "RNil", "nil"
		}
		return "ROther", out.Printed
	case out.Err == "no-applicable-method-error":
		return "RNoApplicable", "!no-applicable-method"
	case strings.HasPrefix(out.Msg, "No next method"):
		return "RNoNext", "!no-next-method"
	case strings.HasPrefix(out.Msg, "vfail "):
		if id, err := strconv.Atoi(strings.TrimSpace(strings.TrimPrefix(out.Msg, "vfail "))); err == nil {
			return fmt.Sprintf("RErr %d", id), "!error: " + out.Msg
		}
	}
	return "ROther", "!" + out.Err + ": " + out.Msg
}

func childConc(seed uint64, reps int) []concCase {
	scope := childSetup()
	rng := common.NewRng(seed ^ 0xC10C0C)
	specs := []string{"t", "number", "real", "rational", "integer", "fixnum", "ratio", "string", "vslow"}
	var cases []concCase
	for rep := 0; rep < reps; rep++ {
		g := fmt.Sprintf("vcg%d", rep)
		if r := common.EvalIn(scope, fmt.Sprintf("(defgeneric %s (a))", g)); r.Err != "" {
			panic("defgeneric: " + r.Msg)
		}
		cc := concCase{Rep: rep}
		id := 0
		// calls concentrate on one or two classes so that definitions and calls meet
		focus := []int{rng.Intn(len(concClasses))}
		if rng.Chance(60) {
			focus = append(focus, rng.Intn(len(concClasses)))
		}
		slow := rng.Chance(50)
		if slow {
			focus[0] = 3
		}
		genKey := func() string {
			switch x := rng.Intn(100); {
			case x < 65:
				return common.Pick(rng, concClasses[common.Pick(rng, focus)].hier)
			case x < 80:
				return "t"
			}
			return common.Pick(rng, specs)
		}
		genDef := func() opRec {
			id++
			q := common.Pick(rng, []string{"", "", "", ":before", ":after", ":around", ":around"})
			r := opRec{Kind: "def", Qual: q, Key: []string{genKey()}, ID: id}
			if q == "" || q == ":around" {
				k := 0
				switch x := rng.Intn(100); {
				case q == "" && x < 70:
				case q == ":around" && x < 10:
				case x < 90:
					k = 1
				default:
					k = 2
				}
				r.Nmp = rng.Chance(20)
				r.Fail = rng.Chance(5)
				for i := 0; i < k; i++ {
					r.Calls = append(r.Calls, []bool{rng.Chance(25)})
					r.NoArg = append(r.NoArg, !r.Calls[i][0] && rng.Chance(40))
					r.Caught = append(r.Caught, rng.Chance(20))
				}
			}
			defLisp1(g, &r)
			return r
		}
		var defined []opRec
		if rng.Chance(75) {
			id++
			r := opRec{Kind: "def", Qual: "", Key: []string{"t"}, ID: id}
			defLisp1(g, &r)
			cc.Init = append(cc.Init, r)
			defined = append(defined, r)
		}
		for i := 0; i < 1+rng.Intn(3); i++ {
			r := genDef()
			cc.Init = append(cc.Init, r)
			defined = append(defined, r)
		}
		for i := range cc.Init {
			if o := common.EvalIn(scope, cc.Init[i].Lisp); o.Err != "" {
				cc.Init[i].Res = "!" + o.Err + ": " + o.Msg
			}
		}
		// the writer's program
		nm := 3 + rng.Intn(6)
		for i := 0; i < nm; i++ {
			if len(defined) > 0 && rng.Chance(35) {
				d := common.Pick(rng, defined)
				r := opRec{Kind: "remove", Qual: d.Qual, Key: d.Key}
				removeLisp1(g, &r)
				cc.Muts = append(cc.Muts, concMut{Rec: r})
			} else {
				r := genDef()
				defined = append(defined, r)
				cc.Muts = append(cc.Muts, concMut{Rec: r})
			}
		}
		// the other routines' programs
		type job struct {
			obs   concObs
			src   string
			pause int // microseconds before the operation, so that the routines spread over the writer's program
		}
		nCallers := 2 + rng.Intn(2)
		progs := make([][]job, nCallers+1)
		for c := 0; c < nCallers; c++ {
			for i := 0; i < 5+rng.Intn(6); i++ {
				cl := concClasses[common.Pick(rng, focus)]
				if rng.Chance(15) {
					cl = common.Pick(rng, concClasses[:])
				}
				alt := rng.Chance(30)
				e := cl.expr
				if alt {
					e = cl.alt
				}
				src := fmt.Sprintf("(%s %s)", g, e)
				progs[c] = append(progs[c], job{concObs{Kind: "call", Lisp: src, Args: []string{cl.cls}, Var: []bool{alt}, Routine: c}, src, rng.Intn(500)})
			}
		}
		for i := 0; i < 4+rng.Intn(5); i++ {
			if rng.Bool() {
				q := common.Pick(rng, quals)
				k := genKey()
				if len(defined) > 0 && rng.Chance(60) {
					d := common.Pick(rng, defined)
					q, k = d.Qual, d.Key[0]
				}
				ql := "nil"
				if q != "" {
					ql = "'(" + q + ")"
				}
				src := fmt.Sprintf("(if (find-method '%s %s '(%s)) t nil)", g, ql, k)
				progs[nCallers] = append(progs[nCallers], job{concObs{Kind: "find", Lisp: src, Qual: q, Key: []string{k}, Routine: nCallers}, src, rng.Intn(700)})
			} else {
				cl := concClasses[common.Pick(rng, focus)]
				src := fmt.Sprintf("(compute-applicable-methods '%s (list %s))", g, cl.expr)
				progs[nCallers] = append(progs[nCallers], job{concObs{Kind: "applicable", Lisp: src, Args: []string{cl.cls}, Routine: nCallers}, src, rng.Intn(700)})
			}
		}
		// run
		var clock atomic.Int64
		var wg sync.WaitGroup
		slowOn.Store(slow)
		results := make([][]concObs, len(progs))
		pauses := make([]int, len(cc.Muts))
		for i := range pauses {
			pauses[i] = 50 + rng.Intn(600)
		}
		wg.Add(1)
		go func() {
			defer wg.Done()
			s := scope.NewScope()
			for i := range cc.Muts {
				time.Sleep(time.Duration(pauses[i]) * time.Microsecond)
				m := &cc.Muts[i]
				m.Start = clock.Add(1)
				o := common.EvalIn(s, m.Rec.Lisp)
				m.End = clock.Add(1)
				if o.Err != "" {
					m.Rec.Res = "!" + o.Err + ": " + o.Msg
				}
			}
		}()
		for ri := range progs {
			wg.Add(1)
			go func(ri int) {
				defer wg.Done()
				s := scope.NewScope()
				k := &sink{}
				s.Let(slip.Symbol(sinkVar), k)
				for _, j := range progs[ri] {
					ob := j.obs
					time.Sleep(time.Duration(j.pause) * time.Microsecond)
					k.tr = nil
					ob.Start = clock.Add(1)
					o := common.EvalIn(s, j.src)
					ob.End = clock.Add(1)
					switch ob.Kind {
					case "call":
						ob.Trace = append([]tev{}, k.tr...)
						ob.Res, ob.Shown = resultOf(o)
					case "find":
						switch {
						case o.Err != "":
							ob.Res, ob.Shown = "error", "!"+o.Err+": "+o.Msg
						case o.Value == nil:
							ob.Res = "false"
						default:
							ob.Res = "true"
						}
					case "applicable":
						ob.Res, ob.Shown = applicableOf(o)
					}
					results[ri] = append(results[ri], ob)
				}
			}(ri)
		}
		wg.Wait()
		slowOn.Store(false)
		for _, rs := range results {
			for _, ob := range rs {
				for _, m := range cc.Muts {
					if m.End < ob.Start {
						ob.Lo++
					}
					if m.Start < ob.End {
						ob.Hi++
					}
				}
				cc.Obs = append(cc.Obs, ob)
			}
		}
		cases = append(cases, cc)
	}
	return cases
}

// applicableOf renders the answer of compute-applicable-methods as the Gallina list of
// (qualifier, specializers): each method object has one combination with one daemon, and its
// documentation carries the specializer of the method table entry it came from
func applicableOf(o common.Outcome) (string, string) {
	if o.Err != "" {
		return "error", "!" + o.Err + ": " + o.Msg
	}
	l, _ := o.Value.(slip.List)
	var items []string
	for _, e := range l {
		m, ok := e.(*slip.Method)
		if !ok || len(m.Combinations) != 1 || m.Doc == nil || len(m.Doc.Args) < 1 {
			return "error", "unexpected element " + slip.ObjectString(e)
		}
		c := m.Combinations[0]
		q := "QPrimary"
		switch {
		case c.Wrap != nil:
			q = "QAround"
		case c.Before != nil:
			q = "QBefore"
		case c.After != nil:
			q = "QAfter"
		}
		items = append(items, fmt.Sprintf("(%s, [%s])", q, common.GStr(m.Doc.Args[0].Type)))
	}
	return common.GList(items), o.Printed
}

// ---- the child: replays of the three repaired concurrency defects ----

func childReplay() replayOut {
	top := childSetup()
	var out replayOut
	// C10-7: two routines call through one :around method with arguments of different classes
	common.EvalIn(top, `(defgeneric vkcg (x)) (defmethod vkcg ((x fixnum)) 'fix) (defmethod vkcg ((x string)) 'str) (defmethod vkcg :around ((x t)) (call-next-method x))`)
	var wg sync.WaitGroup
	var bad [2]atomic.Int64
	const n = 60000
	for r := 0; r < 2; r++ {
		wg.Add(1)
		go func(r int) {
			defer wg.Done()
			s := top.NewScope()
			src, want := `(vkcg 1)`, "fix"
			if r == 1 {
				src, want = `(vkcg "s")`, "str"
			}
			code := slip.ReadString(src, s)
			for i := 0; i < n; i++ {
				var v slip.Object
				func() {
					defer func() {
						if x := recover(); x != nil {
							v = slip.String(fmt.Sprint(x))
						}
					}()
					v = s.Eval(code[0], 0)
				}()
				if slip.ObjectString(v) != want {
					bad[r].Add(1)
				}
			}
		}(r)
	}
	wg.Wait()
	out.Closure, out.ClosureN = int(bad[0].Load()+bad[1].Load()), 2*n
	// C10-6: a call sleeps inside an :around method while two defmethods change the table
	const reps = 40
	for rep := 0; rep < reps; rep++ {
		g := fmt.Sprintf("vkdg%d", rep)
		common.EvalIn(top, fmt.Sprintf(`(defgeneric %s (x)) (defmethod %s ((x integer)) 'a1) (defmethod %s :around ((x t)) (sleep 0.002) (call-next-method x))`, g, g, g))
		var res string
		wg.Add(2)
		go func() {
			defer wg.Done()
			res = common.EvalIn(top.NewScope(), fmt.Sprintf(`(%s 1)`, g)).Printed
		}()
		go func() {
			defer wg.Done()
			s := top.NewScope()
			time.Sleep(time.Millisecond)
			common.EvalIn(s, fmt.Sprintf(`(defmethod %s ((x fixnum)) 'c1)`, g))
			common.EvalIn(s, fmt.Sprintf(`(defmethod %s ((x integer)) 'a2)`, g))
		}()
		wg.Wait()
		if res != "a1" && res != "c1" {
			out.Shared++
			out.Example = res
		}
	}
	out.SharedN = reps
	return out
}

// C10-8: the readers of the method table against defmethod / remove-method of new keys; on the
// unrepaired code the Go runtime stops this process
func childReaders() {
	top := childSetup()
	common.EvalIn(top, `(defgeneric vkrg (x)) (defmethod vkrg ((x t)) 0)`)
	classes := []string{"fixnum", "integer", "rational", "real", "number", "string", "float", "symbol", "list", "ratio", "bignum",
		"character", "vector", "array", "sequence", "double-float", "single-float", "hash-table", "stream", "package"}
	var stop atomic.Bool
	var wg sync.WaitGroup
	wg.Add(1)
	go func() {
		defer wg.Done()
		s := top.NewScope()
		for !stop.Load() {
			for _, c := range classes {
				common.EvalIn(s, fmt.Sprintf(`(defmethod vkrg ((x %s)) 1)`, c))
			}
			for _, c := range classes {
				common.EvalIn(s, fmt.Sprintf(`(remove-method 'vkrg (find-method 'vkrg nil '(%s)))`, c))
			}
		}
	}()
	for _, src := range []string{`(find-method 'vkrg nil '(string))`, `(compute-applicable-methods 'vkrg '(1))`, `(make-load-form 'vkrg)`} {
		wg.Add(1)
		go func(src string) {
			defer wg.Done()
			s := top.NewScope()
			code := slip.ReadString(src, s)
			for !stop.Load() {
				func() {
					defer func() { _ = recover() }()
					_ = s.Eval(code[0], 0)
				}()
			}
		}(src)
	}
	time.Sleep(1500 * time.Millisecond)
	stop.Store(true)
	wg.Wait()
}

// ---- the parent ----

func runConcurrent(ctx *common.Ctx) {
	reps := 40
	if ctx.Thorough() {
		reps = 400
	}
	var ctItems []string
	childSetup()
	for _, c := range concClasses {
		ctItems = append(ctItems, "("+common.GStr(c.cls)+", "+common.GStrs(c.hier)+")")
	}
	data, se, err := runChild(ctx, "conc", []string{fmt.Sprintf("VERIF_C10_REPS=%d", reps)}, 10*time.Minute)
	var cases []concCase
	if err == nil {
		err = json.Unmarshal(data, &cases)
	}
	if err != nil {
		ctx.Violate("the concurrent scenario (goroutines calling a generic function, defmethod / remove-method, find-method and "+
			"compute-applicable-methods at once) stopped the process", fmt.Sprintf("seed %d, %d repetitions", ctx.Seed, reps),
			err.Error()+"\n"+se, "every operation answers")
		return
	}
	var terms []string
	var descs []any
	for _, cc := range cases {
		var ginit, gmuts, gcalls, gfinds, gapps []string
		opTerm := func(r opRec) string {
			if r.Kind == "remove" {
				return fmt.Sprintf("OpRemove %s %s", gq[r.Qual], common.GStrs(r.Key))
			}
			return fmt.Sprintf("OpDef %s %s %s", gq[r.Qual], common.GStrs(r.Key), bodyGallina(&r))
		}
		bad := false
		for _, r := range cc.Init {
			ginit = append(ginit, opTerm(r))
			bad = bad || r.Res != ""
		}
		for _, m := range cc.Muts {
			gmuts = append(gmuts, opTerm(m.Rec))
			bad = bad || m.Rec.Res != ""
			ctx.Hist("conc:mutation:" + m.Rec.Kind)
		}
		if bad {
			ctx.Violate("a defmethod / remove-method of the concurrent scenario signalled a condition", cc, "condition", "nil")
			continue
		}
		for _, ob := range cc.Obs {
			ctx.Hist(fmt.Sprintf("conc:%s:window=%d", ob.Kind, min(ob.Hi-ob.Lo, 3)))
			switch ob.Kind {
			case "call":
				gcalls = append(gcalls, fmt.Sprintf("(%d%%nat, %d%%nat, %s, %s, (%s, %s))", ob.Lo, ob.Hi, common.GStrs(ob.Args),
					common.GList([]string{common.GBool(ob.Var[0])}), common.GList(gallinaTrace(ob.Trace)), ob.Res))
			case "find":
				if ob.Res == "error" {
					ctx.Violate("find-method signalled a condition in the concurrent scenario", ob, ob.Shown, "t or nil")
					continue
				}
				gfinds = append(gfinds, fmt.Sprintf("(%d%%nat, %d%%nat, %s, %s, %s)", ob.Lo, ob.Hi, gq[ob.Qual], common.GStrs(ob.Key), ob.Res))
			case "applicable":
				if ob.Res == "error" {
					ctx.Violate("compute-applicable-methods gave no list of methods in the concurrent scenario", ob, ob.Shown, "a list of methods")
					continue
				}
				gapps = append(gapps, fmt.Sprintf("(%d%%nat, %d%%nat, %s, %s)", ob.Lo, ob.Hi, common.GStrs(ob.Args), ob.Res))
			}
		}
		terms = append(terms, fmt.Sprintf("{| cc_init := %s;\n     cc_muts := %s;\n     cc_calls := %s;\n     cc_finds := %s;\n     cc_apps := %s |}",
			common.GList(ginit), common.GList(gmuts), common.GList(gcalls), common.GList(gfinds), common.GList(gapps)))
		descs = append(descs, cc)
		ctx.Meta.Evaluations++
		if len(terms)%17 == 1 {
			ctx.Sample(cc)
		}
	}
	header := "From C10 Require Import Model Spec Proofs Corr ModelConc CorrConc.\nOpen Scope N_scope.\nDefinition cct : ctable := " +
		common.GList(ctItems) + ".\n"
	footer := "Definition res := Eval vm_compute in ccheck_all cct cases.\nPrint res.\n" +
		"Definition concurrent_observations := Eval vm_compute in cobs_count cases.\nPrint concurrent_observations.\n" +
		"Definition concurrent_observations_overlapping_a_mutation := Eval vm_compute in coverlap_count cases.\nPrint concurrent_observations_overlapping_a_mutation.\n"
	ctx.WriteShards("conc", header, "ccase", footer, terms, descs, 8)

	// the repaired concurrency defects must not come back
	if data, se, err = runChild(ctx, "replay", nil, 3*time.Minute); err == nil {
		var ro replayOut
		if err = json.Unmarshal(data, &ro); err == nil {
			ctx.KnownResult("C10-shared-combination", ro.Shared > 0,
				fmt.Sprintf("%d of %d calls returned a value no method table explains (e.g. %s)", ro.Shared, ro.SharedN, ro.Example))
			ctx.KnownResult("C10-closure-race", ro.Closure > 0,
				fmt.Sprintf("%d of %d calls ran the other routine's primary method", ro.Closure, ro.ClosureN))
		}
	}
	if err != nil {
		ctx.Violate("the replay of the concurrent known findings stopped the process", "C10-shared-combination / C10-closure-race", err.Error()+"\n"+se, "answers")
	}
	_, se, err = runChild(ctx, "readers", nil, 3*time.Minute)
	fatal := err != nil && strings.Contains(se, "concurrent map")
	obs := "survived 1.5 s of find-method / compute-applicable-methods / make-load-form against defmethod / remove-method"
	if fatal {
		obs = "fatal error: concurrent map read and map write"
	}
	ctx.KnownResult("C10-readers-unlocked", fatal, obs)
	if err != nil && !fatal {
		ctx.Violate("the replay of C10-readers-unlocked failed", "readers against writers", err.Error()+"\n"+se, "survives")
	}
}
