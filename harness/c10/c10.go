// Package c10: histories of defmethod / remove-method / call on generic functions, run on the
// real implementation; the observed traces are written as Gallina cases for C10/Corr.v.
package c10

import (
	"encoding/json"
	"fmt"
	"os"
	"os/exec"
	"strings"
	"sync"
	"sync/atomic"
	"time"

	"github.com/ohler55/slip"
	"verifharness/common"
)

// one trace entry: a body starts (ID > 0, Args = which of the two objects of its class each
// argument was), a body ends (ID < 0) or next-method-p answered (Nmp != 0: 1 false, 2 true)
type tev struct {
	ID   int64  `json:"id,omitempty"`
	Args []bool `json:"args,omitempty"`
	Nmp  int    `json:"nmp,omitempty"`
}

var trace []tev

// the two objects of each class, by printed form: alternates maps either to the other
var alternates = map[string]slip.Object{}
var isAlt = map[string]bool{}

func objKey(o slip.Object) string {
	if o == nil {
		return "nil"
	}
	return slip.ObjectString(o)
}

type vtr struct{ slip.Function }

// (vtr id arg...) records the start of body id and which objects it received; (vtr -id) its end
func (f *vtr) Call(s *slip.Scope, args slip.List, depth int) slip.Object {
	if n, ok := args[0].(slip.Fixnum); ok {
		e := tev{ID: int64(n)}
		if n > 0 {
			e.Args = []bool{}
			for _, a := range args[1:] {
				e.Args = append(e.Args, isAlt[objKey(a)])
			}
		}
		record(s, e)
	}
	return args[0]
}

type vnp struct{ slip.Function }

// (vnp (next-method-p)) records the answer
func (f *vnp) Call(s *slip.Scope, args slip.List, depth int) slip.Object {
	if args[0] == nil {
		record(s, tev{Nmp: 1})
	} else {
		record(s, tev{Nmp: 2})
	}
	return args[0]
}

type valt struct{ slip.Function }

// (valt x) is the other object of x's class
func (f *valt) Call(s *slip.Scope, args slip.List, depth int) slip.Object {
	if o, ok := alternates[objKey(args[0])]; ok {
		return o
	}
	return args[0]
}

func defineVtr() {
	defer func() { _ = recover() }()
	slip.Define(
		func(args slip.List) slip.Object {
			f := vtr{Function: slip.Function{Name: "vtr", Args: args}}
			f.Self = &f
			return &f
		},
		&slip.FuncDoc{Name: "vtr", Args: []*slip.DocArg{{Name: "id", Type: "fixnum"}, {Name: "&rest"}, {Name: "args"}}, Return: "fixnum",
			Text: "verification trace"},
		&slip.UserPkg)
	slip.Define(
		func(args slip.List) slip.Object {
			f := vnp{Function: slip.Function{Name: "vnp", Args: args}}
			f.Self = &f
			return &f
		},
		&slip.FuncDoc{Name: "vnp", Args: []*slip.DocArg{{Name: "x", Type: "object"}}, Return: "object",
			Text: "verification trace of next-method-p"},
		&slip.UserPkg)
	slip.Define(
		func(args slip.List) slip.Object {
			f := vpark{Function: slip.Function{Name: "vpark", Args: args}}
			f.Self = &f
			return &f
		},
		&slip.FuncDoc{Name: "vpark", Args: []*slip.DocArg{}, Return: "object", Text: "holds the caller while the harness says so"},
		&slip.UserPkg)
	slip.Define(
		func(args slip.List) slip.Object {
			f := valt{Function: slip.Function{Name: "valt", Args: args}}
			f.Self = &f
			return &f
		},
		&slip.FuncDoc{Name: "valt", Args: []*slip.DocArg{{Name: "x", Type: "object"}}, Return: "object",
			Text: "the alternate object of the class of x"},
		&slip.UserPkg)
}

// slowObj is an argument whose Hierarchy() takes time while slowOn is set: it widens every window
// between the hierarchy walk of Aux.Call and the use of its result, so that a concurrent defmethod
// lands inside it.
type slowObj struct{ alt bool }

var slowOn atomic.Bool

func (o slowObj) String() string {
	if o.alt {
		return "#<vslow2>"
	}
	return "#<vslow>"
}
func (o slowObj) Append(b []byte) []byte { return append(b, o.String()...) }
func (o slowObj) Simplify() any          { return o.String() }
func (o slowObj) Equal(other slip.Object) bool {
	x, ok := other.(slowObj)
	return ok && x == o
}
func (slowObj) Hierarchy() []slip.Symbol {
	if slowOn.Load() {
		time.Sleep(300 * time.Microsecond)
	}
	return []slip.Symbol{"vslow", "integer", "rational", "real", "number", "t"}
}
func (o slowObj) Eval(s *slip.Scope, depth int) slip.Object { return o }

// altNil is the second object whose precedence list is (t), next to nil
type altNil struct{}

func (altNil) String() string                              { return "#<vnil2>" }
func (altNil) Append(b []byte) []byte                      { return append(b, "#<vnil2>"...) }
func (altNil) Simplify() any                               { return "#<vnil2>" }
func (altNil) Equal(other slip.Object) bool                { _, ok := other.(altNil); return ok }
func (altNil) Hierarchy() []slip.Symbol                    { return []slip.Symbol{slip.TrueSymbol} }
func (o altNil) Eval(s *slip.Scope, depth int) slip.Object { return o }

// gateObj is an argument that can park the routine that dispatches on it: when armed, its k-th
// Hierarchy() call (the first is the cache key, the others come from the nested walk of
// collectMethods - one per class of the argument before it) signals `entered` and waits for
// `proceed`. The harness uses it to put a defmethod / remove-method of another routine at a known
// point of a call's method lookup.
type gateObj struct {
	alt     bool
	mu      sync.Mutex
	at      int // 0: not armed
	calls   int
	entered chan struct{}
	proceed chan struct{}
}

func (o *gateObj) String() string {
	if o.alt {
		return "#<vgate2>"
	}
	return "#<vgate>"
}
func (o *gateObj) Append(b []byte) []byte                    { return append(b, o.String()...) }
func (o *gateObj) Simplify() any                             { return o.String() }
func (o *gateObj) Equal(other slip.Object) bool              { return o == other }
func (o *gateObj) Eval(s *slip.Scope, depth int) slip.Object { return o }
func (o *gateObj) arm(at int) {
	o.mu.Lock()
	o.at, o.calls = at, 0
	o.entered, o.proceed = make(chan struct{}), make(chan struct{})
	o.mu.Unlock()
}
func (o *gateObj) disarm() {
	o.mu.Lock()
	o.at = 0
	o.mu.Unlock()
}
func (o *gateObj) Hierarchy() []slip.Symbol {
	o.mu.Lock()
	park := false
	if o.at > 0 {
		o.calls++
		park = o.calls == o.at
	}
	entered, proceed := o.entered, o.proceed
	o.mu.Unlock()
	if park {
		close(entered)
		select {
		case <-proceed:
		case <-time.After(10 * time.Second):
		}
	}
	return []slip.Symbol{"vgate", "integer", "rational", "real", "number", "t"}
}

var gates = [2]*gateObj{{}, {alt: true}}

// runGate holds a call inside a method body: (vpark) is its Hierarchy() in disguise
var runGate = &gateObj{}

type vpark struct{ slip.Function }

func (f *vpark) Call(s *slip.Scope, args slip.List, depth int) slip.Object {
	_ = runGate.Hierarchy()
	return nil
}

type argObj struct {
	expr string // the main object of the class
	alt  string // the alternate object
	cls  string
	hier []string
}

type opRec struct {
	Kind  string   `json:"kind"` // def | remove | call
	Qual  string   `json:"qual,omitempty"`
	Key   []string `json:"key,omitempty"`
	ID    int      `json:"id,omitempty"`
	Nmp   bool     `json:"next_method_p,omitempty"`    // the body asks (next-method-p)
	Calls [][]bool `json:"call_next_method,omitempty"` // one entry per call-next-method form: which arguments are exchanged
	NoArg []bool   `json:"no_arg_form,omitempty"`      // the form is (call-next-method) without arguments
	Caught []bool  `json:"in_ignore_errors,omitempty"` // the form is wrapped in ignore-errors
	Fail  bool     `json:"signals_error,omitempty"`    // the body signals an error after its trace
	Park  bool     `json:"parks,omitempty"`            // the body contains (vpark): the harness can hold the call there
	ParkRun bool   `json:"parked_while_running,omitempty"` // kind "gated": the call is held in a method body (not in its lookup)
	Args  []string `json:"args,omitempty"`             // classes of the call arguments
	Var   []bool   `json:"variant,omitempty"`          // which object of each class
	Bare  []bool   `json:"bare_parameter,omitempty"`   // kind "def": the parameter is written `a`, not `(a t)` (only where the specializer is t)
	Spelled bool   `json:"-"`                          // Bare was chosen by the generator of the history (otherwise defLisp draws it)
	Lisp  string   `json:"lisp"`
	Par   []opRec  `json:"concurrent_defs,omitempty"` // kind "par": defmethods issued while another routine keeps calling; kind "gated": the one operation of the other routine
	GateAt  int    `json:"gate_at,omitempty"`      // kind "gated": the call is parked at this Hierarchy() call of its last argument
	Entered bool   `json:"parked,omitempty"`       // the call reached that point
	BFirst  bool   `json:"other_returned_while_parked,omitempty"`
	Trace []tev    `json:"trace,omitempty"`
	Res   string   `json:"result,omitempty"`
}

var quals = []string{"", ":before", ":after", ":around"}
var gq = map[string]string{"": "QPrimary", ":before": "QBefore", ":after": "QAfter", ":around": "QAround"}

// bodyLisp renders the body of a method from its shape; pn are the parameter names
func bodyLisp(r *opRec, pn []string) string {
	var body strings.Builder
	fmt.Fprintf(&body, "(vtr %d %s)", r.ID, strings.Join(pn, " "))
	if r.Nmp {
		body.WriteString(" (vnp (next-method-p))")
	}
	if r.Park {
		body.WriteString(" (vpark)")
	}
	if r.Fail {
		fmt.Fprintf(&body, " (error \"vfail %d\")", r.ID)
	}
	if r.Qual == ":around" || len(r.Calls) > 0 {
		fmt.Fprintf(&body, " (let ((r %d))", r.ID)
		for ci, flips := range r.Calls {
			form := "(call-next-method)"
			if !r.NoArg[ci] {
				var as []string
				for j := range pn {
					if flips[j] {
						as = append(as, "(valt "+pn[j]+")")
					} else {
						as = append(as, pn[j])
					}
				}
				form = fmt.Sprintf("(call-next-method %s)", strings.Join(as, " "))
			}
			if ci < len(r.Caught) && r.Caught[ci] {
				form = "(ignore-errors " + form + ")"
			}
			fmt.Fprintf(&body, " (setq r %s)", form)
		}
		fmt.Fprintf(&body, " (vtr %d) r)", -r.ID)
	} else {
		fmt.Fprintf(&body, " %d", r.ID)
	}
	return body.String()
}

// bodyGallina is the Model.body of the shape
func bodyGallina(r *opRec) string {
	var calls []string
	for ci, flips := range r.Calls {
		var bs []string
		for _, f := range flips {
			bs = append(bs, common.GBool(f))
		}
		calls = append(calls, fmt.Sprintf("(%s, %s)", common.GList(bs), common.GBool(ci < len(r.Caught) && r.Caught[ci])))
	}
	return fmt.Sprintf("{| b_id := %d; b_nmp := %s; b_fail := %s; b_calls := %s |}", r.ID, common.GBool(r.Nmp), common.GBool(r.Fail), common.GList(calls))
}

func gallinaTrace(tr []tev) []string {
	var evs []string
	for _, t := range tr {
		switch {
		case t.Nmp != 0:
			evs = append(evs, "EvNmp "+common.GBool(t.Nmp == 2))
		case t.ID >= 0:
			var bs []string
			for _, b := range t.Args {
				bs = append(bs, common.GBool(b))
			}
			evs = append(evs, fmt.Sprintf("Ev %d %s", t.ID, common.GList(bs)))
		default:
			evs = append(evs, fmt.Sprintf("EvEnd %d", -t.ID))
		}
	}
	return evs
}

// genBody draws the shape of a method body: :before / :after only trace; primaries and
// :around methods may ask next-method-p and contain 0, 1 or 2 call-next-method forms, each with
// the arguments received, with none written, or with some exchanged for the alternate object
// errMix: percent of primary / :around bodies that signal an error, percent of call-next-method
// forms wrapped in ignore-errors; set per history
var errMix = [2]int{6, 20}

func genBody(ctx *common.Ctx, r *opRec, n int) {
	if r.Qual == ":before" || r.Qual == ":after" {
		return
	}
	var k int
	x := ctx.Rng.Intn(100)
	if r.Qual == ":around" {
		switch {
		case x < 12:
			k = 0
		case x < 78:
			k = 1
		default:
			k = 2
		}
		r.Nmp = ctx.Rng.Chance(25)
	} else {
		switch {
		case x < 65:
			k = 0
		case x < 93:
			k = 1
		default:
			k = 2
		}
		r.Nmp = ctx.Rng.Chance(30)
	}
	for i := 0; i < k; i++ {
		flips := make([]bool, n)
		noArg := false
		switch y := ctx.Rng.Intn(100); {
		case y < 35:
			noArg = true
		case y < 65:
		default:
			for j := range flips {
				flips[j] = ctx.Rng.Chance(60)
			}
		}
		r.Calls = append(r.Calls, flips)
		r.NoArg = append(r.NoArg, noArg)
		r.Caught = append(r.Caught, ctx.Rng.Chance(errMix[1]))
	}
	r.Fail = ctx.Rng.Chance(errMix[0])
	if r.Fail {
		ctx.Hist("body:signals-error")
	}
	ctx.Hist(fmt.Sprintf("body:%s:calls=%d", map[string]string{"": "primary", ":around": "around"}[r.Qual], k))
}

// Run drives the implementation in a child process (the same binary, VERIF_C10_INNER set) and
// adopts what it wrote: the routines of the concurrent segments work on Go maps, and when a
// change of the locking lets two of them meet there the Go runtime stops the whole process
// ("fatal error: concurrent map read and map write"). The parent then reports that as a violation
// and runs the child again without the free-running segments (the forced schedules remain).
func Run(ctx *common.Ctx) {
	if os.Getenv("VERIF_C10_INNER") == "" {
		se, err := runInner(ctx, false)
		var crash string
		if err != nil {
			crash = err.Error() + "\n" + se
			if se2, err2 := runInner(ctx, true); err2 != nil {
				panic("C10: the harness child failed twice: " + err2.Error() + "\n" + se2)
			}
		}
		data, rerr := os.ReadFile(ctx.OutDir + "/meta.json")
		if rerr == nil {
			rerr = json.Unmarshal(data, &ctx.Meta)
		}
		if rerr != nil {
			panic("C10: cannot read the child's meta.json: " + rerr.Error())
		}
		if crash != "" {
			ctx.Violate("the process stopped while routines called a generic function and defined methods at the same time "+
				"(a fatal error of the Go runtime is not a Lisp condition)",
				"histories with concurrent segments: routine A repeats a call whose first argument has a slow Hierarchy() while routine B evaluates defmethod forms",
				crash, "every operation answers")
		}
		return
	}
	defineVtr()
	scope := slip.NewScope()
	o := common.EvalIn(scope, `(defclass vc1 () ()) (defclass vc2 (vc1) ()) (defclass vc3 (vc2) ()) (defclass vc4 (vc3) ())
(defvar *vi2* (make-instance 'vc2)) (defvar *vi4* (make-instance 'vc4))
(defvar *vi2b* (make-instance 'vc2)) (defvar *vi4b* (make-instance 'vc4))`)
	if o.Err != "" {
		panic("C10 setup: " + o.Err + " " + o.Msg)
	}
	var pool []argObj
	scope.Let(slip.Symbol("*vslow*"), slowObj{})
	scope.Let(slip.Symbol("*vslow2*"), slowObj{alt: true})
	scope.Let(slip.Symbol("*vnil2*"), altNil{})
	scope.Let(slip.Symbol("*vgate*"), gates[0])
	scope.Let(slip.Symbol("*vgate2*"), gates[1])
	for _, e := range [][2]string{{"1", "2"}, {"1/2", "1/3"}, {"1.5", "2.5"}, {`"s"`, `"r"`}, {"*vi2*", "*vi2b*"}, {"*vi4*", "*vi4b*"},
		{"nil", "*vnil2*"}, {"100000000000000000000", "100000000000000000001"},
		// two classes behind one Go type: a proper list is a list, a dotted pair a cons
		{"'(1 2)", "'(3 4)"}, {"'(1 . 2)", "'(3 . 4)"},
		{"*vgate*", "*vgate2*"}, {"*vslow*", "*vslow2*"}} {
		v := common.EvalIn(scope, e[0])
		w := common.EvalIn(scope, e[1])
		if v.Err != "" || w.Err != "" {
			panic("C10 pool: " + e[0] + ": " + v.Msg + w.Msg)
		}
		a := argObj{expr: e[0], alt: e[1]}
		if v.Value == nil {
			a.cls, a.hier = "t", []string{"t"}
		} else {
			for _, h := range v.Value.Hierarchy() {
				a.hier = append(a.hier, string(h))
			}
			a.cls = a.hier[0]
		}
		// the alternate must have the same precedence list
		var wh []string
		for _, h := range w.Value.Hierarchy() {
			wh = append(wh, string(h))
		}
		if strings.Join(wh, " ") != strings.Join(a.hier, " ") || objKey(v.Value) == objKey(w.Value) {
			panic("C10 pool: " + e[1] + " is not an alternate of " + e[0])
		}
		alternates[objKey(v.Value)], alternates[objKey(w.Value)] = w.Value, v.Value
		isAlt[objKey(w.Value)] = true
		pool = append(pool, a)
	}
	// class table
	var ctItems []string
	seen := map[string]bool{}
	for _, a := range pool {
		if !seen[a.cls] {
			seen[a.cls] = true
			ctItems = append(ctItems, "("+common.GStr(a.cls)+", "+common.GStrs(a.hier)+")")
		}
	}
	ct := common.GList(ctItems)
	specs := []string{"t", "number", "real", "rational", "integer", "fixnum", "ratio", "float", "double-float",
		"string", "vc1", "vc2", "vc3", "vc4", "bignum", "vslow", "vgate", "cons", "list", "sequence"}

	ncases := 400
	if ctx.Thorough() {
		ncases = 6000
	}
	var terms []string
	var descs []any
	distinct := map[string]bool{}
	gid := 0
	runHistory := func(n int, recs []opRec) (string, []opRec, bool) {
		gid++
		g := fmt.Sprintf("vg%d", gid)
		params := []string{"a", "b"}[:n]
		if r := common.EvalIn(scope, fmt.Sprintf("(defgeneric %s (%s))", g, strings.Join(params, " "))); r.Err != "" {
			panic("defgeneric: " + r.Msg)
		}
		var gops, gobs []string
		timedOut := false
		defLisp := func(r *opRec) {
			// every method has parameter names of its own: nothing may depend on the names
			pn := make([]string, n)
			var ll []string
			// a parameter specialized on t is written `a` or `(a t)`: the same method
			if !r.Spelled {
				r.Bare = make([]bool, n)
				for j, c := range r.Key {
					r.Bare[j] = c == "t" && ctx.Rng.Chance(50)
				}
			}
			var gps []string
			for j, c := range r.Key {
				pn[j] = fmt.Sprintf("%s%d", params[j], r.ID)
				if r.Bare[j] && c == "t" {
					ll = append(ll, pn[j])
					gps = append(gps, "None")
					ctx.Hist("parameter:bare")
				} else {
					ll = append(ll, fmt.Sprintf("(%s %s)", pn[j], c))
					gps = append(gps, "Some "+common.GStr(c))
					if c == "t" {
						ctx.Hist("parameter:(a t)")
					}
				}
			}
			r.Lisp = fmt.Sprintf("(defmethod %s %s (%s) %s)", g, r.Qual, strings.Join(ll, " "), bodyLisp(r, pn))
			gops = append(gops, fmt.Sprintf("SDef %s %s %s", gq[r.Qual], common.GList(gps), bodyGallina(r)))
			gobs = append(gobs, "None")
		}
		for i := range recs {
			r := &recs[i]
			switch r.Kind {
			case "par":
				// routine B issues the definitions in order; routine A keeps calling with the slow
				// argument until B is done. By the cache-transparency theorem the outputs of later
				// calls depend on the method table only, so A's calls need not appear in the model's
				// history: the model sees B's definitions as sequential operations.
				for j := range r.Par {
					defLisp(&r.Par[j])
				}
				var wg sync.WaitGroup
				var done atomic.Bool
				slowOn.Store(true)
				wg.Add(2)
				callSrc := "(" + g + " *vslow*" + strings.Repeat(" 1", n-1) + ")"
				sa, sb := scope.NewScope(), scope.NewScope()
				go func() {
					defer wg.Done()
					saved := trace
					for k := 0; k < 400 && !done.Load(); k++ {
						_ = common.EvalIn(sa, callSrc)
					}
					_ = common.EvalIn(sa, callSrc)
					trace = saved
				}()
				go func() {
					defer wg.Done()
					for j := range r.Par {
						time.Sleep(time.Duration(200+ctx.Rng.Intn(900)) * time.Microsecond)
						if o := common.EvalIn(sb, r.Par[j].Lisp); o.Err != "" {
							r.Par[j].Res = "!" + o.Err + ": " + o.Msg
						}
					}
					done.Store(true)
				}()
				wg.Wait()
				slowOn.Store(false)
				r.Lisp = "concurrently: routine A repeats " + callSrc + " while routine B evaluates the concurrent_defs"
				continue
			case "gated":
				// routine A calls with a gate object as last argument and is parked in the middle of
				// its method lookup; routine B then issues one defmethod / remove-method. On a correct
				// tree B waits for the mutex (we give it 150 ms, then let A go on): order A, B. When B
				// returns while A is parked the order is B, A. Either way the calls that follow must
				// see B's change: the model gets the operations in that order.
				idx := len(gops)
				b := &r.Par[0]
				if b.Kind == "def" {
					defLisp(b)
				} else {
					ql := "nil"
					if b.Qual != "" {
						ql = "'(" + b.Qual + ")"
					}
					b.Lisp = fmt.Sprintf("(let ((m (find-method '%s %s '(%s)))) (if m (remove-method '%s m) nil))", g, ql,
						strings.Join(b.Key, " "), g)
					gops = append(gops, fmt.Sprintf("SRemove %s %s", gq[b.Qual], common.GStrs(b.Key)))
					gobs = append(gobs, "None")
				}
				var exprs, vs []string
				for j, c := range r.Args {
					for _, a := range pool {
						if a.cls == c {
							if r.Var[j] {
								exprs = append(exprs, a.alt)
							} else {
								exprs = append(exprs, a.expr)
							}
							break
						}
					}
					vs = append(vs, common.GBool(r.Var[j]))
				}
				r.Lisp = fmt.Sprintf("(%s %s)", g, strings.Join(exprs, " "))
				gate := gates[0]
				if r.Var[len(r.Var)-1] {
					gate = gates[1]
				}
				if r.ParkRun {
					// held in the body of the method with (vpark), after the lookup: the other
					// routine is not kept waiting, and the call had its methods before the change
					gate = runGate
				}
				gate.arm(r.GateAt)
				sa, sb := scope.NewScope(), scope.NewScope()
				k := &sink{}
				sa.Let(slip.Symbol(sinkVar), k)
				callDone := make(chan common.Outcome, 1)
				bDone := make(chan common.Outcome, 1)
				go func() { callDone <- common.EvalIn(sa, r.Lisp) }()
				var out, bout common.Outcome
				haveCall := false
				select {
				case <-gate.entered:
					r.Entered = true
				case out = <-callDone:
					haveCall = true
				case <-time.After(5 * time.Second):
				}
				go func() { bDone <- common.EvalIn(sb, b.Lisp) }()
				if r.Entered {
					select {
					case bout = <-bDone:
						r.BFirst = true
					case <-time.After(150 * time.Millisecond):
					}
					close(gate.proceed)
				}
				if !haveCall {
					select {
					case out = <-callDone:
					case <-time.After(5 * time.Second):
						out = common.Outcome{Err: "timeout"}
						timedOut = true
					}
				}
				if !r.BFirst {
					select {
					case bout = <-bDone:
					case <-time.After(5 * time.Second):
						bout = common.Outcome{Err: "timeout"}
						timedOut = true
					}
				}
				gate.disarm()
				if bout.Err != "" {
					b.Res = "!" + bout.Err + ": " + bout.Msg
					gobs[idx] = "(Some ([], ROther))"
				}
				r.Trace = append([]tev{}, k.tr...)
				res, shown := resultOf(out)
				r.Res = shown
				gops = append(gops, "SCall "+common.GStrs(r.Args)+" "+common.GList(vs))
				gobs = append(gobs, fmt.Sprintf("(Some (%s, %s))", common.GList(gallinaTrace(r.Trace)), res))
				if r.ParkRun || !r.BFirst {
					gops[idx], gops[idx+1] = gops[idx+1], gops[idx]
					gobs[idx], gobs[idx+1] = gobs[idx+1], gobs[idx]
				}
				switch {
				case r.ParkRun && r.BFirst:
					ctx.Hist("gated:method-table-changed-while-the-call-was-running")
				case r.ParkRun:
					ctx.Hist("gated:call-not-held-in-its-body")
				case r.BFirst:
					ctx.Hist("gated:other-routine-returned-while-the-call-was-parked")
				case r.Entered:
					ctx.Hist("gated:other-routine-waited-for-the-call")
				default:
					ctx.Hist("gated:call-not-parked")
				}
				continue
			case "def":
				defLisp(r)
			case "remove":
				ql := "nil"
				if r.Qual != "" {
					ql = "'(" + r.Qual + ")"
				}
				r.Lisp = fmt.Sprintf("(let ((m (find-method '%s %s '(%s)))) (if m (remove-method '%s m) nil))", g, ql,
					strings.Join(r.Key, " "), g)
				gops = append(gops, fmt.Sprintf("SRemove %s %s", gq[r.Qual], common.GStrs(r.Key)))
				gobs = append(gobs, "None")
			case "call":
				var exprs, vs []string
				for j, c := range r.Args {
					for _, a := range pool {
						if a.cls == c {
							if j < len(r.Var) && r.Var[j] {
								exprs = append(exprs, a.alt)
							} else {
								exprs = append(exprs, a.expr)
							}
							break
						}
					}
					vs = append(vs, common.GBool(j < len(r.Var) && r.Var[j]))
				}
				r.Lisp = fmt.Sprintf("(%s %s)", g, strings.Join(exprs, " "))
				gops = append(gops, "SCall "+common.GStrs(r.Args)+" "+common.GList(vs))
			}
			trace = trace[:0]
			var out common.Outcome
			if timedOut {
				out = common.Outcome{Err: "timeout"}
			} else {
				out = common.EvalTimeout(scope, r.Lisp, 3*time.Second)
			}
			if out.Err == "timeout" {
				timedOut = true
			}
			if r.Kind != "call" {
				if out.Err != "" {
					r.Res = "!" + out.Err + ": " + out.Msg
					// a definition that fails makes the model disagree on purpose
					gobs[len(gobs)-1] = "(Some ([], ROther))"
				}
				continue
			}
			r.Trace = append([]tev{}, trace...)
			evs := gallinaTrace(r.Trace)
			var res string
			res, r.Res = resultOf(out)
			ctx.Hist("call-result:" + strings.SplitN(res, " ", 2)[0])
			gobs = append(gobs, fmt.Sprintf("(Some (%s, %s))", common.GList(evs), res))
		}
		term := fmt.Sprintf("{| k_ct := ct; k_n := %d; k_ops := %s;\n     k_obs := %s |}", n, common.GList(gops), common.GList(gobs))
		return term, recs, timedOut
	}

	// each history has one or two focus argument tuples: most calls use them and most
	// specializers are drawn from their precedence lists, so that definitions, removals and
	// repeated (cached) calls interact
	var focus [][]argObj
	genKey := func(n int) []string {
		k := make([]string, n)
		f := common.Pick(ctx.Rng, focus)
		for i := range k {
			switch x := ctx.Rng.Intn(100); {
			case x < 70:
				k[i] = common.Pick(ctx.Rng, f[i].hier)
			case x < 80:
				k[i] = "t"
			default:
				k[i] = common.Pick(ctx.Rng, specs)
			}
		}
		return k
	}
	runAndStore := func(n int, recs []opRec) {
		term, recs, to := runHistory(n, recs)
		if to {
			ctx.Hist("timeout-history")
		}
		ctx.Meta.Evaluations++
		sig := term
		if i := strings.Index(sig, "k_ops"); i >= 0 {
			sig = sig[i:]
		}
		calls := 0
		for _, r := range recs {
			if r.Kind == "call" || r.Kind == "gated" {
				calls++
			}
			ctx.Hist("op:" + r.Kind)
		}
		if !distinct[sig] && calls > 0 {
			distinct[sig] = true
		}
		terms = append(terms, term)
		descs = append(descs, map[string]any{"generic_arity": n, "ops": recs})
		if len(terms)%97 == 1 || (len(recs) > 0 && len(terms)%5 == 0 && strings.Contains(term, "vgate") && len(ctx.Meta.Samples) < 8) {
			ctx.Sample(map[string]any{"generic_arity": n, "ops": recs})
		}
	}
	safe := os.Getenv("VERIF_C10_SAFE") != ""
	for len(terms) < ncases {
		n := 1 + ctx.Rng.Intn(2)
		L := 3 + ctx.Rng.Intn(12)
		focus = focus[:0]
		for f := 0; f < 1+ctx.Rng.Intn(2); f++ {
			t := make([]argObj, n)
			for i := range t {
				t[i] = common.Pick(ctx.Rng, pool)
			}
			focus = append(focus, t)
		}
		var recs []opRec
		var defined [][2]string // (qual, key joined)
		id := 0
		concurrent := ctx.Rng.Chance(30) && !safe
		errMix = [2]int{6, 20}
		if ctx.Rng.Chance(20) {
			// bodies that signal errors and call-next-method forms that survive them
			errMix = [2]int{25, 65}
			ctx.Hist("history:error-heavy")
		}
		// the mix of qualifiers of a history: even, mostly :around methods (so that three and more
		// are applicable to one call), or mostly primaries (chains of call-next-method)
		mix := [3]int{40, 62, 84}
		switch x := ctx.Rng.Intn(100); {
		case x < 30:
			mix = [3]int{25, 32, 40}
			ctx.Hist("history:around-heavy")
		case x < 50:
			mix = [3]int{75, 82, 90}
			ctx.Hist("history:primary-heavy")
		}
		if concurrent {
			// the first focus tuple starts with the slow object (last pool entry) and fixnums
			focus[0][0] = pool[len(pool)-1]
			for i := 1; i < n; i++ {
				focus[0][i] = pool[0]
			}
			ctx.Hist("history:with-concurrent-segment")
		}
		// most histories start with a catch-all primary so that calls are inside the guard
		if ctx.Rng.Chance(70) {
			id++
			k := make([]string, n)
			for i := range k {
				k[i] = "t"
			}
			recs = append(recs, opRec{Kind: "def", Qual: "", Key: k, ID: id})
			defined = append(defined, [2]string{"", strings.Join(k, "|")})
		}
		for len(recs) < L {
			p := ctx.Rng.Intn(100)
			if concurrent && len(recs) >= 2 && ctx.Rng.Chance(25) {
				var par []opRec
				for k := 0; k < 1+ctx.Rng.Intn(3); k++ {
					id++
					key := make([]string, n)
					key[0] = common.Pick(ctx.Rng, focus[0][0].hier)
					for i := 1; i < n; i++ {
						key[i] = common.Pick(ctx.Rng, []string{"t", "fixnum", "integer"})
					}
					q := ""
					if ctx.Rng.Chance(30) {
						q = common.Pick(ctx.Rng, []string{":before", ":after"})
					}
					par = append(par, opRec{Kind: "def", Qual: q, Key: key, ID: id})
					defined = append(defined, [2]string{q, strings.Join(key, "|")})
				}
				args := make([]string, n)
				for i := range args {
					args[i] = focus[0][i].cls
				}
				recs = append(recs, opRec{Kind: "par", Par: par}, opRec{Kind: "call", Args: args})
				continue
			}
			switch {
			case p < 50:
				id++
				q := ""
				switch x := ctx.Rng.Intn(100); {
				case x < mix[0]:
					q = ""
				case x < mix[1]:
					q = ":before"
				case x < mix[2]:
					q = ":after"
				default:
					q = ":around"
				}
				k := genKey(n)
				rec := opRec{Kind: "def", Qual: q, Key: k, ID: id}
				genBody(ctx, &rec, n)
				recs = append(recs, rec)
				defined = append(defined, [2]string{q, strings.Join(k, "|")})
			case p < 62 && len(defined) > 0:
				var q string
				var k []string
				if ctx.Rng.Chance(85) {
					d := common.Pick(ctx.Rng, defined)
					q, k = d[0], strings.Split(d[1], "|")
				} else {
					q, k = common.Pick(ctx.Rng, quals), genKey(n)
				}
				recs = append(recs, opRec{Kind: "remove", Qual: q, Key: k})
			default:
				args := make([]string, n)
				f := common.Pick(ctx.Rng, focus)
				for i := range args {
					if ctx.Rng.Chance(85) {
						args[i] = f[i].cls
					} else {
						args[i] = common.Pick(ctx.Rng, pool).cls
					}
				}
				vr := make([]bool, n)
				for i := range vr {
					vr[i] = ctx.Rng.Chance(30)
				}
				recs = append(recs, opRec{Kind: "call", Args: args, Var: vr})
				if ctx.Rng.Chance(30) { // immediate repeat: a cached call
					recs = append(recs, opRec{Kind: "call", Args: args, Var: vr})
				}
			}
		}
		runAndStore(n, recs)
	}
	errMix = [2]int{0, 0}
	// ---- systematic block 1: the cache key separates every two classes. For every ordered pair
	// (X, Y) of the argument classes and both argument positions: a catch-all primary, one method
	// (qualifier by rotation) on a class that only one of the two has in its precedence list, then
	// calls X, Y, X, Y with no definition in between: the second call must not reuse the first
	// one's effective method.
	pairNo := 0
	for pos := 0; pos < 2; pos++ {
		for xi, x := range pool {
			for yi, y := range pool {
				if xi == yi {
					continue
				}
				in := func(c string, h []string) bool {
					for _, e := range h {
						if e == c {
							return true
						}
					}
					return false
				}
				var only string
				for _, c := range y.hier {
					if !in(c, x.hier) {
						only = c
						break
					}
				}
				if only == "" {
					for _, c := range x.hier {
						if !in(c, y.hier) {
							only = c
							break
						}
					}
				}
				if only == "" {
					continue
				}
				pairNo++
				n := 1 + pos
				tkey, okey := []string{"t"}, []string{only}
				ax, ay := []string{x.cls}, []string{y.cls}
				if pos == 1 {
					tkey, okey = []string{"t", "t"}, []string{"t", only}
					ax, ay = []string{"fixnum", x.cls}, []string{"fixnum", y.cls}
				}
				vr := make([]bool, n)
				recs := []opRec{{Kind: "def", Qual: "", Key: tkey, ID: 1},
					{Kind: "def", Qual: quals[pairNo%4], Key: okey, ID: 2},
					{Kind: "call", Args: ax, Var: vr}, {Kind: "call", Args: ay, Var: vr},
					{Kind: "call", Args: ax, Var: vr}, {Kind: "call", Args: ay, Var: vr}}
				if recs[1].Qual == ":around" {
					recs[1].Calls, recs[1].NoArg, recs[1].Caught = [][]bool{make([]bool, n)}, []bool{pairNo%8 < 4}, []bool{false}
				}
				ctx.Hist("history:class-pair")
				runAndStore(n, recs)
			}
		}
	}
	// ---- systematic block 2: call-next-method walks the same order after an error. 2 or 3 :around
	// methods on a class chain; one body further in (the primary or an inner :around) signals an
	// error; the catching :around (the most specific one, or the middle one of three) calls
	// call-next-method in ignore-errors and then once more (caught or not, with or without
	// arguments): both attempts must enter the same methods.
	chain := []string{"fixnum", "integer", "rational"}
	for na := 2; na <= 3; na++ {
		for catcher := 0; catcher < na-1; catcher++ {
			for failAt := catcher + 1; failAt <= na; failAt++ { // na = the primary
				for variant := 0; variant < 4; variant++ {
					var recs []opRec
					prim := opRec{Kind: "def", Qual: "", Key: []string{"t"}, ID: 1, Fail: failAt == na}
					recs = append(recs, prim)
					for a := 0; a < na; a++ {
						r := opRec{Kind: "def", Qual: ":around", Key: []string{chain[a]}, ID: 2 + a,
							Calls: [][]bool{{false}}, NoArg: []bool{a%2 == 1}, Caught: []bool{false}, Fail: a == failAt}
						if a == catcher {
							r.Calls, r.NoArg = [][]bool{{false}, {false}}, []bool{false, variant%2 == 1}
							r.Caught = []bool{true, variant >= 2}
						}
						recs = append(recs, r)
					}
					recs = append(recs, opRec{Kind: "call", Args: []string{"fixnum"}, Var: []bool{variant == 3}},
						opRec{Kind: "call", Args: []string{"fixnum"}, Var: []bool{false}})
					ctx.Hist("history:retry-after-error")
					runAndStore(1, recs)
				}
			}
		}
	}
	// ---- systematic block 3: the spelling of a parameter specialized on t. `a` and `(a t)` denote
	// the same method: for every specializer tuple with a t (1 and 2 arguments), every way to write
	// it, every qualifier, and a redefinition in every other spelling (or none): define, call,
	// remove (through find-method with the specializers), call - the method must be gone -, define
	// again in the second spelling, call, remove, call.
	for _, key := range [][]string{{"t"}, {"t", "t"}, {"t", "fixnum"}, {"fixnum", "t"}} {
		n := len(key)
		var spellings [][]bool
		for m := 0; m < 1<<n; m++ {
			sp := make([]bool, n)
			ok := true
			for j := range sp {
				sp[j] = m>>j&1 == 1
				ok = ok && (!sp[j] || key[j] == "t")
			}
			if ok {
				spellings = append(spellings, sp)
			}
		}
		base := []string{"integer", "integer"}[:n]
		fix, str := []string{"fixnum", "fixnum"}[:n], []string{"string", "fixnum"}[:n]
		vr := make([]bool, n)
		for _, s1 := range spellings {
			for si := -1; si < len(spellings); si++ {
				for _, q := range quals {
					s2 := s1
					if si >= 0 {
						s2 = spellings[si]
					}
					mk := func(id int, sp []bool) opRec {
						r := opRec{Kind: "def", Qual: q, Key: key, ID: id, Bare: sp, Spelled: true}
						if q == ":around" {
							r.Calls, r.NoArg, r.Caught = [][]bool{make([]bool, n)}, []bool{id%2 == 0}, []bool{false}
						}
						return r
					}
					calls := []opRec{{Kind: "call", Args: fix, Var: vr}, {Kind: "call", Args: str, Var: vr}}
					rm := opRec{Kind: "remove", Qual: q, Key: key}
					recs := []opRec{{Kind: "def", Qual: "", Key: base, ID: 1}, mk(2, s1)}
					if si >= 0 {
						recs = append(recs, mk(3, s2))
					}
					recs = append(recs, calls...)
					recs = append(recs, rm)
					recs = append(recs, calls...)
					recs = append(recs, mk(4, s2))
					recs = append(recs, calls[0], rm)
					recs = append(recs, calls...)
					ctx.Hist("history:parameter-spelling")
					runAndStore(n, recs)
				}
			}
		}
	}
	// histories with a forced schedule: a call parked in the middle of its method lookup while
	// another routine defines or removes a method the lookup has already passed. The calls that
	// follow must see the change (a method list computed before it must not be in the cache).
	ngated := 12
	if ctx.Thorough() {
		ngated = 120
	}
	gatePool := pool[len(pool)-2]
	for h := 0; h < ngated; h++ {
		var first argObj
		for {
			first = common.Pick(ctx.Rng, pool)
			if len(first.hier) >= 2 && first.cls != "vgate" && first.cls != "vslow" {
				break
			}
		}
		id := 0
		var recs []opRec
		var defined [][2]string
		randKey := func(maxFirst int) []string {
			return []string{first.hier[ctx.Rng.Intn(maxFirst)], common.Pick(ctx.Rng, gatePool.hier)}
		}
		randDef := func(maxFirst int) opRec {
			id++
			q := common.Pick(ctx.Rng, []string{"", "", ":before", ":after", ":around"})
			rec := opRec{Kind: "def", Qual: q, Key: randKey(maxFirst), ID: id}
			genBody(ctx, &rec, 2)
			defined = append(defined, [2]string{q, strings.Join(rec.Key, "|")})
			return rec
		}
		if ctx.Rng.Chance(85) {
			id++
			recs = append(recs, opRec{Kind: "def", Qual: "", Key: []string{"t", "t"}, ID: id})
			defined = append(defined, [2]string{"", "t|t"})
		}
		for i := 0; i < ctx.Rng.Intn(4); i++ {
			recs = append(recs, randDef(len(first.hier)))
		}
		args := []string{first.cls, "vgate"}
		for seg := 0; seg < 1+ctx.Rng.Intn(2); seg++ {
			// a definition right before: the cache is empty, the call has to walk
			recs = append(recs, randDef(len(first.hier)))
			vr := []bool{ctx.Rng.Chance(30), ctx.Rng.Chance(30)}
			// parked at Hierarchy() call number at of the gate: the first at-2 classes of the first
			// argument have been looked up
			walked := 1 + ctx.Rng.Intn(min(len(first.hier)-1, 5))
			var b opRec
			if ctx.Rng.Chance(35) {
				// remove a method the walk has passed, if there is one
				var cand [][2]string
				for _, d := range defined {
					k := strings.Split(d[1], "|")
					for w := 0; w < walked; w++ {
						if first.hier[w] == k[0] {
							cand = append(cand, d)
						}
					}
				}
				if len(cand) > 0 {
					d := common.Pick(ctx.Rng, cand)
					b = opRec{Kind: "remove", Qual: d[0], Key: strings.Split(d[1], "|")}
				}
			}
			if b.Kind == "" {
				b = randDef(walked)
			}
			recs = append(recs, opRec{Kind: "gated", Args: args, Var: vr, GateAt: walked + 2, Par: []opRec{b}})
			recs = append(recs, opRec{Kind: "call", Args: args, Var: vr})
			if ctx.Rng.Chance(50) {
				recs = append(recs, opRec{Kind: "call", Args: args, Var: []bool{!vr[0], vr[1]}})
			}
		}
		if len(defined) > 0 {
			// the call is held in the body of its first :before method while the other routine
			// removes (or replaces) a method that is applicable and has not run yet: the call
			// runs the methods that were defined when it was made
			id++
			vr := []bool{ctx.Rng.Chance(30), ctx.Rng.Chance(30)}
			recs = append(recs, opRec{Kind: "def", Qual: ":before", Key: []string{first.cls, "vgate"}, ID: id, Park: true})
			d := common.Pick(ctx.Rng, defined)
			b := opRec{Kind: "remove", Qual: d[0], Key: strings.Split(d[1], "|")}
			if ctx.Rng.Chance(25) {
				id++
				b = opRec{Kind: "def", Qual: d[0], Key: strings.Split(d[1], "|"), ID: id}
				genBody(ctx, &b, 2)
			}
			recs = append(recs, opRec{Kind: "gated", Args: args, Var: vr, GateAt: 1, ParkRun: true, Par: []opRec{b}})
			recs = append(recs, opRec{Kind: "call", Args: args, Var: vr})
		}
		ctx.Hist("history:gated")
		runAndStore(2, recs)
	}
	ctx.Meta.DistinctNontrivial = len(distinct)
	ctx.Meta.Rule = "random histories (3..14 ops) of defmethod (4 qualifiers x specializer tuples over 16 classes; primary and :around bodies " +
		"with optional next-method-p and 0..2 call-next-method forms: arguments as received, none written, or exchanged for the second " +
		"object of the class; every method has parameter names of its own; a parameter specialized on t is written bare or as (a t), each with probability 1/2)/remove-method through find-method/call on fresh 1- and 2-argument generic functions " +
		"with arguments from 9 classes x 2 objects (numeric tower, string, two CLOS chain instances, nil, a slow-hierarchy object); " +
		"plus enumerated blocks: class pairs against the cache key, retry after an error, every spelling of every t-containing specializer tuple x qualifier x redefinition with define/call/remove/call, forced schedules; " +
		"a case is distinct by its op list + observed outputs and non-trivial when it contains at least one call"
	header := "From C10 Require Import Model Spec Proofs ModelDoc Corr.\nOpen Scope N_scope.\nDefinition ct : ctable := " + ct + ".\n"
	footer := "Definition res := Eval vm_compute in check_all cases.\nPrint res.\n" +
		"Definition gcount := Eval vm_compute in guard_count cases.\nPrint gcount.\n" +
		"Definition bare_method_definitions := Eval vm_compute in bare_defs cases.\nPrint bare_method_definitions.\n"
	ctx.WriteShards("cases", header, "case", footer, terms, descs, 16)
	runConcurrent(ctx)
	ctx.ReplayKnownLisp()
}

func runInner(ctx *common.Ctx, safe bool) (string, error) {
	exe, err := os.Executable()
	if err != nil {
		return "", err
	}
	_ = os.Remove(ctx.OutDir + "/meta.json")
	cmd := exec.Command(exe, os.Args[1:]...)
	cmd.Env = append(os.Environ(), "VERIF_C10_INNER=1")
	if safe {
		cmd.Env = append(cmd.Env, "VERIF_C10_SAFE=1")
	}
	var stderr strings.Builder
	cmd.Stderr = &stderr
	cmd.Stdout = os.Stdout
	err = cmd.Run()
	se := stderr.String()
	if len(se) > 2500 {
		se = se[:2500]
	}
	return se, err
}
