package c20

import (
	"bufio"
	"encoding/json"
	"fmt"
	"os"
	"os/exec"
	"path/filepath"
	"reflect"
	"runtime"
	"sort"
	"strings"

	"github.com/ohler55/slip"
	"github.com/ohler55/slip/pkg/repl"
	"verifharness/common"
)

// ---- (c) buffer boundaries of the file reader: an entry that ends exactly where the reader's buffer ends ----

func boundaryRuns(ctx *common.Ctx, base string) {
	targets := []int{4094, 4095, 4096, 4097, 8191, 8192, 8193, 12288}
	for i := 0; i < 6; i++ {
		targets = append(targets, 3000+ctx.Rng.Intn(9000))
	}
	for ti, target := range targets {
		for _, multi := range []bool{false, true} {
			dir := filepath.Join(base, fmt.Sprintf("b%d-%v", ti, multi))
			_ = os.MkdirAll(dir, 0o755)
			hist := filepath.Join(dir, "history")
			h := &repl.History{}
			h.SetLimit(5000)
			h.Load(hist)
			pos := 0 // bytes written so far
			n := 0
			add := func(text string) {
				lines := []string{text}
				if multi && len(text) > 12 { // a two-line form: the lines are joined by a tab in the file
					lines = []string{text[:6], text[7:]}
				}
				h.Add(formOf(lines))
				pos += len(text) + 1
				n++
			}
			for pos+80 < target {
				add(fmt.Sprintf("(entry %04d %s)", n, strings.Repeat("x", 10+ctx.Rng.Intn(20))))
			}
			// the next entry's text ends at byte target-1, its newline is byte number `target`
			fill := target - pos
			if fill >= 12 {
				add(fmt.Sprintf("(fill %04d %s)", n, strings.Repeat("y", fill-12)))
			}
			for k := 0; k < 3; k++ {
				add(fmt.Sprintf("(after %04d)", n))
			}
			want := formsOf(h)
			got := loadFresh5000(hist)
			ctx.Meta.Evaluations++
			ctx.Hist("buffer-boundary-run")
			if !reflect.DeepEqual(want, got) {
				st, _ := os.Stat(hist)
				ctx.Violate("a restart does not load the history that was entered (file larger than the reader's buffer)",
					map[string]any{"entries": n, "newline_of_an_entry_at_byte": target, "multi_line_forms": multi, "file_size": st.Size()},
					fmt.Sprintf("loaded %d forms; first difference at %d", len(got), firstDiff(want, got)), fmt.Sprintf("%d forms", len(want)))
			}
		}
	}
}

func loadFresh5000(hist string) [][]string {
	h := &repl.History{}
	h.SetLimit(5000)
	h.Load(hist)
	return formsOf(h)
}

func firstDiff(a, b [][]string) int {
	for i := range a {
		if i >= len(b) || !reflect.DeepEqual(a[i], b[i]) {
			return i
		}
	}
	return len(a)
}

// ---- (d) saved settings across restarts: every session is a process of its own ----

var settingVars = []string{"*print-right-margin*", "*print-length*", "*print-level*", "*print-lines*", "*print-miser-width*"}

type setOp struct {
	Var string `json:"var"`
	Val int    `json:"val"` // -1 = nil
}

// SettingsWorker is `harness C20S --out <config dir>`: one REPL session. It reports the value of the
// tracked variables after start-up (config.lisp evaluated) and then applies the ops given on stdin.
func SettingsWorker(ctx *common.Ctx) {
	runtime.LockOSThread() // strace counts the calls to inject a death at per thread
	repl.SetConfigDir(ctx.OutDir)
	s := repl.Scope()
	loaded := map[string]string{}
	for _, v := range settingVars {
		loaded[v] = slip.ObjectString(s.Get(slip.Symbol(v)))
	}
	b, _ := json.Marshal(loaded)
	fmt.Println(string(b))
	in := bufio.NewScanner(os.Stdin)
	for in.Scan() {
		var o setOp
		if json.Unmarshal(in.Bytes(), &o) != nil {
			continue
		}
		val := "nil"
		if o.Val >= 0 {
			val = fmt.Sprint(o.Val)
		}
		func() {
			defer func() {
				if r := recover(); r != nil {
					fmt.Println("rejected " + o.Var) // the variable does not take this value: nothing was set
				}
			}()
			code := slip.ReadString(fmt.Sprintf("(setq %s %s)", o.Var, val), s)
			for _, f := range code {
				_ = s.Eval(f, 0)
			}
			fmt.Println("set " + o.Var)
		}()
	}
	os.Exit(0)
}

// runSettingsSession runs one REPL session (`harness C20S`) on the configuration directory, optionally under
// strace with the given arguments; it returns the settings the session started with and whether it started
// and accepted every op.
func runSettingsSession(self, dir string, ops []setOp, strace []string) (map[string]string, bool) {
	var cmd *exec.Cmd
	if strace != nil {
		cmd = exec.Command("strace", append(append([]string{}, strace...), self, "C20S", "--out", dir)...)
	} else {
		cmd = exec.Command(self, "C20S", "--out", dir)
	}
	var in strings.Builder
	for _, o := range ops {
		b, _ := json.Marshal(o)
		in.Write(b)
		in.WriteByte('\n')
	}
	cmd.Stdin = strings.NewReader(in.String())
	out, _ := cmd.Output()
	lines := strings.Split(strings.TrimSpace(string(out)), "\n")
	loaded := map[string]string{}
	if len(lines) == 0 || json.Unmarshal([]byte(lines[0]), &loaded) != nil {
		return nil, false
	}
	if strace == nil || !strings.Contains(strings.Join(strace, " "), "inject=") {
		if len(lines)-1 != len(ops) {
			return loaded, false
		}
		for _, l := range lines[1:] {
			if !strings.HasPrefix(l, "set ") {
				return loaded, false
			}
		}
	}
	return loaded, true
}

func settingsRuns(ctx *common.Ctx, self, base string) (terms []string, descs []any) {
	nseq := 25
	if ctx.Thorough() {
		nseq = 300
	}
	defaults := map[string]string{}
	for k := 0; k < nseq; k++ {
		dir := filepath.Join(base, fmt.Sprintf("cfg%d", k))
		_ = os.MkdirAll(dir, 0o755)
		nsess := 2 + ctx.Rng.Intn(4)
		last := map[string]string{} // variable -> value last set
		var gsess []string
		var rec []any
		ok := true
		for si := 0; si < nsess && ok; si++ {
			var ops []setOp
			for i := ctx.Rng.Intn(4); i > 0; i-- {
				o := setOp{Var: common.Pick(ctx.Rng, settingVars), Val: 20 + ctx.Rng.Intn(90)}
				if ctx.Rng.Chance(15) {
					o.Val = -1
				}
				ops = append(ops, o)
			}
			cmd := exec.Command(self, "C20S", "--out", dir)
			var in strings.Builder
			for _, o := range ops {
				b, _ := json.Marshal(o)
				in.Write(b)
				in.WriteByte('\n')
			}
			cmd.Stdin = strings.NewReader(in.String())
			out, err := cmd.Output()
			ctx.Meta.Evaluations++
			ctx.Hist("settings-session")
			loaded := map[string]string{}
			lines := strings.Split(strings.TrimSpace(string(out)), "\n")
			line := lines[0]
			if len(lines)-1 == len(ops) { // drop the ops the REPL rejected (a value the variable does not take)
				var kept []setOp
				for i, o := range ops {
					if strings.HasPrefix(lines[i+1], "set ") {
						kept = append(kept, o)
					} else {
						ctx.Hist("settings-value-rejected")
					}
				}
				ops = kept
			}
			if err != nil || json.Unmarshal([]byte(line), &loaded) != nil {
				stderr := ""
				if ee, isExit := err.(*exec.ExitError); isExit {
					stderr = string(ee.Stderr)
					if len(stderr) > 1500 {
						stderr = stderr[:1500]
					}
				}
				ctx.Violate("a REPL session with saved settings failed to start", map[string]any{"dir": dir, "session": si, "history": rec}, fmt.Sprint(err, " ", string(out), " ", stderr), nil)
				ok = false
				break
			}
			if si == 0 && len(defaults) == 0 {
				for k2, v := range loaded {
					defaults[k2] = v
				}
			}
			// what this session must have loaded: the last value set in an earlier session, else the default
			var gl []string
			for vi, v := range settingVars {
				want, has := last[v]
				if !has {
					want = defaults[v]
				}
				if loaded[v] != want {
					ctx.Violate("a saved setting is not what the user last set in an earlier session",
						map[string]any{"variable": v, "sessions_so_far": rec, "session": si}, loaded[v], want)
				}
				gl = append(gl, fmt.Sprintf("(%d%%N, %s)", vi, gVal(loaded[v], "")))
			}
			var gops []string
			for _, o := range ops {
				vs := "nil"
				if o.Val >= 0 {
					vs = fmt.Sprint(o.Val)
				}
				last[o.Var] = vs
				gops = append(gops, fmt.Sprintf("(%d%%N, %s)", indexOf(settingVars, o.Var), gVal(vs, "")))
			}
			gsess = append(gsess, fmt.Sprintf("(%s, %s)", common.GList(gl), common.GList(gops)))
			rec = append(rec, map[string]any{"loaded": loaded, "then_set": ops})
		}
		if ok {
			terms = append(terms, common.GList(gsess))
			descs = append(descs, map[string]any{"settings_sessions": rec})
		}
	}
	return
}

// a value as the settings model sees it: None = the default / unset, Some z, or Some (-1) for nil
func gVal(v, def string) string {
	if def != "" && v == def {
		return "None"
	}
	if v == "nil" {
		return "(Some (-1)%Z)"
	}
	return "(Some (" + v + ")%Z)"
}

func indexOf(xs []string, x string) int {
	for i, y := range xs {
		if x == y {
			return i
		}
	}
	return -1
}

var _ = sort.Strings
