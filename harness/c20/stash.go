package c20

import (
	"bytes"
	"encoding/json"
	"fmt"
	"os"
	"path/filepath"
	"runtime"
	"strings"

	"github.com/ohler55/slip"
	"github.com/ohler55/slip/pkg/repl"
	"verifharness/common"
)

// ---- (e) the stash: Stash.Add / clear-stash with ranges / use-stash / restart on the global repl.TheStash ----

// lispScope evaluates the REPL's Lisp functions (clear-history, clear-stash, use-stash).
var lispScope = slip.NewScope()

type SOp struct {
	Kind  string   `json:"op"` // add | clear | use | restart
	Form  []string `json:"form,omitempty"`
	Start int      `json:"start,omitempty"`
	End   int      `json:"end,omitempty"`
	Lisp  bool     `json:"lisp,omitempty"` // clear through (clear-stash :start s :end e) instead of Stash.Clear
}

type SJob struct {
	File string `json:"file"`
	Ops  []SOp  `json:"ops"`
}

// stashRestart is what a new process does: an empty Stash, then LoadExpanded of the stash file.
func stashRestart(file string) {
	repl.TheStash = repl.Stash{}
	func() {
		defer func() { _ = recover() }() // the reader rejected the file: the forms loaded so far stay
		repl.TheStash.LoadExpanded(file)
	}()
}

func sApply(scope *slip.Scope, file string, o SOp) (panicked string) {
	defer func() {
		if r := recover(); r != nil {
			panicked = fmt.Sprint(r)
		}
	}()
	switch o.Kind {
	case "add":
		repl.TheStash.Add(formOf(o.Form)) // what the stash-form key (M-s) calls
	case "clear":
		if o.Lisp {
			out := common.EvalIn(scope, fmt.Sprintf("(clear-stash :start %d :end %d)", o.Start, o.End))
			if out.Err != "" {
				panicked = out.Err + ": " + out.Msg
			}
		} else {
			repl.TheStash.Clear(o.Start, o.End)
		}
	case "use":
		// a failure of the reader inside LoadExpanded surfaces as a Lisp error; the stash keeps what was loaded
		_ = common.EvalIn(scope, fmt.Sprintf("(use-stash %q)", file))
	case "restart":
		stashRestart(file)
	}
	return
}

func stashForms(s *repl.Stash) [][]string {
	var out [][]string
	for i := s.Size() - 1; i >= 0; i-- {
		f := s.Nth(i)
		ls := []string{}
		for _, l := range f {
			ls = append(ls, string(l))
		}
		out = append(out, ls)
	}
	return out
}

// loadFreshStash: what a fresh Stash loads from the file, and whether LoadExpanded returned normally.
func loadFreshStash(file string) (forms [][]string, ok bool) {
	var s repl.Stash
	ok = true
	func() {
		defer func() {
			if r := recover(); r != nil {
				ok = false
			}
		}()
		s.LoadExpanded(file)
	}()
	return stashForms(&s), ok
}

func gLoad(forms [][]string, ok bool) string {
	return fmt.Sprintf("(%s, %s)", gForms(forms), common.GBool(ok))
}

// StashWorker is `harness C20T`: runs a stash job; it is the process that gets killed.
func StashWorker(ctx *common.Ctx) {
	runtime.LockOSThread()
	data, err := os.ReadFile(os.Getenv("VERIF_C20_SJOB"))
	if err != nil {
		panic(err)
	}
	var job SJob
	if err = json.Unmarshal(data, &job); err != nil {
		panic(err)
	}
	scope := slip.NewScope()
	stashRestart(job.File)
	for _, o := range job.Ops {
		_ = sApply(scope, job.File, o)
	}
	os.Exit(0)
}

var stashPool = [][]string{
	{"(a)"}, {"(b 1)"}, {"(c 2 3)"}, {"(defun f ()", "  1)"}, {"(let ((x 1))", "  x)"}, {"(d)"}, {"(e \"s\")"},
	{"(e \"λ é\")"}, {"(λ é)"}, {"x"}, {"  (lead)"}, {"(trail)  "}, {"(s \"(\")"}, {"(k ; not closed )", "  2)"}, {"(q \"a\\\"b\" \")\")"},
	{"(three", "  ", "  lines)"}, {"\"a string", "over two lines\""}, {"(e", "", ")"}, {"(defun g ()", "", "", "  2)"},
}
var stashOdd = [][]string{
	{"   "}, {}, {"(a\tb)"}, {"(p"}, {"(two)", "(forms)"}, {"", "(first-empty)"}, {"(last-empty)", ""}, {")"}, {"x;1"},
}

// ---- the reader's verdicts, asked of the real reader ----

// readerVerdict is what Stash.LoadExpanded's fullForm finds out about a text: slip.Read in the REPL's scope under
// recover; 0 = read completely, 1 = *slip.PartialPanic (ends inside a list or string), 2 = any other reader failure.
func readerVerdict(text []byte) (v int) {
	defer func() {
		if r := recover(); r != nil {
			if _, ok := r.(*slip.PartialPanic); ok {
				v = 1
			} else {
				v = 2
			}
		}
	}()
	_ = slip.Read(append([]byte{}, text...), repl.GetScope())
	return 0
}

// oracle collects the verdicts of the real reader for the texts the model will ask about.
type oracle struct {
	seen  map[string]int
	order []string
}

func (o *oracle) ask(text []byte) int {
	if v, ok := o.seen[string(text)]; ok {
		return v
	}
	v := readerVerdict(text)
	o.seen[string(text)] = v
	o.order = append(o.order, string(text))
	return v
}

// file asks about every text LoadExpanded puts to the reader while it loads a file with this content: complete
// lines only; an empty line is skipped unless a form has begun; a line is split at TABs; the text grows until
// the reader accepts it; a reader failure ends the load.
func (o *oracle) file(content []byte) {
	lines := bytes.Split(content, []byte{'\n'})
	lines = lines[:len(lines)-1] // what follows the last newline is not a line
	var buf []byte
	n := 0
	for _, line := range lines {
		if len(line) == 0 && n == 0 {
			continue
		}
		for _, sub := range bytes.Split(line, []byte{'\t'}) {
			buf = append(append(buf, sub...), '\n')
			n++
		}
		switch o.ask(buf) {
		case 0:
			buf, n = nil, 0
		case 2:
			return
		}
	}
}

// form asks about every line-prefix of a form (what the guard `sencodable` needs).
func (o *oracle) form(lines []string) {
	var buf []byte
	for _, l := range lines {
		buf = append(append(buf, l...), '\n')
		o.ask(buf)
	}
}

func (o *oracle) path(file string) {
	if data, err := os.ReadFile(file); err == nil {
		o.file(data)
	}
}

func (o *oracle) verdicts() map[string]string {
	m := map[string]string{}
	for t, v := range o.seen {
		m[t] = []string{"complete", "partial", "error"}[v]
	}
	return m
}

func (o *oracle) gterm() string {
	xs := make([]string, len(o.order))
	for i, t := range o.order {
		xs[i] = fmt.Sprintf("(%s, %d%%N)", gBytes(t), o.seen[t])
	}
	return common.GList(xs)
}

func gSOp(o SOp) string {
	switch o.Kind {
	case "add":
		return "SAdd " + gForm(o.Form)
	case "clear":
		return fmt.Sprintf("SClear (%d) (%d)", o.Start, o.End)
	case "use":
		return "SUse"
	}
	return "SRestart"
}

func stashRuns(ctx *common.Ctx, self, base string) (terms []string, descs []any) {
	nseq, ncrash, maxOps := 90, 8, 24
	if ctx.Thorough() {
		nseq, ncrash, maxOps = 900, 100, 60
	}
	scope := slip.NewScope()
	for k := 0; k < nseq; k++ {
		dir := filepath.Join(base, fmt.Sprintf("t%d", k))
		_ = os.MkdirAll(dir, 0o755)
		file := filepath.Join(dir, "stash.lisp")
		d0h, d0t := "None", "None"
		var init0 any
		switch x := ctx.Rng.Intn(100); {
		case x < 12: // as Add writes it
			init0 = "(old 1)\n\n(old\n  2)\n\n"
			ctx.Hist("stash-init:expanded")
		case x < 24: // as Clear writes it
			init0 = "(old 1)\n(old\t  2)\n"
			ctx.Hist("stash-init:tabs")
		case x < 32: // written by hand (slip's own test data): both formats, no blank line after the last form
			init0 = "one\n(+ 1\t   2\t   3)\n\n(* 2\n   four)\n"
			ctx.Hist("stash-init:foreign")
		default:
			ctx.Hist("stash-init:none")
		}
		if s, ok := init0.(string); ok {
			_ = os.WriteFile(file, []byte(s), 0o644)
			d0h = "(Some " + gBytes(s) + ")"
		}
		stale := ctx.Rng.Chance(25)
		if stale {
			s := "(stale 1)\n(stale 2)\n"
			_ = os.WriteFile(file+".tmp", []byte(s), 0o644)
			d0t = "(Some " + gBytes(s) + ")"
			ctx.Hist("stash-init:stale-tmp")
		}
		odd := ctx.Rng.Chance(30)
		n := 3 + ctx.Rng.Intn(maxOps-2)
		var ops []SOp
		var last []string
		for i := 0; i < n; i++ {
			switch x := ctx.Rng.Intn(100); {
			case x < 62:
				var f []string
				switch {
				case last != nil && ctx.Rng.Chance(12):
					f = last
				case odd && ctx.Rng.Chance(22):
					f = common.Pick(ctx.Rng, stashOdd)
				default:
					f = append([]string{}, common.Pick(ctx.Rng, stashPool)...)
					if ctx.Rng.Chance(40) {
						f[len(f)-1] = fmt.Sprintf("%s ;%d", f[len(f)-1], i)
					}
				}
				last = f
				ops = append(ops, SOp{Kind: "add", Form: f})
			case x < 78:
				o := SOp{Kind: "clear", Start: 0, End: -1, Lisp: ctx.Rng.Bool()}
				if ctx.Rng.Chance(70) {
					o.Start, o.End = ctx.Rng.Intn(8)-2, ctx.Rng.Intn(10)-2
					ctx.Hist("stash-clear:range")
				} else {
					ctx.Hist("stash-clear:all")
				}
				ops = append(ops, o)
			case x < 88:
				ops = append(ops, SOp{Kind: "use"})
			default:
				ops = append(ops, SOp{Kind: "restart"})
			}
		}
		// what the real reader says about every text the model will ask about
		orc := &oracle{seen: map[string]int{}}
		orc.path(file)
		if ld0, _ := loadFreshStash(file); true {
			for _, f := range ld0 {
				orc.form(f)
			}
		}
		for _, o := range ops {
			if o.Kind == "add" {
				orc.form(o.Form)
			}
		}
		// (a) in process
		stashRestart(file)
		var gops, gobs []string
		var recs []any
		for _, o := range ops {
			ctx.Hist("stash-op:" + o.Kind)
			if p := sApply(scope, file, o); p != "" {
				ctx.Violate("stash operation panicked", o, p, nil)
			}
			hf, hraw := gFile(file)
			tf, traw := gFile(file + ".tmp")
			orc.path(file)
			mem := stashForms(&repl.TheStash)
			ld, ok := loadFreshStash(file)
			gops = append(gops, gSOp(o))
			gobs = append(gobs, fmt.Sprintf("(%s, %s, %s, %s)", gForms(mem), hf, tf, gLoad(ld, ok)))
			recs = append(recs, map[string]any{"op": o, "memory": mem, "stash_file": hraw, "tmp_file": traw, "loaded_by_fresh_stash": ld, "load_ok": ok})
		}
		// (b) process deaths
		crashTerm := "[]"
		var crashRec any
		if k < ncrash {
			job := SJob{File: file, Ops: ops}
			cobs, crec := crashGeneric(ctx, self, base, k, job, crashSpec{tag: "tc", worker: "C20T", fname: "stash.lisp", env: "VERIF_C20_SJOB",
				jobFor: func(f string) []byte {
					data, _ := json.Marshal(&SJob{File: f, Ops: ops})
					return data
				},
				init0: init0, stale: stale,
				observe: func(f string) (string, any) {
					orc.path(f)
					ld, ok := loadFreshStash(f)
					return gLoad(ld, ok), map[string]any{"forms": ld, "ok": ok}
				}})
			crashTerm = common.GList(cobs)
			crashRec = crec
		}
		terms = append(terms, fmt.Sprintf("{| s_d0 := {| d_hist := %s; d_tmp := %s |}; s_ops := %s;\n     s_obs := %s;\n     s_crash := %s;\n     s_rd := %s |}",
			d0h, d0t, common.GList(gops), common.GList(gobs), crashTerm, orc.gterm()))
		ctx.Hist(fmt.Sprintf("stash-reader-texts:%d", (len(orc.order)+19)/20*20))
		descs = append(descs, map[string]any{"initial_stash": init0, "stale_tmp": stale, "steps": recs, "crash_runs": crashRec, "reader_verdicts": orc.verdicts()})
		ctx.Meta.Evaluations++
		if k%41 == 0 {
			ctx.Sample(map[string]any{"stash_ops": ops, "initial_stash": init0})
		}
	}
	return
}

// ---- (f) a death while config.lisp is updated ----

// settingsCrashRuns: a configuration directory with saved settings; a session (a process of its own) sets one
// variable and is killed on entering each state-changing system call on config.lisp / config.lisp.tmp; a fresh
// session then reports what it loaded.
func settingsCrashRuns(ctx *common.Ctx, self, base string) (terms []string, descs []any) {
	nseq := 4
	if ctx.Thorough() {
		nseq = 40
	}
	for k := 0; k < nseq; k++ {
		dir := filepath.Join(base, fmt.Sprintf("ccfg%d", k))
		_ = os.MkdirAll(dir, 0o755)
		// earlier sessions: some settings saved
		var setup []setOp
		for i := 1 + ctx.Rng.Intn(3); i > 0; i-- {
			setup = append(setup, setOp{Var: common.Pick(ctx.Rng, settingVars), Val: 20 + ctx.Rng.Intn(90)})
		}
		if _, ok := runSettingsSession(self, dir, setup, nil); !ok {
			ctx.Violate("a REPL session with saved settings failed to start", map[string]any{"dir": dir}, nil, nil)
			continue
		}
		before, ok := runSettingsSession(self, dir, nil, nil)
		if !ok {
			ctx.Violate("a REPL session with saved settings failed to start", map[string]any{"dir": dir}, nil, nil)
			continue
		}
		op := setOp{Var: common.Pick(ctx.Rng, settingVars), Val: 130 + ctx.Rng.Intn(60)}
		after := map[string]string{}
		for v, x := range before {
			after[v] = x
		}
		after[op.Var] = fmt.Sprint(op.Val)
		cfg := filepath.Join(dir, "config.lisp")
		saved, _ := os.ReadFile(cfg)
		// the system calls of the updating session
		log := filepath.Join(base, fmt.Sprintf("cfglog%d", k))
		if _, ok = runSettingsSession(self, dir, []setOp{op}, stracePrefix(cfg, log)); !ok {
			ctx.Violate("the settings session failed under strace", map[string]any{"dir": dir, "op": op}, nil, nil)
			continue
		}
		raw, _ := os.ReadFile(log)
		type ev struct {
			typ     string
			ordinal int
			kind    int
		}
		var evs []ev
		cnt := map[string]int{}
		for _, ln := range strings.Split(string(raw), "\n") {
			switch {
			case reOpen.MatchString(ln):
				m := reOpen.FindStringSubmatch(ln)
				cnt["openat"]++
				if strings.Contains(m[2], "O_WRONLY") || strings.Contains(m[2], "O_RDWR") {
					kind := 0
					if strings.HasSuffix(m[1], ".tmp") {
						kind = 1
					}
					evs = append(evs, ev{"openat", cnt["openat"], kind})
				}
			case reWrite.MatchString(ln):
				m := reWrite.FindStringSubmatch(ln)
				cnt["write"]++
				kind := 2
				if strings.HasSuffix(m[1], ".tmp") {
					kind = 3
				}
				evs = append(evs, ev{"write", cnt["write"], kind})
			case reRename.MatchString(ln):
				name := ln[strings.Index(ln, "rename"):strings.Index(ln, "(")]
				cnt[name]++
				evs = append(evs, ev{name, cnt[name], 4})
			}
		}
		ctx.Hist(fmt.Sprintf("settings-crash-points:%d", len(evs)))
		var gobs []string
		var recs []any
		for _, e := range evs {
			// restore the directory, run the session again and kill it on entering this call
			_ = os.WriteFile(cfg, saved, 0o644)
			_ = os.Remove(cfg + ".tmp")
			inj := append(stracePrefix(cfg, "/dev/null"), "-e", fmt.Sprintf("inject=%s:signal=KILL:when=%d", e.typ, e.ordinal))
			_, _ = runSettingsSession(self, dir, []setOp{op}, inj)
			rawCfg, _ := os.ReadFile(cfg)
			loaded, ok2 := runSettingsSession(self, dir, nil, nil)
			ctx.Meta.Evaluations++
			ctx.Hist("settings-crash-run")
			if !ok2 {
				ctx.Violate("after a death while config.lisp was updated the next REPL session fails to start",
					map[string]any{"killed_on_entering": fmt.Sprintf("%s #%d", e.typ, e.ordinal), "op": op, "config_before": string(saved)}, string(rawCfg), nil)
				continue
			}
			if !sameSettings(loaded, before) && !sameSettings(loaded, after) {
				ctx.Violate("after a death while config.lisp was updated the next session starts with settings that are neither those before nor those after the change",
					map[string]any{"killed_on_entering": fmt.Sprintf("%s #%d", e.typ, e.ordinal), "op": op, "config_before": string(saved), "config_found": string(rawCfg)},
					loaded, map[string]any{"before": before, "after": after})
			}
			gobs = append(gobs, fmt.Sprintf("(%d%%N, %s)", e.kind, gSettings(loaded)))
			recs = append(recs, map[string]any{"killed_on_entering": fmt.Sprintf("%s #%d", e.typ, e.ordinal), "config_found": string(rawCfg), "loaded_by_next_session": loaded})
		}
		terms = append(terms, fmt.Sprintf("(%s, %s, %s)", gSettingsZ(before), gSettingsZ(after), common.GList(gobs)))
		descs = append(descs, map[string]any{"settings_before": before, "set": op, "crash_runs": recs})
	}
	return
}

func sameSettings(a, b map[string]string) bool {
	for _, v := range settingVars {
		if a[v] != b[v] {
			return false
		}
	}
	return true
}

func zOf(v string) string {
	if v == "nil" {
		return "(-1)%Z"
	}
	return "(" + v + ")%Z"
}

// the value of every tracked variable, as the model's file content / as an observation
func gSettingsZ(m map[string]string) string {
	var xs []string
	for i, v := range settingVars {
		xs = append(xs, fmt.Sprintf("(%d%%N, %s)", i, zOf(m[v])))
	}
	return common.GList(xs)
}
func gSettings(m map[string]string) string {
	var xs []string
	for i, v := range settingVars {
		xs = append(xs, fmt.Sprintf("(%d%%N, Some %s)", i, zOf(m[v])))
	}
	return common.GList(xs)
}
