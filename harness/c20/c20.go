// Package c20: REPL history under restarts and process deaths. Op sequences are run (a) in
// process, observing memory, files and a fresh Load after every op, and (b) in a worker process
// killed by strace fault injection on entering each state-changing file-system call.
package c20

import (
	"encoding/json"
	"fmt"
	"os"
	"os/exec"
	"path/filepath"
	"regexp"
	"runtime"
	"strconv"
	"strings"
	"sync"

	"github.com/ohler55/slip/pkg/repl"
	"verifharness/common"
)

type Op struct {
	Kind  string   `json:"op"` // add | clear | limit | restart
	Form  []string `json:"form,omitempty"`
	N     int      `json:"n,omitempty"`
	Start int      `json:"start,omitempty"`
	End   int      `json:"end,omitempty"`
}

type Job struct {
	Limit int    `json:"limit"`
	Hist  string `json:"hist"`
	Ops   []Op   `json:"ops"`
}

func formOf(lines []string) repl.Form {
	f := make(repl.Form, len(lines))
	for i, l := range lines {
		f[i] = []rune(l)
	}
	return f
}

func formsOf(h *repl.History) [][]string {
	var out [][]string
	for i := h.Size() - 1; i >= 0; i-- {
		f := h.Nth(i)
		var ls []string
		for _, l := range f {
			ls = append(ls, string(l))
		}
		out = append(out, ls)
	}
	return out
}

func apply(h **repl.History, limit *int, hist string, o Op) {
	switch o.Kind {
	case "add":
		(*h).Add(formOf(o.Form))
	case "clear":
		(*h).Clear(o.Start, o.End)
	case "limit":
		*limit = o.N
		(*h).SetLimit(o.N)
	case "restart":
		nh := &repl.History{}
		nh.SetLimit(*limit)
		nh.Load(hist)
		*h = nh
	}
}

// Worker runs a job; it is the process that gets killed.
func Worker(ctx *common.Ctx) {
	// strace keeps its injection counters per thread: keep every file operation on one thread
	runtime.LockOSThread()
	data, err := os.ReadFile(os.Getenv("VERIF_C20_JOB"))
	if err != nil {
		panic(err)
	}
	var job Job
	if err = json.Unmarshal(data, &job); err != nil {
		panic(err)
	}
	h := &repl.History{}
	limit := job.Limit
	h.SetLimit(limit)
	h.Load(job.Hist)
	for _, o := range job.Ops {
		apply(&h, &limit, job.Hist, o)
	}
	os.Exit(0)
}

func gBytes(s string) string { return common.GBytes([]byte(s)) }
func gForm(f []string) string {
	ls := make([]string, len(f))
	for i, l := range f {
		ls[i] = gBytes(l)
	}
	return common.GList(ls)
}
func gForms(fs [][]string) string {
	xs := make([]string, len(fs))
	for i, f := range fs {
		xs[i] = gForm(f)
	}
	return common.GList(xs)
}
func gFile(path string) (string, any) {
	data, err := os.ReadFile(path)
	if err != nil {
		return "None", nil
	}
	return "(Some " + common.GBytes(data) + ")", string(data)
}
func gOp(o Op) string {
	switch o.Kind {
	case "add":
		return "OAdd " + gForm(o.Form)
	case "clear":
		return "OClear"
	case "limit":
		return fmt.Sprintf("OLimit (%d)", o.N)
	}
	return "ORestart"
}

func loadFresh(hist string) [][]string {
	h := &repl.History{}
	h.SetLimit(1000)
	h.Load(hist)
	return formsOf(h)
}

var formPool = [][]string{
	{"(a)"}, {"(b 1)"}, {"(c 2 3)"}, {"(defun f ()", "  1)"}, {"(let ((x 1))", "", "  x)"}, {"(d)"}, {"(e \"s\")"},
	{"(λ é)"}, {"x"}, {"(long-form-name-number-one 1 2 3 4 5 6 7 8 9 10)"},
}
var oddPool = [][]string{
	{"   "}, {}, {"  (lead)"}, {"(trail)  "}, {"(a\tb)"}, {"", "(first-empty)"}, {"(last-empty)", ""}, {"\t(tab-lead)"},
}

func Run(ctx *common.Ctx) {
	base, err := os.MkdirTemp("", "verif-c20-")
	if err != nil {
		panic(err)
	}
	defer os.RemoveAll(base)
	nseq, ncrash, maxOps := 120, 10, 30
	if ctx.Thorough() {
		nseq, ncrash, maxOps = 1200, 120, 60
	}
	var terms []string
	var descs []any
	distinct := map[string]bool{}
	self, _ := os.Executable()
	for k := 0; k < nseq; k++ {
		dir := filepath.Join(base, fmt.Sprintf("s%d", k))
		_ = os.MkdirAll(dir, 0o755)
		hist := filepath.Join(dir, "history")
		limit := 2 + ctx.Rng.Intn(9)
		// initial directory: sometimes an existing history, sometimes a stale tmp left by a death
		d0h, d0t := "None", "None"
		var init0 any
		if ctx.Rng.Chance(30) {
			s := "(old 1)\n(old 2)\n"
			_ = os.WriteFile(hist, []byte(s), 0o644)
			d0h = "(Some " + gBytes(s) + ")"
			init0 = s
		}
		stale := ctx.Rng.Chance(30)
		if stale {
			s := "(stale 1)\n(stale 2)\n"
			_ = os.WriteFile(hist+".tmp", []byte(s), 0o644)
			d0t = "(Some " + gBytes(s) + ")"
			ctx.Hist("init:stale-tmp")
		}
		odd := ctx.Rng.Chance(35)
		n := 3 + ctx.Rng.Intn(maxOps-2)
		var ops []Op
		var last []string
		for i := 0; i < n; i++ {
			switch x := ctx.Rng.Intn(100); {
			case x < 74:
				var f []string
				switch {
				case last != nil && ctx.Rng.Chance(12):
					f = last // adjacent duplicate
				case odd && ctx.Rng.Chance(25):
					f = common.Pick(ctx.Rng, oddPool)
				default:
					f = common.Pick(ctx.Rng, formPool)
					if ctx.Rng.Chance(50) {
						f = append([]string{}, f...)
						f[0] = fmt.Sprintf("%s ;%d", f[0], i)
					}
				}
				last = f
				ops = append(ops, Op{Kind: "add", Form: f})
			case x < 80:
				ops = append(ops, Op{Kind: "clear", Start: 0, End: -1})
			case x < 88:
				ops = append(ops, Op{Kind: "limit", N: ctx.Rng.Intn(12)})
			default:
				ops = append(ops, Op{Kind: "restart"})
			}
		}
		job := Job{Limit: limit, Hist: hist, Ops: ops}
		// (a) in-process run with observations after every op
		h := &repl.History{}
		lim := limit
		h.SetLimit(lim)
		h.Load(hist)
		var gops, gobs []string
		var recs []any
		for _, o := range ops {
			ctx.Hist("op:" + o.Kind)
			func() {
				defer func() {
					if r := recover(); r != nil {
						ctx.Violate("History operation panicked", o, fmt.Sprint(r), nil)
					}
				}()
				apply(&h, &lim, hist, o)
			}()
			hf, hraw := gFile(hist)
			tf, traw := gFile(hist + ".tmp")
			mem := formsOf(h)
			ld := loadFresh(hist)
			gops = append(gops, gOp(o))
			gobs = append(gobs, fmt.Sprintf("(%s, %s, %s, %s)", gForms(mem), hf, tf, gForms(ld)))
			recs = append(recs, map[string]any{"op": o, "memory": mem, "history_file": hraw, "tmp_file": traw, "loaded_by_fresh_session": ld})
		}
		// (b) process deaths
		crashTerm := "[]"
		var crashRec any
		if k < ncrash {
			cobs, crec := crashRuns(ctx, self, base, k, job, init0, stale)
			crashTerm = common.GList(cobs)
			crashRec = crec
		}
		term := fmt.Sprintf("{| k_limit := %d; k_d0 := {| d_hist := %s; d_tmp := %s |}; k_ops := %s;\n     k_obs := %s;\n     k_crash := %s |}",
			limit, d0h, d0t, common.GList(gops), common.GList(gobs), crashTerm)
		terms = append(terms, term)
		d := map[string]any{"limit": limit, "initial_history": init0, "stale_tmp": stale, "steps": recs, "crash_runs": crashRec}
		descs = append(descs, d)
		ctx.Meta.Evaluations++
		sig := strings.Join(gops, ";")
		if !distinct[sig] && len(ops) >= 3 {
			distinct[sig] = true
		}
		if k%37 == 0 {
			ctx.Sample(map[string]any{"limit": limit, "ops": ops, "stale_tmp": stale})
		}
	}
	ctx.Meta.DistinctNontrivial = len(distinct)
	ctx.Meta.Rule = "random sequences (3..30 ops, thorough 3..60) of History.Add (plain, multi-line, non-ASCII, adjacent duplicates, and in 35% of the sequences blank/leading-blank/trailing-blank/tab-containing/empty-line forms) / Clear(0,-1) / SetLimit(0..11) / restart, from an empty directory, an existing history or a stale history.tmp; memory, both files and a fresh Load observed after every op; for the first sequences of the run a worker process is killed (strace inject SIGKILL) on entering every state-changing openat/write/rename and the directory + fresh Load recorded; distinct = distinct op sequences of length >= 3; (c) histories of 3-12 KB in which the newline of one entry falls on byte 4094..4097, 8191..8193, 12288 or a random offset, single- and two-line forms, reloaded by a fresh History; (d) 25 (thorough 300) sequences of 2-5 REPL sessions, each a process of its own on the same configuration directory, setting 0-3 of five *print-...* variables (integers or nil): every session must start with the values last set in earlier sessions, compared with the settings model"
	header := "From C20 Require Import Model Spec Corr.\nOpen Scope N_scope.\n"
	footer := "Definition res := Eval vm_compute in check_all cases.\nPrint res.\nDefinition gcount := Eval vm_compute in guard_count cases.\nPrint gcount.\n"
	ctx.WriteShards("cases", header, "case", footer, terms, descs, 16)
	// (c) entries ending exactly at the file reader's buffer boundaries (implementation only)
	boundaryRuns(ctx, base)
	// (d) saved settings over several sessions, each a process of its own; compared with the settings model
	sterms, sdescs := settingsRuns(ctx, self, base)
	sheader := "From Coq Require Import List ZArith.\nImport ListNotations.\nFrom C20 Require Import Settings.\nOpen Scope list_scope.\n"
	sfooter := "Definition res := Eval vm_compute in check_settings cases.\nPrint res.\n"
	ctx.WriteShards("settings", sheader, "(list (list (N * option Z) * list (N * option Z)))", sfooter, sterms, sdescs, 1)
	replayKnown(ctx, base)
}

var reOpen = regexp.MustCompile(`openat\(AT_FDCWD(?:<[^>]*>)?, "([^"]+)", ([A-Z_|]+)`)
var reWrite = regexp.MustCompile(`write\(\d+<([^>]+)>, .*, (\d+)\)\s+= (\d+)`)
var reRename = regexp.MustCompile(`rename(?:at2?)?\(`)

type sysEvent struct {
	typ     string // openat write renameat
	ordinal int    // 1-based among calls of the same name
	change  bool   // state-changing
	gterm   string // (kind, path, length) as the model sees it
}

func stracePrefix(hist, log string) []string {
	return []string{"-f", "-y", "-o", log, "-P", hist, "-P", hist + ".tmp", "-e", "trace=openat,write,rename,renameat,renameat2"}
}

func prepDir(dir, hist string, init0 any, stale bool) {
	_ = os.RemoveAll(dir)
	_ = os.MkdirAll(dir, 0o755)
	if s, ok := init0.(string); ok {
		_ = os.WriteFile(hist, []byte(s), 0o644)
	}
	if stale {
		_ = os.WriteFile(hist+".tmp", []byte("(stale 1)\n(stale 2)\n"), 0o644)
	}
}

func crashRuns(ctx *common.Ctx, self, base string, k int, job Job, init0 any, stale bool) ([]string, any) {
	dir := filepath.Join(base, fmt.Sprintf("c%d", k))
	hist := filepath.Join(dir, "history")
	j2 := job
	j2.Hist = hist
	jobFile := filepath.Join(base, fmt.Sprintf("job%d.json", k))
	data, _ := json.Marshal(&j2)
	_ = os.WriteFile(jobFile, data, 0o644)
	prepDir(dir, hist, init0, stale)
	log := filepath.Join(base, fmt.Sprintf("log%d", k))
	cmd := exec.Command("strace", append(stracePrefix(hist, log), self, "C20W", "--out", dir)...)
	cmd.Env = append(os.Environ(), "VERIF_C20_JOB="+jobFile)
	if out, err := cmd.CombinedOutput(); err != nil {
		ctx.Violate("worker failed under strace", job, string(out), nil)
		return nil, nil
	}
	raw, _ := os.ReadFile(log)
	var evs []sysEvent
	cnt := map[string]int{}
	for _, ln := range strings.Split(string(raw), "\n") {
		if strings.Contains(ln, "<unfinished") || strings.Contains(ln, "resumed>") {
			// the worker is single threaded in its file operations; unfinished lines do not occur for them
			if strings.Contains(ln, hist) {
				ctx.Violate("strace split a history syscall line", ln, nil, nil)
			}
			continue
		}
		switch {
		case reOpen.MatchString(ln):
			m := reOpen.FindStringSubmatch(ln)
			cnt["openat"]++
			e := sysEvent{typ: "openat", ordinal: cnt["openat"]}
			if strings.Contains(m[2], "O_WRONLY") || strings.Contains(m[2], "O_RDWR") {
				e.change = true
				p := "PHist"
				if strings.HasSuffix(m[1], ".tmp") {
					p = "PTmp"
				}
				e.gterm = fmt.Sprintf("POpen %s %s", p, common.GBool(strings.Contains(m[2], "O_TRUNC")))
			}
			evs = append(evs, e)
		case reWrite.MatchString(ln):
			m := reWrite.FindStringSubmatch(ln)
			cnt["write"]++
			p := "PHist"
			if strings.HasSuffix(m[1], ".tmp") {
				p = "PTmp"
			}
			n, _ := strconv.Atoi(m[2])
			evs = append(evs, sysEvent{typ: "write", ordinal: cnt["write"], change: true, gterm: fmt.Sprintf("PWrite %s (repeat 0 %d)", p, n)})
		case reRename.MatchString(ln):
			name := ln[strings.Index(ln, "rename"):strings.Index(ln, "(")]
			cnt[name]++
			evs = append(evs, sysEvent{typ: name, ordinal: cnt[name], change: true, gterm: "PRename"})
		}
	}
	var changing []sysEvent
	for _, e := range evs {
		if e.change {
			changing = append(changing, e)
		}
	}
	ctx.Hist(fmt.Sprintf("crash-points:%d", (len(changing)+9)/10*10))
	obs := make([]string, len(changing))
	recs := make([]any, len(changing))
	var wg sync.WaitGroup
	sem := make(chan struct{}, 16)
	var mu sync.Mutex
	for i, e := range changing {
		wg.Add(1)
		sem <- struct{}{}
		go func(i int, e sysEvent) {
			defer func() { <-sem; wg.Done() }()
			d := filepath.Join(base, fmt.Sprintf("c%d_%d", k, i))
			h := filepath.Join(d, "history")
			j3 := job
			j3.Hist = h
			jf := filepath.Join(base, fmt.Sprintf("job%d_%d.json", k, i))
			dd, _ := json.Marshal(&j3)
			_ = os.WriteFile(jf, dd, 0o644)
			prepDir(d, h, init0, stale)
			args := append(stracePrefix(h, "/dev/null"), "-e", fmt.Sprintf("inject=%s:signal=KILL:when=%d", e.typ, e.ordinal), self, "C20W", "--out", d)
			c := exec.Command("strace", args...)
			c.Env = append(os.Environ(), "VERIF_C20_JOB="+jf)
			_ = c.Run()
			hf, hraw := gFile(h)
			tf, traw := gFile(h + ".tmp")
			ld := loadFresh(h)
			mu.Lock()
			obs[i] = fmt.Sprintf("(%s, %s, %s, %s)", e.gterm, hf, tf, gForms(ld))
			recs[i] = map[string]any{"killed_on_entering": fmt.Sprintf("%s #%d (%s)", e.typ, e.ordinal, e.gterm), "history_file": hraw, "tmp_file": traw, "loaded_by_fresh_session": ld}
			mu.Unlock()
			_ = os.RemoveAll(d)
			_ = os.Remove(jf)
		}(i, e)
	}
	wg.Wait()
	ctx.Meta.Extra = map[string]any{"note": "crash runs use strace -e inject=<syscall>:signal=KILL:when=<n> restricted with -P to the two history files"}
	return obs, recs
}

// replayKnown replays the Go-level witnesses of known_findings/C20.json.
func replayKnown(ctx *common.Ctx, base string) {
	for _, id := range common.SortedKeys(ctx.Known) {
		var w struct {
			Scenario string `json:"scenario"`
			Observed string `json:"observed"`
		}
		if err := json.Unmarshal(ctx.Known[id], &w); err != nil || w.Scenario == "" {
			continue
		}
		dir := filepath.Join(base, "kf-"+id)
		_ = os.MkdirAll(dir, 0o755)
		hist := filepath.Join(dir, "history")
		got := ""
		func() {
			defer func() {
				if r := recover(); r != nil {
					got = fmt.Sprint("panic: ", r)
				}
			}()
			h := &repl.History{}
			switch w.Scenario {
			case "stale-tmp":
				_ = os.WriteFile(hist+".tmp", []byte("(stale 1)\n(stale 2)\n"), 0o644)
				h.SetLimit(10)
				h.Load(hist)
				for i := 0; i < 11; i++ {
					h.Add(formOf([]string{fmt.Sprintf("(form %d)", i)}))
				}
				got = fmt.Sprint(loadFresh(hist)[0])
			case "leading-blank":
				h.SetLimit(10)
				h.Load(hist)
				h.Add(formOf([]string{"  (lead)"}))
				got = fmt.Sprintf("%q", loadFresh(hist)[0][0])
			case "tab-in-form":
				h.SetLimit(10)
				h.Load(hist)
				h.Add(formOf([]string{"(a\tb)"}))
				got = fmt.Sprintf("%q", loadFresh(hist)[0])
			case "partial-clear":
				h.SetLimit(10)
				h.Load(hist)
				for _, s := range []string{"a", "b", "c", "d", "e"} {
					h.Add(formOf([]string{s}))
				}
				h.Clear(1, 2)
				got = fmt.Sprint(formsOf(h))
			}
		}()
		ctx.KnownResult(id, got == w.Observed, got)
	}
}
