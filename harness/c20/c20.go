// Package c20: REPL history under restarts and process deaths. Op sequences are run (a) in
// process, observing memory, files and a fresh Load after every op, and (b) in a worker process
// killed by strace fault injection on entering each state-changing file-system call.
package c20

import (
	"encoding/json"
	"fmt"
	"os"
	"os/exec"
	"path/filepath"
	"regexp"
	"runtime"
	"strconv"
	"strings"
	"sync"
	"syscall"

	"github.com/ohler55/slip/pkg/repl"
	"verifharness/common"
)

type Op struct {
	Kind  string   `json:"op"` // add | clear | limit | restart
	Form  []string `json:"form,omitempty"`
	N     int      `json:"n,omitempty"`
	Start int      `json:"start,omitempty"`
	End   int      `json:"end,omitempty"`
	Via   string   `json:"via,omitempty"` // clear: "history" = History.Clear, "lisp" = (clear-history :start s :end e)
}

type Job struct {
	Limit int    `json:"limit"`
	Hist  string `json:"hist"`
	Ops   []Op   `json:"ops"`
}

func formOf(lines []string) repl.Form {
	f := make(repl.Form, len(lines))
	for i, l := range lines {
		f[i] = []rune(l)
	}
	return f
}

func formsOf(h *repl.History) [][]string {
	var out [][]string
	for i := h.Size() - 1; i >= 0; i-- {
		f := h.Nth(i)
		var ls []string
		for _, l := range f {
			ls = append(ls, string(l))
		}
		out = append(out, ls)
	}
	return out
}

func apply(h **repl.History, limit *int, hist string, o Op) {
	switch o.Kind {
	case "add":
		(*h).Add(formOf(o.Form))
	case "clear":
		if o.Via == "lisp" { // *h is repl.TheHistory: the Lisp function works on it (through its embedded Stash)
			if out := common.EvalIn(lispScope, fmt.Sprintf("(clear-history :start %d :end %d)", o.Start, o.End)); out.Err != "" {
				panic(out.Err + ": " + out.Msg)
			}
		} else {
			(*h).Clear(o.Start, o.End)
		}
	case "limit":
		*limit = o.N
		(*h).SetLimit(o.N)
	case "restart": // a new process: an empty History (the global one stays the global one)
		**h = repl.History{}
		(*h).SetLimit(*limit)
		(*h).Load(hist)
	}
}

// Worker runs a job; it is the process that gets killed.
func Worker(ctx *common.Ctx) {
	// strace keeps its injection counters per thread: keep every file operation on one thread
	runtime.LockOSThread()
	data, err := os.ReadFile(os.Getenv("VERIF_C20_JOB"))
	if err != nil {
		panic(err)
	}
	var job Job
	if err = json.Unmarshal(data, &job); err != nil {
		panic(err)
	}
	h := &repl.TheHistory
	*h = repl.History{}
	limit := job.Limit
	h.SetLimit(limit)
	h.Load(job.Hist)
	for _, o := range job.Ops {
		apply(&h, &limit, job.Hist, o)
	}
	os.Exit(0)
}

func gBytes(s string) string { return common.GBytes([]byte(s)) }
func gForm(f []string) string {
	ls := make([]string, len(f))
	for i, l := range f {
		ls[i] = gBytes(l)
	}
	return common.GList(ls)
}
func gForms(fs [][]string) string {
	xs := make([]string, len(fs))
	for i, f := range fs {
		xs[i] = gForm(f)
	}
	return common.GList(xs)
}
func gFile(path string) (string, any) {
	data, err := os.ReadFile(path)
	if err != nil {
		return "None", nil
	}
	return "(Some " + common.GBytes(data) + ")", string(data)
}
func gOp(o Op) string {
	switch o.Kind {
	case "add":
		return "OAdd " + gForm(o.Form)
	case "clear":
		return fmt.Sprintf("OClear (%d) (%d)", o.Start, o.End)
	case "limit":
		return fmt.Sprintf("OLimit (%d)", o.N)
	}
	return "ORestart"
}

func loadFresh(hist string) [][]string {
	h := &repl.History{}
	h.SetLimit(1000)
	h.Load(hist)
	return formsOf(h)
}

var formPool = [][]string{
	{"(a)"}, {"(b 1)"}, {"(c 2 3)"}, {"(defun f ()", "  1)"}, {"(let ((x 1))", "", "  x)"}, {"(d)"}, {"(e \"s\")"},
	{"(λ é)"}, {"x"}, {"(long-form-name-number-one 1 2 3 4 5 6 7 8 9 10)"},
}
var oddPool = [][]string{
	{"   "}, {}, {"  (lead)"}, {"(trail)  "}, {"(a\tb)"}, {"", "(first-empty)"}, {"(last-empty)", ""}, {"\t(tab-lead)"},
}

func Run(ctx *common.Ctx) {
	base, err := os.MkdirTemp("", "verif-c20-")
	if err != nil {
		panic(err)
	}
	defer os.RemoveAll(base)
	nseq, ncrash, maxOps := 120, 10, 30
	if ctx.Thorough() {
		nseq, ncrash, maxOps = 1200, 120, 60
	}
	var terms []string
	var descs []any
	distinct := map[string]bool{}
	self, _ := os.Executable()
	for k := 0; k < nseq; k++ {
		dir := filepath.Join(base, fmt.Sprintf("s%d", k))
		_ = os.MkdirAll(dir, 0o755)
		hist := filepath.Join(dir, "history")
		limit := 2 + ctx.Rng.Intn(9)
		// initial directory: sometimes an existing history, sometimes a stale tmp left by a death
		d0h, d0t := "None", "None"
		var init0 any
		if ctx.Rng.Chance(30) {
			s := "(old 1)\n(old 2)\n"
			_ = os.WriteFile(hist, []byte(s), 0o644)
			d0h = "(Some " + gBytes(s) + ")"
			init0 = s
		}
		stale := ctx.Rng.Chance(30)
		if stale {
			s := "(stale 1)\n(stale 2)\n"
			_ = os.WriteFile(hist+".tmp", []byte(s), 0o644)
			d0t = "(Some " + gBytes(s) + ")"
			ctx.Hist("init:stale-tmp")
		}
		odd := ctx.Rng.Chance(35)
		n := 3 + ctx.Rng.Intn(maxOps-2)
		var ops []Op
		var last []string
		for i := 0; i < n; i++ {
			switch x := ctx.Rng.Intn(100); {
			case x < 74:
				var f []string
				switch {
				case last != nil && ctx.Rng.Chance(12):
					f = last // adjacent duplicate
				case odd && ctx.Rng.Chance(25):
					f = common.Pick(ctx.Rng, oddPool)
				default:
					f = common.Pick(ctx.Rng, formPool)
					if ctx.Rng.Chance(50) {
						f = append([]string{}, f...)
						f[0] = fmt.Sprintf("%s ;%d", f[0], i)
					}
				}
				last = f
				ops = append(ops, Op{Kind: "add", Form: f})
			case x < 82:
				o := Op{Kind: "clear", Start: 0, End: -1, Via: "history"}
				if ctx.Rng.Chance(50) {
					o.Via = "lisp"
				}
				if ctx.Rng.Chance(65) { // a proper range: positions from the most recent entry, both ends may lie outside
					o.Start, o.End = ctx.Rng.Intn(9)-2, ctx.Rng.Intn(11)-2
					ctx.Hist("clear:range")
				} else {
					ctx.Hist("clear:all")
				}
				ops = append(ops, o)
			case x < 89:
				ops = append(ops, Op{Kind: "limit", N: ctx.Rng.Intn(12)})
			default:
				ops = append(ops, Op{Kind: "restart"})
			}
		}
		job := Job{Limit: limit, Hist: hist, Ops: ops}
		// (a) in-process run with observations after every op
		h := &repl.TheHistory
		*h = repl.History{}
		lim := limit
		h.SetLimit(lim)
		h.Load(hist)
		var gops, gobs []string
		var recs []any
		for _, o := range ops {
			ctx.Hist("op:" + o.Kind)
			func() {
				defer func() {
					if r := recover(); r != nil {
						ctx.Violate("History operation panicked", o, fmt.Sprint(r), nil)
					}
				}()
				apply(&h, &lim, hist, o)
			}()
			hf, hraw := gFile(hist)
			tf, traw := gFile(hist + ".tmp")
			mem := formsOf(h)
			ld := loadFresh(hist)
			gops = append(gops, gOp(o))
			gobs = append(gobs, fmt.Sprintf("(%s, %s, %s, %s)", gForms(mem), hf, tf, gForms(ld)))
			recs = append(recs, map[string]any{"op": o, "memory": mem, "history_file": hraw, "tmp_file": traw, "loaded_by_fresh_session": ld})
		}
		// (b) process deaths
		crashTerm := "[]"
		var crashRec any
		if k < ncrash {
			cobs, crec := crashRuns(ctx, self, base, k, job, init0, stale)
			crashTerm = common.GList(cobs)
			crashRec = crec
		}
		term := fmt.Sprintf("{| k_limit := %d; k_d0 := {| d_hist := %s; d_tmp := %s |}; k_ops := %s;\n     k_obs := %s;\n     k_crash := %s |}",
			limit, d0h, d0t, common.GList(gops), common.GList(gobs), crashTerm)
		terms = append(terms, term)
		d := map[string]any{"limit": limit, "initial_history": init0, "stale_tmp": stale, "steps": recs, "crash_runs": crashRec}
		descs = append(descs, d)
		ctx.Meta.Evaluations++
		sig := strings.Join(gops, ";")
		if !distinct[sig] && len(ops) >= 3 {
			distinct[sig] = true
		}
		if k%37 == 0 {
			ctx.Sample(map[string]any{"limit": limit, "ops": ops, "stale_tmp": stale})
		}
	}
	ctx.Meta.DistinctNontrivial = len(distinct)
	ctx.Meta.Rule = "random sequences (3..30 ops, thorough 3..60) of History.Add (plain, multi-line, non-ASCII, adjacent duplicates, and in 35% of the sequences blank/leading-blank/trailing-blank/tab-containing/empty-line forms) / Clear(start,end) (35% the whole range, else start in -2..6 and end in -2..8 counted from the most recent entry; through History.Clear or (clear-history :start s :end e) on the global repl.TheHistory) / SetLimit(0..11) / restart, from an empty directory, an existing history or a stale history.tmp; memory, both files and a fresh Load observed after every op; for the first sequences of the run a worker process is killed (strace inject SIGKILL) on entering every state-changing openat/write/rename and the directory + fresh Load recorded; distinct = distinct op sequences of length >= 3; (c) histories of 3-12 KB in which the newline of one entry falls on byte 4094..4097, 8191..8193, 12288 or a random offset, single- and two-line forms, reloaded by a fresh History; (d) 25 (thorough 300) sequences of 2-5 REPL sessions, each a process of its own on the same configuration directory, setting 0-3 of five *print-...* variables (integers or nil): every session must start with the values last set in earlier sessions, compared with the settings model; (e) 90 (thorough 900) sequences (3..24 ops, thorough 3..60) on the global repl.TheStash: Stash.Add (plain, multi-line, blanks at the ends, strings and comments holding parentheses, repetitions, and in 30% of the sequences blank/TAB-containing/empty-line/incomplete/two-expression/reader-rejected forms) / Stash.Clear or (clear-stash :start s :end e) with ranges as above / (use-stash file) / restart (empty Stash + LoadExpanded), from no stash file, one as Add writes it, one as Clear writes it, slip's hand-written test file, with or without a stale stash.lisp.tmp; memory (through Stash.Nth), both files and a fresh LoadExpanded (forms, reader failure) after every op; the model's reader is a table of the real reader's verdicts (slip.Read in the REPL scope, as fullForm) on every text LoadExpanded puts to it on the observed files and on every line-prefix of every form; for the first sequences a worker process is killed on entering every state-changing system call; (f) 4 (thorough 40) configuration directories with saved settings: the session that changes one variable is killed on entering every state-changing system call on config.lisp / config.lisp.tmp and a fresh session reports the settings it starts with (must be all before or all after; compared with the step model of updateConfigFile)"
	header := "From C20 Require Import Model Spec Corr.\nOpen Scope N_scope.\n"
	footer := "Definition res := Eval vm_compute in check_all cases.\nPrint res.\nDefinition gcount := Eval vm_compute in guard_count cases.\nPrint gcount.\n"
	ctx.WriteShards("cases", header, "case", footer, terms, descs, 16)
	// (c) entries ending exactly at the file reader's buffer boundaries (implementation only)
	boundaryRuns(ctx, base)
	// (d) saved settings over several sessions, each a process of its own; compared with the settings model
	sterms, sdescs := settingsRuns(ctx, self, base)
	sheader := "From Coq Require Import List ZArith.\nImport ListNotations.\nFrom C20 Require Import Settings.\nOpen Scope list_scope.\n"
	sfooter := "Definition res := Eval vm_compute in check_settings cases.\nPrint res.\n"
	ctx.WriteShards("settings", sheader, "(list (list (N * option Z) * list (N * option Z)))", sfooter, sterms, sdescs, 1)
	// (e) the stash: in process on repl.TheStash and in worker processes killed at every state-changing call
	tterms, tdescs := stashRuns(ctx, self, base)
	tfooter := "Definition res := Eval vm_compute in check_sall cases.\nPrint res.\nDefinition sgcount := Eval vm_compute in sguard_count cases.\nPrint sgcount.\n"
	ctx.WriteShards("stash", header, "scase", tfooter, tterms, tdescs, 8)
	// (f) a death while config.lisp is updated
	cterms, cdescs := settingsCrashRuns(ctx, self, base)
	if len(cterms) > 0 {
		cfooter := "Definition res := Eval vm_compute in check_settings_crash cases.\nPrint res.\n"
		ctx.WriteShards("settingscrash", sheader, "crash_case", cfooter, cterms, cdescs, 1)
	}
	replayKnown(ctx, self, base)
}

var reOpen = regexp.MustCompile(`openat\(AT_FDCWD(?:<[^>]*>)?, "([^"]+)", ([A-Z_|]+)`)
var reWrite = regexp.MustCompile(`write\(\d+<([^>]+)>, .*, (\d+)\)\s+= (\d+)`)
var reRename = regexp.MustCompile(`rename(?:at2?)?\(`)

type sysEvent struct {
	typ     string // openat write renameat
	ordinal int    // 1-based among calls of the same name
	change  bool   // state-changing
	gterm   string // (kind, path, length) as the model sees it
}

func stracePrefix(hist, log string) []string {
	return []string{"-f", "-y", "-o", log, "-P", hist, "-P", hist + ".tmp", "-e", "trace=openat,write,rename,renameat,renameat2"}
}

func prepDir(dir, hist string, init0 any, stale bool) {
	_ = os.RemoveAll(dir)
	_ = os.MkdirAll(dir, 0o755)
	if s, ok := init0.(string); ok {
		_ = os.WriteFile(hist, []byte(s), 0o644)
	}
	if stale {
		_ = os.WriteFile(hist+".tmp", []byte("(stale 1)\n(stale 2)\n"), 0o644)
	}
}

// crashSpec describes one family of crash runs: which worker process is killed, on which file, and how
// the directory is observed afterwards.
type crashSpec struct {
	tag     string                          // prefix of the scratch directories
	worker  string                          // harness sub-command that runs the job (the process that gets killed)
	fname   string                          // name of the file in the scratch directory; its temporary file is fname+".tmp"
	env     string                          // environment variable that carries the job file
	jobFor  func(file string) []byte        // the job, for the given file
	init0   any                             // initial content of the file (string) or nil
	stale   bool                            // a stale temporary file exists
	observe func(file string) (string, any) // what a fresh session loads: Gallina term and record
}

func crashRuns(ctx *common.Ctx, self, base string, k int, job Job, init0 any, stale bool) ([]string, any) {
	return crashGeneric(ctx, self, base, k, job, crashSpec{tag: "c", worker: "C20W", fname: "history", env: "VERIF_C20_JOB",
		jobFor: func(file string) []byte {
			j2 := job
			j2.Hist = file
			data, _ := json.Marshal(&j2)
			return data
		},
		init0: init0, stale: stale,
		observe: func(file string) (string, any) { ld := loadFresh(file); return gForms(ld), ld }})
}

func crashGeneric(ctx *common.Ctx, self, base string, k int, job any, cs crashSpec) ([]string, any) {
	dir := filepath.Join(base, fmt.Sprintf("%s%d", cs.tag, k))
	hist := filepath.Join(dir, cs.fname)
	jobFile := filepath.Join(base, fmt.Sprintf("%sjob%d.json", cs.tag, k))
	_ = os.WriteFile(jobFile, cs.jobFor(hist), 0o644)
	prepDir(dir, hist, cs.init0, cs.stale)
	log := filepath.Join(base, fmt.Sprintf("%slog%d", cs.tag, k))
	cmd := exec.Command("strace", append(stracePrefix(hist, log), self, cs.worker, "--out", dir)...)
	cmd.Env = append(os.Environ(), cs.env+"="+jobFile)
	if out, err := cmd.CombinedOutput(); err != nil {
		ctx.Violate("worker failed under strace", job, string(out), nil)
		return nil, nil
	}
	raw, _ := os.ReadFile(log)
	var evs []sysEvent
	cnt := map[string]int{}
	for _, ln := range strings.Split(string(raw), "\n") {
		if strings.Contains(ln, "<unfinished") || strings.Contains(ln, "resumed>") {
			// the worker is single threaded in its file operations; unfinished lines do not occur for them
			if strings.Contains(ln, hist) {
				ctx.Violate("strace split a syscall line of the traced file", ln, nil, nil)
			}
			continue
		}
		switch {
		case reOpen.MatchString(ln):
			m := reOpen.FindStringSubmatch(ln)
			cnt["openat"]++
			e := sysEvent{typ: "openat", ordinal: cnt["openat"]}
			if strings.Contains(m[2], "O_WRONLY") || strings.Contains(m[2], "O_RDWR") {
				e.change = true
				p := "PHist"
				if strings.HasSuffix(m[1], ".tmp") {
					p = "PTmp"
				}
				e.gterm = fmt.Sprintf("POpen %s %s", p, common.GBool(strings.Contains(m[2], "O_TRUNC")))
			}
			evs = append(evs, e)
		case reWrite.MatchString(ln):
			m := reWrite.FindStringSubmatch(ln)
			cnt["write"]++
			p := "PHist"
			if strings.HasSuffix(m[1], ".tmp") {
				p = "PTmp"
			}
			n, _ := strconv.Atoi(m[2])
			evs = append(evs, sysEvent{typ: "write", ordinal: cnt["write"], change: true, gterm: fmt.Sprintf("PWrite %s (repeat 0 %d)", p, n)})
		case reRename.MatchString(ln):
			name := ln[strings.Index(ln, "rename"):strings.Index(ln, "(")]
			cnt[name]++
			evs = append(evs, sysEvent{typ: name, ordinal: cnt[name], change: true, gterm: "PRename"})
		}
	}
	var changing []sysEvent
	for _, e := range evs {
		if e.change {
			changing = append(changing, e)
		}
	}
	ctx.Hist(fmt.Sprintf("%s-crash-points:%d", cs.fname, (len(changing)+9)/10*10))
	obs := make([]string, len(changing))
	recs := make([]any, len(changing))
	var wg sync.WaitGroup
	sem := make(chan struct{}, 16)
	var mu sync.Mutex
	for i, e := range changing {
		wg.Add(1)
		sem <- struct{}{}
		go func(i int, e sysEvent) {
			defer func() { <-sem; wg.Done() }()
			d := filepath.Join(base, fmt.Sprintf("%s%d_%d", cs.tag, k, i))
			h := filepath.Join(d, cs.fname)
			jf := filepath.Join(base, fmt.Sprintf("%sjob%d_%d.json", cs.tag, k, i))
			_ = os.WriteFile(jf, cs.jobFor(h), 0o644)
			prepDir(d, h, cs.init0, cs.stale)
			args := append(stracePrefix(h, "/dev/null"), "-e", fmt.Sprintf("inject=%s:signal=KILL:when=%d", e.typ, e.ordinal), self, cs.worker, "--out", d)
			c := exec.Command("strace", args...)
			c.Env = append(os.Environ(), cs.env+"="+jf)
			_ = c.Run()
			hf, hraw := gFile(h)
			tf, traw := gFile(h + ".tmp")
			mu.Lock()
			ld, ldrec := cs.observe(h)
			obs[i] = fmt.Sprintf("(%s, %s, %s, %s)", e.gterm, hf, tf, ld)
			recs[i] = map[string]any{"killed_on_entering": fmt.Sprintf("%s #%d (%s)", e.typ, e.ordinal, e.gterm), "file": hraw, "tmp_file": traw, "loaded_by_fresh_session": ldrec}
			mu.Unlock()
			_ = os.RemoveAll(d)
			_ = os.Remove(jf)
		}(i, e)
	}
	wg.Wait()
	ctx.Meta.Extra = map[string]any{"note": "crash runs use strace -e inject=<syscall>:signal=KILL:when=<n> restricted with -P to the file and its temporary file"}
	return obs, recs
}

// replayKnown replays the Go-level witnesses of known_findings/C20.json.
func replayKnown(ctx *common.Ctx, self, base string) {
	for _, id := range common.SortedKeys(ctx.Known) {
		var w struct {
			Scenario string `json:"scenario"`
			Observed string `json:"observed"`
		}
		if err := json.Unmarshal(ctx.Known[id], &w); err != nil || w.Scenario == "" {
			continue
		}
		dir := filepath.Join(base, "kf-"+id)
		_ = os.MkdirAll(dir, 0o755)
		hist := filepath.Join(dir, "history")
		got := ""
		func() {
			defer func() {
				if r := recover(); r != nil {
					got = fmt.Sprint("panic: ", r)
				}
			}()
			h := &repl.History{}
			switch w.Scenario {
			case "stale-tmp":
				_ = os.WriteFile(hist+".tmp", []byte("(stale 1)\n(stale 2)\n"), 0o644)
				h.SetLimit(10)
				h.Load(hist)
				for i := 0; i < 11; i++ {
					h.Add(formOf([]string{fmt.Sprintf("(form %d)", i)}))
				}
				got = fmt.Sprint(loadFresh(hist)[0])
			case "leading-blank":
				h.SetLimit(10)
				h.Load(hist)
				h.Add(formOf([]string{"  (lead)"}))
				got = fmt.Sprintf("%q", loadFresh(hist)[0][0])
			case "tab-in-form":
				h.SetLimit(10)
				h.Load(hist)
				h.Add(formOf([]string{"(a\tb)"}))
				got = fmt.Sprintf("%q", loadFresh(hist)[0])
			case "partial-clear":
				h.SetLimit(10)
				h.Load(hist)
				for _, s := range []string{"a", "b", "c", "d", "e"} {
					h.Add(formOf([]string{s}))
				}
				h.Clear(1, 2)
				got = fmt.Sprint(formsOf(h))
			case "clear-inplace":
				// a rewrite through <file>.tmp and rename gives the history a new inode; a rewrite in place keeps it
				h.SetLimit(10)
				h.Load(hist)
				for _, s := range []string{"a", "b", "c"} {
					h.Add(formOf([]string{s}))
				}
				before := inode(hist)
				h.Clear(0, 0)
				sh := hist + "-stash"
				var st repl.Stash
				st.LoadExpanded(sh)
				st.Add(formOf([]string{"(a)"}))
				st.Add(formOf([]string{"(b)"}))
				sbefore := inode(sh)
				st.Clear(0, 0)
				got = "replaced by rename"
				if before == inode(hist) || sbefore == inode(sh) {
					got = "rewritten in place"
				}
			case "config-inplace":
				if _, ok := runSettingsSession(self, dir, []setOp{{Var: settingVars[0], Val: 77}}, nil); ok {
					before := inode(filepath.Join(dir, "config.lisp"))
					if _, ok = runSettingsSession(self, dir, []setOp{{Var: settingVars[1], Val: 12}}, nil); ok {
						got = "replaced by rename"
						if before == inode(filepath.Join(dir, "config.lisp")) {
							got = "rewritten in place"
						}
					}
				}
			case "stash-empty-line":
				var st repl.Stash
				st.LoadExpanded(hist)
				st.Add(formOf([]string{"(e", "", ")"}))
				ld, _ := loadFreshStash(hist)
				got = fmt.Sprintf("%q", ld[0])
			case "stash-incomplete":
				var st repl.Stash
				st.LoadExpanded(hist)
				st.Add(formOf([]string{"(p"}))
				st.Add(formOf([]string{"(a)"}))
				ld, _ := loadFreshStash(hist)
				got = fmt.Sprint(ld)
			}
		}()
		ctx.KnownResult(id, got == w.Observed, got)
	}
}

func inode(path string) uint64 {
	fi, err := os.Stat(path)
	if err != nil {
		return 0
	}
	if st, ok := fi.Sys().(*syscall.Stat_t); ok {
		return st.Ino
	}
	return 0
}
