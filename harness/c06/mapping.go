package c06

import (
	"fmt"
	"strings"
	"unsafe"

	"github.com/ohler55/slip"
	"verifharness/common"
)

// mappingBlock: a list constructor (list, list*, cons) called by name through mapcar / (map 'list ...) over two
// or three lists. The mapping functions refill ONE argument buffer for every step, so a constructor that
// returned (part of) its args slice would make all results the same slice. Systematic: every constructor x
// mapping function x number of lists x every tuple of list lengths 0..3 (0..2 with three lists) x the last
// list holding integers or lists of 0, 1, 2 integers (three phase shifts); afterwards the car of one result
// (the position runs through all of them) is overwritten and everything is inspected again.
func mappingBlock(ctx *common.Ctx) {
	type shape struct {
		fn, gfn string
		ks      []int
		lists   bool // last list may hold lists
	}
	shapes := []shape{
		{"list", "FList", []int{2, 3}, false},
		{"list*", "FListStar", []int{2, 3}, true},
		{"cons", "FCons", []int{2}, true},
	}
	var terms []string
	var descs []any
	var keep []slip.List
	next := 100
	fresh := func() int { next++; return next }
	zs := func(xs []int) string {
		var p []string
		for _, x := range xs {
			p = append(p, fmt.Sprint(x))
		}
		return "[" + strings.Join(p, ";") + "]%Z"
	}
	lispList := func(xs []int) string {
		if len(xs) == 0 {
			return "nil"
		}
		var p []string
		for _, x := range xs {
			p = append(p, fmt.Sprint(x))
		}
		return "(list " + strings.Join(p, " ") + ")"
	}
	endOf := func(l slip.List) uintptr {
		full := l[:cap(l)]
		return uintptr(unsafe.Pointer(&full[cap(l)-1]))
	}
	caseNo := 0
	for _, sh := range shapes {
		for _, mapper := range []string{"mapcar", "map-list"} {
			for _, k := range sh.ks {
				maxLen := 3
				if k == 3 {
					maxLen = 2
				}
				total := 1
				for i := 0; i < k; i++ {
					total *= maxLen + 1
				}
				kinds := []int{-1} // -1: integers; 0..2: lists, phase shift of their lengths
				if sh.lists {
					kinds = []int{-1, 0, 1, 2}
				}
				for _, kind := range kinds {
					for code := 0; code < total; code++ {
						lens := make([]int, k)
						c := code
						for i := 0; i < k; i++ {
							lens[i] = c % (maxLen + 1)
							c /= maxLen + 1
						}
						caseNo++
						scope := slip.NewScope()
						var names []string
						var fronts [][]int
						var lastInts []int
						var lastLists [][]int
						var prog []string
						for i := 0; i < k; i++ {
							name := fmt.Sprintf("mv%d", i)
							names = append(names, name)
							scope.Let(slip.Symbol(name), nil)
							if i == k-1 && kind >= 0 {
								var parts []string
								for n := 0; n < lens[i]; n++ {
									var inner []int
									for m := 0; m < (n+kind)%3; m++ {
										inner = append(inner, fresh())
									}
									lastLists = append(lastLists, inner)
									parts = append(parts, lispList(inner))
								}
								if len(parts) == 0 {
									prog = append(prog, fmt.Sprintf("(setq %s nil)", name))
								} else {
									prog = append(prog, fmt.Sprintf("(setq %s (list %s))", name, strings.Join(parts, " ")))
								}
								continue
							}
							var xs []int
							for n := 0; n < lens[i]; n++ {
								xs = append(xs, fresh())
							}
							if i == k-1 {
								lastInts = xs
							} else {
								fronts = append(fronts, xs)
							}
							prog = append(prog, fmt.Sprintf("(setq %s %s)", name, lispList(xs)))
						}
						scope.Let(slip.Symbol("mrows"), nil)
						call := fmt.Sprintf("(mapcar '%s %s)", sh.fn, strings.Join(names, " "))
						if mapper == "map-list" {
							call = fmt.Sprintf("(map 'list '%s %s)", sh.fn, strings.Join(names, " "))
						}
						prog = append(prog, fmt.Sprintf("(setq mrows %s)", call))
						lisp := strings.Join(prog, " ")
						ctx.Hist("map:" + mapper + " " + sh.fn)
						ctx.Meta.Evaluations++
						out := common.EvalIn(scope, lisp)
						desc := map[string]any{"lisp": lisp}
						if out.Err != "" {
							ctx.Violate("mapping a list constructor over lists failed on valid arguments", desc, out.Err+": "+out.Msg, nil)
							continue
						}
						// items whose arrays are labelled: the non-empty inner lists, then the rows
						var ends []uintptr
						if kind >= 0 {
							if l, ok := scope.Get(slip.Symbol(names[k-1])).(slip.List); ok {
								for _, e := range l {
									if il, ok := e.(slip.List); ok && len(il) > 0 {
										keep = append(keep, il)
										ends = append(ends, endOf(il))
									}
								}
							}
						}
						bad := ""
						ints := func(v slip.Object) (xs []int, dotted bool) {
							l, ok := v.(slip.List)
							if v == nil {
								return nil, false
							}
							if !ok {
								bad = "not a list: " + slip.ObjectString(v)
								return nil, false
							}
							for i, e := range l {
								switch te := e.(type) {
								case slip.Fixnum:
									xs = append(xs, int(te))
								case slip.Tail:
									if fx, ok := te.Value.(slip.Fixnum); ok && i == len(l)-1 {
										xs = append(xs, int(fx))
										dotted = true
									} else {
										bad = "unexpected tail in " + slip.ObjectString(v)
									}
								default:
									bad = "unexpected element in " + slip.ObjectString(v)
								}
							}
							return
						}
						observeRows := func() (views []string, shown []string) {
							rows, _ := scope.Get(slip.Symbol("mrows")).(slip.List)
							var rowEnds []uintptr
							for _, r := range rows {
								if rl, ok := r.(slip.List); ok && len(rl) > 0 {
									keep = append(keep, rl)
									rowEnds = append(rowEnds, endOf(rl))
								} else {
									bad = "a result is not a non-empty list: " + slip.ObjectString(r)
									rowEnds = append(rowEnds, 0)
								}
							}
							all := append(append([]uintptr{}, ends...), rowEnds...)
							for i, r := range rows {
								xs, dotted := ints(r)
								label := 0
								for label < len(all) && all[label] != rowEnds[i] {
									label++
								}
								d := "false"
								if dotted {
									d = "true"
								}
								views = append(views, fmt.Sprintf("(%s, %s, %d%%nat)", zs(xs), d, label))
								shown = append(shown, fmt.Sprintf("%s array-of-item#%d", slip.ObjectString(r), label))
							}
							return
						}
						v1, s1 := observeRows()
						nrows := len(v1)
						j, v := 0, fresh()
						if nrows > 0 {
							j = caseNo % nrows
							o2 := common.EvalIn(scope, fmt.Sprintf("(setf (car (nth %d mrows)) %d)", j, v))
							if o2.Err != "" {
								bad = "setf of the car of a result failed: " + o2.Err + ": " + o2.Msg
							}
						}
						v2, s2 := observeRows()
						var inner2, outer2 []string
						for i := 0; i < k; i++ {
							val := scope.Get(slip.Symbol(names[i]))
							if i == k-1 && kind >= 0 {
								if l, ok := val.(slip.List); ok {
									for _, e := range l {
										xs, _ := ints(e)
										inner2 = append(inner2, zs(xs))
									}
								}
								continue
							}
							xs, _ := ints(val)
							outer2 = append(outer2, zs(xs))
						}
						desc["rows"], desc["write"], desc["rows_after"] = s1, fmt.Sprintf("(setf (car (nth %d mrows)) %d)", j, v), s2
						if bad != "" {
							ctx.Violate("mapping a list constructor over lists returned something that is not a list of lists of integers", desc, bad, nil)
							continue
						}
						var gfc []string
						for _, f := range fronts {
							gfc = append(gfc, zs(f))
						}
						glast := "LInts " + zs(lastInts)
						if kind >= 0 {
							var ll []string
							for _, l := range lastLists {
								ll = append(ll, zs(l))
							}
							glast = "LLists " + common.GList(ll)
						}
						terms = append(terms, fmt.Sprintf("((%s, %s, %s, %d%%nat, (%d)%%Z),\n    (%s, %s, %s, %s))",
							sh.gfn, common.GList(gfc), glast, j, v, common.GList(v1), common.GList(v2), common.GList(inner2), common.GList(outer2)))
						descs = append(descs, desc)
						if len(terms)%97 == 1 {
							ctx.Sample(desc)
						}
					}
				}
			}
		}
	}
	_ = keep
	header := "From C06 Require Import Model Spec Corr.\n"
	footer := "Definition res := Eval vm_compute in check_all_map cases.\nPrint res.\nDefinition mapping_cases_in_guard := Eval vm_compute in map_guard_count cases.\nPrint mapping_cases_in_guard.\n"
	ctx.WriteShards("mapcases", header, "mcase", footer, terms, descs, 8)
}
