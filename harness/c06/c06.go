// Package c06: histories of list operations over a pool of variables; after every step the
// contents of every variable and, read directly from the slip.List values, the identity of the
// backing array, the offset into it and the capacity.
package c06

import (
	"fmt"
	"strconv"
	"strings"
	"time"
	"unsafe"

	"github.com/ohler55/slip"
	"verifharness/common"
)

const nvars = 4

type arrInfo struct {
	id   int
	alen int
}

type stepRec struct {
	Lisp string   `json:"lisp"`
	Vars []string `json:"vars"`
	Err  string   `json:"error,omitempty"`
}

func Run(ctx *common.Ctx) {
	ncases, maxLen := 700, 13
	if ctx.Thorough() {
		ncases, maxLen = 8000, 14
	}
	var terms []string
	var descs []any
	distinct := map[string]bool{}
	var keep []slip.List // keeps every array alive so that addresses are never reused
	vn := func(i int) string { return fmt.Sprintf("lv%d", i) }
	scripts := removeFamilyScripts()
	scripts = append(scripts, dupScripts()...)
	ncases += len(scripts)
	for k := 0; len(terms) < ncases; k++ {
		scope := slip.NewScope()
		for i := 0; i < nvars; i++ {
			scope.Let(slip.Symbol(vn(i)), nil)
		}
		arrays := map[uintptr]arrInfo{}
		lens := make([]int, nvars) // current lengths, to generate valid indices
		caps := make([]int, nvars) // current capacities: sources with spare capacity are preferred for extending operations
		next := 10
		fresh := func() int { next++; return next }
		observe := func() (views []string, shown []string, newCap int, ok bool) {
			ok = true
			for i := 0; i < nvars; i++ {
				v := scope.Get(slip.Symbol(vn(i)))
				l, isList := v.(slip.List)
				if v == nil || (isList && len(l) == 0) {
					views = append(views, "([], None)")
					shown = append(shown, "nil")
					lens[i] = 0
					caps[i] = 0
					continue
				}
				if !isList {
					ok = false
					views = append(views, "([], None)")
					shown = append(shown, "?"+slip.ObjectString(v))
					continue
				}
				keep = append(keep, l)
				var xs []string
				for _, e := range l {
					if fx, isFix := e.(slip.Fixnum); isFix {
						xs = append(xs, fmt.Sprintf("%d", int64(fx)))
					} else {
						ok = false
						xs = append(xs, "0")
					}
				}
				full := l[:cap(l)]
				end := uintptr(unsafe.Pointer(&full[cap(l)-1]))
				info, seen := arrays[end]
				if !seen {
					info = arrInfo{id: len(arrays), alen: cap(l)}
					arrays[end] = info
					newCap = cap(l)
				}
				off := info.alen - cap(l)
				views = append(views, fmt.Sprintf("([%s]%%Z, Some (%d, %d, %d)%%nat)", strings.Join(xs, ";"), info.id, off, cap(l)))
				shown = append(shown, fmt.Sprintf("(%s) array#%d off=%d cap=%d", strings.Join(xs, " "), info.id, off, cap(l)))
				lens[i] = len(l)
				caps[i] = cap(l)
			}
			return
		}
		L := 3 + ctx.Rng.Intn(maxLen-2)
		var script [][2]string
		if k < len(scripts) {
			script = scripts[k]
			L = len(script)
		}
		forcedSrc, forcedAvoid, forcedX := -1, -1, 0 // second extension of the same list into another variable
		var gops, gobs []string
		var recs []stepRec
		bad := false
		for step := 0; step < L && !bad; step++ {
			src, dst, b := ctx.Rng.Intn(nvars), ctx.Rng.Intn(nvars), ctx.Rng.Intn(nvars)
			var lisp, g string
			x := ctx.Rng.Intn(100)
			holding := 0
			for i := 0; i < nvars; i++ {
				if lens[i] > 0 {
					holding++
				}
			}
			if step < 1 || (holding < 2 && ctx.Rng.Chance(60)) {
				x = 0 // start with some lists
			} else if step < 3 && ctx.Rng.Chance(50) {
				x = 52 + ctx.Rng.Intn(8) // an early add: its result has spare capacity
			}
			if lens[src] == 0 && x >= 7 && ctx.Rng.Chance(80) {
				// prefer a source that holds a list
				for try := 0; try < 6 && lens[src] == 0; try++ {
					src = ctx.Rng.Intn(nvars)
				}
			}
			extending := (x >= 45 && x < 60) || (x >= 85 && x < 90) || (x >= 11 && x < 15) // append, add, nconc, list*
			second := false
			if forcedSrc >= 0 && lens[forcedSrc] > 0 {
				// the list extended in the previous step is extended once more into a third variable: if
				// either extension wrote into shared spare capacity the first result is overwritten
				second, extending = true, true
				x = []int{45, 52, 85}[ctx.Rng.Intn(3)] // append, add, nconc
				if ctx.Rng.Chance(70) {
					x = forcedX // mostly the same function again
				}
				src = forcedSrc
				for dst == src || dst == forcedAvoid {
					dst = ctx.Rng.Intn(nvars)
				}
				var cb []int
				for i := 0; i < nvars; i++ {
					if lens[i] > 0 && lens[i] <= caps[src]-lens[src] {
						cb = append(cb, i)
					}
				}
				if len(cb) > 0 {
					b = cb[ctx.Rng.Intn(len(cb))]
				}
			}
			forcedSrc, forcedAvoid = -1, -1
			if extending && !second && ctx.Rng.Chance(65) {
				// extend a list whose backing array has spare capacity, by a list that fits into it: the
				// situation in which an in-place append is possible
				var cand []int
				for i := 0; i < nvars; i++ {
					if lens[i] > 0 && caps[i] > lens[i] {
						cand = append(cand, i)
					}
				}
				if len(cand) > 0 {
					src = cand[ctx.Rng.Intn(len(cand))]
					var cb []int
					for i := 0; i < nvars; i++ {
						if lens[i] > 0 && lens[i] <= caps[src]-lens[src] {
							cb = append(cb, i)
						}
					}
					if len(cb) > 0 && ctx.Rng.Chance(65) {
						b = cb[ctx.Rng.Intn(len(cb))]
					}
				}
			}
			needList := func() bool { return lens[src] == 0 }
			scripted := script != nil
			if scripted {
				lisp, g = script[step][0], script[step][1]
			}
			switch {
			case scripted:
				// an enumerated history: nothing to choose
			case x < 7:
				n := 1 + ctx.Rng.Intn(5)
				var xs, gx []string
				for i := 0; i < n; i++ {
					e := fresh()
					if i > 0 && ctx.Rng.Chance(20) {
						// an element that occurs already: lists with duplicates for remove-duplicates, member, remove
						e, _ = strconv.Atoi(xs[ctx.Rng.Intn(i)])
						ctx.Hist("list with a repeated element")
					}
					xs = append(xs, fmt.Sprint(e))
					gx = append(gx, fmt.Sprint(e))
				}
				lisp = fmt.Sprintf("(setq %s (list %s))", vn(dst), strings.Join(xs, " "))
				g = fmt.Sprintf("OList [%s]%%Z %d", strings.Join(gx, ";"), dst)
			case x < 11:
				e := fresh()
				lisp, g = fmt.Sprintf("(setq %s (cons %d %s))", vn(dst), e, vn(src)), fmt.Sprintf("OCons %d %d %d", e, src, dst)
			case x < 15:
				// list* with 0..2 leading elements: one argument returns the argument itself
				n := ctx.Rng.Intn(3)
				var xs []string
				for i := 0; i < n; i++ {
					xs = append(xs, fmt.Sprint(fresh()))
				}
				lisp = fmt.Sprintf("(setq %s (list* %s))", vn(dst), strings.Join(append(append([]string{}, xs...), vn(src)), " "))
				g = fmt.Sprintf("OListStar [%s]%%Z %d %d", strings.Join(xs, ";"), src, dst)
			case x < 20:
				fname := "cdr"
				if ctx.Rng.Chance(30) {
					fname = "rest"
				}
				lisp, g = fmt.Sprintf("(setq %s (%s %s))", vn(dst), fname, vn(src)), fmt.Sprintf("OCdr %d %d", src, dst)
			case x < 24:
				n := ctx.Rng.Intn(lens[src] + 2)
				lisp, g = fmt.Sprintf("(setq %s (nthcdr %d %s))", vn(dst), n, vn(src)), fmt.Sprintf("ONthcdr %d %d %d", n, src, dst)
			case x < 28:
				// member of an element that is (usually) present
				e := fresh()
				if l, ok := scope.Get(slip.Symbol(vn(src))).(slip.List); ok && len(l) > 0 && ctx.Rng.Chance(85) {
					if fx, isFix := l[ctx.Rng.Intn(len(l))].(slip.Fixnum); isFix {
						e = int(fx)
					}
				}
				lisp, g = fmt.Sprintf("(setq %s (member %d %s))", vn(dst), e, vn(src)), fmt.Sprintf("OMember %d %d %d", e, src, dst)
			case x < 31:
				lisp, g = fmt.Sprintf("(setq %s (last %s))", vn(dst), vn(src)), fmt.Sprintf("OLast %d %d", src, dst)
			case x < 34:
				lisp, g = fmt.Sprintf("(setq %s (butlast %s))", vn(dst), vn(src)), fmt.Sprintf("OButlast %d %d", src, dst)
			case x < 39:
				if needList() {
					step--
					continue
				}
				s0 := ctx.Rng.Intn(lens[src] + 1)
				e0 := s0 + ctx.Rng.Intn(lens[src]-s0+1)
				lisp, g = fmt.Sprintf("(setq %s (subseq %s %d %d))", vn(dst), vn(src), s0, e0), fmt.Sprintf("OSubseq %d %d %d %d", s0, e0, src, dst)
			case x < 42:
				lisp, g = fmt.Sprintf("(setq %s (copy-list %s))", vn(dst), vn(src)), fmt.Sprintf("OCopy %d %d", src, dst)
			case x < 45:
				lisp, g = fmt.Sprintf("(setq %s (reverse %s))", vn(dst), vn(src)), fmt.Sprintf("OReverse %d %d", src, dst)
			case x < 52:
				lisp, g = fmt.Sprintf("(setq %s (append %s %s))", vn(dst), vn(src), vn(b)), fmt.Sprintf("OAppend %d %d %d", src, b, dst)
			case x < 60:
				e := fresh()
				lisp, g = fmt.Sprintf("(setq %s (add %s %d))", vn(dst), vn(src), e), fmt.Sprintf("OAdd %d %d %d", src, e, dst)
			case x < 63:
				e := fresh()
				lisp, g = fmt.Sprintf("(push %d %s)", e, vn(src)), fmt.Sprintf("OPush %d %d", e, src)
			case x < 66:
				lisp, g = fmt.Sprintf("(pop %s)", vn(src)), fmt.Sprintf("OPop %d", src)
			case x < 71:
				if needList() {
					step--
					continue
				}
				e := fresh()
				lisp, g = fmt.Sprintf("(setf (car %s) %d)", vn(src), e), fmt.Sprintf("OSetcar %d %d", src, e)
			case x < 75:
				if needList() {
					step--
					continue
				}
				e, i := fresh(), ctx.Rng.Intn(lens[src])
				lisp, g = fmt.Sprintf("(setf (nth %d %s) %d)", i, vn(src), e), fmt.Sprintf("OSetnth %d %d %d", src, i, e)
			case x < 78:
				if needList() {
					step--
					continue
				}
				e, i := fresh(), ctx.Rng.Intn(lens[src])
				lisp, g = fmt.Sprintf("(setf (elt %s %d) %d)", vn(src), i, e), fmt.Sprintf("OSetelt %d %d %d", src, i, e)
			case x < 81:
				if needList() {
					step--
					continue
				}
				e := fresh()
				lisp, g = fmt.Sprintf("(setq %s (rplaca %s %d))", vn(dst), vn(src), e), fmt.Sprintf("ORplaca %d %d %d", src, e, dst)
			case x < 83:
				// rplacd with a non-empty list as new tail (nil would store a dotted pair: outside the modelled lists)
				if needList() || lens[b] == 0 {
					step--
					continue
				}
				lisp, g = fmt.Sprintf("(setq %s (rplacd %s %s))", vn(dst), vn(src), vn(b)), fmt.Sprintf("ORplacd %d %d %d", src, b, dst)
			case x < 85:
				lisp, g = fmt.Sprintf("(setq %s (nreverse %s))", vn(dst), vn(src)), fmt.Sprintf("ONreverse %d %d", src, dst)
			case x < 90:
				lisp, g = fmt.Sprintf("(setq %s (nconc %s %s))", vn(dst), vn(src), vn(b)), fmt.Sprintf("ONconc %d %d %d", src, b, dst)
			case x < 92:
				lisp, g = fmt.Sprintf("(setq %s (sort %s '<))", vn(dst), vn(src)), fmt.Sprintf("OSort %d %d", src, dst)
			case x < 94:
				k := 1 + ctx.Rng.Intn(3)
				lisp, g = fmt.Sprintf("(setq %s (mapcar (lambda (el) (+ el %d)) %s))", vn(dst), k, vn(src)), fmt.Sprintf("OMapcar %d %d %d", k, src, dst)
			case x >= 96 && x < 98:
				// remove-duplicates / delete-duplicates (RemoveDuplicates embeds DeleteDuplicates), optionally
				// :from-end, :start, :end (also beyond the length: slip checks no range)
				fname := "remove-duplicates"
				if ctx.Rng.Bool() {
					fname = "delete-duplicates"
				}
				opts, gfe, gs, ge := "", "false", 0, "None"
				if ctx.Rng.Bool() {
					opts, gfe = " :from-end t", "true"
				}
				if ctx.Rng.Chance(35) {
					gs = ctx.Rng.Intn(lens[src] + 2)
					opts += fmt.Sprintf(" :start %d", gs)
				}
				if ctx.Rng.Chance(35) {
					e := ctx.Rng.Intn(lens[src] + 2)
					opts, ge = opts+fmt.Sprintf(" :end %d", e), fmt.Sprintf("(Some %d%%nat)", e)
				}
				lisp = fmt.Sprintf("(setq %s (%s %s%s))", vn(dst), fname, vn(src), opts)
				g = fmt.Sprintf("ORemoveDup %s %d%%nat %s %d %d", gfe, gs, ge, src, dst)
			case x >= 98:
				// remove-if / delete-if (RemoveIf embeds DeleteIf) with a predicate, optionally :count and :from-end
				preds := [][2]string{{"'evenp", "PEven"}, {"'oddp", "POdd"}, {fmt.Sprintf("(lambda (el) (< el %d))", next-3), fmt.Sprintf("(PLess %d)", next-3)}}
				pr := preds[ctx.Rng.Intn(len(preds))]
				fname := "remove-if"
				if ctx.Rng.Bool() {
					fname = "delete-if"
				}
				opts, gcnt, gfe := "", "None", "false"
				if ctx.Rng.Chance(35) {
					n := ctx.Rng.Intn(3)
					opts, gcnt = fmt.Sprintf(" :count %d", n), fmt.Sprintf("(Some %d%%nat)", n)
				}
				if ctx.Rng.Chance(35) {
					opts, gfe = opts+" :from-end t", "true"
				}
				lisp = fmt.Sprintf("(setq %s (%s %s %s%s))", vn(dst), fname, pr[0], vn(src), opts)
				g = fmt.Sprintf("ORemoveIf %s %s %s %d %d", pr[1], gcnt, gfe, src, dst)
			default:
				// remove / delete an element that is (usually) present
				e := fresh()
				if l, ok := scope.Get(slip.Symbol(vn(src))).(slip.List); ok && len(l) > 0 && ctx.Rng.Chance(80) {
					if fx, isFix := l[ctx.Rng.Intn(len(l))].(slip.Fixnum); isFix {
						e = int(fx)
					}
				}
				fname := "remove"
				if ctx.Rng.Bool() {
					fname = "delete"
				}
				lisp, g = fmt.Sprintf("(setq %s (%s %d %s))", vn(dst), fname, e, vn(src)), fmt.Sprintf("ORemove %d %d %d", e, src, dst)
			}
			if extending && !second && dst != src && lens[src] > 0 && ctx.Rng.Chance(50) {
				forcedSrc, forcedAvoid, forcedX = src, dst, x
			}
			ctx.Hist("op:" + strings.SplitN(g, " ", 2)[0])
			if strings.HasPrefix(g, "OAppend") || strings.HasPrefix(g, "ONconc") || strings.HasPrefix(g, "OAdd") {
				need := 1
				if !strings.HasPrefix(g, "OAdd") {
					need = lens[b]
				}
				if lens[src] > 0 && need > 0 && caps[src]-lens[src] >= need {
					ctx.Hist("extension fits into the spare capacity of its first argument")
				}
			}
			out := common.EvalIn(scope, lisp)
			views, shown, newCap, ok := observe()
			rec := stepRec{Lisp: lisp, Vars: shown}
			if out.Err != "" {
				rec.Err = out.Err + ": " + out.Msg
				bad = true
			}
			if !ok {
				bad = true
			}
			recs = append(recs, rec)
			gops = append(gops, fmt.Sprintf("(%s, %d)", g, newCap))
			gobs = append(gobs, common.GList(views))
		}
		if bad {
			// an operation failed or produced a non-list: reported, never silently dropped
			ctx.Violate("list operation failed on valid arguments", recs, nil, nil)
			continue
		}
		term := fmt.Sprintf("(%s,\n    %s)", common.GList(gops), common.GList(gobs))
		sig := strings.Join(gops, ";")
		ctx.Meta.Evaluations++
		if !distinct[sig] {
			distinct[sig] = true
		}
		terms = append(terms, term)
		d := map[string]any{"steps": recs}
		descs = append(descs, d)
		if len(terms)%83 == 1 {
			ctx.Sample(d)
		}
	}
	_ = keep
	ctx.Meta.DistinctNontrivial = len(distinct)
	ctx.Meta.Rule = "random histories (3..13 steps, thorough 3..14) over 4 variables of list, cons, list*, cdr/rest, nthcdr, member, last, butlast, subseq, copy-list, reverse, append, add, push, pop, (setf car), (setf nth), (setf elt), rplaca, rplacd, nreverse, nconc, sort, remove, delete, remove-if, delete-if (:count, :from-end), remove-duplicates, delete-duplicates (:from-end, :start, :end), mapcar; lists are built with a repeated element with chance 20% per element; preceded by 392 enumerated four-step histories of the removing functions (every pattern of removed positions in a list of four x predicate x :count x :from-end, with a tail view before and a write into the result after) and 240 enumerated five-step histories of remove-duplicates / delete-duplicates (every pattern of equal elements in a list of four (15) x function x :from-end x window {none, :start 1, :end 3, :start 1 :end 3}, with a tail view before, a write into the result and a write into the argument after); fresh integers as elements; after every step each variable's contents and (array identity, offset, capacity) read from the slip.List header; distinct = distinct op sequences"
	header := "From C06 Require Import Model Spec Corr.\n"
	footer := "Definition res := Eval vm_compute in check_all cases.\nPrint res.\nDefinition gcount := Eval vm_compute in guard_count cases.\nPrint gcount.\n"
	ctx.WriteShards("cases", header, "case", footer, terms, descs, 16)
	mappingBlock(ctx)
	runtimeSlices(ctx)
	ctx.ReplayKnownLisp()
}

// runtimeSlices: the same slice idiom inside the runtime (pkg/generic/defmethod.go, one of the property's
// anchors): a method added late to an inherited flavor is inserted into the inheriting flavor's combination
// slice; with spare capacity an in-place insertion must not overwrite the entries behind it. Decided on the
// implementation alone: the daemons of a message must run once each, in component order, followed by the primary.
func runtimeSlices(ctx *common.Ctx) {
	s := slip.NewScope()
	n := 0
	for k := 3; k <= 9; k++ {
		for j := 0; j < k; j++ {
			n++
			pre := fmt.Sprintf("rs%d-%d-", k, j)
			var sb strings.Builder
			sb.WriteString("(defvar *rs-tr* nil) ")
			var comps, want []string
			for i := 0; i < k; i++ {
				fmt.Fprintf(&sb, "(defflavor %sf%d () ()) ", pre, i)
				if i != j {
					fmt.Fprintf(&sb, "(defmethod (%sf%d :before :go) () (setq *rs-tr* (cons %d *rs-tr*))) ", pre, i, i)
				}
				comps = append(comps, fmt.Sprintf("%sf%d", pre, i))
				want = append(want, fmt.Sprint(i))
			}
			fmt.Fprintf(&sb, "(defmethod (%sf%d :go) () (setq *rs-tr* (cons 100 *rs-tr*))) ", pre, k-1)
			fmt.Fprintf(&sb, "(defflavor %sleaf () (%s)) ", pre, strings.Join(comps, " "))
			fmt.Fprintf(&sb, "(defmethod (%sf%d :before :go) () (setq *rs-tr* (cons %d *rs-tr*))) ", pre, j, j)
			fmt.Fprintf(&sb, "(setq *rs-tr* nil) (send (make-instance '%sleaf) :go) (reverse *rs-tr*)", pre)
			o := common.EvalTimeout(s, sb.String(), 5*time.Second)
			ctx.Meta.Evaluations++
			ctx.Hist("runtime-slice-insertion")
			expect := "(" + strings.Join(want, " ") + " 100)"
			if o.Err != "" || o.Printed != expect {
				ctx.Violate("inserting a late method into an inherited combination list lost or duplicated entries behind the insertion point",
					map[string]any{"components": k, "late_daemon_on_component": j, "program": sb.String()}, common.ShowOutcome(o), expect)
			}
		}
	}
}

// removeFamilyScripts: enumerated histories for the removing functions. A list of four elements in every
// pattern of removed / kept positions (16), a tail view of it (nthcdr 1), then remove-if or delete-if with each
// kind of predicate (evenp, oddp, a lambda), with and without :count 1, with and without :from-end t, stored
// in a third variable, then a write into the result (or a copy when the result is empty): 384 histories. The
// same with remove / delete of the element at each position: 8 more.
func removeFamilyScripts() (out [][][2]string) {
	type pk struct{ lisp, g string }
	for _, fname := range []string{"remove-if", "delete-if"} {
		for pi := 0; pi < 3; pi++ {
			for _, cnt := range []int{-1, 1} {
				for _, fe := range []bool{false, true} {
					for pat := 0; pat < 16; pat++ {
						var xs []string
						ones := 0
						for i := 0; i < 4; i++ {
							rm := pat>>i&1 == 1
							if rm {
								ones++
							}
							var v int
							switch pi {
							case 0: // evenp removes the even ones
								v = 11 + 2*i
								if rm {
									v = 10 + 2*i
								}
							case 1:
								v = 10 + 2*i
								if rm {
									v = 11 + 2*i
								}
							default: // (< el 50)
								v = 60 + i
								if rm {
									v = 10 + i
								}
							}
							xs = append(xs, fmt.Sprint(v))
						}
						p := []pk{{"'evenp", "PEven"}, {"'oddp", "POdd"}, {"(lambda (el) (< el 50))", "(PLess 50)"}}[pi]
						opts, gcnt, gfe := "", "None", "false"
						removed := ones
						if cnt >= 0 {
							opts, gcnt = fmt.Sprintf(" :count %d", cnt), fmt.Sprintf("(Some %d%%nat)", cnt)
							if removed > cnt {
								removed = cnt
							}
						}
						if fe {
							opts, gfe = opts+" :from-end t", "true"
						}
						h := [][2]string{
							{fmt.Sprintf("(setq lv0 (list %s))", strings.Join(xs, " ")), fmt.Sprintf("OList [%s]%%Z 0", strings.Join(xs, ";"))},
							{"(setq lv1 (nthcdr 1 lv0))", "ONthcdr 1 0 1"},
							{fmt.Sprintf("(setq lv2 (%s %s lv0%s))", fname, p.lisp, opts), fmt.Sprintf("ORemoveIf %s %s %s 0 2", p.g, gcnt, gfe)},
						}
						if 4-removed > 0 {
							h = append(h, [2]string{"(setf (car lv2) 999)", "OSetcar 2 999"})
						} else {
							h = append(h, [2]string{"(setq lv3 (copy-list lv0))", "OCopy 0 3"})
						}
						out = append(out, h)
					}
				}
			}
		}
	}
	for _, fname := range []string{"remove", "delete"} {
		for pos := 0; pos < 4; pos++ {
			out = append(out, [][2]string{
				{"(setq lv0 (list 21 22 23 24))", "OList [21;22;23;24]%Z 0"},
				{"(setq lv1 (nthcdr 1 lv0))", "ONthcdr 1 0 1"},
				{fmt.Sprintf("(setq lv2 (%s %d lv0))", fname, 21+pos), fmt.Sprintf("ORemove %d 0 2", 21+pos)},
				{"(setf (car lv2) 999)", "OSetcar 2 999"},
			})
		}
	}
	return
}

// dupScripts: enumerated histories for remove-duplicates / delete-duplicates. A list of four elements in every
// pattern of equal elements (the 15 set partitions of four positions, as restricted-growth strings), a tail
// view of it (nthcdr 1), then the function with and without :from-end t and with each window (none, :start 1,
// :end 3, :start 1 :end 3) stored in a third variable, then a write into the result and a write into the
// argument: 15 x 2 x 2 x 4 = 240 histories. Every variable is inspected after every step, so a scan that writes
// into the array of its argument shows in lv0 / lv1 right after the call, and a result that lies on the
// argument's array shows in the header and after either write.
func dupScripts() (out [][][2]string) {
	var pats [][]int
	var rec func(p []int, mx int)
	rec = func(p []int, mx int) {
		if len(p) == 4 {
			pats = append(pats, append([]int(nil), p...))
			return
		}
		for v := 0; v <= mx+1; v++ {
			m := mx
			if v > m {
				m = v
			}
			rec(append(p, v), m)
		}
	}
	rec(nil, -1)
	type win struct {
		opts string
		s    int
		e    string
	}
	wins := []win{{"", 0, "None"}, {" :start 1", 1, "None"}, {" :end 3", 0, "(Some 3%nat)"}, {" :start 1 :end 3", 1, "(Some 3%nat)"}}
	for _, fname := range []string{"remove-duplicates", "delete-duplicates"} {
		for _, fe := range []bool{false, true} {
			for _, w := range wins {
				for _, pat := range pats {
					var xs []string
					for _, v := range pat {
						xs = append(xs, fmt.Sprint(31+v))
					}
					opts, gfe := w.opts, "false"
					if fe {
						opts, gfe = " :from-end t"+opts, "true"
					}
					out = append(out, [][2]string{
						{fmt.Sprintf("(setq lv0 (list %s))", strings.Join(xs, " ")), fmt.Sprintf("OList [%s]%%Z 0", strings.Join(xs, ";"))},
						{"(setq lv1 (nthcdr 1 lv0))", "ONthcdr 1 0 1"},
						{fmt.Sprintf("(setq lv2 (%s lv0%s))", fname, opts), fmt.Sprintf("ORemoveDup %s %d%%nat %s 0 2", gfe, w.s, w.e)},
						{"(setf (car lv2) 999)", "OSetcar 2 999"},
						{"(setf (nth 1 lv0) 888)", "OSetnth 0 1 888"},
					})
				}
			}
		}
	}
	return
}
