// Package c13: histories of package operations run on the real implementation; after every step
// every name is resolved from every package (plain, pkg:name, pkg::name).
package c13

import (
	"fmt"
	"os"
	"strconv"
	"strings"

	"github.com/ohler55/slip"
	"verifharness/common"
)

type opRec struct {
	Lisp string   `json:"lisp"`
	Obs  []string `json:"observed,omitempty"`
}

var vnames = []string{"vx", "vy"}
var fnames = []string{"vf", "vg"}

func Run(ctx *common.Ctx) {
	scope := slip.NewScope()
	orig := slip.CurrentPackage
	defer func() { slip.CurrentPackage = orig }()
	ncases := 640
	maxLen := 12
	if ctx.Thorough() {
		ncases = 1500 // every step now also asks five resolvers about 42 function slots: 4000 histories took over 20 minutes
		maxLen = 14
	}
	var terms []string
	var descs []any
	distinct := map[string]bool{}
	eval := func(src string) common.Outcome { return common.EvalIn(scope, src) }
	qres := func(o common.Outcome, isFun bool) string {
		switch {
		case o.Err == "":
			if o.Value == slip.Unbound {
				return "QMarker"
			}
			if fx, ok := o.Value.(slip.Fixnum); ok {
				return fmt.Sprintf("QVal %d", int64(fx))
			}
			return "QOther"
		case o.Err == "unbound-variable" && !isFun, o.Err == "undefined-function" && isFun:
			return "QUnbound"
		default:
			return "QOther"
		}
	}
	// the other resolutions of a FUNCTION name (plain, p:n, p::n): bit 0 fboundp, 1 symbol-function, 2 #'name,
	// 3 fdefinition, 4 function-lambda-expression; a bit is set when that form says "defined" (fboundp: a
	// non-nil value; the others: no error).  Added after the defect "fboundp of a qualified symbol is nil" was
	// reported from outside: only the call was observed.
	resolvers := []string{"(fboundp '%s)", "(symbol-function '%s)", "#'%s", "(fdefinition '%s)", "(function-lambda-expression '%s)"}
	fmask := func(name string) int {
		m := 0
		for b, f := range resolvers {
			o := eval(fmt.Sprintf(f, name))
			if o.Err == "" && (b != 0 || o.Value != nil) {
				m |= 1 << b
			}
		}
		return m
	}
	// the masks of several names with ONE evaluation (the per-step observation asks 42 names x 5 resolvers):
	// every resolver call sits in its own (ignore-errors (progn <call> t)); if the combined form does not
	// yield the expected list of 0/1 the names are asked one form at a time (fmask)
	fmasks := func(names []string) []int {
		var b strings.Builder
		b.WriteString("(list")
		for _, n := range names {
			for i, f := range resolvers {
				if i == 0 {
					fmt.Fprintf(&b, " (if "+f+" 1 0)", n)
				} else {
					fmt.Fprintf(&b, " (if (ignore-errors (progn "+f+" t)) 1 0)", n)
				}
			}
		}
		b.WriteString(")")
		out := make([]int, len(names))
		o := eval(b.String())
		if list, ok := o.Value.(slip.List); ok && o.Err == "" && len(list) == 5*len(names) {
			good := true
			for i, v := range list {
				fx, isFx := v.(slip.Fixnum)
				if !isFx || (fx != 0 && fx != 1) {
					good = false
					break
				}
				out[i/5] |= int(fx) << (i % 5)
			}
			if good {
				return out
			}
		}
		ctx.Hist("resolver-batch-fallback")
		for i, n := range names {
			out[i] = fmask(n)
		}
		return out
	}
	// enumerated, no model needed: built-in functions through every spelling of their package
	for _, fn := range []string{"car", "cons", "list", "fboundp"} {
		for _, pre := range []string{"", "cl:", "cl::", "common-lisp:", "common-lisp::"} {
			ctx.Hist("builtin-qualified-resolvers")
			if m := fmask(pre+fn) & fmasks([]string{pre + fn})[0]; m != 31 {
				ctx.Violate("a built-in function is not found through a package-qualified name by every resolver (bits: fboundp, symbol-function, function, fdefinition, function-lambda-expression)",
					pre+fn, fmt.Sprintf("mask %d", m), "mask 31")
			}
		}
	}
	// enumerated block (does not depend on the random seed): every qualified write (setq / defvar x one / two
	// colons) on every kind of target variable of package a (private with a value, exported with a value,
	// exported without value, private without value, absent, inherited from c) from another current package
	// and from a itself; b uses a.  Added after seeded change C13-13 was missed.
	var enum [][][5]int
	for target := 0; target < 6; target++ {
		for curp := 0; curp < 2; curp++ {
			for w := 100; w < 104; w++ {
				st := func(p, q, x int) [5]int { return [5]int{p, q, 0, 0, x} }
				var h [][5]int
				switch target {
				case 0:
					h = append(h, st(0, 0, 65))
				case 1:
					h = append(h, st(0, 0, 65), st(0, 0, 40))
				case 2:
					h = append(h, st(0, 0, 40))
				case 3:
					h = append(h, st(0, 0, 40), st(0, 0, 53))
				case 4:
				default:
					h = append(h, st(2, 0, 5), st(0, 0, 65), st(2, 0, 40), st(0, 2, 20))
				}
				h = append(h, st(1, 0, 20), st(curp, 0, 5), st(0, 0, w), st(1-curp, 0, 5), st(0, 0, 65))
				enum = append(enum, h)
			}
		}
	}
	// the same for (fmakunbound 'a:vf) / (fmakunbound 'a::vf): target function of a private, exported, absent,
	// inherited from c; evaluated in b or in a; b uses a; afterwards the function is defined again
	for target := 0; target < 4; target++ {
		for curp := 0; curp < 2; curp++ {
			for w := 108; w < 110; w++ {
				st := func(p, q, x int) [5]int { return [5]int{p, q, 0, 0, x} }
				var h [][5]int
				switch target {
				case 0:
					h = append(h, st(0, 0, 85))
				case 1:
					h = append(h, st(0, 0, 85), st(0, 0, 48))
				case 2:
				default:
					h = append(h, st(2, 0, 5), st(0, 0, 85), st(2, 0, 48), st(0, 2, 20))
				}
				h = append(h, st(1, 0, 20), st(curp, 0, 5), st(0, 0, w), st(1-curp, 0, 5), st(0, 0, 85))
				enum = append(enum, h)
			}
		}
	}
	// own definition over an inherited exported name, then an unuse-package of ANOTHER package (used or not), then a
	// write and the resolutions: Package.Unuse rebuilds the user's tables and must keep the package's own entries
	// (stored seed C13-7; the random stream alone lost this shape when qualified writes were added).
	for kind := 0; kind < 2; kind++ { // variable / function
		def, exp := 65, 40
		if kind == 1 {
			def, exp = 85, 48
		}
		for cExports := 0; cExports < 2; cExports++ {
			for usedC := 0; usedC < 2; usedC++ {
				for cFirst := 0; cFirst < 2; cFirst++ {
					st := func(p, q, x int) [5]int { return [5]int{p, q, 0, 0, x} }
					h := [][5]int{st(1, 0, 5), st(0, 0, def), st(1, 0, exp)}
					if cExports == 1 {
						h = append(h, st(2, 0, 5), st(0, 0, def), st(2, 0, exp))
					}
					h = append(h, st(0, 0, 5), st(0, 0, def))
					if usedC == 1 && cFirst == 1 {
						h = append(h, st(0, 2, 20))
					}
					h = append(h, st(0, 1, 20))
					if usedC == 1 && cFirst == 0 {
						h = append(h, st(0, 2, 20))
					}
					h = append(h, st(0, 2, 28), st(0, 0, def), st(1, 0, 5), st(0, 0, def))
					enum = append(enum, h)
				}
			}
		}
	}
	ncases += len(enum)
	for k := 0; len(terms) < ncases; k++ {
		pk := []string{fmt.Sprintf("vq%da", k), fmt.Sprintf("vq%db", k), fmt.Sprintf("vq%dc", k)}
		slip.CurrentPackage = orig
		for _, p := range pk {
			if o := eval(fmt.Sprintf("(defpackage \"%s\" (:use \"cl\" \"cl-user\"))", p)); o.Err != "" {
				panic("defpackage: " + o.Msg)
			}
		}
		cur := 0
		if o := eval("(in-package \"" + pk[0] + "\")"); o.Err != "" {
			panic("in-package: " + o.Msg)
		}
		L := 2 + ctx.Rng.Intn(maxLen-1)
		var gops, gobs, gfobs []string
		var recs []opRec
		val := 0
		// approximate shadow of the package graph, only used to bias the generator towards steps
		// that make sense (exporting names that exist, using packages without name clashes)
		var ownV, ownF, expV, expF [3][4]bool
		var uses [3][3]bool
		visV := func(p, n int) bool {
			if ownV[p][n] {
				return true
			}
			for q := 0; q < 3; q++ {
				if uses[p][q] && ownV[q][n] && expV[q][n] {
					return true
				}
			}
			return false
		}
		visF := func(p, n int) bool {
			if ownF[p][n] {
				return true
			}
			for q := 0; q < 3; q++ {
				if uses[p][q] && ownF[q][n] && expF[q][n] {
					return true
				}
			}
			return false
		}
		sensible := ctx.Rng.Chance(50)
		// focus: most operations of a history concern one variable, one function and one exporting
		// package, so that export / unexport / re-export, several users, own definitions in users
		// and redefinitions interact within a few steps
		focus := ctx.Rng.Chance(70)
		fv, ff, pe := ctx.Rng.Intn(2), ctx.Rng.Intn(2), ctx.Rng.Intn(3)
		draw := func() (p, q, vn, fn, x int) {
			p, q, vn, fn, x = ctx.Rng.Intn(3), ctx.Rng.Intn(3), ctx.Rng.Intn(2), ctx.Rng.Intn(2), ctx.Rng.Intn(114)
			if focus {
				if x >= 100 && ctx.Rng.Chance(60) { // qualified writes: mostly into the exporter
					p = pe
				}
				if ctx.Rng.Chance(85) {
					vn = fv
				}
				if ctx.Rng.Chance(85) {
					fn = ff
				}
				if x >= 12 && x < 33 { // use / unuse: somebody uses the exporter
					if ctx.Rng.Chance(75) {
						q = pe
						p = (pe + 1 + ctx.Rng.Intn(2)) % 3
					}
				} else if x >= 33 && x < 60 { // export / unexport on the exporter
					if ctx.Rng.Chance(80) {
						p = pe
					}
				}
			}
			return
		}
		// scripted openings (25% of the histories): sequences of steps that a random walk rarely produces,
		// followed by random steps (added after seeded changes C13-5 and C13-6 were missed)
		var forced [][5]int // p, q, vn, fn, x
		if ctx.Rng.Chance(35) {
			u := (pe + 1 + ctx.Rng.Intn(2)) % 3
			w := 3 - pe - u
			step := func(p, q, x int) [5]int { return [5]int{p, q, fv, ff, x} }
			// x: <12 in-package p; <27 use q in p; <33 unuse q in p; <43 export var in p; <51 export fun in p;
			// <56 unexport var; <60 unexport fun; <72 setq; <78 defvar; <90 defun; <95 makunbound; else fmakunbound
			switch ctx.Rng.Intn(18) {
			case 0: // a package used twice, unused once, and only then an export in the used package
				forced = [][5]int{step(u, pe, 20), step(u, pe, 20), step(u, pe, 30), step(pe, 0, 5), step(0, 0, 65), step(0, 0, 85), step(pe, 0, 40), step(pe, 0, 48)}
			case 1: // own definitions on both sides, then unexport (of names never exported) in the used package
				forced = [][5]int{step(pe, 0, 5), step(0, 0, 65), step(0, 0, 85), step(u, 0, 5), step(0, 0, 65), step(0, 0, 85), step(u, pe, 20), step(pe, 0, 53), step(pe, 0, 58)}
			case 2: // own definitions on both sides, export, unexport, export again
				forced = [][5]int{step(u, 0, 5), step(0, 0, 65), step(0, 0, 85), step(pe, 0, 5), step(0, 0, 65), step(0, 0, 85), step(u, pe, 20), step(pe, 0, 40), step(pe, 0, 48), step(pe, 0, 53), step(pe, 0, 58), step(pe, 0, 40)}
			case 3: // two users of one exporter, one of them leaves and comes back
				forced = [][5]int{step(pe, 0, 5), step(0, 0, 65), step(0, 0, 85), step(pe, 0, 40), step(pe, 0, 48), step(u, pe, 20), step(w, pe, 20), step(u, pe, 30), step(u, pe, 20), step(pe, 0, 53)}
			// the histories of the repaired defects (formerly outside the guard)
			case 4: // unuse keeps own definitions; private entries of the remaining used package stay invisible
				forced = [][5]int{step(u, 0, 5), step(0, 0, 65), step(0, 0, 85), step(w, 0, 5), step(0, 0, 65), step(0, 0, 85), step(u, pe, 20), step(u, w, 20), step(u, pe, 30), step(u, w, 30)}
			case 5: // a private variable set twice is not pushed to the users
				forced = [][5]int{step(u, pe, 20), step(pe, 0, 5), step(0, 0, 65), step(0, 0, 65), step(0, 0, 74), step(pe, 0, 40), step(0, 0, 65)}
			case 6: // use of a package exporting names the package owns
				forced = [][5]int{step(u, 0, 5), step(0, 0, 65), step(0, 0, 85), step(pe, 0, 5), step(0, 0, 65), step(0, 0, 85), step(pe, 0, 40), step(pe, 0, 48), step(u, pe, 20), step(0, 0, 92), step(0, 0, 97), step(u, 0, 5), step(0, 0, 92), step(0, 0, 97)}
			case 7: // fmakunbound / makunbound of exported definitions with users
				forced = [][5]int{step(pe, 0, 5), step(0, 0, 65), step(0, 0, 85), step(pe, 0, 40), step(pe, 0, 48), step(u, pe, 20), step(w, pe, 20), step(0, 0, 97), step(0, 0, 92), step(0, 0, 85), step(0, 0, 65)}
			case 8: // export before definition, with a user
				forced = [][5]int{step(u, pe, 20), step(pe, 0, 5), step(pe, 0, 48), step(pe, 0, 40), step(0, 0, 85), step(0, 0, 65), step(0, 0, 97), step(0, 0, 85), step(pe, 0, 58), step(0, 0, 97), step(0, 0, 85)}
			case 9: // defun on an inherited function, then unexport in the home package, then own defun
				forced = [][5]int{step(pe, 0, 5), step(0, 0, 85), step(pe, 0, 48), step(u, pe, 20), step(u, 0, 5), step(0, 0, 85), step(pe, 0, 58), step(0, 0, 85), step(pe, 0, 5), step(0, 0, 85)}
			case 10: // makunbound / fmakunbound of inherited definitions
				forced = [][5]int{step(pe, 0, 5), step(0, 0, 65), step(0, 0, 85), step(pe, 0, 40), step(pe, 0, 48), step(u, pe, 20), step(u, 0, 5), step(0, 0, 92), step(0, 0, 97), step(0, 0, 65), step(0, 0, 85)}
			case 11: // unexport in the using package
				forced = [][5]int{step(pe, 0, 5), step(0, 0, 65), step(0, 0, 85), step(pe, 0, 40), step(pe, 0, 48), step(u, pe, 20), step(u, 0, 53), step(u, 0, 58), step(pe, 0, 53)}
			case 12: // the exported symbol left behind by fmakunbound is inherited, then defun in the user
				forced = [][5]int{step(pe, 0, 5), step(0, 0, 85), step(pe, 0, 48), step(0, 0, 97), step(u, pe, 20), step(u, 0, 5), step(0, 0, 85), step(u, 0, 58), step(pe, 0, 5), step(0, 0, 85)}
			case 13: // export of an undefined variable, set in the user and in the exporter, unexport
				forced = [][5]int{step(u, pe, 20), step(pe, 0, 40), step(u, 0, 5), step(0, 0, 65), step(pe, 0, 5), step(0, 0, 65), step(pe, 0, 53), step(0, 0, 92)}
			case 14: // two used packages export the same names: retraction and precedence
				forced = [][5]int{step(pe, 0, 5), step(0, 0, 65), step(0, 0, 85), step(pe, 0, 40), step(pe, 0, 48), step(w, 0, 5), step(0, 0, 65), step(0, 0, 85), step(w, 0, 40), step(w, 0, 48), step(u, pe, 20), step(u, w, 20), step(pe, 0, 53), step(pe, 0, 58)}
			case 15: // two users, the first has own definitions of the names, then the exporter defines and exports, unexports, exports again
				forced = [][5]int{step(u, 0, 5), step(0, 0, 65), step(0, 0, 85), step(u, pe, 20), step(w, pe, 20), step(pe, 0, 5), step(0, 0, 65), step(0, 0, 85), step(pe, 0, 40), step(pe, 0, 48), step(pe, 0, 53), step(pe, 0, 58), step(pe, 0, 40), step(pe, 0, 48)}
			case 16: // the same with the users in the other order
				forced = [][5]int{step(u, 0, 5), step(0, 0, 65), step(0, 0, 85), step(w, pe, 20), step(u, pe, 20), step(pe, 0, 5), step(0, 0, 65), step(0, 0, 85), step(pe, 0, 40), step(pe, 0, 48), step(pe, 0, 53), step(pe, 0, 58), step(pe, 0, 40), step(pe, 0, 48)}
			default: // chain u -> pe -> w (transitive inheritance), then changes in w
				forced = [][5]int{step(w, 0, 5), step(0, 0, 65), step(0, 0, 85), step(w, 0, 40), step(w, 0, 48), step(pe, w, 20), step(u, pe, 20), step(w, 0, 53), step(u, w, 20), step(u, pe, 30)}
			}
			ctx.Hist("scripted-opening")
			if L < len(forced)+2 {
				L = len(forced) + 2
			}
		}
		// recording a regression case (coq/C13/Regress.v): C13_FORCED="p,q,vn,fn,x;..." replaces the first history
		if env := os.Getenv("C13_FORCED"); env != "" && k == 0 {
			forced = forced[:0]
			for _, t := range strings.Split(env, ";") {
				var st [5]int
				for i, f := range strings.Split(t, ",") {
					st[i], _ = strconv.Atoi(strings.TrimSpace(f))
				}
				forced = append(forced, st)
			}
			L = len(forced)
		}
		if k < len(enum) {
			forced = enum[k]
			L = len(forced)
			ctx.Hist("enumerated-qualified-write-or-fmakunbound")
		}
		for i := 0; i < L; i++ {
			var lisp, g, xg string
			p, q, vn, fn, x := draw()
			val++
			if i < len(forced) {
				p, q, vn, fn, x = forced[i][0], forced[i][1], forced[i][2], forced[i][3], forced[i][4]
			} else if sensible {
				// re-draw a few times until the step looks guarded
				for try := 0; try < 6; try++ {
					ok := true
					switch {
					case x < 12:
					case x < 27:
						ok = p != q
					case x < 33:
					case x < 51:
					case x < 56:
						ok = ownV[p][vn]
					case x < 60:
						ok = ownF[p][2+fn]
					case x < 90:
					case x < 95:
						ok = visV(cur, vn)
					case x < 100:
						ok = visF(cur, 2+fn)
					default:
					}
					if ok {
						break
					}
					p, q, vn, fn, x = draw()
				}
			}
			switch {
			case x < 12:
				lisp, g = fmt.Sprintf("(in-package \"%s\")", pk[p]), fmt.Sprintf("OInPkg %d%%N", p)
				cur = p
			case x < 27:
				lisp, g = fmt.Sprintf("(use-package '%s '%s)", pk[q], pk[p]), fmt.Sprintf("OUse %d%%N %d%%N", q, p)
				uses[p][q] = p != q
			case x < 33:
				lisp, g = fmt.Sprintf("(unuse-package '%s '%s)", pk[q], pk[p]), fmt.Sprintf("OUnuse %d%%N %d%%N", q, p)
				uses[p][q] = false
			case x < 43:
				lisp, g = fmt.Sprintf("(export '%s '%s)", vnames[vn], pk[p]), fmt.Sprintf("OExport %d%%N %d%%N", vn, p)
				expV[p][vn] = true
			case x < 51:
				lisp, g = fmt.Sprintf("(export '%s '%s)", fnames[fn], pk[p]), fmt.Sprintf("OExport %d%%N %d%%N", 2+fn, p)
				expF[p][2+fn] = true
			case x < 56:
				lisp, g = fmt.Sprintf("(unexport '%s '%s)", vnames[vn], pk[p]), fmt.Sprintf("OUnexport %d%%N %d%%N", vn, p)
				expV[p][vn] = false
			case x < 60:
				lisp, g = fmt.Sprintf("(unexport '%s '%s)", fnames[fn], pk[p]), fmt.Sprintf("OUnexport %d%%N %d%%N", 2+fn, p)
				expF[p][2+fn] = false
			case x < 72:
				lisp, g = fmt.Sprintf("(setq %s %d)", vnames[vn], val), fmt.Sprintf("OSetq %d%%N %d", vn, val)
				if !visV(cur, vn) {
					ownV[cur][vn] = true
				}
			case x < 78:
				lisp, g = fmt.Sprintf("(defvar %s %d)", vnames[vn], val), fmt.Sprintf("ODefvar %d%%N %d", vn, val)
				if !visV(cur, vn) {
					ownV[cur][vn] = true
				}
			case x < 90:
				lisp, g = fmt.Sprintf("(defun %s () %d)", fnames[fn], val), fmt.Sprintf("ODefun %d%%N %d", 2+fn, val)
				if !visF(cur, 2+fn) {
					ownF[cur][2+fn] = true
				}
			case x < 95:
				lisp, g = fmt.Sprintf("(makunbound '%s)", vnames[vn]), fmt.Sprintf("OMakunbound %d%%N", vn)
				ownV[cur][vn], expV[cur][vn] = false, false
			case x < 100:
				lisp, g = fmt.Sprintf("(fmakunbound '%s)", fnames[fn]), fmt.Sprintf("OFmakunbound %d%%N", 2+fn)
				ownF[cur][2+fn], expF[cur][2+fn] = false, false
			case x >= 108:
				// (fmakunbound 'p:f) even x, (fmakunbound 'p::f) odd x
				colons, priv := ":", "false"
				if x%2 == 1 {
					colons, priv = "::", "true"
				}
				lisp = fmt.Sprintf("(fmakunbound '%s%s%s)", pk[p], colons, fnames[fn])
				xg = fmt.Sprintf("XFmakunboundQ %d%%N %d%%N %s", p, 2+fn, priv)
				g = "XFmakunboundQ" + colons
			default:
				// qualified writes: 100 (setq p:n v) 101 (setq p::n v) 102 (defvar p:n v) 103 (defvar p::n v);
				// 104..107 the same again (random draw only)
				w := (x - 100) % 4
				colons, priv := ":", "false"
				if w%2 == 1 {
					colons, priv = "::", "true"
				}
				form, ctor := "setq", "XSetqQ"
				if w >= 2 {
					form, ctor = "defvar", "XDefvarQ"
				}
				lisp = fmt.Sprintf("(%s %s%s%s %d)", form, pk[p], colons, vnames[vn], val)
				xg = fmt.Sprintf("%s %d%%N %d%%N %d %s", ctor, p, vn, val, priv)
				g = ctor + colons
			}
			if xg == "" {
				xg = "XB (" + g + ")"
			}
			ctx.Hist("op:" + strings.SplitN(g, " ", 2)[0])
			rec := opRec{Lisp: lisp}
			o := eval(lisp)
			if o.Err != "" {
				rec.Obs = append(rec.Obs, "!op failed: "+o.Err+": "+o.Msg)
			}
			// observe from every package
			var obs, fobs []string
			for c := 0; c < 3; c++ {
				if r := eval("(in-package \"" + pk[c] + "\")"); r.Err != "" {
					panic("in-package: " + r.Msg)
				}
				for _, n := range vnames {
					obs = append(obs, qres(eval(n), false))
					for _, pp := range pk {
						obs = append(obs, qres(eval(pp+":"+n), false), qres(eval(pp+"::"+n), false))
					}
				}
				for _, n := range fnames {
					obs = append(obs, qres(eval("("+n+")"), true))
					fnm := []string{n}
					for _, pp := range pk {
						obs = append(obs, qres(eval("("+pp+":"+n+")"), true), qres(eval("("+pp+"::"+n+")"), true))
						fnm = append(fnm, pp+":"+n, pp+"::"+n)
					}
					for _, m := range fmasks(fnm) {
						fobs = append(fobs, strconv.Itoa(m))
					}
				}
			}
			if r := eval("(in-package \"" + pk[cur] + "\")"); r.Err != "" {
				panic("in-package: " + r.Msg)
			}
			if o.Err != "" {
				obs[0] = "QOther" // a failing operation is never predicted by the model
			}
			for _, ob := range obs {
				ctx.Hist("query:" + strings.SplitN(ob, " ", 2)[0])
			}
			rec.Obs = append(rec.Obs, strings.Join(obs, " | "), "resolver masks of the function slots: "+strings.Join(fobs, " "))
			for _, m := range fobs {
				ctx.Hist("resolver-mask:" + m)
			}
			gfobs = append(gfobs, "["+strings.Join(fobs, "; ")+"]%N")
			recs = append(recs, rec)
			gops = append(gops, xg)
			gobs = append(gobs, common.GList(obs))
		}
		slip.CurrentPackage = orig
		term := fmt.Sprintf("(%s,\n    %s,\n    %s)", common.GList(gops), common.GList(gobs), common.GList(gfobs))
		ctx.Meta.Evaluations++
		sig := strings.Join(gops, ";")
		if !distinct[sig] {
			distinct[sig] = true
		}
		terms = append(terms, term)
		d := map[string]any{"packages": pk, "ops": recs,
			"observation_order": "for each current package a,b,c: for vx,vy: name, a:name, a::name, b:name, b::name, c:name, c::name; then the same for calls of vf, vg"}
		descs = append(descs, d)
		if len(terms)%61 == 1 {
			ctx.Sample(d)
		}
	}
	ctx.Meta.DistinctNontrivial = len(distinct)
	ctx.Meta.Rule = "80 enumerated histories (seed-independent: 16 x own definition over an inherited exported name followed by an unuse-package of another package; {setq, defvar} x {p:n, p::n} x 6 kinds of target variable x current package other / same; fmakunbound x {p:f, p::f} x 4 kinds of target function (private, exported, absent, inherited) x current package other / same) + random histories (2..12 ops, thorough 2..14; 70% focused on one variable, one function and one exporting package; 35% start with one of 18 scripted openings of 7..14 steps, one per repaired finding of C13: unuse, private setq, use over own names, (f)makunbound of exported and of inherited names, export before definition, defun on inherited names, unexport in a user, two exporters of one name, use chains) over 3 fresh packages x {in-package, use-package, unuse-package, export, unexport, setq, defvar, defun, makunbound, fmakunbound, 7% qualified writes (setq|defvar p:n|p::n) and 5% qualified fmakunbound (p:f|p::f)} x 2 variable and 2 function names; after every step 84 resolutions (3 current packages x 4 names x {plain, p:, p::} x 3 packages) and, for each of the 42 function slots, the answers of fboundp, symbol-function, function, fdefinition, function-lambda-expression on the same (qualified) name; 20 built-in names (4 functions x {plain, cl:, cl::, common-lisp:, common-lisp::}) through the same five resolvers; distinct = distinct op sequences (all have >= 2 ops)"
	header := "From C13 Require Import Model Spec Corr.\nOpen Scope Z_scope.\n"
	footer := "Definition res := Eval vm_compute in fcheck_all cases.\nPrint res.\n" +
		"Definition gcount := Eval vm_compute in xguard_count (map fst cases).\nPrint gcount.\n" +
		"Definition qualcount := Eval vm_compute in xqual_count (map fst cases).\nPrint qualcount.\n"
	ctx.WriteShards("cases", header, "fcase", footer, terms, descs, 16)
	ctx.ReplayKnownLisp()
}
