package c01

import (
	"fmt"
	"strings"
)

// The enumerated block "single-value positions": every place of the modelled language that takes ONE value from a
// form (function argument of a built-in / a lambda / a function made by defun / apply / tr, case key, prog1, an
// argument of values, let / let* / do / do* init and step forms, the default form of an &optional parameter, setq,
// the tests of if when unless cond and or do, a cond clause without forms, the list form of dolist, the count form
// of dotimes, the result of the function of mapcar, a form of progn that is not the last) is filled with every
// producer of zero, one (nil) and two values, written directly and passed on through progn, let, if, a lambda call
// and a call of a function made by defun. The model says: the primary value, nil if there is none. The programs are
// the same on every run (they do not depend on the seed); multiple-value-bind shows that the multiple-value places
// still get all the values.

type producer struct {
	l, g string
	defs []node // definitions the producer needs (unique names per program: %s = program id)
}

type position struct {
	name string
	l, g string // %[1]s = the producer, %[2]s = the program id (for names of definitions)
	defs []node
}

func singleValueBlock() (progs [][]node, names []string) {
	producers := []producer{
		{"(values)", "EValues []", nil},
		{"(values nil)", "EValues [EConst DNil]", nil},
		{"(values 1 2)", "EValues [EConst (DInt 1); EConst (DInt 2)]", nil},
		{"(progn (values))", "EProgn [EValues []]", nil},
		{"(progn 7 (values))", "EProgn [EConst (DInt 7); EValues []]", nil},
		{"(let () (values))", "ELet [] [EValues []]", nil},
		{"(if t (values) 3)", "EIf (EConst DT) (EValues []) (Some (EConst (DInt 3)))", nil},
		{"(funcall (lambda () (values)))", "EFuncall (ELambda [] [EValues []]) []", nil},
		{"(funcall (lambda () (values 1 2)))", "EFuncall (ELambda [] [EValues [EConst (DInt 1); EConst (DInt 2)]]) []", nil},
		{"(%[2]sz)", "ECall \"%[2]sz\" []", []node{{"(defun %[2]sz () (values))", "(EDefun \"%[2]sz\" [] [EValues []])"}}},
		{"(cond (t (values)))", "ECond [(EConst DT, [EValues []])]", nil},
	}
	i1, i2 := "EConst (DInt 1)", "EConst (DInt 2)"
	positions := []position{
		{"argument:list", "(list 1 %[1]s 2)", "EPrim PList [" + i1 + "; %[1]s; " + i2 + "]", nil},
		{"argument:null", "(null %[1]s)", "EPrim PNull [%[1]s]", nil},
		{"argument:not", "(not %[1]s)", "EPrim PNot [%[1]s]", nil},
		{"argument:eql", "(eql %[1]s nil)", "EPrim PEql [%[1]s; EConst DNil]", nil},
		{"argument:cons", "(cons %[1]s %[1]s)", "EPrim PCons [%[1]s; %[1]s]", nil},
		{"argument:lambda-test", "(funcall (lambda (p) (if p 1 2)) %[1]s)",
			"EFuncall (ELambda [\"p\"] [EIf (EVar \"p\") (" + i1 + ") (Some (" + i2 + "))]) [%[1]s]", nil},
		{"argument:lambda-list", "(funcall (lambda (p q) (list q p)) %[1]s 5)",
			"EFuncall (ELambda [\"p\"; \"q\"] [EPrim PList [EVar \"q\"; EVar \"p\"]]) [%[1]s; EConst (DInt 5)]", nil},
		{"argument:defun", "(%[2]sf %[1]s 7)", "ECall \"%[2]sf\" [%[1]s; EConst (DInt 7)]",
			[]node{{"(defun %[2]sf (p q) (list q p (null p)))", "(EDefun \"%[2]sf\" [\"p\"; \"q\"] [EPrim PList [EVar \"q\"; EVar \"p\"; EPrim PNull [EVar \"p\"]]])"}}},
		{"argument:apply", "(apply (lambda (p q) (list p q)) %[1]s (list 3))",
			"EApply (ELambda [\"p\"; \"q\"] [EPrim PList [EVar \"p\"; EVar \"q\"]]) [%[1]s; EPrim PList [EConst (DInt 3)]]", nil},
		{"argument:funcall-designator", "(funcall 'list %[1]s 4)", "EFuncall (EQuote (DSym \"list\")) [%[1]s; EConst (DInt 4)]", nil},
		{"argument:tr", "(list (tr 1 %[1]s))", "EPrim PList [ETr 1 (%[1]s)]", nil},
		{"argument:values", "(multiple-value-bind (a b) (values %[1]s 9) (list a b))",
			"EMvb [\"a\"; \"b\"] (EValues [%[1]s; EConst (DInt 9)]) [EPrim PList [EVar \"a\"; EVar \"b\"]]", nil},
		{"case-key", "(case %[1]s (1 'one) (t 'other))",
			"ECase (%[1]s) [([DInt 1], [EQuote (DSym \"one\")])] (Some [EQuote (DSym \"other\")])", nil},
		{"prog1", "(list (prog1 %[1]s 5))", "EPrim PList [EProg1 (%[1]s) [EConst (DInt 5)]]", nil},
		{"progn:not-last", "(progn %[1]s 5)", "EProgn [%[1]s; EConst (DInt 5)]", nil},
		{"progn:last-as-argument", "(list (progn 1 %[1]s))", "EPrim PList [EProgn [" + i1 + "; %[1]s]]", nil},
		{"let-init", "(let ((x %[1]s)) (list x (null x) (if x 1 2)))",
			"ELet [(\"x\", %[1]s)] [EPrim PList [EVar \"x\"; EPrim PNull [EVar \"x\"]; EIf (EVar \"x\") (" + i1 + ") (Some (" + i2 + "))]]", nil},
		{"letstar-init", "(let* ((x %[1]s) (y x)) (list x y))",
			"ELetStar [(\"x\", %[1]s); (\"y\", EVar \"x\")] [EPrim PList [EVar \"x\"; EVar \"y\"]]", nil},
		{"setq", "(let ((x 5)) (list (setq x %[1]s) x (null x)))",
			"ELet [(\"x\", EConst (DInt 5))] [EPrim PList [ESetq [(\"x\", %[1]s)]; EVar \"x\"; EPrim PNull [EVar \"x\"]]]", nil},
		{"setq-result", "(let ((x 5)) (multiple-value-bind (a b) (setq x %[1]s) (list a b)))",
			"ELet [(\"x\", EConst (DInt 5))] [EMvb [\"a\"; \"b\"] (ESetq [(\"x\", %[1]s)]) [EPrim PList [EVar \"a\"; EVar \"b\"]]]", nil},
		{"test:if", "(if %[1]s 1 2)", "EIf (%[1]s) (" + i1 + ") (Some (" + i2 + "))", nil},
		{"test:when", "(when %[1]s 1)", "EWhen (%[1]s) [" + i1 + "]", nil},
		{"test:unless", "(unless %[1]s 1)", "EUnless (%[1]s) [" + i1 + "]", nil},
		{"test:cond", "(cond (%[1]s 1) (t 2))", "ECond [(%[1]s, [" + i1 + "]); (EConst DT, [" + i2 + "])]", nil},
		{"cond:test-only", "(multiple-value-bind (a b) (cond (%[1]s) (t 2)) (list a b))",
			"EMvb [\"a\"; \"b\"] (ECond [(%[1]s, []); (EConst DT, [" + i2 + "])]) [EPrim PList [EVar \"a\"; EVar \"b\"]]", nil},
		{"test:and", "(and %[1]s 1)", "EAnd [%[1]s; " + i1 + "]", nil},
		{"and:last", "(multiple-value-bind (a b) (and 1 %[1]s) (list a b))",
			"EMvb [\"a\"; \"b\"] (EAnd [" + i1 + "; %[1]s]) [EPrim PList [EVar \"a\"; EVar \"b\"]]", nil},
		{"test:or", "(multiple-value-bind (a b) (or %[1]s 3) (list a b))",
			"EMvb [\"a\"; \"b\"] (EOr [%[1]s; EConst (DInt 3)]) [EPrim PList [EVar \"a\"; EVar \"b\"]]", nil},
		{"or:last", "(multiple-value-bind (a b) (or nil %[1]s) (list a b))",
			"EMvb [\"a\"; \"b\"] (EOr [EConst DNil; %[1]s]) [EPrim PList [EVar \"a\"; EVar \"b\"]]", nil},
		{"test:do", "(do ((i 0 (1+ i))) ((or (> i 1) %[1]s) i))",
			"EDo false [(\"i\", EConst (DInt 0), Some (EPrim PInc [EVar \"i\"]))] (EOr [EPrim PGt [EVar \"i\"; " + i1 + "]; %[1]s]) [EVar \"i\"] []", nil},
		{"test:dostar", "(do* ((i 0 (1+ i))) ((or (> i 1) %[1]s) i))",
			"EDo true [(\"i\", EConst (DInt 0), Some (EPrim PInc [EVar \"i\"]))] (EOr [EPrim PGt [EVar \"i\"; " + i1 + "]; %[1]s]) [EVar \"i\"] []", nil},
		{"do-init-step", "(do ((x %[1]s %[1]s) (i 0 (1+ i))) ((> i 1) (list x (null x))))",
			"EDo false [(\"x\", %[1]s, Some (%[1]s)); (\"i\", EConst (DInt 0), Some (EPrim PInc [EVar \"i\"]))] (EPrim PGt [EVar \"i\"; " + i1 + "]) [EPrim PList [EVar \"x\"; EPrim PNull [EVar \"x\"]]] []", nil},
		{"dostar-init-step", "(do* ((x %[1]s %[1]s) (i 0 (1+ i))) ((> i 1) (list x (null x))))",
			"EDo true [(\"x\", %[1]s, Some (%[1]s)); (\"i\", EConst (DInt 0), Some (EPrim PInc [EVar \"i\"]))] (EPrim PGt [EVar \"i\"; " + i1 + "]) [EPrim PList [EVar \"x\"; EPrim PNull [EVar \"x\"]]] []", nil},
		{"dolist-form", "(let ((r 0)) (dolist (x %[1]s r) (setq r (+ r 1))))",
			"ELet [(\"r\", EConst (DInt 0))] [EDolist \"x\" (%[1]s) (Some (EVar \"r\")) [ESetq [(\"r\", EPrim PAdd [EVar \"r\"; " + i1 + "])]]]", nil},
		{"dotimes-count", "(dotimes (i %[1]s i))", "EDotimes \"i\" (%[1]s) (Some (EVar \"i\")) []", nil},
		{"mapcar-result", "(mapcar (lambda (x) %[1]s) '(1 2))",
			"EMapcar (ELambda [\"x\"] [%[1]s]) [EQuote (DList [DInt 1; DInt 2])]", nil},
		{"optional-default", "(funcall (lambda (&optional (o %[1]s)) (list o (null o))))",
			"EFuncall (ELambdaO [] [(\"o\", %[1]s)] [EPrim PList [EVar \"o\"; EPrim PNull [EVar \"o\"]]]) []", nil},
		{"multiple-value-bind", "(multiple-value-bind (a b) %[1]s (list a b))",
			"EMvb [\"a\"; \"b\"] (%[1]s) [EPrim PList [EVar \"a\"; EVar \"b\"]]", nil},
		{"lambda-body-as-argument", "(list (funcall (lambda () 1 %[1]s)))", "EPrim PList [EFuncall (ELambda [] [" + i1 + "; %[1]s]) []]", nil},
	}
	n := 0
	for _, pos := range positions {
		for _, pr := range producers {
			n++
			id := fmt.Sprintf("sv%d", n)
			var forms []node
			for _, d := range append(append([]node{}, pr.defs...), pos.defs...) {
				forms = append(forms, node{fill(d.L, "", id), fill(d.G, "", id)})
			}
			pl, pg := fill(pr.l, "", id), fill(pr.g, "", id)
			forms = append(forms, node{fill(pos.l, pl, id), "(" + fill(pos.g, "("+pg+")", id) + ")"})
			progs = append(progs, forms)
			names = append(names, pos.name+" <- "+pr.l)
		}
	}
	return
}

// fill replaces %[1]s by the producer and %[2]s by the program id
func fill(tmpl, prod, id string) string {
	return strings.NewReplacer("%[1]s", prod, "%[2]s", id).Replace(tmpl)
}
