// Package c01: core evaluation. A typed program generator over the core forms (function calls, progn,
// prog1, if/when/unless/cond/case, and/or, let/let*, setq, lambda and closures, defun and recursion,
// dolist/dotimes/do/do*, mapcar/apply/funcall, values/multiple-value-bind, quote) with side-effecting
// (tr k e) calls in every evaluated position. Each program is read and evaluated by the interpreter; the
// value(s) (or the condition class) and the trace are written, together with the program as a Gallina
// term, for the evaluators of coq/C01 to judge.
package c01

import (
	"bufio"
	"encoding/json"
	"fmt"
	"io"
	"os"
	"os/exec"
	"path/filepath"
	"strings"
	"sync"
	"time"

	"github.com/ohler55/slip"
	"verifharness/common"
)

// (tr k e): a function defined through the public slip.Define; Function.Eval evaluates both arguments,
// then Call appends k to the trace and returns e's value.
var (
	trMu   sync.Mutex
	trBuf  []int64
	trOnce sync.Once
)

type trFn struct {
	slip.Function
}

func (f *trFn) Call(s *slip.Scope, args slip.List, depth int) slip.Object {
	slip.CheckArgCount(s, depth, f, args, 2, 2)
	k, _ := args[0].(slip.Fixnum)
	trMu.Lock()
	trBuf = append(trBuf, int64(k))
	trMu.Unlock()
	return args[1]
}

func defineTr() {
	trOnce.Do(func() {
		slip.Define(
			func(args slip.List) slip.Object {
				f := trFn{Function: slip.Function{Name: "tr", Args: args}}
				f.Self = &f
				return &f
			},
			&slip.FuncDoc{
				Name:   "tr",
				Kind:   slip.FunctionSymbol,
				Args:   []*slip.DocArg{{Name: "k", Type: "fixnum"}, {Name: "value", Type: "object"}},
				Return: "object",
				Text:   "appends k to the verification trace and returns value",
			}, &slip.UserPkg)
	})
}

func takeTrace(lo, hi int64) []int64 {
	trMu.Lock()
	defer trMu.Unlock()
	var out []int64
	for _, k := range trBuf {
		if lo <= k && k < hi { // an abandoned (timed out) evaluation may still write ids of its own range
			out = append(out, k)
		}
	}
	trBuf = trBuf[:0]
	return out
}

// the observed object as a Gallina val
func toVal(o slip.Object, depth int) string {
	if depth > 40 {
		return "(VRaw " + common.GStr("too deep") + ")"
	}
	switch t := o.(type) {
	case nil:
		return "VNil"
	case slip.Fixnum:
		if t < 0 {
			return fmt.Sprintf("(VInt (%d))", int64(t))
		}
		return fmt.Sprintf("(VInt %d)", int64(t))
	case slip.Symbol:
		s := strings.ToLower(string(t))
		switch {
		case s == "t":
			return "VT"
		case s == "nil":
			return "VNil"
		case strings.HasPrefix(s, ":"):
			return "(VRaw " + gstr(s) + ")"
		}
		return "(VSym " + gstr(s) + ")"
	case slip.String:
		return "(VStr " + gstr(string(t)) + ")"
	case slip.Values:
		items := make([]string, len(t))
		for i, e := range t {
			items[i] = toVal(e, depth+1)
		}
		return "(VValues " + common.GList(items) + ")"
	case slip.List:
		if len(t) == 0 {
			return "VNil"
		}
		var items []string
		for i, e := range t {
			if tl, ok := e.(slip.Tail); ok && i == len(t)-1 {
				return "(VDot " + common.GList(items) + " " + toVal(tl.Value, depth+1) + ")"
			}
			items = append(items, toVal(e, depth+1))
		}
		return "(VList " + common.GList(items) + ")"
	case *slip.Lambda:
		return "(VClo [] [] [] [])"
	case *slip.FuncInfo:
		return "(VFn " + gstr(strings.ToLower(t.Name)) + ")"
	}
	if o == slip.True {
		return "VT"
	}
	if _, ok := o.(slip.Funky); ok {
		// a list that should have stayed data was turned into a function object
		return "(VRaw " + gstr("#<compiled "+slip.ObjectString(o)+">") + ")"
	}
	return "(VRaw " + gstr(slip.ObjectString(o)) + ")"
}

func gstr(s string) string {
	var b strings.Builder
	for _, r := range s {
		if r >= 32 && r < 127 {
			b.WriteRune(r)
		} else {
			b.WriteByte('?')
		}
	}
	return common.GStr(b.String())
}

func errTerm(o common.Outcome) string {
	switch {
	case o.Err == "timeout":
		return "EFuel"
	case common.Fault(o.Msg) || o.Err == "go-panic":
		return "EFault"
	case o.Err == "unbound-variable":
		return "EUnbound"
	case o.Err == "undefined-function":
		return "EUndefFun"
	case o.Err == "type-error":
		return "EType"
	case strings.Contains(o.Msg, "Too many arguments"), strings.Contains(o.Msg, "Too few arguments"):
		return "EArity"
	}
	return "EMalformed"
}

type caseDesc struct {
	Program  string  `json:"program"`
	Observed string  `json:"observed"`
	Trace    []int64 `json:"trace"`
}

const maxEvals = 200000 // Function.Eval calls per program; generated programs stay far below (see meta extra)

// evaluates the top-level forms one after the other in a fresh top-level scope
func evalProgram(src string, lo, hi int64) (common.Outcome, []int64, int) {
	takeTrace(0, 0)
	scope := slip.NewScope()
	// Function.Eval calls the hook: an evaluation that runs away (or is abandoned after the deadline) stops itself
	// before the Go stack is exhausted
	deadline := time.Now().Add(4 * time.Second)
	evals := 0
	scope.InterruptCheck = func() {
		evals++
		if evals > maxEvals || (evals&1023 == 0 && time.Now().After(deadline)) {
			panic("verif: deadline")
		}
	}
	o := common.EvalTimeout(scope, src, 6*time.Second)
	if o.Err == "go-panic" && strings.Contains(o.Msg, "verif: deadline") {
		o = common.Outcome{Err: "timeout"}
	}
	return o, takeTrace(lo, hi), evals
}

// ---- worker process: the interpreter runs in a child, so that a crash of the host (stack exhaustion in a scope
// cycle, a fatal runtime error) is attributed to the program that caused it instead of ending the run

type request struct {
	Src string `json:"src"`
	Lo  int64  `json:"lo"`
	Hi  int64  `json:"hi"`
}
type reply struct {
	Obs     string  `json:"obs"`   // Gallina term of the observation
	Shown   string  `json:"shown"` // human readable
	Kind    string  `json:"kind"`  // value | multiple-values | error | timeout
	Trace   []int64 `json:"trace"`
	Evals   int     `json:"evals"`
	Crashed bool    `json:"crashed,omitempty"`
}

const replyMark = "\x01C01 "

func observe(q request) reply {
	o, trace, evals := evalProgram(q.Src, q.Lo, q.Hi)
	r := reply{Trace: trace, Evals: evals}
	switch {
	case o.Err == "timeout":
		r.Kind = "timeout"
	case o.Err != "":
		r.Obs, r.Shown, r.Kind = "OErr "+errTerm(o), "!"+o.Err+": "+o.Msg, "error"
	default:
		if mv, ok := o.Value.(slip.Values); ok {
			items := make([]string, len(mv))
			for i, e := range mv {
				items[i] = toVal(e, 0)
			}
			r.Obs, r.Kind = "OVal "+common.GList(items), "multiple-values"
		} else {
			r.Obs, r.Kind = "OVal ["+toVal(o.Value, 0)+"]", "value"
		}
		r.Shown = o.Printed
	}
	return r
}

// Worker serves requests on stdin until it is closed.
func Worker(ctx *common.Ctx) {
	defineTr()
	rd := bufio.NewReaderSize(os.Stdin, 1<<20)
	for {
		line, err := rd.ReadBytes('\n')
		if err != nil {
			os.Exit(0)
		}
		var q request
		if err = json.Unmarshal(line, &q); err != nil {
			os.Exit(3)
		}
		data, _ := json.Marshal(observe(q))
		fmt.Printf("%s%s\n", replyMark, data)
	}
}

type worker struct {
	cmd   *exec.Cmd
	in    io.WriteCloser
	lines chan string
}

func startWorker(outDir string) *worker {
	self, err := os.Executable()
	if err != nil {
		panic(err)
	}
	cmd := exec.Command(self, "C01W", "--out", filepath.Join(outDir, "worker"))
	cmd.Stderr = io.Discard
	in, err := cmd.StdinPipe()
	if err != nil {
		panic(err)
	}
	out, err := cmd.StdoutPipe()
	if err != nil {
		panic(err)
	}
	if err = cmd.Start(); err != nil {
		panic(err)
	}
	w := &worker{cmd: cmd, in: in, lines: make(chan string, 4)}
	go func() {
		rd := bufio.NewReaderSize(out, 1<<20)
		for {
			line, err := rd.ReadString('\n')
			if strings.HasPrefix(line, replyMark) {
				w.lines <- strings.TrimPrefix(line, replyMark)
			}
			if err != nil {
				close(w.lines)
				return
			}
		}
	}()
	return w
}

func (w *worker) stop() {
	_ = w.in.Close()
	_ = w.cmd.Process.Kill()
	_ = w.cmd.Wait()
}

// eval returns the reply, or Crashed when the child died or did not answer
func (w *worker) eval(q request) reply {
	data, _ := json.Marshal(q)
	if _, err := w.in.Write(append(data, '\n')); err != nil {
		return reply{Crashed: true}
	}
	select {
	case line, ok := <-w.lines:
		if !ok {
			return reply{Crashed: true}
		}
		var r reply
		if err := json.Unmarshal([]byte(line), &r); err != nil {
			return reply{Crashed: true}
		}
		return r
	case <-time.After(20 * time.Second):
		return reply{Crashed: true}
	}
}

func Run(ctx *common.Ctx) {
	defineTr()
	ncases := 2400
	if ctx.Thorough() {
		ncases = 40000
	}
	var terms []string
	var descs []any
	distinct := map[string]bool{}
	var kbase int64
	maxSeen := 0
	w := startWorker(ctx.OutDir)
	defer func() { w.stop() }()
	// one program: evaluated by the interpreter (worker), written as a case; false = not recorded
	emit := func(forms []node, kbase int64) bool {
		src := joinLines(forms)
		if len(src) > 1500 {
			ctx.Hist("discard:long-program")
			return false
		}
		r := w.eval(request{Src: src, Lo: kbase, Hi: kbase + 1000})
		if r.Crashed {
			ctx.Violate("the interpreter brought down (or blocked) the host process", src, "worker process died", nil)
			w.stop()
			w = startWorker(ctx.OutDir)
			return false
		}
		if r.Kind == "timeout" {
			// generated programs always terminate: a hang is a failure of the interpreter
			ctx.Violate("evaluation does not terminate", src, "timeout", nil)
			return false
		}
		trace := r.Trace
		if len(trace) > 400 {
			ctx.Hist("discard:long-trace")
			return false
		}
		if r.Evals > maxSeen {
			maxSeen = r.Evals
		}
		obs, shown := r.Obs, r.Shown
		ctx.Hist("outcome:" + r.Kind)
		tz := make([]string, len(trace))
		for i, k := range trace {
			tz[i] = fmt.Sprint(k)
		}
		term := fmt.Sprintf("(%s,\n    (%s, [%s]%%Z))", listG(forms), obs, strings.Join(tz, ";"))
		terms = append(terms, term)
		d := caseDesc{Program: src, Observed: shown, Trace: trace}
		descs = append(descs, d)
		ctx.Meta.Evaluations++
		if len(trace) > 0 {
			distinct[src] = true
		}
		ctx.Hist(fmt.Sprintf("trace-length:%d", bucket(len(trace))))
		if len(terms)%97 == 5 {
			ctx.Sample(d)
		}
		return true
	}
	// the enumerated block: every single-value position x every producer of zero / one / two values (the same
	// programs on every run; trace ids 0..999)
	block, blockNames := singleValueBlock()
	for i, forms := range block {
		if emit(forms, 0) {
			ctx.Hist("single-value-position:" + strings.SplitN(blockNames[i], " <- ", 2)[0])
		}
	}
	// the enumerated block: key lists of case containing t / otherwise / nil as ordinary keys x clause arrangements x key values
	cblock, cnames := caseBlock()
	for i, forms := range cblock {
		if emit(forms, 0) {
			ctx.Hist("case-clause:" + cnames[i])
		}
	}
	// the enumerated block: a closure made by the init form of a binding of V over the name V, for every binder
	oblock, onames := ownNameBlock()
	for i, forms := range oblock {
		if emit(forms, 0) {
			ctx.Hist("own-name-closure:" + strings.SplitN(onames[i], " <- ", 2)[0])
		}
	}
	// the enumerated block: a lambda expression called where it stands, in code that is evaluated repeatedly
	lblock, lnames := lambdaFormBlock()
	for i, forms := range lblock {
		if emit(forms, 0) {
			ctx.Hist("inline-lambda-call:" + lnames[i])
		}
	}
	nblock := len(terms)
	for n := 0; len(terms) < nblock+ncases && n < 3*ncases && len(ctx.Meta.Direct) < 60; n++ {
		kbase += 1000
		g := &gen{r: ctx.Rng, k: kbase, prefix: fmt.Sprintf("c%d", n), hist: ctx.Hist, errs: ctx.Rng.Chance(10)}
		emit(g.program(), kbase)
	}
	ctx.Meta.DistinctNontrivial = len(distinct)
	ctx.Meta.Extra = map[string]any{"max_function_evals_in_one_program": maxSeen, "function_eval_limit": maxEvals}
	ctx.Meta.Rule = "an enumerated block (every single-value position of the modelled language x eleven producers of zero, one and two values, 429 programs, the same on every run), an enumerated block of case forms (eleven key lists over {1, 2, foo, t, otherwise, nil} - t, otherwise and nil inside a key list are ordinary keys - x five clause arrangements x eight key values = 440 programs), an enumerated block of closures made by the init form of a binding of V over the NAME V (thirteen binders - let*, let, do, do*, &optional default, lambda argument, multiple-value-bind in several positions - x a reading / an assigning closure x the closure is the value / is stored / is called by the init form, plus dolist and dotimes list / count forms = 86 programs; the closure must refer to the enclosing V), an enumerated block of lambda expressions called where they stand in code that is evaluated repeatedly (four spellings - the lambda form ((lambda ..) a), funcall of (lambda ..), #'(lambda ..), (function (lambda ..)) - x four bodies - reads / assigns the captured variable, returns a closure, &optional default - x eight re-evaluation contexts - let in dotimes / dolist / do, defun called three times, recursion, closure called twice, mapcar - = 128 programs; every evaluation must close over the binding of THAT evaluation) followed by typed random programs (an inline funcall of a lambda expression is spelled as a lambda form, with #' or with function one time in two) (nesting depth <= 6, 30-80 nodes; up to 2 preceding defuns, some recursive on a counter, some closed over let variables, some with function parameters; function-valued expressions returned through every control form; lambdas and defuns inside scopes without bindings; idioms: closure made in a random creation context and called under a rebinding of its variable, closures over one binding, closures made in loop bodies, closures over the own name of a binding made by its init form, do without variables) over constants, variables, quote of arbitrary data, progn, prog1, if, when, unless, cond, case, and, or, let, let*, setq, lambda, funcall, apply, mapcar, function designators, dolist, dotimes, do, do*, values, multiple-value-bind and integer/list built-ins, with (tr k e) probes in every evaluated position and reuse of variable names (shadowing); observable = value(s) or condition class + trace; distinct = distinct programs whose trace is not empty"
	header := "From C01 Require Import Model Corr.\nOpen Scope string_scope.\n"
	footer := "Definition res := Eval vm_compute in check_all cases.\nPrint res.\n" +
		"Definition guarded := Eval vm_compute in guard_count cases.\nPrint guarded.\n" +
		"Definition deviating := Eval vm_compute in deviating_count cases.\nPrint deviating.\n" +
		"Definition undecided_by_model := Eval vm_compute in undecided_count cases.\nPrint undecided_by_model.\n"
	ctx.WriteShards("cases", header, "case", footer, terms, descs, 16)
	ctx.ReplayKnownLisp()
}

func bucket(n int) int {
	switch {
	case n == 0:
		return 0
	case n <= 3:
		return 3
	case n <= 10:
		return 10
	case n <= 30:
		return 30
	}
	return 400
}

func joinLines(forms []node) string {
	ss := make([]string, len(forms))
	for i, f := range forms {
		ss[i] = f.L
	}
	return strings.Join(ss, "\n")
}
