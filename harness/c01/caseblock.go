package c01

import (
	"fmt"
	"strings"
)

// The enumerated block "case clauses": every key LIST over the alphabet {1, 2, foo, t, otherwise, nil} that the block
// lists (t, otherwise and nil INSIDE a key list are ordinary keys: they match only the objects t, otherwise, nil),
// in every clause arrangement (the only clause; followed by another clause; followed by a default clause written t
// or otherwise; after a clause that does not match), for every key value of {1, 2, 5, foo, bar, t, otherwise, nil}.
// Every clause body is a trace probe, so the trace tells which clause ran. The same programs on every run.
func caseBlock() (progs [][]node, names []string) {
	type key struct{ l, g string }
	k1, k2 := key{"1", "DInt 1"}, key{"2", "DInt 2"}
	kfoo, kt, ko, kn := key{"foo", "DSym \"foo\""}, key{"t", "DT"}, key{"otherwise", "DSym \"otherwise\""}, key{"nil", "DNil"}
	lists := [][]key{{kt}, {ko}, {kn}, {k1, kt}, {kt, k1}, {k1, ko}, {ko, kfoo}, {k1, kn}, {kfoo, kt, ko}, {k1, k2}, {kfoo}}
	vals := []struct{ l, g string }{
		{"1", "EConst (DInt 1)"}, {"2", "EConst (DInt 2)"}, {"5", "EConst (DInt 5)"},
		{"'foo", "EQuote (DSym \"foo\")"}, {"'bar", "EQuote (DSym \"bar\")"}, {"t", "EConst DT"},
		{"'otherwise", "EQuote (DSym \"otherwise\")"}, {"nil", "EConst DNil"},
	}
	body := func(k int) (string, string) {
		return fmt.Sprintf("(tr %d %d)", k, k), fmt.Sprintf("[ETr %d (EConst (DInt %d))]", k, k)
	}
	for _, ks := range lists {
		var ls, gs []string
		for _, k := range ks {
			ls, gs = append(ls, k.l), append(gs, k.g)
		}
		kl, kg := "("+strings.Join(ls, " ")+")", "["+strings.Join(gs, "; ")+"]"
		b1l, b1g := body(1)
		b2l, b2g := body(2)
		b3l, b3g := body(3)
		// clause arrangements: Lisp clauses, Gallina clause list, Gallina default
		arr := []struct{ name, l, cls, dflt string }{
			{"only", fmt.Sprintf("(%s %s)", kl, b1l), fmt.Sprintf("[(%s, %s)]", kg, b1g), "None"},
			{"then-clause", fmt.Sprintf("(%s %s) (7 %s)", kl, b1l, b2l), fmt.Sprintf("[(%s, %s); ([DInt 7], %s)]", kg, b1g, b2g), "None"},
			{"then-default-t", fmt.Sprintf("(%s %s) (t %s)", kl, b1l, b3l), fmt.Sprintf("[(%s, %s)]", kg, b1g), "(Some " + b3g + ")"},
			{"then-default-otherwise", fmt.Sprintf("(%s %s) (otherwise %s)", kl, b1l, b3l), fmt.Sprintf("[(%s, %s)]", kg, b1g), "(Some " + b3g + ")"},
			{"after-clause", fmt.Sprintf("((7 8) %s) (%s %s) (t %s)", b2l, kl, b1l, b3l), fmt.Sprintf("[([DInt 7; DInt 8], %s); (%s, %s)]", b2g, kg, b1g), "(Some " + b3g + ")"},
		}
		for _, a := range arr {
			for _, v := range vals {
				l := fmt.Sprintf("(list (case %s %s) 9)", v.l, a.l)
				g := fmt.Sprintf("(EPrim PList [ECase (%s) %s %s; EConst (DInt 9)])", v.g, a.cls, a.dflt)
				progs = append(progs, []node{{l, g}})
				names = append(names, a.name)
			}
		}
	}
	return
}
