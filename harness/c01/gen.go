package c01

import (
	"fmt"
	"strings"

	"verifharness/common"
)

// The typed program generator. Every production builds the Lisp text and the Gallina term of the same
// form side by side; the types (integer, list of integers, anything, function of k integers) only serve
// to keep the programs free of type errors, so that what is compared is order, binding and control.

type typ int

const (
	tInt typ = iota
	tList
	tAny
	tFun
)

// a function of k integers returning an integer is the type tFun+k
func funT(k int) typ      { return tFun + typ(k) }
func isFun(t typ) bool    { return t >= tFun }
func arityOf(t typ) int   { return int(t - tFun) }
func nilableT(t typ) bool { return t == tList || t == tAny }

type node struct{ L, G string }

type vinfo struct {
	name  string
	t     typ
	arity int  // tFun
	ro    bool // loop counters and recursion arguments are never assigned
	ctr   bool // the recursion counter of the function being defined
}

type finfo struct {
	name   string
	arity  int
	rec    bool  // first argument is a small recursion counter
	ptypes []typ // parameter types (tInt or a function type); nil = all integers
}

func (f finfo) hasFunParam() bool {
	for _, t := range f.ptypes {
		if isFun(t) {
			return true
		}
	}
	return false
}
func (f finfo) ptype(i int) typ {
	if i < len(f.ptypes) {
		return f.ptypes[i]
	}
	return tInt
}

type gen struct {
	r      *common.Rng
	env    []vinfo
	funs   []finfo
	k      int64 // next trace id
	budget int   // remaining nodes
	loops  int   // current loop nesting
	prefix string
	nfun   int
	hist   func(string)
	self   *finfo // function being defined (recursive call allowed under a conditional)
	selfN  string // its counter parameter
	inCond bool
	errs   bool // may inject a type error
}

var namePool = []string{"a", "b", "c", "d", "x", "y", "z", "u", "v", "w"}

const maxLoops = 2 // lexical nesting of loops

func q(s string) string { return common.GStr(s) }
func gl(items ...string) string { return common.GList(items) }
func gInt(z int64) string {
	if z < 0 {
		return fmt.Sprintf("(EConst (DInt (%d)))", z)
	}
	return fmt.Sprintf("(EConst (DInt %d))", z)
}
func lisp(parts ...string) string { return "(" + strings.Join(parts, " ") + ")" }
func joinL(ns []node) string {
	ss := make([]string, len(ns))
	for i, n := range ns {
		ss[i] = n.L
	}
	return strings.Join(ss, " ")
}
func listG(ns []node) string {
	ss := make([]string, len(ns))
	for i, n := range ns {
		ss[i] = n.G
	}
	return common.GList(ss)
}
func strsG(ss []string) string { return common.GStrs(ss) }

func (g *gen) h(k string) { g.hist("form:" + k) }

// a count in 0..base-1, now and then larger (up to base+2)
func (g *gen) cnt(base int) int {
	if g.r.Chance(10) {
		return base + g.r.Intn(3)
	}
	return g.r.Intn(base)
}
func (g *gen) arity() int { return g.cnt(3) }
func (g *gen) smallInt() int64 {
	switch x := g.r.Intn(20); {
	case x == 0:
		return -1
	case x == 1:
		return int64(-2 - g.r.Intn(8))
	case x == 2:
		return int64(10 + g.r.Intn(990))
	}
	return int64(g.r.Intn(10))
}
func numL(z int64) string { return fmt.Sprint(z) }

// visible variables (innermost binding of each name) of a type
func (g *gen) vars(t typ, arity int, writable bool) []vinfo {
	seen := map[string]bool{}
	var out []vinfo
	for i := len(g.env) - 1; i >= 0; i-- {
		v := g.env[i]
		if seen[v.name] {
			continue
		}
		seen[v.name] = true
		if v.t != t || (t == tFun && v.arity != arity) || (writable && v.ro) {
			continue
		}
		out = append(out, v)
	}
	return out
}

// visible variables of an encoded type
func (g *gen) varsT(t typ, writable bool) []vinfo {
	if isFun(t) {
		return g.vars(tFun, arityOf(t), writable)
	}
	return g.vars(t, 0, writable)
}

// every visible variable (innermost binding of each name), whatever its type
func (g *gen) anyVars() []vinfo {
	seen := map[string]bool{}
	var out []vinfo
	for i := len(g.env) - 1; i >= 0; i-- {
		v := g.env[i]
		if !seen[v.name] {
			seen[v.name] = true
			out = append(out, v)
		}
	}
	return out
}

func (g *gen) freshNames(n int) []string {
	var out []string
	used := map[string]bool{}
	for len(out) < n {
		s := common.Pick(g.r, namePool)
		if len(g.env) > 0 && g.r.Chance(45) { // shadow a visible name
			s = g.env[g.r.Intn(len(g.env))].name
		}
		if used[s] {
			continue
		}
		used[s] = true
		out = append(out, s)
	}
	return out
}

func (g *gen) push(vs ...vinfo) int { n := len(g.env); g.env = append(g.env, vs...); return n }
func (g *gen) pop(n int)            { g.env = g.env[:n] }

func (g *gen) tr(e node) node {
	g.k++
	g.h("tr")
	return node{lisp("tr", fmt.Sprint(g.k), e.L), fmt.Sprintf("(ETr %d %s)", g.k, e.G)}
}

// ---- leaves ---------------------------------------------------------------------------------

func (g *gen) leaf(t typ) node {
	switch t {
	case tInt:
		if vs := g.vars(tInt, 0, false); len(vs) > 0 && g.r.Chance(60) {
			v := common.Pick(g.r, vs)
			return node{v.name, "(EVar " + q(v.name) + ")"}
		}
		z := g.smallInt()
		return node{fmt.Sprint(z), gInt(z)}
	case tList:
		if vs := g.vars(tList, 0, false); len(vs) > 0 && g.r.Chance(60) {
			v := common.Pick(g.r, vs)
			return node{v.name, "(EVar " + q(v.name) + ")"}
		}
		n := g.cnt(4)
		if n == 0 {
			if g.r.Bool() {
				return node{"nil", "(EConst DNil)"}
			}
			return node{"'()", "(EQuote DNil)"}
		}
		var ls, gs []string
		for i := 0; i < n; i++ {
			z := g.r.Intn(10)
			ls = append(ls, fmt.Sprint(z))
			gs = append(gs, fmt.Sprintf("DInt %d", z))
		}
		return node{"'(" + strings.Join(ls, " ") + ")", "(EQuote (DList " + common.GList(gs) + "))"}
	default:
		if vs := g.anyVars(); len(vs) > 0 && g.r.Chance(35) {
			v := common.Pick(g.r, vs)
			return node{v.name, "(EVar " + q(v.name) + ")"}
		}
		switch g.r.Intn(7) {
		case 0:
			return node{"nil", "(EConst DNil)"}
		case 1:
			return node{"t", "(EConst DT)"}
		case 6:
			if g.r.Bool() {
				return node{"\"str\"", "(EConst (DStr " + q("str") + "))"}
			}
			// a keyword: evaluates to itself in every position, also as a body form of a lambda or defun (since
			// repo_fixes/C01-11); fresh names so that no earlier program of the process has met the keyword
			kw := ":kw"
			if g.r.Bool() {
				kw = fmt.Sprintf(":%sk%d", g.prefix, g.r.Intn(3))
			}
			return node{kw, "(EConst (DRaw " + q(kw) + "))"}
		case 2:
			return g.quoteDatum()
		case 3:
			return g.leaf(tList)
		default:
			return g.leaf(tInt)
		}
	}
}

// a quoted datum of any kind: the value must be exactly the datum
func (g *gen) datum(d int) (string, string) {
	atoms := [][2]string{
		{"7", "DInt 7"}, {"-3", "DInt (-3)"}, {"foo", "DSym " + q("foo")}, {"bar", "DSym " + q("bar")},
		{"\"s t\"", "DStr " + q("s t")}, {"nil", "DNil"}, {"t", "DT"}, {":key", "DRaw " + q(":key")},
		{"#\\a", "DRaw " + q("#\\a")}, {"2.5", "DRaw " + q("2.5")}, {"2/3", "DRaw " + q("2/3")},
		{"if", "DSym " + q("if")}, {"lambda", "DSym " + q("lambda")}, {"quote", "DSym " + q("quote")},
		{"setq", "DSym " + q("setq")}, {"tr", "DSym " + q("tr")}, {"x", "DSym " + q("x")},
	}
	if d <= 0 || g.r.Chance(45) {
		a := common.Pick(g.r, atoms)
		return a[0], a[1]
	}
	if g.r.Chance(20) { // data that is a complete form
		forms := [][2]string{
			{"(quote x)", "DList [DSym " + q("quote") + "; DSym " + q("x") + "]"},
			{"(lambda (x) x)", "DList [DSym " + q("lambda") + "; DList [DSym " + q("x") + "]; DSym " + q("x") + "]"},
			{"(if a 1 2)", "DList [DSym " + q("if") + "; DSym " + q("a") + "; DInt 1; DInt 2]"},
			{"(tr 9 9)", "DList [DSym " + q("tr") + "; DInt 9; DInt 9]"},
			{"(setq x 1)", "DList [DSym " + q("setq") + "; DSym " + q("x") + "; DInt 1]"},
			{"(function car)", "DList [DSym " + q("function") + "; DSym " + q("car") + "]"},
		}
		f := common.Pick(g.r, forms)
		return f[0], f[1]
	}
	n := 1 + g.r.Intn(3)
	var ls, gs []string
	if g.r.Chance(40) { // looks like code: must stay data
		heads := [][2]string{{"if", "DSym " + q("if")}, {"lambda", "DSym " + q("lambda")}, {"tr", "DSym " + q("tr")},
			{"setq", "DSym " + q("setq")}, {"quote", "DSym " + q("quote")}, {"let", "DSym " + q("let")}, {"+", "DSym " + q("+")},
			{"progn", "DSym " + q("progn")}, {"list", "DSym " + q("list")}}
		hd := common.Pick(g.r, heads)
		ls, gs = append(ls, hd[0]), append(gs, hd[1])
	}
	for i := 0; i < n; i++ {
		l, gg := g.datum(d - 1)
		ls, gs = append(ls, l), append(gs, gg)
	}
	if g.r.Chance(12) {
		tails := [][2]string{{"9", "DInt 9"}, {"end", "DSym " + q("end")}}
		tl := common.Pick(g.r, tails)
		return "(" + strings.Join(ls, " ") + " . " + tl[0] + ")", "DDot " + common.GList(gs) + " (" + tl[1] + ")"
	}
	return "(" + strings.Join(ls, " ") + ")", "DList " + common.GList(gs)
}

func (g *gen) quoteDatum() node {
	g.h("quote")
	l, gg := g.datum(3)
	// ' and (quote d) are the same for every datum (since repo_fixes/C01-8 and C01-9 also before numbers, t, nil,
	// strings and characters)
	if g.r.Bool() {
		return node{"'" + l, "(EQuote (" + gg + "))"}
	}
	return node{"(quote " + l + ")", "(EQuote (" + gg + "))"}
}

// ---- expressions ----------------------------------------------------------------------------

func (g *gen) expr(t typ, d int) node {
	g.budget--
	if d <= 0 || g.budget <= 0 {
		if isFun(t) {
			return g.funBase(arityOf(t), 0)
		}
		return g.leaf(t)
	}
	x := g.r.Intn(100)
	switch {
	case x < 12:
		return g.tr(g.expr(t, d-1))
	case x < 62 && !isFun(t), x < 45:
		if n, ok := g.control(t, d); ok {
			return n
		}
	}
	if isFun(t) {
		return g.funBase(arityOf(t), d)
	}
	return g.typed(t, d)
}

// a test form: now and then it returns several values, the first of which decides (repo_fixes/C01-19)
func (g *gen) test(d int) node {
	c := g.testRaw(d)
	if g.r.Chance(12) {
		g.h("test-values")
		junk := g.expr(typ(g.r.Intn(3)), d-2)
		if g.r.Chance(30) {
			return node{lisp("values", "nil", junk.L), "(EValues [EConst DNil; " + junk.G + "])"}
		}
		return node{lisp("values", c.L, junk.L), "(EValues " + gl(c.G, junk.G) + ")"}
	}
	return c
}

func (g *gen) testRaw(d int) node {
	if g.r.Chance(70) {
		ops := []struct{ l, p string }{{"<", "PLt"}, {">", "PGt"}, {"=", "PNumEq"}}
		o := common.Pick(g.r, ops)
		a, b := g.expr(tInt, d-1), g.expr(tInt, d-1)
		g.h("prim")
		return node{lisp(o.l, a.L, b.L), fmt.Sprintf("(EPrim %s %s)", o.p, gl(a.G, b.G))}
	}
	return g.expr(tAny, d-1)
}

// statements: evaluated for effect
func (g *gen) stmts(max int, d int) []node {
	n := g.r.Intn(max + 1)
	var out []node
	for i := 0; i < n; i++ {
		switch g.r.Intn(5) {
		case 4:
			if c, ok := g.control(tAny, d-1); ok {
				out = append(out, c)
			} else {
				nm, cn := "when", "EWhen"
				if g.r.Bool() {
					nm, cn = "unless", "EUnless"
				}
				g.h(nm)
				c := g.test(d - 1)
				b := g.body(tAny, d-1, 2)
				out = append(out, node{lisp(nm, c.L, joinL(b)), fmt.Sprintf("(%s %s %s)", cn, c.G, listG(b))})
			}
		case 0:
			out = append(out, g.tr(g.expr(tInt, d-2)))
		case 1:
			if s, ok := g.setq(tInt, d-1); ok {
				out = append(out, s)
				continue
			}
			out = append(out, g.tr(g.leaf(tInt)))
		default:
			out = append(out, g.expr(typ(g.r.Intn(3)), d-1))
		}
	}
	return out
}

func (g *gen) body(t typ, d int, maxStmts int) []node {
	b := g.stmts(maxStmts, d)
	return append(b, g.expr(t, d-1))
}

func (g *gen) setq(t typ, d int) (node, bool) {
	vs := g.varsT(t, true)
	if len(vs) == 0 {
		return node{}, false
	}
	g.h("setq")
	v := common.Pick(g.r, vs)
	e := g.expr(t, d-1)
	if g.r.Chance(25) { // several pairs: sequential assignment
		if ws := g.vars(tInt, 0, true); len(ws) > 0 {
			ls := []string{"setq"}
			var gs []string
			for i := 1 + g.r.Intn(2); i > 0; i-- {
				w := common.Pick(g.r, ws)
				e0 := g.expr(tInt, d-1)
				ls, gs = append(ls, w.name, e0.L), append(gs, fmt.Sprintf("(%s, %s)", q(w.name), e0.G))
			}
			ls, gs = append(ls, v.name, e.L), append(gs, fmt.Sprintf("(%s, %s)", q(v.name), e.G))
			return node{lisp(ls...), "(ESetq " + common.GList(gs) + ")"}, true
		}
	}
	return node{lisp("setq", v.name, e.L), fmt.Sprintf("(ESetq [(%s, %s)])", q(v.name), e.G)}, true
}

// bindings of a let-like form: names, types, init forms. seq = each init sees the earlier names.
func (g *gen) bindings(d int, seq bool) (vs []vinfo, inits []node, mark int) {
	n := 1 + g.cnt(3)
	if g.r.Chance(8) {
		n = 0
	}
	names := g.freshNames(n)
	if seq && n > 1 && g.r.Chance(15) { // let* may bind a name twice
		names[n-1] = names[0]
	}
	mark = len(g.env)
	for _, nm := range names {
		var v vinfo
		var in node
		switch x := g.r.Intn(20); {
		case x < 11:
			v, in = vinfo{name: nm, t: tInt}, g.expr(tInt, d-1)
		case x < 14:
			v, in = vinfo{name: nm, t: tList}, g.expr(tList, d-1)
		case x < 16: // no init form: x or (x); L carries the way it is written
			v = vinfo{name: nm, t: tList}
			in = node{"", "(EConst DNil)"}
			if g.r.Bool() {
				in.L = "()"
			}
		default:
			k := g.arity()
			in = g.fun(k, d-1)
			v = vinfo{name: nm, t: tFun, arity: k}
		}
		vs, inits = append(vs, v), append(inits, in)
		if seq {
			g.push(v)
		}
	}
	if !seq {
		g.push(vs...)
	}
	return
}

func bindsL(vs []vinfo, inits []node) string {
	var ss []string
	for i, v := range vs {
		switch inits[i].L {
		case "":
			ss = append(ss, v.name)
		case "()":
			ss = append(ss, lisp(v.name))
		default:
			ss = append(ss, lisp(v.name, inits[i].L))
		}
	}
	return "(" + strings.Join(ss, " ") + ")"
}
func bindsG(vs []vinfo, inits []node) string {
	var ss []string
	for i, v := range vs {
		ss = append(ss, fmt.Sprintf("(%s, %s)", q(v.name), inits[i].G))
	}
	return common.GList(ss)
}

// control forms whose value is the value of an inner expression of type t
func (g *gen) control(t typ, d int) (node, bool) {
	nilable := nilableT(t)
	switch g.r.Intn(35) {
	case 0:
		g.h("progn")
		b := g.body(t, d, 2)
		if g.r.Chance(5) && nilable {
			return node{"(progn)", "(EProgn [])"}, true
		}
		return node{lisp("progn", joinL(b)), "(EProgn " + listG(b) + ")"}, true
	case 1:
		g.h("prog1")
		e := g.expr(t, d-1)
		rest := g.stmts(2, d)
		return node{strings.TrimSpace(lisp("prog1", e.L, joinL(rest))), fmt.Sprintf("(EProg1 %s %s)", e.G, listG(rest))}, true
	case 2, 3:
		g.h("if")
		c, a := g.test(d), g.expr(t, d-1)
		if nilable && g.r.Chance(25) {
			return node{lisp("if", c.L, a.L), fmt.Sprintf("(EIf %s %s None)", c.G, a.G)}, true
		}
		b := g.expr(t, d-1)
		return node{lisp("if", c.L, a.L, b.L), fmt.Sprintf("(EIf %s %s (Some %s))", c.G, a.G, b.G)}, true
	case 4:
		if !nilable {
			return node{}, false
		}
		nm, cn := "when", "EWhen"
		if g.r.Bool() {
			nm, cn = "unless", "EUnless"
		}
		g.h(nm)
		c := g.test(d)
		var b []node
		if !g.r.Chance(8) {
			b = g.body(t, d, 2)
		}
		return node{strings.TrimSpace(lisp(nm, c.L, joinL(b))), fmt.Sprintf("(%s %s %s)", cn, c.G, listG(b))}, true
	case 5, 6:
		g.h("cond")
		n := 1 + g.cnt(3)
		var ls, gs []string
		for i := 0; i < n; i++ {
			c := g.test(d)
			if t == tAny && g.r.Chance(15) { // clause without forms: the value of the test
				ls, gs = append(ls, lisp(c.L)), append(gs, fmt.Sprintf("(%s, [])", c.G))
				continue
			}
			b := g.body(t, d, 1)
			ls, gs = append(ls, lisp(c.L, joinL(b))), append(gs, fmt.Sprintf("(%s, %s)", c.G, listG(b)))
		}
		if !nilable || g.r.Chance(70) {
			b := g.body(t, d, 1)
			ls, gs = append(ls, lisp("t", joinL(b))), append(gs, fmt.Sprintf("(EConst DT, %s)", listG(b)))
		}
		return node{lisp("cond", strings.Join(ls, " ")), "(ECond " + common.GList(gs) + ")"}, true
	case 7:
		g.h("case")
		syms := g.r.Chance(35) // keys are symbols (never evaluated), the key form yields a symbol
		// t and otherwise INSIDE a key list are ordinary keys (they match the objects t / otherwise only)
		symNames := []string{"foo", "bar", "baz", "qux", "x", "if", "t", "otherwise"}
		var k node
		if syms {
			pick := func() node {
				nm := common.Pick(g.r, symNames)
				if nm == "t" {
					return node{"t", "(EConst DT)"}
				}
				return node{"'" + nm, "(EQuote (DSym " + q(nm) + "))"}
			}
			k = pick()
			if g.r.Chance(40) {
				c, b := g.test(d), pick()
				k = node{lisp("if", c.L, k.L, b.L), fmt.Sprintf("(EIf %s %s (Some %s))", c.G, k.G, b.G)}
			}
			if g.r.Chance(30) {
				k = g.tr(k)
			}
		} else {
			k = g.expr(tInt, d-1)
		}
		n := 1 + g.cnt(3)
		var ls, gs []string
		used := map[int]bool{}
		for i := 0; i < n; i++ {
			nk := 1 + g.cnt(2)
			var ks, kg []string
			for j := 0; j < nk; j++ {
				z := g.r.Intn(6)
				if syms {
					z = g.r.Intn(len(symNames))
				}
				if used[z] {
					continue
				}
				used[z] = true
				if syms && symNames[z] == "t" {
					ks, kg = append(ks, "t"), append(kg, "DT")
				} else if syms {
					ks, kg = append(ks, symNames[z]), append(kg, "DSym "+q(symNames[z]))
				} else {
					ks, kg = append(ks, fmt.Sprint(z)), append(kg, fmt.Sprintf("DInt %d", z))
				}
			}
			if len(ks) == 0 {
				continue
			}
			b := g.body(t, d, 1)
			key := "(" + strings.Join(ks, " ") + ")"
			if len(ks) == 1 && ks[0] != "t" && ks[0] != "otherwise" && g.r.Bool() {
				key = ks[0]
			}
			ls, gs = append(ls, lisp(key, joinL(b))), append(gs, fmt.Sprintf("(%s, %s)", common.GList(kg), listG(b)))
		}
		dflt := "None"
		if !nilable || g.r.Chance(70) {
			b := g.body(t, d, 1)
			ow := "otherwise"
			if g.r.Bool() {
				ow = "t"
			}
			ls = append(ls, lisp(ow, joinL(b)))
			dflt = "(Some " + listG(b) + ")"
		}
		return node{lisp("case", k.L, strings.Join(ls, " ")), fmt.Sprintf("(ECase %s %s %s)", k.G, common.GList(gs), dflt)}, true
	case 8:
		g.h("and-or")
		if nilable && g.r.Bool() {
			var es []node
			for i := g.cnt(3); i > 0; i-- {
				es = append(es, g.test(d))
			}
			es = append(es, g.expr(t, d-1))
			if t == tAny && g.r.Chance(10) { // (and) is t: not a list
				return node{"(and)", "(EAnd [])"}, true
			}
			return node{lisp("and", joinL(es)), "(EAnd " + listG(es) + ")"}, true
		}
		if nilable && g.r.Chance(10) {
			return node{"(or)", "(EOr [])"}, true
		}
		var es []node
		for i := g.cnt(3); i > 0; i-- {
			if t == tAny && g.r.Bool() {
				es = append(es, g.test(d))
			} else {
				es = append(es, g.expr(t, d-1))
			}
		}
		if len(es) > 0 && g.r.Chance(40) {
			// a form before the last that returns several values: or looks at, and returns, the first one only
			i := g.r.Intn(len(es))
			if g.r.Bool() {
				junk := g.expr(tInt, d-2)
				es[i] = node{lisp("values", "nil", junk.L), "(EValues [EConst DNil; " + junk.G + "])"}
			} else {
				es[i] = g.values(t, d-1, true)
			}
		}
		es = append(es, g.expr(t, d-1))
		return node{lisp("or", joinL(es)), "(EOr " + listG(es) + ")"}, true
	case 9, 10, 11:
		seq := g.r.Chance(45)
		nm, cn := "let", "ELet"
		if seq {
			nm, cn = "let*", "ELetStar"
		}
		g.h(nm)
		vs, inits, mark := g.bindings(d, seq)
		b := g.body(t, d, 2)
		for i := len(vs) - 1; i >= 0; i-- {
			if (inits[i].L == "" || inits[i].L == "()") && g.r.Chance(70) {
				shadowed := false
				for j := i + 1; j < len(vs); j++ {
					shadowed = shadowed || vs[j].name == vs[i].name
				}
				if !shadowed {
					b = append([]node{g.observeNil(vs[i].name)}, b...)
				}
			}
		}
		g.pop(mark)
		return node{lisp(nm, bindsL(vs, inits), joinL(b)), fmt.Sprintf("(%s %s %s)", cn, bindsG(vs, inits), listG(b))}, true
	case 12:
		if t == tAny {
			return node{}, false
		}
		return g.setq(t, d)
	case 13:
		g.h("mvb")
		n := g.cnt(4)
		names := g.freshNames(n)
		var ve node
		if g.r.Chance(12) {
			// (or (values e junk) e2): or passes on the first value only of a form that is not its last
			a, b := g.values(tInt, d-1, true), g.expr(tInt, d-1)
			if g.r.Bool() {
				junk := g.expr(tInt, d-2)
				a = node{lisp("values", "nil", junk.L), "(EValues [EConst DNil; " + junk.G + "])"}
			}
			g.h("or-values")
			ve = node{lisp("or", a.L, b.L), "(EOr " + gl(a.G, b.G) + ")"}
		} else if ws := g.vars(tInt, 0, true); len(ws) > 0 && g.r.Chance(10) {
			// (setq x (values e junk)): setq returns the one value it stored
			g.h("setq-values")
			w, a := common.Pick(g.r, ws), g.values(tInt, d-1, true)
			ve = node{lisp("setq", w.name, a.L), fmt.Sprintf("(ESetq [(%s, %s)])", q(w.name), a.G)}
		} else if g.r.Chance(10) {
			// (cond ((values e junk))): a clause without forms returns the first value of its test
			g.h("cond-values")
			a := g.values(tInt, d-1, true)
			ve = node{lisp("cond", lisp(a.L)), fmt.Sprintf("(ECond [(%s, [])])", a.G)}
		} else if g.r.Chance(65) {
			// the values pass through forms that return what their last form returns (progn, let, let*, a lambda body)
			ve = g.emptyScopes(g.values(tInt, d-1, true))
		} else {
			ve = g.expr(tInt, d-1)
		}
		mark := len(g.env)
		for i, nm := range names {
			if i == 0 {
				g.push(vinfo{name: nm, t: tInt})
			} else {
				g.push(vinfo{name: nm, t: tAny}) // may be nil
			}
		}
		b := g.body(t, d, 2)
		g.pop(mark)
		return node{lisp("multiple-value-bind", "("+strings.Join(names, " ")+")", ve.L, joinL(b)),
			fmt.Sprintf("(EMvb %s %s %s)", strsG(names), ve.G, listG(b))}, true
	case 14:
		if g.r.Chance(50) {
			return node{}, false
		}
		return g.values(t, d, false), true
	case 15:
		return g.dolist(t, d)
	case 16:
		return g.dotimes(t, d)
	case 17, 18:
		return g.doLoop(t, d)
	case 24:
		return g.doWhile(t, d)
	case 25, 26:
		return g.loopCapture(t, d)
	case 27, 28:
		return g.loopFormCapture(t, d)
	case 29, 30:
		return g.optCall(t, d)
	case 31, 32:
		return g.defaultClosure(t, d)
	case 33, 34:
		return g.initOwnCapture(t, d)
	case 21, 22:
		return g.shadowCall(t, d)
	case 23:
		return g.counters(t, d)
	case 19, 20:
		// ((lambda ...)) through funcall: the body's value
		g.h("funcall-lambda")
		ts := g.paramTypes(g.arity(), 0)
		args := g.argsT(ts, d)
		f := g.lambdaT(ts, t, d-1)
		return node{g.inlineCall(f.L, joinL(args)), fmt.Sprintf("(EFuncall %s %s)", f.G, listG(args))}, true
	}
	return node{}, false
}

// (values e junk...) whose primary value has type t
func (g *gen) values(t typ, d int, forced bool) node {
	g.h("values")
	if nilableT(t) && !forced && g.r.Chance(12) {
		return node{"(values)", "(EValues [])"}
	}
	e := g.expr(t, d-1)
	es := []node{e}
	for i := g.cnt(3); i > 0; i-- {
		es = append(es, g.expr(typ(g.r.Intn(3)), d-2))
	}
	return node{lisp("values", joinL(es)), "(EValues " + listG(es) + ")"}
}

func (g *gen) args(k int, d int) []node {
	var out []node
	for i := 0; i < k; i++ {
		out = append(out, g.expr(tInt, d-1))
	}
	return out
}

// parameter types of a function that is applied where it is written or called by name: integers, and now
// and then a function of 0..2 integers (a closure passed down and called under the callee's bindings)
func (g *gen) paramTypes(k int, first int) []typ {
	ts := make([]typ, k)
	for i := range ts {
		ts[i] = tInt
		if i >= first && g.r.Chance(22) {
			ts[i] = funT(g.r.Intn(3))
		}
	}
	return ts
}
func (g *gen) pushParam(name string, t typ, ro, ctr bool) {
	if isFun(t) {
		g.push(vinfo{name: name, t: tFun, arity: arityOf(t)})
	} else {
		g.push(vinfo{name: name, t: t, ro: ro, ctr: ctr})
	}
}
func (g *gen) argsT(ts []typ, d int) []node {
	var out []node
	for _, t := range ts {
		out = append(out, g.expr(t, d-1))
	}
	return out
}

// (lambda (p1..pk) stmts.. e:t) with parameters of the given types
func (g *gen) lambdaT(ts []typ, t typ, d int) node {
	g.h("lambda")
	ps := g.freshNames(len(ts))
	mark := len(g.env)
	for i, p := range ps {
		g.pushParam(p, ts[i], false, false)
	}
	saveSelf := g.self
	g.self = nil
	b := g.body(t, d, 2)
	g.self = saveSelf
	g.pop(mark)
	return node{lisp("lambda", "("+strings.Join(ps, " ")+")", joinL(b)), fmt.Sprintf("(ELambda %s %s)", strsG(ps), listG(b))}
}

// (lambda (p1..pk) stmts.. e:t)
func (g *gen) lambda(k int, t typ, d int) node {
	g.h("lambda")
	ps := g.freshNames(k)
	mark := len(g.env)
	for _, p := range ps {
		g.push(vinfo{name: p, t: tInt})
	}
	saveSelf := g.self
	g.self = nil // a self call inside a lambda is compiled when the lambda is made
	b := g.body(t, d, 2)
	g.self = saveSelf
	g.pop(mark)
	doc := ""
	if g.r.Chance(6) {
		doc = " \"about it\""
	}
	return node{lisp("lambda", "("+strings.Join(ps, " ")+")"+doc, joinL(b)), fmt.Sprintf("(ELambda %s %s)", strsG(ps), listG(b))}
}

// an expression whose value is a function of k integers returning an integer
func (g *gen) fun(k int, d int) node { return g.expr(funT(k), d) }

// a variable holding a function, a function designator or a lambda expression
func (g *gen) funBase(k int, d int) node {
	x := g.r.Intn(100)
	if vs := g.vars(tFun, k, false); len(vs) > 0 && x < 45 {
		v := common.Pick(g.r, vs)
		return node{v.name, "(EVar " + q(v.name) + ")"}
	}
	if x < 65 {
		var cands []finfo
		for _, f := range g.funs {
			if f.arity == k && !f.rec && !f.hasFunParam() {
				cands = append(cands, f)
			}
		}
		if len(cands) > 0 {
			f := common.Pick(g.r, cands)
			g.h("function-designator")
			switch g.r.Intn(3) {
			case 0:
				return node{"'" + f.name, "(EQuote (DSym " + q(f.name) + "))"}
			case 1:
				return node{"#'" + f.name, "(EFun " + q(f.name) + ")"}
			default:
				return node{"(function " + f.name + ")", "(EFun " + q(f.name) + ")"}
			}
		}
	}
	if x < 72 {
		var nm string
		switch k {
		case 1:
			nm = "1+"
		case 2:
			nm = common.Pick(g.r, []string{"+", "-"})
		}
		if nm != "" {
			g.h("function-designator")
			if g.r.Bool() {
				return node{"'" + nm, "(EQuote (DSym " + q(nm) + "))"}
			}
			return node{"#'" + nm, "(EFun " + q(nm) + ")"}
		}
	}
	return g.emptyScopes(g.lambda(k, tInt, d))
}

func optG(n *node) string {
	if n == nil {
		return "None"
	}
	return "(Some " + n.G + ")"
}

// statements whose trace shows the value of a variable
func (g *gen) observeInt(name string) node {
	z := int64(g.r.Intn(12))
	g.k += 2
	return node{fmt.Sprintf("(if (< %s %d) (tr %d 0) (tr %d 1))", name, z, g.k-1, g.k),
		fmt.Sprintf("(EIf (EPrim PLt [EVar %s; %s]) (ETr %d %s) (Some (ETr %d %s)))", q(name), gInt(z), g.k-1, gInt(0), g.k, gInt(1))}
}
func (g *gen) observeNil(name string) node {
	g.k += 2
	return node{fmt.Sprintf("(if %s (tr %d 0) (tr %d 1))", name, g.k-1, g.k),
		fmt.Sprintf("(EIf (EVar %s) (ETr %d %s) (Some (ETr %d %s)))", q(name), g.k-1, gInt(0), g.k, gInt(1))}
}

// (dolist (x list [result]) body...) : the value is the result form's
func (g *gen) dolist(t typ, d int) (node, bool) {
	if g.loops >= maxLoops {
		return node{}, false
	}
	g.h("dolist")
	x := g.freshNames(1)[0]
	l := g.expr(tList, d-1)
	if g.r.Chance(10) { // the list form returns several values: the first is the list
		g.h("dolist-values")
		junk := g.expr(tInt, d-2)
		l = node{lisp("values", l.L, junk.L), "(EValues " + gl(l.G, junk.G) + ")"}
	}
	g.loops++
	mark := g.push(vinfo{name: x, t: tInt, ro: true})
	b := g.stmts(2, d)
	if len(b) == 0 {
		b = append(b, g.tr(node{x, "(EVar " + q(x) + ")"}))
	}
	g.pop(mark)
	g.loops--
	var r *node
	if !nilableT(t) || g.r.Chance(75) {
		mark = g.push(vinfo{name: x, t: tAny, ro: true}) // nil when the result form runs
		e := g.expr(t, d-1)
		g.pop(mark)
		r = &e
	}
	hd := lisp(x, l.L)
	if r != nil {
		hd = lisp(x, l.L, r.L)
	}
	return node{lisp("dolist", hd, joinL(b)), fmt.Sprintf("(EDolist %s %s %s %s)", q(x), l.G, optG(r), listG(b))}, true
}

func (g *gen) dotimes(t typ, d int) (node, bool) {
	if g.loops >= maxLoops {
		return node{}, false
	}
	g.h("dotimes")
	x := g.freshNames(1)[0]
	var n node
	if g.r.Chance(70) {
		z := int64(g.cnt(4))
		if g.r.Chance(10) { // a negative count: no iteration, the variable ends as 0
			z = int64(-1 - g.r.Intn(3))
		}
		n = node{fmt.Sprint(z), gInt(z)}
		if g.r.Chance(25) {
			n = g.tr(n)
		}
		if g.r.Chance(12) { // the count form returns several values: the first is the count
			g.h("dotimes-values")
			junk := g.expr(tInt, d-2)
			n = node{lisp("values", n.L, junk.L), "(EValues " + gl(n.G, junk.G) + ")"}
		}
	} else if vs := g.vars(tList, 0, false); len(vs) > 0 {
		v := common.Pick(g.r, vs)
		n = node{lisp("length", v.name), fmt.Sprintf("(EPrim PLength [EVar %s])", q(v.name))}
	} else {
		n = node{"2", gInt(2)}
	}
	g.loops++
	mark := g.push(vinfo{name: x, t: tInt, ro: true})
	b := g.stmts(2, d)
	if len(b) == 0 {
		b = append(b, g.tr(node{x, "(EVar " + q(x) + ")"}))
	}
	g.loops--
	var r *node
	if !nilableT(t) || g.r.Chance(75) {
		e := g.expr(t, d-1)
		r = &e
	}
	g.pop(mark)
	hd := lisp(x, n.L)
	if r != nil {
		hd = lisp(x, n.L, r.L)
	}
	return node{lisp("dotimes", hd, joinL(b)), fmt.Sprintf("(EDotimes %s %s %s %s)", q(x), n.G, optG(r), listG(b))}, true
}

// (do ((i 0 (1+ i)) (v init [step])...) ((= i K) stmts.. e) body...) and do*
func (g *gen) doLoop(t typ, d int) (node, bool) {
	if g.loops >= maxLoops {
		return node{}, false
	}
	star := g.r.Chance(45)
	nm, sg := "do", "false"
	if star {
		nm, sg = "do*", "true"
	}
	g.h(nm)
	nv := 1 + g.r.Intn(3)
	names := g.freshNames(nv)
	ci := g.r.Intn(nv) // which variable is the counter
	if g.r.Chance(60) {
		ci = 0 // the others are stepped after it
	}
	limit := int64(g.r.Intn(4))
	type bnd struct {
		v    vinfo
		init node
		step *node
	}
	var bs []bnd
	mark := len(g.env)
	// initial values: outer scope for do, sequential for do*
	for i, name := range names {
		var b bnd
		if i == ci {
			b.v = vinfo{name: name, t: tInt, ro: true}
			b.init = node{"0", gInt(0)}
			if g.r.Chance(20) {
				b.init = g.tr(b.init)
			}
		} else if g.r.Chance(10) {
			// just the name: bound to nil, no step
			b.v = vinfo{name: name, t: tList}
			b.init = node{"", "(EConst DNil)"}
		} else if g.r.Chance(75) {
			b.v = vinfo{name: name, t: tInt, ro: false}
			b.init = g.expr(tInt, d-1)
		} else {
			b.v = vinfo{name: name, t: tList, ro: false}
			b.init = g.expr(tList, d-1)
		}
		bs = append(bs, b)
		if star {
			g.push(b.v)
		}
	}
	if !star {
		for _, b := range bs {
			g.push(b.v)
		}
	}
	// step forms, end test, result and body all see every variable
	for i := range bs {
		if i == ci {
			cn := bs[i].v.name
			var s node
			if g.r.Bool() {
				s = node{lisp("1+", cn), fmt.Sprintf("(EPrim PInc [EVar %s])", q(cn))}
			} else {
				s = node{lisp("+", cn, "1"), fmt.Sprintf("(EPrim PAdd [EVar %s; %s])", q(cn), gInt(1))}
			}
			if g.r.Chance(20) {
				s = g.tr(s)
			}
			bs[i].step = &s
		} else if bs[i].init.L != "" && g.r.Chance(65) {
			s := g.expr(bs[i].v.t, d-1)
			if bs[i].v.t == tInt && g.r.Chance(60) {
				// the step reads another variable of the loop: parallel (do) and sequential (do*) stepping differ
				o := bs[g.r.Intn(len(bs))].v
				if i > 0 && g.r.Chance(70) {
					o = bs[g.r.Intn(i)].v // one that is stepped before this one
				}
				if o.t == tInt {
					s = node{lisp("+", o.name, s.L), fmt.Sprintf("(EPrim PAdd [EVar %s; %s])", q(o.name), s.G)}
				}
			}
			bs[i].step = &s
		}
	}
	cn := bs[ci].v.name
	var test node
	switch g.r.Intn(3) {
	case 0:
		test = node{lisp("=", cn, fmt.Sprint(limit)), fmt.Sprintf("(EPrim PNumEq [EVar %s; %s])", q(cn), gInt(limit))}
	case 1:
		test = node{lisp(">", cn, fmt.Sprint(limit-1)), fmt.Sprintf("(EPrim PGt [EVar %s; %s])", q(cn), gInt(limit-1))}
	default:
		test = node{lisp("not", lisp("<", cn, fmt.Sprint(limit))), fmt.Sprintf("(EPrim PNot [EPrim PLt [EVar %s; %s]])", q(cn), gInt(limit))}
	}
	// an end test that is not a list form: t (the result forms run at once), or a variable of the loop that the
	// stepping makes true once the counter has passed the limit
	atomTest := false
	if g.r.Chance(22) {
		sn := cn + "s"
		clash := false
		for _, b := range bs {
			clash = clash || b.v.name == sn
		}
		switch {
		case g.r.Chance(25):
			g.h("do-atom-test:t")
			test, atomTest = node{"t", "(EConst DT)"}, true
		case !clash:
			g.h("do-atom-test:variable")
			st := node{lisp(">", cn, fmt.Sprint(limit-1)), fmt.Sprintf("(EPrim PGt [EVar %s; %s])", q(cn), gInt(limit-1))}
			b := bnd{v: vinfo{name: sn, t: tAny, ro: true}, init: node{"nil", "(EConst DNil)"}, step: &st}
			bs = append(bs, b)
			g.push(b.v)
			test, atomTest = node{sn, "(EVar " + q(sn) + ")"}, true
		}
	}
	if g.r.Chance(25) && !(atomTest && g.r.Chance(70)) {
		test = g.tr(test)
	}
	// a variable stepped after the counter reads the counter: do and do* differ; its value is made visible
	var dep *vinfo
	if g.r.Chance(60) {
		for i := ci + 1; i < len(bs); i++ {
			if bs[i].v.t == tInt && bs[i].init.L != "" {
				nm := bs[i].v.name
				st := node{lisp("+", cn, nm), fmt.Sprintf("(EPrim PAdd [EVar %s; EVar %s])", q(cn), q(nm))}
				bs[i].step = &st
				dep = &bs[i].v
				break
			}
		}
	}
	var rs []node
	if !nilableT(t) || g.r.Chance(80) {
		rs = g.body(t, d, 1)
	}
	if dep != nil && len(rs) > 0 {
		rs = append([]node{g.observeInt(dep.name)}, rs...)
	}
	g.loops++
	body := g.stmts(2, d)
	if dep != nil && (len(rs) == 0 || g.r.Bool()) {
		body = append(body, g.observeInt(dep.name))
	}
	g.loops--
	g.pop(mark)
	var ls, gs []string
	for _, b := range bs {
		switch {
		case b.init.L == "":
			ls = append(ls, b.v.name)
		case b.step != nil:
			ls = append(ls, lisp(b.v.name, b.init.L, b.step.L))
		default:
			ls = append(ls, lisp(b.v.name, b.init.L))
		}
		gs = append(gs, fmt.Sprintf("(%s, %s, %s)", q(b.v.name), b.init.G, optG(b.step)))
	}
	return node{strings.TrimSpace(lisp(nm, "("+strings.Join(ls, " ")+")", strings.TrimSpace(lisp(test.L, joinL(rs))), joinL(body))),
		fmt.Sprintf("(EDo %s %s %s %s %s)", sg, common.GList(gs), test.G, listG(rs), listG(body))}, true
}

// productions specific to a type
func (g *gen) typed(t typ, d int) node {
	switch t {
	case tInt:
		switch x := g.r.Intn(100); {
		case x < 30:
			ops := []struct{ l, p string }{{"+", "PAdd"}, {"-", "PSub"}}
			o := common.Pick(g.r, ops)
			n := 2
			if g.r.Chance(20) {
				n = 3 + g.r.Intn(2)
			}
			as := g.args(n, d)
			g.h("prim")
			return node{lisp(o.l, joinL(as)), fmt.Sprintf("(EPrim %s %s)", o.p, listG(as))}
		case x < 36:
			a := g.expr(tInt, d-1)
			g.h("prim")
			return node{lisp("1+", a.L), fmt.Sprintf("(EPrim PInc [%s])", a.G)}
		case x < 42:
			l := g.expr(tList, d-1)
			g.h("prim")
			return node{lisp("length", l.L), fmt.Sprintf("(EPrim PLength [%s])", l.G)}
		case x < 60:
			k := g.arity()
			f := g.fun(k, d-1)
			as := g.args(k, d)
			if k > 0 && g.r.Chance(35) {
				g.h("apply")
				// (apply f a.. (list b..)) : the last arguments come from a list
				cut := g.r.Intn(k + 1)
				var tail node
				if cut == k {
					tail = node{"nil", "(EConst DNil)"}
				} else {
					tail = node{lisp("list", joinL(as[cut:])), "(EPrim PList " + listG(as[cut:]) + ")"}
				}
				if g.r.Chance(20) {
					tail = g.tr(tail)
				}
				all := append(append([]node{}, as[:cut]...), tail)
				return node{lisp("apply", f.L, joinL(all)), fmt.Sprintf("(EApply %s %s)", f.G, listG(all))}
			}
			if g.errs && strings.HasPrefix(f.L, "(lambda") && g.r.Chance(30) {
				// a wrong number of arguments: every argument is evaluated, then the call is an error
				if k > 0 && g.r.Bool() {
					g.h("too-few-arguments")
					as = as[:k-1]
				} else {
					g.h("too-many-arguments")
					as = append(as, g.expr(tInt, d-1))
				}
			}
			g.h("funcall")
			if strings.HasPrefix(f.L, "(lambda ") {
				return node{g.inlineCall(f.L, joinL(as)), fmt.Sprintf("(EFuncall %s %s)", f.G, listG(as))}
			}
			return node{strings.TrimSpace(lisp("funcall", f.L, joinL(as))), fmt.Sprintf("(EFuncall %s %s)", f.G, listG(as))}
		case x < 85:
			if n, ok := g.call(d); ok {
				return n
			}
		}
		return g.leaf(tInt)
	case tList:
		switch x := g.r.Intn(100); {
		case x < 20:
			n := g.cnt(4)
			as := g.args(n, d)
			g.h("prim")
			return node{strings.TrimSpace(lisp("list", joinL(as))), "(EPrim PList " + listG(as) + ")"}
		case x < 35:
			a, l := g.expr(tInt, d-1), g.expr(tList, d-1)
			g.h("prim")
			return node{lisp("cons", a.L, l.L), fmt.Sprintf("(EPrim PCons [%s; %s])", a.G, l.G)}
		case x < 45:
			l := g.expr(tList, d-1)
			g.h("prim")
			return node{lisp("cdr", l.L), fmt.Sprintf("(EPrim PCdr [%s])", l.G)}
		case x < 75:
			if g.loops >= maxLoops {
				break
			}
			g.h("mapcar")
			k := 1
			if g.r.Chance(35) {
				k = 2 + g.r.Intn(2)
			}
			f := g.fun(k, d-1)
			if g.r.Chance(25) {
				// the function returns several values: mapcar collects the first of each call
				g.h("mapcar-values")
				ps := g.freshNames(k)
				mark := len(g.env)
				for _, p := range ps {
					g.push(vinfo{name: p, t: tInt})
				}
				saveSelf := g.self
				g.self = nil
				b := g.values(tInt, d-1, true)
				g.self = saveSelf
				g.pop(mark)
				f = node{lisp("lambda", "("+strings.Join(ps, " ")+")", b.L), fmt.Sprintf("(ELambda %s [%s])", strsG(ps), b.G)}
			}
			var ls []node
			for i := 0; i < k; i++ {
				ls = append(ls, g.expr(tList, d-1))
			}
			return node{lisp("mapcar", f.L, joinL(ls)), fmt.Sprintf("(EMapcar %s %s)", f.G, listG(ls))}
		}
		return g.leaf(tList)
	default:
		switch x := g.r.Intn(100); {
		case x < 25:
			return g.testRaw(d)
		case x < 33:
			a := g.expr(tAny, d-1)
			g.h("prim")
			return node{lisp("not", a.L), fmt.Sprintf("(EPrim PNot [%s])", a.G)}
		case x < 40:
			l := g.expr(tList, d-1)
			g.h("prim")
			if g.r.Bool() {
				return node{lisp("null", l.L), fmt.Sprintf("(EPrim PNull [%s])", l.G)}
			}
			return node{lisp("car", l.L), fmt.Sprintf("(EPrim PCar [%s])", l.G)}
		case x < 46:
			a, b := g.expr(tInt, d-1), g.expr(tInt, d-1)
			g.h("prim")
			return node{lisp("eql", a.L, b.L), fmt.Sprintf("(EPrim PEql [%s; %s])", a.G, b.G)}
		case x < 52:
			// a closure as a value
			return g.fun(g.arity(), d-1)
		case x < 55:
			if g.errs {
				g.h("type-error")
				a := g.expr(tInt, d-1)
				if g.r.Chance(35) { // a dotted list is not a sequence (repo_fixes/C01-20)
					b := g.expr(tInt, d-1)
					return node{lisp("length", lisp("cons", a.L, b.L)), fmt.Sprintf("(EPrim PLength [EPrim PCons [%s; %s]])", a.G, b.G)}
				}
				return node{lisp("car", a.L), fmt.Sprintf("(EPrim PCar [%s])", a.G)}
			}
		case x < 75:
			return g.expr(tInt, d-1)
		case x < 90:
			return g.expr(tList, d-1)
		}
		return g.leaf(tAny)
	}
}

// the innermost binding of the recursion counter's name is the counter itself
func (g *gen) counterVisible() bool {
	for i := len(g.env) - 1; i >= 0; i-- {
		if g.env[i].name == g.selfN {
			return g.env[i].ctr
		}
	}
	return false
}

// (f args) for a function made by defun
func (g *gen) call(d int) (node, bool) {
	var cands []finfo
	for _, f := range g.funs {
		cands = append(cands, f)
	}
	if g.self != nil && g.inCond && g.counterVisible() {
		cands = append(cands, *g.self, *g.self)
	}
	if len(cands) == 0 {
		return node{}, false
	}
	f := common.Pick(g.r, cands)
	g.h("call")
	var as []node
	for i := 0; i < f.arity; i++ {
		if i == 0 && f.rec {
			if g.self != nil && f.name == g.self.name {
				as = append(as, node{lisp("-", g.selfN, "1"), fmt.Sprintf("(EPrim PSub [EVar %s; %s])", q(g.selfN), gInt(1))})
			} else {
				z := int64(g.r.Intn(4))
				as = append(as, node{fmt.Sprint(z), gInt(z)})
			}
			continue
		}
		as = append(as, g.expr(f.ptype(i), d-1))
	}
	if g.errs && !(g.self != nil && f.name == g.self.name) && g.r.Chance(12) {
		// a wrong number of arguments in a call by name
		if n := len(as); n > 1 && g.r.Bool() {
			g.h("too-few-arguments")
			as = as[:n-1]
		} else {
			g.h("too-many-arguments")
			as = append(as, g.expr(tInt, d-1))
		}
	}
	return node{strings.TrimSpace(lisp(f.name, joinL(as))), fmt.Sprintf("(ECall %s %s)", q(f.name), listG(as))}, true
}

// a top-level definition: (defun f (ps) body), possibly recursive on its first parameter, possibly inside
// a let whose variables it closes over
func (g *gen) defun(d int) node {
	g.nfun++
	name := fmt.Sprintf("%sf%d", g.prefix, g.nfun)
	rec := g.r.Chance(40)
	k := g.arity()
	if rec && k == 0 {
		k = 1
	}
	ps := g.freshNames(k)
	g.h("defun")
	var wrapVs []vinfo
	var wrapIn []node
	wrapMark := -1
	if g.r.Chance(35) {
		wrapVs, wrapIn, wrapMark = g.bindings(d, false)
	}
	mark := len(g.env)
	first := 0
	if rec {
		first = 1
	}
	pts := g.paramTypes(k, first)
	for i, p := range ps {
		g.pushParam(p, pts[i], rec && i == 0, rec && i == 0)
	}
	fi := finfo{name: name, arity: k, rec: rec, ptypes: pts}
	var b []node
	if rec {
		// (if (< n 1) base step) : the recursive call sits under the conditional
		g.self, g.selfN = &fi, ps[0]
		base := g.expr(tInt, d-1)
		g.inCond = true
		var step node
		if c, ok := g.call(d); ok && g.r.Chance(50) {
			step = c
		} else {
			step = g.expr(tInt, d-1)
		}
		// make sure there is at least one recursive call most of the time
		if c, ok := g.call(d); ok && g.r.Chance(70) {
			step = node{lisp("+", step.L, c.L), fmt.Sprintf("(EPrim PAdd [%s; %s])", step.G, c.G)}
		}
		g.inCond = false
		g.self = nil
		pre := g.stmts(1, d)
		cn := ps[0]
		iff := node{lisp("if", lisp("<", cn, "1"), base.L, step.L),
			fmt.Sprintf("(EIf (EPrim PLt [EVar %s; %s]) %s (Some %s))", q(cn), gInt(1), base.G, step.G)}
		b = append(pre, iff)
	} else {
		b = g.body(tInt, d, 2)
	}
	g.pop(mark)
	g.funs = append(g.funs, fi)
	doc := ""
	if g.r.Chance(10) {
		doc = " \"what it does\""
	}
	n := node{lisp("defun", name, "("+strings.Join(ps, " ")+")"+doc, joinL(b)),
		fmt.Sprintf("(EDefun %s %s %s)", q(name), strsG(ps), listG(b))}
	// the definition may sit in scopes that bind nothing themselves, inside or outside the let it closes over
	n = g.emptyScopes(n)
	if wrapMark >= 0 {
		g.pop(wrapMark)
		n = node{lisp("let", bindsL(wrapVs, wrapIn), n.L), fmt.Sprintf("(ELet %s [%s])", bindsG(wrapVs, wrapIn), n.G)}
		n = g.emptyScopes(n)
	}
	return n
}

// wraps a form in 0..2 scopes that hold no binding of their own: (let () e), (let* () e), (progn e),
// (funcall (lambda () e)); value, effects and every variable reference of e are unchanged
func (g *gen) emptyScopes(n node) node {
	for i := 0; i < 2 && g.r.Chance(30); i++ {
		g.h("empty-scope")
		switch g.r.Intn(4) {
		case 0:
			n = node{lisp("let", "()", n.L), "(ELet [] [" + n.G + "])"}
		case 1:
			n = node{lisp("let*", "()", n.L), "(ELetStar [] [" + n.G + "])"}
		case 2:
			n = node{lisp("progn", n.L), "(EProgn [" + n.G + "])"}
		default:
			n = node{g.inlineCall(lisp("lambda", "()", n.L), ""), "(EFuncall (ELambda [] [" + n.G + "]) [])"}
		}
	}
	return n
}

// a whole program: definitions, then the main expression
func (g *gen) program() []node {
	var forms []node
	for i := g.r.Intn(3); i > 0; i-- {
		g.budget = 25
		forms = append(forms, g.defun(4))
	}
	g.budget = 30 + g.r.Intn(50)
	forms = append(forms, g.expr(typ(g.r.Intn(3)), 6))
	return forms
}

// (let ((V e1)) (let ((F (lambda (ps) .. V ..))) (let ((V e2) ..) (funcall F args) .. e))): a closure over V is
// called where another V is bound; it must read and write its own V
func (g *gen) shadowCall(t typ, d int) (node, bool) {
	if d < 3 {
		return node{}, false
	}
	g.h("idiom:closure-under-shadowing")
	names := g.freshNames(2)
	v, f := names[0], names[1]
	e1 := g.expr(tInt, d-2)
	mark := g.push(vinfo{name: v, t: tInt})
	k := g.r.Intn(3)
	ps := g.freshNames(k)
	for i, p := range ps { // the parameters must not hide V
		if p == v {
			ps[i] = v + "p"
		}
	}
	m2 := len(g.env)
	for _, p := range ps {
		g.push(vinfo{name: p, t: tInt})
	}
	var fb []node
	ref := node{v, "(EVar " + q(v) + ")"}
	switch g.r.Intn(3) {
	case 0:
		fb = append(g.stmts(1, d-1), g.tr(ref))
	case 1:
		inc := g.expr(tInt, d-2)
		fb = append(g.stmts(1, d-1), node{lisp("setq", v, lisp("+", v, inc.L)), fmt.Sprintf("(ESetq [(%s, EPrim PAdd [EVar %s; %s])])", q(v), q(v), inc.G)})
	default:
		x := g.expr(tInt, d-2)
		fb = []node{node{lisp("setq", v, x.L), fmt.Sprintf("(ESetq [(%s, %s)])", q(v), x.G)}, g.tr(ref)}
	}
	g.pop(m2)
	lam := node{lisp("lambda", "("+strings.Join(ps, " ")+")", joinL(fb)), fmt.Sprintf("(ELambda %s %s)", strsG(ps), listG(fb))}
	lam = g.creationContext(lam, v+"q")
	g.push(vinfo{name: f, t: tFun, arity: k})
	// inner scope: V bound again (let, let*, a lambda parameter, a do variable or a dolist variable)
	e2 := g.expr(tInt, d-2)
	call := func() node {
		as := g.args(k, d-1)
		return node{strings.TrimSpace(lisp("funcall", f, joinL(as))), fmt.Sprintf("(EFuncall (EVar %s) %s)", q(f), listG(as))}
	}
	m3 := g.push(vinfo{name: v, t: tInt})
	inner := []node{g.tr(call())}
	inner = append(inner, g.stmts(1, d-1)...)
	if g.r.Bool() {
		inner = append(inner, g.tr(call()))
	}
	inner = append(inner, g.tr(node{v, "(EVar " + q(v) + ")"}))
	g.pop(m3)
	var shadow node
	switch g.r.Intn(4) {
	case 0:
		shadow = node{lisp("let", "("+lisp(v, e2.L)+")", joinL(inner)), fmt.Sprintf("(ELet [(%s, %s)] %s)", q(v), e2.G, listG(inner))}
	case 1:
		shadow = node{lisp("let*", "("+lisp(v, e2.L)+")", joinL(inner)), fmt.Sprintf("(ELetStar [(%s, %s)] %s)", q(v), e2.G, listG(inner))}
	case 2:
		shadow = node{g.inlineCall(lisp("lambda", "("+v+")", joinL(inner)), e2.L),
			fmt.Sprintf("(EFuncall (ELambda [%s] %s) [%s])", q(v), listG(inner), e2.G)}
	default:
		shadow = node{lisp("dolist", lisp(v, lisp("list", e2.L)), joinL(inner)),
			fmt.Sprintf("(EDolist %s (EPrim PList [%s]) None %s)", q(v), e2.G, listG(inner))}
	}
	// after the inner scope: the outer V as the closure left it
	afterCall := g.tr(call())
	rest := g.body(t, d-1, 1)
	g.pop(mark)
	all := append([]node{shadow, afterCall, g.tr(ref)}, rest...)
	l2 := node{lisp("let", "("+lisp(f, lam.L)+")", joinL(all)), fmt.Sprintf("(ELet [(%s, %s)] %s)", q(f), lam.G, listG(all))}
	return node{lisp("let", "("+lisp(v, e1.L)+")", l2.L), fmt.Sprintf("(ELet [(%s, %s)] [%s])", q(v), e1.G, l2.G)}, true
}

// two closures over the same binding and a second instance with a binding of its own
func (g *gen) counters(t typ, d int) (node, bool) {
	if d < 3 {
		return node{}, false
	}
	g.h("idiom:shared-binding")
	names := g.freshNames(4)
	c, inc, get, mk := names[0], names[1], names[2], names[3]
	e1 := g.expr(tInt, d-2)
	mark := g.push(vinfo{name: c, t: tInt})
	dn := g.freshNames(1)[0]
	if dn == c {
		dn = c + "d"
	}
	g.push(vinfo{name: inc, t: tFun, arity: 1}, vinfo{name: get, t: tFun, arity: 0}, vinfo{name: mk, t: tAny})
	incL := node{lisp("lambda", "("+dn+")", lisp("setq", c, lisp("+", c, dn))),
		fmt.Sprintf("(ELambda [%s] [ESetq [(%s, EPrim PAdd [EVar %s; EVar %s])]])", q(dn), q(c), q(c), q(dn))}
	getL := node{lisp("lambda", "()", c), fmt.Sprintf("(ELambda [] [EVar %s])", q(c))}
	// (lambda (c) (lambda () (setq c (+ c 1)))) : every call makes a new binding
	mkL := node{lisp("lambda", "("+c+")", lisp("lambda", "()", lisp("setq", c, lisp("+", c, "1")))),
		fmt.Sprintf("(ELambda [%s] [ELambda [] [ESetq [(%s, EPrim PAdd [EVar %s; %s])]]])", q(c), q(c), q(c), gInt(1))}
	n1, n2 := g.freshNames(2)[0], ""
	n2 = n1 + "2"
	a1, a2 := g.expr(tInt, d-2), g.expr(tInt, d-2)
	g.push(vinfo{name: n1, t: tFun, arity: 0}, vinfo{name: n2, t: tFun, arity: 0})
	b := g.body(t, d-1, 3)
	g.pop(mark)
	inner := node{lisp("let", "("+lisp(n1, lisp("funcall", mk, a1.L))+" "+lisp(n2, lisp("funcall", mk, a2.L))+")", joinL(b)),
		fmt.Sprintf("(ELet [(%s, EFuncall (EVar %s) [%s]); (%s, EFuncall (EVar %s) [%s])] %s)", q(n1), q(mk), a1.G, q(n2), q(mk), a2.G, listG(b))}
	l2 := node{lisp("let", "("+lisp(inc, incL.L)+" "+lisp(get, getL.L)+" "+lisp(mk, mkL.L)+")", inner.L),
		fmt.Sprintf("(ELet [(%s, %s); (%s, %s); (%s, %s)] [%s])", q(inc), incL.G, q(get), getL.G, q(mk), mkL.G, inner.G)}
	return node{lisp("let", "("+lisp(c, e1.L)+")", l2.L), fmt.Sprintf("(ELet [(%s, %s)] [%s])", q(c), e1.G, l2.G)}, true
}

// (let ((N 0)) (do () ((> N K) result) stmts.. (setq N (+ N 1)))): a do without variables
func (g *gen) doWhile(t typ, d int) (node, bool) {
	if g.loops >= maxLoops || d < 3 {
		return node{}, false
	}
	g.h("idiom:do-without-variables")
	nm := g.freshNames(1)[0]
	k := int64(g.r.Intn(3))
	star := "do"
	sg := "false"
	if g.r.Bool() {
		star, sg = "do*", "true"
	}
	mark := g.push(vinfo{name: nm, t: tInt, ro: true})
	g.loops++
	body := g.stmts(2, d-1)
	g.loops--
	rs := g.body(t, d-1, 1)
	g.pop(mark)
	inc := node{lisp("setq", nm, lisp("+", nm, "1")), fmt.Sprintf("(ESetq [(%s, EPrim PAdd [EVar %s; %s])])", q(nm), q(nm), gInt(1))}
	body = append(body, inc)
	test := node{lisp(">", nm, fmt.Sprint(k)), fmt.Sprintf("(EPrim PGt [EVar %s; %s])", q(nm), gInt(k))}
	loop := node{lisp(star, "()", lisp(test.L, joinL(rs)), joinL(body)),
		fmt.Sprintf("(EDo %s [] %s %s %s)", sg, test.G, listG(rs), listG(body))}
	return node{lisp("let", "("+lisp(nm, "0")+")", loop.L), fmt.Sprintf("(ELet [(%s, %s)] [%s])", q(nm), gInt(0), loop.G)}, true
}

// the place where a closure is made: directly, or returned out of scopes with zero, one or several bindings of
// their own (empty let / let* / progn / zero-parameter lambda, a let, a lambda with parameters, two levels of
// lambda, the result form of a loop). p is a name that occurs nowhere else.
func (g *gen) creationContext(lam node, p string) node {
	g.h("idiom:closure-creation-context")
	one := func(n node) node {
		switch g.r.Intn(9) {
		case 0:
			return node{lisp("let", "()", n.L), "(ELet [] [" + n.G + "])"}
		case 1:
			return node{lisp("let*", "()", n.L), "(ELetStar [] [" + n.G + "])"}
		case 2:
			return node{lisp("progn", n.L), "(EProgn [" + n.G + "])"}
		case 3:
			return node{g.inlineCall(lisp("lambda", "()", n.L), ""), "(EFuncall (ELambda [] [" + n.G + "]) [])"}
		case 4:
			return node{lisp("let", "("+lisp(p, "5")+")", n.L), fmt.Sprintf("(ELet [(%s, %s)] [%s])", q(p), gInt(5), n.G)}
		case 5:
			return node{g.inlineCall(lisp("lambda", "("+p+" "+p+"2)", n.L), "1 2"),
				fmt.Sprintf("(EFuncall (ELambda [%s; %s] [%s]) [%s; %s])", q(p), q(p+"2"), n.G, gInt(1), gInt(2))}
		case 6:
			return node{lisp("funcall", g.inlineCall(lisp("lambda", "()", lisp("lambda", "()", n.L)), "")),
				"(EFuncall (EFuncall (ELambda [] [ELambda [] [" + n.G + "]]) []) [])"}
		case 7:
			return node{lisp("dotimes", lisp(p, "1", n.L)), fmt.Sprintf("(EDotimes %s %s (Some %s) [])", q(p), gInt(1), n.G)}
		default:
			return node{lisp("do", "("+lisp(p, "0", lisp("1+", p))+")", lisp(lisp(">", p, "0"), n.L)),
				fmt.Sprintf("(EDo false [(%s, %s, Some (EPrim PInc [EVar %s]))] (EPrim PGt [EVar %s; %s]) [%s] [])", q(p), gInt(0), q(p), q(p), gInt(0), n.G)}
		}
	}
	for i := g.r.Intn(3); i > 0; i-- {
		lam = one(lam)
	}
	return lam
}

// closures made in the body of a loop capture the loop variable (one binding, assigned on every iteration) and
// outer variables; they are called inside the loop, after it, and under another binding of the same names
func (g *gen) loopCapture(t typ, d int) (node, bool) {
	if g.loops >= maxLoops || d < 3 {
		return node{}, false
	}
	g.h("idiom:closure-in-loop-body")
	names := g.freshNames(3)
	acc, f, i := names[0], names[1], names[2]
	if i == acc || i == f {
		i = i + "i"
	}
	e0 := g.expr(tInt, d-2)
	mark := g.push(vinfo{name: acc, t: tInt}, vinfo{name: f, t: tFun, arity: 0})
	// the loop
	g.loops++
	m2 := g.push(vinfo{name: i, t: tInt, ro: true})
	var lamBody node
	if g.r.Bool() {
		lamBody = node{lisp("setq", acc, lisp("+", acc, i)), fmt.Sprintf("(ESetq [(%s, EPrim PAdd [EVar %s; EVar %s])])", q(acc), q(acc), q(i))}
	} else {
		lamBody = node{lisp("+", acc, i), fmt.Sprintf("(EPrim PAdd [EVar %s; EVar %s])", q(acc), q(i))}
	}
	lam := g.emptyScopes(node{lisp("lambda", "()", lamBody.L), "(ELambda [] [" + lamBody.G + "])"})
	set := node{lisp("setq", f, lam.L), fmt.Sprintf("(ESetq [(%s, %s)])", q(f), lam.G)}
	callF := func() node { return g.tr(node{lisp("funcall", f), fmt.Sprintf("(EFuncall (EVar %s) [])", q(f))}) }
	body := []node{set, callF()}
	body = append(body, g.stmts(1, d-1)...)
	g.pop(m2)
	g.loops--
	var loop node
	switch g.r.Intn(3) {
	case 0:
		loop = node{lisp("dotimes", lisp(i, "3"), joinL(body)), fmt.Sprintf("(EDotimes %s %s None %s)", q(i), gInt(3), listG(body))}
	case 1:
		loop = node{lisp("dolist", lisp(i, "'(4 5)"), joinL(body)), fmt.Sprintf("(EDolist %s (EQuote (DList [DInt 4; DInt 5])) None %s)", q(i), listG(body))}
		// after a dolist the variable is nil: the closure is only called inside the loop and where i is rebound
	default:
		loop = node{lisp("do", "("+lisp(i, "0", lisp("+", i, "1"))+")", lisp(lisp("=", i, "2")), joinL(body)),
			fmt.Sprintf("(EDo false [(%s, %s, Some (EPrim PAdd [EVar %s; %s]))] (EPrim PNumEq [EVar %s; %s]) [] %s)", q(i), gInt(0), q(i), gInt(1), q(i), gInt(2), listG(body))}
	}
	isDolist := strings.HasPrefix(loop.L, "(dolist")
	var after []node
	if !isDolist {
		after = append(after, callF())
	}
	// under other bindings of the same names
	m3 := g.push(vinfo{name: i, t: tInt}, vinfo{name: acc, t: tInt})
	inner := []node{}
	if !isDolist {
		inner = append(inner, callF())
	}
	inner = append(inner, g.tr(node{acc, "(EVar " + q(acc) + ")"}))
	g.pop(m3)
	sh := node{lisp("let", "("+lisp(i, "70")+" "+lisp(acc, "900")+")", joinL(inner)),
		fmt.Sprintf("(ELet [(%s, %s); (%s, %s)] %s)", q(i), gInt(70), q(acc), gInt(900), listG(inner))}
	after = append(after, sh, g.tr(node{acc, "(EVar " + q(acc) + ")"}))
	if isDolist {
		g.env[mark+1].arity = 99 // its loop variable is nil now: not to be called any more
	}
	rest := g.body(t, d-1, 1)
	g.pop(mark)
	all := append(append([]node{loop}, after...), rest...)
	dummy := node{lisp("lambda", "()", "0"), "(ELambda [] [" + gInt(0) + "])"}
	return node{lisp("let", "("+lisp(acc, e0.L)+" "+lisp(f, dummy.L)+")", joinL(all)),
		fmt.Sprintf("(ELet [(%s, %s); (%s, %s)] %s)", q(acc), e0.G, q(f), dummy.G, listG(all))}, true
}

// the value of an integer expression made visible in the trace: (if (< e pivot) (tr a 0) (tr b 1))
func (g *gen) observeExpr(e node, pivot int64) node {
	g.k += 2
	return node{fmt.Sprintf("(if (< %s %d) (tr %d 0) (tr %d 1))", e.L, pivot, g.k-1, g.k),
		fmt.Sprintf("(EIf (EPrim PLt [%s; %s]) (ETr %d %s) (Some (ETr %d %s)))", e.G, gInt(pivot), g.k-1, gInt(0), g.k, gInt(1))}
}

// a closure made by the list form of a dolist, the count form of a dotimes or an init form of a do* - before the
// loop variable of the same name exists - reads and writes the ENCLOSING variable (700..), not the loop variable
// (below 100): inside the loop, in the result form and after the loop (repo_fixes/C01-12, C01-13); a closure made by
// the init form of a later do* variable follows the stepping of an earlier one
func (g *gen) loopFormCapture(t typ, d int) (node, bool) {
	if g.loops >= maxLoops || d < 3 {
		return node{}, false
	}
	g.h("idiom:closure-in-loop-form")
	names := g.freshNames(2)
	v, f := names[0], names[1]
	z1 := int64(700 + g.r.Intn(50))
	e1 := node{fmt.Sprint(z1), gInt(z1)}
	mark := g.push(vinfo{name: v, t: tInt}, vinfo{name: f, t: tFun, arity: 0})
	var lamBody node
	if g.r.Bool() {
		lamBody = node{lisp("setq", v, lisp("+", v, "1")), fmt.Sprintf("(ESetq [(%s, EPrim PAdd [EVar %s; %s])])", q(v), q(v), gInt(1))}
	} else {
		lamBody = node{v, "(EVar " + q(v) + ")"}
	}
	lam := g.emptyScopes(node{lisp("lambda", "()", lamBody.L), "(ELambda [] [" + lamBody.G + "])"})
	call := func(name string) node { return node{lisp("funcall", name), fmt.Sprintf("(EFuncall (EVar %s) [])", q(name))} }
	callF := func() node { return g.observeExpr(call(f), 100) }
	refV := func() node { return g.observeExpr(node{v, "(EVar " + q(v) + ")"}, 100) }
	set := node{lisp("setq", f, lam.L), fmt.Sprintf("(ESetq [(%s, %s)])", q(f), lam.G)}
	var loop node
	g.loops++
	switch g.r.Intn(4) {
	case 0: // dolist: the loop variable is nil in the result form
		m2 := g.push(vinfo{name: v, t: tInt, ro: true})
		body := append([]node{callF(), refV()}, g.stmts(1, d-1)...)
		g.pop(m2)
		res := callF()
		loop = node{lisp("dolist", lisp(v, lisp("progn", set.L, "'(4 5)"), res.L), joinL(body)),
			fmt.Sprintf("(EDolist %s (EProgn [%s; EQuote (DList [DInt 4; DInt 5])]) (Some %s) %s)", q(v), set.G, res.G, listG(body))}
	case 1:
		m2 := g.push(vinfo{name: v, t: tInt, ro: true})
		body := append([]node{callF(), refV()}, g.stmts(1, d-1)...)
		c1, r1 := callF(), refV() // in the result form the variable is the number of iterations
		res := node{lisp("progn", c1.L, r1.L), fmt.Sprintf("(EProgn [%s; %s])", c1.G, r1.G)}
		g.pop(m2)
		loop = node{lisp("dotimes", lisp(v, lisp("progn", set.L, "2"), res.L), joinL(body)),
			fmt.Sprintf("(EDotimes %s (EProgn [%s; %s]) (Some %s) %s)", q(v), set.G, gInt(2), res.G, listG(body))}
	case 2: // do*: a closure made by the init form of a LATER variable sees the earlier variable, also after it is stepped
		gname := f + "g"
		m2 := g.push(vinfo{name: v, t: tInt, ro: true}, vinfo{name: gname, t: tFun, arity: 0})
		callG := func() node { return g.observeExpr(call(gname), 51) }
		rd := g.emptyScopes(node{lisp("lambda", "()", v), "(ELambda [] [EVar " + q(v) + "])"})
		body := append([]node{callG(), refV()}, g.stmts(1, d-1)...)
		rs := []node{callG(), refV()}
		g.pop(m2)
		loop = node{lisp("do*", "("+lisp(v, "50", lisp("+", v, "1"))+" "+lisp(gname, rd.L)+")", lisp(lisp(">", v, "51"), joinL(rs)), joinL(body)),
			fmt.Sprintf("(EDo true [(%s, %s, Some (EPrim PAdd [EVar %s; %s])); (%s, %s, None)] (EPrim PGt [EVar %s; %s]) %s %s)",
				q(v), gInt(50), q(v), gInt(1), q(gname), rd.G, q(v), gInt(51), listG(rs), listG(body))}
	default: // do*: the closure is the value of the first variable, made before the second variable exists
		gname := f + "g"
		m2 := g.push(vinfo{name: gname, t: tFun, arity: 0}, vinfo{name: v, t: tInt, ro: true})
		callG := func() node { return g.observeExpr(call(gname), 100) }
		body := append([]node{callG(), refV()}, g.stmts(1, d-1)...)
		rs := []node{callG(), refV()}
		g.pop(m2)
		keep := node{lisp("setq", f, gname), fmt.Sprintf("(ESetq [(%s, EVar %s)])", q(f), q(gname))}
		body = append(body, keep)
		loop = node{lisp("do*", "("+lisp(gname, lam.L)+" "+lisp(v, "50", lisp("+", v, "1"))+")", lisp(lisp(">", v, "51"), joinL(rs)), joinL(body)),
			fmt.Sprintf("(EDo true [(%s, %s, None); (%s, %s, Some (EPrim PAdd [EVar %s; %s]))] (EPrim PGt [EVar %s; %s]) %s %s)",
				q(gname), lam.G, q(v), gInt(50), q(v), gInt(1), q(v), gInt(51), listG(rs), listG(body))}
	}
	g.loops--
	after := []node{callF(), refV()}
	rest := g.body(t, d-1, 1)
	g.pop(mark)
	all := append(append([]node{loop}, after...), rest...)
	dummy := node{lisp("lambda", "()", "0"), "(ELambda [] [" + gInt(0) + "])"}
	return node{lisp("let", "("+lisp(v, e1.L)+" "+lisp(f, dummy.L)+")", joinL(all)),
		fmt.Sprintf("(ELet [(%s, %s); (%s, %s)] %s)", q(v), e1.G, q(f), dummy.G, listG(all))}, true
}

// (lambda (p.. &optional (o default).. ) ..) called with every number of arguments it accepts (and, in programs that
// may contain errors, with one too few or one too many): the arguments are evaluated first, left to right, then the
// default forms of the parameters that got no argument, left to right, each seeing the parameters before it; every
// default form and every argument is a trace probe, the values the parameters got are made visible in the trace
func (g *gen) optCall(t typ, d int) (node, bool) {
	if d < 3 {
		return node{}, false
	}
	g.h("idiom:optional-parameters")
	r, k := g.r.Intn(3), 1+g.r.Intn(2)
	names := g.freshNames(r + k + 1)
	f := names[r+k]
	ps, os := names[:r], names[r:r+k]
	mark := len(g.env)
	for _, p := range ps {
		g.push(vinfo{name: p, t: tInt})
	}
	saveSelf := g.self
	g.self = nil
	var llL, osG []string
	llL = append(llL, ps...)
	llL = append(llL, "&optional")
	hasDefault := make([]bool, k)
	for i, o := range os {
		if g.r.Chance(15) { // no default form: nil
			llL = append(llL, o)
			osG = append(osG, fmt.Sprintf("(%s, EConst DNil)", q(o)))
			g.push(vinfo{name: o, t: tAny, ro: true})
			continue
		}
		hasDefault[i] = true
		dflt := g.expr(tInt, d-2)
		if vs := g.vars(tInt, 0, false); len(vs) > 0 && len(g.env) > mark && g.r.Chance(60) {
			// the default reads a parameter bound before it
			v := g.env[mark+g.r.Intn(len(g.env)-mark)]
			if v.t == tInt {
				dflt = node{lisp("+", v.name, dflt.L), fmt.Sprintf("(EPrim PAdd [EVar %s; %s])", q(v.name), dflt.G)}
			}
		}
		dflt = g.tr(dflt)
		llL = append(llL, lisp(o, dflt.L))
		osG = append(osG, fmt.Sprintf("(%s, %s)", q(o), dflt.G))
		g.push(vinfo{name: o, t: tInt})
	}
	var body []node
	for _, p := range ps {
		body = append(body, g.observeInt(p))
	}
	for i, o := range os {
		if hasDefault[i] {
			body = append(body, g.observeInt(o))
		}
	}
	body = append(body, g.body(t, d-1, 1)...)
	g.self = saveSelf
	g.pop(mark)
	lam := node{lisp("lambda", "("+strings.Join(llL, " ")+")", joinL(body)),
		fmt.Sprintf("(ELambdaO %s %s %s)", strsG(ps), common.GList(osG), listG(body))}
	// the calls: any number of arguments from the required ones up to all (a parameter without default form is nil)
	minN := r
	mkCall := func(n int) node {
		var as []node
		for i := 0; i < n; i++ {
			as = append(as, g.tr(g.expr(tInt, d-2)))
		}
		return node{strings.TrimSpace(lisp("funcall", f, joinL(as))), fmt.Sprintf("(EFuncall (EVar %s) %s)", q(f), listG(as))}
	}
	g.push(vinfo{name: f, t: tFun, arity: 99})
	var calls []node
	for c := g.r.Intn(2); c > 0; c-- {
		calls = append(calls, mkCall(minN+g.r.Intn(r+k-minN+1)))
	}
	n := minN + g.r.Intn(r+k-minN+1)
	if g.errs && g.r.Chance(35) {
		if r > 0 && g.r.Bool() {
			g.h("too-few-arguments")
			n = r - 1
		} else {
			g.h("too-many-arguments")
			n = r + k + 1
		}
	}
	calls = append(calls, mkCall(n))
	g.pop(mark)
	return node{lisp("let", "("+lisp(f, lam.L)+")", joinL(calls)), fmt.Sprintf("(ELet [(%s, %s)] %s)", q(f), lam.G, listG(calls))}, true
}

// a closure made by the default form of an &optional parameter (repo_fixes/C01-21): it reads / writes the ENCLOSING
// variable (700..) although a later parameter of the same name (below 100) is bound after it, also when it is called
// after the call has returned; and a closure made by a later default form shares an EARLIER parameter with the body
func (g *gen) defaultClosure(t typ, d int) (node, bool) {
	if d < 3 {
		return node{}, false
	}
	g.h("idiom:closure-in-default-form")
	names := g.freshNames(3)
	v, f, gn := names[0], names[1], names[2]+"g"
	z1 := int64(700 + g.r.Intn(50))
	mark := g.push(vinfo{name: v, t: tInt}, vinfo{name: f, t: tFun, arity: 0})
	call := func(name string) node { return node{lisp("funcall", name), fmt.Sprintf("(EFuncall (EVar %s) [])", q(name))} }
	refV := func() node { return g.observeExpr(node{v, "(EVar " + q(v) + ")"}, 100) }
	var lamBody node
	if g.r.Bool() {
		lamBody = node{lisp("setq", v, lisp("+", v, "1")), fmt.Sprintf("(ESetq [(%s, EPrim PAdd [EVar %s; %s])])", q(v), q(v), gInt(1))}
	} else {
		lamBody = node{v, "(EVar " + q(v) + ")"}
	}
	lam := g.emptyScopes(node{lisp("lambda", "()", lamBody.L), "(ELambda [] [" + lamBody.G + "])"})
	var inner node
	if g.r.Chance(65) {
		// (lambda (&optional (G closure-over-outer-V) (V 5)) ..): G's V is the enclosing one
		m2 := g.push(vinfo{name: gn, t: tFun, arity: 0}, vinfo{name: v, t: tInt, ro: true})
		keep := node{lisp("setq", f, gn), fmt.Sprintf("(ESetq [(%s, EVar %s)])", q(f), q(gn))}
		body := []node{keep, g.observeExpr(call(gn), 100), refV()}
		body = append(body, g.stmts(1, d-1)...)
		body = append(body, g.observeExpr(call(gn), 100))
		g.pop(m2)
		inner = node{lisp("funcall", lisp("lambda", "(&optional "+lisp(gn, lam.L)+" "+lisp(v, "5")+")", joinL(body))),
			fmt.Sprintf("(EFuncall (ELambdaO [] [(%s, %s); (%s, %s)] %s) [])", q(gn), lam.G, q(v), gInt(5), listG(body))}
	} else {
		// (lambda (&optional (A 1) (G (lambda () A))) (setq A 70x) (funcall G)): G shares the parameter A
		an := v + "a"
		m2 := g.push(vinfo{name: an, t: tInt}, vinfo{name: gn, t: tFun, arity: 0})
		rd := g.emptyScopes(node{lisp("lambda", "()", an), "(ELambda [] [EVar " + q(an) + "])"})
		set := node{lisp("setq", an, fmt.Sprint(z1)), fmt.Sprintf("(ESetq [(%s, %s)])", q(an), gInt(z1))}
		keep := node{lisp("setq", f, gn), fmt.Sprintf("(ESetq [(%s, EVar %s)])", q(f), q(gn))}
		body := []node{g.observeExpr(call(gn), 100), set, keep, g.observeExpr(call(gn), 100)}
		g.pop(m2)
		inner = node{lisp("funcall", lisp("lambda", "(&optional "+lisp(an, "1")+" "+lisp(gn, rd.L)+")", joinL(body))),
			fmt.Sprintf("(EFuncall (ELambdaO [] [(%s, %s); (%s, %s)] %s) [])", q(an), gInt(1), q(gn), rd.G, listG(body))}
	}
	after := []node{g.observeExpr(call(f), 100), refV()}
	rest := g.body(t, d-1, 1)
	g.pop(mark)
	all := append(append([]node{inner}, after...), rest...)
	dummy := node{lisp("lambda", "()", "0"), "(ELambda [] [" + gInt(0) + "])"}
	return node{lisp("let", "("+lisp(v, fmt.Sprint(z1))+" "+lisp(f, dummy.L)+")", joinL(all)),
		fmt.Sprintf("(ELet [(%s, %s); (%s, %s)] %s)", q(v), gInt(z1), q(f), dummy.G, listG(all))}, true
}
