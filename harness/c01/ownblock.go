package c01

import (
	"fmt"
)

// The enumerated block "own-name closures": a variable is bound AFTER its init form has been evaluated, so a closure
// made by the init form (argument, default form, values form, list / count form) of a variable V that mentions the
// NAME V refers to the ENCLOSING V - it never reads or assigns the variable being bound (theorems
// C01_letstar_init_outside_own_binding, C01_let_inits_outside_binding). Every binder of the modelled language (let*
// first / later / followed by another binding / after a binding of the same name, let, do, do*, the default form of an
// &optional parameter, a lambda argument, multiple-value-bind, dolist, dotimes) x a closure that reads or assigns V x
// three ways the closure leaves the init form (it IS the value; it is stored in an outer variable and the init form
// returns a number; it is called by the init form, stored, and its result is the value). The closure is called inside
// the scope of the new variable, and after it; the enclosing V is read at the end. The same programs on every run.
func ownNameBlock() (progs [][]node, names []string) {
	v := "v"
	ev := "EVar " + q(v)
	i := func(z int64) string { return gInt(z) }
	makers := []struct {
		name string
		n    node
	}{
		{"read", node{"(lambda () v)", "(ELambda [] [" + ev + "])"}},
		{"write", node{"(lambda () (setq v (+ v 1)))", fmt.Sprintf("(ELambda [] [ESetq [(%s, EPrim PAdd [%s; %s])]])", q(v), ev, i(1))}},
	}
	callK := node{"(funcall k)", "(EFuncall (EVar \"k\") [])"}
	// the body when V holds a number: (list v (funcall k) v); when V holds the closure: (progn (setq k v) (funcall v))
	bodyNum := node{"(list v (funcall k) v)", fmt.Sprintf("(EPrim PList [%s; %s; %s])", ev, callK.G, ev)}
	bodyClo := node{"(progn (setq k v) (funcall v))", fmt.Sprintf("(EProgn [ESetq [(\"k\", %s)]; EFuncall (%s) []])", ev, ev)}
	type binder struct {
		name string
		mk   func(init, body node) node
	}
	b1 := func(l, gf string) func(init, body node) node {
		return func(init, body node) node {
			return node{fmt.Sprintf(l, init.L, body.L), fmt.Sprintf(gf, init.G, body.G)}
		}
	}
	binders := []binder{
		{"let*", b1("(let* ((v %s)) %s)", "(ELetStar [(\"v\", %s)] [%s])")},
		{"let*:later", b1("(let* ((a 1) (v %s)) %s)", "(ELetStar [(\"a\", "+i(1)+"); (\"v\", %s)] [%s])")},
		{"let*:then-another", b1("(let* ((v %s) (b 2)) %s)", "(ELetStar [(\"v\", %s); (\"b\", "+i(2)+")] [%s])")},
		{"let*:same-name-before", b1("(let* ((v 300) (v %s)) %s)", "(ELetStar [(\"v\", "+i(300)+"); (\"v\", %s)] [%s])")},
		{"let", b1("(let ((v %s)) %s)", "(ELet [(\"v\", %s)] [%s])")},
		{"let:later", b1("(let ((a 1) (v %s)) %s)", "(ELet [(\"a\", "+i(1)+"); (\"v\", %s)] [%s])")},
		{"do", b1("(do ((v %s)) (t %s))", "(EDo false [(\"v\", %s, None)] (EConst DT) [%s] [])")},
		{"do*", b1("(do* ((v %s)) (t %s))", "(EDo true [(\"v\", %s, None)] (EConst DT) [%s] [])")},
		{"do*:later", b1("(do* ((a 1) (v %s)) (t %s))", "(EDo true [(\"a\", "+i(1)+", None); (\"v\", %s, None)] (EConst DT) [%s] [])")},
		{"optional-default", b1("(funcall (lambda (&optional (v %s)) %s))", "(EFuncall (ELambdaO [] [(\"v\", %s)] [%s]) [])")},
		{"optional-default:later", b1("(funcall (lambda (a &optional (b 2) (v %s)) %s) 1)", "(EFuncall (ELambdaO [\"a\"] [(\"b\", "+i(2)+"); (\"v\", %s)] [%s]) ["+i(1)+"])")},
		{"lambda-argument", b1("(funcall (lambda (v) %[2]s) %[1]s)", "(EFuncall (ELambda [\"v\"] [%[2]s]) [%[1]s])")},
		{"multiple-value-bind", b1("(multiple-value-bind (v) %s %s)", "(EMvb [\"v\"] (%s) [%s])")},
	}
	wrap := func(inner node) []node {
		// (let ((v 700) (k nil) (r nil)) (list INNER r (funcall k) v))
		return []node{{fmt.Sprintf("(let ((v 700) (k nil) (r nil)) (list %s r (funcall k) v))", inner.L),
			fmt.Sprintf("(ELet [(\"v\", %s); (\"k\", EConst DNil); (\"r\", EConst DNil)] [EPrim PList [%s; EVar \"r\"; %s; %s]])", i(700), inner.G, callK.G, ev)}}
	}
	stored := func(mk node, val node) node { // (progn (setq k MK) val)
		return node{fmt.Sprintf("(progn (setq k %s) %s)", mk.L, val.L), fmt.Sprintf("(EProgn [ESetq [(\"k\", %s)]; %s])", mk.G, val.G)}
	}
	for _, b := range binders {
		for _, m := range makers {
			// the closure is the value of the init form
			progs = append(progs, wrap(b.mk(m.n, bodyClo)))
			names = append(names, b.name+" <- "+m.name+":value")
			// the closure is stored, the init form returns 5
			progs = append(progs, wrap(b.mk(stored(m.n, node{"5", i(5)}), bodyNum)))
			names = append(names, b.name+" <- "+m.name+":stored")
			// the closure is called by the init form: (let ((old MK)) (setq k old) (funcall old))
			called := node{fmt.Sprintf("(let ((old %s)) (setq k old) (funcall old))", m.n.L),
				fmt.Sprintf("(ELet [(\"old\", %s)] [ESetq [(\"k\", EVar \"old\")]; EFuncall (EVar \"old\") []])", m.n.G)}
			progs = append(progs, wrap(b.mk(called, bodyNum)))
			names = append(names, b.name+" <- "+m.name+":called")
		}
	}
	// dolist / dotimes: the closure is made by the list form / the count form
	setR := node{"(setq r (list v (funcall k) v))", fmt.Sprintf("(ESetq [(\"r\", %s)])", bodyNum.G)}
	for _, m := range makers {
		lf := stored(m.n, node{"'(4)", "(EQuote (DList [DInt 4]))"})
		progs = append(progs, wrap(node{fmt.Sprintf("(dolist (v %s) %s)", lf.L, setR.L), fmt.Sprintf("(EDolist \"v\" %s None [%s])", lf.G, setR.G)}))
		names = append(names, "dolist <- "+m.name+":stored")
		progs = append(progs, wrap(node{fmt.Sprintf("(dolist (v %s (list v (funcall k))) %s)", lf.L, setR.L),
			fmt.Sprintf("(EDolist \"v\" %s (Some (EPrim PList [%s; %s])) [%s])", lf.G, ev, callK.G, setR.G)}))
		names = append(names, "dolist:result <- "+m.name+":stored")
		cf := stored(m.n, node{"1", i(1)})
		progs = append(progs, wrap(node{fmt.Sprintf("(dotimes (v %s) %s)", cf.L, setR.L), fmt.Sprintf("(EDotimes \"v\" %s None [%s])", cf.G, setR.G)}))
		names = append(names, "dotimes <- "+m.name+":stored")
		progs = append(progs, wrap(node{fmt.Sprintf("(dotimes (v %s (list v (funcall k))) %s)", cf.L, setR.L),
			fmt.Sprintf("(EDotimes \"v\" %s (Some (EPrim PList [%s; %s])) [%s])", cf.G, ev, callK.G, setR.G)}))
		names = append(names, "dotimes:result <- "+m.name+":stored")
	}
	return
}

// the random counterpart: a closure over the name V made by the init form of a binding of V (let, let*, do, do*, an
// &optional default, a lambda argument, multiple-value-bind) in a random creation context, among random other
// bindings, called inside the new scope (among random statements), after it, and the enclosing V (700..) observed
func (g *gen) initOwnCapture(t typ, d int) (node, bool) {
	if d < 3 {
		return node{}, false
	}
	g.h("idiom:closure-over-own-name-in-init-form")
	names := g.freshNames(3)
	v, f, a := names[0], names[1], names[2]+"a"
	z1 := int64(700 + g.r.Intn(50))
	mark := g.push(vinfo{name: v, t: tInt}, vinfo{name: f, t: tFun, arity: 0})
	call := func(name string) node {
		return node{lisp("funcall", name), fmt.Sprintf("(EFuncall (EVar %s) [])", q(name))}
	}
	refV := func() node { return g.observeExpr(node{v, "(EVar " + q(v) + ")"}, 100) }
	var lamBody node
	if g.r.Bool() {
		lamBody = node{lisp("setq", v, lisp("+", v, "1")), fmt.Sprintf("(ESetq [(%s, EPrim PAdd [EVar %s; %s])])", q(v), q(v), gInt(1))}
	} else {
		lamBody = node{v, "(EVar " + q(v) + ")"}
	}
	lam := g.emptyScopes(node{lisp("lambda", "()", lamBody.L), "(ELambda [] [" + lamBody.G + "])"})
	// the init form stores the closure in F and returns a small number (the new V is below 100)
	z2 := int64(g.r.Intn(50))
	init := node{lisp("progn", lisp("setq", f, lam.L), fmt.Sprint(z2)), fmt.Sprintf("(EProgn [ESetq [(%s, %s)]; %s])", q(f), lam.G, gInt(z2))}
	other := g.expr(tInt, d-2) // another binding's init form, evaluated in the enclosing scope (or, let* / do*, after V)
	m2 := g.push(vinfo{name: v, t: tInt, ro: true}, vinfo{name: a, t: tInt, ro: true})
	body := []node{g.observeExpr(call(f), 100), refV()}
	body = append(body, g.stmts(1, d-1)...)
	body = append(body, g.observeExpr(call(f), 100), refV())
	g.pop(m2)
	bl, bg := joinL(body), listG(body)
	var inner node
	k := g.r.Intn(9)
	g.h(fmt.Sprintf("own-name-binder:%d", k))
	switch k {
	case 0:
		inner = node{fmt.Sprintf("(let* ((%s %s) (%s %s)) %s)", v, init.L, a, other.L, bl),
			fmt.Sprintf("(ELetStar [(%s, %s); (%s, %s)] %s)", q(v), init.G, q(a), other.G, bg)}
	case 1:
		inner = node{fmt.Sprintf("(let* ((%s %s) (%s %s)) %s)", a, other.L, v, init.L, bl),
			fmt.Sprintf("(ELetStar [(%s, %s); (%s, %s)] %s)", q(a), other.G, q(v), init.G, bg)}
	case 2:
		inner = node{fmt.Sprintf("(let ((%s %s) (%s %s)) %s)", a, other.L, v, init.L, bl),
			fmt.Sprintf("(ELet [(%s, %s); (%s, %s)] %s)", q(a), other.G, q(v), init.G, bg)}
	case 3:
		inner = node{fmt.Sprintf("(let ((%s %s) (%s %s)) %s)", v, init.L, a, other.L, bl),
			fmt.Sprintf("(ELet [(%s, %s); (%s, %s)] %s)", q(v), init.G, q(a), other.G, bg)}
	case 4:
		inner = node{fmt.Sprintf("(do ((%s %s) (%s %s)) (t %s))", a, other.L, v, init.L, bl),
			fmt.Sprintf("(EDo false [(%s, %s, None); (%s, %s, None)] (EConst DT) %s [])", q(a), other.G, q(v), init.G, bg)}
	case 5:
		inner = node{fmt.Sprintf("(do* ((%s %s) (%s %s)) (t %s))", v, init.L, a, other.L, bl),
			fmt.Sprintf("(EDo true [(%s, %s, None); (%s, %s, None)] (EConst DT) %s [])", q(v), init.G, q(a), other.G, bg)}
	case 6:
		inner = node{fmt.Sprintf("(funcall (lambda (%s &optional (%s %s)) %s) %s)", a, v, init.L, bl, other.L),
			fmt.Sprintf("(EFuncall (ELambdaO [%s] [(%s, %s)] %s) [%s])", q(a), q(v), init.G, bg, other.G)}
	case 7:
		inner = node{fmt.Sprintf("(funcall (lambda (%s %s) %s) %s %s)", a, v, bl, other.L, init.L),
			fmt.Sprintf("(EFuncall (ELambda [%s; %s] %s) [%s; %s])", q(a), q(v), bg, other.G, init.G)}
	default:
		inner = node{fmt.Sprintf("(multiple-value-bind (%s %s) (values %s %s) %s)", v, a, init.L, other.L, bl),
			fmt.Sprintf("(EMvb [%s; %s] (EValues [%s; %s]) %s)", q(v), q(a), init.G, other.G, bg)}
	}
	after := []node{g.observeExpr(call(f), 100), refV()}
	rest := g.body(t, d-1, 1)
	g.pop(mark)
	all := append(append([]node{inner}, after...), rest...)
	dummy := node{lisp("lambda", "()", "0"), "(ELambda [] [" + gInt(0) + "])"}
	return node{lisp("let", "("+lisp(v, fmt.Sprint(z1))+" "+lisp(f, dummy.L)+")", joinL(all)),
		fmt.Sprintf("(ELet [(%s, %s); (%s, %s)] %s)", q(v), gInt(z1), q(f), dummy.G, listG(all))}, true
}
