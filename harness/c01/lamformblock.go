package c01

import (
	"fmt"
)

// The enumerated block "lambda expression written in place, evaluated repeatedly": a lambda expression that is called
// where it stands makes a NEW closure over the scope of EACH evaluation of that code position. The interpreter
// converts the list to a function object on first evaluation and keeps the object in the code (Function.Eval /
// EvalArg -> ListToFunc, setCompiled); before repair C01-22 the object of a lambda FORM ((lambda ..) args) carried the
// closure of the first evaluation, so the second loop iteration, the second call of the enclosing function and every
// deeper recursion level read and assigned the variables of the FIRST evaluation.
//
// four spellings of the call (the lambda form, funcall of the lambda expression, of #'(lambda ..), of
// (function (lambda ..))) x four bodies (reads the captured variable, assigns it, returns a closure over parameter and
// variable, uses it in the default form of an &optional parameter) x eight ways the code position is evaluated again
// under a new binding of the captured variable (let in dotimes / dolist / do, a defun called three times - variable =
// let / = parameter -, recursion, a closure called twice, the function of mapcar). The argument is a trace probe:
// evaluated once per evaluation, before the call. The same programs on every run.
func lambdaFormBlock() (progs [][]node, names []string) {
	i := func(z int64) string { return gInt(z) }
	n := "EVar \"n\""
	x := "EVar \"x\""
	type body struct {
		name string
		lam  node // the lambda expression
		wrap func(call node) node
	}
	id := func(c node) node { return c }
	bodies := []body{
		{"reads", node{"(lambda (x) (+ x n))", fmt.Sprintf("(ELambda [\"x\"] [EPrim PAdd [%s; %s]])", x, n)}, id},
		{"assigns", node{"(lambda (x) (setq n (+ n x)))", fmt.Sprintf("(ELambda [\"x\"] [ESetq [(\"n\", EPrim PAdd [%s; %s])]])", n, x)}, id},
		{"returns-closure", node{"(lambda (x) (lambda () (setq n (+ n x))))",
			fmt.Sprintf("(ELambda [\"x\"] [ELambda [] [ESetq [(\"n\", EPrim PAdd [%s; %s])]]])", n, x)},
			func(c node) node { return node{"(funcall " + c.L + ")", "(EFuncall (" + c.G + ") [])"} }},
		{"optional-default", node{"(lambda (x &optional (y n)) (list x y))",
			fmt.Sprintf("(ELambdaO [\"x\"] [(\"y\", %s)] [EPrim PList [%s; EVar \"y\"]])", n, x)}, id},
	}
	spell := []struct {
		name string
		l    string
	}{
		{"lambda-form", "(%s %s)"},
		{"funcall-lambda", "(funcall %s %s)"},
		{"funcall-sharp-quote", "(funcall #'%s %s)"},
		{"funcall-function", "(funcall (function %s) %s)"},
	}
	type context struct {
		name string
		mk   func(fn string, call node) []node
	}
	// what is observed of one evaluation: (list CALL n)
	cell := func(call node) node {
		return node{"(list " + call.L + " n)", fmt.Sprintf("(EPrim PList [%s; %s])", call.G, n)}
	}
	acc := func(loopL, loopG string) []node {
		return []node{{"(let ((r nil)) " + loopL + " r)", "(ELet [(\"r\", EConst DNil)] [" + loopG + "; EVar \"r\"])"}}
	}
	push := func(c node) node { // (setq r (cons C r))
		return node{"(setq r (cons " + c.L + " r))", "(ESetq [(\"r\", EPrim PCons [" + c.G + "; EVar \"r\"])])"}
	}
	letN := func(initL, initG string, b node) node {
		return node{"(let ((n " + initL + ")) " + b.L + ")", "(ELet [(\"n\", " + initG + ")] [" + b.G + "])"}
	}
	three := func(fn string) node {
		return node{fmt.Sprintf("(list (%[1]s 10) (%[1]s 20) (%[1]s 30))", fn),
			fmt.Sprintf("(EPrim PList [ECall %[1]s [%[2]s]; ECall %[1]s [%[3]s]; ECall %[1]s [%[4]s]])", q(fn), i(10), i(20), i(30))}
	}
	contexts := []context{
		{"let-in-dotimes", func(fn string, c node) []node {
			b := push(letN("(+ i 10)", "EPrim PAdd [EVar \"i\"; "+i(10)+"]", cell(c)))
			return acc("(dotimes (i 3) "+b.L+")", "EDotimes \"i\" "+i(3)+" None ["+b.G+"]")
		}},
		{"let-in-dolist", func(fn string, c node) []node {
			b := push(letN("i", "EVar \"i\"", cell(c)))
			return acc("(dolist (i '(10 20 30)) "+b.L+")", "EDolist \"i\" (EQuote (DList [DInt 10; DInt 20; DInt 30])) None ["+b.G+"]")
		}},
		{"let-in-do", func(fn string, c node) []node {
			b := push(letN("(+ i 10)", "EPrim PAdd [EVar \"i\"; "+i(10)+"]", cell(c)))
			return acc("(do ((i 0 (+ i 1))) ((= i 3)) "+b.L+")",
				"EDo false [(\"i\", "+i(0)+", Some (EPrim PAdd [EVar \"i\"; "+i(1)+"]))] (EPrim PNumEq [EVar \"i\"; "+i(3)+"]) [] ["+b.G+"]")
		}},
		{"defun-let-called-thrice", func(fn string, c node) []node {
			b := letN("k", "EVar \"k\"", cell(c))
			return []node{{"(defun " + fn + " (k) " + b.L + ")", "(EDefun " + q(fn) + " [\"k\"] [" + b.G + "])"}, three(fn)}
		}},
		{"defun-parameter-called-thrice", func(fn string, c node) []node {
			b := cell(c)
			return []node{{"(defun " + fn + " (n) " + b.L + ")", "(EDefun " + q(fn) + " [\"n\"] [" + b.G + "])"}, three(fn)}
		}},
		{"recursion", func(fn string, c node) []node {
			rec := node{"(" + fn + " (- k 1))", "ECall " + q(fn) + " [EPrim PSub [EVar \"k\"; " + i(1) + "]]"}
			b := letN("(+ k 10)", "EPrim PAdd [EVar \"k\"; "+i(10)+"]",
				node{"(cons " + cell(c).L + " " + rec.L + ")", "(EPrim PCons [" + cell(c).G + "; " + rec.G + "])"})
			iff := node{"(if (< k 1) nil " + b.L + ")", "(EIf (EPrim PLt [EVar \"k\"; " + i(1) + "]) (EConst DNil) (Some " + b.G + "))"}
			return []node{{"(defun " + fn + " (k) " + iff.L + ")", "(EDefun " + q(fn) + " [\"k\"] [" + iff.G + "])"},
				{"(" + fn + " 3)", "(ECall " + q(fn) + " [" + i(3) + "])"}}
		}},
		{"closure-called-twice", func(fn string, c node) []node {
			b := letN("k", "EVar \"k\"", cell(c))
			return []node{{"(let ((f (lambda (k) " + b.L + "))) (list (funcall f 10) (funcall f 20)))",
				"(ELet [(\"f\", ELambda [\"k\"] [" + b.G + "])] [EPrim PList [EFuncall (EVar \"f\") [" + i(10) + "]; EFuncall (EVar \"f\") [" + i(20) + "]]])"}}
		}},
		{"mapcar-function", func(fn string, c node) []node {
			b := letN("k", "EVar \"k\"", cell(c))
			return []node{{"(mapcar (lambda (k) " + b.L + ") '(10 20 30))",
				"(EMapcar (ELambda [\"k\"] [" + b.G + "]) [EQuote (DList [DInt 10; DInt 20; DInt 30])])"}}
		}},
	}
	arg := node{"(tr 1 1)", "ETr 1 " + i(1)}
	for ci, cx := range contexts {
		for bi, b := range bodies {
			for si, sp := range spell {
				call := b.wrap(node{fmt.Sprintf(sp.l, b.lam.L, arg.L), fmt.Sprintf("EFuncall (%s) [%s]", b.lam.G, arg.G)})
				fn := fmt.Sprintf("lff%d-%d-%d", ci, bi, si)
				progs = append(progs, cx.mk(fn, call))
				names = append(names, sp.name+" x "+b.name+" x "+cx.name)
			}
		}
	}
	return
}

// inlineCall spells the call of a lambda expression written in place: (funcall (lambda ..) a..) - or, one time in
// two, the lambda form ((lambda ..) a..), (funcall #'(lambda ..) a..) or (funcall (function (lambda ..)) a..); all four
// mean the same (EFuncall (ELambda ..) ..). lam is the text of the lambda expression, args the text of the arguments.
func (g *gen) inlineCall(lam string, args string) string {
	if args != "" {
		args = " " + args
	}
	if !g.r.Bool() {
		return "(funcall " + lam + args + ")"
	}
	switch g.r.Intn(3) {
	case 0:
		g.h("inline-call:lambda-form")
		return "(" + lam + args + ")"
	case 1:
		g.h("inline-call:funcall-sharp-quote")
		return "(funcall #'" + lam + args + ")"
	default:
		g.h("inline-call:funcall-function")
		return "(funcall (function " + lam + ")" + args + ")"
	}
}
