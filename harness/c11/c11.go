// Package c11: programs of defflavor / defmethod / defwhopper forms over small flavor DAGs, evaluated on
// the real interpreter in many admissible orders (components before users, a flavor before its methods).
// After each history every flavor is observed: class precedence, inherit list, defaults of a fresh
// instance, init keywords, method table shapes (Flavor.Simplify), trace and value of (send inst msg) and
// of Instance.BoundReceive. The observations go to C11/Corr.v; independently of any model, all orders of
// one program must yield identical observations.
package c11

import (
	"encoding/json"
	"fmt"
	"sort"
	"strings"
	"time"

	"github.com/ohler55/slip"
	"github.com/ohler55/slip/pkg/flavors"
	"verifharness/common"
)

var trace []int64

type tr11 struct{ slip.Function }

func (f *tr11) Call(s *slip.Scope, args slip.List, depth int) slip.Object {
	if n, ok := args[0].(slip.Fixnum); ok {
		trace = append(trace, int64(n))
	}
	return args[0]
}

// c11rec records the plist handed to :init
var recorded slip.Object
var recordedSet bool

type rec11 struct{ slip.Function }

func (f *rec11) Call(s *slip.Scope, args slip.List, depth int) slip.Object {
	// args[0] is the &rest list of the whopper: (plist)
	recordedSet = true
	recorded = nil
	if l, ok := args[0].(slip.List); ok && len(l) > 0 {
		recorded = l[0]
	}
	return nil
}

func defineTr() {
	defer func() { _ = recover() }()
	slip.Define(
		func(args slip.List) slip.Object {
			f := tr11{Function: slip.Function{Name: "c11tr", Args: args}}
			f.Self = &f
			return &f
		},
		&slip.FuncDoc{Name: "c11tr", Args: []*slip.DocArg{{Name: "id", Type: "fixnum"}}, Return: "fixnum",
			Text: "verification trace"},
		&slip.UserPkg)
	slip.Define(
		func(args slip.List) slip.Object {
			f := rec11{Function: slip.Function{Name: "c11rec", Args: args}}
			f.Self = &f
			return &f
		},
		&slip.FuncDoc{Name: "c11rec", Args: []*slip.DocArg{{Name: "args", Type: "list"}}, Return: "object",
			Text: "verification: record the :init plist"},
		&slip.UserPkg)
}

// ---- programs ---------------------------------------------------------------------------------

type binding struct {
	Name int    `json:"name"`
	Val  *int64 `json:"val"` // nil = nil
}

type form struct {
	Kind   string    `json:"kind"` // flavor | method
	F      int       `json:"flavor"`
	Vars   []binding `json:"vars,omitempty"`
	Comps  []int     `json:"components,omitempty"`
	Keys   []binding `json:"keywords,omitempty"`
	Gets   string    `json:"gettable,omitempty"` // "", "all" or space separated variable indices
	Sets   string    `json:"settable,omitempty"`
	Inits  string    `json:"inittable,omitempty"`     // "", "all" or listed variable indices
	InitKW []int     `json:"init_keywords,omitempty"` // (:init-keywords ...) names (indices into keyNames)
	Reqs   []int     `json:"required_init_keywords,omitempty"`
	Daemon string    `json:"daemon,omitempty"` // primary before after whopper
	Msg    string    `json:"message,omitempty"`
	ID     int       `json:"id,omitempty"`
	Cont   bool      `json:"continue,omitempty"`
	Twice  bool      `json:"continue_twice,omitempty"` // the whopper calls (continue-whopper) twice: a retry
	Alt    bool      `json:"alt_syntax,omitempty"` // whopper written as (defmethod (f :whopper m)) / primary as (f :primary m)
	Lisp   string    `json:"lisp,omitempty"`
	Out    string    `json:"outcome,omitempty"`
}

var varNames = []string{"x", "y"}
// init keyword names; the first two are also the names of the variables: one name can be an inittable
// instance variable (declared by one flavor) and an init keyword (declared by another)
var keyNames = []string{":x", ":y", ":k1", ":k2"}

// what make-instance is given: the keyword names plus one no flavor declares
var initNames = []string{":x", ":y", ":k1", ":k2", ":zz"}

// message -> (Lisp keyword, Gallina term)
var msgs = []struct{ lisp, coq string }{
	{":init", "MUser 0"}, {":go", "MUser 1"}, {":hop", "MUser 2"}, {":x", "MGet 0"}, {":y", "MGet 1"}, {":set-x", "MSet 0"},
}

func msgIndex(l string) int {
	for i, m := range msgs {
		if m.lisp == l {
			return i
		}
	}
	panic("message " + l)
}

var daemonCoq = map[string]string{"primary": "DPrimary", "before": "DBefore", "after": "DAfter", "whopper": "DWhopper"}

func accCoq(a string) string {
	switch a {
	case "":
		return "AccNone"
	case "all":
		return "AccAll"
	}
	return "(AccList [" + strings.Join(strings.Fields(a), "; ") + "])"
}

func gval(v *int64) string {
	if v == nil {
		return "None"
	}
	return "(Some " + common.GZ(*v) + ")"
}

func gbindings(bs []binding) string {
	items := make([]string, len(bs))
	for i, b := range bs {
		items[i] = fmt.Sprintf("(%d, %s)", b.Name, gval(b.Val))
	}
	return common.GList(items)
}

func gnats(xs []int) string {
	items := make([]string, len(xs))
	for i, x := range xs {
		items[i] = fmt.Sprint(x)
	}
	return common.GList(items)
}

func (f *form) coq() string {
	if f.Kind == "flavor" {
		keys := append([]binding{}, f.Keys...)
		for _, k := range f.InitKW {
			keys = append(keys, binding{Name: k})
		}
		return fmt.Sprintf("DFlavor %d %s %s %s %s %s {| io_inits := %s; io_reqs := %s |}", f.F, gbindings(f.Vars), gnats(f.Comps),
			gbindings(keys), accCoq(f.Gets), accCoq(f.Sets), accCoq(f.Inits), gnats(f.Reqs))
	}
	cont := common.GBool(f.Cont)
	if f.Cont && f.Twice {
		cont = "CTwice"
	}
	return fmt.Sprintf("DMethod %d %s (%s) %d %s", f.F, daemonCoq[f.Daemon], msgs[msgIndex(f.Msg)].coq, f.ID, cont)
}

func lispVal(v *int64) string {
	if v == nil {
		return "nil"
	}
	return fmt.Sprint(*v)
}

func accLisp(opt, a string) string {
	switch a {
	case "":
		return ""
	case "all":
		return " " + opt
	}
	var names []string
	for _, ix := range strings.Fields(a) {
		var i int
		fmt.Sscan(ix, &i)
		names = append(names, varNames[i])
	}
	return " (" + opt + " " + strings.Join(names, " ") + ")"
}

func (f *form) lisp(name func(int) string) string {
	if f.Kind == "flavor" {
		var vs, cs, ks []string
		for _, b := range f.Vars {
			if b.Val == nil {
				vs = append(vs, varNames[b.Name])
			} else {
				vs = append(vs, fmt.Sprintf("(%s %d)", varNames[b.Name], *b.Val))
			}
		}
		for _, c := range f.Comps {
			cs = append(cs, name(c))
		}
		opts := ""
		if len(f.Keys) > 0 {
			for _, b := range f.Keys {
				ks = append(ks, fmt.Sprintf("(%s %s)", keyNames[b.Name], lispVal(b.Val)))
			}
			opts += " (:default-init-plist " + strings.Join(ks, " ") + ")"
		}
		if len(f.InitKW) > 0 {
			var ns []string
			for _, k := range f.InitKW {
				ns = append(ns, keyNames[k])
			}
			opts += " (:init-keywords " + strings.Join(ns, " ") + ")"
		}
		opts += accLisp(":gettable-instance-variables", f.Gets) + accLisp(":settable-instance-variables", f.Sets)
		opts += accLisp(":inittable-instance-variables", f.Inits)
		if len(f.Reqs) > 0 {
			var ns []string
			for _, k := range f.Reqs {
				ns = append(ns, keyNames[k])
			}
			opts += " (:required-init-keywords " + strings.Join(ns, " ") + ")"
		}
		return fmt.Sprintf("(defflavor %s (%s) (%s)%s)", name(f.F), strings.Join(vs, " "), strings.Join(cs, " "), opts)
	}
	switch f.Daemon {
	case "whopper":
		body := fmt.Sprintf("(c11tr %d) (c11tr %d) %d", f.ID, -f.ID, f.ID)
		if f.Cont {
			body = fmt.Sprintf("(c11tr %d) (let ((r (continue-whopper))) (c11tr %d) r)", f.ID, -f.ID)
			if f.Twice {
				body = fmt.Sprintf("(c11tr %d) (continue-whopper) (let ((r (continue-whopper))) (c11tr %d) r)", f.ID, -f.ID)
			}
		}
		if f.Alt {
			return fmt.Sprintf("(defmethod (%s :whopper %s) (&rest args) %s)", name(f.F), f.Msg, body)
		}
		return fmt.Sprintf("(defwhopper (%s %s) (&rest args) %s)", name(f.F), f.Msg, body)
	case "primary":
		if f.Alt {
			return fmt.Sprintf("(defmethod (%s :primary %s) (&rest args) (c11tr %d) %d)", name(f.F), f.Msg, f.ID, f.ID)
		}
		return fmt.Sprintf("(defmethod (%s %s) (&rest args) (c11tr %d) %d)", name(f.F), f.Msg, f.ID, f.ID)
	}
	return fmt.Sprintf("(defmethod (%s :%s %s) (&rest args) (c11tr %d) %d)", name(f.F), f.Daemon, f.Msg, f.ID, f.ID)
}

func i64(v int64) *int64 { return &v }

// genProgram draws a DAG of n flavors (components among the earlier ones, as written in a random order),
// own defaults / keywords / accessors and nm method forms, at most one per (flavor, message, daemon).
func genProgram(r *common.Rng, n, nm int, ctx *common.Ctx) []form {
	var prog []form
	avail := make([]map[int]bool, n+1) // variables a flavor has, own or inherited
	for i := 1; i <= n; i++ {
		f := form{Kind: "flavor", F: i}
		avail[i] = map[int]bool{}
		if i > 1 {
			k := r.Intn(4) // 0..3 components
			if i > 2 && k == 0 && r.Chance(60) {
				k = 1 + r.Intn(2)
			}
			perm := r.Intn(1000)
			var cand []int
			for c := 1; c < i; c++ {
				cand = append(cand, c)
			}
			for j := 0; j < k && len(cand) > 0; j++ {
				// later flavors are preferred so that chains and diamonds appear
				ix := (perm + j*7) % len(cand)
				if r.Chance(50) {
					ix = len(cand) - 1 - r.Intn((len(cand)+1)/2)
				}
				// siblings: the same first component as the flavor before (two flavors built on one base)
				if j == 0 && n > 5 && len(prog) > 0 && len(prog[len(prog)-1].Comps) > 0 && r.Chance(45) {
					for x, c := range cand {
						if c == prog[len(prog)-1].Comps[0] {
							ix = x
						}
					}
				}
				c := cand[ix]
				cand = append(cand[:ix], cand[ix+1:]...)
				f.Comps = append(f.Comps, c)
				for v := range avail[c] {
					avail[i][v] = true
				}
			}
			if len(f.Comps) == 2 && r.Chance(8) { // a component written twice
				f.Comps = append(f.Comps, f.Comps[0])
			}
		}
		for v := range varNames {
			if r.Chance(45) {
				b := binding{Name: v, Val: i64(int64(100*i + v))}
				if r.Chance(15) {
					b.Val = nil
				}
				f.Vars = append(f.Vars, b)
				avail[i][v] = true
			}
		}
		if len(f.Vars) == 2 && r.Bool() {
			f.Vars[0], f.Vars[1] = f.Vars[1], f.Vars[0]
		}
		for k := range keyNames {
			p := 35
			if k < len(varNames) {
				p = 14 // a keyword with the name of a variable
			}
			switch {
			case r.Chance(p):
				b := binding{Name: k, Val: i64(int64(200*i + k))}
				if r.Chance(15) {
					b.Val = nil
				}
				f.Keys = append(f.Keys, b)
			case r.Chance(14):
				f.InitKW = append(f.InitKW, k)
			}
		}
		if r.Chance(12) { // required init keywords: among the flavor's own keywords that are not variable names
			for _, b := range f.Keys {
				if b.Name >= len(varNames) && r.Chance(70) {
					f.Reqs = append(f.Reqs, b.Name)
				}
			}
			for _, k := range f.InitKW {
				if k >= len(varNames) && r.Chance(70) {
					f.Reqs = append(f.Reqs, k)
				}
			}
		}
		var have []string
		for v := range varNames {
			if avail[i][v] {
				have = append(have, fmt.Sprint(v))
			}
		}
		switch x := r.Intn(100); {
		case x < 25:
			f.Gets = "all"
		case x < 45 && len(have) > 0:
			f.Gets = common.Pick(r, have)
			if len(have) == 2 && r.Bool() {
				f.Gets = strings.Join(have, " ")
			}
		}
		switch x := r.Intn(100); {
		case x < 22:
			f.Inits = "all"
		case x < 45 && len(have) > 0:
			f.Inits = common.Pick(r, have)
			if len(have) == 2 && r.Chance(30) {
				f.Inits = strings.Join(have, " ")
			}
		}
		if f.Inits != "" {
			ctx.Hist("inittable:" + map[bool]string{true: "all", false: "listed"}[f.Inits == "all"])
		}
		switch x := r.Intn(100); {
		case x < 12:
			f.Sets = "all"
		case x < 25 && avail[i][0]:
			f.Sets = "0"
		}
		ctx.Hist(fmt.Sprintf("components:%d", len(f.Comps)))
		prog = append(prog, f)
	}
	used := map[string]bool{}
	focus := 1 + r.Intn(2) // :go or :hop
	id := 0
	for tries := 0; id < nm && tries < nm*8; tries++ {
		f := form{Kind: "method", F: 1 + r.Intn(n)}
		switch x := r.Intn(100); {
		case x < 60:
			f.Msg = msgs[focus].lisp
		case x < 72:
			f.Msg = ":init"
		case x < 80:
			f.Msg = msgs[3-focus].lisp
		case x < 92:
			f.Msg = ":x"
		case x < 96:
			f.Msg = ":y"
		default:
			f.Msg = ":set-x"
		}
		switch x := r.Intn(100); {
		case x < 27:
			f.Daemon = "primary"
		case x < 55:
			f.Daemon = "before"
		case x < 80:
			f.Daemon = "after"
		default:
			f.Daemon = "whopper"
		}
		if f.Daemon == "whopper" && !strings.HasPrefix(msgs[msgIndex(f.Msg)].coq, "MUser") {
			// (continue-whopper) passes no arguments on: keep whoppers off the accessor messages
			f.Msg = msgs[focus].lisp
		}
		key := fmt.Sprintf("%d/%s/%s", f.F, f.Msg, f.Daemon)
		if used[key] {
			continue
		}
		used[key] = true
		id++
		f.ID = id
		f.Cont = f.Daemon == "whopper" && r.Chance(85)
		f.Twice = f.Cont && r.Chance(25)
		if f.Twice {
			ctx.Hist("whopper-continues-twice")
		}
		f.Alt = r.Chance(30) && (f.Daemon == "whopper" || f.Daemon == "primary")
		ctx.Hist("daemon:" + f.Daemon)
		prog = append(prog, f)
	}
	return prog
}

// ready reports whether form i of prog may come next given the forms already placed
func ready(prog []form, placed []bool, i int) bool {
	f := &prog[i]
	if f.Kind == "flavor" {
		for _, c := range f.Comps {
			if !placed[c-1] { // flavor c is prog[c-1]
				return false
			}
		}
		return true
	}
	return placed[f.F-1]
}

// allOrders enumerates the admissible orders (indices into prog), up to limit
func allOrders(prog []form, limit int) [][]int {
	var res [][]int
	placed := make([]bool, len(prog))
	var cur []int
	var rec func()
	rec = func() {
		if len(res) >= limit {
			return
		}
		if len(cur) == len(prog) {
			res = append(res, append([]int{}, cur...))
			return
		}
		for i := range prog {
			if !placed[i] && ready(prog, placed, i) {
				placed[i] = true
				cur = append(cur, i)
				rec()
				cur = cur[:len(cur)-1]
				placed[i] = false
			}
		}
	}
	rec()
	return res
}

// sampleOrder draws one admissible order. mode 0: every flavor first, then the methods shuffled (methods
// defined after all inheriting flavors); 1: textual order, each flavor followed at once by its methods;
// 2: any ready form uniformly; 3: like 0 but the methods of base flavors last.
func sampleOrder(r *common.Rng, prog []form, mode int) []int {
	n := len(prog)
	placed := make([]bool, n)
	var order []int
	pick := func(pref func(i int) int) {
		best, bestScore := -1, -1
		var ties []int
		for i := 0; i < n; i++ {
			if placed[i] || !ready(prog, placed, i) {
				continue
			}
			s := pref(i)
			if s > bestScore {
				best, bestScore, ties = i, s, []int{i}
			} else if s == bestScore {
				ties = append(ties, i)
			}
		}
		_ = best
		c := ties[r.Intn(len(ties))]
		placed[c] = true
		order = append(order, c)
	}
	for len(order) < n {
		switch mode {
		case 0:
			pick(func(i int) int {
				if prog[i].Kind == "flavor" {
					return 1
				}
				return 0
			})
		case 1:
			pick(func(i int) int {
				if prog[i].Kind == "method" {
					return 1000 - prog[i].F
				}
				return 500 - prog[i].F
			})
		case 3:
			pick(func(i int) int {
				if prog[i].Kind == "flavor" {
					return 1000
				}
				return prog[i].F // methods of later (more derived) flavors first, base flavors last
			})
		default:
			pick(func(i int) int { return 0 })
		}
	}
	return order
}

// ---- observation --------------------------------------------------------------------------------

type sendObs struct {
	Msg   string  `json:"message"`
	Trace []int64 `json:"trace"`
	Res   string  `json:"result"`
}

type makeObs struct {
	Args  string            `json:"args"`
	Err   string            `json:"error,omitempty"`
	Vars  map[string]string `json:"vars,omitempty"`
	Plist string            `json:"init_plist,omitempty"`
}

type flavorObs struct {
	F       int                 `json:"flavor"`
	Prec    []string            `json:"precedence"`
	Inherit []string            `json:"inherit"`
	Vars    map[string]string   `json:"instance_vars"`
	Keys    map[string]string   `json:"keywords"`
	Makes   []makeObs           `json:"make_instance"`
	parts   []string
	baseArg string // the required init keywords (own and inherited) every plain make-instance is given
	Tables  map[string][]string `json:"tables"`
	Sends   []sendObs           `json:"sends"`
	Bound   []sendObs           `json:"bound_sends"`
	coq     string
}

type runner struct {
	ctx    *common.Ctx
	scope  *slip.Scope
	caseNo int
	// init argument lists per flavor, drawn once per program so that every order of it is asked the same
	makeLists map[int][][]int
}

func (rn *runner) resultOf(o common.Outcome) (coq, shown string) {
	switch {
	case o.Err == "":
		if fx, ok := o.Value.(slip.Fixnum); ok {
			return "RVal " + common.GZ(int64(fx)), fmt.Sprint(int64(fx))
		}
		if o.Value == nil {
			return "RNil", "nil"
		}
		return "ROther", o.Printed
	case o.Err == "invalid-method-error":
		return "RNoMethod", "!invalid-method"
	case o.Err == "unbound-variable":
		return "RUnbound", "!unbound-variable"
	}
	return "ROther", "!" + o.Err + ": " + o.Msg
}

func gtrace(t []int64) string {
	evs := make([]string, len(t))
	for i, x := range t {
		if x >= 0 {
			evs[i] = fmt.Sprintf("Ev %d", x)
		} else {
			evs[i] = fmt.Sprintf("EvEnd %d", -x)
		}
	}
	return common.GList(evs)
}

func anyToVal(v any) (coq, shown string) {
	switch tv := v.(type) {
	case nil:
		return "(Some None)", "nil"
	case int64:
		return "(Some (Some " + common.GZ(tv) + "))", fmt.Sprint(tv)
	case int:
		return "(Some (Some " + common.GZ(int64(tv)) + "))", fmt.Sprint(tv)
	}
	return "(Some (Some (-1)%Z))", fmt.Sprintf("?%v", v)
}

// observe one flavor; id maps Lisp flavor names of this case back to numbers
func (rn *runner) observe(f int, name string, id func(string) int, reqs map[int][]int) flavorObs {
	ob := flavorObs{F: f, Vars: map[string]string{}, Keys: map[string]string{}, Tables: map[string][]string{}}
	fl := flavors.Find(name)
	var parts []string
	parts = append(parts, fmt.Sprintf("o_f := %d", f))
	// class precedence
	var prec []string
	if o := common.EvalTimeout(rn.scope, fmt.Sprintf("(class-precedence '%s)", name), 2*time.Second); o.Err == "" {
		if l, ok := o.Value.(slip.List); ok {
			for _, e := range l {
				s := slip.ObjectString(e)
				ob.Prec = append(ob.Prec, s)
				if s == "instance" || s == "t" {
					continue
				}
				prec = append(prec, fmt.Sprint(id(s)))
			}
		}
	} else {
		ob.Prec = []string{"!" + o.Err}
	}
	parts = append(parts, "o_prec := "+common.GList(prec))
	simple, _ := fl.Simplify().(map[string]any)
	var inh []string
	if l, ok := simple["inherit"].([]any); ok {
		for _, e := range l {
			s := fmt.Sprint(e)
			ob.Inherit = append(ob.Inherit, s)
			inh = append(inh, fmt.Sprint(id(s)))
		}
	}
	parts = append(parts, "o_inherit := "+common.GList(inh))
	need := map[int]bool{}
	for _, k := range reqs[f] {
		need[k] = true
	}
	for _, s := range ob.Inherit {
		for _, k := range reqs[id(s)] {
			need[k] = true
		}
	}
	for k := range keyNames {
		if need[k] {
			ob.baseArg += " " + keyNames[k] + " 0"
		}
	}
	// defaults of a fresh instance
	var vitems []string
	mk := common.EvalTimeout(rn.scope, fmt.Sprintf("(make-instance '%s%s)", name, ob.baseArg), 2*time.Second)
	inst, _ := mk.Value.(*flavors.Instance)
	for v, vn := range varNames {
		if inst == nil {
			vitems = append(vitems, fmt.Sprintf("(%d, Some (Some (-2)%%Z))", v))
			ob.Vars[vn] = "!make-instance: " + mk.Err + " " + mk.Msg
			continue
		}
		if val, has := inst.Vars[vn]; has {
			var c, s string
			switch tv := val.(type) {
			case nil:
				c, s = "(Some None)", "nil"
			case slip.Fixnum:
				c, s = "(Some (Some "+common.GZ(int64(tv))+"))", fmt.Sprint(int64(tv))
			default:
				c, s = "(Some (Some (-1)%Z))", slip.ObjectString(val)
			}
			vitems = append(vitems, fmt.Sprintf("(%d, %s)", v, c))
			ob.Vars[vn] = s
		} else {
			vitems = append(vitems, fmt.Sprintf("(%d, None)", v))
			ob.Vars[vn] = "-"
		}
	}
	parts = append(parts, "o_vars := "+common.GList(vitems))
	// keywords
	kw, _ := simple["keywords"].(map[string]any)
	var kitems []string
	for k, kn := range keyNames {
		if val, has := kw[kn]; has {
			c, s := anyToVal(val)
			kitems = append(kitems, fmt.Sprintf("(%d, %s)", k, c))
			ob.Keys[kn] = s
		} else {
			kitems = append(kitems, fmt.Sprintf("(%d, None)", k))
			ob.Keys[kn] = "-"
		}
	}
	parts = append(parts, "o_keys := "+common.GList(kitems))
	// method tables
	shapes := map[string][]string{}
	if ml, ok := simple["methods"].([]any); ok {
		for _, me := range ml {
			mm, _ := me.(map[string]any)
			mname := fmt.Sprint(mm["name"])
			cl, _ := mm["combinations"].([]any)
			for _, ce := range cl {
				cm, _ := ce.(map[string]any)
				b := func(k string) bool { v, _ := cm[k].(bool); return v }
				from := fmt.Sprint(cm["from"])
				shapes[mname] = append(shapes[mname], fmt.Sprintf("(%d, (%s, %s, %s, %s))", id(from),
					common.GBool(b("whopper")), common.GBool(b("before")), common.GBool(b("primary")), common.GBool(b("after"))))
				d := from + ":"
				for _, k := range []string{"whopper", "before", "primary", "after"} {
					if b(k) {
						d += k[:1]
					}
				}
				ob.Tables[mname] = append(ob.Tables[mname], d)
			}
		}
	}
	var titems []string
	for _, m := range msgs {
		titems = append(titems, fmt.Sprintf("(%s, %s)", m.coq, common.GList(shapes[m.lisp])))
	}
	parts = append(parts, "o_tables := "+common.GList(titems))
	// sends
	var sitems, bitems []string
	for _, m := range msgs {
		arg, garg := "", "None"
		switch m.lisp {
		case ":set-x":
			arg, garg = " 41", "(Some 41%Z)"
		case ":init":
			arg = " nil"
		}
		rn.scope.Let(slip.Symbol("c11inst"), nil)
		mk := common.EvalTimeout(rn.scope, fmt.Sprintf("(setq c11inst (make-instance '%s%s))", name, ob.baseArg), 2*time.Second)
		if mk.Err != "" {
			sitems = append(sitems, fmt.Sprintf("(%s, %s, ([], ROther))", m.coq, garg))
			ob.Sends = append(ob.Sends, sendObs{Msg: m.lisp, Res: "!make-instance: " + mk.Err + " " + mk.Msg})
			continue
		}
		trace = trace[:0]
		o := common.EvalTimeout(rn.scope, fmt.Sprintf("(send c11inst %s%s)", m.lisp, arg), 3*time.Second)
		t := append([]int64{}, trace...)
		rc, rs := rn.resultOf(o)
		sitems = append(sitems, fmt.Sprintf("(%s, %s, (%s, %s))", m.coq, garg, gtrace(t), rc))
		ob.Sends = append(ob.Sends, sendObs{Msg: m.lisp, Trace: t, Res: rs})
		rn.ctx.Hist("send-result:" + strings.SplitN(rc, " ", 2)[0])
		if m.lisp == ":set-x" {
			continue // the bound setter takes its value from an unordered scope
		}
		// Instance.BoundReceive on a fresh instance
		mk = common.EvalTimeout(rn.scope, fmt.Sprintf("(setq c11inst (make-instance '%s%s))", name, ob.baseArg), 2*time.Second)
		bi, _ := mk.Value.(*flavors.Instance)
		if bi == nil {
			continue
		}
		trace = trace[:0]
		bo := boundSend(rn.scope, bi, m.lisp)
		bt := append([]int64{}, trace...)
		bc, bs := rn.resultOf(bo)
		bitems = append(bitems, fmt.Sprintf("(%s, (%s, %s))", m.coq, gtrace(bt), bc))
		ob.Bound = append(ob.Bound, sendObs{Msg: m.lisp, Trace: bt, Res: bs})
	}
	parts = append(parts, "o_sends := "+common.GList(sitems), "o_bound := "+common.GList(bitems))
	ob.parts = parts
	return ob
}

// observeMakes: (make-instance 'name k1 z1 ...) for every single init name and some larger argument lists in
// random order. What :init receives is recorded by a whopper defined on the flavor itself (it is the outermost
// one and does not continue), which is why this comes after every other observation of the case.
func (rn *runner) observeMakes(ob *flavorObs, name string) {
	if o := common.EvalTimeout(rn.scope, fmt.Sprintf("(defwhopper (%s :init) (&rest args) (c11rec args))", name), 2*time.Second); o.Err != "" {
		panic("C11: recording whopper: " + o.Err + " " + o.Msg)
	}
	lists, have := rn.makeLists[ob.F]
	if !have {
		lists = append(lists, []int{}) // no init arguments at all (required init keywords must then be missed)
	}
	for k := range initNames {
		if have {
			break
		}
		lists = append(lists, []int{k})
	}
	for n := 0; n < 7 && !have; n++ {
		var l []int
		for k := range initNames {
			p := 45
			if k == len(initNames)-1 {
				p = 12 // the undeclared one
			}
			if rn.ctx.Rng.Chance(p) {
				l = append(l, k)
			}
		}
		for i := len(l) - 1; i > 0; i-- {
			j := rn.ctx.Rng.Intn(i + 1)
			l[i], l[j] = l[j], l[i]
		}
		if len(l) >= 2 {
			lists = append(lists, l)
		}
	}
	rn.makeLists[ob.F] = lists
	var items []string
	for _, l := range lists {
		var largs, gargs []string
		for _, k := range l {
			z := int64(300 + 10*len(largs) + k)
			largs = append(largs, fmt.Sprintf("%s %d", initNames[k], z))
			gargs = append(gargs, fmt.Sprintf("(%d, %s)", k, common.GZ(z)))
		}
		recorded = nil
		recordedSet = false
		o := common.EvalTimeout(rn.scope, fmt.Sprintf("(make-instance '%s %s)", name, strings.Join(largs, " ")), 2*time.Second)
		mo := makeObs{Args: strings.Join(largs, " ")}
		inst, _ := o.Value.(*flavors.Instance)
		if o.Err != "" || inst == nil {
			mo.Err = o.Err + ": " + o.Msg
			items = append(items, fmt.Sprintf("(%s, None)", common.GList(gargs)))
			rn.ctx.Hist("make-instance:refused")
		} else {
			mo.Vars = map[string]string{}
			var vitems []string
			for v, vn := range varNames {
				if val, has := inst.Vars[vn]; has {
					switch tv := val.(type) {
					case nil:
						vitems = append(vitems, fmt.Sprintf("(%d, Some None)", v))
						mo.Vars[vn] = "nil"
					case slip.Fixnum:
						vitems = append(vitems, fmt.Sprintf("(%d, Some (Some %s))", v, common.GZ(int64(tv))))
						mo.Vars[vn] = fmt.Sprint(int64(tv))
					default:
						vitems = append(vitems, fmt.Sprintf("(%d, Some (Some (-1)%%Z))", v))
						mo.Vars[vn] = slip.ObjectString(val)
					}
				} else {
					vitems = append(vitems, fmt.Sprintf("(%d, None)", v))
					mo.Vars[vn] = "-"
				}
			}
			var pitems []string
			mo.Plist = slip.ObjectString(recorded)
			if !recordedSet {
				pitems = append(pitems, "(98, 0%Z)") // :init was not sent
				mo.Plist = "!no :init"
			}
			if pl, ok := recorded.(slip.List); ok {
				for i := 0; i+1 < len(pl); i += 2 {
					k := 99
					for j, n := range initNames {
						if slip.ObjectString(pl[i]) == n {
							k = j
						}
					}
					z := int64(-1)
					if fx, ok := pl[i+1].(slip.Fixnum); ok {
						z = int64(fx)
					}
					pitems = append(pitems, fmt.Sprintf("(%d, %s)", k, common.GZ(z)))
				}
			}
			items = append(items, fmt.Sprintf("(%s, Some (%s, %s))", common.GList(gargs), common.GList(vitems), common.GList(pitems)))
			rn.ctx.Hist("make-instance:accepted")
		}
		ob.Makes = append(ob.Makes, mo)
	}
	ob.parts = append(ob.parts, "o_makes := "+common.GList(items))
}

func boundSend(scope *slip.Scope, inst *flavors.Instance, msg string) (out common.Outcome) {
	ch := make(chan common.Outcome, 1)
	go func() {
		var o common.Outcome
		defer func() {
			if r := recover(); r != nil {
				if p, ok := r.(*slip.Panic); ok && p.Condition != nil {
					o.Err = string(p.Condition.Hierarchy()[0])
					o.Msg = p.Message
				} else if in, ok := r.(slip.Instance); ok {
					o.Err = string(in.Hierarchy()[0])
				} else {
					o.Err, o.Msg = "go-panic", fmt.Sprint(r)
				}
			}
			ch <- o
		}()
		o.Value = inst.BoundReceive(scope, msg, nil, 0)
		o.Printed = slip.ObjectString(o.Value)
	}()
	select {
	case o := <-ch:
		return o
	case <-time.After(3 * time.Second):
		return common.Outcome{Err: "timeout"}
	}
}

type caseDesc struct {
	Program int         `json:"program"`
	Order   string      `json:"order"`
	Forms   []form      `json:"forms"`
	Flavors []flavorObs `json:"flavors"`
}

// runHistory evaluates the forms in the given order with fresh flavor names and observes every flavor
// that ended up defined. Returns the Gallina case, its description and a canonical rendering of the
// observations (for the model-free comparison between orders).
func (rn *runner) runHistory(hist []form, nflav int) (string, caseDesc, string) {
	rn.caseNo++
	name := func(i int) string { return fmt.Sprintf("k%df%d", rn.caseNo, i) }
	id := func(s string) int {
		if s == "vanilla-flavor" {
			return 0
		}
		var c, i int
		if n, _ := fmt.Sscanf(s, "k%df%d", &c, &i); n == 2 && c == rn.caseNo {
			return i
		}
		return 999
	}
	var gforms, gouts []string
	forms := make([]form, len(hist))
	copy(forms, hist)
	for i := range forms {
		f := &forms[i]
		f.Lisp = f.lisp(name)
		// a defflavor builds the tables of the NEW flavor from those of its components: it must not touch the
		// table of any flavor that exists already (needs no model: the tables before and after are compared)
		var before map[int]string
		if f.Kind == "flavor" {
			before = rn.tableSigs(name, nflav)
		}
		o := common.EvalTimeout(rn.scope, f.Lisp, 3*time.Second)
		if before != nil {
			after := rn.tableSigs(name, nflav)
			for g, sig := range before {
				if after[g] != sig {
					var upto []string
					for j := 0; j <= i; j++ {
						if forms[j].Lisp == "" {
							forms[j].Lisp = forms[j].lisp(name)
						}
						upto = append(upto, forms[j].Lisp)
					}
					rn.ctx.Violate("a defflavor form changed the method table of a flavor defined earlier ("+name(g)+")",
						map[string]any{"forms": upto, "changed_flavor": name(g)}, after[g], sig)
				}
			}
		}
		oc := "Ok"
		switch {
		case o.Err == "":
		case strings.Contains(o.Msg, "already defined"):
			oc = "ErrExists"
		case o.Err == "class-not-found":
			oc = "ErrNoComponent"
		case f.Kind == "method" && o.Err == "type-error":
			oc = "ErrNoFlavor"
		default:
			oc = "ErrFuel" // anything else: no model outcome matches it
		}
		f.Out = oc
		if o.Err != "" {
			f.Out += " (" + o.Err + ": " + o.Msg + ")"
		}
		rn.ctx.Hist("form-outcome:" + oc)
		gforms = append(gforms, f.coq())
		gouts = append(gouts, oc)
	}
	reqs := map[int][]int{}
	for i := range forms {
		if forms[i].Kind == "flavor" && forms[i].Out == "Ok" {
			reqs[forms[i].F] = forms[i].Reqs
		}
	}
	var obs []flavorObs
	var gobs []string
	for i := 1; i <= nflav; i++ {
		if flavors.Find(name(i)) == nil {
			continue
		}
		obs = append(obs, rn.observe(i, name(i), id, reqs))
	}
	for k := range obs {
		rn.observeMakes(&obs[k], name(obs[k].F))
		obs[k].coq = "{| " + strings.Join(obs[k].parts, ";\n        ") + " |}"
		gobs = append(gobs, obs[k].coq)
	}
	term := fmt.Sprintf("{| k_forms := %s;\n     k_outs := %s;\n     k_obs := [%s] |}", common.GList(gforms), common.GList(gouts),
		strings.Join(gobs, ";\n       "))
	canon := strings.ReplaceAll(strings.Join(gobs, "\n"), fmt.Sprintf("k%df", rn.caseNo), "kf")
	return term, caseDesc{Forms: forms, Flavors: obs}, canon
}

// tableSigs: for every flavor of the case that exists, its method tables as Simplify shows them (message, and per
// combination the flavor it is from and which daemons it holds)
func (rn *runner) tableSigs(name func(int) string, nflav int) map[int]string {
	out := map[int]string{}
	for g := 1; g <= nflav; g++ {
		fl := flavors.Find(name(g))
		if fl == nil {
			continue
		}
		simple, _ := fl.Simplify().(map[string]any)
		var items []string
		if ml, ok := simple["methods"].([]any); ok {
			for _, me := range ml {
				mm, _ := me.(map[string]any)
				item := fmt.Sprint(mm["name"]) + "="
				cl, _ := mm["combinations"].([]any)
				for _, ce := range cl {
					cm, _ := ce.(map[string]any)
					item += fmt.Sprint(cm["from"]) + ":"
					for _, k := range []string{"whopper", "before", "primary", "after"} {
						if v, _ := cm[k].(bool); v {
							item += k[:1]
						}
					}
					item += ","
				}
				items = append(items, item)
			}
		}
		sort.Strings(items)
		out[g] = strings.Join(items, " ")
	}
	return out
}

// siblingPrograms: the systematic block "several flavors built on one shared base".  nb mixins, each with a :before
// daemon for :go, are combined by a base flavor; nt flavors are then built on (base own_t), own_t having a :before daemon
// and the primary for :go.  The base's combination list is built by inheritFlavor's appends (nb = 3, 5, 6, 7 leave spare
// capacity in its backing array), or gets an entry in front through defmethod (variant 2); the tops must each get a list
// of their own.  Variants: 0 every method before the flavor that inherits it; 1 the methods of the own flavors after the
// tops exist (insertMethod); 2 the base has a daemon of its own; 3 the base is the SECOND component.  Each program is run
// in two orders of the tops (and their own flavors), which must leave the same flavors behind.
type siblingProgram struct {
	forms [][]form
	n     int
	label string
}

func siblingPrograms() []siblingProgram {
	var out []siblingProgram
	for nb := 1; nb <= 7; nb++ {
		for _, nt := range []int{2, 3} {
			for variant := 0; variant < 4; variant++ {
				if nt == 3 && variant == 3 {
					continue
				}
				id := 0
				meth := func(f int, daemon string) form {
					id++
					return form{Kind: "method", F: f, Msg: ":go", Daemon: daemon, ID: id}
				}
				var pre []form
				var mixins []int
				for m := 1; m <= nb; m++ {
					pre = append(pre, form{Kind: "flavor", F: m}, meth(m, "before"))
					mixins = append(mixins, m)
				}
				base := nb + 1
				pre = append(pre, form{Kind: "flavor", F: base, Comps: mixins})
				if variant == 2 {
					pre = append(pre, meth(base, "before"))
				}
				n := base + 2*nt
				type top struct{ defs, late []form }
				var tops []top
				for t := 0; t < nt; t++ {
					own, tf := base+1+2*t, base+2+2*t
					var tp top
					ms := []form{meth(own, "before"), meth(own, "primary")}
					comps := []int{base, own}
					if variant == 3 {
						comps = []int{own, base}
					}
					tp.defs = append(tp.defs, form{Kind: "flavor", F: own})
					if variant == 1 {
						tp.late = ms
					} else {
						tp.defs = append(tp.defs, ms...)
					}
					tp.defs = append(tp.defs, form{Kind: "flavor", F: tf, Comps: comps})
					tops = append(tops, tp)
				}
				build := func(order []int) []form {
					h := append([]form{}, pre...)
					for _, t := range order {
						h = append(h, tops[t].defs...)
					}
					for _, t := range order {
						h = append(h, tops[t].late...)
					}
					return h
				}
				fwd, rev := make([]int, nt), make([]int, nt)
				for t := 0; t < nt; t++ {
					fwd[t], rev[t] = t, nt-1-t
				}
				out = append(out, siblingProgram{forms: [][]form{build(fwd), build(rev)}, n: n,
					label: fmt.Sprintf("siblings base-of-%d tops-%d variant-%d", nb, nt, variant)})
			}
		}
	}
	return out
}

// whopperPrograms: the systematic block "how often each whopper of a chain continues".  leaf <- mid <- base, a whopper
// for :go on each of the three, continuing 0, 1 or 2 times (all 27 assignments), a :before daemon and the primary on
// base, an :after daemon on mid; once with the whoppers defined after the flavors (insertMethod) and once before.
func whopperPrograms() []siblingProgram {
	var out []siblingProgram
	for code := 0; code < 27; code++ {
		cs := []int{code % 3, code / 3 % 3, code / 9}
		flav := []form{{Kind: "flavor", F: 1}, {Kind: "flavor", F: 2, Comps: []int{1}}, {Kind: "flavor", F: 3, Comps: []int{2}}}
		var meths []form
		id := 0
		add := func(f int, daemon string, c int) {
			id++
			meths = append(meths, form{Kind: "method", F: f, Msg: ":go", Daemon: daemon, ID: id, Cont: c > 0, Twice: c > 1})
		}
		for i, c := range cs {
			add(3-i, "whopper", c) // leaf first: the outermost
		}
		add(1, "before", 0)
		add(1, "primary", 0)
		add(2, "after", 0)
		h1 := append(append([]form{}, flav...), meths...)
		h2 := []form{flav[0]}
		for _, m := range meths {
			if m.F == 1 {
				h2 = append(h2, m)
			}
		}
		h2 = append(h2, flav[1])
		for _, m := range meths {
			if m.F == 2 {
				h2 = append(h2, m)
			}
		}
		h2 = append(h2, flav[2])
		for _, m := range meths {
			if m.F == 3 {
				h2 = append(h2, m)
			}
		}
		out = append(out, siblingProgram{forms: [][]form{h1, h2}, n: 3,
			label: fmt.Sprintf("whoppers leaf/mid/base continue %d/%d/%d times", cs[0], cs[1], cs[2])})
	}
	return out
}

// nontrivial: some flavor has a component and some method is defined on a flavor that another one inherits
func nontrivial(hist []form) bool {
	inherited := map[int]bool{}
	for _, f := range hist {
		if f.Kind == "flavor" {
			for _, c := range f.Comps {
				inherited[c] = true
			}
		}
	}
	for _, f := range hist {
		if f.Kind == "method" && inherited[f.F] {
			return true
		}
	}
	return false
}

func Run(ctx *common.Ctx) {
	defineTr()
	rn := &runner{ctx: ctx, scope: slip.NewScope()}
	nSmall, nLarge, nErr := 24, 230, 40
	if ctx.Thorough() {
		nSmall, nLarge, nErr = 150, 2500, 400
	}
	var terms []string
	var descs []any
	distinct := map[string]bool{}
	progNo := 0
	emit := func(prog []form, order []int, nflav int, label string, canon0 *string) {
		hist := make([]form, len(order))
		for i, ix := range order {
			hist[i] = prog[ix]
		}
		term, d, canon := rn.runHistory(hist, nflav)
		d.Program, d.Order = progNo, label
		ctx.Meta.Evaluations++
		if nontrivial(hist) {
			distinct[term] = true
		}
		terms = append(terms, term)
		descs = append(descs, d)
		if canon0 != nil {
			if *canon0 == "" {
				*canon0 = canon
			} else if *canon0 != canon {
				ctx.Violate("the same forms evaluated in two admissible orders leave different flavors behind", d,
					canon, *canon0)
			}
		}
		if len(terms)%211 == 1 {
			ctx.Sample(d)
		}
	}
	// small programs: every admissible order
	for p := 0; p < nSmall; p++ {
		progNo++
		rn.makeLists = map[int][][]int{}
		n := 2 + ctx.Rng.Intn(2)
		nm := 2 + ctx.Rng.Intn(2)
		if n == 3 && nm == 3 && ctx.Rng.Bool() {
			nm = 2
		}
		prog := genProgram(ctx.Rng, n, nm, ctx)
		orders := allOrders(prog, 40)
		ctx.Hist("small-program-orders:" + fmt.Sprint(len(orders)))
		canon := ""
		for k, o := range orders {
			emit(prog, o, n, fmt.Sprintf("all-orders %d/%d", k+1, len(orders)), &canon)
		}
	}
	// larger programs: sampled orders of four kinds
	for p := 0; p < nLarge; p++ {
		progNo++
		rn.makeLists = map[int][][]int{}
		n := 3 + ctx.Rng.Intn(3)
		if ctx.Rng.Chance(10) {
			n = 1 + ctx.Rng.Intn(2)
		}
		nm := 3 + ctx.Rng.Intn(12)
		if ctx.Rng.Chance(7) { // beyond the five flavors of the property text: wide hierarchies with siblings on one base
			n = 6 + ctx.Rng.Intn(4)
			nm = 8 + ctx.Rng.Intn(10)
		}
		prog := genProgram(ctx.Rng, n, nm, ctx)
		ctx.Hist(fmt.Sprintf("flavors:%d", n))
		canon := ""
		for mode, label := range []string{"flavors-then-methods", "textual", "random", "flavors-then-methods-base-last"} {
			emit(prog, sampleOrder(ctx.Rng, prog, mode), n, label, &canon)
		}
	}
	// the systematic block: flavors built on one shared base (every base size 1..7 x 2 or 3 tops x 4 variants, two orders each)
	for _, sp := range append(siblingPrograms(), whopperPrograms()...) {
		progNo++
		rn.makeLists = map[int][][]int{}
		canon := ""
		for k, h := range sp.forms {
			order := make([]int, len(h))
			for i := range order {
				order[i] = i
			}
			emit(h, order, sp.n, fmt.Sprintf("%s order-%d", sp.label, k+1), &canon)
		}
		ctx.Hist("sibling-block-programs")
	}
	// histories with forms that are not admissible: a method before its flavor, a flavor before one of its
	// components, a flavor defined twice (the implementation must refuse them and stay unchanged)
	for p := 0; p < nErr; p++ {
		progNo++
		rn.makeLists = map[int][][]int{}
		n := 2 + ctx.Rng.Intn(3)
		prog := genProgram(ctx.Rng, n, 2+ctx.Rng.Intn(6), ctx)
		order := sampleOrder(ctx.Rng, prog, 2)
		hist := make([]form, len(order))
		for i, ix := range order {
			hist[i] = prog[ix]
		}
		kind := ctx.Rng.Intn(3)
		switch kind {
		case 0: // move a random form to the front
			j := ctx.Rng.Intn(len(hist))
			f := hist[j]
			copy(hist[1:j+1], hist[:j])
			hist[0] = f
		case 1: // swap two forms
			a, b := ctx.Rng.Intn(len(hist)), ctx.Rng.Intn(len(hist))
			hist[a], hist[b] = hist[b], hist[a]
		case 2: // repeat a defflavor (with other contents) later on
			j := ctx.Rng.Intn(n)
			dup := prog[j]
			dup.Vars, dup.Comps = nil, nil
			hist = append(hist, dup)
		}
		ctx.Hist("inadmissible-kind:" + fmt.Sprint(kind))
		term, d, _ := rn.runHistory(hist, n)
		d.Program, d.Order = progNo, "with-inadmissible-forms"
		ctx.Meta.Evaluations++
		if nontrivial(hist) {
			distinct[term] = true
		}
		terms = append(terms, term)
		descs = append(descs, d)
	}
	ctx.Meta.DistinctNontrivial = len(distinct)
	ctx.Meta.Rule = "programs over 1..5 flavors (components: 0..3 earlier flavors as written, sometimes repeated; own defaults for x/y, " +
		":default-init-plist for :k1/:k2, :gettable/:settable-instance-variables bare or listed) and up to 14 defmethod/defwhopper forms " +
		"(primary/:before/:after/whopper on :init :go :hop :x :y :set-x); small programs in every admissible order (<=40), larger ones in " +
		"four sampled orders (all flavors first, textual, uniform, base methods last), plus histories with inadmissible forms; every " +
		"flavor observed through class-precedence, Simplify, make-instance, send and BoundReceive; flavors also carry " +
		":inittable-instance-variables (bare/listed), :init-keywords, :required-init-keywords, with keyword names that coincide with " +
		"variable names of other flavors, and every flavor is instantiated with each single init name and up to seven larger argument " +
		"lists (variables of the instance and the plist received by :init observed). A case is distinct by its forms+observations " +
		"and non-trivial when a method is defined on a flavor that another flavor inherits."
	header := "From C11 Require Import Model Spec Corr.\nOpen Scope nat_scope.\n"
	footer := "Definition res := Eval vm_compute in check_all cases.\nPrint res.\n" +
		"Definition sends_inside_guard := Eval vm_compute in guard_count cases.\nPrint sends_inside_guard.\n" +
		"Definition sends_outside_guard := Eval vm_compute in outside_count cases.\nPrint sends_outside_guard.\n" +
		"Definition make_instances := Eval vm_compute in make_count cases.\nPrint make_instances.\n" +
		"Definition make_instances_inside_guard := Eval vm_compute in make_guard_count cases.\nPrint make_instances_inside_guard.\n"
	ctx.WriteShards("cases", header, "case", footer, terms, descs, map[bool]int{true: 64, false: 16}[ctx.Thorough()])
	ctx.ReplayKnownLisp()
	replayBound(ctx)
}

// replayBound replays the witness of the (repaired) BoundInnerCall finding through the Go API.
func replayBound(ctx *common.Ctx) {
	raw, ok := ctx.Known["C11-bound-after-order"]
	if !ok {
		return
	}
	var w struct {
		Setup    string `json:"setup"`
		Flavor   string `json:"flavor"`
		Message  string `json:"message"`
		Observed string `json:"observed"`
	}
	if json.Unmarshal(raw, &w) != nil || w.Setup == "" {
		return
	}
	scope := slip.NewScope()
	if o := common.EvalTimeout(scope, w.Setup, 5*time.Second); o.Err != "" {
		ctx.KnownResult("C11-bound-after-order", false, "!setup: "+o.Err+" "+o.Msg)
		return
	}
	mk := common.EvalTimeout(scope, fmt.Sprintf("(make-instance '%s)", w.Flavor), 2*time.Second)
	inst, _ := mk.Value.(*flavors.Instance)
	if inst == nil {
		ctx.KnownResult("C11-bound-after-order", false, "!make-instance")
		return
	}
	trace = trace[:0]
	_ = boundSend(scope, inst, w.Message)
	var ss []string
	for _, t := range trace {
		ss = append(ss, fmt.Sprint(t))
	}
	got := strings.Join(ss, " ")
	ctx.KnownResult("C11-bound-after-order", got == w.Observed, got)
}

var _ = sort.Strings
