package c19

import (
	"fmt"
	"regexp"
	"strings"

	"verifharness/common"
)

// The classes section of a snapshot (pkg/gi/snapshot.go appendSnapshotClasses): classes by name, superclasses first.
// The block of class hierarchies is enumerated on every run and is the block of coq/C19/Classes.v: three names in every
// role of child(parent) + unrelated class, of a chain of three and of a class with two parents; four names in every role
// of a diamond. So the name order of the classes stands in every relation to their inheritance order, with unrelated
// classes in between.

type classDef struct {
	name   string
	supers []string
}

func permutations(l []string) [][]string {
	if len(l) == 0 {
		return [][]string{{}}
	}
	var out [][]string
	for _, p := range permutations(l[1:]) {
		for i := 0; i <= len(p); i++ {
			q := append(append(append([]string{}, p[:i]...), l[0]), p[i:]...)
			out = append(out, q)
		}
	}
	return out
}

func classBlock() [][]classDef {
	var out [][]classDef
	n3 := []string{"c19a", "c19m", "c19z"}
	n4 := []string{"c19a", "c19g", "c19m", "c19z"}
	for _, p := range permutations(n3) {
		out = append(out, []classDef{{p[0], nil}, {p[1], nil}, {p[2], []string{p[0]}}})
	}
	for _, p := range permutations(n3) {
		out = append(out, []classDef{{p[0], nil}, {p[1], []string{p[0]}}, {p[2], []string{p[1]}}})
	}
	for _, p := range permutations(n3) {
		out = append(out, []classDef{{p[0], nil}, {p[1], nil}, {p[2], []string{p[0], p[1]}}})
	}
	for _, p := range permutations(n4) {
		out = append(out, []classDef{{p[0], nil}, {p[1], []string{p[0]}}, {p[2], []string{p[0]}}, {p[3], []string{p[1], p[2]}}})
	}
	return out
}

// classSession: the definitions, a variable holding an instance of the last class, probes of own and inherited slots.
func classSession(h []classDef, k int) (forms, probes []string) {
	for i, c := range h {
		// c19-shared: a slot every class with fewer than two direct superclasses defines with its own initform; a class
		// with two parents inherits it, from the parent that comes first in its precedence
		shared := fmt.Sprintf(" (c19-shared :initform %d)", 1000+10*k+i)
		if len(c.supers) > 1 {
			shared = ""
		}
		forms = append(forms, fmt.Sprintf("(defclass %s (%s) ((%s-s :initarg :%s-s :initform %d)%s) (:documentation \"class %s\"))",
			c.name, strings.Join(c.supers, " "), c.name, c.name, 10*k+i, shared, c.name))
	}
	last := h[len(h)-1].name
	forms = append(forms, fmt.Sprintf("(defparameter *ci* (make-instance '%s :%s-s '(x %d)))", last, last, k))
	for _, c := range h {
		probes = append(probes, fmt.Sprintf("(slot-value (make-instance '%s) '%s-s)", c.name, c.name))
		// an inherited slot (an error for an unrelated class, in both processes)
		probes = append(probes, fmt.Sprintf("(slot-value (make-instance '%s) '%s-s)", last, c.name))
		probes = append(probes, fmt.Sprintf("(slot-value *ci* '%s-s)", c.name))
		// a slot every class of the hierarchy defines with its own initform: the value an instance gets depends on the
		// precedence of its class, hence on the ORDER of the direct superclasses (coq/C19/Reload.v inherit_list)
		probes = append(probes, fmt.Sprintf("(slot-value (make-instance '%s) 'c19-shared)", c.name))
	}
	return
}

var defclassRe = regexp.MustCompile(`^\(defclass ([^ ()]+) (?:\(([^()]*)\)|nil)`)

// classCase reads the hierarchy off the session's forms and the written order off the snapshot's user forms and renders
// the Gallina CCase; ok is false when the session defines no class.
func classCase(forms []string, snap1 []string) (term string, ok bool) {
	var h, written []string
	seen := map[string]bool{}
	for _, f := range forms {
		if m := defclassRe.FindStringSubmatch(f); m != nil && !seen[m[1]] {
			seen[m[1]] = true
			var sups []string
			for _, s := range strings.Fields(m[2]) {
				sups = append(sups, gStr(s))
			}
			h = append(h, "("+gStr(m[1])+", "+common.GList(sups)+")")
		}
	}
	if len(h) == 0 {
		return "", false
	}
	for _, f := range snap1 {
		if m := defclassRe.FindStringSubmatch(f); m != nil {
			written = append(written, gStr(m[1]))
		}
	}
	return "CCase " + common.GList(h) + " " + common.GList(written), true
}

// classFormsCase renders the Gallina KCase: the hierarchy of the session and the (name, direct superclasses) of the
// defclass forms of the snapshot, superclasses in the order they are written.
func classFormsCase(forms []string, snap1 []string) (term string, ok bool) {
	read := func(fs []string, first bool) (h []string) {
		seen := map[string]bool{}
		for _, f := range fs {
			if m := defclassRe.FindStringSubmatch(f); m != nil && !(first && seen[m[1]]) {
				seen[m[1]] = true
				var sups []string
				for _, s := range strings.Fields(m[2]) {
					sups = append(sups, gStr(s))
				}
				h = append(h, "("+gStr(m[1])+", "+common.GList(sups)+")")
			}
		}
		return
	}
	h := read(forms, true)
	if len(h) == 0 {
		return "", false
	}
	return "KCase " + common.GList(h) + " " + common.GList(read(snap1, false)), true
}
