package c19

import (
	"fmt"
	"strings"

	"verifharness/common"
)

// Objects that offer a load form but are not data: packages, classes and their instances, flavors and their
// instances, generic functions with their methods, functions. Process A defines them and pretty prints the load
// form of one object at several margins; for each distinct text a fresh process B gets the prerequisites, evaluates
// the text and answers the same probes. No model: judged on the implementation.

type objCase struct {
	name    string
	prereq  []string // needed in B before the load form is evaluated
	own     []string // what builds the object in A (not given to B)
	object  string   // expression whose value's load form is taken
	bind    bool     // B binds the evaluated load form to *obj* (instances); otherwise it is evaluated for effect
	probes  []string
}

func genObjCases(r *common.Rng) []objCase {
	n := func(lo, hi int) int { return lo + r.Intn(hi-lo+1) }
	var cs []objCase
	// a class, alone and with a superclass (slots without readers / writers / accessors: those are written with the
	// plural keywords :readers :writers :accessors, which defclass rejects [C19-class-accessors-keyword])
	d1, d2 := n(1, 90), n(1, 90)
	base := fmt.Sprintf("(defclass cbase () ((b1 :initarg :b1 :initform %d :documentation \"slot b1\") (b2 :allocation :class :initform :shared)) (:documentation \"a base class\"))", d1)
	kid := fmt.Sprintf("(defclass ckid (cbase) ((k1 :initarg :k1 :initform %d) (k2 :initform \"s\") k3) (:default-initargs :b1 %d))", d2, d1+1)
	cs = append(cs, objCase{name: "class", own: []string{base}, object: "(find-class 'cbase)",
		probes: []string{"(slot-value (make-instance 'cbase) 'b1)", "(slot-value (make-instance 'cbase :b1 5) 'b1)", "(slot-value (make-instance 'cbase) 'b2)", "(documentation 'cbase 'type)",
			"(let ((a (make-instance 'cbase)) (b (make-instance 'cbase))) (setf (slot-value a 'b2) 1) (slot-value b 'b2))"}})
	cs = append(cs, objCase{name: "class-with-superclass", prereq: []string{base}, own: []string{kid}, object: "(find-class 'ckid)",
		probes: []string{"(slot-value (make-instance 'ckid) 'k1)", "(slot-value (make-instance 'ckid) 'b1)", "(slot-value (make-instance 'ckid) 'k2)",
			"(slot-value (make-instance 'ckid :k1 7 :b1 8) 'k1)", "(slot-value (make-instance 'ckid :b1 8) 'b1)"}})
	cs = append(cs, objCase{name: "class-instance", prereq: []string{base, kid},
		own:    []string{fmt.Sprintf("(defparameter *obj* (make-instance 'ckid :k1 %d :b1 %d))", n(100, 200), n(100, 200))},
		object: "*obj*", bind: true,
		probes: []string{"(slot-value *obj* 'k1)", "(slot-value *obj* 'b1)", "(slot-value *obj* 'k2)"}})
	acc := fmt.Sprintf("(defclass cacc () ((a1 :initarg :a1 :initform %d :accessor cacc-a1)))", d1)
	cs = append(cs, objCase{name: "class-with-accessor", own: []string{acc}, object: "(find-class 'cacc)",
		probes: []string{"(cacc-a1 (make-instance 'cacc :a1 5))"}})
	// flavors: a component and a flavor that lists one of its variables again with another default
	fb := fmt.Sprintf("(defflavor fbase ((size %d) (color \"red\")) () :gettable-instance-variables :settable-instance-variables :inittable-instance-variables)", d1)
	fk := fmt.Sprintf("(defflavor fkid ((size %d) extra) (fbase) :gettable-instance-variables :settable-instance-variables)", d1+n(1, 9))
	cs = append(cs, objCase{name: "flavor", own: []string{fb}, object: "'fbase",
		probes: []string{"(send (make-instance 'fbase) :size)", "(send (make-instance 'fbase :size 3) :size)", "(send (make-instance 'fbase) :color)"}})
	cs = append(cs, objCase{name: "flavor-overriding-default", prereq: []string{fb}, own: []string{fk}, object: "'fkid",
		probes: []string{"(send (make-instance 'fkid) :size)", "(send (make-instance 'fkid) :color)", "(send (make-instance 'fkid) :extra)"}})
	cs = append(cs, objCase{name: "flavor-instance", prereq: []string{fb, fk},
		own:    []string{fmt.Sprintf("(defparameter *obj* (make-instance 'fbase :size %d))", n(100, 200)), "(send *obj* :set-color \"blue\")"},
		object: "*obj*", bind: true, probes: []string{"(send *obj* :size)", "(send *obj* :color)"}})
	// instances whose slots hold lists, symbols, tables and other instances (repo_fixes/C19-9)
	cs = append(cs, objCase{name: "flavor-instance-holding-data", prereq: []string{fb, fk},
		own: []string{"(defparameter *obj* (make-instance 'fbase :size '(1 (2 \"two\") x)))",
			"(send *obj* :set-color (make-instance 'fbase :size 'sym :color (let ((table (make-hash-table))) (setf (gethash 'k table) '(a b)) table)))"},
		object: "*obj*", bind: true,
		probes: []string{"(send *obj* :size)", "(send (send *obj* :color) :size)", "(gethash 'k (send (send *obj* :color) :color))"}})
	cs = append(cs, objCase{name: "class-instance-holding-data", prereq: []string{base, kid},
		own:    []string{"(defparameter *obj* (make-instance 'ckid))", "(setf (slot-value *obj* 'k3) '(p (q 2) \"r\"))", "(setf (slot-value *obj* 'k2) 'sym)"},
		object: "*obj*", bind: true, probes: []string{"(slot-value *obj* 'k3)", "(slot-value *obj* 'k2)", "(slot-value *obj* 'k1)"}})
	// a package
	pk := fmt.Sprintf("(defpackage \"pkq\" (:use \"cl\" \"cl-user\") (:nicknames \"pkq-n%d\" \"pkq-m\") (:export \"fq\" \"gq\"))", n(1, 9))
	cs = append(cs, objCase{name: "package", own: []string{pk}, object: "(find-package \"pkq\")",
		probes: []string{"(package-nicknames (find-package \"pkq\"))", "(mapcar 'package-name (package-use-list (find-package \"pkq\")))"}})
	// a generic function with methods, and a function with defaults
	g1 := "(defgeneric gq (a b) (:documentation \"a generic\"))"
	g2 := fmt.Sprintf("(defmethod gq ((a fixnum) (b string)) (list a b %d))", n(1, 90))
	g3 := "(defmethod gq ((a string) (b t)) (let (p q) (setq p a q b) (list q p)))"
	cs = append(cs, objCase{name: "generic-function", own: []string{g1, g2, g3}, object: "'gq",
		probes: []string{"(gq 1 \"s\")", "(gq \"s\" 2)", "(documentation 'gq 'function)"}})
	f1 := fmt.Sprintf("(defun fq (x &optional (y %d) (z (list x y)) &key (k \"s\") (m (+ x 1)) j) \"a function\" (let* ((v (+ x y)) (w (* v 2))) (when (> w 0) (setq v w x (+ x 1))) (list v w x k j z m)))", n(1, 90))
	cs = append(cs, objCase{name: "function", own: []string{f1}, object: "'fq",
		probes: []string{"(fq 1)", "(fq 1 2 :j 3)", "(fq -5 1 :k 4)", "(documentation 'fq 'function)"}})
	m1 := "(defmacro mq (x &optional (y (list 1 2))) (cond ((numberp x) (list '+ x y)) (t (list 'list x y))))"
	cs = append(cs, objCase{name: "macro", own: []string{m1}, object: "'mq", probes: []string{"(mq 1)", "(mq 1 5)", "(macroexpand-1 '(mq (car z)))"}})
	return cs
}

// checkObjects runs the object cases; known is the set of case names whose failure on the unchanged tree is a
// recorded finding (they are still run, to notice when they start to work).
func checkObjects(ctx *common.Ctx, r *common.Rng, dir string, known map[string]bool) {
	margins := []int{20, 120, 20 + r.Intn(101)}
	for i, c := range genObjCases(r) {
		ctx.Hist("object:" + c.name)
		defs := append(append([]string{}, c.prereq...), c.own...)
		a, err := runJob(dir, 20000+10*i, &Job{Define: defs, Probes: c.probes, LoadFormOf: c.object, Margins: margins})
		if err != nil || len(a.LoadForms) != len(margins) {
			ctx.Violate("the worker process failed on an object case", c, fmt.Sprint(err), nil)
			continue
		}
		seen := map[string]bool{}
		for k, text := range a.LoadForms {
			if seen[text] {
				continue
			}
			seen[text] = true
			ctx.Meta.Evaluations++
			what := fmt.Sprintf("the pretty-printed load form of a %s, evaluated in a fresh process, does not rebuild it", c.name)
			in := map[string]any{"definitions": defs, "object": c.object, "margin": margins[k]}
			var problems []string
			if strings.HasPrefix(text, "!") {
				problems = append(problems, "no load form: "+text)
			} else {
				bdefs := append([]string{}, c.prereq...)
				if c.bind {
					bdefs = append(bdefs, "(defparameter *obj* "+strings.TrimSpace(text)+")")
				} else {
					bdefs = append(bdefs, text)
				}
				b, err := runJob(dir, 20000+10*i+1+k, &Job{Define: bdefs, Probes: c.probes})
				if err != nil {
					problems = append(problems, "worker failed")
				} else {
					if last := b.Define[len(b.Define)-1]; strings.HasPrefix(last, "!") {
						problems = append(problems, "evaluating the load form: "+last+" "+b.DefineMsg[len(b.DefineMsg)-1])
					}
					for j := range c.probes {
						if a.Probes[j] != b.Probes[j] {
							problems = append(problems, fmt.Sprintf("%s: original %s rebuilt %s", c.probes[j], a.Probes[j], b.Probes[j]))
						}
					}
				}
			}
			if len(problems) == 0 {
				continue
			}
			if known[c.name] {
				ctx.Hist("object-known-failure:" + c.name)
				continue
			}
			ctx.Violate(what, in, map[string]any{"load_form_text": text, "problems": problems}, "the same answers to every probe")
		}
	}
}
