package c19

import (
	"fmt"
	"regexp"
	"strings"

	"verifharness/common"
)

// The functions section of a snapshot (pkg/gi/snapshot.go appendSnapshotFunctions; model coq/C19/Reload.v fun_section):
// per package that has user functions a line (in-package "P") and the definitions, at the end a line back to the package
// that was current when the snapshot was taken. The block enumerated on every run: common-lisp-user and two user packages
// (created in that order, which is the order of slip.AllPackages), every non-empty subset of them holding functions (one
// of them also a macro), and each of the three as the package that is current while the snapshot is taken: 7 x 3 sessions.

type pkgCase struct {
	cur  string
	funs [][]string // per package of pkgOrder: the names the functions section writes, in its order (macros first)
}

var pkgOrder = []string{"common-lisp-user", "c19pa", "c19pb"}

func pkgBlock() (out []pkgCase) {
	names := [][]string{{"c19f-cu"}, {"c19m-pa", "c19f-pa"}, {"c19f-pb"}}
	for mask := 1; mask < 8; mask++ {
		for _, cur := range pkgOrder {
			c := pkgCase{cur: cur}
			for i := range pkgOrder {
				if mask&(1<<i) != 0 {
					c.funs = append(c.funs, names[i])
				} else {
					c.funs = append(c.funs, nil)
				}
			}
			out = append(out, c)
		}
	}
	return
}

// pkgSession: the definitions (each function made while its package is current), the switch to the package of the
// snapshot, and probes: every name through every package, the current package, a call without a qualifier.
func pkgSession(c pkgCase, k int) (forms, probes []string) {
	forms = append(forms, `(defpackage "c19pa" (:use "cl" "cl-user"))`, `(defpackage "c19pb" (:use "cl" "cl-user"))`)
	for i, p := range pkgOrder {
		if len(c.funs[i]) == 0 {
			continue
		}
		forms = append(forms, fmt.Sprintf("(in-package %q)", p))
		for _, f := range c.funs[i] {
			if strings.HasPrefix(f, "c19m") {
				forms = append(forms, fmt.Sprintf("(defmacro %s (x) \"macro of %s\" (list '+ x %d))", f, p, k))
			} else {
				forms = append(forms, fmt.Sprintf("(defun %s (x) \"function of %s\" (+ x %d))", f, p, 100+k+i))
			}
		}
	}
	forms = append(forms, fmt.Sprintf("(in-package %q)", c.cur))
	probes = append(probes, "(package-name *package*)")
	for i := range pkgOrder {
		for _, f := range c.funs[i] {
			probes = append(probes, fmt.Sprintf("(%s 3)", f))
			for _, q := range pkgOrder {
				probes = append(probes, fmt.Sprintf("(%s::%s 3)", q, f))
				probes = append(probes, fmt.Sprintf("(package-name (symbol-package '%s::%s))", q, f))
			}
		}
	}
	return
}

var (
	inPackageRe = regexp.MustCompile(`^\(in-package "([^"]+)"\)\s*$`)
	defFunRe    = regexp.MustCompile(`^\((?:defun|defmacro) ([^ ()]+)[ \n]`)
)

// funLines reads the lines of the functions section off the whole text of a snapshot: the in-package forms and the names
// of the defun / defmacro forms, in the order they are written.
func funLines(snapshot string) (lines []string) {
	for _, ch := range chunks(snapshot) {
		if m := inPackageRe.FindStringSubmatch(ch); m != nil {
			lines = append(lines, "InPkg "+gStr(m[1]))
		} else if m := defFunRe.FindStringSubmatch(ch); m != nil {
			lines = append(lines, "Def "+gStr(m[1]))
		}
	}
	return
}

// pkgTerm renders the Gallina FCase: the package of the snapshot, the packages with their functions in the order of
// AllPackages, the observed lines.
func pkgTerm(c pkgCase, snapshot string) string {
	var ps []string
	for i, p := range pkgOrder {
		var fs []string
		for _, f := range c.funs[i] {
			fs = append(fs, gStr(f))
		}
		ps = append(ps, "("+gStr(p)+", "+common.GList(fs)+")")
	}
	return "FCase " + gStr(c.cur) + " " + common.GList(ps) + " " + common.GList(funLines(snapshot))
}
