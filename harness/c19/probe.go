package c19

import (
	"fmt"
	"os"
	"strings"

	"verifharness/common"
)

// Probe (runner C19P): a development aid. $VERIF_C19_SESSION names a file with the session's forms separated by
// blank lines, then a line "----", then probe expressions (one per line). Prints what the two processes did.
func Probe(ctx *common.Ctx) {
	data, err := os.ReadFile(os.Getenv("VERIF_C19_SESSION"))
	if err != nil {
		panic(err)
	}
	parts := strings.SplitN(string(data), "\n----\n", 2)
	var defs, probes []string
	for _, f := range strings.Split(parts[0], "\n\n") {
		if strings.TrimSpace(f) != "" {
			defs = append(defs, f)
		}
	}
	if len(parts) > 1 {
		for _, l := range strings.Split(parts[1], "\n") {
			if strings.TrimSpace(l) != "" {
				probes = append(probes, l)
			}
		}
	}
	dir, _ := os.MkdirTemp("", "verif-c19p-")
	defer os.RemoveAll(dir)
	base, err := runJob(dir, 0, &Job{Snapshot: true})
	if err != nil {
		panic(err)
	}
	baseSet := map[string]bool{}
	bf, _ := readAll(base.Snapshot)
	for _, f := range bf {
		baseSet[flat(f)] = true
	}
	a, err := runJob(dir, 1, &Job{Define: defs, Snapshot: true, Probes: probes})
	if err != nil {
		panic(err)
	}
	for i, d := range defs {
		fmt.Printf("define %-60.60s => %s %s\n", strings.ReplaceAll(d, "\n", " "), a.Define[i], a.DefineMsg[i])
	}
	if d := os.Getenv("VERIF_C19_DUMP"); d != "" {
		_ = os.WriteFile(d, []byte(a.Snapshot), 0o644)
	}
	fmt.Println("---- snapshot 1 (user part) ----", a.SnapErr)
	fmt.Println(userText(a.Snapshot, baseSet))
	b, err := runJob(dir, 2, &Job{LoadText: a.Snapshot, Snapshot: true, Probes: probes})
	if err != nil {
		panic(err)
	}
	fmt.Println("---- load ----", b.ReadErr)
	for _, fo := range b.Load {
		if fo.Outcome != "ok" || !baseSet[fo.Form] {
			fmt.Printf("%-100.100s => %s %s\n", fo.Form, fo.Outcome, fo.Msg)
		}
	}
	fmt.Println("---- snapshot 2 vs 1 ----", b.SnapErr)
	if stripHeader(a.Snapshot) == stripHeader(b.Snapshot) {
		fmt.Println("SAME TEXT")
	} else {
		fmt.Println(userText(b.Snapshot, baseSet))
	}
	fmt.Println("---- probes ----")
	for i, p := range probes {
		mark := "   "
		if a.Probes[i] != b.Probes[i] {
			mark = "!!!"
		}
		fmt.Printf("%s %-50s  A: %s   B: %s %s\n", mark, p, a.Probes[i], b.Probes[i], b.ProbeMsg[i])
	}
	os.Exit(0)
}

func stripHeader(s string) string {
	if i := strings.IndexByte(s, '\n'); i >= 0 && strings.HasPrefix(s, ";;;; Snapshot taken at") {
		return s[i+1:]
	}
	return s
}

// userText lists the forms of a snapshot that are not in the baseline snapshot of an empty session.
func userText(snap string, baseSet map[string]bool) string {
	forms, rerr := readAll(snap)
	var b strings.Builder
	if rerr != "" {
		b.WriteString("READ ERROR " + rerr + "\n")
	}
	for _, f := range forms {
		if s := flat(f); !baseSet[s] {
			b.WriteString(s)
			b.WriteByte('\n')
		}
	}
	return b.String()
}
