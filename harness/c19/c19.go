// Package c19: load forms of data x pretty-printer margins, and sessions -> snapshot -> fresh process -> load ->
// snapshot (text fixed point + behaviour of the restored definitions).
package c19

import (
	"fmt"
	"os"
	"strings"

	"github.com/ohler55/slip"
	"github.com/ohler55/slip/pp"
	"verifharness/common"
)

type dataObs struct {
	Value   string            `json:"value"`
	Form    string            `json:"load_form"`
	Eval    string            `json:"evaluated"`
	Equal   bool              `json:"equal"`
	Texts   map[string]string `json:"texts,omitempty"`
	Problem string            `json:"problem,omitempty"`
}

func safe(f func()) (perr string) {
	defer func() {
		if r := recover(); r != nil {
			o := classify(r)
			perr = o.Err
			if common.Fault(o.Msg) {
				perr = "fault"
			}
			if perr == "" {
				perr = "error"
			}
		}
	}()
	f()
	return ""
}

// observeData: LoadForm, then per margin: pp.Append -> ReadOne -> (Eval | ListToFunc) -> Equal, the way
// sliptest.LoadForm does it.
func observeData(v slip.Object, margins []int) (term string, d dataObs, ok bool) {
	d.Value = readable(v)
	var form slip.Object
	lf, isLF := v.(slip.LoadFormer)
	if v == nil {
		isLF = false
	}
	gform := "FNone"
	if isLF {
		if perr := safe(func() { form = lf.LoadForm() }); perr != "" {
			gform = "(FErr " + gStr(perr) + ")"
			d.Form = "!" + perr
		} else {
			gform = "(FOk " + gObj(form) + ")"
			d.Form = readable(form)
		}
	}
	// evaluation of the flat form (margin-independent part)
	gres := "RNone"
	d.Texts = map[string]string{}
	var gtexts []string
	if strings.HasPrefix(gform, "(FOk") {
		evalOne := func(text []byte) (res string, shown string, equal bool) {
			var o2 slip.Object
			perr := safe(func() {
				scope := slip.NewScope()
				code, _ := slip.ReadOne(text, scope)
				if len(code) == 0 {
					panic(fmt.Errorf("nothing read"))
				}
				o2 = code[0]
				if list, isList := o2.(slip.List); isList {
					o2 = scope.Eval(list, 0)
				} else if sym, isSym := o2.(slip.Symbol); isSym {
					o2 = scope.Eval(sym, 0)
				}
			})
			if perr != "" {
				return "(RErr " + gStr(perr) + ")", "!" + perr, false
			}
			eq := false
			_ = safe(func() { eq = slip.ObjectEqual(v, o2) })
			if !eq && os.Getenv("VERIF_C19_DEBUG") != "" {
				fmt.Println("  DIFF", firstDiff(v, o2, ""))
			}
			return "(ROk " + gObj(o2) + ")", readable(o2), eq
		}
		flatText := []byte(readable(form))
		gres, d.Eval, d.Equal = evalOne(flatText)
		seen := map[string]bool{}
		for _, m := range margins {
			var text []byte
			perr := safe(func() {
				scope := slip.NewScope()
				scope.Let(slip.Symbol("*print-right-margin*"), slip.Fixnum(m))
				text = pp.Append(nil, scope, form)
			})
			if perr != "" {
				gtexts = append(gtexts, fmt.Sprintf("(%d%%N, TErr %s)", m, gStr(perr)))
				d.Texts[fmt.Sprint(m)] = "!" + perr
				continue
			}
			if seen[string(text)] {
				continue
			}
			seen[string(text)] = true
			r, _, eq := evalOne(text)
			same := r == gres && eq == d.Equal
			gtexts = append(gtexts, fmt.Sprintf("(%d%%N, TText %s %s)", m, gStr(string(text)), common.GBool(same)))
			d.Texts[fmt.Sprint(m)] = string(text)
		}
	}
	term = fmt.Sprintf("DCase %s %s %s %s %s", gObj(v), gform, gres, common.GBool(d.Equal), common.GList(gtexts))
	return term, d, true
}

func Run(ctx *common.Ctx) {
	g := &gen{r: ctx.Rng, hist: ctx.Hist}
	nvalues := 600
	if ctx.Thorough() {
		nvalues = 8000
	}
	var terms []string
	var descs []any
	distinct := map[string]bool{}
	debug := os.Getenv("VERIF_C19_DEBUG") != ""
	for i := 0; i < nvalues; i++ {
		symOK := g.r.Chance(25)
		v := g.value(3, symOK)
		margins := []int{20, 120, 20 + g.r.Intn(101), 20 + g.r.Intn(30), 40 + g.r.Intn(40)}
		term, d, ok := observeData(v, margins)
		if !ok {
			continue
		}
		if debug && !d.Equal {
			fmt.Printf("VALUE %s\n  FORM %s\n  EVAL %s equal=%v\n", d.Value, d.Form, d.Eval, d.Equal)
		}
		ctx.Meta.Evaluations++
		distinct[d.Value] = true
		terms = append(terms, term)
		descs = append(descs, d)
		if i%97 == 3 {
			ctx.Sample(d)
		}
	}
	ctx.Meta.DistinctNontrivial = len(distinct)
	ctx.Meta.Rule = "placeholder"
	header := "From Coq Require Import List String ZArith NArith Bool.\nImport ListNotations.\nFrom C19 Require Import Model Spec Corr.\n"
	footer := "Definition res := Eval vm_compute in check_all cases.\nPrint res.\n"
	ctx.WriteShards("cases", header, "case", footer, terms, descs, 16)
	ctx.ReplayKnownLisp()
}
