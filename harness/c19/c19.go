// Package c19: load forms of data x pretty-printer margins, and sessions -> snapshot -> fresh process -> load ->
// snapshot (text fixed point + behaviour of the restored definitions).
package c19

import (
	"fmt"
	"os"
	"runtime/debug"
	"strings"
	"time"

	"github.com/ohler55/slip"
	"github.com/ohler55/slip/pp"
	"verifharness/common"
)

type dataObs struct {
	Value   string            `json:"value"`
	Form    string            `json:"load_form"`
	Eval    string            `json:"evaluated"`
	Equal   bool              `json:"equal"`
	Texts   map[string]string `json:"texts,omitempty"`
	Problem string            `json:"problem,omitempty"`
}

func safe(f func()) (perr string) {
	defer func() {
		if r := recover(); r != nil {
			o := classify(r)
			perr = o.Err
			if common.Fault(o.Msg) {
				perr = "fault"
				if os.Getenv("VERIF_C19_STACK") != "" {
					fmt.Fprintf(os.Stderr, "FAULT %s\n%s\n", o.Msg, debug.Stack())
				}
			}
			if perr == "" {
				perr = "error"
			}
		}
	}()
	f()
	return ""
}

// observeData: LoadForm; the form evaluated directly; then per margin: pp.Append -> ReadOne -> Equal to the form? ->
// Eval -> Equal to the value? (the way sliptest.LoadForm does it).
func observeData(v slip.Object, margins []int) (term string, d dataObs, ok bool) {
	d.Value = readable(v)
	var form slip.Object
	lf, isLF := v.(slip.LoadFormer)
	if v == nil {
		isLF = false
	}
	gform := "FNone"
	if isLF {
		if perr := safe(func() { form = lf.LoadForm() }); perr != "" {
			gform = "(FErr " + gStr(perr) + ")"
			d.Form = "!" + perr
		} else {
			gform = "(FOk " + gObj(form) + ")"
			d.Form = readable(form)
		}
	}
	gres := "RNone"
	d.Texts = map[string]string{}
	var gtexts []string
	if strings.HasPrefix(gform, "(FOk") {
		evalForm := func(f slip.Object) (res string, shown string, equal bool) {
			var o2 slip.Object
			perr := safe(func() {
				scope := slip.NewScope()
				o2 = f
				if list, isList := f.(slip.List); isList {
					o2 = scope.Eval(list, 0)
				} else if sym, isSym := f.(slip.Symbol); isSym {
					o2 = scope.Eval(sym, 0)
				}
			})
			if perr != "" {
				return "(RErr " + gStr(perr) + ")", "!" + perr, false
			}
			eq := false
			_ = safe(func() { eq = slip.ObjectEqual(v, o2) })
			if !eq && os.Getenv("VERIF_C19_DEBUG") != "" {
				fmt.Println("  DIFF", firstDiff(v, o2, ""))
			}
			return "(ROk " + gObj(o2) + ")", readable(o2), eq
		}
		// the pretty-printed texts first: evaluating a (lambda ...) form compiles its body in place
		type tx struct {
			m    int
			text []byte
			perr string
		}
		var txs []tx
		seen := map[string]bool{}
		for _, m := range append([]int{0}, margins...) {
			var text []byte
			perr := safe(func() {
				if _, isSym := form.(slip.Symbol); isSym || m == 0 {
					// pp.Append (and pretty-print) given a symbol print what the symbol names (a function, a
					// class, a variable's value), by design; a bare symbol is printed by the plain printer.
					// Margin 0 stands for the plain printer's one-line text, the reference the others are read against.
					text = []byte(strictReadable(form) + "\n")
					return
				}
				scope := slip.NewScope()
				scope.Let(slip.Symbol("*print-right-margin*"), slip.Fixnum(m))
				text = pp.Append(nil, scope, form)
			})
			if perr == "" && seen[string(text)] && m != 0 {
				continue
			}
			seen[string(text)] = true
			txs = append(txs, tx{m, text, perr})
		}
		var form2 slip.Object
		_ = safe(func() { form2 = lf.LoadForm() })
		gres, d.Eval, d.Equal = evalForm(normForm(form2))
		for _, t := range txs {
			if t.perr != "" {
				gtexts = append(gtexts, fmt.Sprintf("(%d%%N, TErr %s)", t.m, gStr(t.perr)))
				d.Texts[fmt.Sprint(t.m)] = "!" + t.perr
				continue
			}
			var rf slip.Object
			readEq := false
			perr := safe(func() {
				code, _ := slip.ReadOne(t.text, slip.NewScope())
				if len(code) != 1 {
					panic(fmt.Errorf("read %d forms", len(code)))
				}
				rf = code[0]
				readEq = slip.ObjectEqual(form, rf) || gObj(form) == gObj(rf)
				if !readEq && os.Getenv("VERIF_C19_DEBUG") != "" {
					fmt.Println("  READDIFF", firstDiff(form, rf, ""), "TEXT", string(t.text))
				}
			})
			evalSame := false
			if perr == "" {
				r, _, _ := evalForm(rf)
				evalSame = r == gres
				if !evalSame && os.Getenv("VERIF_C19_DEBUG") != "" {
					fmt.Println("  EVALDIFF", r, "VS", gres, "TEXT", string(t.text))
				}
			}
			gtexts = append(gtexts, fmt.Sprintf("(%d%%N, TText %s %s %s)", t.m, gStr(string(t.text)), common.GBool(readEq), common.GBool(evalSame)))
			d.Texts[fmt.Sprint(t.m)] = string(t.text)
			if !readEq || !evalSame {
				d.Problem += fmt.Sprintf("margin %d: read-back equal to the form: %v, evaluates to the same: %v; ", t.m, readEq, evalSame)
			}
		}
	}
	term = fmt.Sprintf("DCase %s %s %s %s %s", gObj(v), gform, gres, common.GBool(d.Equal), common.GList(gtexts))
	return term, d, true
}

// spread interleaves the cases after position n (sessions) with the first n (values), keeping both orders.
func spread(terms []string, descs []any, n int) ([]string, []any) {
	if n <= 0 || n >= len(terms) {
		return terms, descs
	}
	a, b := n, len(terms)-n
	var ot []string
	var od []any
	i, j := 0, 0
	for i < a || j < b {
		// keep j/b close to i/a
		if j < b && (i >= a || j*a <= i*b) {
			ot, od = append(ot, terms[n+j]), append(od, descs[n+j])
			j++
		} else {
			ot, od = append(ot, terms[i]), append(od, descs[i])
			i++
		}
	}
	return ot, od
}

// normForm replaces empty slip.List values inside a form by nil, which is what printing and reading the form does
// (an empty list and nil are the same Lisp object; Go code that type-switches on slip.List tells them apart).
func normForm(o slip.Object) slip.Object {
	if l, ok := o.(slip.List); ok {
		if len(l) == 0 {
			return nil
		}
		c := make(slip.List, len(l))
		for i, e := range l {
			c[i] = normForm(e)
		}
		return c
	}
	return o
}

func Run(ctx *common.Ctx) {
	// common.NewRng(seed) starts SplitMix64 at seed*gamma+c, so the streams of two seeds are the same stream shifted by
	// (seed2-seed1) draws; a generator that uses a variable number of draws per case then produces nearly the same
	// cases for every seed. All choices below come from a second generator seeded by two (mixed) outputs of ctx.Rng.
	rng := common.NewRng(ctx.Rng.Next() ^ (ctx.Rng.Next() >> 7))
	g := &gen{r: rng, hist: ctx.Hist}
	if os.Getenv("VERIF_C19_SESSDEBUG") != "" {
		sessDebug(ctx, rng, 60, os.Getenv("VERIF_C19_SESSDEBUG") == "wild")
		os.Exit(0)
	}
	nvalues := 600
	if ctx.Thorough() {
		nvalues = 8000
	}
	t0 := time.Now()
	var terms []string
	var descs []any
	distinct := map[string]bool{}
	debug := os.Getenv("VERIF_C19_DEBUG") != ""
	for i := 0; i < nvalues; i++ {
		symOK := g.r.Chance(25)
		var v slip.Object
		if i%5 == 0 {
			// a lambda at top level (where it may carry a doc string) with a generated body: the vehicle for
			// every special layout of the pretty printer
			g.hist("kind:lambda-top-level")
			v = g.genLambda(g.r.Chance(30))
			if v == nil {
				v = g.safeValue(2)
			}
		} else if i%2 == 0 {
			g.safe = true // the shapes inside the guard, so that large values stay inside it
			v = g.safeValue(3)
			g.safe = false
		} else {
			v = g.value(3, symOK)
		}
		margins := []int{20, 120, 20 + g.r.Intn(101), 20 + g.r.Intn(30), 40 + g.r.Intn(40)}
		term, d, ok := observeData(v, margins)
		if !ok {
			continue
		}
		if debug && !d.Equal {
			fmt.Printf("VALUE %s\n  FORM %s\n  EVAL %s equal=%v\n", d.Value, d.Form, d.Eval, d.Equal)
		}
		ctx.Meta.Evaluations++
		distinct[d.Value] = true
		terms = append(terms, term)
		descs = append(descs, d)
		if i%97 == 3 {
			ctx.Sample(d)
		}
	}
	// the block of default forms, as lambda values
	for _, v := range defaultFormLambdas() {
		term, d, ok := observeData(v, []int{20, 120, 20 + g.r.Intn(101)})
		if !ok {
			continue
		}
		ctx.Hist("block:default-form-lambda")
		ctx.Meta.Evaluations++
		distinct[d.Value+d.Form] = true
		terms = append(terms, term)
		descs = append(descs, d)
	}
	nvalues = len(terms)
	checkCalls(ctx, rng)
	// ---- sessions -------------------------------------------------------------------------------
	dir, err := os.MkdirTemp("", "verif-c19-")
	if err != nil {
		panic(err)
	}
	defer os.RemoveAll(dir)
	base, err := mkBaseline(dir)
	if err != nil {
		panic(err)
	}
	ctx.Meta.Extra = map[string]any{"empty_session_snapshot_is_fixed_point": base.fixpoint, "empty_session_snapshot_loads": base.loadOK}
	if os.Getenv("VERIF_C19_TIMING") != "" {
		fmt.Fprintln(os.Stderr, "data part done", time.Since(t0))
	}
	// known finding C19-class-accessors-keyword
	checkObjects(ctx, rng, dir, map[string]bool{"class-with-accessor": true})
	nmod, next := 140, 110
	if ctx.Thorough() {
		nmod, next = 1500, 1200
	}
	// enumerated blocks first (every run, independent of the seed), then the random sessions
	type sessSpec struct {
		forms, probes []string
		wild, wildText bool
		tag            string
	}
	var specs []sessSpec
	bs, bp := defaultFormSessions()
	for k := range bs {
		specs = append(specs, sessSpec{bs[k], bp[k], false, false, "block:default-form-session"})
	}
	is, ip := instanceSlotSessions()
	for k := range is {
		specs = append(specs, sessSpec{is[k], ip[k], false, false, "block:instance-slot-session"})
	}
	ks, kp := constantInstanceSessions()
	for k := range ks {
		specs = append(specs, sessSpec{ks[k], kp[k], false, false, "block:constant-instance-session"})
	}
	for i := 0; i < nmod; i++ {
		wild := i%2 == 1
		forms, probes, wildText := genSession(rng, ctx.Hist, wild, true)
		tag := "session:modelled-tame"
		if wild {
			tag = "session:modelled-wild"
		}
		specs = append(specs, sessSpec{forms, probes, wild, wildText, tag})
	}
	for i, sp := range specs {
		forms, probes, wild, wildText := sp.forms, sp.probes, sp.wild, sp.wildText
		ts := time.Now()
		o, err := runSession(dir, 100+i, base, forms, probes, wild)
		if os.Getenv("VERIF_C19_TIMING") != "" && time.Since(ts) > 500*time.Millisecond {
			fmt.Fprintln(os.Stderr, "slow session", time.Since(ts), forms, o.Define, o.ProbeA, o.ProbeB)
		}
		if err != nil {
			ctx.Violate("the worker process failed on a session", forms, err.Error(), nil)
			continue
		}
		o.WildText = wildText
		for k, dres := range o.Define {
			if strings.HasPrefix(dres, "!") {
				o.Problems = append(o.Problems, "history form failed: "+forms[k]+" => "+dres)
				o.WildText = true // not a session the model speaks about
			}
		}
		term, ok := sessionTerm(o)
		if !ok {
			continue
		}
		ctx.Hist(sp.tag)
		ctx.Meta.Evaluations++
		distinct[strings.Join(forms, " ")] = true
		terms = append(terms, term)
		descs = append(descs, o)
		if i%41 == 2 {
			ctx.Sample(o)
		}
	}
	if os.Getenv("VERIF_C19_TIMING") != "" {
		fmt.Fprintln(os.Stderr, "modelled sessions done", time.Since(t0))
	}
	// sessions with the kinds of definition the Coq model does not cover (packages, flavors, generic functions):
	// generated inside the region where the unchanged code restores them; judged here, on the implementation alone
	// the enumerated block of class hierarchies first (42 sessions, every run), then the random sessions
	var cblock [][]classDef
	cblock = classBlock()
	// then the enumerated block of packages with functions x the package that is current while the snapshot is taken
	pblock := pkgBlock()
	// and the block of constants holding objects the model does not cover (class instances, a hash table holding an instance)
	kos, kop := constantObjectSessions()
	for i := 0; i < next+len(cblock)+len(pblock)+len(kos); i++ {
		var forms, probes []string
		tag := "session:extended-tame"
		var pc *pkgCase
		if i < len(cblock) {
			forms, probes = classSession(cblock[i], i)
			tag = "block:class-hierarchy-session"
		} else if j := i - len(cblock); j < len(pblock) {
			pc = &pblock[j]
			forms, probes = pkgSession(pblock[j], j)
			tag = "block:package-functions-session"
		} else if j := i - len(cblock) - len(pblock); j < len(kos) {
			forms, probes = kos[j], kop[j]
			tag = "block:constant-object-session"
		} else {
			forms, probes, _ = genSession(rng, ctx.Hist, false, false)
		}
		o, err := runSession(dir, 5000+i, base, forms, probes, false)
		if err != nil {
			ctx.Violate("the worker process failed on a session", forms, err.Error(), nil)
			continue
		}
		ctx.Hist(tag)
		ctx.Meta.Evaluations++
		distinct[strings.Join(forms, " ")] = true
		// the order of the classes section against the model (coq/C19/Classes.v) and the verified checker
		if term, ok := classCase(forms, o.Snap1); ok && !o.snapFail {
			ctx.Hist("case:class-order")
			terms = append(terms, term)
			descs = append(descs, map[string]any{"forms": forms, "snapshot1_user_forms": o.Snap1})
		}
		// the defclass forms of the snapshot (superclasses in the order written) against the model (coq/C19/Reload.v)
		if term, ok := classFormsCase(forms, o.Snap1); ok && !o.snapFail {
			ctx.Hist("case:class-forms")
			terms = append(terms, term)
			descs = append(descs, map[string]any{"forms": forms, "snapshot1_user_forms": o.Snap1})
		}
		// the lines of the functions section against the model (coq/C19/Reload.v fun_section)
		if pc != nil && !o.snapFail {
			ctx.Hist("case:function-section")
			terms = append(terms, pkgTerm(*pc, o.raw1))
			descs = append(descs, map[string]any{"forms": forms, "function_section": funLines(o.raw1)})
		}
		bad := len(o.Problems) > 0
		for k, dres := range o.Define {
			if strings.HasPrefix(dres, "!") {
				bad = true
				o.Problems = append(o.Problems, "history form failed: "+forms[k]+" => "+dres)
			}
		}
		if bad {
			ctx.Violate("a session of definitions inside the guard is not restored by its snapshot", o.Forms, o, "same text, same behaviour")
		}
	}
	if os.Getenv("VERIF_C19_TIMING") != "" {
		fmt.Fprintln(os.Stderr, "sessions done", time.Since(t0))
	}
	ctx.Meta.DistinctNontrivial = len(distinct)
	ctx.Meta.Rule = "(a) values: half generated inside the guard (nested lists, dotted lists, adjustable vectors, arrays of rank 2-3, hash tables, lambdas; atoms: fixnums incl. int64 limits, bignums, ratios, floats, characters, strings with quotes/backslashes/newlines/UTF-8, keywords, type symbols), half unrestricted (also plain and odd symbols, small bignums, non-adjustable and empty vectors, rank-0 and zero-size arrays, character/list keys, list values, lambdas with doc strings); per value: LoadForm, the form evaluated, and for 5 margins in 20..120 (20, 120 and three random) plus the plain printer: pp.Append -> ReadOne -> Eval -> Equal. every fifth value is a top-level lambda whose body is generated code over all 46 head-symbol templates the pretty printer has layouts for (never evaluated). (b) function calls from a pool plus 40 generated code forms x 3 margins (judged on the implementation). (b2) object load forms (class, class with superclass, class instance, flavor, flavor overriding a default, flavor instance, package, generic function, function, macro) pretty printed at 3 margins and evaluated in a fresh process with probes. (c) sessions of 3..12 definition forms (defvar, defparameter, setq, defconstant, defun with 6 lambda-list shapes and generated bodies over 34 special forms (let*, multi-pair setq, when/unless, cond, block, dotimes/dolist/do/do*/dovector, with-..., funcall/apply of lambdas, case, setf, incf, push/pop, unwind-protect, ...), defmacro with let*/setq/cond bodies), half tame, half wild (symbol values, list constants, unbound variables, forward calls, wild doc strings, backquote, function quote, multi-entry hash tables): fresh process -> snapshot -> fresh process -> load form by form -> snapshot -> probes of every variable, constant, function (several argument lists), macro and doc string in both processes. Modelled sessions also define one flavor without components and hold instances of it (init keywords, nested instances, the flavor object, lists, hash tables, lambdas in instance variables; (send v :set-x ...)). Enumerated on every run: the block of default forms (13 default shapes x {&optional,&key} x {defun, defmacro, lambda variable}; 26 lambda values) and the block of instance variable values (13 kinds x {init keyword, send, setq}). (d) 110 tame sessions that also define packages (constants in them, variables holding them), chains of flavors (re-declared defaults), variables holding instances directly or in hash tables, functions making instances, generic functions with specialised methods and generated bodies (judged on the implementation; send, slot-value and make-load-form probes); every class also defines the slot c19-shared with its own initform (the value depends on the order of the direct superclasses) and half of the sessions that end inside a user package take the snapshot there. Enumerated on every run: 42 class hierarchies (the defclass forms of the snapshot, superclass order included, against the model) and 21 sessions of {common-lisp-user, two user packages} x which of them hold functions x which is current at the snapshot (the lines of the functions section against the model). distinct = distinct printed values / histories"
	// spread the (more expensive) session cases evenly over the shards
	terms, descs = spread(terms, descs, nvalues)
	header := "From Coq Require Import List String ZArith NArith Bool.\nImport ListNotations.\nFrom C19 Require Import Model Spec Reload Corr.\n"
	footer := "Definition res := Eval vm_compute in check_all cases.\nPrint res.\nDefinition gcount := Eval vm_compute in guard_count cases.\nPrint gcount.\nDefinition class_cases := Eval vm_compute in class_case_count cases.\nPrint class_cases.\nDefinition class_ranked := Eval vm_compute in class_ranked_count cases.\nPrint class_ranked.\n"
	nshards := 16
	if ctx.Thorough() {
		nshards = 64 // a coqc process needs about 3 GB for 600 cases; the check evaluates 16 shards at a time
	}
	ctx.WriteShards("cases", header, "case", footer, terms, descs, nshards)
	ctx.ReplayKnownLisp()
	replayKnown(ctx, dir, base)
}
