package c19

import (
	"encoding/json"
	"os"
	"os/exec"
	"regexp"
	"strings"
	"time"

	"github.com/ohler55/slip"
	"github.com/ohler55/slip/pkg/generic"
	"github.com/ohler55/slip/pp"
	"verifharness/common"
)

// Job is what one fresh process does: evaluate Define (one outcome per form), load LoadText form by form
// (tolerantly: every top-level form under recover, outcomes recorded), take a snapshot, evaluate Probes.
type Job struct {
	Define   []string `json:"define,omitempty"`
	LoadText string   `json:"load_text,omitempty"`
	Snapshot bool     `json:"snapshot"`
	Probes   []string `json:"probes,omitempty"`
	// LoadFormOf: an expression whose value's load form (generic.ObjectLoadForm, what make-load-form returns) is
	// pretty printed at each of Margins
	LoadFormOf string `json:"load_form_of,omitempty"`
	Margins    []int  `json:"margins,omitempty"`
}

// FormOutcome is the outcome of one top-level form of a loaded text.
type FormOutcome struct {
	Form    string `json:"form"`
	Outcome string `json:"outcome"`
	Msg     string `json:"msg,omitempty"`
}

// Result is what the worker reports.
type Result struct {
	Define    []string      `json:"define"`
	DefineMsg []string      `json:"define_msg,omitempty"`
	ReadErr   string        `json:"read_error,omitempty"`
	Load      []FormOutcome `json:"load,omitempty"`
	Snapshot  string        `json:"snapshot"`
	SnapErr   string        `json:"snapshot_error,omitempty"`
	Probes    []string      `json:"probes"`
	ProbeMsg  []string      `json:"probe_msg,omitempty"`
	LoadForms []string      `json:"load_forms,omitempty"` // one text per margin, "!class" on failure
}

const evalLimit = 5 * time.Second

func readAll(text string) (forms slip.Code, err string) {
	defer func() {
		if r := recover(); r != nil {
			err = "read-error"
			if p, ok := r.(*slip.Panic); ok {
				err = "read-error: " + p.Message
			}
		}
	}()
	forms = slip.ReadString(text, slip.NewScope())
	return
}

func evalObj(s *slip.Scope, o slip.Object) common.Outcome {
	ch := make(chan common.Outcome, 1)
	go func() {
		var out common.Outcome
		defer func() {
			if r := recover(); r != nil {
				out = classify(r)
			}
			ch <- out
		}()
		out.Value = s.Eval(o, 0)
		out.Printed = slip.ObjectString(out.Value)
	}()
	select {
	case o := <-ch:
		return o
	case <-time.After(evalLimit):
		return common.Outcome{Err: "timeout"}
	}
}

func classify(r any) (out common.Outcome) {
	switch tr := r.(type) {
	case *slip.Panic:
		out.Err = "error"
		if tr.Condition != nil {
			out.Err = string(tr.Condition.Hierarchy()[0])
		}
		out.Msg = tr.Message
	case slip.Instance:
		out.Err = string(tr.Hierarchy()[0])
		if mv, has := tr.SlotValue(slip.Symbol("message")); has {
			if ms, ok := mv.(slip.String); ok {
				out.Msg = string(ms)
			}
		}
	case error:
		out.Err, out.Msg = "go-panic", tr.Error()
	default:
		out.Err, out.Msg = "go-panic", "panic"
	}
	return
}

// Worker is the fresh process: runners["C19W"].
func Worker(ctx *common.Ctx) {
	data, err := os.ReadFile(os.Getenv("VERIF_C19_JOB"))
	if err != nil {
		panic(err)
	}
	var job Job
	if err = json.Unmarshal(data, &job); err != nil {
		panic(err)
	}
	var res Result
	scope := slip.NewScope()
	for _, src := range job.Define {
		o := common.EvalTimeout(scope, src, evalLimit)
		res.Define = append(res.Define, common.ShowOutcome(o))
		res.DefineMsg = append(res.DefineMsg, o.Msg)
	}
	if job.LoadText != "" {
		forms, rerr := readAll(job.LoadText)
		res.ReadErr = rerr
		for _, f := range forms {
			o := evalObj(scope, f)
			fo := FormOutcome{Form: flat(f), Outcome: "ok", Msg: o.Msg}
			if o.Err != "" {
				fo.Outcome = common.ShowOutcome(o)
			}
			res.Load = append(res.Load, fo)
		}
	}
	if job.Snapshot {
		o := common.EvalTimeout(scope, "(snapshot nil)", 4*evalLimit)
		if o.Err != "" {
			res.SnapErr = common.ShowOutcome(o) + ": " + o.Msg
		} else if s, ok := o.Value.(slip.String); ok {
			res.Snapshot = string(s)
		}
	}
	if job.LoadFormOf != "" {
		o := common.EvalTimeout(scope, job.LoadFormOf, evalLimit)
		for _, m := range job.Margins {
			text := ""
			if o.Err != "" {
				text = "!" + o.Err
			} else {
				func() {
					defer func() {
						if r := recover(); r != nil {
							text = "!" + classify(r).Err
							if common.Fault(classify(r).Msg) {
								text = "!fault"
							}
						}
					}()
					form := generic.ObjectLoadForm(o.Value, true)
					ps := slip.NewScope()
					ps.Let(slip.Symbol("*print-right-margin*"), slip.Fixnum(m))
					text = string(pp.Append(nil, ps, form))
				}()
			}
			res.LoadForms = append(res.LoadForms, text)
		}
	}
	for _, src := range job.Probes {
		o := common.EvalTimeout(scope, src, evalLimit)
		res.Probes = append(res.Probes, stripAddr(common.ShowOutcome(o)))
		res.ProbeMsg = append(res.ProbeMsg, o.Msg)
	}
	out, _ := json.Marshal(&res)
	if err = os.WriteFile(os.Getenv("VERIF_C19_RESULT"), out, 0o644); err != nil {
		panic(err)
	}
	os.Exit(0)
}

var instAddr = regexp.MustCompile(`#<([a-z0-9*+-]+) [0-9a-f]{8,}>`)

// stripAddr removes the {c000123456} addresses slip prints for functions, methods and instances.
func stripAddr(s string) string {
	s = instAddr.ReplaceAllString(s, "#<$1>")
	for {
		i := strings.Index(s, " {c0")
		if i < 0 {
			i = strings.Index(s, " {0x")
		}
		if i < 0 {
			return s
		}
		j := strings.IndexByte(s[i:], '}')
		if j < 0 {
			return s
		}
		s = s[:i] + s[i+j+1:]
	}
}

// flat prints a form on one line, readably.
func flat(o slip.Object) string {
	p := *slip.DefaultPrinter()
	p.Readably = true
	p.Array = true
	p.Pretty = false
	p.RightMargin = 1000000
	return strings.TrimSpace(string(p.Append(nil, o, 0)))
}

// runJob runs a job in a fresh process (this binary, runner C19W).
func runJob(dir string, n int, job *Job) (*Result, error) {
	self, _ := os.Executable()
	jp := dir + "/job" + itoa(n) + ".json"
	rp := dir + "/res" + itoa(n) + ".json"
	data, _ := json.Marshal(job)
	if err := os.WriteFile(jp, data, 0o644); err != nil {
		return nil, err
	}
	cmd := exec.Command(self, "C19W", "--out", dir)
	cmd.Env = append(os.Environ(), "VERIF_C19_JOB="+jp, "VERIF_C19_RESULT="+rp)
	cmd.Dir = dir
	done := make(chan error, 1)
	if err := cmd.Start(); err != nil {
		return nil, err
	}
	go func() { done <- cmd.Wait() }()
	select {
	case err := <-done:
		if err != nil {
			return nil, err
		}
	case <-time.After(120 * time.Second):
		_ = cmd.Process.Kill()
		return nil, os.ErrDeadlineExceeded
	}
	out, err := os.ReadFile(rp)
	if err != nil {
		return nil, err
	}
	var res Result
	if err = json.Unmarshal(out, &res); err != nil {
		return nil, err
	}
	_ = os.Remove(jp)
	_ = os.Remove(rp)
	return &res, nil
}

func itoa(n int) string {
	if n == 0 {
		return "0"
	}
	s := ""
	for n > 0 {
		s = string(rune('0'+n%10)) + s
		n /= 10
	}
	return s
}
