package c19

import (
	"encoding/json"
	"fmt"
	"strings"

	"verifharness/common"
)

// sessWitness is the witness of a known finding about snapshots.
type sessWitness struct {
	Session  []string `json:"session"`
	Kind     string   `json:"kind"` // probe | load-failure | unreadable | snapshot-fault | text-unstable | empty-session
	Probe    string   `json:"probe"`
	Original string   `json:"original"`
	Observed string   `json:"observed"`
	Expected string   `json:"expected"`
}

// replayKnown replays the snapshot findings; the Lisp-level ones are replayed by ctx.ReplayKnownLisp.
func replayKnown(ctx *common.Ctx, dir string, base *baseline) {
	n := 9000
	for _, id := range common.SortedKeys(ctx.Known) {
		var w sessWitness
		if err := json.Unmarshal(ctx.Known[id], &w); err != nil || w.Kind == "" {
			continue
		}
		n += 10
		switch w.Kind {
		case "empty-session":
			ctx.KnownResult(id, !base.fixpoint || !base.loadOK,
				fmt.Sprintf("the empty session's snapshot: fixed point %v, every form loads %v", base.fixpoint, base.loadOK))
		case "probe":
			a, err := runJob(dir, n, &Job{Define: w.Session, Snapshot: true, Probes: []string{w.Probe}})
			if err != nil || len(a.Probes) != 1 {
				ctx.KnownResult(id, false, "worker failed")
				continue
			}
			b, err := runJob(dir, n+1, &Job{LoadText: a.Snapshot, Snapshot: true, Probes: []string{w.Probe}})
			if err != nil || len(b.Probes) != 1 {
				ctx.KnownResult(id, false, "worker failed")
				continue
			}
			// the defect is there when the original process answers as recorded and the restored one does not
			repro := a.Probes[0] == w.Original && b.Probes[0] != w.Original
			ctx.KnownResult(id, repro, fmt.Sprintf("original %s, restored %s", a.Probes[0], b.Probes[0]))
		case "load-failure":
			o, err := runSession(dir, n, base, w.Session, nil, true)
			if err != nil {
				ctx.KnownResult(id, false, "worker failed")
				continue
			}
			ctx.KnownResult(id, len(o.LoadFail) > 0, fmt.Sprintf("%d user forms fail to load %v", len(o.LoadFail), o.LoadFail))
		case "unreadable":
			a, err := runJob(dir, n, &Job{Define: w.Session, Snapshot: true})
			if err != nil {
				ctx.KnownResult(id, false, "worker failed")
				continue
			}
			_, rerr := readForms(a.Snapshot)
			ctx.KnownResult(id, rerr != "", "reading the snapshot: "+rerr)
		case "snapshot-fault":
			a, err := runJob(dir, n, &Job{Define: w.Session, Snapshot: true})
			if err != nil {
				ctx.KnownResult(id, false, "worker failed")
				continue
			}
			ctx.KnownResult(id, strings.HasPrefix(a.SnapErr, "!fault"), "snapshot: "+a.SnapErr)
		case "text-unstable":
			// the same session in several fresh processes: do the snapshot texts differ?
			texts := map[string]bool{}
			for k := 0; k < 8; k++ {
				a, err := runJob(dir, n, &Job{Define: w.Session, Snapshot: true})
				if err != nil {
					continue
				}
				texts[strings.Join(userChunks(a.Snapshot, base.set), "\n")] = true
			}
			ctx.KnownResult(id, len(texts) > 1, fmt.Sprintf("%d different texts in 8 fresh processes", len(texts)))
		}
	}
}
