package c19

import (
	"fmt"
	"strings"

	"github.com/ohler55/slip"
	"github.com/ohler55/slip/pp"
	"verifharness/common"
)

// Function calls (compiled code objects) offer a load form too: the source form. The way sliptest.LoadForm does it:
// LoadForm -> pp.Append at a margin -> ReadOne -> ListToFunc -> Equal to the original. No model; judged here.
var callPool = []string{
	"(+ 1 2)", "(car '(1 2))", "(list 1 \"s\" :k)", "(+ 1 (* 2 3) (- 4))", "(cons 1 '(2 3))", "(list)", "(length \"abc\")",
	"(if (> 2 1) (list 'a) (list 'b))", "(let ((x 1) (y 2)) (+ x y))", "(cond ((> 1 2) 'a) (t 'b))", "(format nil \"~A-~A\" 1 \"two words\")",
	"(append '(1 2) (list 3 4) '(\"a long string that needs more than twenty columns\"))", "(mapcar (lambda (x) (* x x)) '(1 2 3))",
	"(vector 1 2 (list 3 4))", "(concatenate 'string \"ab\" \"cd\")", "(nth 2 '(a b c d))", "(max 1 2.5 3/4)",
	"(setq some-var (+ 1 2))", "(progn 1 2 (list 3))", "(string-upcase \"q\\\"uote\")",
}

func checkCalls(ctx *common.Ctx, r *common.Rng) {
	// besides the pool: generated code forms (every special layout), compiled but never evaluated
	g := &gen{r: r, hist: ctx.Hist}
	pool := append([]string{}, callPool...)
	for i := 0; i < 40; i++ {
		src := g.codeForm(2)
		// where the pretty printer is known to fail (known findings C19-pp-nested-definition, C19-pp-empty-form)
		if strings.Contains(src, "(defvar") || strings.Contains(src, "(defparameter") || strings.Contains(src, "(defconstant") || strings.Contains(src, "(defflavor") {
			src = "(list " + g.codeAtom() + ")"
		}
		pool = append(pool, src)
	}
	for _, src := range pool {
		var f slip.Object
		if perr := safe(func() {
			code := slip.ReadString(src, slip.NewScope())
			code.Compile()
			f = code[0]
		}); perr != "" {
			continue
		}
		fk, isFunky := f.(slip.Funky)
		lf, isLF := f.(slip.LoadFormer)
		if !isFunky || !isLF {
			continue
		}
		_ = fk
		for _, m := range []int{20, 120, 20 + r.Intn(101)} {
			var back slip.Object
			var text []byte
			perr := safe(func() {
				form := lf.LoadForm()
				scope := slip.NewScope()
				scope.Let(slip.Symbol("*print-right-margin*"), slip.Fixnum(m))
				text = pp.Append(nil, scope, form)
				code, _ := slip.ReadOne(text, scope)
				code.Compile() // the original was compiled the same way
				back = code[0]
			})
			ctx.Hist("call:load-form-at-margin")
			ctx.Meta.Evaluations++
			ok := perr == ""
			if ok {
				_ = safe(func() { ok = slip.ObjectEqual(f, back) })
			}
			if !ok {
				ctx.Violate("the pretty-printed load form of a function call does not read back to an equal call",
					map[string]any{"call": src, "margin": m}, map[string]any{"text": string(text), "error": perr, "read_back": fmt.Sprint(back)}, "a call Equal to the original")
			}
		}
	}
}
