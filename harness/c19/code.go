package c19

import (
	"fmt"
	"strings"

	"github.com/ohler55/slip"
	"verifharness/common"
)

// Code forms for lambda bodies and function calls. They are only compiled, pretty printed and read back, never
// evaluated, so they need not make sense at run time; every head symbol that pp/append.go buildCall gives a layout
// of its own occurs, with argument counts at and beyond what the layout expects.

func (g *gen) codeAtom() string {
	return common.Pick(g.r, []string{"x", "y", "acc", "1", "-7", "2.5", "\"s\"", "\"two words\"", "\"q\\\"x\"", ":k", "nil", "t", "#\\a", "'sym", "'(a b)", "42", "(car x)"})
}

func (g *gen) codeForms(n, depth int) string {
	parts := make([]string, n)
	for i := range parts {
		parts[i] = g.codeForm(depth)
	}
	return strings.Join(parts, " ")
}

func sp(s string) string {
	if s == "" {
		return ""
	}
	return " " + s
}

func (g *gen) codeForm(depth int) string {
	if depth <= 0 {
		return fmt.Sprintf("(list %s %s)", g.codeAtom(), g.codeAtom())
	}
	a := g.codeAtom
	f := func() string { return g.codeForm(depth - 1) }
	body := func() string { return sp(g.codeForms(g.r.Intn(4), depth-1)) } // 0..3 forms
	body1 := func() string { return sp(g.codeForms(1+g.r.Intn(3), depth-1)) }
	k := g.r.Intn(46)
	g.hist(fmt.Sprintf("code:%02d", k))
	switch k {
	case 0:
		return fmt.Sprintf("(setq x %s)", f())
	case 1:
		return fmt.Sprintf("(setq x %s y %s)", a(), f())
	case 2:
		return fmt.Sprintf("(setq x %s y %s acc %s)", a(), f(), a())
	case 3:
		return fmt.Sprintf("(let ()%s)", body())
	case 4:
		return fmt.Sprintf("(let ((v %s))%s)", f(), body())
	case 5:
		return fmt.Sprintf("(let (u (v %s) (w %s))%s)", a(), f(), body1())
	case 6:
		return fmt.Sprintf("(let* ((v %s) (w (+ v 1)) (u w))%s)", f(), body1())
	case 7:
		return fmt.Sprintf("(lambda (q &optional (r %s))%s)", a(), body1())
	case 8:
		return fmt.Sprintf("(funcall (lambda (q) \"inner-doc\" %s) %s)", f(), a())
	case 9:
		return fmt.Sprintf("(defun inner-f (p &optional (q 2) &key (r %s)) \"inner-doc\"%s)", a(), body1())
	case 10:
		return fmt.Sprintf("(defmacro inner-m (p &body b) %s)", f())
	case 11:
		return common.Pick(g.r, []string{"(defvar *zz*)", "(defvar *zz* 5)", "(defvar *zz* (list 1 2) \"zz-doc\")",
			"(defparameter *zp* 1)", "(defparameter *zp* (+ 1 2) \"zp-doc\")", "(defconstant +zc+ 3)", "(defconstant +zc+ 3 \"zc-doc\")"})
	case 12:
		return "(cond)"
	case 13:
		return fmt.Sprintf("(cond ((> x 1)) ((< x 0) %s) (t %s %s %s))", a(), a(), f(), a())
	case 14:
		return fmt.Sprintf("(cond (%s %s))", f(), f())
	case 15:
		return fmt.Sprintf("(progn%s)", body())
	case 16:
		return fmt.Sprintf("(block blk%s)", body())
	case 17:
		return common.Pick(g.r, []string{"(defpackage \"pkz\")", "(defpackage \"pkz\" (:use \"cl\"))",
			"(defpackage \"pkz\" (:documentation \"pkz-doc\") (:nicknames \"z1\" \"z2\") (:use \"cl\" \"cl-user\") (:export \"f\" \"g\" \"h\"))"})
	case 18:
		return fmt.Sprintf("(dotimes (i 3)%s)", body())
	case 19:
		return fmt.Sprintf("(dotimes (i (+ 1 2) acc)%s)", body1())
	case 20:
		return fmt.Sprintf("(dolist (el %s)%s)", a(), body())
	case 21:
		return fmt.Sprintf("(dolist (el '(1 2 3) acc)%s)", body1())
	case 22:
		return fmt.Sprintf("(do ((i 0 (+ i 1)) (s %s) u) ((>= i 3) s)%s)", a(), body())
	case 23:
		return fmt.Sprintf("(do* ((i 0 (+ i 1))) ((>= i 3))%s)", body())
	case 24:
		return fmt.Sprintf("(do ((i 0 (+ i 1))) ((>= i 3) %s %s)%s)", a(), a(), body1())
	case 25:
		return fmt.Sprintf("(%s (sy \"cl\")%s)", common.Pick(g.r, []string{"do-symbols", "do-external-symbols"}), body())
	case 26:
		return fmt.Sprintf("(do-all-symbols (sy)%s)", body())
	case 27:
		return fmt.Sprintf("(dovector (el #(1 2 3) acc)%s)", body())
	case 28:
		return fmt.Sprintf("(with-input-from-string (s \"12 34\")%s)", body())
	case 29:
		return fmt.Sprintf("(with-output-to-string (s)%s)", body())
	case 30:
		return fmt.Sprintf("(with-open-file (fs \"out.txt\" :direction :output :if-exists :supersede)%s)", body())
	case 31:
		return fmt.Sprintf("(with-open-stream (st (make-string-input-stream \"abc\"))%s)", body())
	case 32:
		return fmt.Sprintf("(with-standard-io-syntax%s)", body1())
	case 33:
		return common.Pick(g.r, []string{"(make-instance 'foo)", "(make-instance 'foo :a 1)", "(make-instance 'foo :a 1 :b (list 2 3) :c \"s\")"})
	case 34:
		return common.Pick(g.r, []string{"(defflavor tf () ())", "(defflavor tf (a (b 2)) ())",
			"(defflavor tf ((a 1) (b \"s\") c) (tg th) :gettable-instance-variables (:settable-instance-variables a b) :inittable-instance-variables (:documentation \"tf-doc\"))"})
	case 35:
		return fmt.Sprintf("(defmethod (tf %s:go) (p q) \"method-doc\"%s)", common.Pick(g.r, []string{"", ":before ", ":after "}), body1())
	case 36:
		return fmt.Sprintf("(defwhopper (tf :go) (p)%s)", body1())
	case 37:
		return fmt.Sprintf("(defmethod area %s((s fixnum) (u string) v)%s)", common.Pick(g.r, []string{"", ":before ", ":around "}), body1())
	case 38:
		return common.Pick(g.r, []string{"(defgeneric area (s u))", "(defgeneric area (s u) (:documentation \"area-doc\"))",
			"(defgeneric area (s u) (:documentation \"area-doc\") (:method ((s fixnum) (u string)) (list s u)) (:method ((s string) (u t)) \"m-doc\" s u))"})
	case 39:
		return common.Pick(g.r, []string{"(defclass pt () ())", "(defclass pt (base) ((x :initarg :x :initform 0 :accessor pt-x) (y)))",
			"(defclass pt (base other) ((x :initarg :x :initform (list 1 2) :accessor pt-x :documentation \"x-doc\") (y :initform \"s\") z) (:documentation \"pt-doc\") (:default-initargs :x 1))"})
	case 40:
		return "(define-condition my-err (error) ((code :initarg :code :reader my-err-code)) (:documentation \"my-err\"))"
	case 41:
		return fmt.Sprintf("(when %s%s)", f(), body1())
	case 42:
		return fmt.Sprintf("(unless %s%s)", a(), body1())
	case 43:
		return fmt.Sprintf("(if %s %s %s)", f(), a(), f())
	case 44:
		return fmt.Sprintf("(case x (1 %s) ((2 3) %s %s) (t %s))", a(), a(), f(), a())
	default:
		return fmt.Sprintf("(format nil \"~A ~S~%%\" %s %s %s %s %s %s %s %s)", a(), f(), a(), a(), a(), f(), a(), a())
	}
}

// defaultFormLambdas: the block of default forms as lambda values (every shape x {&optional, &key}).
func defaultFormLambdas() []slip.Object {
	var out []slip.Object
	for _, d := range defaultForms {
		for _, ll := range []string{"(x &optional (y " + d + "))", "(x &key (y " + d + ") acc)"} {
			var v slip.Object
			if perr := safe(func() { v = common.EvalIn(slip.NewScope(), "(lambda "+ll+" (list x y))").Value }); perr == "" {
				if _, ok := v.(*slip.Lambda); ok {
					out = append(out, v)
				}
			}
		}
	}
	return out
}

// genLambda builds a lambda object from generated source text.
func (g *gen) genLambda(doc bool) slip.Object {
	ll := common.Pick(g.r, []string{"()", "(x)", "(x y)", "(x &optional (y 2))", "(x &rest acc)", "(x &key (y 3) acc)",
		"(x &optional (y (list x 1)))", "(x &optional (y (+ x 1)) &key (acc (cons x nil)))", "(x &key (y (if x 1 '(a b))) acc)"})
	src := "(lambda " + ll
	if doc {
		src += " \"doubles x\""
	}
	src += " " + g.codeForms(1+g.r.Intn(3), 2) + ")"
	var v slip.Object
	if perr := safe(func() { v = common.EvalIn(slip.NewScope(), src).Value }); perr != "" {
		return nil
	}
	if _, ok := v.(*slip.Lambda); !ok {
		return nil
	}
	return v
}
