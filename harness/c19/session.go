package c19

import (
	"fmt"
	"sort"
	"strings"

	"github.com/ohler55/slip"
	"verifharness/common"
)

// A session is a history of definition forms typed into a fresh process. Every form is generated as Lisp text;
// probes are expressions whose printed results are compared between the original and the restored process.

type sessGen struct {
	r       *common.Rng
	hist    func(string)
	forms   []string
	probes  []string
	funs    map[string]string // name -> lambda-list kind
	macros  map[string]bool
	vars    map[string]bool
	consts  map[string]bool
	constInst map[string]bool // constants whose value is or holds an instance (printed with an address: not probed bare)
	flavors []string
	classes []string
	pkgs    []string
	curPkg  string
	wild     bool // may leave the guard
	modelled bool // only the kinds of definition the Coq session model covers
	wildText bool // set when a text-level feature outside the model was used
	curFun     string
	flavorVars map[string][]flavorVar // every instance variable (own and inherited) with its default
	flavorInit map[string]bool        // :inittable-instance-variables
	flavorGet  map[string]bool
	flavorSet  map[string]bool
	instVars   map[string]bool        // variables holding instances (their printed value has an address)
	instOf     map[string]string      // variable -> flavor of the instance it holds now
	calls    map[string]map[string]bool // user function -> user functions and macros its body mentions
}

type flavorVar struct{ name, def string }

// reaches: does the body of function a (transitively) call b?
func (g *sessGen) reaches(a, b string, seen map[string]bool) bool {
	if a == b {
		return true
	}
	if seen[a] {
		return false
	}
	seen[a] = true
	for c := range g.calls[a] {
		if g.reaches(c, b, seen) {
			return true
		}
	}
	return false
}

var varNames = []string{"*va*", "*vb*", "*vc*", "*vd*", "*ve*", "*vf*"}
var constNames = []string{"+ca+", "+cb+", "+cc+"}
var funNames = []string{"fa", "fb", "fc", "fd", "fe", "ff", "fg", "za", "zb", "zc"}
var macNames = []string{"ma", "mb", "mc"}
var pkgNames = []string{"pka", "pkb"}
var flavorNames = []string{"fla", "flb", "flc"}
var genNames = []string{"ga", "gb"}
var classNames = []string{"cla", "clb", "clm", "clz", "aab"}

// double quotes and backslashes are escaped by the pretty printer since repo_fixes/C19-17
var shortDocs = []string{"a short doc", "doc two", "x", "counts things", "the 2nd value (approx.)", "has \\\"quote\\\" inside", "back\\\\slash", "say \\\"hi\\\" \\\\ twice"}
var wildDocs = []string{"has_underscore",
	"a long documentation string that goes on and on until it passes the right margin of one hundred and twenty columns, at which point the pretty printer wraps it",
	"two\\nlines"}

func (g *sessGen) doc() string {
	if g.wild && g.r.Chance(20) {
		g.hist("doc:wild")
		g.wildText = true
		return common.Pick(g.r, wildDocs)
	}
	g.hist("doc:short")
	return common.Pick(g.r, shortDocs)
}

// datum: printed representation of quoted data
func (g *sessGen) datum(depth int) string {
	if depth <= 0 || g.r.Chance(45) {
		switch g.r.Intn(9) {
		case 0:
			return fmt.Sprint(g.r.Intn(200) - 100)
		case 1:
			return common.Pick(g.r, []string{"\"s\"", "\"two words\"", "\"q\\\"x\"", "\"\""})
		case 2:
			return common.Pick(g.r, []string{"a", "b", "foo", "bar-baz", "quote", "let", "lambda", "defun", "cond", "progn"})
		case 3:
			return common.Pick(g.r, []string{":k", ":key"})
		case 4:
			return common.Pick(g.r, []string{"2.5", "1/3", "-0.125", "1.0e10"})
		case 5:
			return common.Pick(g.r, []string{"#\\a", "#\\Space", "#\\Z"})
		case 6:
			return "nil"
		case 7:
			return "t"
		default:
			return fmt.Sprint(g.r.Intn(10))
		}
	}
	n := 1 + g.r.Intn(4)
	parts := make([]string, n)
	for i := range parts {
		parts[i] = g.datum(depth - 1)
	}
	switch g.r.Intn(8) {
	case 0:
		return "#(" + strings.Join(parts, " ") + ")"
	case 1:
		if n >= 2 && !strings.HasPrefix(parts[n-1], "(") && parts[n-1] != "nil" && !strings.HasPrefix(parts[n-1], "#(") {
			return "(" + strings.Join(parts[:n-1], " ") + " . " + parts[n-1] + ")"
		}
	}
	return "(" + strings.Join(parts, " ") + ")"
}

// value: an initial-value expression and its class for the histogram
func (g *sessGen) value() string {
	x := g.r.Intn(100)
	switch {
	case x < 16:
		g.hist("value:fixnum")
		return fmt.Sprint(g.r.Intn(2000) - 1000)
	case x < 26:
		g.hist("value:string")
		return common.Pick(g.r, []string{"\"abc\"", "\"two words\"", "\"q\\\"uote\"", "\"\"", "\"back\\\\slash\"", "\"line\\nbreak\""})
	case x < 32:
		g.hist("value:float-ratio-char")
		return common.Pick(g.r, []string{"2.5", "1/3", "#\\a", "1.5s0", "123456789012345678901234567890", "-7/2"})
	case x < 38:
		g.hist("value:keyword-t-nil")
		return common.Pick(g.r, []string{":kw", "t", "nil"})
	case x < 60:
		g.hist("value:quoted-list")
		d := g.datum(2)
		for !strings.HasPrefix(d, "(") {
			d = g.datum(2)
		}
		return "'" + d
	case x < 70:
		g.hist("value:vector")
		d := g.datum(2)
		for !strings.HasPrefix(d, "(") || strings.Contains(d, " . ") {
			d = g.datum(2)
		}
		return "#" + d
	case x < 78:
		// any number of entries (written in the order of their printed keys since repo_fixes/C19-8), values of every kind
		// (repo_fixes/C19-6). The entries are put in in the harness's canonical order of keys (the order of their Gallina
		// terms), which is the order the observed forms are compared in.
		g.hist("value:hash-table")
		n := g.r.Intn(4)
		keys := []string{"1", "2", "\"sk\"", ":kk", "'ka", "'kb"} // sorted by gObj: (Fix (1)) (Fix (2)) (Str "sk") (Sym ":kk") (Sym "ka") (Sym "kb")
		used := map[int]bool{}
		for i := 0; i < n; i++ {
			used[g.r.Intn(len(keys))] = true
		}
		s := "(let ((table (make-hash-table)))"
		for i, k := range keys {
			if !used[i] {
				continue
			}
			v := common.Pick(g.r, []string{"1", "\"v\"", "2.5", ":x", "t", "#(1 2)", "'(1 2)", "'sym", "'(a (b \"c\") . d)"})
			s += fmt.Sprintf(" (setf (gethash %s table) %s)", k, v)
		}
		if len(used) > 1 {
			g.hist("value:hash-table-several-entries")
		}
		return s + " table)"
	case x < 84:
		g.hist("value:lambda")
		if g.r.Chance(60) {
			g.curFun = "" // a variable's value is loaded before every function: it calls none
			return fmt.Sprintf("(lambda (x) %s)", g.expr([]string{"x"}, 2))
		}
		return common.Pick(g.r, []string{"(lambda (x) (* x 2))", "(lambda (x &rest y) (list x y))", "(lambda (x &optional (y 2)) (+ x y))"})
	case x < 90:
		g.hist("value:type-symbol")
		return common.Pick(g.r, []string{"'fixnum", "'list", "'string"})
	case x < 95:
		// a symbol as a value is written quoted (repo_fixes/C19-11)
		g.hist("value:quoted-symbol")
		return common.Pick(g.r, []string{"'abc", "'some-symbol", "'let"})
	default:
		// a list that cannot be quoted is built with (list ...) (repo_fixes/C19-14)
		g.hist("value:list-holding-objects")
		return common.Pick(g.r, []string{
			"(list 1 (lambda (x) (* x 2)) '(a b))",
			"(list (let ((table (make-hash-table))) (setf (gethash 'k table) '(1 2)) table) 'sym \"s\")",
			"(list (list 1 (lambda (x) x)) :kw 2.5)"})
	}
}

// ---- function bodies --------------------------------------------------------------------------------

type llKind struct {
	text   string
	vars   []string
	probes []string // argument lists
}

var llKinds = []llKind{
	{"(x)", []string{"x"}, []string{"3", "-4", "0"}},
	{"(x y)", []string{"x", "y"}, []string{"1 2", "5 -5"}},
	{"()", nil, []string{""}},
	{"(x &optional (y 2))", []string{"x", "y"}, []string{"1", "1 7"}},
	{"(x &rest r)", []string{"x"}, []string{"1", "1 2 3"}},
	{"(x &key (k 3) j)", []string{"x", "k"}, []string{"1", "1 :k 9", "2 :j 4 :k 1"}},
	// defaults that are forms: stored unevaluated, written as they are, evaluated when the argument is missing
	{"(x &optional (y (+ x 1)) &key (k (* 2 x)))", []string{"x", "y", "k"}, []string{"1", "1 7", "1 7 :k 2", "3"}},
	{"(x &key (k (if (> x 0) (- x 1) 2)))", []string{"x", "k"}, []string{"1", "-4", "1 :k 9"}},
}

// oneArg: lambda lists that accept a single argument
func oneArg(k string) bool {
	return k == "(x)" || k == "(x &optional (y 2))" || k == "(x &rest r)" || k == "(x &key (k 3) j)" ||
		k == "(x &optional (y (+ x 1)) &key (k (* 2 x)))" || k == "(x &key (k (if (> x 0) (- x 1) 2)))"
}

// The block of default forms: every shape of default value x {&optional, &key} x {defun, defmacro, lambda held by a
// variable}, one session per definer, enumerated on every run.
var defaultForms = []string{"2", "\"s\"", ":kw", "t", "'(1 2)", "'sym", "#(1 2)", "(list x 1)", "(+ x 1)", "(cons x nil)",
	"(list (* x 2) \"s\")", "(if (> x 0) 1 2)", "(let ((z (* x 2))) (+ z 1))"}

// The block of instance variable values: every kind of value x the three ways it gets into an instance variable
// (init keyword, (send v :set-x ...), a second variable set with setq), one flavor per session, enumerated on every run.
var slotKinds = []string{"7", "\"two words\"", ":kw", "nil", "'(1 2 3)", "'(1 (2 \"two\") 3)", "'(a . b)", "'((x y) #(1 z))", "#(1 2)",
	"(make-instance 'blk :sa '(x y))", "blk", "(let ((table (make-hash-table))) (setf (gethash 'k table) 1) table)", "(lambda (x) (* x 2))"}

func instanceSlotSessions() (sessions [][]string, probes [][]string) {
	letters := "abcdefghijklmnopqrstuvwxyz"
	var names []string
	for i := range slotKinds {
		names = append(names, "s"+string(letters[i]))
	}
	fl := "(defflavor blk (" + strings.Join(names, " ") + ") () :gettable-instance-variables :settable-instance-variables :inittable-instance-variables)"
	var init, probeI, sends, probeJ, probeK []string
	for i, k := range slotKinds {
		init = append(init, ":"+names[i]+" "+k)
		sends = append(sends, fmt.Sprintf("(send *bj* :set-%s %s)", names[i], k))
		for _, v := range []string{"*bi*", "*bj*", "*bk*"} {
			p := fmt.Sprintf("(send %s :%s)", v, names[i])
			if strings.HasPrefix(k, "(make-instance") {
				p = fmt.Sprintf("(send (send %s :%s) :sa)", v, names[i])
			} else if strings.HasPrefix(k, "(let ((table") {
				p = fmt.Sprintf("(gethash 'k (send %s :%s))", v, names[i])
			} else if strings.HasPrefix(k, "(lambda") {
				p = fmt.Sprintf("(funcall (send %s :%s) 4)", v, names[i])
			}
			switch v {
			case "*bi*":
				probeI = append(probeI, p)
			case "*bj*":
				probeJ = append(probeJ, p)
			default:
				probeK = append(probeK, p)
			}
		}
	}
	s1 := []string{fl, "(defvar *bi* (make-instance 'blk " + strings.Join(init, " ") + "))"}
	s2 := append([]string{fl, "(defparameter *bj* (make-instance 'blk) \"set by send\")"}, sends...)
	s3 := []string{fl, "(defvar *bk* 1)", "(setq *bk* (make-instance 'blk " + strings.Join(init, " ") + "))"}
	return [][]string{s1, s2, s3}, [][]string{probeI, probeJ, probeK}
}

// constantInstanceSessions: the enumerated block (independent of the seed) of constants whose value is a flavor instance,
// holds one in a list, or is an instance holding an instance; with plain constants and variables around them. All inside
// the Coq session model.
func constantInstanceSessions() (sessions [][]string, probes [][]string) {
	fl := "(defflavor blk (sa (sb 2)) () :gettable-instance-variables :settable-instance-variables :inittable-instance-variables)"
	sessions = [][]string{
		{fl, "(defconstant +ci+ (make-instance 'blk :sa 1))"},
		{fl, "(defconstant +cl+ (list 1 (make-instance 'blk :sa '(x y)) \"s\") \"a list holding an instance\")"},
		{fl, "(defconstant +cn+ (make-instance 'blk :sa (make-instance 'blk :sa 1) :sb \"outer\"))"},
		{"(defconstant +ca+ 42)", fl, "(defvar *bi* (make-instance 'blk :sa 3))", "(defconstant +ci+ (make-instance 'blk :sb '(p q)) \"doc\")",
			"(defconstant +zz+ '(1 2))"},
	}
	probes = [][]string{
		{"(send +ci+ :sa)", "(send +ci+ :sb)", "(constantp '+ci+)", "(boundp '+ci+)"},
		{"(car +cl+)", "(send (cadr +cl+) :sa)", "(caddr +cl+)", "(constantp '+cl+)", "(documentation '+cl+ 'variable)"},
		{"(send (send +cn+ :sa) :sa)", "(send +cn+ :sb)", "(constantp '+cn+)"},
		{"+ca+", "+zz+", "(send *bi* :sa)", "(send +ci+ :sb)", "(send +ci+ :sa)", "(constantp '+ci+)", "(documentation '+ci+ 'variable)"},
	}
	return
}

// constantObjectSessions: the same for the kinds of value the Coq model does not cover (judged on the implementation): a
// constant holding an instance of a defclass class, a list holding one, a hash table holding a flavor instance; and the
// other direction: a defflavor default, a defclass initform (also of a class-allocated slot) and :default-initargs that
// mention a constant (they are evaluated when an instance is made, never when the definition is loaded).
func constantObjectSessions() (sessions [][]string, probes [][]string) {
	cl := "(defclass c19k () ((s :initarg :s :initform 1) (u :initform '(a b))) (:documentation \"class c19k\"))"
	fl := "(defflavor blk (sa (sb 2)) () :gettable-instance-variables :settable-instance-variables :inittable-instance-variables)"
	sessions = [][]string{
		{cl, "(defconstant +ck+ (make-instance 'c19k :s 5))"},
		{cl, "(defconstant +ckl+ (list 'a (make-instance 'c19k :s '(x 1))) \"holds one\")"},
		{fl, "(defconstant +ch+ (let ((table (make-hash-table))) (setf (gethash 'k table) (make-instance 'blk :sa 1)) table))"},
		{"(defclass c19p () ((s :initarg :s :initform 1)))", "(defclass c19q (c19p) ((w :initform 2)))", "(defconstant +cq+ (make-instance 'c19q :s 7))"},
		{"(defconstant +kk+ 5)", "(defflavor fk ((a +kk+) (b (+ +kk+ 1))) () :gettable-instance-variables :inittable-instance-variables)",
			"(defclass c19d () ((s :initarg :s :initform +kk+) (cs :initform (* 2 +kk+) :allocation :class)) (:default-initargs :s (+ +kk+ 10)))",
			"(defvar *fk* (make-instance 'fk))", "(defvar *cd* (make-instance 'c19d))"},
	}
	probes = [][]string{
		{"(slot-value +ck+ 's)", "(slot-value +ck+ 'u)", "(constantp '+ck+)"},
		{"(car +ckl+)", "(slot-value (cadr +ckl+) 's)", "(constantp '+ckl+)"},
		{"(send (gethash 'k +ch+) :sa)", "(send (gethash 'k +ch+) :sb)", "(constantp '+ch+)"},
		{"(slot-value +cq+ 's)", "(slot-value +cq+ 'w)", "(constantp '+cq+)"},
		{"+kk+", "(send *fk* :a)", "(send *fk* :b)", "(send (make-instance 'fk) :b)", "(slot-value *cd* 's)", "(slot-value *cd* 'cs)",
			"(slot-value (make-instance 'c19d) 's)", "(slot-value (make-instance 'c19d :s 1) 'cs)"},
	}
	return
}

func defaultFormSessions() (sessions [][]string, probes [][]string) {
	letters := "abcdefghijklmnopqrstuvwxyz"
	var fs, ms, ls, fp, mp, lp []string
	for i, d := range defaultForms {
		c := string(letters[i])
		fs = append(fs, fmt.Sprintf("(defun dfo%s (x &optional (y %s)) (list x y))", c, d), fmt.Sprintf("(defun dfk%s (x &key (k %s) j) (list x k j))", c, d))
		fp = append(fp, fmt.Sprintf("(dfo%s 3)", c), fmt.Sprintf("(dfo%s 3 4)", c), fmt.Sprintf("(dfk%s 3)", c), fmt.Sprintf("(dfk%s 3 :j 1)", c), fmt.Sprintf("(dfk%s 3 :k 5)", c),
			fmt.Sprintf("(make-load-form 'dfo%s)", c))
		ms = append(ms, fmt.Sprintf("(defmacro dmo%s (x &optional (y %s)) (list 'list x (list 'quote y)))", c, d))
		mp = append(mp, fmt.Sprintf("(dmo%s 3)", c), fmt.Sprintf("(dmo%s 3 4)", c), fmt.Sprintf("(make-load-form 'dmo%s)", c))
		ls = append(ls, fmt.Sprintf("(defvar *dl%s* (lambda (x &optional (y %s) &key (k %s)) (list x y k)))", c, d, d))
		lp = append(lp, fmt.Sprintf("(funcall *dl%s* 3)", c), fmt.Sprintf("(funcall *dl%s* 3 4)", c), fmt.Sprintf("(funcall *dl%s* 3 4 :k 5)", c))
	}
	return [][]string{fs, ms, ls}, [][]string{fp, mp, lp}
}

func (g *sessGen) expr(vars []string, depth int) string {
	atom := func() string {
		if len(vars) > 0 && g.r.Chance(60) {
			return common.Pick(g.r, vars)
		}
		return fmt.Sprint(g.r.Intn(20) - 5)
	}
	if depth <= 0 || g.r.Chance(30) {
		return atom()
	}
	// a wider range of special forms (every head symbol the pretty printer has a layout for, with argument counts at
	// and beyond what the layout expects); all of them total and numeric, so that they nest
	if len(g.macros) > 0 && g.curFun != "" && g.r.Chance(12) {
		// a function body uses a macro, whatever its name: the macros are reloaded first (repo_fixes/C19-16)
		var ms []string
		for m := range g.macros {
			ms = append(ms, m)
		}
		sort.Strings(ms)
		g.hist("expr:macro-call")
		return fmt.Sprintf("(%s %s)", ms[g.r.Intn(len(ms))], atom())
	}
	if g.r.Chance(45) {
		return g.special(vars, depth, atom)
	}
	switch x := g.r.Intn(100); {
	case x < 30:
		g.hist("expr:arith")
		return fmt.Sprintf("(%s %s %s)", common.Pick(g.r, []string{"+", "-", "*"}), g.expr(vars, depth-1), g.expr(vars, depth-1))
	case x < 42:
		g.hist("expr:if")
		return fmt.Sprintf("(if (> %s %s) %s %s)", g.expr(vars, depth-1), atom(), g.expr(vars, depth-1), g.expr(vars, depth-1))
	case x < 52:
		g.hist("expr:let")
		return fmt.Sprintf("(let ((v (* 2 %s)) (w 1)) (+ v w %s))", g.expr(vars, depth-1), g.expr(append([]string{"v"}, vars...), depth-1))
	case x < 60:
		g.hist("expr:cond")
		return fmt.Sprintf("(cond ((< %s 0) %s) ((= %s 0) 0) (t %s))", atom(), g.expr(vars, depth-1), atom(), g.expr(vars, depth-1))
	case x < 66:
		g.hist("expr:abs-max")
		return fmt.Sprintf("(max (abs %s) %s)", g.expr(vars, depth-1), atom())
	case x < 74:
		// call of a function defined earlier with a one-argument-compatible lambda list
		var cands []string
		for n, k := range g.funs {
			if oneArg(k) {
				// never a cycle (probes must terminate); reloaded in name order: a tame body only calls what sorts
				// before it (a function called before it is defined loses its name in the next snapshot)
				// functions are reloaded in name order after the macros, and a function called before it is defined keeps
				// its name (repo_fixes/C19-15): a body may call any function defined so far
				if !g.reaches(n, g.curFun, map[string]bool{}) && g.curFun != "" {
					cands = append(cands, n)
				}
			}
		}
		sort.Strings(cands)
		if len(cands) > 0 {
			g.hist("expr:call-user-function")
			callee := common.Pick(g.r, cands)
			if g.calls[g.curFun] == nil {
				g.calls[g.curFun] = map[string]bool{}
			}
			g.calls[g.curFun][callee] = true
			return fmt.Sprintf("(%s %s)", callee, g.expr(vars, depth-1))
		}
		return atom()
	case x < 77 && g.curFun != "":
		// a call of a function that is never defined (in a branch that is not taken): CompileList registers a
		// placeholder for it, which the snapshot writer must not take for a definition (repo_fixes/C19-1)
		g.hist("expr:call-undefined-function")
		return fmt.Sprintf("(if (> %s 1000) (never-defined-%d %s) %s)", atom(), g.r.Intn(3), atom(), g.expr(vars, depth-1))
	case x < 80:
		g.hist("expr:length-quoted")
		return fmt.Sprintf("(length '(a %s \"s\"))", common.Pick(g.r, []string{"b", "(c d)", "1"}))
	case x < 86:
		var cands []string
		for v := range g.vars {
			cands = append(cands, v)
		}
		sort.Strings(cands)
		for c := range g.consts {
			cands = append(cands, c)
		}
		sort.Strings(cands)
		if len(cands) > 0 {
			g.hist("expr:global-variable")
			c := cands[g.r.Intn(len(cands))]
			return fmt.Sprintf("(if (numberp %s) %s 0)", c, c)
		}
		return atom()
	default:
		{
			// the macros are reloaded before the functions (repo_fixes/C19-16): a function body uses any macro
			var ms []string
			for m := range g.macros {
				if g.curFun != "" {
					ms = append(ms, m)
				}
			}
			sort.Strings(ms)
			if len(ms) > 0 && g.r.Chance(60) {
				g.hist("expr:macro-call")
				return fmt.Sprintf("(%s %s)", ms[g.r.Intn(len(ms))], atom())
			}
		}
		if g.r.Chance(30) {
			// a backquote form is written with the backquote (repo_fixes/C19-18)
			g.hist("expr:backquote")
			return fmt.Sprintf("(length `(a ,%s b ,@(list %s 1)))", atom(), atom())
		}
		if g.wild && g.r.Chance(40) {
			// #'f is written (name f): TestCodeQuote asserts it [C19-function-quote]
			g.hist("expr:function-quote")
			g.wildText = true
			return fmt.Sprintf("(funcall #'1+ %s)", atom())
		}
		g.hist("expr:progn")
		return fmt.Sprintf("(progn %s %s)", atom(), g.expr(vars, depth-1))
	}
}

// special: one of the forms with a layout of their own in pp/*.go (or close relatives), around sub-expressions.
func (g *sessGen) special(vars []string, depth int, atom func() string) string {
	e := func() string { return g.expr(vars, depth-1) }
	with := func(v ...string) func() string {
		return func() string { return g.expr(append(append([]string{}, v...), vars...), depth-1) }
	}
	k := g.r.Intn(37)
	g.hist(fmt.Sprintf("special:%02d", k))
	switch k {
	case 0:
		return fmt.Sprintf("(let* ((v %s) (w (+ v 1))) (* v %s))", e(), with("v", "w")())
	case 1: // setq with one, two and three pairs
		return fmt.Sprintf("(let (p q) (setq p %s q (* 2 p)) (+ p q))", e())
	case 2:
		return fmt.Sprintf("(let (p q r) (setq p %s q (+ p 1) r (* p q)) (setq p (+ p r)) (- p q))", e())
	case 3:
		return fmt.Sprintf("(let ((acc 0)) (when (> %s 0) (setq acc 1) (setq acc (+ acc %s))) (unless (> acc 0) (setq acc -1) (setq acc (* acc 3))) acc)", e(), atom())
	case 4: // cond clauses with one, two and three forms
		return fmt.Sprintf("(cond ((< %s 0) 1 %s) ((= %s 0) 0) (t %s))", atom(), e(), atom(), e())
	case 5:
		return fmt.Sprintf("(if (cond ((> %s 100)) (t nil)) 1 %s)", atom(), e())
	case 6:
		return fmt.Sprintf("(block blk %s %s)", atom(), e())
	case 7:
		return fmt.Sprintf("(let ((acc 0)) (dotimes (i 3) (setq acc (+ acc i %s))) acc)", atom())
	case 8:
		return fmt.Sprintf("(let ((acc %s)) (dotimes (i 3 acc) (setq acc (+ acc i)) (setq acc (* acc 2))))", e())
	case 9:
		return fmt.Sprintf("(let ((acc 0)) (dolist (el (list 1 2 %s) acc) (setq acc (+ acc el))))", e())
	case 10:
		return fmt.Sprintf("(let ((acc 0)) (dolist (el '(1 2 3)) (setq acc (+ acc el %s))) acc)", atom())
	case 11:
		return fmt.Sprintf("(do ((i 0 (+ i 1)) (s %s (+ s i))) ((>= i 3) s))", atom())
	case 12:
		return fmt.Sprintf("(do* ((i 0 (+ i 1)) (s %s)) ((>= i 3) (+ s 1)) (setq s (+ s i)) (setq s (* s 2)))", e())
	case 13:
		return fmt.Sprintf("(let ((sum 0)) (dovector (el #(1 2 3) sum) (setq sum (+ sum el %s))))", atom())
	case 14:
		return fmt.Sprintf("(length (with-output-to-string (s) (princ %s s) (princ \"ab\" s)))", e())
	case 15:
		return fmt.Sprintf("(with-input-from-string (s \"12 34\") (+ (read s) (read s) %s))", atom())
	case 16:
		return fmt.Sprintf("(funcall (lambda (q &optional (r 3)) (+ q r)) %s)", e())
	case 17:
		return fmt.Sprintf("(apply '+ (mapcar (lambda (q) (* q q)) (list 1 2 %s)))", e())
	case 18:
		return fmt.Sprintf("(let (a (b 2)) (setq a %s) (+ a b))", e())
	case 19:
		return fmt.Sprintf("(case (mod (abs %s) 3) (0 10) ((1 2) 11) (t 12))", e())
	case 20:
		return fmt.Sprintf("(length (format nil \"~A-~S\" %s \"q\\\"x\"))", atom())
	case 21:
		return fmt.Sprintf("(let ((f (lambda (z) (+ z 1)))) (funcall f %s))", e())
	case 22:
		return fmt.Sprintf("(multiple-value-bind (q r) (truncate 17 5) (+ q r %s))", e())
	case 23:
		return fmt.Sprintf("(let ((lst (list 1 2 3))) (setf (car lst) %s) (apply '+ lst))", e())
	case 24:
		return fmt.Sprintf("(let ((n %s)) (incf n) (incf n 2) (decf n) n)", e())
	case 25:
		return fmt.Sprintf("(let ((l nil)) (push %s l) (push 1 l) (+ (length l) (pop l)))", e())
	case 26:
		return fmt.Sprintf("(if (and (string= \"a\\\"b\" \"a\\\"b\") (char= #\\a #\\a) (or nil (> %s -100))) %s 0)", atom(), e())
	case 27:
		return fmt.Sprintf("(let ((vec (vector 1 2 3))) (setf (aref vec 0) %s) (+ (aref vec 0) (aref vec 2)))", e())
	case 28:
		return fmt.Sprintf("(let ((z 0)) (unwind-protect (+ %s 1) (setq z 1)))", e())
	case 29:
		return fmt.Sprintf("(length '(a (quote b) \"s\" #\\a :k 1.5 (let ((z 1)) z) (setq p 1 q 2) (defun f (x) x) (cond (a b))))")
	case 30:
		return fmt.Sprintf("(let ((v (let ((w (* %s 2))) (+ w 1)))) (let ((u v)) (+ u v)))", e())
	case 31:
		return fmt.Sprintf("(let ((z 0)) (prog1 (+ %s z 1) (setq z 5)))", e())
	// flet, catch and handler-case compile a local name / tag / clause as a call of an undefined function; until
	// repo_fixes/C19-1 its placeholder made (snapshot nil) die (what they evaluate to is another property's matter)
	case 34:
		return fmt.Sprintf("(if (> %s 1000) (catch 'tg (throw 'tg (* 2 %s)) 0) %s)", atom(), atom(), e())
	case 35:
		return fmt.Sprintf("(if (> %s 1000) (catch 'tag (throw 'tag (+ %s 1)) 0) %s)", atom(), atom(), e())
	case 36:
		return fmt.Sprintf("(if (> %s 1000) (handler-case (/ %s 0) (error (c) -1)) %s)", atom(), atom(), e())
	case 32:
		return fmt.Sprintf("(let ((h (make-hash-table))) (setf (gethash 'k h) %s) (+ 1 (gethash 'k h)))", e())
	default:
		if g.r.Chance(50) {
			return fmt.Sprintf("(typecase %s (fixnum %s) (string 2) (t 3))", atom(), e())
		}
		// a defparameter nested in a body is laid out relative to its own column (repo_fixes/C19-30)
		g.hist("special:nested-defparameter")
		return fmt.Sprintf("(progn (defparameter *scratch-%d* %s \"scratchdoc\") (typecase *scratch-%d* (fixnum *scratch-%d*) (string 2) (t 3)))", k, atom(), k, k)
	}
}

// slotValue: a value for an instance variable: what snapshot.go ppInstance has to pass through ppValue again
func (g *sessGen) slotValue(fl string, depth int) string {
	switch x := g.r.Intn(100); {
	case x < 20:
		g.hist("slot:atom")
		return common.Pick(g.r, []string{"7", "-3", "\"s\"", "\"two words\"", ":kw", "t", "nil", "2.5", "#\\a"})
	case x < 50:
		g.hist("slot:quoted-list")
		d := g.datum(2)
		for !strings.HasPrefix(d, "(") {
			d = g.datum(2)
		}
		return "'" + d
	case x < 58:
		g.hist("slot:vector")
		return common.Pick(g.r, []string{"#(1 2)", "#(a (b c) \"s\")"})
	case x < 72:
		if depth > 0 {
			g.hist("slot:nested-instance")
			inner := fmt.Sprintf("(make-instance '%s", fl)
			if g.flavorInit[fl] && len(g.flavorVars[fl]) > 0 {
				inner += fmt.Sprintf(" :%s %s", g.flavorVars[fl][g.r.Intn(len(g.flavorVars[fl]))].name, g.slotValue(fl, depth-1))
			}
			return inner + ")"
		}
		return "42"
	case x < 80:
		g.hist("slot:flavor-object")
		return fl
	case x < 86:
		g.hist("slot:hash-table")
		return "(let ((table (make-hash-table))) (setf (gethash 'k table) 1) table)"
	case x < 92:
		g.hist("slot:lambda")
		return "(lambda (x) (* x 2))"
	case x < 96:
		g.hist("slot:quoted-symbol")
		return "'sym"
	default:
		// a list holding an instance is built with (list ...) (repo_fixes/C19-14)
		g.hist("slot:list-holding-instance")
		return fmt.Sprintf("(list 1 (make-instance '%s) 'a)", fl)
	}
}

// modelledFlavorStep: a flavor without components, a variable holding an instance of it, or a (send v :set-x value)
func (g *sessGen) modelledFlavorStep() {
	max := 2 // flavors are written by name (repo_fixes/C19-20)
	if len(g.flavors) < max && (len(g.flavors) == 0 || g.r.Chance(30)) {
		n := flavorNames[len(g.flavors)]
		g.hist("op:defflavor-modelled")
		defaults := []string{"1", "2", "\"s\"", "2.5", ":kw", "t"}
		var parts []string
		for _, suffix := range []string{"-p", "-q", "-r"} {
			if g.r.Chance(75) {
				d := ""
				if g.r.Chance(50) {
					d = common.Pick(g.r, defaults)
				}
				if g.r.Chance(15) {
					// a default is written as a form that evaluates to it (repo_fixes/C19-19)
					g.hist("op:defflavor-quoted-default")
					d = common.Pick(g.r, []string{"'red", "'(a b)"})
				}
				g.flavorVars[n] = append(g.flavorVars[n], flavorVar{n + suffix, d})
				if d == "" {
					parts = append(parts, n+suffix)
				} else {
					parts = append(parts, "("+n+suffix+" "+d+")")
				}
			}
		}
		opts := common.Pick(g.r, []string{" :gettable-instance-variables :settable-instance-variables :inittable-instance-variables",
			" :gettable-instance-variables :settable-instance-variables :inittable-instance-variables (:documentation \"a flavor\")",
			" :settable-instance-variables :gettable-instance-variables", " :inittable-instance-variables :gettable-instance-variables", ""})
		g.add(fmt.Sprintf("(defflavor %s (%s) ()%s)", n, strings.Join(parts, " "), opts))
		g.flavors = append(g.flavors, n)
		g.flavorInit[n] = strings.Contains(opts, ":inittable")
		g.flavorGet[n] = strings.Contains(opts, ":gettable")
		g.flavorSet[n] = strings.Contains(opts, ":settable")
		for _, v := range g.flavorVars[n] {
			g.probe(fmt.Sprintf("(send (make-instance '%s) :%s)", n, v.name))
			g.probe(fmt.Sprintf("(slot-value (make-instance '%s) '%s)", n, v.name))
		}
		return
	}
	if len(g.flavors) == 0 {
		return
	}
	fl := g.flavors[g.r.Intn(len(g.flavors))]
	// a send to a variable that holds an instance
	var holders []string
	for v, f := range g.instOf {
		if f == fl {
			holders = append(holders, v)
		}
	}
	sort.Strings(holders)
	if len(holders) > 0 && g.flavorSet[fl] && len(g.flavorVars[fl]) > 0 && g.r.Chance(55) {
		g.hist("op:send-set")
		v := holders[g.r.Intn(len(holders))]
		iv := g.flavorVars[fl][g.r.Intn(len(g.flavorVars[fl]))].name
		g.add(fmt.Sprintf("(send %s :set-%s %s)", v, iv, g.slotValue(fl, 1)))
		return
	}
	vn := g.pick(varNames)
	inst := fmt.Sprintf("(make-instance '%s", fl)
	if g.flavorInit[fl] {
		for _, iv := range g.flavorVars[fl] {
			if g.r.Chance(60) {
				inst += fmt.Sprintf(" :%s %s", iv.name, g.slotValue(fl, 1))
			}
		}
	}
	inst += ")"
	switch g.r.Intn(3) {
	case 0:
		g.hist("op:defvar-instance-modelled")
		g.add(fmt.Sprintf("(defvar %s %s)", vn, inst))
		if !g.vars[vn] {
			g.instOf[vn] = fl
		}
	case 1:
		g.hist("op:defparameter-instance-modelled")
		g.add(fmt.Sprintf("(defparameter %s %s \"holds an instance\")", vn, inst))
		g.instOf[vn] = fl
	default:
		if g.vars[vn] {
			g.hist("op:setq-instance-modelled")
			g.add(fmt.Sprintf("(setq %s %s)", vn, inst))
			g.instOf[vn] = fl
		} else {
			g.hist("op:defparameter-instance-modelled")
			g.add(fmt.Sprintf("(defparameter %s %s)", vn, inst))
			g.instOf[vn] = fl
		}
	}
	g.vars[vn] = true
	g.instVars[vn] = true
	for _, iv := range g.flavorVars[fl] {
		g.probe(fmt.Sprintf("(send %s :%s)", vn, iv.name))
		g.probe(fmt.Sprintf("(send (send %s :%s) :%s)", vn, iv.name, iv.name)) // a nested instance (an error otherwise, in both)
	}
}

func (g *sessGen) pick(names []string) string { return common.Pick(g.r, names) }

func (g *sessGen) add(form string)    { g.forms = append(g.forms, form) }
func (g *sessGen) probe(p string)     { g.probes = append(g.probes, p) }
func (g *sessGen) qual(n string) string {
	if g.curPkg != "" {
		return g.curPkg + "::" + n
	}
	return n
}

func (g *sessGen) step() {
	x := g.r.Intn(100)
	if !g.modelled && g.r.Chance(45) {
		x = 70 + g.r.Intn(30) // extended sessions: more packages, flavors, generic functions
	}
	switch {
	case x < 14:
		n := g.pick(varNames)
		g.hist("op:defvar")
		f := "(defvar " + n + " " + g.value()
		if g.r.Chance(40) {
			f += " \"" + g.doc() + "\""
		}
		g.add(f + ")")
		g.vars[g.qual(n)] = true
	case x < 24:
		n := g.pick(varNames)
		g.hist("op:defparameter")
		delete(g.instOf, g.qual(n))
		f := "(defparameter " + n + " " + g.value()
		if g.r.Chance(40) {
			f += " \"" + g.doc() + "\""
		}
		g.add(f + ")")
		g.vars[g.qual(n)] = true
	case x < 30:
		var cands []string
		for v := range g.vars {
			if !strings.Contains(v, "::") == (g.curPkg == "") {
				cands = append(cands, v)
			}
		}
		sort.Strings(cands)
		if len(cands) == 0 {
			return
		}
		g.hist("op:setq")
		n := cands[g.r.Intn(len(cands))]
		if i := strings.Index(n, "::"); i >= 0 {
			n = n[i+2:]
		}
		delete(g.instOf, n)
		g.add("(setq " + n + " " + g.value() + ")")
	case x < 38:
		n := g.pick(constNames)
		if g.consts[n] || g.curPkg != "" {
			return
		}
		g.consts[n] = true
		g.hist("op:defconstant")
		v := common.Pick(g.r, []string{"42", "\"cs\"", "2.5", ":ck", "t", "1/2", "#\\c"})
		if g.r.Chance(40) {
			// written by ppValue (repo_fixes/C19-12)
			g.hist("op:defconstant-list-or-symbol")
			v = common.Pick(g.r, []string{"'(1 2)", "'csym", "'(a (b))"})
		}
		if g.modelled && len(g.flavors) > 0 && g.r.Chance(35) {
			// a constant whose value is a flavor instance, or a list holding one: its defconstant must be written after
			// the defflavor (repo_fixes/C19-33)
			fl := g.flavors[g.r.Intn(len(g.flavors))]
			inst := "(make-instance '" + fl
			if g.flavorInit[fl] {
				for _, iv := range g.flavorVars[fl] {
					if g.r.Chance(60) {
						inst += fmt.Sprintf(" :%s %s", iv.name, g.slotValue(fl, 1))
					}
				}
			}
			inst += ")"
			g.constInst[n] = true
			if g.r.Chance(30) {
				g.hist("op:defconstant-list-holding-instance")
				v = "(list 1 " + inst + " 'a)"
				for _, iv := range g.flavorVars[fl] {
					g.probe(fmt.Sprintf("(send (cadr %s) :%s)", n, iv.name))
				}
			} else {
				g.hist("op:defconstant-instance")
				v = inst
				for _, iv := range g.flavorVars[fl] {
					g.probe(fmt.Sprintf("(send %s :%s)", n, iv.name))
				}
			}
			g.probe(fmt.Sprintf("(constantp '%s)", n))
		} else if !g.modelled && !g.wild && len(g.classes) > 0 && g.r.Chance(35) {
			// ... or an instance of a defclass class (sessions judged on the implementation)
			g.hist("op:defconstant-class-instance")
			cl := g.classes[g.r.Intn(len(g.classes))]
			v = fmt.Sprintf("(make-instance '%s :%s-s1 '(k %d))", cl, cl, g.r.Intn(9))
			g.constInst[n] = true
			g.probe(fmt.Sprintf("(slot-value %s '%s-s1)", n, cl))
			g.probe(fmt.Sprintf("(constantp '%s)", n))
		}
		f := "(defconstant " + n + " " + v
		if g.r.Chance(40) {
			f += " \"" + g.doc() + "\""
		}
		g.add(f + ")")
	case x < 62:
		n := g.pick(funNames)
		if g.macros[n] {
			return
		}
		k := llKinds[g.r.Intn(len(llKinds))]
		g.curFun = g.qual(n)
		delete(g.calls, g.qual(n))
		g.hist("op:defun")
		f := "(defun " + n + " " + k.text
		if g.r.Chance(35) {
			f += " \"" + g.doc() + "\""
		}
		nb := 1
		if g.r.Chance(25) {
			nb = 2
		}
		if g.r.Chance(8) {
			// a form at the top of a body is compiled when the function is defined: a call of a function that is never
			// defined, and the tag / clause of catch, handler-case register a placeholder function,
			// which the snapshot writer must not take for a definition (repo_fixes/C19-1; calling such a function is an
			// error in both processes)
			g.hist("op:defun-body-with-undefined-callee")
			f += " " + common.Pick(g.r, []string{
				fmt.Sprintf("(never-defined-%d 1)", g.r.Intn(3)),
				"(catch 'tag (throw 'tag 1) 0)",
				"(handler-case (/ 1 0) (error (c) -1))"})
		}
		for i := 0; i < nb; i++ {
			f += " " + g.expr(k.vars, 3)
		}
		g.add(f + ")")
		g.funs[g.qual(n)] = k.text
		if g.curPkg != "" {
			delete(g.funs, g.qual(n)) // not callable unqualified from other bodies
			g.funs["__pkg:"+g.curPkg+"::"+n] = k.text
		}
	case x < 70:
		n := g.pick(macNames)
		g.hist("op:defmacro")
		var f string
		switch g.r.Intn(5) {
		case 3:
			f = fmt.Sprintf("(defmacro %s (x) (let* ((a (list '* x %d)) (b (list '+ a 1))) (cond ((consp b) b) (t a))))", n, 2+g.r.Intn(5))
		case 4:
			f = fmt.Sprintf("(defmacro %s (x) \"%s\" (let (a b) (setq a (list '+ x %d) b (list '* a 2)) (when (consp b) (setq a b)) a))", n, g.doc(), g.r.Intn(9))
		case 0:
			f = fmt.Sprintf("(defmacro %s (x) (list '+ x x %d))", n, g.r.Intn(9))
		case 1:
			f = fmt.Sprintf("(defmacro %s (x) \"%s\" (list 'list x (list 'quote x)))", n, g.doc())
		default:
			if g.r.Chance(50) {
				g.hist("op:defmacro-backquote")
				f = fmt.Sprintf("(defmacro %s (x) `(* ,x %d))", n, 2+g.r.Intn(5))
			} else {
				f = fmt.Sprintf("(defmacro %s (x) (list '* x %d))", n, 2+g.r.Intn(5))
			}
		}
		g.add(f)
		g.macros[n] = true
	case g.modelled:
		// flavors without components and instances of them held by variables are in the Coq session model
		// (Session.v: defflavor, make-instance, send :set-..., ppInstance); the remaining kinds are not
		if g.r.Chance(15) {
			// a variable without a value: only its defvar is written (repo_fixes/C19-13)
			n := g.pick(varNames)
			if !g.vars[n] {
				g.hist("op:defvar-unbound")
				g.add("(defvar " + n + ")")
				g.probe(fmt.Sprintf("(boundp '%s)", n))
			}
			return
		}
		g.modelledFlavorStep()
	case x < 76:
		if g.curPkg != "" {
			g.hist("op:in-package-back")
			g.add("(in-package \"common-lisp-user\")")
			g.curPkg = ""
			return
		}
		n := g.pick(pkgNames)
		known := false
		for _, p := range g.pkgs {
			known = known || p == n
		}
		if !known {
			g.hist("op:defpackage")
			f := "(defpackage \"" + n + "\" (:use \"cl\" \"cl-user\")"
			if g.r.Chance(50) {
				f += " (:nicknames \"" + n + "-nick\")"
			}
			if g.r.Chance(50) {
				f += " (:export \"" + g.pick(funNames) + "\")"
			}
			g.add(f + ")")
			g.pkgs = append(g.pkgs, n)
			// the packages section must come before the constants and the variables sections
			if g.r.Chance(50) {
				g.hist("op:defconstant-in-user-package")
				g.add(fmt.Sprintf("(defconstant %s::+pc+ %d \"in %s\")", n, 10+g.r.Intn(80), n))
				g.probe(n + "::+pc+")
			}
			if g.r.Chance(50) {
				vn := g.pick(varNames)
				g.hist("op:defparameter-package-object")
				g.add(fmt.Sprintf("(defparameter %s (find-package \"%s\"))", vn, n))
				g.vars[vn] = true
				g.probe(fmt.Sprintf("(if (packagep %s) (package-name %s) %s)", vn, vn, vn))
			}
		} else {
			// variables and functions made inside a user package (repo_fixes/C19-25, C19-27)
			g.hist("op:in-package")
			g.add("(in-package \"" + n + "\")")
			g.curPkg = n
		}
	case x < 84:
		n := g.pick(flavorNames)
		for _, f := range g.flavors {
			if f == n {
				return
			}
		}
		if g.curPkg != "" {
			return
		}
		g.hist("op:defflavor")
		parents := ""
		if len(g.flavors) > 0 && g.r.Chance(70) {
			parents = g.flavors[len(g.flavors)-1] // a chain, or an unrelated flavor (written by name, repo_fixes/C19-20)
		}
		// own instance variables, some with defaults
		type ivar struct{ name, def string }
		var ivs []ivar
		defaults := []string{"1", "2", "\"s\"", "2.5", ":kw", "t"}
		for _, suffix := range []string{"-p", "-q"} {
			if g.r.Chance(70) {
				d := ""
				if g.r.Chance(60) {
					d = common.Pick(g.r, defaults)
				}
				ivs = append(ivs, ivar{n + suffix, d})
			}
		}
		if g.r.Chance(30) {
			ivs = append(ivs, ivar{n + "-r", common.Pick(g.r, []string{"'red", "'(a b)"})}) // repo_fixes/C19-19
		}
		// a flavor may list an instance variable of a component again, with the same or with another default
		inherited := append([]flavorVar{}, g.flavorVars[parents]...)
		for _, pv := range inherited {
			switch g.r.Intn(4) {
			case 0:
				g.hist("op:defflavor-override-default")
				d := common.Pick(g.r, defaults)
				for d == pv.def {
					d = common.Pick(g.r, defaults)
				}
				ivs = append(ivs, ivar{pv.name, d})
			case 1:
				if pv.def != "" {
					g.hist("op:defflavor-repeat-default")
					ivs = append(ivs, ivar{pv.name, pv.def})
				}
			}
		}
		var parts []string
		all := map[string]string{}
		for _, pv := range inherited {
			all[pv.name] = pv.def
		}
		for _, v := range ivs {
			if v.def == "" {
				parts = append(parts, v.name)
			} else {
				parts = append(parts, "("+v.name+" "+v.def+")")
			}
			all[v.name] = v.def
		}
		iv := "(" + strings.Join(parts, " ") + ")"
		opts := common.Pick(g.r, []string{"", " :gettable-instance-variables", " :gettable-instance-variables :settable-instance-variables :inittable-instance-variables", " :inittable-instance-variables :gettable-instance-variables (:documentation \"a flavor\")"})
		// a flavor with components may have any options: the inittable variables are sorted (e18df91), the gettable and
		// settable options are taken from the accessors the flavor defined itself (repo_fixes/C19-21)
		if parents != "" && g.r.Chance(30) && len(ivs) > 0 {
			g.hist("op:defflavor-option-with-list")
			opts = fmt.Sprintf(" (:gettable-instance-variables %s) :settable-instance-variables", ivs[0].name)
		}
		g.add(fmt.Sprintf("(defflavor %s %s (%s)%s)", n, iv, parents, opts))
		g.flavors = append(g.flavors, n)
		for _, k := range common.SortedKeys(all) {
			g.flavorVars[n] = append(g.flavorVars[n], flavorVar{k, all[k]})
			// the default of every own and inherited variable, through the getter when there is one
			g.probe(fmt.Sprintf("(send (make-instance '%s) :%s)", n, k))
			g.probe(fmt.Sprintf("(slot-value (make-instance '%s) '%s)", n, k))
		}
		g.probe(fmt.Sprintf("(make-load-form '%s)", n))
		if g.r.Chance(50) {
			// the methods of a flavor are written after it (repo_fixes/C19-22)
			g.hist("op:defmethod-flavor")
			k := 2 + g.r.Intn(5)
			g.add(fmt.Sprintf("(defmethod (%s :scale) (x) \"scales x\" (* %d x))", n, k))
			g.probe(fmt.Sprintf("(send (make-instance '%s) :scale 4)", n))
			if g.r.Chance(50) {
				g.hist("op:defmethod-flavor-daemon")
				g.add(fmt.Sprintf("(defmethod (%s :after :scale) (x) (setq %s-mark (list x %d)))", n, n, k))
				g.add(fmt.Sprintf("(defwhopper (%s :scale) (x) (+ 1000 (continue-whopper x)))", n))
			}
		}
		if strings.Contains(opts, ":inittable") {
			g.flavorInit[n] = true
		}
		g.flavorGet[n] = strings.Contains(opts, ":gettable")
		g.flavorSet[n] = strings.Contains(opts, ":settable")
		// a variable whose value is an instance, directly or inside a hash table
		if g.r.Chance(60) && len(g.flavorVars[n]) > 0 {
			vn := g.pick(varNames)
			first := g.flavorVars[n][0].name
			inst := fmt.Sprintf("(make-instance '%s)", n)
			if g.flavorInit[n] && g.r.Chance(70) {
				for _, v := range ivs {
					if v.name == first {
						inst = fmt.Sprintf("(make-instance '%s :%s %d)", n, first, 10+g.r.Intn(80))
					}
				}
			}
			switch g.r.Intn(3) {
			case 0:
				g.hist("op:defvar-instance")
				g.add(fmt.Sprintf("(defvar %s %s)", vn, inst))
				g.probe(fmt.Sprintf("(send %s :%s)", vn, first))
			case 1:
				g.hist("op:defparameter-instance")
				g.add(fmt.Sprintf("(defparameter %s %s \"holds an instance\")", vn, inst))
				g.probe(fmt.Sprintf("(send %s :%s)", vn, first))
			default:
				g.hist("op:defparameter-hash-with-instance")
				g.add(fmt.Sprintf("(defparameter %s (let ((table (make-hash-table))) (setf (gethash 'inst table) %s) table))", vn, inst))
				g.probe(fmt.Sprintf("(send (gethash 'inst %s) :%s)", vn, first))
			}
			g.vars[vn] = true
			g.instVars[vn] = true
		}
		if g.flavorInit[n] && len(g.flavorVars[n]) > 0 && g.r.Chance(50) {
			// a function that makes and uses an instance
			fn := g.pick(funNames)
			if !g.macros[fn] && g.funs["__gen:"+fn] == "" {
				first := g.flavorVars[n][0].name
				g.hist("op:defun-with-make-instance")
				g.add(fmt.Sprintf("(defun %s (x) (let ((o (make-instance '%s :%s x))) (list (send o :%s) x)))", fn, n, first, first))
				g.funs[fn] = "(x)"
				delete(g.calls, fn)
			}
		}
	case x < 92:
		n := g.pick(genNames)
		if g.curPkg != "" || g.funs[n] != "" {
			return
		}
		two := strings.HasSuffix(n, "b") // gb: a second, unspecialised parameter (repo_fixes/C19-23)
		if g.funs["__gen:"+n] == "" {
			g.hist("op:defgeneric")
			f := "(defgeneric " + n + " (a)"
			if two {
				f = "(defgeneric " + n + " (a b)"
			}
			if g.r.Chance(50) {
				f += " (:documentation \"" + g.doc() + "\")"
			}
			g.add(f + ")")
			g.funs["__gen:"+n] = "gen"
		}
		ty := common.Pick(g.r, []string{"fixnum", "string", "symbol", "list"})
		g.hist("op:defmethod-generic")
		arg := map[string]string{"fixnum": "1", "string": "\"s\"", "symbol": "'q", "list": "'(1)"}[ty]
		if two {
			g.add(fmt.Sprintf("(defmethod %s ((a %s) b) (list '%s-%s b))", n, ty, n, ty))
			g.probe(fmt.Sprintf("(%s %s 2)", n, arg))
		} else {
			if ty == "fixnum" {
				g.curFun = n // the methods are written with the generic function, in name order with the functions
				g.add(fmt.Sprintf("(defmethod %s ((a %s)) (list '%s-%s %s))", n, ty, n, ty, g.expr([]string{"a"}, 2)))
			} else {
				g.add(fmt.Sprintf("(defmethod %s ((a %s)) (list '%s-%s a))", n, ty, n, ty))
			}
			g.probe(fmt.Sprintf("(%s %s)", n, arg))
		}
	default:
		if g.curPkg != "" {
			return
		}
		// classes are written after the flavors (repo_fixes/C19-24); slots without readers, writers and accessors, which
		// are written with keywords defclass rejects [C19-class-accessors-keyword]
		n := g.pick(classNames)
		for _, c := range g.classes {
			if c == n {
				return
			}
		}
		g.hist("op:defclass")
		// any class defined so far as a superclass, sometimes two: the names are in every order relative to the inheritance
		super := ""
		if len(g.classes) > 0 && g.r.Chance(70) {
			super = g.classes[g.r.Intn(len(g.classes))]
			if len(g.classes) > 1 && g.r.Chance(25) {
				if s2 := g.classes[g.r.Intn(len(g.classes))]; s2 != super {
					g.hist("op:defclass-two-superclasses")
					super += " " + s2
				}
			}
		}
		// a slot every class with fewer than two direct superclasses defines with its own initform; a class with two
		// parents inherits it from the parent that comes first in its precedence (the ORDER of the superclasses)
		shared := fmt.Sprintf(" (c19-shared :initform %d)", 100+len(g.classes))
		if strings.Contains(super, " ") {
			shared = ""
		}
		g.add(fmt.Sprintf("(defclass %s (%s) ((%s-s1 :initarg :%s-s1 :initform %d) (%s-s2 :initform '(a b) :allocation :class)%s) (:documentation \"a class\"))", n, super, n, n, g.r.Intn(90), n, shared))
		g.classes = append(g.classes, n)
		g.probe(fmt.Sprintf("(slot-value (make-instance '%s) '%s-s1)", n, n))
		g.probe(fmt.Sprintf("(slot-value (make-instance '%s) '%s-s2)", n, n))
		g.probe(fmt.Sprintf("(documentation '%s 'type)", n))
		// every class defines this slot with its own initform: which one an instance gets depends on the precedence
		g.probe(fmt.Sprintf("(slot-value (make-instance '%s) 'c19-shared)", n))
		if g.r.Chance(60) {
			vn := g.pick(varNames)
			g.hist("op:defparameter-class-instance")
			g.add(fmt.Sprintf("(defparameter %s (make-instance '%s :%s-s1 '(x %d)))", vn, n, n, g.r.Intn(9)))
			g.vars[vn] = true
			g.instVars[vn] = true
			g.probe(fmt.Sprintf("(slot-value %s '%s-s1)", vn, n))
		}
	}
}

// genSession builds one session: forms and probes.
func genSession(r *common.Rng, hist func(string), wild, modelled bool) (forms, probes []string, wildText bool) {
	g := &sessGen{r: r, hist: hist, funs: map[string]string{}, macros: map[string]bool{}, vars: map[string]bool{},
		consts: map[string]bool{}, constInst: map[string]bool{}, wild: wild, modelled: modelled, calls: map[string]map[string]bool{},
		flavorVars: map[string][]flavorVar{}, flavorInit: map[string]bool{}, flavorGet: map[string]bool{}, flavorSet: map[string]bool{}, instVars: map[string]bool{}, instOf: map[string]string{}}
	n := 3 + r.Intn(10)
	for i := 0; i < n; i++ {
		g.step()
	}
	if g.curPkg != "" && (modelled || wild || !r.Chance(50)) {
		g.add("(in-package \"common-lisp-user\")")
	} else if g.curPkg != "" {
		// the snapshot is taken while a user package is current (the functions section must switch to it all the same)
		hist("op:snapshot-in-user-package")
		g.probe("(package-name *package*)")
	}
	// probes: every variable, constant, function (with argument lists), macro, documentation
	for _, v := range common.SortedKeys(g.vars) {
		if !g.instVars[v] {
			g.probe(v)
			g.probe(fmt.Sprintf("(funcall %s 3)", v)) // when the value is a lambda: its behaviour (an error otherwise, in both)
		}
		g.probe(fmt.Sprintf("(documentation '%s 'variable)", v))
	}
	for _, c := range common.SortedKeys(g.consts) {
		if !g.constInst[c] {
			g.probe(c)
		}
	}
	for _, f := range common.SortedKeys(g.funs) {
		k := g.funs[f]
		name := f
		if strings.HasPrefix(f, "__gen:") {
			continue
		}
		if strings.HasPrefix(f, "__pkg:") {
			name = f[len("__pkg:"):]
		}
		for _, lk := range llKinds {
			if lk.text == k {
				for _, args := range lk.probes {
					g.probe(strings.TrimSpace(fmt.Sprintf("(%s %s)", name, args)) )
				}
			}
		}
		g.probe(fmt.Sprintf("(documentation '%s 'function)", name))
	}
	for _, m := range common.SortedKeys(g.macros) {
		g.probe(fmt.Sprintf("(%s 3)", m))
		g.probe(fmt.Sprintf("(macroexpand-1 '(%s (+ 1 2)))", m))
	}
	for _, p := range g.pkgs {
		g.probe(fmt.Sprintf("(package-nicknames (find-package \"%s\"))", p))
	}
	return g.forms, g.probes, g.wildText
}

// ---- snapshot text -> top-level chunks ---------------------------------------------------------------

// chunks splits a snapshot into its top-level forms as TEXT: a form starts at a '(' in column 0 (the pretty
// printer indents every continuation line); comment and blank lines are dropped.
func chunks(snap string) []string {
	var out []string
	var cur []string
	flush := func() {
		if len(cur) > 0 {
			out = append(out, strings.Join(cur, "\n"))
			cur = nil
		}
	}
	for _, line := range strings.Split(snap, "\n") {
		switch {
		case strings.HasPrefix(line, "("):
			flush()
			cur = []string{line}
		case strings.HasPrefix(line, ";") && len(cur) == 0, strings.TrimSpace(line) == "":
			// skip
		default:
			if len(cur) > 0 {
				cur = append(cur, line)
			}
		}
	}
	flush()
	return out
}

// userChunks removes the chunks that also occur in the baseline snapshots of the empty session.
func userChunks(snap string, base map[string]bool) []string {
	var out []string
	for _, c := range chunks(snap) {
		if !base[c] {
			out = append(out, c)
		}
	}
	return out
}

func readForms(text string) (forms slip.List, err string) {
	code, rerr := readAll(text)
	return slip.List(code), rerr
}
