package c19

import (
	"fmt"
	"math/big"
	"sort"
	"strings"

	"github.com/ohler55/slip"
	"verifharness/common"
)

// ---- slip.Object -> Gallina term of type C19.Model.obj -------------------------------------------

// gStr renders any byte string as a Coq string term.
func gStr(s string) string {
	plain := true
	for i := 0; i < len(s); i++ {
		if s[i] < 32 || s[i] >= 127 {
			plain = false
			break
		}
	}
	if plain {
		return common.GStr(s)
	}
	// only newlines besides printable characters: a list of lines (much faster for coqc to parse than a byte list)
	onlyNL := true
	for i := 0; i < len(s); i++ {
		if (s[i] < 32 || s[i] >= 127) && s[i] != '\n' {
			onlyNL = false
			break
		}
	}
	if onlyNL {
		lines := strings.Split(s, "\n")
		items := make([]string, len(lines))
		for i, l := range lines {
			items[i] = common.GStr(l)
		}
		return "(ln " + common.GList(items) + ")"
	}
	items := make([]string, len(s))
	for i := 0; i < len(s); i++ {
		items[i] = fmt.Sprintf("%d", s[i])
	}
	return "(bs [" + strings.Join(items, ";") + "]%N)"
}

func gZ(z *big.Int) string { return "(" + z.String() + ")%Z" }

func readable(o slip.Object) (out string) {
	defer func() {
		if r := recover(); r != nil {
			out = slip.ObjectString(o)
		}
	}()
	p := *slip.DefaultPrinter()
	p.Readably = true
	p.Array = true
	p.Pretty = false
	p.RightMargin = 1000000
	return string(p.Append(nil, o, 0))
}

// strictReadable is the plain printer with *print-readably*; it panics when the object has no readable syntax.
func strictReadable(o slip.Object) string {
	p := *slip.DefaultPrinter()
	p.Readably = true
	p.Array = true
	p.Pretty = false
	p.RightMargin = 1000000
	return string(p.Append(nil, o, 0))
}

// gObj converts an object (value or form) to a Gallina term. kind counts what was met (for the histogram).
func gObj(o slip.Object) string {
	switch to := o.(type) {
	case nil:
		return "Nil"
	case slip.Fixnum:
		return fmt.Sprintf("(Fix (%d))", int64(to))
	case *slip.Bignum:
		return "(Big " + gZ((*big.Int)(to)) + ")"
	case *slip.Ratio:
		return "(Atom \"ratio\" " + gStr(readable(o)) + ")"
	case slip.DoubleFloat:
		return "(Atom \"double-float\" " + gStr(readable(o)) + ")"
	case slip.SingleFloat:
		return "(Atom \"single-float\" " + gStr(readable(o)) + ")"
	case *slip.LongFloat:
		return "(Atom \"long-float\" " + gStr(readable(o)) + ")"
	case slip.Character:
		return "(Atom \"character\" " + gStr(readable(o)) + ")"
	case slip.String:
		return "(Str " + gStr(string(to)) + ")"
	case slip.Symbol:
		return "(Sym " + gStr(string(to)) + ")"
	case slip.List:
		if len(to) == 0 {
			return "Nil"
		}
		if tail, ok := to[len(to)-1].(slip.Tail); ok {
			return "(Dot " + gObjs(to[:len(to)-1]) + " " + gObj(tail.Value) + ")"
		}
		if isTableLet(to) {
			// Go's map order is not an observable: the (setf (gethash k table) v) entries are sorted by key
			mid := append(slip.List{}, to[2:len(to)-1]...)
			sort.SliceStable(mid, func(i, j int) bool { return setfKey(mid[i]) < setfKey(mid[j]) })
			c := append(slip.List{to[0], to[1]}, mid...)
			c = append(c, to[len(to)-1])
			return "(L " + gObjs(c) + ")"
		}
		return "(L " + gObjs(to) + ")"
	case *slip.Vector:
		fp := "None"
		if 0 <= to.FillPtr {
			fp = fmt.Sprintf("(Some %d)", to.FillPtr)
		}
		return fmt.Sprintf("(Vec %s %s %s %s)", gObjs(to.Elements()), gET(to.ElementType()), common.GBool(to.Adjustable()), fp)
	case *slip.Array:
		ds := make([]string, len(to.Dimensions()))
		for i, d := range to.Dimensions() {
			ds[i] = fmt.Sprintf("%d", d)
		}
		return fmt.Sprintf("(Arr [%s]%%nat %s %s %s)", strings.Join(ds, ";"), gObjs(to.Elements()), gET(to.ElementType()), common.GBool(to.Adjustable()))
	case slip.HashTable:
		type kv struct{ k, v string }
		var kvs []kv
		for k, v := range to {
			kvs = append(kvs, kv{gObj(k), gObj(v)})
		}
		sort.Slice(kvs, func(i, j int) bool { return kvs[i].k < kvs[j].k })
		items := make([]string, len(kvs))
		for i, e := range kvs {
			items[i] = "(" + e.k + ", " + e.v + ")"
		}
		return "(Hash " + common.GList(items) + ")"
	case *slip.Lambda:
		var ll slip.List
		if lf, ok := to.Doc.LoadForm().(slip.List); ok {
			ll = lf
		}
		return fmt.Sprintf("(Lam %s %s %s)", gObjs(ll), gStr(to.Doc.Text), gObjs(to.Forms))
	case slip.Funky:
		// a compiled call: its source form
		args := to.GetArgs()
		l := make(slip.List, 0, len(args)+1)
		l = append(l, slip.Symbol(to.GetName()))
		l = append(l, args...)
		return gObj(l)
	default:
		if o == slip.True {
			return "T"
		}
		return "(Opaque " + gStr(string(o.Hierarchy()[0])) + ")"
	}
}

func isTableLet(l slip.List) bool {
	if len(l) < 3 || l[0] != slip.Symbol("let") || l[len(l)-1] != slip.Symbol("table") {
		return false
	}
	b, ok := l[1].(slip.List)
	if !ok || len(b) != 1 {
		return false
	}
	b0, ok := b[0].(slip.List)
	return ok && len(b0) == 2 && b0[0] == slip.Symbol("table")
}

func setfKey(o slip.Object) string {
	if l, ok := o.(slip.List); ok && len(l) == 3 {
		if g, ok := l[1].(slip.List); ok && len(g) == 3 {
			k := g[1]
			if q, ok := k.(slip.List); ok && len(q) == 2 && q[0] == slip.Symbol("quote") {
				k = q[1]
			}
			return gObj(k)
		}
	}
	return gObj(o)
}

func gET(et slip.Symbol) string {
	if et == slip.TrueSymbol || et == "" {
		return "T"
	}
	return "(Sym " + gStr(string(et)) + ")"
}

func gObjs(l []slip.Object) string {
	items := make([]string, len(l))
	for i, e := range l {
		items[i] = gObj(e)
	}
	return common.GList(items)
}

// ---- value generator ---------------------------------------------------------------------------

type gen struct {
	r    *common.Rng
	hist func(string)
	safe bool // only the kinds and shapes inside the guard (so that large values stay inside it)
}

var plainSyms = []string{"a", "b", "foo", "bar-baz", "x1", "*star*", "list", "quote", "car", "nil-ish", "+plus+", "fixnum", "vector", "symbol"}
var oddSyms = []string{"Abc", "a b", "a(b", "1x", "12", "a;b", "", "a\"b", "a'b", "a|b", "#a", "a.b", ".", "a,b", "1e5", "-", "+1"}
var keySyms = []string{":k", ":key-word", ":a1"}
var strPool = []string{"", "abc", "two words", "q\"uote", "back\\slash", "line\nbreak", "tab\there", "(paren", ";semi", "'", "a  b", "λ", "ends with space ",
	"a long string that goes on for a while so that it has to be placed on its own line by the pretty printer at narrow margins"}
var charPool = []rune{'a', 'Z', '0', ' ', '(', ')', '"', '\\', ';', '\'', '\n', '|', '#', 'λ', '~'}
var fixPool = []int64{0, 1, -1, 7, 42, -100, 65536, 9223372036854775807, -9223372036854775808, 1234567890123}
var dblPool = []float64{0, 1, -1, 2.5, 1e20, 1.0 / 3.0, -0.125, 1e-7, 123456.789}

var safeChars = []rune{'a', 'Z', '0', '~', 'λ', 'q'}
var safeStrs = []string{"", "abc", "two words", "q\"uote", "back\\slash", "line\nbreak", "tab\there", "(paren", ";semi", "'", "a  b", "λ", "ends with space "}

func (g *gen) atom() slip.Object {
	if g.safe {
		switch x := g.r.Intn(100); {
		case x < 30:
			g.hist("atom:fixnum")
			if g.r.Chance(50) {
				return slip.Fixnum(common.Pick(g.r, fixPool))
			}
			return slip.Fixnum(int64(g.r.Intn(2000)) - 1000)
		case x < 36:
			g.hist("atom:bignum")
			b := new(big.Int)
			b.SetString(common.Pick(g.r, []string{"9223372036854775808", "-123456789012345678901234567890"}), 10)
			return (*slip.Bignum)(b)
		case x < 42:
			g.hist("atom:ratio")
			return slip.NewRatio(int64(2*g.r.Intn(20))-19, 2)
		case x < 50:
			g.hist("atom:double")
			return slip.DoubleFloat(common.Pick(g.r, dblPool))
		case x < 54:
			g.hist("atom:single")
			return slip.SingleFloat(common.Pick(g.r, dblPool))
		case x < 60:
			g.hist("atom:character")
			return slip.Character(common.Pick(g.r, safeChars))
		case x < 76:
			g.hist("atom:string")
			return slip.String(common.Pick(g.r, safeStrs))
		case x < 84:
			g.hist("atom:keyword")
			return slip.Symbol(common.Pick(g.r, keySyms))
		case x < 86:
			g.hist("atom:type-symbol")
			return slip.Symbol(common.Pick(g.r, []string{"fixnum", "list", "vector", "symbol"}))
		case x < 91:
			// an element that is a symbol is quoted in the load form (repo_fixes/C19-2)
			g.hist("atom:symbol")
			return slip.Symbol(common.Pick(g.r, plainSyms))
		case x < 95:
			g.hist("atom:nil")
			return nil
		default:
			g.hist("atom:t")
			return slip.True
		}
	}
	switch x := g.r.Intn(100); {
	case x < 22:
		g.hist("atom:fixnum")
		if g.r.Chance(60) {
			return slip.Fixnum(common.Pick(g.r, fixPool))
		}
		return slip.Fixnum(int64(g.r.Intn(2000)) - 1000)
	case x < 28:
		g.hist("atom:bignum")
		b := new(big.Int)
		switch g.r.Intn(4) {
		case 0:
			b.SetInt64(int64(g.r.Intn(1000)) - 500) // small bignum: (coerce n 'bignum)
		case 1:
			b.SetString("9223372036854775808", 10)
		case 2:
			b.SetString("-123456789012345678901234567890", 10)
		default:
			b.SetString("340282366920938463463374607431768211456", 10)
		}
		return (*slip.Bignum)(b)
	case x < 33:
		g.hist("atom:ratio")
		den := int64(g.r.Intn(9)) + 2
		num := int64(g.r.Intn(40)) - 20
		if num%den == 0 {
			num++ // a *Ratio holding an integer can only be built through the Go API
		}
		return slip.NewRatio(num, den)
	case x < 40:
		g.hist("atom:double")
		return slip.DoubleFloat(common.Pick(g.r, dblPool))
	case x < 44:
		g.hist("atom:single")
		return slip.SingleFloat(common.Pick(g.r, dblPool))
	case x < 46:
		g.hist("atom:long")
		return slip.ReadString(common.Pick(g.r, []string{"1L-07", "2.5L+00", "-1.5L+10", "0L+00"}), slip.NewScope())[0]
	case x < 54:
		g.hist("atom:character")
		return slip.Character(common.Pick(g.r, charPool))
	case x < 68:
		g.hist("atom:string")
		return slip.String(common.Pick(g.r, strPool))
	case x < 80:
		g.hist("atom:symbol")
		return slip.Symbol(common.Pick(g.r, plainSyms))
	case x < 83:
		g.hist("atom:odd-symbol")
		return slip.Symbol(common.Pick(g.r, oddSyms))
	case x < 88:
		g.hist("atom:keyword")
		return slip.Symbol(common.Pick(g.r, keySyms))
	case x < 94:
		g.hist("atom:nil")
		return nil
	default:
		g.hist("atom:t")
		return slip.True
	}
}

// dataAtom: an atom that is not a symbol (self-evaluating)
func (g *gen) selfAtom() slip.Object {
	for {
		a := g.atom()
		if s, ok := a.(slip.Symbol); ok && !strings.HasPrefix(string(s), ":") {
			continue
		}
		return a
	}
}

// qdata: data that may stand inside a quote in safe mode (vector / array contents)
func (g *gen) qdata(depth int) slip.Object {
	if depth <= 0 || g.r.Chance(50) {
		if g.r.Chance(20) {
			g.hist("atom:symbol")
			// also symbols that head special layouts of the pretty printer: inside a quote they are plain data
			return slip.Symbol(common.Pick(g.r, []string{"a", "b", "foo", "bar-baz", "x1", "*star*", "quote", "let", "lambda", "defun", "cond", "progn", "defvar", "setq"}))
		}
		a := g.atom()
		if b, ok := a.(*slip.Bignum); ok && (*big.Int)(b).IsInt64() {
			return slip.Fixnum(1)
		}
		return a
	}
	n := 1 + g.r.Intn(4)
	l := make(slip.List, n)
	for i := range l {
		l[i] = g.qdata(depth - 1)
	}
	switch g.r.Intn(5) {
	case 0:
		return slip.NewVector(n, slip.TrueSymbol, nil, l, true)
	case 1:
		tl := g.qdata(0)
		if tl == nil {
			tl = slip.Fixnum(3)
		}
		return append(l, slip.Tail{Value: tl})
	}
	return l
}

func (g *gen) safeValue(depth int) slip.Object {
	if depth <= 0 || g.r.Chance(30) {
		return g.atom()
	}
	switch x := g.r.Intn(100); {
	case x < 40:
		g.hist("kind:list")
		n := 1 + g.r.Intn(5)
		if g.r.Chance(15) {
			n = 8 + g.r.Intn(14)
		}
		l := make(slip.List, n)
		for i := range l {
			l[i] = g.safeValue(depth - 1)
		}
		return l
	case x < 50:
		g.hist("kind:dotted")
		n := 1 + g.r.Intn(4)
		l := make(slip.List, n)
		for i := range l {
			l[i] = g.safeValue(depth - 1)
		}
		tl := g.atom()
		if tl == nil {
			tl = slip.Fixnum(3)
		}
		return append(l, slip.Tail{Value: tl})
	case x < 66:
		// empty or not, adjustable or not, with or without a fill pointer (repo_fixes/C19-3, C19-4, C19-5)
		g.hist("kind:vector")
		n := g.r.Intn(6)
		l := make(slip.List, n)
		for i := range l {
			l[i] = g.qdata(depth - 1)
		}
		v := slip.NewVector(n, slip.TrueSymbol, nil, l, g.r.Chance(65))
		if n == 0 {
			g.hist("kind:vector-empty")
		}
		if !v.Adjustable() {
			g.hist("kind:vector-not-adjustable")
		}
		if g.r.Chance(25) {
			g.hist("kind:vector-fill-pointer")
			v.FillPtr = g.r.Intn(n + 1)
		}
		return v
	case x < 74:
		// dimensions of zero and arrays that are not adjustable too (repo_fixes/C19-3, C19-4)
		g.hist("kind:array")
		dims := []int{1 + g.r.Intn(3), 1 + g.r.Intn(3)}
		if g.r.Chance(30) {
			dims = append(dims, 1+g.r.Intn(2))
		}
		if g.r.Chance(20) {
			g.hist("kind:array-zero-dimension")
			dims[g.r.Intn(len(dims))] = 0
		}
		size := 1
		for _, d := range dims {
			size *= d
		}
		a := slip.NewArray(dims, slip.TrueSymbol, nil, nil, g.r.Chance(65))
		for i := 0; i < size; i++ {
			a.MajorSet(i, g.qdata(depth-2))
		}
		return a
	case x < 90:
		g.hist("kind:hash-table")
		h := slip.HashTable{}
		n := g.r.Intn(4)
		for i := 0; i < n; i++ {
			var k slip.Object
			// keys of every kind Go compares by value (repo_fixes/C19-7), values of every kind (repo_fixes/C19-6)
			switch g.r.Intn(8) {
			case 0:
				k = slip.Symbol(common.Pick(g.r, []string{"a", "b", "foo", "bar-baz"}))
			case 1:
				k = slip.String(common.Pick(g.r, safeStrs[:6]))
			case 2:
				k = slip.Fixnum(g.r.Intn(10))
			case 3:
				k = slip.Symbol(common.Pick(g.r, keySyms))
			case 4:
				g.hist("hash-key:character")
				k = slip.Character(common.Pick(g.r, safeChars))
			case 5:
				g.hist("hash-key:t")
				k = slip.True
			case 6:
				g.hist("hash-key:nil")
				k = nil
			default:
				k = slip.DoubleFloat(2.5)
			}
			h[k] = g.safeValue(depth - 1)
			switch h[k].(type) {
			case slip.List:
				g.hist("hash-value:list")
			case slip.Symbol:
				g.hist("hash-value:symbol")
			case slip.HashTable:
				g.hist("hash-value:hash-table")
			}
		}
		return h
	default:
		g.hist("kind:lambda")
		if l := g.genLambda(false); l != nil && g.r.Chance(80) {
			return l
		}
		srcs := []string{"(lambda (x) (1+ x))", "(lambda (x y) (list x y))", "(lambda () 3)", "(lambda (x &optional (y 2)) (+ x y))",
			"(lambda (a &rest r) (cons a r))", "(lambda (x) (let ((y (* x x))) (if (> y 10) (list 'big y) (list 'small y))))"}
		return common.EvalIn(slip.NewScope(), common.Pick(g.r, srcs)).Value
	}
}

func (g *gen) elems(n, depth int, symOK bool) slip.List {
	l := make(slip.List, n)
	for i := range l {
		l[i] = g.value(depth-1, symOK)
	}
	return l
}

// value generates a value of a load-formable kind; symOK=false keeps plain symbols out (they need quoting)
func (g *gen) value(depth int, symOK bool) slip.Object {
	if depth <= 0 || g.r.Chance(35) {
		if symOK {
			return g.atom()
		}
		return g.selfAtom()
	}
	switch x := g.r.Intn(100); {
	case x < 38:
		g.hist("kind:list")
		n := 1 + g.r.Intn(5)
		if g.r.Chance(8) {
			n = 8 + g.r.Intn(12)
		}
		return g.elems(n, depth, symOK)
	case x < 50:
		g.hist("kind:dotted")
		n := 1 + g.r.Intn(4)
		l := g.elems(n, depth, symOK)
		tl := g.value(0, symOK)
		if tl == nil {
			tl = slip.Fixnum(3)
		}
		if _, isList := tl.(slip.List); isList {
			tl = slip.Fixnum(4)
		}
		return append(l, slip.Tail{Value: tl})
	case x < 68:
		g.hist("kind:vector")
		n := g.r.Intn(5)
		v := slip.NewVector(n, slip.TrueSymbol, nil, g.elems(n, depth, true), g.r.Chance(60))
		if g.r.Chance(20) {
			g.hist("kind:vector-fill-pointer")
			v.FillPtr = g.r.Intn(n + 1)
		}
		return v
	case x < 78:
		g.hist("kind:array")
		var dims []int
		switch g.r.Intn(6) {
		case 0:
			dims = []int{}
		case 1:
			dims = []int{2, 0}
		case 2:
			dims = []int{1 + g.r.Intn(3), 1 + g.r.Intn(3), 1 + g.r.Intn(2)}
		default:
			dims = []int{1 + g.r.Intn(3), 1 + g.r.Intn(3)}
		}
		size := 1
		for _, d := range dims {
			size *= d
		}
		a := slip.NewArray(dims, slip.TrueSymbol, nil, nil, g.r.Chance(50))
		for i := 0; i < size; i++ {
			a.MajorSet(i, g.value(depth-2, true))
		}
		return a
	case x < 92:
		g.hist("kind:hash-table")
		h := slip.HashTable{}
		n := g.r.Intn(4)
		for i := 0; i < n; i++ {
			var k slip.Object
			switch g.r.Intn(6) {
			case 0:
				k = slip.Symbol(common.Pick(g.r, plainSyms))
			case 1:
				k = slip.String(common.Pick(g.r, strPool[:6]))
			case 2:
				k = slip.Fixnum(g.r.Intn(10))
			case 3:
				k = slip.Symbol(common.Pick(g.r, keySyms))
			case 4:
				k = slip.Character('c')
			default:
				k = slip.DoubleFloat(2.5)
			}
			h[k] = g.value(depth-2, symOK)
		}
		return h
	default:
		g.hist("kind:lambda")
		return g.lambda()
	}
}

func (g *gen) lambda() slip.Object {
	if l := g.genLambda(g.r.Chance(20)); l != nil && g.r.Chance(70) {
		return l
	}
	srcs := []string{
		"(lambda (x) (1+ x))",
		"(lambda (x y) (list x y))",
		"(lambda () 3)",
		"(lambda (x &optional (y 2)) (+ x y))",
		"(lambda (x) \"doc string\" (* x 2))",
		"(lambda (a &rest r) (cons a r))",
		"(lambda (x) (let ((y (* x x))) (if (> y 10) (list 'big y) (list 'small y))))",
	}
	o := common.EvalIn(slip.NewScope(), common.Pick(g.r, srcs))
	return o.Value
}

// firstDiff descends into two objects and names the first sub-object that is not Equal.
func firstDiff(a, b slip.Object, path string) string {
	if slip.ObjectEqual(a, b) {
		return ""
	}
	switch ta := a.(type) {
	case slip.List:
		if tb, ok := b.(slip.List); ok && len(ta) == len(tb) {
			for i := range ta {
				if d := firstDiff(ta[i], tb[i], fmt.Sprintf("%s[%d]", path, i)); d != "" {
					return d
				}
			}
		}
	case slip.Tail:
		if tb, ok := b.(slip.Tail); ok {
			return firstDiff(ta.Value, tb.Value, path+".tail")
		}
	case *slip.Vector:
		if tb, ok := b.(*slip.Vector); ok && len(ta.Elements()) == len(tb.Elements()) {
			for i := range ta.Elements() {
				if d := firstDiff(ta.Elements()[i], tb.Elements()[i], fmt.Sprintf("%s#[%d]", path, i)); d != "" {
					return d
				}
			}
			return fmt.Sprintf("%s: vector attrs et %q/%q adj %v/%v", path, ta.ElementType(), tb.ElementType(), ta.Adjustable(), tb.Adjustable())
		}
	case slip.HashTable:
		if tb, ok := b.(slip.HashTable); ok {
			for k, v := range ta {
				v2, has := tb[k]
				if !has {
					return fmt.Sprintf("%s: key %T %s missing", path, k, readable(k))
				}
				if d := firstDiff(v, v2, path+"{"+readable(k)+"}"); d != "" {
					return d
				}
			}
		}
	case *slip.Array:
		if tb, ok := b.(*slip.Array); ok && len(ta.Elements()) == len(tb.Elements()) {
			for i := range ta.Elements() {
				if d := firstDiff(ta.Elements()[i], tb.Elements()[i], fmt.Sprintf("%s#A[%d]", path, i)); d != "" {
					return d
				}
			}
		}
	}
	return fmt.Sprintf("%s: %T %s  vs  %T %s", path, a, readable(a), b, readable(b))
}
