package c19

import (
	"fmt"
	"os"
	"strings"

	"verifharness/common"
)

type sessObs struct {
	Forms     []string `json:"forms"`
	Define    []string `json:"define_outcomes"`
	Snap1     []string `json:"snapshot1_user_forms"`
	LoadFail  []string `json:"load_failures,omitempty"`
	ReadErr   string   `json:"read_error,omitempty"`
	Snap2     []string `json:"snapshot2_user_forms"`
	TextSame  bool     `json:"user_text_identical"`
	Probes    []string `json:"probes"`
	ProbeA    []string `json:"probe_original"`
	ProbeB    []string `json:"probe_restored"`
	Wild      bool     `json:"wild"`
	WildText  bool     `json:"text_level_features_outside_the_model"`
	Problems  []string `json:"problems,omitempty"`
	snap1G    []string
	snap2G    []string
	loadOK    []bool
	probeSame bool
	snapFail  bool
	raw1      string // the whole text of the first snapshot
}

type baseline struct {
	set      map[string]bool // chunks of the empty session's snapshot, first and second generation
	formSet  map[string]bool // the same as flat forms
	fixpoint bool            // the empty session's snapshot is itself a fixed point
	loadOK   bool            // every form of the empty session's snapshot loads
}

func mkBaseline(dir string) (*baseline, error) {
	b := &baseline{set: map[string]bool{}, formSet: map[string]bool{}}
	r0, err := runJob(dir, 0, &Job{Snapshot: true})
	if err != nil {
		return nil, err
	}
	r1, err := runJob(dir, 1, &Job{LoadText: r0.Snapshot, Snapshot: true})
	if err != nil {
		return nil, err
	}
	r2, err := runJob(dir, 2, &Job{LoadText: r1.Snapshot, Snapshot: true})
	if err != nil {
		return nil, err
	}
	for _, s := range []string{r0.Snapshot, r1.Snapshot, r2.Snapshot} {
		for _, c := range chunks(s) {
			b.set[c] = true
		}
		forms, _ := readForms(s)
		for _, f := range forms {
			b.formSet[flat(f)] = true
		}
	}
	b.fixpoint = stripHeader(r0.Snapshot) == stripHeader(r1.Snapshot)
	b.loadOK = r1.ReadErr == ""
	for _, fo := range r1.Load {
		if fo.Outcome != "ok" {
			b.loadOK = false
		}
	}
	return b, nil
}

func userForms(snap string, b *baseline) (out []string, objs []string, rerr string) {
	forms, rerr := readForms(snap)
	for _, f := range forms {
		if s := flat(f); !b.formSet[s] {
			out = append(out, s)
			objs = append(objs, gObj(f))
		}
	}
	return
}

// runSession drives one session through the two fresh processes.
func runSession(dir string, n int, b *baseline, forms, probes []string, wild bool) (*sessObs, error) {
	o := &sessObs{Forms: forms, Probes: probes, Wild: wild}
	a, err := runJob(dir, n, &Job{Define: forms, Snapshot: true, Probes: probes})
	if err != nil {
		return nil, err
	}
	o.Define = a.Define
	o.ProbeA = a.Probes
	if a.SnapErr != "" {
		o.Problems = append(o.Problems, "snapshot failed: "+a.SnapErr)
		o.snapFail = true
		return o, nil
	}
	var rerr string
	o.raw1 = a.Snapshot
	o.Snap1, o.snap1G, rerr = userForms(a.Snapshot, b)
	if rerr != "" {
		o.ReadErr = rerr
		o.Problems = append(o.Problems, "the snapshot text cannot be read: "+rerr)
	}
	bb, err := runJob(dir, n, &Job{LoadText: a.Snapshot, Snapshot: true, Probes: probes})
	if err != nil {
		return nil, err
	}
	for _, fo := range bb.Load {
		if b.formSet[fo.Form] {
			continue
		}
		o.loadOK = append(o.loadOK, fo.Outcome == "ok")
		if fo.Outcome != "ok" {
			o.LoadFail = append(o.LoadFail, fo.Form+" => "+fo.Outcome+" "+fo.Msg)
		}
	}
	if len(o.LoadFail) > 0 {
		o.Problems = append(o.Problems, fmt.Sprintf("%d user forms of the snapshot fail to load", len(o.LoadFail)))
	}
	o.ProbeB = bb.Probes
	o.Snap2, o.snap2G, _ = userForms(bb.Snapshot, b)
	o.probeSame = true
	c1, c2 := userChunks(a.Snapshot, b.set), userChunks(bb.Snapshot, b.set)
	o.TextSame = strings.Join(c1, "\n") == strings.Join(c2, "\n")
	if !o.TextSame {
		o.Problems = append(o.Problems, "second snapshot differs from the first (user part of the text)")
	}
	for i := range probes {
		if i < len(o.ProbeA) && i < len(o.ProbeB) && o.ProbeA[i] != o.ProbeB[i] {
			o.probeSame = false
			o.Problems = append(o.Problems, fmt.Sprintf("probe %s: original %s restored %s", probes[i], o.ProbeA[i], o.ProbeB[i]))
		}
	}
	return o, nil
}

// SessDebug (development aid): generate sessions and print what goes wrong.
func sessDebug(ctx *common.Ctx, rng *common.Rng, n int, wild bool) {
	dir, _ := os.MkdirTemp("", "verif-c19-")
	defer os.RemoveAll(dir)
	b, err := mkBaseline(dir)
	if err != nil {
		panic(err)
	}
	fmt.Println("baseline fixpoint:", b.fixpoint, "loads:", b.loadOK)
	bad := 0
	for i := 0; i < n; i++ {
		forms, probes, _ := genSession(rng, ctx.Hist, wild, os.Getenv("VERIF_C19_MODELLED") != "")
		o, err := runSession(dir, 10+i, b, forms, probes, wild)
		if err != nil {
			fmt.Println("SESSION", i, "worker failed:", err)
			continue
		}
		ok := len(o.Problems) == 0
		for _, d := range o.Define {
			if strings.HasPrefix(d, "!") {
				ok = false
			}
		}
		if ok {
			continue
		}
		bad++
		fmt.Printf("==== session %d\n", i)
		for k, f := range forms {
			fmt.Printf("  %s   => %s\n", f, o.Define[k])
		}
		fmt.Println("  -- snapshot 1")
		for _, f := range o.Snap1 {
			fmt.Println("    ", f)
		}
		for _, f := range o.LoadFail {
			fmt.Println("  LOADFAIL", f)
		}
		for _, p := range o.Problems {
			fmt.Println("  PROBLEM", p)
		}
		if !o.TextSame {
			fmt.Println("  -- snapshot 2")
			for _, f := range o.Snap2 {
				fmt.Println("    ", f)
			}
		}
	}
	fmt.Printf("%d of %d sessions with problems\n", bad, n)
}

// sessionTerm renders a modelled session as a Gallina SCase.
func sessionTerm(o *sessObs) (string, bool) {
	var hist []string
	for _, f := range o.Forms {
		forms, rerr := readForms(f)
		if rerr != "" || len(forms) != 1 {
			return "", false
		}
		hist = append(hist, gObj(forms[0]))
	}
	oks := make([]string, len(o.loadOK))
	for i, b := range o.loadOK {
		oks[i] = common.GBool(b)
	}
	wildText := o.WildText
	if o.ReadErr != "" || len(o.loadOK) != len(o.snap1G) {
		o.snapFail = true // no readable snapshot: judged like a failure of the snapshot writer
	}
	return fmt.Sprintf("SCase %s %s %s %s %s %s %s %s", common.GList(hist), common.GBool(wildText), common.GBool(o.snapFail), common.GList(o.snap1G),
		common.GList(oks), common.GList(o.snap2G), common.GBool(o.TextSame), common.GBool(o.probeSame)), true
}
