// Package c14: sequence functions with every keyword combination, each call run on the same
// elements given as a list, as nil (empty only), as a vector and as a string; the observed results go
// to Coq where the model (what the Go code does) and the specification (what the language defines)
// are evaluated on the same call.
package c14

import (
	"fmt"
	"strings"
	"time"

	"github.com/ohler55/slip"
	"verifharness/common"
)

// ---- the call ------------------------------------------------------------------------------------

type testKind int

const (
	testDefault testKind = iota
	testTest
	testNot
)

type countKind int

const (
	countAbsent countKind = iota
	countNil
	countNum
)

var testNames = []string{"TEql", "TEq", "TLt", "TGt", "TLe", "TGe", "TNe"}
var intTests = map[string]string{"TEql": "eql", "TEq": "=", "TLt": "<", "TGt": ">", "TLe": "<=", "TGe": ">=", "TNe": "/="}
var charTests = map[string]string{"TEql": "eql", "TEq": "char=", "TLt": "char<", "TGt": "char>", "TLe": "char<=", "TGe": "char>=", "TNe": "char/="}
var keyNames = []string{"KNeg", "KAbs", "KSucc", "KSq"}
var intKeys = map[string]string{"KNeg": "'-", "KAbs": "'abs", "KSucc": "'1+", "KSq": "(lambda (x) (* x x))"}
var keyBody = map[string]string{"KNeg": "(- %s)", "KAbs": "(abs %s)", "KSucc": "(1+ %s)", "KSq": "(* %s %s)"}

type call struct {
	fn       *fspec
	item     int
	newv     int
	predT    string
	predC    int
	s1, s2   []int
	start    int // -1 absent
	end      int // -1 absent, -2 nil
	start2   int
	end2     int
	key      string // "" absent
	tkind    testKind
	test     string
	ckind    countKind
	count    int
	fromEnd  bool
	feNil    bool // written as :from-end nil
	hashQuote bool // #'f instead of 'f
	truth    string // what the tests / predicates return for true: TrT TrNum TrElt TrStr TrList TrIdx
	op       string // binop (reduce, two-sequence map)
	hasInit  bool
	init     int
	nseq     int
	flag     bool
	// when set, the sequences are written as these expressions (variables) instead of literals
	lit1, lit2 string
}

type fspec struct {
	lisp     string
	coq      string
	item     bool // takes item (first argument)
	pred     bool // takes a predicate (first argument)
	newv     bool // takes new (before item/pred)
	hasTest  bool
	hasCount bool
	hasFE    bool
	destr    bool   // destructive: argument must be fresh
	result   string // elt | index | seq | bool | pair | value | boolelt
	weight   int
	layout   string // how the arguments are written (default: [new] item|pred seq keywords)
	listOnly bool   // the function is defined on lists only
	family   string // generator family
}

var fspecs = []*fspec{
	{lisp: "find", coq: "FFind", item: true, hasTest: true, hasFE: true, result: "elt", weight: 10},
	{lisp: "find-if", coq: "FFindIf", pred: true, hasFE: true, result: "elt", weight: 6},
	{lisp: "position", coq: "FPosition", item: true, hasTest: true, hasFE: true, result: "index", weight: 10},
	{lisp: "position-if", coq: "FPositionIf", pred: true, hasFE: true, result: "index", weight: 6},
	{lisp: "count", coq: "FCount", item: true, hasTest: true, hasFE: true, result: "index", weight: 8},
	{lisp: "count-if", coq: "FCountIf", pred: true, hasFE: true, result: "index", weight: 5},
	{lisp: "remove", coq: "FRemove", item: true, hasTest: true, hasCount: true, hasFE: true, result: "seq", weight: 12},
	{lisp: "remove-if", coq: "FRemoveIf", pred: true, hasCount: true, hasFE: true, result: "seq", weight: 7},
	{lisp: "delete", coq: "FDelete", item: true, hasTest: true, hasCount: true, hasFE: true, destr: true, result: "seq", weight: 6},
	{lisp: "delete-if", coq: "FDeleteIf", pred: true, hasCount: true, hasFE: true, destr: true, result: "seq", weight: 4},
	{lisp: "substitute", coq: "FSubstitute", item: true, newv: true, hasTest: true, hasCount: true, hasFE: true, result: "seq", weight: 10},
	{lisp: "substitute-if", coq: "FSubstituteIf", pred: true, newv: true, hasCount: true, hasFE: true, result: "seq", weight: 6},
	{lisp: "nsubstitute", coq: "FNsubstitute", item: true, newv: true, hasTest: true, hasCount: true, hasFE: true, destr: true, result: "seq", weight: 4},
	{lisp: "nsubstitute-if", coq: "FNsubstituteIf", pred: true, newv: true, hasCount: true, hasFE: true, destr: true, result: "seq", weight: 3},
	{lisp: "remove-duplicates", coq: "FRemoveDuplicates", hasTest: true, hasFE: true, result: "seq", weight: 10},
	{lisp: "delete-duplicates", coq: "FDeleteDuplicates", hasTest: true, hasFE: true, destr: true, result: "seq", weight: 4},
	{lisp: "find-if-not", coq: "FFindIfNot", pred: true, hasFE: true, result: "elt", weight: 2},
	{lisp: "position-if-not", coq: "FPositionIfNot", pred: true, hasFE: true, result: "index", weight: 2},
	{lisp: "count-if-not", coq: "FCountIfNot", pred: true, hasFE: true, result: "index", weight: 1},
	{lisp: "remove-if-not", coq: "FRemoveIfNot", pred: true, hasCount: true, hasFE: true, result: "seq", weight: 3},
	{lisp: "delete-if-not", coq: "FDeleteIfNot", pred: true, hasCount: true, hasFE: true, destr: true, result: "seq", weight: 1},
	{lisp: "substitute-if-not", coq: "FSubstituteIfNot", pred: true, newv: true, hasCount: true, hasFE: true, result: "seq", weight: 1},
	{lisp: "nsubstitute-if-not", coq: "FNsubstituteIfNot", pred: true, newv: true, hasCount: true, hasFE: true, destr: true, result: "seq", weight: 1},
	{lisp: "member", coq: "FMember", item: true, hasTest: true, result: "seq", weight: 5, listOnly: true, family: "member"},
	{lisp: "member-if", coq: "FMemberIf", pred: true, result: "seq", weight: 3, listOnly: true, family: "member"},
	{lisp: "assoc", coq: "FAssoc", item: true, hasTest: true, result: "pair", weight: 5, listOnly: true, family: "assoc", layout: "assoc"},
	{lisp: "assoc-if", coq: "FAssocIf", pred: true, result: "pair", weight: 2, listOnly: true, family: "assoc", layout: "assoc"},
	{lisp: "assoc-if-not", coq: "FAssocIfNot", pred: true, result: "pair", weight: 2, listOnly: true, family: "assoc", layout: "assoc"},
	{lisp: "rassoc", coq: "FRassoc", item: true, hasTest: true, result: "pair", weight: 4, listOnly: true, family: "assoc", layout: "assoc"},
	{lisp: "rassoc-if", coq: "FRassocIf", pred: true, result: "pair", weight: 2, listOnly: true, family: "assoc", layout: "assoc"},
	{lisp: "search", coq: "FSearch", hasTest: true, hasFE: true, result: "index", weight: 12, family: "search", layout: "two"},
	{lisp: "mismatch", coq: "FMismatch", hasTest: true, hasFE: true, result: "index", weight: 10, family: "mismatch", layout: "two"},
	{lisp: "subseq", coq: "FSubseq", result: "seq", weight: 5, family: "subseq", layout: "subseq"},
	{lisp: "replace", coq: "FReplace", destr: true, result: "seq", weight: 8, family: "replace", layout: "two"},
	{lisp: "fill", coq: "FFill", destr: true, result: "seq", weight: 6, family: "fill", layout: "fill"},
	{lisp: "reverse", coq: "FReverse", result: "seq", weight: 3, family: "plain", layout: "plain"},
	{lisp: "nreverse", coq: "FNreverse", destr: true, result: "seq", weight: 2, family: "plain", layout: "plain"},
	{lisp: "sort", coq: "FSort", destr: true, result: "seq", weight: 8, family: "sort", layout: "sort"},
	{lisp: "stable-sort", coq: "FStableSort", destr: true, result: "seq", weight: 8, family: "sort", layout: "sort"},
	{lisp: "merge", coq: "FMerge", destr: true, result: "seq", weight: 8, family: "merge", layout: "merge"},
	{lisp: "union", coq: "FUnion", hasTest: true, result: "seq", weight: 5, listOnly: true, family: "set", layout: "two"},
	{lisp: "intersection", coq: "FIntersection", hasTest: true, result: "seq", weight: 5, listOnly: true, family: "set", layout: "two"},
	{lisp: "set-difference", coq: "FSetDifference", hasTest: true, result: "seq", weight: 5, listOnly: true, family: "set", layout: "two"},
	{lisp: "subsetp", coq: "FSubsetp", hasTest: true, result: "bool", weight: 5, listOnly: true, family: "set", layout: "two"},
	{lisp: "every", coq: "FEvery", result: "bool", weight: 4, family: "quant", layout: "quant"},
	{lisp: "some", coq: "FSome", result: "boolelt", weight: 4, family: "quant", layout: "quant"},
	{lisp: "notany", coq: "FNotany", result: "bool", weight: 3, family: "quant", layout: "quant"},
	{lisp: "notevery", coq: "FNotevery", result: "bool", weight: 3, family: "quant", layout: "quant"},
	{lisp: "map", coq: "FMap", result: "seq", weight: 5, family: "map", layout: "map"},
	{lisp: "mapcar", coq: "FMapcar", result: "seq", weight: 4, listOnly: true, family: "map", layout: "map"},
	{lisp: "reduce", coq: "FReduce", hasFE: true, result: "value", weight: 10, family: "reduce", layout: "reduce"},
	{lisp: "concatenate", coq: "FConcatenate", result: "seq", weight: 4, family: "concat", layout: "concat"},
}

var opNames = []string{"BAdd", "BSub", "BMax", "BMin", "BFirst", "BSecond"}
var opBody = map[string]string{"BAdd": "(+ %s %s)", "BSub": "(- %s %s)", "BMax": "(max %s %s)", "BMin": "(min %s %s)", "BFirst": "%[1]s", "BSecond": "%[2]s"}
var opSym = map[string]string{"BAdd": "'+", "BSub": "'-", "BMax": "'max", "BMin": "'min"}
var typeNames = []string{"'list", "'list", "'vector", "'string"}

// ---- rendering -----------------------------------------------------------------------------------

const (
	asNil = iota
	asList
	asVec
	asStr
)

var formNames = []string{"AsNil", "AsList", "AsVec", "AsStr"}

func charLit(e int) string { return fmt.Sprintf("(code-char %d)", 100+e) }

func seqLit(xs []int, form int, fresh bool) string {
	if form == asNil {
		if len(xs) == 0 {
			return "nil"
		}
		form = asList
	}
	switch form {
	case asList:
		if len(xs) == 0 {
			return "'()"
		}
		parts := make([]string, len(xs))
		for i, x := range xs {
			parts[i] = fmt.Sprint(x)
		}
		if fresh {
			return "(list " + strings.Join(parts, " ") + ")"
		}
		return "'(" + strings.Join(parts, " ") + ")"
	case asVec:
		parts := make([]string, len(xs))
		for i, x := range xs {
			parts[i] = fmt.Sprint(x)
		}
		if fresh || len(xs) == 0 {
			return strings.TrimSpace("(vector " + strings.Join(parts, " ") + ")")
		}
		return "#(" + strings.Join(parts, " ") + ")"
	default:
		rs := make([]rune, len(xs))
		for i, x := range xs {
			rs[i] = rune(100 + x)
		}
		if fresh {
			return `(copy-seq "` + string(rs) + `")`
		}
		return `"` + string(rs) + `"`
	}
}

// fn designator
func (c *call) desig(name string) string {
	if c.hashQuote {
		return "#'" + name
	}
	return "'" + name
}

// elements are characters exactly when the form is a string and no key decodes them
func (c *call) charLevel(form int) bool { return form == asStr && c.key == "" }

func (c *call) keyLisp(form int) string {
	if c.key == "" {
		return ""
	}
	if form == asStr {
		arg := "(- (char-code ch) 100)"
		body := keyBody[c.key]
		if c.key == "KSq" {
			return fmt.Sprintf("(lambda (ch) "+body+")", arg, arg)
		}
		return fmt.Sprintf("(lambda (ch) "+body+")", arg)
	}
	k := intKeys[c.key]
	if c.hashQuote && strings.HasPrefix(k, "'") {
		return "#" + k
	}
	return k
}

func dec(v string) string { return "(- (char-code " + v + ") 100)" }
func enc(v string) string { return "(code-char (+ 100 " + v + "))" }

var strTests = map[string]string{"TEql": "string=", "TEq": "string=", "TLt": "string<", "TGt": "string>", "TLe": "string<=", "TGe": "string>=", "TNe": "string/="}

// generalized booleans: cond is a Lisp form that is t / nil; the result answers nil for false and, for
// true, the object the style of this call prescribes (arg is a variable holding one of the arguments)
func (c *call) truthBody(cond, arg string) string {
	switch c.truth {
	case "TrNum":
		return "(and " + cond + " 7)"
	case "TrElt":
		return "(if " + cond + " " + arg + " nil)"
	case "TrStr":
		return "(if " + cond + " \"yes\" nil)"
	case "TrList":
		return "(if " + cond + " (list " + arg + ") nil)"
	case "TrIdx":
		return "(and " + cond + " 0)"
	}
	return cond
}

// the two-argument test as a function designator at the level of the elements of this form
func (c *call) testLisp(form int) string {
	name := intTests[c.test]
	if c.charLevel(form) {
		name = charTests[c.test]
	}
	if c.truth == "" || c.truth == "TrT" {
		return c.desig(name)
	}
	if c.truth == "TrIdx" && c.charLevel(form) {
		// string< and friends answer with the mismatch index (0 for one-character strings)
		return "(lambda (a b) (" + strTests[c.test] + " (string a) (string b)))"
	}
	return "(lambda (a b) " + c.truthBody("("+name+" a b)", "b") + ")"
}

func (c *call) opLisp(form int) string {
	body := opBody[c.op]
	if c.charLevel(form) {
		return "(lambda (a b) " + enc(fmt.Sprintf(body, dec("a"), dec("b"))) + ")"
	}
	if sym, ok := opSym[c.op]; ok && c.hashQuote {
		return sym
	}
	return "(lambda (a b) " + fmt.Sprintf(body, "a", "b") + ")"
}

func (c *call) keywords(form int, two bool) []string {
	var kws []string
	n1 := ""
	if two {
		n1 = "1"
	}
	if c.start >= 0 {
		kws = append(kws, fmt.Sprintf(":start%s %d", n1, c.start))
	}
	if c.end >= 0 {
		kws = append(kws, fmt.Sprintf(":end%s %d", n1, c.end))
	} else if c.end == -2 {
		kws = append(kws, ":end"+n1+" nil")
	}
	if two {
		if c.start2 >= 0 {
			kws = append(kws, fmt.Sprintf(":start2 %d", c.start2))
		}
		if c.end2 >= 0 {
			kws = append(kws, fmt.Sprintf(":end2 %d", c.end2))
		}
	}
	if c.key != "" {
		kws = append(kws, ":key "+c.keyLisp(form))
	}
	if c.tkind != testDefault {
		kw := ":test"
		if c.tkind == testNot {
			kw = ":test-not"
		}
		kws = append(kws, kw+" "+c.testLisp(form))
	}
	switch c.ckind {
	case countNil:
		kws = append(kws, ":count nil")
	case countNum:
		kws = append(kws, fmt.Sprintf(":count %d", c.count))
	}
	if c.fromEnd {
		kws = append(kws, ":from-end t")
	} else if c.feNil {
		kws = append(kws, ":from-end nil")
	}
	if c.hasInit {
		if c.charLevel(form) {
			kws = append(kws, ":initial-value "+charLit(c.init))
		} else {
			kws = append(kws, fmt.Sprintf(":initial-value %d", c.init))
		}
	}
	// an order derived from the case (the order must not matter)
	if len(kws) > 1 {
		rot := (c.item + c.newv + len(c.s1) + 70) % len(kws)
		kws = append(kws[rot:], kws[:rot]...)
	}
	return kws
}

func (c *call) render(form int) string {
	var b strings.Builder
	f := c.fn
	b.WriteString("(" + f.lisp)
	val := func(e int) string {
		if c.charLevel(form) {
			return charLit(e)
		}
		return fmt.Sprint(e)
	}
	predLisp := func() string {
		name, cst := intTests[c.predT], fmt.Sprint(c.predC)
		if c.charLevel(form) {
			name, cst = charTests[c.predT], charLit(c.predC)
		}
		cond := fmt.Sprintf("(%s %s x)", name, cst)
		if c.flag {
			return "(lambda (x) (if " + cond + " x nil))"
		}
		if c.truth == "TrIdx" && c.charLevel(form) {
			return fmt.Sprintf("(lambda (x) (%s (string %s) (string x)))", strTests[c.predT], cst)
		}
		return "(lambda (x) " + c.truthBody(cond, "x") + ")"
	}
	s1 := seqLit(c.s1, form, f.destr)
	s2 := seqLit(c.s2, form, f.destr)
	if c.lit1 != "" {
		s1, s2 = c.lit1, c.lit2
	}
	switch f.layout {
	case "assoc":
		if f.item {
			b.WriteString(" " + val(c.item))
		} else {
			b.WriteString(" " + predLisp())
		}
		if len(c.s1) == 0 {
			b.WriteString(" " + seqLit(nil, form, false))
		} else {
			parts := make([]string, len(c.s1))
			for i := range c.s1 {
				parts[i] = fmt.Sprintf("(%d . %d)", c.s1[i], c.s2[i])
			}
			b.WriteString(" '(" + strings.Join(parts, " ") + ")")
		}
		for _, kw := range c.keywords(form, false) {
			b.WriteString(" " + kw)
		}
	case "two":
		b.WriteString(" " + s1 + " " + s2)
		for _, kw := range c.keywords(form, true) {
			b.WriteString(" " + kw)
		}
	case "subseq":
		b.WriteString(fmt.Sprintf(" %s %d", s1, c.start))
		if c.end >= 0 {
			b.WriteString(fmt.Sprintf(" %d", c.end))
		} else if c.end == -2 {
			b.WriteString(" nil")
		}
	case "fill":
		item := fmt.Sprint(c.item)
		if form == asStr {
			item = charLit(c.item)
		}
		b.WriteString(" " + s1 + " " + item)
		for _, kw := range c.keywords(form, false) {
			b.WriteString(" " + kw)
		}
	case "plain":
		b.WriteString(" " + s1)
	case "sort":
		b.WriteString(" " + s1 + " " + c.testLisp(form))
		if c.key != "" {
			b.WriteString(" :key " + c.keyLisp(form))
		}
	case "merge":
		b.WriteString(" " + typeNames[form] + " " + s1 + " " + s2 + " " + c.testLisp(form))
		if c.key != "" {
			b.WriteString(" :key " + c.keyLisp(form))
		}
	case "quant":
		if c.nseq == 1 {
			b.WriteString(" " + predLisp() + " " + s1)
		} else {
			b.WriteString(" " + c.testLisp(form) + " " + s1 + " " + s2)
		}
	case "map":
		if f.lisp == "map" {
			b.WriteString(" " + typeNames[form])
		}
		if c.nseq == 1 {
			if form == asStr {
				body := keyBody[c.key]
				arg := dec("ch")
				var kb string
				if c.key == "KSq" {
					kb = fmt.Sprintf(body, arg, arg)
				} else {
					kb = fmt.Sprintf(body, arg)
				}
				b.WriteString(" (lambda (ch) " + enc(kb) + ") " + s1)
			} else {
				b.WriteString(" " + c.keyLisp(form) + " " + s1)
			}
		} else {
			if form == asStr {
				b.WriteString(" (lambda (a b) " + enc(fmt.Sprintf(opBody[c.op], dec("a"), dec("b"))) + ") " + s1 + " " + s2)
			} else {
				b.WriteString(" " + c.opLisp(form) + " " + s1 + " " + s2)
			}
		}
	case "reduce":
		b.WriteString(" " + c.opLisp(form) + " " + s1)
		for _, kw := range c.keywords(form, false) {
			b.WriteString(" " + kw)
		}
	case "concat":
		b.WriteString(" " + typeNames[form] + " " + s1 + " " + s2)
	default:
		if f.newv {
			// the new element always lives in the sequence: a character in a string
			if form == asStr {
				b.WriteString(" " + charLit(c.newv))
			} else {
				b.WriteString(" " + fmt.Sprint(c.newv))
			}
		}
		if f.item {
			b.WriteString(" " + val(c.item))
		}
		if f.pred {
			b.WriteString(" " + predLisp())
		}
		b.WriteString(" " + s1)
		for _, kw := range c.keywords(form, false) {
			b.WriteString(" " + kw)
		}
	}
	b.WriteString(")")
	return b.String()
}

// ---- Gallina -------------------------------------------------------------------------------------

func gZ(x int) string { return fmt.Sprintf("(%d)", x) }
func gZs(xs []int) string {
	parts := make([]string, len(xs))
	for i, x := range xs {
		parts[i] = gZ(x)
	}
	return "[" + strings.Join(parts, ";") + "]"
}
func gOptNat(x int) string {
	if x < 0 {
		return "None"
	}
	return fmt.Sprintf("(Some %d%%nat)", x)
}

func (c *call) gallina() string {
	key := "None"
	if c.key != "" {
		key = "(Some " + c.key + ")"
	}
	test := "TDefault"
	switch c.tkind {
	case testTest:
		test = "(TTest " + c.test + ")"
	case testNot:
		test = "(TTestNot " + c.test + ")"
	}
	count := "CAbsent"
	switch c.ckind {
	case countNil:
		count = "CNil"
	case countNum:
		count = fmt.Sprintf("(CNum %s)", gZ(c.count))
	}
	init := "None"
	if c.hasInit {
		init = "(Some " + gZ(c.init) + ")"
	}
	return fmt.Sprintf("mkCall %s %s %s (PT %s %s) (SList %s) (SList %s) %s %s %s %s %s %s %s %s %s %s %s %d%%nat %s "+c.truth,
		c.fn.coq, gZ(c.item), gZ(c.newv), c.predT, gZ(c.predC), gZs(c.s1), gZs(c.s2),
		gOptNat(c.start), gOptNat(c.end), common.GBool(c.end == -2), gOptNat(c.start2), gOptNat(c.end2), key, test, count,
		common.GBool(c.fromEnd), c.op, init, c.nseq, common.GBool(c.flag))
}

// ---- decoding what the implementation returned ------------------------------------------------------

func errRes(o common.Outcome) string {
	switch {
	case o.Err == "timeout":
		return "(RErr EOther)"
	case common.Fault(o.Msg) || o.Err == "go-panic":
		return "(RErr EFault)"
	case o.Err == "type-error":
		return "(RErr EType)"
	case o.Err == "undefined-function":
		return "(RErr EUndefined)"
	case o.Err == "error" || o.Err == "simple-error":
		return "(RErr EError)"
	}
	return "(RErr EOther)"
}

func decodeElt(v slip.Object, chars bool) (int, bool) {
	switch tv := v.(type) {
	case slip.Fixnum:
		if !chars {
			return int(tv), true
		}
	case slip.Character:
		if chars {
			return int(tv) - 100, true
		}
	}
	return 0, false
}

func decodeSeq(v slip.Object, form int) ([]int, bool) {
	var out []int
	switch form {
	case asNil, asList:
		switch tv := v.(type) {
		case nil:
			return []int{}, true
		case slip.List:
			for _, e := range tv {
				x, ok := decodeElt(e, false)
				if !ok {
					return nil, false
				}
				out = append(out, x)
			}
			return out, true
		}
	case asVec:
		if vec, ok := v.(*slip.Vector); ok {
			for _, e := range vec.AsList() {
				x, ok := decodeElt(e, false)
				if !ok {
					return nil, false
				}
				out = append(out, x)
			}
			return out, true
		}
	case asStr:
		if s, ok := v.(slip.String); ok {
			for _, r := range []rune(string(s)) {
				out = append(out, int(r)-100)
			}
			return out, true
		}
	}
	return nil, false
}

func (c *call) decode(o common.Outcome, form int) string {
	if o.Err != "" {
		return errRes(o)
	}
	v := o.Value
	switch c.fn.result {
	case "elt":
		if v == nil {
			return "RNil"
		}
		if x, ok := decodeElt(v, form == asStr); ok {
			return "(RElt " + gZ(x) + ")"
		}
	case "index":
		if v == nil {
			return "RNil"
		}
		if x, ok := v.(slip.Fixnum); ok {
			return "(RInt " + gZ(int(x)) + ")"
		}
	case "bool", "boolelt":
		if v == nil {
			return "RNil"
		}
		if v == slip.True {
			return "RTrue"
		}
		if c.fn.result == "boolelt" {
			if x, ok := decodeElt(v, form == asStr); ok {
				return "(RElt " + gZ(x) + ")"
			}
		}
	case "value":
		if v == nil {
			return "RNil"
		}
		if x, ok := decodeElt(v, c.charLevel(form)); ok {
			return "(RElt " + gZ(x) + ")"
		}
	case "pair":
		if v == nil {
			return "RNil"
		}
		if l, ok := v.(slip.List); ok && len(l) == 2 {
			if t, ok := l[1].(slip.Tail); ok {
				k, ok1 := decodeElt(l[0], false)
				w, ok2 := decodeElt(t.Value, false)
				if ok1 && ok2 {
					return "(RSeq " + gZs([]int{k, w}) + ")"
				}
			}
		}
	case "seq":
		if xs, ok := decodeSeq(v, form); ok {
			return "(RSeq " + gZs(xs) + ")"
		}
	}
	return "ROther"
}

// ---- generation ------------------------------------------------------------------------------------

var alphabet = []int{-1, 0, 1, 2}

func genSeq(r *common.Rng, maxLen int) []int {
	n := 0
	switch x := r.Intn(100); {
	case x < 7:
		n = 0
	case x < 14:
		n = 1
	default:
		n = 2 + r.Intn(maxLen-1)
	}
	xs := make([]int, n)
	for i := range xs {
		xs[i] = common.Pick(r, alphabet)
	}
	return xs
}

// reference implementations of the tests and keys, used ONLY to shape inputs (sorted arguments for
// merge, a pattern that occurs for search); nothing is judged with them
func keyVal(k string, x int) int {
	switch k {
	case "KNeg":
		return -x
	case "KAbs":
		if x < 0 {
			return -x
		}
		return x
	case "KSucc":
		return x + 1
	case "KSq":
		return x * x
	}
	return x
}
func testVal(t string, a, b int) bool {
	switch t {
	case "TLt":
		return a < b
	case "TGt":
		return a > b
	case "TLe":
		return a <= b
	case "TGe":
		return a >= b
	case "TNe":
		return a != b
	}
	return a == b
}
func sortedBy(xs []int, t, k string) []int {
	out := append([]int{}, xs...)
	for i := 1; i < len(out); i++ {
		for j := i; j > 0 && testVal(t, keyVal(k, out[j]), keyVal(k, out[j-1])); j-- {
			out[j], out[j-1] = out[j-1], out[j]
		}
	}
	return out
}

func genBounds(r *common.Rng, n int, pStart, pEnd, pNil int) (start, end int) {
	start, end = -1, -1
	lo := 0
	if r.Chance(pStart) {
		start = r.Intn(n + 1)
		lo = start
	}
	switch x := r.Intn(100); {
	case x < pEnd:
		end = lo + r.Intn(n-lo+1)
	case x < pEnd+pNil:
		end = -2
	}
	return
}

func genCall(r *common.Rng, f *fspec, maxLen int) *call {
	c := &call{fn: f, start: -1, end: -1, start2: -1, end2: -1, op: "BAdd", nseq: 1}
	c.s1 = genSeq(r, maxLen)
	n := len(c.s1)
	pickElem := func() int {
		if n > 0 && r.Chance(70) {
			return c.s1[r.Intn(n)]
		}
		return common.Pick(r, []int{-2, -1, 0, 1, 2, 3})
	}
	c.item = pickElem()
	c.newv = common.Pick(r, []int{-1, 0, 1, 2, 3, 7})
	c.predT = common.Pick(r, testNames)
	c.predC = pickElem()
	c.test = "TEql"
	c.hashQuote = r.Chance(30)
	genTest := func(pTest, pNot int) {
		switch x := r.Intn(100); {
		case x < pTest:
			c.tkind, c.test = testTest, common.Pick(r, testNames)
		case x < pTest+pNot:
			c.tkind, c.test = testNot, common.Pick(r, testNames)
		}
	}
	switch f.family {
	case "":
		if n > 0 && r.Chance(6) {
			c.s1[r.Intn(n)] = 133 // a two-byte character in the string form
		}
		c.start, c.end = genBounds(r, n, 60, 55, 10)
		if r.Chance(50) {
			c.key = common.Pick(r, keyNames)
		}
		if (c.key == "KAbs" || c.key == "KSq") && n >= 2 && r.Chance(45) {
			// several DIFFERENT elements with the same key: only the element returned tells which one was selected
			i, j := r.Intn(n), r.Intn(n-1)
			if j >= i {
				j++
			}
			c.s1[i], c.s1[j] = -1, 1
			c.item, c.predC = 1, 1
			if r.Chance(60) {
				c.predT = "TEql"
			}
		}
		if f.hasTest {
			genTest(50, 16) // :test-not is a keyword of the shared parser (repo_fixes/C14-19)
		}
		if f.hasCount {
			switch x := r.Intn(100); {
			case x < 60:
				c.ckind, c.count = countNum, r.Intn(n+3)-1
			case x < 66:
				c.ckind = countNil
			}
		}
		switch x := r.Intn(100); {
		case x < 45:
			c.fromEnd = true
		case x < 52:
			c.feNil = true
		}
	case "member":
		if r.Chance(50) {
			c.key = common.Pick(r, keyNames)
		}
		if f.hasTest {
			genTest(50, 14)
		}
	case "assoc":
		c.s2 = make([]int, n)
		for i := range c.s2 {
			c.s2[i] = common.Pick(r, alphabet)
		}
		if n > 0 && r.Chance(60) && (f.lisp == "rassoc" || f.lisp == "rassoc-if") {
			c.item = c.s2[r.Intn(n)]
			c.predC = c.item
		}
		if r.Chance(40) {
			c.key = common.Pick(r, keyNames)
		}
		if f.hasTest {
			genTest(55, 12)
		}
	case "search":
		c.s2 = c.s1
		n2 := len(c.s2)
		// the pattern: mostly a piece of sequence-2 (so that it occurs), sometimes changed
		switch x := r.Intn(100); {
		case x < 70 && n2 > 0:
			lo := r.Intn(n2)
			if r.Chance(20) { // the match at the very start of the searched range (the last offset :from-end tries)
				lo = 0
				if r.Chance(40) {
					lo = r.Intn(n2)
					c.start2 = lo
				}
			}
			hi := lo + r.Intn(min(3, n2-lo)+1)
			c.s1 = append([]int{}, c.s2[lo:hi]...)
			if len(c.s1) > 0 && r.Chance(20) {
				c.s1[r.Intn(len(c.s1))] = common.Pick(r, alphabet)
			}
		case x < 80:
			c.s1 = nil
		default:
			c.s1 = genSeq(r, 3)
		}
		if r.Chance(12) {
			// a pattern that overlaps itself, and a text in which the match begins inside a failed partial
			// match: (a a b) in (a a a b), (a b a c) in (a b a b a c) (added after seeded change C14-4)
			i0 := r.Intn(4)
			i1 := (i0 + 1 + r.Intn(3)) % 4
			i2 := 0
			for i2 == i0 || i2 == i1 {
				i2++
			}
			a, b, cc := alphabet[i0], alphabet[i1], alphabet[i2]
			type ov struct {
				p     []int
				shift int
			}
			o := common.Pick(r, []ov{{[]int{a, a, b}, 1}, {[]int{a, b, a, cc}, 2}, {[]int{a, a, a, b}, 1}, {[]int{a, b, a, b, cc}, 2}, {[]int{a, a, b, a, a, cc}, 3}})
			c.s1 = o.p
			text := []int{}
			for i := r.Intn(3); i > 0; i-- {
				text = append(text, common.Pick(r, alphabet))
			}
			text = append(text, o.p[:o.shift]...)
			if r.Chance(30) {
				text = append(text, o.p[:o.shift]...)
			}
			text = append(text, o.p...)
			for i := r.Intn(3); i > 0; i-- {
				text = append(text, common.Pick(r, alphabet))
			}
			c.s2 = text
			n2 = len(c.s2)
			c.start2 = -1
		}
		if r.Chance(25) { // some context around the pattern, cut off again by start1/end1
			pre, post := r.Intn(2), r.Intn(2)
			full := []int{}
			for i := 0; i < pre; i++ {
				full = append(full, common.Pick(r, alphabet))
			}
			full = append(full, c.s1...)
			for i := 0; i < post; i++ {
				full = append(full, common.Pick(r, alphabet))
			}
			c.start, c.end = pre, pre+len(c.s1)
			c.s1 = full
			if pre == 0 && r.Bool() {
				c.start = -1
			}
			if post == 0 && r.Bool() {
				c.end = -1
			}
		} else if r.Chance(15) {
			c.start, c.end = genBounds(r, len(c.s1), 60, 55, 10)
		}
		if c.start2 >= 0 { // pattern cut at start2: keep that start, draw the end behind it
			c.end2 = -1
			if r.Chance(40) {
				c.end2 = c.start2 + r.Intn(n2-c.start2+1)
			}
		} else {
			c.start2, c.end2 = genBounds(r, n2, 45, 40, 0)
		}
		if r.Chance(35) {
			c.key = common.Pick(r, keyNames)
		}
		genTest(42, 12)
		c.fromEnd = r.Chance(50)
	case "mismatch":
		// sequence-2: sequence-1 with a change, a cut or an extension at either end
		c.s2 = append([]int{}, c.s1...)
		for k := r.Intn(3); k > 0 && len(c.s2) > 0; k-- {
			c.s2[r.Intn(len(c.s2))] = common.Pick(r, alphabet)
		}
		switch r.Intn(6) {
		case 0:
			c.s2 = c.s2[:r.Intn(len(c.s2)+1)]
		case 1:
			c.s2 = c.s2[r.Intn(len(c.s2)+1):]
		case 2:
			c.s2 = append(c.s2, common.Pick(r, alphabet))
		case 3:
			c.s2 = append([]int{common.Pick(r, alphabet)}, c.s2...)
		}
		if r.Chance(50) {
			c.start, c.end = genBounds(r, n, 60, 55, 10)
		}
		if r.Chance(50) {
			c.start2, c.end2 = genBounds(r, len(c.s2), 60, 55, 0)
		}
		if r.Chance(35) {
			c.key = common.Pick(r, keyNames)
		}
		genTest(42, 12)
		c.fromEnd = r.Chance(50)
	case "subseq":
		c.start, c.end = genBounds(r, n, 100, 60, 10)
	case "replace":
		c.s2 = genSeq(r, maxLen)
		c.start, c.end = genBounds(r, n, 55, 50, 8)
		c.start2, c.end2 = genBounds(r, len(c.s2), 50, 45, 0)
	case "fill":
		c.start, c.end = genBounds(r, n, 55, 50, 6)
	case "plain":
	case "sort":
		if r.Chance(30) { // Go's library sorts switch algorithm above 12 (sort.Slice) and 20 (sort.SliceStable) elements
			c.s1 = make([]int, 13+r.Intn(20))
			for i := range c.s1 {
				c.s1[i] = common.Pick(r, alphabet)
			}
		}
		c.tkind, c.test = testTest, common.Pick(r, []string{"TLt", "TGt", "TLt", "TGt", "TLe", "TGe"})
		if r.Chance(60) {
			c.key = common.Pick(r, keyNames)
		}
		// inputs an adaptive sort treats specially: already ordered, ordered backwards (ties included),
		// ordered but for one exchange, a rotation of an ordered run (added after seeded change C14-1)
		if r.Chance(20) { // ties between different elements in a backwards-ordered input
			c.key = common.Pick(r, []string{"KAbs", "KSq"})
			c.test = common.Pick(r, []string{"TLt", "TGt"})
			c.s1 = append([]int{-1, 1, common.Pick(r, []int{0, 2})}, genSeq(r, 5)...)
			srt := sortedBy(c.s1, c.test, c.key)
			for i, j := 0, len(srt)-1; i < j; i, j = i+1, j-1 {
				srt[i], srt[j] = srt[j], srt[i]
			}
			c.s1 = srt
		} else if r.Chance(40) && len(c.s1) > 1 {
			srt := sortedBy(c.s1, c.test, c.key)
			switch r.Intn(4) {
			case 0:
				c.s1 = srt
			case 1:
				for i, j := 0, len(srt)-1; i < j; i, j = i+1, j-1 {
					srt[i], srt[j] = srt[j], srt[i]
				}
				c.s1 = srt
			case 2:
				i, j := r.Intn(len(srt)), r.Intn(len(srt))
				srt[i], srt[j] = srt[j], srt[i]
				c.s1 = srt
			default:
				k := r.Intn(len(srt))
				c.s1 = append(append([]int{}, srt[k:]...), srt[:k]...)
			}
		}
	case "merge":
		c.tkind, c.test = testTest, common.Pick(r, []string{"TLt", "TGt", "TLt", "TGt", "TLe"})
		if r.Chance(55) {
			c.key = common.Pick(r, keyNames)
		}
		c.s2 = genSeq(r, 6)
		if len(c.s1) > 6 {
			c.s1 = c.s1[:6]
		}
		if r.Chance(40) {
			// different elements with the same key in BOTH sequences: only their order in the result tells
			// from which sequence a tie was taken (stability)
			c.key = common.Pick(r, []string{"KAbs", "KSq"})
			c.test = common.Pick(r, []string{"TLt", "TGt"})
			a, b := -1, 1
			if r.Bool() {
				a, b = 1, -1
			}
			c.s1 = append(c.s1, a)
			c.s2 = append(c.s2, b)
		}
		if r.Chance(92) {
			c.s1 = sortedBy(c.s1, c.test, c.key)
			c.s2 = sortedBy(c.s2, c.test, c.key)
		}
	case "set":
		if len(c.s1) > 6 {
			c.s1 = c.s1[:6]
		}
		c.s2 = genSeq(r, 6)
		for i := range c.s2 { // a slightly wider alphabet so that the lists differ
			if r.Chance(25) {
				c.s2[i] = common.Pick(r, []int{-2, 3})
			}
		}
		if r.Chance(45) {
			c.key = common.Pick(r, keyNames)
		}
		genTest(52, 12)
	case "quant":
		if r.Chance(35) {
			c.nseq = 2
			c.s2 = genSeq(r, maxLen)
			c.tkind, c.test = testTest, common.Pick(r, testNames)
		} else if f.lisp == "some" && r.Chance(40) {
			c.flag = true
		}
	case "map":
		c.key = common.Pick(r, []string{"KAbs", "KSucc", "KSq"})
		if r.Chance(40) {
			c.nseq = 2
			c.s2 = genSeq(r, maxLen)
			c.op = common.Pick(r, opNames)
			c.key = ""
		}
	case "reduce":
		c.op = common.Pick(r, opNames)
		c.start, c.end = genBounds(r, n, 45, 40, 8)
		if r.Chance(40) {
			c.key = common.Pick(r, keyNames)
		}
		if r.Chance(45) {
			c.hasInit, c.init = true, common.Pick(r, []int{-1, 0, 1, 3})
		}
		c.fromEnd = r.Chance(50)
	case "concat":
		c.s2 = genSeq(r, 5)
	}
	// what "true" looks like: half of the calls use functions answering t, the others a number, an
	// argument, a string, a fresh list, a mismatch index (added after seeded change C14-5: `== slip.True`)
	c.truth = "TrT"
	if f.lisp != "some" && r.Chance(50) {
		c.truth = common.Pick(r, []string{"TrNum", "TrElt", "TrStr", "TrList", "TrIdx"})
	}
	return c
}

func sameInts(a, b []int) bool {
	if len(a) != len(b) {
		return false
	}
	for i := range a {
		if a[i] != b[i] {
			return false
		}
	}
	return true
}

func twoSeq(c *call) bool {
	switch c.fn.family {
	case "search", "mismatch", "replace", "merge", "set", "concat":
		return true
	case "quant", "map":
		return c.nseq == 2
	}
	return false
}

func Run(ctx *common.Ctx) {
	ncalls, maxLen := 20000, 8
	if ctx.Thorough() {
		ncalls = 150000
	}
	total := 0
	for _, f := range fspecs {
		total += f.weight
	}
	var terms []string
	var descs []any
	distinct := map[string]bool{}
	// one case: the call evaluated on every given representation (and, when frame is set, once more with the
	// sequences in variables that must be unchanged afterwards)
	emit := func(c *call, forms []int, frame bool) {
		f := c.fn
		if len(c.s1) == 0 || (len(c.s2) == 0 && twoSeq(c)) {
			forms = append([]int{asNil}, forms...)
		}
		var obs []string
		shown := map[string]string{}
		for _, form := range forms {
			src := c.render(form)
			o := common.EvalTimeout(slip.NewScope(), src, 5*time.Second)
			r := c.decode(o, form)
			obs = append(obs, fmt.Sprintf("(%s, %s)", formNames[form], r))
			shown[src] = common.ShowOutcome(o)
			ctx.Meta.Evaluations++
		}
		// a function that is not destructive must leave its arguments alone
		if frame && !f.destr && f.layout != "assoc" {
			for _, form := range []int{asList, asVec} {
				if f.listOnly && form != asList {
					continue
				}
				c.lit1, c.lit2 = "v1", "v2"
				src := fmt.Sprintf("(let ((v1 %s) (v2 %s)) %s (list v1 v2))", seqLit(c.s1, form, true), seqLit(c.s2, form, true), c.render(form))
				c.lit1, c.lit2 = "", ""
				o := common.EvalTimeout(slip.NewScope(), src, 5*time.Second)
				ctx.Meta.Evaluations++
				if o.Err != "" {
					continue // the call itself failed: already compared above
				}
				ok := false
				if l, isList := o.Value.(slip.List); isList && len(l) == 2 {
					a, ok1 := decodeSeq(l[0], form)
					b, ok2 := decodeSeq(l[1], form)
					ok = ok1 && ok2 && sameInts(a, c.s1) && sameInts(b, c.s2)
				}
				ctx.Hist("frame-checks")
				if !ok {
					ctx.Violate("a non-destructive sequence function changed its argument", src, common.ShowOutcome(o),
						fmt.Sprintf("(%s %s)", seqLit(c.s1, form, false), seqLit(c.s2, form, false)))
				}
			}
		}
		g := c.gallina()
		terms = append(terms, fmt.Sprintf("(%s,\n    [%s])", g, strings.Join(obs, "; ")))
		d := map[string]any{"calls": shown}
		descs = append(descs, d)
		ctx.Hist("fn:" + f.lisp)
		ctx.Hist(fmt.Sprintf("len:%d", len(c.s1)))
		ctx.Hist("true-as:" + c.truth)
		nk := 0
		for _, on := range []bool{c.start >= 0, c.end != -1, c.start2 >= 0, c.end2 >= 0, c.key != "", c.tkind != testDefault, c.ckind != countAbsent, c.fromEnd, c.hasInit} {
			if on {
				nk++
			}
		}
		ctx.Hist(fmt.Sprintf("keywords:%d", nk))
		if nk > 0 {
			distinct[g] = true
		}
		if len(terms)%211 == 1 {
			ctx.Sample(d)
		}
	}

	// ---- exhaustive block (every run, every tier): search and mismatch over the 2-letter alphabet {0,1} ----
	// search: every pattern of length 2..4 x every text of length 0..7, forward and :from-end, without bounds
	// and with :start2 / :end2 drawn per case; mismatch: every pair of sequences of length 0..4.  Patterns
	// that overlap themselves ((0 0 1) in (0 0 0 1)) and every alignment of a failed partial match are in
	// here by construction (added after seeded change C14-4 was missed by the random patterns).
	words := func(n int) [][]int {
		out := make([][]int, 0, 1<<n)
		for m := 0; m < 1<<n; m++ {
			w := make([]int, n)
			for i := range w {
				w[i] = (m >> i) & 1
			}
			out = append(out, w)
		}
		return out
	}
	var texts, pats, shorts [][]int
	for n := 0; n <= 7; n++ {
		texts = append(texts, words(n)...)
	}
	for n := 2; n <= 4; n++ {
		pats = append(pats, words(n)...)
	}
	for n := 0; n <= 4; n++ {
		shorts = append(shorts, words(n)...)
	}
	searchF, mismatchF := fspecs[0], fspecs[0]
	for _, g := range fspecs {
		switch g.lisp {
		case "search":
			searchF = g
		case "mismatch":
			mismatchF = g
		}
	}
	exh := 0
	two := func(f *fspec, a, b [][]int) {
		for _, s1 := range a {
			for _, s2 := range b {
				for _, fe := range []bool{false, true} {
					for _, bounded := range []bool{false, true} {
						c := &call{fn: f, start: -1, end: -1, start2: -1, end2: -1, op: "BAdd", nseq: 1,
							predT: "TEql", test: "TEql", truth: "TrT", s1: s1, s2: s2, fromEnd: fe}
						if bounded {
							c.start2 = ctx.Rng.Intn(len(s2) + 1)
							if ctx.Rng.Chance(60) {
								c.end2 = c.start2 + ctx.Rng.Intn(len(s2)-c.start2+1)
							}
							if f == mismatchF && ctx.Rng.Chance(50) {
								c.start = ctx.Rng.Intn(len(s1) + 1)
							}
						}
						switch exh % 6 { // the comparison is the default one, an explicit test, or on keys
						case 1:
							c.tkind, c.test = testTest, "TEq"
						case 3:
							c.key = "KSucc"
						case 5:
							c.tkind, c.test = testNot, "TNe"
						}
						exh++
						emit(c, []int{asList, asStr}, false)
						ctx.Hist("exhaustive:" + f.lisp)
					}
				}
			}
		}
	}
	two(searchF, pats, texts)
	two(mismatchF, shorts, shorts)

	for len(terms) < ncalls+exh {
		x := ctx.Rng.Intn(total)
		var f *fspec
		for _, g := range fspecs {
			if x < g.weight {
				f = g
				break
			}
			x -= g.weight
		}
		c := genCall(ctx.Rng, f, maxLen)
		forms := []int{asList, asVec, asStr}
		if f.listOnly {
			forms = []int{asList}
		}
		emit(c, forms, true)
	}
	ctx.Meta.DistinctNontrivial = len(distinct)
	ctx.Meta.Rule = "an exhaustive block in every run: search with every pattern of length 2..4 x every text of length 0..7 over the alphabet {0,1}, and mismatch with every pair of sequences of length 0..4, each forward and :from-end, without bounds and with :start2/:end2 (mismatch: also :start1) drawn per case, comparison by default / :test = / :key 1+ / :test-not /= in rotation, on lists and strings (32404 calls: every self-overlapping pattern and every alignment of a failed partial match occurs); then random calls of 52 sequence functions (find position count remove delete substitute nsubstitute and -if / -if-not, remove-/delete-duplicates, member assoc rassoc and -if, search mismatch, subseq replace fill reverse nreverse, sort stable-sort merge, union intersection set-difference subsetp, every some notany notevery, map mapcar reduce concatenate): elements from the 4-symbol alphabet {-1,0,1,2} (6%: one two-byte character; for abs/square keys often both -1 and 1), length 0..8 biased to 0 and 1 (sort: 30% of length 13..32), item / predicate constant mostly drawn from the sequence, :start/:end (:start2/:end2) in range with every boundary value, :end nil, :key from {- abs 1+ square}, :test/:test-not from {eql = < > <= >= /=}, half of the calls with tests / predicates / sort predicates answering a generalized boolean other than t (7, an argument, a string, a list, 0, string< on one-character strings), :count -1..len+1 or nil, :from-end t/nil, :initial-value; search patterns cut from the searched sequence (12%: a self-overlapping pattern whose match starts inside a failed partial match), mismatch partners by point changes and cuts, merge arguments pre-sorted; every call is evaluated as Lisp text on the same elements as a list, as nil where a sequence is empty, as a vector and as a string (characters 100+e; tests become char tests, keys decode the character); non-destructive calls are repeated with the sequences in variables which must be unchanged afterwards; distinct = distinct calls with at least one keyword"
	header := "From C14 Require Import Base Model Spec Corr.\nOpen Scope Z_scope.\n"
	footer := "Definition res := Eval vm_compute in check_all cases.\nPrint res.\nDefinition gcount := Eval vm_compute in guard_count cases.\nPrint gcount.\nDefinition specmiss := Eval vm_compute in spec_misses cases.\nPrint specmiss.\n"
	ctx.WriteShards("cases", header, "case", footer, terms, descs, 16)
	ctx.ReplayKnownLisp()
}
