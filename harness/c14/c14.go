// Package c14: sequence functions with every keyword combination, each call run on the same
// elements given as a list, as nil (empty only), as a vector and as a string; the observed results go
// to Coq where the model (what the Go code does) and the specification (what the language defines)
// are evaluated on the same call.
package c14

import (
	"fmt"
	"strings"
	"time"

	"github.com/ohler55/slip"
	"verifharness/common"
)

// ---- the call ------------------------------------------------------------------------------------

type testKind int

const (
	testDefault testKind = iota
	testTest
	testNot
)

type countKind int

const (
	countAbsent countKind = iota
	countNil
	countNum
)

var testNames = []string{"TEql", "TEq", "TLt", "TGt", "TLe", "TGe", "TNe"}
var intTests = map[string]string{"TEql": "eql", "TEq": "=", "TLt": "<", "TGt": ">", "TLe": "<=", "TGe": ">=", "TNe": "/="}
var charTests = map[string]string{"TEql": "eql", "TEq": "char=", "TLt": "char<", "TGt": "char>", "TLe": "char<=", "TGe": "char>=", "TNe": "char/="}
var keyNames = []string{"KNeg", "KAbs", "KSucc", "KSq"}
var intKeys = map[string]string{"KNeg": "'-", "KAbs": "'abs", "KSucc": "'1+", "KSq": "(lambda (x) (* x x))"}
var keyBody = map[string]string{"KNeg": "(- %s)", "KAbs": "(abs %s)", "KSucc": "(1+ %s)", "KSq": "(* %s %s)"}

type call struct {
	fn       *fspec
	item     int
	newv     int
	predT    string
	predC    int
	s1, s2   []int
	start    int // -1 absent
	end      int // -1 absent, -2 nil
	start2   int
	end2     int
	key      string // "" absent
	tkind    testKind
	test     string
	ckind    countKind
	count    int
	fromEnd  bool
	feNil    bool // written as :from-end nil
	hashQuote bool // #'f instead of 'f
}

type fspec struct {
	lisp     string
	coq      string
	item     bool // takes item (first argument)
	pred     bool // takes a predicate (first argument)
	newv     bool // takes new (before item/pred)
	hasTest  bool
	hasCount bool
	hasFE    bool
	destr    bool   // destructive: argument must be fresh
	result   string // elt | index | seq | bool
	weight   int
}

var fspecs = []*fspec{
	{lisp: "find", coq: "FFind", item: true, hasTest: true, hasFE: true, result: "elt", weight: 10},
	{lisp: "find-if", coq: "FFindIf", pred: true, hasFE: true, result: "elt", weight: 6},
	{lisp: "position", coq: "FPosition", item: true, hasTest: true, hasFE: true, result: "index", weight: 10},
	{lisp: "position-if", coq: "FPositionIf", pred: true, hasFE: true, result: "index", weight: 6},
	{lisp: "count", coq: "FCount", item: true, hasTest: true, hasFE: true, result: "index", weight: 8},
	{lisp: "count-if", coq: "FCountIf", pred: true, hasFE: true, result: "index", weight: 5},
	{lisp: "remove", coq: "FRemove", item: true, hasTest: true, hasCount: true, hasFE: true, result: "seq", weight: 12},
	{lisp: "remove-if", coq: "FRemoveIf", pred: true, hasCount: true, hasFE: true, result: "seq", weight: 7},
	{lisp: "delete", coq: "FDelete", item: true, hasTest: true, hasCount: true, hasFE: true, destr: true, result: "seq", weight: 6},
	{lisp: "delete-if", coq: "FDeleteIf", pred: true, hasCount: true, hasFE: true, destr: true, result: "seq", weight: 4},
	{lisp: "substitute", coq: "FSubstitute", item: true, newv: true, hasTest: true, hasCount: true, hasFE: true, result: "seq", weight: 10},
	{lisp: "substitute-if", coq: "FSubstituteIf", pred: true, newv: true, hasCount: true, hasFE: true, result: "seq", weight: 6},
	{lisp: "nsubstitute", coq: "FNsubstitute", item: true, newv: true, hasTest: true, hasCount: true, hasFE: true, destr: true, result: "seq", weight: 4},
	{lisp: "nsubstitute-if", coq: "FNsubstituteIf", pred: true, newv: true, hasCount: true, hasFE: true, destr: true, result: "seq", weight: 3},
	{lisp: "remove-duplicates", coq: "FRemoveDuplicates", hasTest: true, hasFE: true, result: "seq", weight: 10},
	{lisp: "delete-duplicates", coq: "FDeleteDuplicates", hasTest: true, hasFE: true, destr: true, result: "seq", weight: 4},
}

// ---- rendering -----------------------------------------------------------------------------------

const (
	asNil = iota
	asList
	asVec
	asStr
)

var formNames = []string{"AsNil", "AsList", "AsVec", "AsStr"}

func charLit(e int) string { return fmt.Sprintf("(code-char %d)", 100+e) }

func seqLit(xs []int, form int, fresh bool) string {
	switch form {
	case asNil:
		return "nil"
	case asList:
		if len(xs) == 0 {
			return "'()"
		}
		parts := make([]string, len(xs))
		for i, x := range xs {
			parts[i] = fmt.Sprint(x)
		}
		if fresh {
			return "(list " + strings.Join(parts, " ") + ")"
		}
		return "'(" + strings.Join(parts, " ") + ")"
	case asVec:
		parts := make([]string, len(xs))
		for i, x := range xs {
			parts[i] = fmt.Sprint(x)
		}
		if fresh || len(xs) == 0 {
			return strings.TrimSpace("(vector " + strings.Join(parts, " ") + ")")
		}
		return "#(" + strings.Join(parts, " ") + ")"
	default:
		rs := make([]rune, len(xs))
		for i, x := range xs {
			rs[i] = rune(100 + x)
		}
		if fresh {
			return `(copy-seq "` + string(rs) + `")`
		}
		return `"` + string(rs) + `"`
	}
}

// fn designator
func (c *call) desig(name string) string {
	if c.hashQuote {
		return "#'" + name
	}
	return "'" + name
}

// elements are characters exactly when the form is a string and no key decodes them
func (c *call) charLevel(form int) bool { return form == asStr && c.key == "" }

func (c *call) keyLisp(form int) string {
	if c.key == "" {
		return ""
	}
	if form == asStr {
		arg := "(- (char-code ch) 100)"
		body := keyBody[c.key]
		if c.key == "KSq" {
			return fmt.Sprintf("(lambda (ch) "+body+")", arg, arg)
		}
		return fmt.Sprintf("(lambda (ch) "+body+")", arg)
	}
	k := intKeys[c.key]
	if c.hashQuote && strings.HasPrefix(k, "'") {
		return "#" + k
	}
	return k
}

func (c *call) render(form int) string {
	var b strings.Builder
	f := c.fn
	b.WriteString("(" + f.lisp)
	val := func(e int) string {
		if c.charLevel(form) {
			return charLit(e)
		}
		return fmt.Sprint(e)
	}
	if f.newv {
		// the new element always lives in the sequence: a character in a string
		if form == asStr {
			b.WriteString(" " + charLit(c.newv))
		} else {
			b.WriteString(" " + fmt.Sprint(c.newv))
		}
	}
	if f.item {
		b.WriteString(" " + val(c.item))
	}
	if f.pred {
		if c.charLevel(form) {
			b.WriteString(fmt.Sprintf(" (lambda (x) (%s %s x))", charTests[c.predT], charLit(c.predC)))
		} else {
			b.WriteString(fmt.Sprintf(" (lambda (x) (%s %d x))", intTests[c.predT], c.predC))
		}
	}
	b.WriteString(" " + seqLit(c.s1, form, f.destr))
	// keywords, in an order derived from the case (the order must not matter)
	var kws []string
	if c.start >= 0 {
		kws = append(kws, fmt.Sprintf(":start %d", c.start))
	}
	if c.end >= 0 {
		kws = append(kws, fmt.Sprintf(":end %d", c.end))
	} else if c.end == -2 {
		kws = append(kws, ":end nil")
	}
	if c.key != "" {
		kws = append(kws, ":key "+c.keyLisp(form))
	}
	if c.tkind != testDefault {
		name := intTests[c.test]
		if c.charLevel(form) {
			name = charTests[c.test]
		}
		kw := ":test"
		if c.tkind == testNot {
			kw = ":test-not"
		}
		kws = append(kws, kw+" "+c.desig(name))
	}
	switch c.ckind {
	case countNil:
		kws = append(kws, ":count nil")
	case countNum:
		kws = append(kws, fmt.Sprintf(":count %d", c.count))
	}
	if c.fromEnd {
		kws = append(kws, ":from-end t")
	} else if c.feNil {
		kws = append(kws, ":from-end nil")
	}
	rot := 0
	if len(kws) > 0 {
		rot = (c.item + c.newv + len(c.s1) + 7) % len(kws)
		if rot < 0 {
			rot = -rot
		}
	}
	for i := range kws {
		b.WriteString(" " + kws[(i+rot)%len(kws)])
	}
	b.WriteString(")")
	return b.String()
}

// ---- Gallina -------------------------------------------------------------------------------------

func gZ(x int) string { return fmt.Sprintf("(%d)", x) }
func gZs(xs []int) string {
	parts := make([]string, len(xs))
	for i, x := range xs {
		parts[i] = gZ(x)
	}
	return "[" + strings.Join(parts, ";") + "]"
}
func gOptNat(x int) string {
	if x < 0 {
		return "None"
	}
	return fmt.Sprintf("(Some %d%%nat)", x)
}

func (c *call) gallina() string {
	key := "None"
	if c.key != "" {
		key = "(Some " + c.key + ")"
	}
	test := "TDefault"
	switch c.tkind {
	case testTest:
		test = "(TTest " + c.test + ")"
	case testNot:
		test = "(TTestNot " + c.test + ")"
	}
	count := "CAbsent"
	switch c.ckind {
	case countNil:
		count = "CNil"
	case countNum:
		count = fmt.Sprintf("(CNum %s)", gZ(c.count))
	}
	return fmt.Sprintf("mkCall %s %s %s (PT %s %s) (SList %s) (SList %s) %s %s %s %s %s %s %s %s",
		c.fn.coq, gZ(c.item), gZ(c.newv), c.predT, gZ(c.predC), gZs(c.s1), gZs(c.s2),
		gOptNat(c.start), gOptNat(c.end), gOptNat(c.start2), gOptNat(c.end2), key, test, count, common.GBool(c.fromEnd))
}

// ---- decoding what the implementation returned ------------------------------------------------------

func errRes(o common.Outcome) string {
	switch {
	case o.Err == "timeout":
		return "(RErr EOther)"
	case common.Fault(o.Msg) || o.Err == "go-panic":
		return "(RErr EFault)"
	case o.Err == "type-error":
		return "(RErr EType)"
	case o.Err == "undefined-function":
		return "(RErr EUndefined)"
	case o.Err == "error" || o.Err == "simple-error":
		return "(RErr EError)"
	}
	return "(RErr EOther)"
}

func decodeElt(v slip.Object, chars bool) (int, bool) {
	switch tv := v.(type) {
	case slip.Fixnum:
		if !chars {
			return int(tv), true
		}
	case slip.Character:
		if chars {
			return int(tv) - 100, true
		}
	}
	return 0, false
}

func decodeSeq(v slip.Object, form int) ([]int, bool) {
	var out []int
	switch form {
	case asNil, asList:
		switch tv := v.(type) {
		case nil:
			return []int{}, true
		case slip.List:
			for _, e := range tv {
				x, ok := decodeElt(e, false)
				if !ok {
					return nil, false
				}
				out = append(out, x)
			}
			return out, true
		}
	case asVec:
		if vec, ok := v.(*slip.Vector); ok {
			for _, e := range vec.AsList() {
				x, ok := decodeElt(e, false)
				if !ok {
					return nil, false
				}
				out = append(out, x)
			}
			return out, true
		}
	case asStr:
		if s, ok := v.(slip.String); ok {
			for _, r := range []rune(string(s)) {
				out = append(out, int(r)-100)
			}
			return out, true
		}
	}
	return nil, false
}

func (c *call) decode(o common.Outcome, form int) string {
	if o.Err != "" {
		return errRes(o)
	}
	v := o.Value
	switch c.fn.result {
	case "elt":
		if v == nil {
			return "RNil"
		}
		if x, ok := decodeElt(v, form == asStr); ok {
			return "(RElt " + gZ(x) + ")"
		}
	case "index":
		if v == nil {
			return "RNil"
		}
		if x, ok := v.(slip.Fixnum); ok {
			return "(RInt " + gZ(int(x)) + ")"
		}
	case "bool":
		if v == nil {
			return "RNil"
		}
		if v == slip.True {
			return "RTrue"
		}
	case "seq":
		if xs, ok := decodeSeq(v, form); ok {
			return "(RSeq " + gZs(xs) + ")"
		}
	}
	return "ROther"
}

// ---- generation ------------------------------------------------------------------------------------

var alphabet = []int{-1, 0, 1, 2}

func genSeq(r *common.Rng, maxLen int) []int {
	n := 0
	switch x := r.Intn(100); {
	case x < 7:
		n = 0
	case x < 14:
		n = 1
	default:
		n = 2 + r.Intn(maxLen-1)
	}
	xs := make([]int, n)
	for i := range xs {
		xs[i] = common.Pick(r, alphabet)
	}
	return xs
}

func genCall(r *common.Rng, f *fspec, maxLen int) *call {
	c := &call{fn: f, start: -1, end: -1, start2: -1, end2: -1}
	c.s1 = genSeq(r, maxLen)
	n := len(c.s1)
	if n > 0 && r.Chance(6) {
		c.s1[r.Intn(n)] = 133 // a two-byte character in the string form
	}
	pickElem := func() int {
		if n > 0 && r.Chance(70) {
			return c.s1[r.Intn(n)]
		}
		return common.Pick(r, []int{-2, -1, 0, 1, 2, 3})
	}
	c.item = pickElem()
	c.newv = common.Pick(r, []int{-1, 0, 1, 2, 3, 7})
	c.predT = common.Pick(r, testNames)
	c.predC = pickElem()
	lo := 0
	if r.Chance(60) {
		c.start = r.Intn(n + 1)
		lo = c.start
	}
	switch x := r.Intn(100); {
	case x < 55:
		c.end = lo + r.Intn(n-lo+1)
	case x < 65:
		c.end = -2
	}
	if r.Chance(50) {
		c.key = common.Pick(r, keyNames)
	}
	if f.hasTest {
		switch x := r.Intn(100); {
		case x < 55:
			c.tkind, c.test = testTest, common.Pick(r, testNames)
		case x < 63:
			c.tkind, c.test = testNot, common.Pick(r, testNames)
		}
	}
	if f.hasCount {
		switch x := r.Intn(100); {
		case x < 60:
			c.ckind, c.count = countNum, r.Intn(n+3)-1
		case x < 66:
			c.ckind = countNil
		}
	}
	if f.hasFE {
		switch x := r.Intn(100); {
		case x < 45:
			c.fromEnd = true
		case x < 52:
			c.feNil = true
		}
	}
	c.hashQuote = r.Chance(30)
	return c
}

func Run(ctx *common.Ctx) {
	ncalls, maxLen := 2600, 8
	if ctx.Thorough() {
		ncalls = 40000
	}
	total := 0
	for _, f := range fspecs {
		total += f.weight
	}
	var terms []string
	var descs []any
	distinct := map[string]bool{}
	for len(terms) < ncalls {
		x := ctx.Rng.Intn(total)
		var f *fspec
		for _, g := range fspecs {
			if x < g.weight {
				f = g
				break
			}
			x -= g.weight
		}
		c := genCall(ctx.Rng, f, maxLen)
		forms := []int{asList, asVec, asStr}
		if len(c.s1) == 0 {
			forms = []int{asNil, asList, asVec, asStr}
		}
		var obs []string
		shown := map[string]string{}
		for _, form := range forms {
			src := c.render(form)
			o := common.EvalTimeout(slip.NewScope(), src, 5*time.Second)
			r := c.decode(o, form)
			obs = append(obs, fmt.Sprintf("(%s, %s)", formNames[form], r))
			shown[src] = common.ShowOutcome(o)
			ctx.Meta.Evaluations++
		}
		g := c.gallina()
		terms = append(terms, fmt.Sprintf("(%s,\n    [%s])", g, strings.Join(obs, "; ")))
		d := map[string]any{"calls": shown}
		descs = append(descs, d)
		ctx.Hist("fn:" + f.lisp)
		ctx.Hist(fmt.Sprintf("len:%d", len(c.s1)))
		nk := 0
		for _, on := range []bool{c.start >= 0, c.end != -1, c.key != "", c.tkind != testDefault, c.ckind != countAbsent, c.fromEnd} {
			if on {
				nk++
			}
		}
		ctx.Hist(fmt.Sprintf("keywords:%d", nk))
		if nk > 0 {
			distinct[g] = true
		}
		if len(terms)%211 == 1 {
			ctx.Sample(d)
		}
	}
	ctx.Meta.DistinctNontrivial = len(distinct)
	ctx.Meta.Rule = "random calls of the sequence functions: elements from a 4-symbol alphabet {-1,0,1,2} (occasionally one two-byte character), length 0..8 biased to 0 and 1, item/predicate constant mostly drawn from the sequence, :start/:end in range (all boundary values), :key from {- abs 1+ square}, :test/:test-not from {eql = < > <= >= /=}, :count -1..len+1 or nil, :from-end t/nil; every call is run on the same elements as a list, as nil when empty, as a vector and as a string (characters 100+e; tests become char tests, keys decode the character); distinct = distinct calls with at least one keyword"
	header := "From C14 Require Import Base Model Spec Corr.\nOpen Scope Z_scope.\n"
	footer := "Definition res := Eval vm_compute in check_all cases.\nPrint res.\nDefinition gcount := Eval vm_compute in guard_count cases.\nPrint gcount.\nDefinition specmiss := Eval vm_compute in spec_misses cases.\nPrint specmiss.\n"
	ctx.WriteShards("cases", header, "case", footer, terms, descs, 16)
	ctx.ReplayKnownLisp()
}
