package c16

import "verifharness/common"

// replayKnown replays the Lisp-level witnesses of known_findings/C16.json.
func replayKnown(ctx *common.Ctx) { ctx.ReplayKnownLisp() }
