package c16

import (
	"fmt"
	"math/big"
	"os"
	"path/filepath"
	"sort"
	"strings"

	"github.com/ohler55/slip"
	"verifharness/common"
)

// kindProtos: one object per kind of the universe; the kind table is its Hierarchy() on this run.
func kindProtos() []*node {
	return []*node{
		{k: kNil}, {k: kTru}, nFix(42), nBig(e20), nRat(big.NewInt(3), big.NewInt(4)), nF32(1.5), nF64(1.5), nChr('a'), nStr("abc"), nSym("abc"),
		nLst(), nLst(nFix(1), nFix(2)), nLst(nFix(1), nTl(nFix(2))), nVec(nFix(1), nFix(2)),
		// the other numeric kinds: not operands of the predicates, but objects x type symbols like every other kind
		nOther(kOct, 42), nSB(-5), nUB(5), nOther(kBit, 1), nOther(kLF, 1), nOther(kCpx, 1),
	}
}

func gstrs(ss []string) string {
	items := make([]string, len(ss))
	for i, s := range ss {
		items[i] = strings.TrimSuffix(common.GStr(s), "%string")
	}
	return "[" + strings.Join(items, "; ") + "]"
}

func gs(s string) string { return strings.TrimSuffix(common.GStr(s), "%string") }

func printable(s string) bool {
	for i := 0; i < len(s); i++ {
		if s[i] < 32 || s[i] >= 127 {
			return false
		}
	}
	return true
}

// classTable dumps the class registry visible from the current package: for every class the names of the
// registered classes it Inherits from.
func classTable(ctx *common.Ctx) (names []string, rows map[string][]string) {
	all := slip.CurrentPackage.AllClasses()
	byName := map[string]slip.Class{}
	for _, c := range all {
		n := strings.ToLower(c.Name())
		if !printable(n) {
			continue
		}
		if fc := slip.FindClass(n); fc == nil {
			continue // registered under another key only; subtypep cannot reach it by this name
		} else {
			byName[n] = fc
		}
	}
	for n := range byName {
		names = append(names, n)
	}
	sort.Strings(names)
	rows = map[string][]string{}
	for _, a := range names {
		var sup []string
		for _, b := range names {
			if a == b {
				continue
			}
			ok := false
			func() {
				defer func() { _ = recover() }()
				ok = byName[a].Inherits(byName[b])
			}()
			if ok {
				sup = append(sup, b)
			}
		}
		rows[a] = sup
	}
	return
}

func hierarchyOf(o slip.Object) (h []string) {
	defer func() { _ = recover() }()
	if o == nil {
		return nil
	}
	for _, sym := range o.Hierarchy() {
		h = append(h, string(sym))
	}
	return
}

var coerceTargets = []string{"t", "list", "vector", "string", "character", "symbol", "integer", "fixnum", "bignum", "float", "single-float",
	"double-float", "short-float", "long-float", "rational", "ratio", "number", "real", "complex", "octet", "byte", "bit", "function", "octets",
	"bit-vector", "signed-byte", "unsigned-byte", "array", "sequence", "cons", "null", "hash-table"}

// coerceKnown names the known finding (known_findings/C16.json) that covers a coerce result which is not of
// the requested type; "" if none does.
func coerceKnown(src *node, target string, res slip.Object) string {
	switch {
	case res == nil && (target == "vector" || target == "octets"):
		return "C16-coerce-nil-to-vector-is-nil"
	}
	return ""
}

func runTypes(ctx *common.Ctx, g *gen) {
	s := slip.NewScope()
	names, rows := classTable(ctx)
	protos := kindProtos()
	kinds := map[string][]string{}
	var kindNames []string
	for _, p := range protos {
		kn := p.kindName()
		kindNames = append(kindNames, kn)
		kinds[kn] = hierarchyOf(p.build())
	}
	// ---- Tables.v
	var b strings.Builder
	b.WriteString("(* regenerated on every run from the running implementation: class registry (Inherits) and Hierarchy() per kind *)\n")
	b.WriteString("From Coq Require Import List String.\nImport ListNotations.\nOpen Scope string_scope.\n")
	b.WriteString("Definition classes : list (string * list string) := [\n")
	for i, n := range names {
		sep := ";"
		if i+1 == len(names) {
			sep = ""
		}
		fmt.Fprintf(&b, "  (%s, %s)%s\n", gs(n), gstrs(rows[n]), sep)
	}
	b.WriteString("].\nDefinition kinds : list (string * list string) := [\n")
	for i, kn := range kindNames {
		sep := ";"
		if i+1 == len(kindNames) {
			sep = ""
		}
		fmt.Fprintf(&b, "  (%s, %s)%s\n", gs(kn), gstrs(kinds[kn]), sep)
	}
	b.WriteString("].\n")
	if err := os.WriteFile(filepath.Join(ctx.OutDir, "Tables.v"), []byte(b.String()), 0o644); err != nil {
		panic(err)
	}
	if ctx.Meta.Extra == nil {
		ctx.Meta.Extra = map[string]any{}
	}
	ctx.Meta.Extra["classes_in_registry"] = len(names)
	ctx.Meta.Extra["kinds"] = kinds

	// ---- the type symbols probed
	tset := map[string]bool{}
	for _, n := range names {
		tset[n] = true
	}
	for _, h := range kinds {
		for _, x := range h {
			tset[x] = true
		}
	}
	for _, x := range []string{"null", "atom", "no-such-type", "FIXNUM", "Integer", "LIST", "T", "keyword", "boolean", "cons", "list", "NULL", "Symbol",
		"SHORT-FLOAT", "Short-Float", "BYTE", "Cons", "Sequence"} {
		tset[x] = true
	}
	tsyms := common.SortedKeys(tset)

	var terms []string
	var descs []any
	// typep: one object of every kind plus generated ones
	objs := append([]*node{}, protos...)
	extra := 40
	if ctx.Thorough() {
		extra = 400
	}
	for i := 0; i < extra; i++ {
		objs = append(objs, g.object(2))
	}
	for _, nd := range objs {
		o := nd.build()
		kn := nd.kindName()
		ctx.Hist("ty-kind:" + kn)
		tof := call(s, "type-of", o)
		tofs := "!error"
		if sym, ok := first(tof.Value).(slip.Symbol); ok && tof.Err == "" {
			tofs = string(sym)
		} else if first(tof.Value) == slip.True && tof.Err == "" {
			tofs = "t"
		}
		items := make([]string, 0, len(tsyms))
		for _, ty := range tsyms {
			out := call(s, "typep", o, slip.Symbol(ty))
			pc := predCode(out)
			items = append(items, fmt.Sprintf("(%s, %d%%N)", gs(ty), pc))
			// implementation-level: typep agrees with subtypep of the object's own type
			if pc < 2 && tofs != "!error" {
				sub := call(s, "subtypep", slip.Symbol(tofs), slip.Symbol(ty))
				sc := predCode(sub)
				if sc != pc && !typeAgreeKnown(kn, tofs, ty) {
					ctx.Violate("typep and subtypep disagree", fmt.Sprintf("object %s, type %s", nd.show(), ty),
						fmt.Sprintf("(typep x '%s) = %d, (subtypep '%s '%s) = %d", ty, pc, tofs, ty, sc), "the same answer")
				}
			}
		}
		terms = append(terms, fmt.Sprintf("TyTypep %s %s [%s]", gs(kn), gs(tofs), strings.Join(items, "; ")))
		descs = append(descs, map[string]any{"typep of": nd.show(), "kind": kn, "type-of": tofs, "types probed": len(tsyms)})
		// coerce
		for _, target := range coerceTargets {
			out := call(s, "coerce", o, slip.Symbol(target))
			ctx.Meta.Evaluations++
			if out.Err != "" {
				if out.Err == "go-panic" || common.Fault(out.Msg) {
					if id := coerceFaultKnown(nd, target); id == "" {
						ctx.Violate("coerce faults the host", fmt.Sprintf("(coerce %s '%s)", nd.show(), target), out.Msg, "a value or a condition")
					}
				}
				ctx.Hist("coerce:error")
				continue
			}
			res := first(out.Value)
			tp := call(s, "typep", res, slip.Symbol(target))
			if target == "t" || predCode(tp) == 1 {
				ctx.Hist("coerce:ok")
				continue
			}
			if id := coerceKnown(nd, target, res); id != "" {
				ctx.Hist("coerce:known-finding")
				if os.Getenv("VERIF_C16_NOTES") != "" {
					ctx.Meta.Notes = append(ctx.Meta.Notes, fmt.Sprintf("coerce %s(%s) -> %s: %s of type %v", nd.show(), kn, target, slip.ObjectString(res), hierarchyOf(res)))
				}
				continue
			}
			ctx.Violate("coerce returns an object that is not of the requested type", fmt.Sprintf("(coerce %s '%s)", nd.show(), target),
				fmt.Sprintf("%s of type %s", slip.ObjectString(res), strings.Join(hierarchyOf(res), " ")), "typep of the result and the target is t")
		}
	}
	// subtypep on pairs of names
	pairs := [][2]string{}
	subNames := append(append([]string{}, names...), "no-such-type", "list", "cons", "null", "FIXNUM", "Integer", "SHORT-FLOAT", "Byte", "NULL", "t")
	if len(subNames)*len(subNames) <= 4000 || ctx.Thorough() {
		for _, a := range subNames {
			for _, b := range subNames {
				pairs = append(pairs, [2]string{a, b})
			}
		}
	} else {
		for _, a := range subNames {
			pairs = append(pairs, [2]string{a, a})
			for _, b := range rows[a] {
				pairs = append(pairs, [2]string{a, b}, [2]string{b, a})
			}
		}
		for len(pairs) < 4000 {
			pairs = append(pairs, [2]string{common.Pick(g.rng, subNames), common.Pick(g.rng, subNames)})
		}
	}
	for _, p := range pairs {
		out := call(s, "subtypep", slip.Symbol(p[0]), slip.Symbol(p[1]))
		terms = append(terms, fmt.Sprintf("TySub (DSym %s) (DSym %s) %d%%N", gs(p[0]), gs(p[1]), predCode(out)))
		descs = append(descs, map[string]any{"subtypep": p, "observed": predCode(out)})
		ctx.Hist("subtypep:symbols")
	}
	// list designators
	elems := []string{"fixnum", "integer", "character", "no-such-type", "t"}
	for _, a := range []string{"vector", "array", "string", "fixnum"} {
		for _, b := range []string{"vector", "array", "sequence"} {
			for _, e1 := range elems {
				for _, e2 := range elems {
					d1 := slip.List{slip.Symbol(a), slip.Symbol(e1)}
					d2 := slip.List{slip.Symbol(b), slip.Symbol(e2)}
					out := call(s, "subtypep", d1, d2)
					terms = append(terms, fmt.Sprintf("TySub (DList %s %s) (DList %s %s) %d%%N", gs(a), gs(e1), gs(b), gs(e2), subCode(out)))
					descs = append(descs, map[string]any{"subtypep": fmt.Sprintf("(%s %s) (%s %s)", a, e1, b, e2), "observed": subCode(out)})
				}
				out := call(s, "subtypep", slip.Symbol(a), slip.List{slip.Symbol(b), slip.Symbol(e1)})
				terms = append(terms, fmt.Sprintf("TySub (DSym %s) (DList %s %s) %d%%N", gs(a), gs(b), gs(e1), subCode(out)))
				descs = append(descs, map[string]any{"subtypep": fmt.Sprintf("%s (%s %s)", a, b, e1), "observed": subCode(out)})
				out = call(s, "subtypep", slip.List{slip.Symbol(a), slip.Symbol(e1)}, slip.Symbol(b))
				terms = append(terms, fmt.Sprintf("TySub (DList %s %s) (DSym %s) %d%%N", gs(a), gs(e1), gs(b), subCode(out)))
				descs = append(descs, map[string]any{"subtypep": fmt.Sprintf("(%s %s) %s", a, e1, b), "observed": subCode(out)})
				ctx.Hist("subtypep:list-designators")
			}
		}
	}
	footer := "Definition res := Eval vm_compute in check_all_ty Tables.classes Tables.kinds cases.\nPrint res.\n" +
		"Definition model_mismatches := Eval vm_compute in ty_mismatches Tables.classes Tables.kinds cases : N.\nPrint model_mismatches.\n"
	hdr := header + "From GenC16 Require Tables.\n"
	ctx.WriteShards("cases_ty", hdr, "ty_case", footer, terms, descs, 2)
	ctx.Meta.Evaluations += len(terms)
}

func subCode(o common.Outcome) int {
	if o.Err != "" {
		return 2
	}
	return predCode(o)
}

// typeAgreeKnown: disagreements of typep and subtypep covered by known findings: the object's type-of does
// not name a registered class (t; list, cons and null before repair C16-7), or the type asked about is t, which is
// not a class either.
func typeAgreeKnown(kind, tof, ty string) bool {
	switch tof {
	case "list", "cons", "null", "t":
		if slip.FindClass(tof) == nil {
			return true // C16-list-cons-null-are-not-classes (and t: C16-t-is-not-a-class)
		}
	}
	if strings.EqualFold(ty, "t") && slip.FindClass("t") == nil {
		return true // C16-t-is-not-a-class
	}
	return false
}

func coerceFaultKnown(src *node, target string) string { return "" }
