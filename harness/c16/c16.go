// Package c16 drives slip's eq / eql / equal / equalp / sxhash, its hash tables and its type predicates on
// generated objects and histories and writes what it observed as Gallina cases for coq/C16/Corr.v.
package c16

import (
	"fmt"
	"math"
	"math/big"
	"os"
	"sort"
	"strings"
	"time"

	"github.com/ohler55/slip"
	"verifharness/common"
)

const header = "From Coq Require Import ZArith NArith List String.\nFrom C16 Require Import Model Spec Types Corr.\nImport ListNotations.\nOpen Scope list_scope.\n"

func quote(o slip.Object) slip.Object { return slip.List{slip.Symbol("quote"), o} }

// call evaluates (fn 'a 'b ...) with the argument objects passed as they are (same interface values).
func call(s *slip.Scope, fn string, args ...slip.Object) (out common.Outcome) {
	form := slip.List{slip.Symbol(fn)}
	for _, a := range args {
		form = append(form, quote(a))
	}
	return evalForm(s, form)
}

func evalForm(s *slip.Scope, form slip.Object) (out common.Outcome) {
	ch := make(chan common.Outcome, 1)
	go func() {
		var o common.Outcome
		defer func() {
			if r := recover(); r != nil {
				o = common.Outcome{}
				o.Err, o.Msg = classify(r)
			}
			ch <- o
		}()
		o.Value = s.Eval(form, 0)
	}()
	select {
	case o := <-ch:
		return o
	case <-time.After(5 * time.Second):
		return common.Outcome{Err: "timeout"}
	}
}

func classify(r any) (cls, msg string) {
	switch tr := r.(type) {
	case *slip.Panic:
		cls = "error"
		if tr.Condition != nil {
			cls = string(tr.Condition.Hierarchy()[0])
		}
		return cls, tr.Message
	case slip.Instance:
		cls = string(tr.Hierarchy()[0])
		if mv, has := tr.SlotValue(slip.Symbol("message")); has {
			if ms, ok := mv.(slip.String); ok {
				msg = string(ms)
			}
		}
		return cls, msg
	case error:
		return "go-panic", tr.Error()
	default:
		return "go-panic", fmt.Sprint(r)
	}
}

// first value of a possibly multiple-valued result
func first(o slip.Object) slip.Object {
	if vs, ok := o.(slip.Values); ok {
		if len(vs) == 0 {
			return nil
		}
		return vs[0]
	}
	return o
}

// predicate result: 0 nil, 1 t, 2 error / fault / anything else
func predCode(o common.Outcome) int {
	if o.Err != "" {
		return 2
	}
	switch first(o.Value) {
	case nil:
		return 0
	case slip.True:
		return 1
	}
	return 2
}

func Run(ctx *common.Ctx) {
	g := newGen(ctx.Rng)
	nEq, nHt := 1400, 500
	if ctx.Thorough() {
		nEq, nHt = 20000, 8000
	}
	runEq(ctx, g, nEq)
	runHt(ctx, g, nHt)
	runTypes(ctx, g)
	replayKnown(ctx)
	ctx.Meta.Rule = "eq cases: three references drawn from a universe of nil, t, fixnums (incl. 2^24, 2^53, int64 limits and neighbours), bignums, " +
		"ratios (small and with numerators beyond 2^64), single and double floats, characters and strings over ASCII plus U+212A/U+017F, symbols in several " +
		"spellings, proper and dotted lists, vectors, nested to depth 2; the second and third reference are with probability 0.6 a variant of an earlier one " +
		"(same box, fresh copy, other numeric representation, neighbour value, other case, one element varied, list<->vector); all 9 ordered pairs x 4 predicates " +
		"and sxhash observed (designed triples include one value as fixnum / bignum / ratio / single / double, k / K / KELVIN SIGN nested in lists and vectors, 2^79 against " +
		"(2^80+3)/2, a fixnum beyond 2^53 with the floats it converts to). hash cases: a pool of 3-6 such keys (hashable kinds incl. bignums and ratios in separately allocated copies, " +
		"lists that the table must refuse with a type-error, variants of each other), a table made with a random :test, a history of " +
		"up to 12 setf-gethash/gethash/remhash/clrhash/hash-table-count/maphash with every result observed; stored values are nil or value objects (fixnum, double-float, single-float, two separate lists of one number 1..90: ObjectEqual to each other, not the same object), identified on return; 25 enumerated histories store every ordered pair of representations under one key. type cases: typep of one object of every kind for every " +
		"registered class name, every hierarchy symbol and some unknown or upper-case names; subtypep on all ordered pairs of class names (sampled above 4000) plus " +
		"list designators; coerce of every kind to every coercion target. distinct_nontrivial counts distinct eq cases in which some pair is related by one predicate " +
		"but not by a stronger one, plus distinct hash histories with at least one overwrite or removal of a present key."
}

// ---- 1. predicates --------------------------------------------------------------------------------

func runEq(ctx *common.Ctx, g *gen, n int) {
	s := slip.NewScope()
	var terms []string
	var descs []any
	seen := map[string]bool{}
	nontrivial := 0
	lowWords := g.lowWordTriples()
	for c := 0; c < n; c++ {
		var refs []aref
		if c < len(lowWords) {
			refs = lowWords[c] // a fixed block first: must not depend on the luck of the draw
		} else {
			refs = g.refTriple()
		}
		w := words{}
		rterms := make([]string, len(refs))
		shows := make([]string, len(refs))
		kindsOf := make([]string, len(refs))
		for i, r := range refs {
			kindsOf[i] = r.n.kindName()
			rterms[i] = refTerm(r, w)
			shows[i] = fmt.Sprintf("%s@%d", r.n.show(), w.id(r.o))
			ctx.Hist("eq-kind:" + r.n.kindName())
		}
		rows := make([]string, len(refs))
		var mat [3][3][4]int
		graded := false
		obsDesc := []string{}
		for i, a := range refs {
			cells := make([]string, len(refs))
			for j, b := range refs {
				codes := [4]int{}
				for p, fn := range []string{"eq", "eql", "equal", "equalp"} {
					codes[p] = predCode(call(s, fn, a.o, b.o))
				}
				mat[i][j] = codes
				cells[j] = fmt.Sprintf("(%d, %d, %d, %d)%%N", codes[0], codes[1], codes[2], codes[3])
				if i != j && codes[3] == 1 && codes[0] == 0 {
					graded = true
				}
				obsDesc = append(obsDesc, fmt.Sprintf("%d%d%d%d", codes[0], codes[1], codes[2], codes[3]))
			}
			rows[i] = "[" + strings.Join(cells, "; ") + "]"
		}
		hashes := make([]string, len(refs))
		hdesc := make([]string, len(refs))
		for i, a := range refs {
			o := call(s, "sxhash", a.o)
			h := int64(-1)
			if f, ok := first(o.Value).(slip.Fixnum); ok && o.Err == "" {
				h = int64(f)
			}
			hashes[i] = common.GZ(h)
			hdesc[i] = fmt.Sprint(h)
		}
		noteLaws(ctx, shows, kindsOf, mat, hdesc)
		term := fmt.Sprintf("mk_eq_case [%s] [%s] [%s]", strings.Join(rterms, "; "), strings.Join(rows, "; "), strings.Join(hashes, "; "))
		if !seen[term] {
			seen[term] = true
			if graded {
				nontrivial++
			}
		}
		terms = append(terms, term)
		d := map[string]any{"refs (object@data-word)": shows, "eq/eql/equal/equalp per ordered pair, row-major": strings.Join(obsDesc, " "), "sxhash": hdesc}
		descs = append(descs, d)
		if c%200 == 7 {
			ctx.Sample(d)
		}
	}
	footer := "Definition res := Eval vm_compute in check_all_eq cases.\nPrint res.\n" +
		"Definition model_mismatches := Eval vm_compute in eq_mismatches cases : N.\nPrint model_mismatches.\n" +
		"Definition law_violations_outside_guard := Eval vm_compute in outside_guard_violations cases : N.\nPrint law_violations_outside_guard.\n" +
		"Definition refs_in_transitivity_guard := Eval vm_compute in guarded_triples cases : N.\nPrint refs_in_transitivity_guard.\n" +
		"Definition cases_with_inconsistent_data_words := Eval vm_compute in inconsistent_cases cases : N.\nPrint cases_with_inconsistent_data_words.\n"
	ctx.WriteShards("cases_eq", header, "eq_case", footer, terms, descs, 8)
	ctx.Meta.Evaluations += len(terms)
	ctx.Meta.DistinctNontrivial += nontrivial
}

// designed triples: the shapes on which the laws are known to be at risk
func (g *gen) designed() []*node {
	third := nRat(big.NewInt(1), big.NewInt(3))
	ts := [][]*node{
		{nFix(9007199254740993), nF64(9007199254740992), nFix(9007199254740992)},
		{nFix(16777217), nF32(16777216), nFix(16777216)},
		{nFix(16777217), nF32(16777216), nF64(16777217)},
		{nBig(add(p63, 1)), nF64(9.223372036854775808e18), nBig(p63)},
		{nBig(add(e20, 1)), nF64(1e20), nBig(e20)},
		{third, nF32(float32(1.0) / 3), nF64(1.0 / 3)},
		{third, nF64(1.0 / 3), nRat(big.NewInt(6004799503160661), new(big.Int).Lsh(big.NewInt(1), 54))},
		{nBig(p79), nRat(add(p80, 3), big.NewInt(2)), nBig(add(p79, 2))},
		{nBig(p79), nRat(add(p80, 3), big.NewInt(2)), nF64(6.044629098073146e23)},
		{nBig(p64), nRat(add(new(big.Int).Lsh(p64, 1), 1), big.NewInt(2)), nBig(add(p64, 1))},
		{nBig(pow2(100)), nRat(add(pow2(103), 9), big.NewInt(8)), nBig(add(pow2(100), 1))},
		// a bignum and the fixnum that equals its low 64 bits (added after seeded change C05-5 was missed)
		{nBig(p64), nFix(0), nBig(add(p64, 1))},
		{nBig(add(p64, 1)), nFix(1), nFix(0)},
		{nBig(new(big.Int).Neg(add(p64, 1))), nFix(-1), nBig(new(big.Int).Neg(p64))},
		{nBig(p63), nFix(-9223372036854775808), nBig(add(p63, 1))},
		{nLst(nBig(add(p64, 7))), nLst(nFix(7)), nLst(nF64(7))},
		{nStr("k"), nStr("K"), nStr("\u212a")},
		{nStr("s"), nStr("S"), nStr("\u017f")},
		{nChr('k'), nChr('K'), nChr(0x212A)},
		{nChr('s'), nChr('S'), nChr(0x17F)},
		{nSym("k"), nSym("K"), nSym("\u212a")},
		{nStr("abc"), nStr("ABC"), nSym("abc")},
		{nFix(1000000), nF64(1000000), nF32(1000000)},
		// sxhash across representations (repairs C16-9 / C16-10) and exact bignum / ratio comparison (C16-11)
		{nRat(big.NewInt(1), big.NewInt(2)), nF64(0.5), nF32(0.5)},
		{nRat(big.NewInt(5), big.NewInt(4)), nF64(1.25), nBig(big.NewInt(1))},
		{nFix(123456), nF32(123456), nBig(big.NewInt(123456))},
		{nFix(16777215), nF32(16777215), nF64(16777215)},
		{nBig(p79), nRat(add(p80, 3), big.NewInt(2)), nRat(add(p80, 1), big.NewInt(2))},
		{nBig(add(p64, 1)), nRat(add(new(big.Int).Lsh(p64, 1), 3), big.NewInt(2)), nF64(1.8446744073709552e19)},
		// a fixnum beyond 2^53 against the single and the double it converts to (known finding)
		{nFix(1152921573326323713), nF32(1.152921642045800448e18), nF64(1.152921573326323712e18)},
		{nLst(nStr("kelvin"), nFix(1000000)), nLst(nStr("\u212aELVIN"), nF64(1000000)), nVec(nStr("kelvin"), nFix(1000000))},
		{nFix(5), nF64(5), nBig(big.NewInt(5))},
		{nLst(), {k: kNil}, nVec()},
		{nLst(nFix(1), nTl(nFix(2))), nLst(nFix(1), nFix(2)), nLst(nFix(1), nTl(nF64(2)))},
		{nLst(nFix(1), nTl(nChr('a'))), nLst(nFix(1), nTl(nChr('A'))), nLst(nFix(1), nChr('a'))},
		{nVec(nFix(16777217)), nVec(nF32(16777216)), nVec(nFix(16777216))},
		{nVec(nStr("a")), nVec(nStr("A")), nLst(nStr("a"))},
		{nVec(nSym("a")), nVec(nSym("A")), nLst(nSym("A"))},
	}
	t := common.Pick(g.rng, ts)
	out := make([]*node, 3)
	perm := [][]int{{0, 1, 2}, {0, 2, 1}, {1, 0, 2}, {1, 2, 0}, {2, 0, 1}, {2, 1, 0}}[g.rng.Intn(6)]
	for i, p := range perm {
		out[i] = t[p]
		if g.rng.Chance(15) { // wrapped in a list or a vector: the laws must survive nesting
			if g.rng.Bool() {
				out[i] = nLst(nSym("w"), t[p])
			} else {
				out[i] = nVec(t[p])
			}
		}
	}
	return out
}

// lowWordTriples: a bignum beyond int64 against the fixnum that has its low 64 bits (what big.Int.Int64 returns for
// it: an Equal method that forgets the IsInt64 guard identifies the two, with the bignum as receiver only). Generated
// on every run for a spread of high words k and low words u, both signs: bare (eql / equal / equalp go through same),
// as the element of a vector (equal and equalp compare vectors with Vector.Equal, i.e. ObjectEqual on the elements,
// in both argument orders), and inside a list holding a vector; sxhash of all of them is observed too. Seeded change
// C05-5 was once caught only when a random triple happened to be wrapped in a vector.
func (g *gen) lowWordTriples() [][]aref {
	ks := []*big.Int{big.NewInt(1), big.NewInt(2), big.NewInt(3), big.NewInt(1 << 10), pow2(40), big.NewInt(int64(g.rng.Intn(1<<20)) + 4)}
	us := []*big.Int{big.NewInt(0), big.NewInt(1), big.NewInt(5), pow2(62), p63, add(p64, -1), add(p63, 1),
		new(big.Int).SetUint64(uint64(g.rng.Intn(1<<30))<<32 | uint64(g.rng.Intn(1<<30)))}
	var out [][]aref
	i := 0
	for _, k := range ks {
		for _, u := range us {
			for _, neg := range []bool{false, true} {
				if (i+len(out))%3 != 0 && !(k.Cmp(big.NewInt(1)) == 0) { // all of k = 1, a third of the rest
					i++
					continue
				}
				i++
				b := new(big.Int).Add(new(big.Int).Mul(p64, k), u)
				if neg {
					b.Neg(b)
				}
				lo := b.Int64() // the low 64 bits of |b| with b's sign
				other := nBig(new(big.Int).Add(b, p64))
				var tr []*node
				switch len(out) % 4 {
				case 0:
					tr = []*node{nVec(nBig(b)), nVec(nFix(lo)), nVec(other)}
				case 1:
					tr = []*node{nVec(nFix(lo)), nVec(nBig(b)), nLst(nBig(b))}
				case 2:
					tr = []*node{nBig(b), nFix(lo), nVec(nFix(lo), nBig(b))}
				default:
					tr = []*node{nLst(nSym("w"), nVec(nBig(b), nFix(lo))), nLst(nSym("w"), nVec(nFix(lo), nFix(lo))), nLst(nSym("w"), nVec(nBig(b), nBig(b)))}
				}
				out = append(out, []aref{mkref(tr[0]), mkref(tr[1]), mkref(tr[2])})
			}
		}
	}
	// the same for the two parts of a ratio: equal numerators over denominators with the same low 64 bits, and
	// congruent numerators over one denominator (Ratio.Equal decides for the elements of a vector; a comparison of
	// the parts through Int64() identifies them).  Seeded change C05-9.
	nums := []*big.Int{big.NewInt(1), big.NewInt(-1), big.NewInt(5), add(pow2(62), 1), big.NewInt(int64(g.rng.Intn(1000)) + 2)}
	dens := []*big.Int{big.NewInt(3), big.NewInt(7), big.NewInt(2), add(p63, 2), add(p64, 3), big.NewInt(int64(g.rng.Intn(1000))*2 + 3)}
	for ni, n := range nums {
		for di, d := range dens {
			k := big.NewInt([]int64{1, 2, 3, 1 << 10}[(ni+di)%4])
			d2 := new(big.Int).Add(d, new(big.Int).Mul(p64, k))
			a, b := nRat(n, d), nRat(n, d2)
			if a.k != kRat || b.k != kRat {
				continue
			}
			if (ni+di)%5 == 4 { // congruent numerators
				b = nRat(new(big.Int).Add(n, new(big.Int).Mul(p64, k)), d)
				if b.k != kRat {
					continue
				}
			}
			c := nRat(n, new(big.Int).Add(d2, p64))
			var tr []*node
			switch (ni + di) % 3 {
			case 0:
				tr = []*node{nVec(b), nVec(a), nVec(c)}
			case 1:
				tr = []*node{nVec(a), nVec(b), nLst(b)}
			default:
				tr = []*node{nLst(nSym("w"), nVec(nFix(1), b)), nLst(nSym("w"), nVec(nFix(1), a)), b}
			}
			out = append(out, []aref{mkref(tr[0]), mkref(tr[1]), mkref(tr[2])})
		}
	}
	return out
}

func (g *gen) refTriple() []aref {
	if g.rng.Chance(18) {
		ns := g.designed()
		return []aref{mkref(ns[0]), mkref(ns[1]), mkref(ns[2])}
	}
	refs := make([]aref, 0, 3)
	for i := 0; i < 3; i++ {
		if i > 0 && g.rng.Chance(60) {
			base := refs[g.rng.Intn(i)]
			switch g.rng.Intn(5) {
			case 0: // the same box
				refs = append(refs, base)
			case 1: // a fresh copy of the same object
				refs = append(refs, mkref(base.n))
			default:
				refs = append(refs, mkref(g.variant(base.n)))
			}
			continue
		}
		refs = append(refs, mkref(g.object(2)))
	}
	return refs
}

// ---- 2. hash tables ---------------------------------------------------------------------------------

var tests = []string{"", " :test 'eq", " :test 'eql", " :test 'equal", " :test 'equalp", " :test #'equal", " :size 10"}
var testCode = map[string]int{"eq": 0, "eql": 1, "equal": 2, "equalp": 3}

func simpleNode(n *node) bool {
	switch n.k {
	case kNil, kTru, kFix, kChr, kStr, kSym, kVec, kLst:
		return true
	case kBig: // as the reader makes it: outside int64
		return !n.z.IsInt64()
	case kRat: // numerator below 2^62 (the bound of sym_guard)
		return new(big.Int).Abs(n.z).Cmp(pow2(62)) < 0
	}
	return false
}

// simpleAtom: a key of the kinds on which the table is expected to be a finite map under eql
func (g *gen) simpleAtom() *node {
	switch g.rng.Intn(16) {
	case 13, 14, 15: // bignums and ratios: found by value since repair C16-5 (formerly keyed by pointer)
		return common.Pick(g.rng, []*node{nBig(e20), nBig(add(e20, 1)), nBig(p63), nBig(p64), nBig(new(big.Int).Neg(e20)), nBig(new(big.Int).Neg(add(p63, 1))),
			nRat(big.NewInt(1), big.NewInt(2)), nRat(big.NewInt(-1), big.NewInt(2)), nRat(big.NewInt(1), big.NewInt(3)), nRat(big.NewInt(3), big.NewInt(2)),
			nRat(big.NewInt(2), big.NewInt(4)), nRat(add(pow2(61), 1), big.NewInt(2))})
	case 12: // a list: the table refuses it with a type-error (formerly a host fault, C16-hash-list-key-faults)
		return common.Pick(g.rng, []*node{nLst(nFix(1), nFix(2)), nLst(), nLst(nSym("a")), nLst(nFix(1), nTl(nFix(2))), nLst(nStr("k"), nLst(nFix(5)))})
	case 0:
		return &node{k: kNil}
	case 1:
		return &node{k: kTru}
	case 2, 3, 4:
		return nFix(common.Pick(g.rng, []int64{0, 1, 5, -5, 255, 256, 1000, 16777217, 9007199254740993, math.MaxInt64, math.MinInt64}))
	case 5:
		return nChr(common.Pick(g.rng, charPool))
	case 6, 7, 8:
		return nStr(common.Pick(g.rng, stringPool))
	case 9:
		return nVec(nFix(int64(g.rng.Intn(3))))
	default:
		return nSym(common.Pick(g.rng, symbolPool))
	}
}

// bytePool: signed-byte / unsigned-byte numbers as keys - the other numbers held by a pointer, which HashTable.Key
// has to resolve by type and value.  Every value twice or more in separately created objects (and now and then the
// same box again), among strings and symbols; one pool in four also holds a key of another Go type with the same
// value (the other signedness or the fixnum), which is eql but a different key: outside the guard.
func (g *gen) bytePool() []aref {
	vals := []int64{0, 1, 5, 7, 127, 128, 255, 256, 300, 65535, 1 << 40, int64(g.rng.Intn(1000))}
	mk := func(v int64) *node {
		if v >= 0 && g.rng.Bool() {
			return nUB(v)
		}
		if g.rng.Bool() {
			v = -v
		}
		return nSB(v)
	}
	var pool []aref
	for len(pool) < 4 {
		nd := mk(common.Pick(g.rng, vals))
		first := mkref(nd)
		pool = append(pool, first, mkref(nd)) // two objects, one value
		if g.rng.Chance(30) {
			pool = append(pool, first) // the same box again
		}
	}
	switch g.rng.Intn(4) {
	case 0:
		b := pool[g.rng.Intn(len(pool))].n
		switch {
		case g.rng.Bool():
			pool = append(pool, mkref(nFix(b.z.Int64())))
		case b.k == kUB:
			pool = append(pool, mkref(nSB(b.z.Int64())))
		case b.z.Sign() >= 0:
			pool = append(pool, mkref(nUB(b.z.Int64())))
		}
	case 1:
		pool = append(pool, mkref(nStr(common.Pick(g.rng, stringPool))), mkref(nFix(int64(g.rng.Intn(5))+1000)))
	case 2:
		pool = append(pool, mkref(nSym(common.Pick(g.rng, symbolPool))))
	}
	for i := len(pool) - 1; i > 0; i-- {
		j := g.rng.Intn(i + 1)
		pool[i], pool[j] = pool[j], pool[i]
	}
	return pool
}

// fixedPool: the pools every run starts with, each used for three histories of 12 operations: every kind of
// number held by a pointer (bignum, ratio, signed-byte, unsigned-byte) as two separately created objects per value
// plus a second value, and the low-word pairs (bignum / fixnum, ratios with congruent denominators).
const nFixedPools = 9

func (g *gen) fixedPool(c int) []aref {
	two := func(a, b *node) []aref { return []aref{mkref(a), mkref(a), mkref(b), mkref(b), mkref(a)} }
	pools := []func() []aref{
		func() []aref { return two(nSB(5), nSB(-256)) },
		func() []aref { return two(nUB(7), nUB(300)) },
		func() []aref { return two(nSB(0), nUB(1<<40)) },
		func() []aref { return two(nSB(-288), nSB(-300)) }, // Equal after a rune-wise trim before repair C16-12
		func() []aref { return two(nBig(e20), nBig(add(e20, 1))) },
		func() []aref { return two(nRat(big.NewInt(1), big.NewInt(3)), nRat(big.NewInt(1), add(p64, 3))) },
		func() []aref {
			return two(nRat(big.NewInt(5), big.NewInt(7)), nRat(big.NewInt(5), add(new(big.Int).Lsh(p64, 1), 7)))
		},
		func() []aref { return two(nBig(add(p64, 1)), nFix(1)) },
		func() []aref { return two(nSB(9), nStr("9")) },
	}
	if len(pools) != nFixedPools {
		panic("c16: nFixedPools out of date")
	}
	if c/3 >= len(pools) {
		return nil
	}
	return pools[c/3]()
}

func (g *gen) keyPool() []aref {
	if g.rng.Chance(9) {
		return g.bytePool()
	}
	if g.rng.Chance(5) {
		// ratios whose numerators are equal and whose denominators have the same low 64 bits (or the other way
		// round): a component-wise comparison through Int64() identifies them
		n := common.Pick(g.rng, []*big.Int{big.NewInt(1), big.NewInt(-1), big.NewInt(5), add(pow2(62), 1)})
		d := common.Pick(g.rng, []*big.Int{big.NewInt(3), big.NewInt(7), big.NewInt(2), add(p64, 3)})
		k := big.NewInt(common.Pick(g.rng, []int64{1, 2, 3, 1 << 10}))
		d2 := new(big.Int).Add(d, new(big.Int).Mul(p64, k))
		a, b := nRat(n, d), nRat(n, d2)
		if g.rng.Chance(30) { // congruent numerators over one denominator
			n2 := new(big.Int).Add(n, new(big.Int).Mul(p64, k))
			a, b = nRat(n, add(p64, 3)), nRat(n2, add(p64, 3))
		}
		pool := []aref{mkref(a), mkref(b), mkref(b), mkref(a)}
		if g.rng.Bool() {
			pool[0], pool[1] = pool[1], pool[0]
		}
		return pool
	}
	if g.rng.Chance(6) {
		// a bignum beyond int64, the fixnum with its low 64 bits, and copies of both: four simple keys, two classes
		k := common.Pick(g.rng, []int64{1, 2, 3, 1 << 10})
		u := common.Pick(g.rng, []*big.Int{big.NewInt(0), big.NewInt(1), big.NewInt(5), pow2(62), p63, add(p64, -1)})
		b := new(big.Int).Add(new(big.Int).Mul(p64, big.NewInt(k)), u)
		if g.rng.Bool() {
			b.Neg(b)
		}
		pool := []aref{mkref(nBig(b)), mkref(nFix(b.Int64())), mkref(nFix(b.Int64())), mkref(nBig(b))}
		if g.rng.Bool() {
			pool[0], pool[1] = pool[1], pool[0]
		}
		return pool
	}
	n := 3 + g.rng.Intn(4)
	simple := g.rng.Chance(60)
	pool := make([]aref, 0, n)
	for i := 0; i < n; i++ {
		if i > 0 && g.rng.Chance(55) {
			base := pool[g.rng.Intn(i)]
			switch g.rng.Intn(4) {
			case 0:
				pool = append(pool, base)
			case 1:
				pool = append(pool, mkref(base.n))
			default:
				v := g.variant(base.n)
				for tries := 0; simple && !simpleNode(v) && tries < 8; tries++ {
					v = g.variant(base.n)
				}
				if simple && !simpleNode(v) {
					v = base.n
				}
				pool = append(pool, mkref(v))
			}
			continue
		}
		// mostly hashable kinds; lists now and then
		var nd *node
		switch {
		case simple:
			nd = g.simpleAtom()
		case g.rng.Chance(12):
			nd = g.object(1)
		default:
			nd = g.atom()
		}
		pool = append(pool, mkref(nd))
	}
	return pool
}

func runHt(ctx *common.Ctx, g *gen, n int) {
	var terms []string
	var descs []any
	seen := map[string]bool{}
	nontrivial := 0
	for c := 0; c < n; c++ {
		s := slip.NewScope()
		mk := common.Pick(g.rng, tests)
		o := common.EvalIn(s, "(setq c16-h (make-hash-table"+mk+"))")
		if o.Err != "" {
			ctx.Violate("make-hash-table failed", mk, o.Err+": "+o.Msg, "a hash table")
			continue
		}
		ht := o.Value
		tname := strings.ToLower(common.EvalIn(s, "(hash-table-test c16-h)").Printed)
		tcode, ok := testCode[tname]
		if !ok {
			ctx.Violate("hash-table-test reports an unknown test", mk, tname, "eq, eql, equal or equalp")
			continue
		}
		ctx.Hist("ht-make:" + strings.TrimSpace(mk))
		pool := g.fixedPool(c) // a fixed block of pools first (full-length histories), then drawn ones
		fixed := pool != nil
		var script []sop // then the enumerated value histories (every ordered pair of value representations)
		if !fixed {
			if pool, script = valueScript(c - nFixedPools*3); pool == nil {
				pool = g.keyPool()
			}
		}
		vals := newVals()
		w := words{}
		pterms := make([]string, len(pool))
		pshow := make([]string, len(pool))
		for i, r := range pool {
			pterms[i] = keyTerm(r, w)
			pshow[i] = fmt.Sprintf("%d:%s@%d", i, r.n.show(), w.id(r.o))
			ctx.Hist("ht-key:" + r.n.kindName())
		}
		// the reported test, as the implementation answers it on every ordered pair of keys
		trows := make([]string, len(pool))
		for i, a := range pool {
			cells := make([]string, len(pool))
			for j, b := range pool {
				cells[j] = fmt.Sprintf("%d%%N", predCode(call(s, tname, a.o, b.o)))
			}
			trows[i] = "[" + strings.Join(cells, "; ") + "]"
		}
		nops := 1 + g.rng.Intn(12)
		if fixed {
			nops = 12
		}
		if script != nil {
			nops = len(script)
			ctx.Hist("ht-history:enumerated-value-pair")
		}
		ops := make([]string, 0, nops)
		obs := make([]string, 0, nops)
		oshow := make([]string, 0, nops)
		present := map[int]bool{}
		last := map[int]int64{} // the value code last stored under the key of that pool index
		interesting := false
		for k := 0; k < nops; k++ {
			var i, r int
			var v int64
			if script != nil {
				i, r, v = script[k].key, script[k].op, script[k].val
			} else {
				i, r = g.rng.Intn(len(pool)), g.rng.Intn(20)
			}
			key := pool[i].o
			switch {
			case r < 8:
				// values are value OBJECTS named by a code (coq/C16/Model.v section 7): nil = 0, else 100*rep + n with
				// n in 1..90 and rep 0 fixnum, 1 double-float, 2 single-float, 3 / 4 two separately made lists (n).
				// One store in three over a present key stores the same number in a drawn representation: a different
				// object that slip.ObjectEqual accepts against the current one, or the very same object again.
				if script == nil {
					v = int64(g.rng.Intn(90) + 1)
					if g.rng.Chance(40) {
						v += 100 * int64(g.rng.Intn(nValReps))
					}
					if old, has := last[i]; has && old != 0 && g.rng.Chance(33) {
						v = old%100 + 100*int64(g.rng.Intn(nValReps))
					}
					if g.rng.Chance(12) {
						v = 0
					}
				}
				if old, has := last[i]; has && present[i] && old != v && old != 0 && v != 0 && old%100 == v%100 && (old/100 < 3) == (v/100 < 3) {
					ctx.Hist("ht-put:object-equal-but-different-value-over-present-key")
				}
				ctx.Hist("ht-value:" + valRepName(v))
				last[i] = v
				vo := vals.obj(v)
				ops = append(ops, fmt.Sprintf("HPut %d %s", i, common.GZ(v)))
				out := evalForm(s, slip.List{slip.Symbol("setf"), slip.List{slip.Symbol("gethash"), quote(key), ht}, quote(vo)})
				if out.Err != "" {
					obs = append(obs, errObs(out))
				} else if z, ok := vals.code(first(out.Value)); ok {
					obs = append(obs, "OVal "+common.GZ(z))
				} else {
					obs = append(obs, "OBadKey")
				}
				if present[i] {
					interesting = true
				}
				present[i] = true
				oshow = append(oshow, fmt.Sprintf("put %d %d -> %s", i, v, obs[len(obs)-1]))
			case r < 13:
				ops = append(ops, fmt.Sprintf("HGet %d", i))
				out := evalForm(s, slip.List{slip.Symbol("gethash"), quote(key), ht})
				switch {
				case out.Err != "":
					obs = append(obs, errObs(out))
				default:
					vs, _ := out.Value.(slip.Values)
					if len(vs) == 2 && vs[1] == slip.True {
						if z, ok := vals.code(vs[0]); ok {
							obs = append(obs, "OGet (Some "+common.GZ(z)+")")
						} else {
							obs = append(obs, "OBadKey")
						}
					} else if len(vs) == 2 && vs[0] == nil && vs[1] == nil {
						obs = append(obs, "OGet None")
					} else {
						obs = append(obs, "OBadKey")
					}
				}
				oshow = append(oshow, fmt.Sprintf("get %d -> %s", i, obs[len(obs)-1]))
			case r < 16:
				ops = append(ops, fmt.Sprintf("HRem %d", i))
				out := evalForm(s, slip.List{slip.Symbol("remhash"), quote(key), ht})
				obs = append(obs, boolObs(out))
				if present[i] {
					interesting = true
				}
				delete(present, i)
				oshow = append(oshow, fmt.Sprintf("rem %d -> %s", i, obs[len(obs)-1]))
			case r < 17:
				ops = append(ops, "HClr")
				out := evalForm(s, slip.List{slip.Symbol("clrhash"), ht})
				if _, ok := out.Value.(slip.HashTable); ok && out.Err == "" {
					obs = append(obs, "OBool true")
				} else {
					obs = append(obs, errObs(out))
				}
				present = map[int]bool{}
				oshow = append(oshow, "clr")
			case r < 19:
				ops = append(ops, "HCount")
				out := evalForm(s, slip.List{slip.Symbol("hash-table-count"), ht})
				if f, ok := first(out.Value).(slip.Fixnum); ok && out.Err == "" {
					obs = append(obs, "ONum "+common.GZ(int64(f)))
				} else {
					obs = append(obs, errObs(out))
				}
				oshow = append(oshow, "count -> "+obs[len(obs)-1])
			default:
				ops = append(ops, "HMap")
				obs = append(obs, mapObs(s, ht, pool, vals))
				oshow = append(oshow, "maphash -> "+obs[len(obs)-1])
			}
		}
		term := fmt.Sprintf("mk_ht_case %d%%N [%s] [%s] [%s] [%s]", tcode, strings.Join(pterms, "; "), strings.Join(trows, "; "), strings.Join(ops, "; "), strings.Join(obs, "; "))
		if !seen[term] {
			seen[term] = true
			if interesting {
				nontrivial++
			}
		}
		terms = append(terms, term)
		d := map[string]any{"make-hash-table": strings.TrimSpace(mk), "hash-table-test": tname, "pool (index:object@data-word)": pshow, "history": oshow}
		descs = append(descs, d)
		if c%150 == 3 {
			ctx.Sample(d)
		}
	}
	footer := "Definition res := Eval vm_compute in check_all_ht cases.\nPrint res.\n" +
		"Definition model_mismatches := Eval vm_compute in ht_mismatches cases : N.\nPrint model_mismatches.\n" +
		"Definition histories_in_table_guard := Eval vm_compute in ht_guarded cases : N.\nPrint histories_in_table_guard.\n" +
		"Definition histories_not_a_finite_map_under_the_test := Eval vm_compute in ht_spec_violations cases : N.\nPrint histories_not_a_finite_map_under_the_test.\n" +
		"Definition guarded_pools_outside_pool_ok := Eval vm_compute in ht_guard_implies_pool_ok cases : N.\nPrint guarded_pools_outside_pool_ok.\n" +
		"Definition byte_key_histories_in_table_guard := Eval vm_compute in ht_byte_pools_guarded cases : N.\nPrint byte_key_histories_in_table_guard.\n" +
		"Definition stores_of_an_equal_but_different_value_object := Eval vm_compute in ht_equal_value_overwrites cases : N.\nPrint stores_of_an_equal_but_different_value_object.\n" +
		"Definition malformed_value_codes := Eval vm_compute in ht_malformed_values cases : N.\nPrint malformed_value_codes.\n"
	ctx.WriteShards("cases_ht", header, "ht_case", footer, terms, descs, 6)
	ctx.Meta.Evaluations += len(terms)
	ctx.Meta.DistinctNontrivial += nontrivial
}

func errObs(o common.Outcome) string {
	if o.Err == "go-panic" || common.Fault(o.Msg) {
		return "OFault"
	}
	if o.Err == "type-error" {
		return "OTypeErr" // HashTable.Key refuses a key Go cannot hash (repair C16-4)
	}
	return "OBadKey" // any other failure: never what the model says
}

func boolObs(o common.Outcome) string {
	if o.Err != "" {
		return errObs(o)
	}
	switch first(o.Value) {
	case nil:
		return "OBool false"
	case slip.True:
		return "OBool true"
	}
	return "OBadKey"
}

// mapObs runs maphash with a collecting lambda and names every key by the smallest pool index holding
// a key that Go considers equal.
func mapObs(s *slip.Scope, ht slip.Object, pool []aref, vals *valReg) string {
	s.Let(slip.Symbol("c16-acc"), nil)
	code := slip.ReadString("(lambda (k v) (setq c16-acc (cons (list k v) c16-acc)))", s)
	out := evalForm(s, slip.List{slip.Symbol("maphash"), code[0], ht})
	if out.Err != "" {
		return errObs(out)
	}
	acc, _ := s.Get(slip.Symbol("c16-acc")).(slip.List)
	type ent struct {
		i int
		v int64
	}
	var ents []ent
	for _, e := range acc {
		pair, ok := e.(slip.List)
		if !ok || len(pair) != 2 {
			return "OBadKey"
		}
		f, ok := vals.code(pair[1])
		if !ok {
			return "OBadKey"
		}
		idx := -1
		for i, r := range pool {
			if sameGoKey(r.o, pair[0]) {
				idx = i
				break
			}
		}
		if idx < 0 {
			return "OBadKey"
		}
		ents = append(ents, ent{idx, f})
	}
	sort.Slice(ents, func(a, b int) bool { return ents[a].i < ents[b].i || (ents[a].i == ents[b].i && ents[a].v < ents[b].v) })
	items := make([]string, len(ents))
	for i, e := range ents {
		items[i] = fmt.Sprintf("(%d%%nat, %s)", e.i, common.GZ(e.v))
	}
	return "OEntries [" + strings.Join(items, "; ") + "]"
}

// sameGoKey: is b the key a table reaches with a?  Go's == on the interface values, except that HashTable.Key
// resolves a bignum or ratio to the stored key of the same type and value (repair C16-5).
func sameGoKey(a, b slip.Object) (eq bool) {
	defer func() {
		if recover() != nil {
			eq = false
		}
	}()
	switch ta := a.(type) {
	case *slip.Bignum:
		if tb, ok := b.(*slip.Bignum); ok {
			return (*big.Int)(ta).Cmp((*big.Int)(tb)) == 0
		}
		return false
	case *slip.Ratio:
		if tb, ok := b.(*slip.Ratio); ok {
			return (*big.Rat)(ta).Cmp((*big.Rat)(tb)) == 0
		}
		return false
	case *slip.SignedByte:
		if tb, ok := b.(*slip.SignedByte); ok {
			return ta.AsFixOrBig() == tb.AsFixOrBig() // values inside int64: fixnums
		}
		return false
	case *slip.UnsignedByte:
		if tb, ok := b.(*slip.UnsignedByte); ok {
			return ta.AsFixOrBig() == tb.AsFixOrBig()
		}
		return false
	}
	return a == b
}

var predNames = []string{"eq", "eql", "equal", "equalp"}

// noteLaws records (histogram, and a few examples in the notes) where the observed matrix breaks a law,
// guard or no guard: this is what the known findings are drawn from.
func noteLaws(ctx *common.Ctx, shows, kindsOf []string, m [3][3][4]int, hs []string) {
	note := func(key, msg string) {
		ctx.Hist(key)
		if ctx.Meta.Histogram[key] <= 3 && os.Getenv("VERIF_C16_NOTES") != "" {
			ctx.Meta.Notes = append(ctx.Meta.Notes, key+": "+msg)
		}
	}
	for i := 0; i < 3; i++ {
		for j := 0; j < 3; j++ {
			for p := 0; p < 4; p++ {
				if m[i][j][p] == 2 {
					note("law:"+predNames[p]+"-not-total", fmt.Sprintf("%s %s", shows[i], shows[j]))
				}
				if m[i][j][p] == 1 && m[j][i][p] != 1 {
					note("law:"+predNames[p]+"-not-symmetric", fmt.Sprintf("%s %s", shows[i], shows[j]))
				}
				if p < 3 && m[i][j][p] == 1 && m[i][j][p+1] != 1 {
					note("law:"+predNames[p]+"-does-not-imply-"+predNames[p+1], fmt.Sprintf("%s %s", shows[i], shows[j]))
				}
				for k := 0; k < 3; k++ {
					if m[i][j][p] == 1 && m[j][k][p] == 1 && m[i][k][p] != 1 {
						note("law:"+predNames[p]+"-not-transitive", fmt.Sprintf("%s %s %s", shows[i], shows[j], shows[k]))
					}
				}
			}
			if m[i][j][2] == 1 && hs[i] != hs[j] {
				note("law:equal-but-sxhash-differs:"+kindsOf[i]+"/"+kindsOf[j], fmt.Sprintf("%s %s: %s %s", shows[i], shows[j], hs[i], hs[j]))
			}
		}
		if m[i][i] != [4]int{1, 1, 1, 1} {
			note("law:not-reflexive", shows[i])
		}
	}
}

// ---- stored values ------------------------------------------------------------------------------------
//
// A stored value is an object, named in the cases by the code of coq/C16/Model.v section 7: 0 is nil, otherwise
// 100*rep + n (n in 1..99): rep 0 the fixnum n, 1 the double-float n.0, 2 the single-float n.0, 3 and 4 two
// separately made lists (n).  Objects of different codes with one n and both numbers (or both lists) are
// slip.ObjectEqual without being the same object; what a lookup returns is decoded back by Go type and value, a
// list by the address of its first cell against the two boxes made for the case.
const nValReps = 5

type valReg struct{ objs map[int64]slip.Object }

func newVals() *valReg { return &valReg{objs: map[int64]slip.Object{}} }

func valRepName(code int64) string {
	if code == 0 {
		return "nil"
	}
	return []string{"fixnum", "double-float", "single-float", "list-box-a", "list-box-b"}[code/100]
}

// obj: the object of a code, made once per case (storing a code again stores the same object again)
func (r *valReg) obj(code int64) slip.Object {
	if code == 0 {
		return nil
	}
	if o, has := r.objs[code]; has {
		return o
	}
	var o slip.Object
	n := code % 100
	switch code / 100 {
	case 0:
		o = slip.Fixnum(n)
	case 1:
		o = slip.DoubleFloat(float64(n))
	case 2:
		o = slip.SingleFloat(float32(n))
	default:
		l := make(slip.List, 1)
		l[0] = slip.Fixnum(n)
		o = l
	}
	r.objs[code] = o
	return o
}

// code: which value object came back
func (r *valReg) code(o slip.Object) (int64, bool) {
	inRange := func(f float64) bool { return f == float64(int64(f)) && 1 <= f && f <= 99 }
	switch v := o.(type) {
	case nil:
		return 0, true
	case slip.Fixnum:
		if 1 <= v && v <= 99 {
			return int64(v), true
		}
	case slip.DoubleFloat:
		if inRange(float64(v)) {
			return 100 + int64(v), true
		}
	case slip.SingleFloat:
		if inRange(float64(v)) {
			return 200 + int64(v), true
		}
	case slip.List:
		if len(v) != 1 {
			return 0, false
		}
		f, ok := v[0].(slip.Fixnum)
		if !ok || f < 1 || 99 < f {
			return 0, false
		}
		for _, rep := range []int64{3, 4} {
			if box, has := r.objs[100*rep+int64(f)].(slip.List); has && len(box) == 1 && &box[0] == &v[0] {
				return 100*rep + int64(f), true
			}
		}
	}
	return 0, false
}

// sop: one scripted operation (op numbered like the random draw: < 8 put, < 13 get, < 16 rem, 16 clr, < 19 count, 19 maphash)
type sop struct {
	op, key int
	val     int64
}

// valueScript: the enumerated value histories, the same on every run - for every ORDERED pair (ra, rb) of the five
// value representations (the pair (r, r) stores the same object again) a history over a pool of a symbol, a
// fixnum, a string and a second reference to the symbol that stores the number n as ra and then as rb under one
// key and looks it up after each store, lists the entries, does the same in the other order under a second key,
// and stores rb again after a remhash.  Returns nil beyond the block.
func valueScript(c int) ([]aref, []sop) {
	if c < 0 || c >= nValReps*nValReps {
		return nil, nil
	}
	ra, rb := int64(c/nValReps), int64(c%nValReps)
	n := int64(5 + c)
	a, b := 100*ra+n, 100*rb+n
	const put, get, rem, count, mapc = 0, 8, 13, 17, 19
	pool := []aref{mkref(nSym("k")), mkref(nFix(7)), mkref(nStr("x")), mkref(nSym("k"))}
	return pool, []sop{
		{put, 0, a}, {get, 0, 0}, {put, 3, b}, {get, 0, 0}, {mapc, 0, 0},
		{put, 1, b}, {put, 1, a}, {get, 1, 0}, {count, 0, 0},
		{rem, 0, 0}, {put, 2, a}, {put, 2, b}, {get, 2, 0}, {put, 0, b}, {get, 3, 0}, {mapc, 0, 0},
	}
}
