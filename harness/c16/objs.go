package c16

import (
	"fmt"
	"math"
	"math/big"
	"strings"
	"unsafe"

	"github.com/ohler55/slip"
	"verifharness/common"
)

// node is the harness-side description of an object of the modelled universe: it can be built into a
// fresh slip.Object (new boxes every time) and printed as a Gallina term of type Model.obj.
type kind int

const (
	kNil kind = iota
	kTru
	kFix
	kBig
	kRat
	kF32
	kF64
	kChr
	kStr
	kSym
	kLst
	kVec
	kTl
	// outside the universe of the predicates: hash-table keys (signed / unsigned byte) and type cases only
	kSB  // *slip.SignedByte made by (coerce z 'signed-byte), value n.z inside int64
	kUB  // *slip.UnsignedByte made by (coerce z 'unsigned-byte), value n.z >= 0
	kOct // slip.Octet
	kBit // slip.Bit
	kLF  // *slip.LongFloat
	kCpx // slip.Complex
)

type node struct {
	k    kind
	z    *big.Int // kFix, kBig; numerator of kRat
	d    *big.Int // denominator of kRat
	f    float64  // kF32 (exactly a float32 value), kF64
	r    rune
	s    string
	kids []*node
	v    *node // kTl
}

func nFix(z int64) *node           { return &node{k: kFix, z: big.NewInt(z)} }
func nBig(z *big.Int) *node        { return &node{k: kBig, z: new(big.Int).Set(z)} }
func nF64(f float64) *node         { return &node{k: kF64, f: f} }
func nF32(f float32) *node         { return &node{k: kF32, f: float64(f)} }
func nChr(r rune) *node            { return &node{k: kChr, r: r} }
func nStr(s string) *node          { return &node{k: kStr, s: s} }
func nSym(s string) *node          { return &node{k: kSym, s: s} }
func nLst(kids ...*node) *node     { return &node{k: kLst, kids: kids} }
func nVec(kids ...*node) *node     { return &node{k: kVec, kids: kids} }
func nTl(v *node) *node            { return &node{k: kTl, v: v} }
func nSB(z int64) *node            { return &node{k: kSB, z: big.NewInt(z)} }
func nUB(z int64) *node            { return &node{k: kUB, z: big.NewInt(z)} }
func nOther(k kind, z int64) *node { return &node{k: k, z: big.NewInt(z), f: float64(z) + 0.5} }

// extra: a node of a kind outside the universe of the predicates (no Gallina term of type Model.obj)
func (n *node) extra() bool { return n.k >= kSB }

// nRat returns the ratio n/d in lowest terms, or the integer it equals (as slip does).
func nRat(n, d *big.Int) *node {
	r := new(big.Rat).SetFrac(n, d)
	if r.IsInt() {
		return nInt(r.Num())
	}
	return &node{k: kRat, z: new(big.Int).Set(r.Num()), d: new(big.Int).Set(r.Denom())}
}

// nInt is the integer as the reader would represent it: fixnum when it fits, bignum otherwise.
func nInt(z *big.Int) *node {
	if z.IsInt64() {
		return nFix(z.Int64())
	}
	return nBig(z)
}

func pow2(n uint) *big.Int { return new(big.Int).Lsh(big.NewInt(1), n) }
func bigS(s string) *big.Int {
	z, ok := new(big.Int).SetString(s, 10)
	if !ok {
		panic(s)
	}
	return z
}
func add(z *big.Int, k int64) *big.Int { return new(big.Int).Add(z, big.NewInt(k)) }

// build makes a fresh object: every call allocates new boxes (runtime conversion, not constants).
func (n *node) build() slip.Object {
	switch n.k {
	case kNil:
		return nil
	case kTru:
		return slip.True
	case kFix:
		v := n.z.Int64()
		return slip.Fixnum(v)
	case kBig:
		return (*slip.Bignum)(new(big.Int).Set(n.z))
	case kRat:
		return (*slip.Ratio)(new(big.Rat).SetFrac(n.z, n.d))
	case kF32:
		return slip.SingleFloat(float32(n.f))
	case kF64:
		return slip.DoubleFloat(n.f)
	case kChr:
		return slip.Character(n.r)
	case kStr:
		return slip.String(strings.Clone(n.s))
	case kSym:
		return slip.Symbol(strings.Clone(n.s))
	case kLst:
		l := make(slip.List, len(n.kids))
		for i, c := range n.kids {
			l[i] = c.build()
		}
		return l
	case kVec:
		l := make(slip.List, len(n.kids))
		for i, c := range n.kids {
			l[i] = c.build()
		}
		return slip.NewVector(len(l), slip.TrueSymbol, nil, l, true)
	case kTl:
		return slip.Tail{Value: n.v.build()}
	case kSB:
		return slip.Coerce(slip.Fixnum(n.z.Int64()), slip.SignedByteSymbol)
	case kUB:
		return slip.Coerce(slip.Fixnum(n.z.Int64()), slip.UnsignedByteSymbol)
	case kOct:
		return slip.Octet(byte(n.z.Int64()))
	case kBit:
		return slip.Bit(byte(n.z.Int64() & 1))
	case kLF:
		return (*slip.LongFloat)(big.NewFloat(n.f))
	case kCpx:
		return slip.Complex(complex(n.f, 2))
	}
	panic("kind")
}

// dyadic returns (m, e) with f = m * 2^e and m odd (or 0, 0).
func dyadic(f float64) (*big.Int, int) {
	if f == 0 {
		return big.NewInt(0), 0
	}
	if math.IsNaN(f) || math.IsInf(f, 0) {
		panic("non-finite float in the universe")
	}
	fr, exp := math.Frexp(f) // f = fr * 2^exp, 0.5 <= |fr| < 1
	m := int64(fr * (1 << 53))
	e := exp - 53
	for m%2 == 0 {
		m /= 2
		e++
	}
	return big.NewInt(m), e
}

func gcps(s string) string {
	items := []string{}
	for _, r := range s {
		items = append(items, fmt.Sprintf("%d", r))
	}
	return "[" + strings.Join(items, ";") + "]%N"
}

func (n *node) term() string {
	switch n.k {
	case kNil:
		return "Nil"
	case kTru:
		return "Tru"
	case kFix:
		return "(Fix " + common.GZs(n.z.String()) + ")"
	case kBig:
		return "(Big " + common.GZs(n.z.String()) + ")"
	case kRat:
		return "(Rat " + common.GZs(n.z.String()) + " " + common.GZs(n.d.String()) + ")"
	case kF32, kF64:
		m, e := dyadic(n.f)
		fk := "FDouble"
		if n.k == kF32 {
			fk = "FSingle"
		}
		return fmt.Sprintf("(Flt %s %s %s)", fk, common.GZs(m.String()), common.GZ(int64(e)))
	case kChr:
		return fmt.Sprintf("(Chr %d%%N)", n.r)
	case kStr:
		return "(Str " + gcps(n.s) + ")"
	case kSym:
		return "(Sym " + gcps(n.s) + ")"
	case kLst, kVec:
		items := make([]string, len(n.kids))
		for i, c := range n.kids {
			items[i] = c.term()
		}
		c := "Lst"
		if n.k == kVec {
			c = "Vec"
		}
		return "(" + c + " [" + strings.Join(items, "; ") + "])"
	case kTl:
		return "(Tl " + n.v.term() + ")"
	}
	panic("kind")
}

// show is a readable rendering for descriptions (not parsed by anything).
func (n *node) show() string {
	switch n.k {
	case kNil:
		return "nil"
	case kTru:
		return "t"
	case kFix:
		return n.z.String()
	case kBig:
		return n.z.String() + "[big]"
	case kRat:
		return n.z.String() + "/" + n.d.String()
	case kF32:
		return fmt.Sprintf("%gs0", n.f)
	case kF64:
		return fmt.Sprintf("%gd0", n.f)
	case kChr:
		return fmt.Sprintf("#\\U+%04X", n.r)
	case kStr:
		return fmt.Sprintf("%+q", n.s)
	case kSym:
		q := fmt.Sprintf("%+q", n.s)
		return "'|" + q[1:len(q)-1] + "|"
	case kLst, kVec:
		items := make([]string, len(n.kids))
		for i, c := range n.kids {
			items[i] = c.show()
		}
		if n.k == kVec {
			return "#(" + strings.Join(items, " ") + ")"
		}
		return "(" + strings.Join(items, " ") + ")"
	case kTl:
		return ". " + n.v.show()
	case kSB:
		return n.z.String() + "[signed-byte]"
	case kUB:
		return n.z.String() + "[unsigned-byte]"
	case kOct:
		return n.z.String() + "[octet]"
	case kBit:
		return fmt.Sprint(n.z.Int64()&1) + "[bit]"
	case kLF:
		return fmt.Sprintf("%gL0", n.f)
	case kCpx:
		return fmt.Sprintf("#C(%g 2)", n.f)
	}
	return "?"
}

func (n *node) hasFloat() bool {
	switch n.k {
	case kF32, kF64:
		return true
	case kLst, kVec:
		for _, c := range n.kids {
			if c.hasFloat() {
				return true
			}
		}
	case kTl:
		return n.v.hasFloat()
	}
	return false
}

// kindName is the key of the regenerated kind table (Types.v).
func (n *node) kindName() string {
	switch n.k {
	case kNil:
		return "nil"
	case kTru:
		return "t"
	case kFix:
		return "fixnum"
	case kBig:
		return "bignum"
	case kRat:
		return "ratio"
	case kF32:
		return "single-float"
	case kF64:
		return "double-float"
	case kChr:
		return "character"
	case kStr:
		return "string"
	case kSym:
		return "symbol"
	case kLst:
		if len(n.kids) == 0 {
			return "empty-list"
		}
		if n.kids[len(n.kids)-1].k == kTl {
			return "cons"
		}
		return "list"
	case kVec:
		return "vector"
	case kSB:
		return "signed-byte"
	case kUB:
		return "unsigned-byte"
	case kOct:
		return "octet"
	case kBit:
		return "bit"
	case kLF:
		return "long-float"
	case kCpx:
		return "complex"
	}
	return "?"
}

// dataWord is what eq compares after the type words (eq.go).
func dataWord(o slip.Object) uintptr { return (*[2]uintptr)(unsafe.Pointer(&o))[1] }

// aref is a reference handed to the implementation: one interface value, used as is wherever the
// reference is used.
type aref struct {
	n *node
	o slip.Object
}

func mkref(n *node) aref { return aref{n: n, o: n.build()} }

// words canonicalises data words to small numbers in order of first appearance.
type words map[uintptr]int

func (w words) id(o slip.Object) int {
	p := dataWord(o)
	if v, ok := w[p]; ok {
		return v
	}
	w[p] = len(w)
	return w[p]
}

// keyTerm: a hash-table key as a Gallina term of type Model.tkey.
func keyTerm(r aref, w words) string {
	switch r.n.k {
	case kSB:
		return fmt.Sprintf("(TByt false %s %d%%N)", common.GZs(r.n.z.String()), w.id(r.o))
	case kUB:
		return fmt.Sprintf("(TByt true %s %d%%N)", common.GZs(r.n.z.String()), w.id(r.o))
	}
	return "(TRef " + refTerm(r, w) + ")"
}

func refTerm(r aref, w words) string {
	return fmt.Sprintf("(mkref %s %d%%N)", r.n.term(), w.id(r.o))
}

// ---- the universe --------------------------------------------------------------------------------

var (
	p24 = pow2(24)
	p53 = pow2(53)
	p63 = pow2(63)
	p64 = pow2(64)
	p79 = pow2(79)
	p80 = pow2(80)
	e20 = bigS("100000000000000000000")
)

func numberPool() []*node {
	third32 := float32(1.0) / 3
	l := []*node{
		nFix(0), nFix(1), nFix(5), nFix(-5), nFix(255), nFix(256), nFix(1000), nFix(16777216), nFix(16777217), nFix(16777218),
		nFix(9007199254740992), nFix(9007199254740993), nFix(9007199254740994), nFix(math.MaxInt64), nFix(math.MinInt64),
		nBig(p63), nBig(add(p63, 1)), nBig(p64), nBig(e20), nBig(add(e20, 1)), nBig(p79), nBig(add(p79, 2)), nBig(add(p80, 1)),
		nBig(new(big.Int).Neg(add(p63, 1))), nBig(new(big.Int).Neg(e20)), nBig(big.NewInt(5)), nBig(big.NewInt(1000)),
		nRat(big.NewInt(1), big.NewInt(2)), nRat(big.NewInt(1), big.NewInt(3)), nRat(big.NewInt(3), big.NewInt(2)),
		nRat(big.NewInt(-1), big.NewInt(2)), nRat(big.NewInt(5), big.NewInt(4)), nRat(big.NewInt(2), big.NewInt(3)),
		nRat(add(p80, 3), big.NewInt(2)), nRat(add(p80, 1), big.NewInt(2)), nRat(add(new(big.Int).Lsh(e20, 1), 1), big.NewInt(2)),
		nRat(add(p64, 1), big.NewInt(3)),
		nF64(0), nF64(0.5), nF64(1), nF64(5), nF64(-5), nF64(2.5), nF64(1.0 / 3), nF64(float64(third32)), nF64(16777216), nF64(9007199254740992),
		nF64(1e20), nF64(6.044629098073146e23), nF64(9.223372036854775808e18), nF64(1.5), nF64(1.25), nF64(-0.5), nF64(1000), nF64(256),
		nF32(0), nF32(0.5), nF32(1), nF32(5), nF32(2.5), nF32(third32), nF32(16777216), nF32(1.5), nF32(-0.5), nF32(1e20), nF32(1000),
		nF32(9.223372036854775808e18), nF32(6.044629098073146e23),
	}
	return l
}

var charPool = []rune{'a', 'A', 'k', 'K', 0x212A, 's', 'S', 0x17F, 'z', 'Z', '0', '9', ' ', '-', '_', '$', '~', '@'}

var stringPool = []string{
	"", "abc", "ABC", "Abc", "a b", "A B", "k", "K", "K", "s", "S", "ſ", "true", "TRUE", "null", "1", "12", "-12", "a-b", "A-B",
	"x/y", "X/Y", "foo", "Foo", "FOO", "kelvin", "Kelvin", "miſt", "mist", "MIST", "a,b", "A,B", "0a", "0A", "(a)", "(A)", "9",
	"abcdefghijklmnopqrstuvwxyzabcdefghijklmnopqrstuvwxyzabcdefghijklmnopqrstuvwxyz", // 78 bytes: longer than a SEN token
	"ABCDEFGHIJKLMNOPQRSTUVWXYZabcdefghijklmnopqrstuvwxyzabcdefghijklmnopqrstuvwxyz",
	"abcdefghijklmnopqrstuvwxyzabcdefghijklmnopqrstuvwxyzabcdefghijkl",  // 64 bytes: the longest bare token
	"abcdefghijklmnopqrstuvwxyzabcdefghijklmnopqrstuvwxyzabcdefghijklm", // 65 bytes
	"Kbcdefghijklmnopqrstuvwxyzabcdefghijklmnopqrstuvwxyzabcdefghijk",   // 63 code points, 65 bytes
}

var symbolPool = []string{"abc", "ABC", "Abc", "foo", "Foo", "a", "A", "k", "K", "K", ":key", ":KEY", "x-y", "X-Y", "nil-ish", "t1", "car", "CAR"}

type gen struct {
	rng  *common.Rng
	nums []*node
}

func newGen(rng *common.Rng) *gen { return &gen{rng: rng, nums: numberPool()} }

func (g *gen) atom() *node {
	switch g.rng.Intn(12) {
	case 0:
		return &node{k: kNil}
	case 1:
		return &node{k: kTru}
	case 2, 3, 4, 5:
		return g.number()
	case 6:
		return nChr(common.Pick(g.rng, charPool))
	case 7, 8:
		return nStr(common.Pick(g.rng, stringPool))
	default:
		return nSym(common.Pick(g.rng, symbolPool))
	}
}

func (g *gen) number() *node {
	if g.rng.Chance(80) {
		return common.Pick(g.rng, g.nums)
	}
	// random fixnum, sometimes near a rounding boundary
	switch g.rng.Intn(4) {
	case 0:
		return nFix(int64(g.rng.Intn(600)) - 300)
	case 1:
		return nInt(add(common.Pick(g.rng, []*big.Int{p24, p53, p63, p64, p79}), int64(g.rng.Intn(5))-2))
	case 2:
		return nF64(float64(int64(g.rng.Intn(600))-300) / 4)
	default:
		return nRat(big.NewInt(int64(g.rng.Intn(40))-20), big.NewInt(int64(g.rng.Intn(9))+1))
	}
}

// object of nesting depth at most d
func (g *gen) object(d int) *node {
	if d <= 0 || g.rng.Chance(60) {
		return g.atom()
	}
	n := g.rng.Intn(4)
	kids := make([]*node, n)
	for i := range kids {
		kids[i] = g.object(d - 1)
	}
	if g.rng.Chance(35) {
		return nVec(kids...)
	}
	if n > 0 && g.rng.Chance(25) {
		t := g.atom()
		for t.k == kNil { // a Tail value is never nil
			t = g.atom()
		}
		kids = append(kids, nTl(t))
	}
	return nLst(kids...)
}

func toggleCase(s string, rng *common.Rng) string {
	rs := []rune(s)
	for i, r := range rs {
		switch {
		case r == 'k' || r == 'K':
			if rng.Chance(40) {
				rs[i] = 0x212A
			} else if r == 'k' {
				rs[i] = 'K'
			} else {
				rs[i] = 'k'
			}
		case r == 0x212A:
			rs[i] = 'k'
		case r == 's' && rng.Chance(30):
			rs[i] = 0x17F
		case r == 0x17F:
			rs[i] = 'S'
		case 'a' <= r && r <= 'z':
			if rng.Chance(70) {
				rs[i] = r - 32
			}
		case 'A' <= r && r <= 'Z':
			if rng.Chance(70) {
				rs[i] = r + 32
			}
		}
	}
	return string(rs)
}

// variant returns an object related to n: the same value in another representation, another case,
// a neighbour, or a structural copy with one element varied.
func (g *gen) variant(n *node) *node {
	switch n.k {
	case kFix, kBig:
		f, _ := new(big.Float).SetInt(n.z).Float64()
		switch g.rng.Intn(8) {
		case 7:
			return nInt(new(big.Int).Neg(n.z))
		case 0:
			return nF64(f)
		case 1:
			return nF32(float32(f))
		case 2:
			return nInt(add(n.z, 1))
		case 3:
			return nInt(add(n.z, -1))
		case 4:
			return nBig(n.z) // the same integer as a bignum, whatever its size
		case 5:
			return nRat(add(new(big.Int).Lsh(n.z, 1), 1), big.NewInt(2)) // n + 1/2
		default:
			return nInt(n.z)
		}
	case kRat:
		f, _ := new(big.Rat).SetFrac(n.z, n.d).Float64()
		switch g.rng.Intn(6) {
		case 4:
			return nRat(new(big.Int).Neg(n.z), n.d)
		case 5:
			return nRat(n.d, n.z) // the reciprocal (sign moves to the numerator)
		case 0:
			return nF64(f)
		case 1:
			return nF32(float32(f))
		case 2:
			bi, _ := new(big.Float).SetFloat64(f).Int(nil) // the integer the ratio rounds towards
			return nInt(bi)
		}
		return nRat(n.z, n.d)
	case kF32, kF64:
		bf := new(big.Float).SetFloat64(n.f)
		switch g.rng.Intn(6) {
		case 5:
			if n.f != 0 {
				if n.k == kF32 {
					return nF32(float32(-n.f))
				}
				return nF64(-n.f)
			}
		case 0:
			return nF64(n.f)
		case 1:
			return nF32(float32(n.f))
		case 2:
			if bf.IsInt() {
				bi, _ := bf.Int(nil)
				return nInt(add(bi, int64(g.rng.Intn(3))-1))
			}
			r, _ := bf.Rat(nil)
			return nRat(r.Num(), r.Denom())
		case 3:
			if bf.IsInt() {
				bi, _ := bf.Int(nil)
				return nBig(bi)
			}
		}
		r, _ := bf.Rat(nil)
		return nRat(r.Num(), r.Denom())
	case kChr:
		return nChr([]rune(toggleCase(string(n.r), g.rng))[0])
	case kStr:
		if g.rng.Chance(15) {
			return nSym(n.s)
		}
		return nStr(toggleCase(n.s, g.rng))
	case kSym:
		if g.rng.Chance(15) {
			return nStr(n.s)
		}
		return nSym(toggleCase(n.s, g.rng))
	case kLst, kVec:
		kids := make([]*node, len(n.kids))
		copy(kids, n.kids)
		if len(kids) > 0 && g.rng.Chance(75) {
			i := g.rng.Intn(len(kids))
			kids[i] = g.variant(kids[i])
		}
		k := n.k
		if g.rng.Chance(10) {
			// the same elements in the other container
			if k == kLst {
				k = kVec
			} else {
				k = kLst
			}
		}
		if k == kVec {
			for i, c := range kids {
				if c.k == kTl {
					kids[i] = c.v
				}
			}
		}
		return &node{k: k, kids: kids}
	case kTl:
		v := g.variant(n.v)
		if v.k == kNil {
			v = nFix(0)
		}
		return nTl(v)
	}
	return n
}
