package c15

import (
	"fmt"
	"math/big"
	"strings"

	"verifharness/common"
)

// specSweep: the search for a failing input when the table translator (or anything else that instantiates the
// model) is broken. It needs neither the model nor the tables of the source: the implementation is compared with
// the SPECIFICATION (Spec.std_roman / Spec.std_english, written out here in Go over expectedTables, the same words
// as Spec.std_tables) on
//   - ~@R and ~:@R for every n in 1..3999, and the numbers just outside (an error is expected);
//   - ~R and ~:R for the numbers that print each entry of the word tables: 0..19, the tens, tens + units,
//     hundreds, 10^3k and its neighbours for every scale word, negative numbers.
// What is compared is what is proved in Coq of the unchanged code: the English text for every integer, an error from
// 10^66 on (C15_english_loop, since repo_fixes/C15-1..4), the Roman text everywhere, an error outside 1..3999 (C15_dirR_roman_all_integers, since repo_fixes/C15-5).
// Every difference is reported with its input.

func specRoman(old bool, n int) string {
	t := expectedTables["romanNumerals"]
	if old {
		t = expectedTables["oldRomanNumerals"]
	}
	at := func(r, d int) string {
		if d < len(t[r]) {
			return t[r][d]
		}
		return ""
	}
	return at(3, n/1000%10) + at(2, n/100%10) + at(1, n/10%10) + at(0, n%10)
}

func specTripleWords(t int) []string {
	one, teen, ten := expectedTables["cardinalOne"][0], expectedTables["cardinalTeen"][0], expectedTables["cardinalTen"][0]
	var ws []string
	if t/100 != 0 {
		ws = append(ws, one[t/100], "hundred")
	}
	r := t % 100
	switch {
	case r == 0:
	case r < 10:
		ws = append(ws, one[r])
	case r < 20:
		ws = append(ws, teen[r-10])
	default:
		ws = append(ws, ten[r/10-2])
		if r%10 != 0 {
			ws = append(ws, one[r%10])
		}
	}
	return ws
}

// the groups of three digits of n > 0, least significant first
func groupsOf(n *big.Int) []int {
	var gs []int
	m := new(big.Int).Set(n)
	k := big.NewInt(1000)
	for m.Sign() > 0 {
		r := new(big.Int)
		m.DivMod(m, k, r)
		gs = append(gs, int(r.Int64()))
	}
	return gs
}

func specOrdinalWord(w string) string {
	if w == "zero" {
		return "zeroth"
	}
	for i, c := range expectedTables["cardinalOne"][0] {
		if c == w && c != "" {
			return expectedTables["ordinalOne"][0][i]
		}
	}
	for i, c := range expectedTables["cardinalTeen"][0] {
		if c == w {
			return expectedTables["ordinalTeen"][0][i]
		}
	}
	for _, c := range expectedTables["cardinalTen"][0] {
		if c == w {
			return w[:len(w)-1] + "ieth"
		}
	}
	return w + "th"
}

// Spec.std_english; ok = false: no text (10^66 and beyond)
func specEnglish(ordinal bool, z *big.Int) (string, bool) {
	n := new(big.Int).Abs(z)
	if n.Cmp(pow10[66]) >= 0 {
		return "", false
	}
	var ws []string
	if n.Sign() == 0 {
		ws = []string{"zero"}
	} else {
		if z.Sign() < 0 {
			ws = append(ws, "negative")
		}
		gs := groupsOf(n)
		scales := expectedTables["cardinalTriples"][0]
		for k := len(gs) - 1; k >= 0; k-- {
			if gs[k] == 0 {
				continue
			}
			ws = append(ws, specTripleWords(gs[k])...)
			if k > 0 {
				ws = append(ws, scales[k])
			}
		}
	}
	if ordinal {
		ws[len(ws)-1] = specOrdinalWord(ws[len(ws)-1])
	}
	return strings.Join(ws, " "), true
}

func specSweep(ctx *common.Ctx) {
	reported := map[string]int{}
	violate := func(what, src, got, want string) {
		// the smallest inputs are the useful ones: at most 12 per directive, the rest is counted
		dir := src[:strings.Index(src, "R")+1]
		ctx.Hist("spec-sweep:differs:" + dir[len(`(format nil "`):])
		if reported[dir]++; reported[dir] <= 12 {
			ctx.Violate(what, src, got, want)
		}
	}
	report := func(src, want string, wantErr bool) {
		o := evalString(src)
		ctx.Meta.Evaluations++
		ctx.Hist("spec-sweep:evaluated")
		if wantErr {
			if o.err == "" {
				violate("specification sweep (the model could not be instantiated): ~R writes a text where the directive definition has none", src, show(o), "an error")
			}
			return
		}
		if o.err != "" || o.text != want {
			violate("specification sweep (the model could not be instantiated): ~R does not write the text of the directive definition", src, show(o), want)
		}
	}
	// Roman numerals, both styles, the whole domain and its borders
	for n := 1; n <= 3999; n++ {
		report(fmt.Sprintf(`(format nil "~@R" %d)`, n), specRoman(false, n), false)
		report(fmt.Sprintf(`(format nil "~:@R" %d)`, n), specRoman(true, n), false)
	}
	for _, n := range []int{0, -1, -3999, 4000, 4001, 9999, 10000, 39990} {
		report(fmt.Sprintf(`(format nil "~@R" %d)`, n), "", true)
		report(fmt.Sprintf(`(format nil "~:@R" %d)`, n), "", true)
	}
	// English: the numbers that print the table entries
	var zs []*big.Int
	add := func(z *big.Int) { zs = append(zs, z, new(big.Int).Neg(z)) }
	for n := int64(0); n <= 129; n++ {
		add(big.NewInt(n))
	}
	for h := int64(1); h <= 9; h++ {
		for _, r := range []int64{0, 1, 7, 10, 11, 12, 19, 21, 45, 99} {
			add(big.NewInt(h*100 + r))
		}
	}
	for k := 1; k <= 22; k++ {
		p := pow10[3*k]
		for _, m := range []int64{1, 2, 11, 19, 21, 100, 101, 115, 999} {
			mp := new(big.Int).Mul(p, big.NewInt(m))
			add(mp)
			for _, d := range []int64{1, 3, 12, 15, 101, 999} {
				add(new(big.Int).Add(mp, big.NewInt(d)))
			}
		}
		add(new(big.Int).Sub(p, big.NewInt(1)))
		if k >= 2 { // two scale words in one number
			add(new(big.Int).Add(new(big.Int).Mul(p, big.NewInt(3)), new(big.Int).Mul(pow10[3*(k-1)], big.NewInt(14))))
		}
	}
	seen := map[string]bool{}
	for _, z := range zs {
		if seen[z.String()] {
			continue
		}
		seen[z.String()] = true
		for _, ordinal := range []bool{false, true} {
			dir := "~R"
			if ordinal {
				dir = "~:R"
			}
			want, ok := specEnglish(ordinal, z)
			report(fmt.Sprintf(`(format nil "%s" %s)`, dir, z.String()), want, !ok)
		}
	}
}
