package c15

import (
	"fmt"
	"go/ast"
	"go/parser"
	"go/token"
	"os"
	"path/filepath"
	"strconv"
	"strings"

	"verifharness/common"
)

// The translator: the Roman / cardinal / ordinal word tables and dirScanMap are literals in
// pkg/cl/control.go; they are re-read from the source on every run and written as a Gallina `tables`
// record (coq/gen/C15/Tables.v). The model M of the correspondence runs over THESE tables.

func constString(e ast.Expr) (string, bool) {
	switch t := e.(type) {
	case *ast.BasicLit:
		if t.Kind == token.STRING {
			s, err := strconv.Unquote(t.Value)
			return s, err == nil
		}
	case *ast.BinaryExpr:
		if t.Op == token.ADD {
			a, ok1 := constString(t.X)
			b, ok2 := constString(t.Y)
			return a + b, ok1 && ok2
		}
	case *ast.ParenExpr:
		return constString(t.X)
	}
	return "", false
}

// strings of a (possibly nested) composite literal, row by row; arrays are padded to their length with "".
func compositeRows(e ast.Expr) (rows [][]string, ok bool) {
	cl, isCl := e.(*ast.CompositeLit)
	if !isCl {
		return nil, false
	}
	flat := []string{}
	nested := false
	for _, el := range cl.Elts {
		if sub, isSub := el.(*ast.CompositeLit); isSub {
			nested = true
			r, ok := compositeRows(sub)
			if !ok || len(r) != 1 {
				return nil, false
			}
			rows = append(rows, r[0])
			continue
		}
		s, ok := constString(el)
		if !ok {
			return nil, false
		}
		flat = append(flat, s)
	}
	if !nested {
		rows = [][]string{flat}
	}
	return rows, true
}

func gText(s string) string { return "tx " + common.GStr(s) }

func gTexts(ss []string, pad int) string {
	items := []string{}
	for _, s := range ss {
		items = append(items, gText(s))
	}
	for len(items) < pad {
		items = append(items, gText(""))
	}
	return "[" + strings.Join(items, "; ") + "]"
}

// translatorFailed writes a Tables.v that does not compile and says why: ./check then reports the broken
// translation as a violation WITHOUT a failing input (the table theorems cannot be re-proved), and Run goes on with
// the comparison of the implementation against the specification tables (specSweep), which has failing inputs.
func translatorFailed(ctx *common.Ctx, found map[string][][]string, problem string) (map[string][][]string, string) {
	clean := strings.Map(func(r rune) rune {
		if r == '"' || r == '\\' || r < ' ' || r > '~' {
			return '\''
		}
		return r
	}, problem)
	src := "(* regenerated from pkg/cl/control.go on every run by harness/c15: the translation FAILED *)\n" +
		"Goal False. fail \"" + clean + "\".\n"
	if err := os.WriteFile(filepath.Join(ctx.OutDir, "Tables.v"), []byte(src), 0o644); err != nil {
		panic(err)
	}
	reportChangedEntries(ctx, found)
	return found, problem
}

// writeTables returns the tables it found (for the generator's sweep over their entries) and, when a table could not be
// read as a literal, what is wrong (then no usable Tables.v exists and the model cannot be instantiated).
func writeTables(ctx *common.Ctx) (map[string][][]string, string) {
	fset := token.NewFileSet()
	f, err := parser.ParseFile(fset, common.RepoDir()+"/pkg/cl/control.go", nil, 0)
	found := map[string][][]string{}
	scan := ""
	if err != nil {
		return translatorFailed(ctx, found, "c15 translator: cannot parse pkg/cl/control.go: "+err.Error())
	} else {
		for _, d := range f.Decls {
			gd, ok := d.(*ast.GenDecl)
			if !ok || (gd.Tok != token.CONST && gd.Tok != token.VAR) {
				continue
			}
			for _, sp := range gd.Specs {
				vs := sp.(*ast.ValueSpec)
				for i, n := range vs.Names {
					if i >= len(vs.Values) {
						continue
					}
					if n.Name == "dirScanMap" {
						scan, _ = constString(vs.Values[i])
					} else if rows, ok := compositeRows(vs.Values[i]); ok {
						found[n.Name] = rows
					}
				}
			}
		}
	}
	need := []struct {
		goName, field string
		rows, pad      int
	}{
		{"romanNumerals", "t_roman", 4, 10}, {"oldRomanNumerals", "t_oldroman", 4, 10}, {"cardinalTriples", "t_triples", 1, 0},
		{"cardinalOne", "t_one", 1, 10}, {"cardinalTeen", "t_teen", 1, 10}, {"cardinalTen", "t_ten", 1, 10},
		{"ordinalOne", "t_ordone", 1, 10}, {"ordinalTeen", "t_ordteen", 1, 10},
	}
	var sb strings.Builder
	sb.WriteString("(* regenerated from pkg/cl/control.go on every run by harness/c15 *)\nFrom C15 Require Import Types.\nOpen Scope string_scope.\n")
	sb.WriteString("Definition gen_tables : tables := {|\n")
	for _, nd := range need {
		rows, ok := found[nd.goName]
		if !ok || len(rows) != nd.rows {
			// the source no longer has the table under this name / shape as a literal (for instance after a renaming, or
			// when it is computed at initialisation): the model cannot be instantiated; this is NOT evidence of a wrong
			// output, the search for one is specSweep
			delete(found, nd.goName)
			return translatorFailed(ctx, found, fmt.Sprintf("c15 translator: table %s not found as a literal in pkg/cl/control.go (or of another shape: %d rows, expected %d); the translator must be adapted to the new source layout", nd.goName, len(rows), nd.rows))
		}
		if nd.rows == 1 {
			fmt.Fprintf(&sb, "  %s := %s;\n", nd.field, gTexts(rows[0], nd.pad))
		} else {
			var rs []string
			for _, r := range rows {
				rs = append(rs, gTexts(r, nd.pad))
			}
			fmt.Fprintf(&sb, "  %s := [%s];\n", nd.field, strings.Join(rs, ";\n    "))
		}
	}
	if len(scan) != 256 {
		return translatorFailed(ctx, found, fmt.Sprintf("c15 translator: dirScanMap not found in pkg/cl/control.go (or not 256 bytes: %d); the translator must be adapted to the new source layout", len(scan)))
	}
	bits := make([]string, 256)
	for i := 0; i < 256; i++ {
		bits[i] = common.GBool(scan[i] == 'x')
	}
	fmt.Fprintf(&sb, "  t_scan := [%s]\n|}.\n", strings.Join(bits, ";"))
	if err := os.WriteFile(filepath.Join(ctx.OutDir, "Tables.v"), []byte(sb.String()), 0o644); err != nil {
		panic(err)
	}
	reportChangedEntries(ctx, found)
	return found, ""
}

// the expected word tables (the same as Spec.std_tables): an entry of the source that differs is reported with
// an input that prints it — the model of the correspondence follows the regenerated tables, so without this a
// changed word would only show as a failed table theorem. (cardinalTriples[6] was "quantillion" until repo_fixes/C15-1.)
var expectedTables = map[string][][]string{
	"romanNumerals": {{"", "I", "II", "III", "IV", "V", "VI", "VII", "VIII", "IX"}, {"", "X", "XX", "XXX", "XL", "L", "LX", "LXX", "LXXX", "XC"},
		{"", "C", "CC", "CCC", "CD", "D", "DC", "DCC", "DCCC", "CM"}, {"", "M", "MM", "MMM"}},
	"oldRomanNumerals": {{"", "I", "II", "III", "IIII", "V", "VI", "VII", "VIII", "VIIII"}, {"", "X", "XX", "XXX", "XXXX", "L", "LX", "LXX", "LXXX", "LXXXX"},
		{"", "C", "CC", "CCC", "CCCC", "D", "DC", "DCC", "DCCC", "DCCCC"}, {"", "M", "MM", "MMM"}},
	"cardinalTriples": {{"", "thousand", "million", "billion", "trillion", "quadrillion", "quintillion", "sextillion", "septillion", "octillion", "nonillion",
		"decillion", "undecillion", "duodecillion", "tredecillion", "quattuordecillion", "quindecillion", "sexdecillion", "septendecillion", "octodecillion",
		"novemdecillion", "vigintillion"}},
	"cardinalOne":  {{"", "one", "two", "three", "four", "five", "six", "seven", "eight", "nine"}},
	"cardinalTeen": {{"ten", "eleven", "twelve", "thirteen", "fourteen", "fifteen", "sixteen", "seventeen", "eighteen", "nineteen"}},
	"cardinalTen":  {{"twenty", "thirty", "forty", "fifty", "sixty", "seventy", "eighty", "ninety"}},
	"ordinalOne":   {{"", "first", "second", "third", "fourth", "fifth", "sixth", "seventh", "eighth", "ninth"}},
	"ordinalTeen":  {{"tenth", "eleventh", "twelfth", "thirteenth", "fourteenth", "fifteenth", "sixteenth", "seventeenth", "eighteenth", "nineteenth"}},
}

func reportChangedEntries(ctx *common.Ctx, found map[string][][]string) {
	at := func(rows [][]string, r, i int) string {
		if r < len(rows) && i < len(rows[r]) {
			return rows[r][i]
		}
		return ""
	}
	for _, name := range common.SortedKeys(expectedTables) {
		if _, ok := found[name]; !ok {
			continue // not read from the source: nothing to compare entry by entry (see specSweep)
		}
		exp, got := expectedTables[name], found[name]
		for r := 0; r < len(exp) || r < len(got); r++ {
			n := 0
			if r < len(exp) {
				n = len(exp[r])
			}
			if r < len(got) && len(got[r]) > n {
				n = len(got[r])
			}
			for i := 0; i < n; i++ {
				e, g := at(exp, r, i), at(got, r, i)
				if e == g {
					continue
				}
				// an input that prints the entry
				src := ""
				pow := func(k int) string { return "1" + strings.Repeat("0", k) }
				switch name {
				case "romanNumerals":
					src = fmt.Sprintf(`(format nil "~@R" %d%s)`, i, strings.Repeat("0", r))
				case "oldRomanNumerals":
					src = fmt.Sprintf(`(format nil "~:@R" %d%s)`, i, strings.Repeat("0", r))
				case "cardinalTriples":
					src = fmt.Sprintf(`(format nil "~R" %s1)`, pow(3 * i)[:3*i])
					if i == 0 {
						src = `(format nil "~R" 1)`
					}
				case "cardinalOne":
					src = fmt.Sprintf(`(format nil "~R" %d)`, i)
				case "cardinalTeen":
					src = fmt.Sprintf(`(format nil "~R" %d)`, 10+i)
				case "cardinalTen":
					src = fmt.Sprintf(`(format nil "~R" %d)`, (i+2)*10+1)
				case "ordinalOne":
					src = fmt.Sprintf(`(format nil "~:R" %d)`, i)
				case "ordinalTeen":
					src = fmt.Sprintf(`(format nil "~:R" %d)`, 10+i)
				}
				o := evalString(src)
				ctx.Violate(fmt.Sprintf("word table %s[%d][%d] of pkg/cl/control.go is %q, expected %q", name, r, i, g, e), src, show(o), "a text with "+fmt.Sprintf("%q", e))
			}
		}
	}
}
