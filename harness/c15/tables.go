package c15

import (
	"fmt"
	"go/ast"
	"go/parser"
	"go/token"
	"os"
	"path/filepath"
	"strconv"
	"strings"

	"verifharness/common"
)

// The translator: the Roman / cardinal / ordinal word tables and dirScanMap are literals in
// pkg/cl/control.go; they are re-read from the source on every run and written as a Gallina `tables`
// record (coq/gen/C15/Tables.v). The model M of the correspondence runs over THESE tables.

func constString(e ast.Expr) (string, bool) {
	switch t := e.(type) {
	case *ast.BasicLit:
		if t.Kind == token.STRING {
			s, err := strconv.Unquote(t.Value)
			return s, err == nil
		}
	case *ast.BinaryExpr:
		if t.Op == token.ADD {
			a, ok1 := constString(t.X)
			b, ok2 := constString(t.Y)
			return a + b, ok1 && ok2
		}
	case *ast.ParenExpr:
		return constString(t.X)
	}
	return "", false
}

// strings of a (possibly nested) composite literal, row by row; arrays are padded to their length with "".
func compositeRows(e ast.Expr) (rows [][]string, ok bool) {
	cl, isCl := e.(*ast.CompositeLit)
	if !isCl {
		return nil, false
	}
	flat := []string{}
	nested := false
	for _, el := range cl.Elts {
		if sub, isSub := el.(*ast.CompositeLit); isSub {
			nested = true
			r, ok := compositeRows(sub)
			if !ok || len(r) != 1 {
				return nil, false
			}
			rows = append(rows, r[0])
			continue
		}
		s, ok := constString(el)
		if !ok {
			return nil, false
		}
		flat = append(flat, s)
	}
	if !nested {
		rows = [][]string{flat}
	}
	return rows, true
}

func gText(s string) string { return "tx " + common.GStr(s) }

func gTexts(ss []string, pad int) string {
	items := []string{}
	for _, s := range ss {
		items = append(items, gText(s))
	}
	for len(items) < pad {
		items = append(items, gText(""))
	}
	return "[" + strings.Join(items, "; ") + "]"
}

// writeTables returns the tables it found (for the generator's sweep over their entries).
func writeTables(ctx *common.Ctx) map[string][][]string {
	fset := token.NewFileSet()
	f, err := parser.ParseFile(fset, common.RepoDir()+"/pkg/cl/control.go", nil, 0)
	found := map[string][][]string{}
	scan := ""
	if err != nil {
		ctx.Violate("translator failed to parse pkg/cl/control.go", nil, err.Error(), nil)
	} else {
		for _, d := range f.Decls {
			gd, ok := d.(*ast.GenDecl)
			if !ok || (gd.Tok != token.CONST && gd.Tok != token.VAR) {
				continue
			}
			for _, sp := range gd.Specs {
				vs := sp.(*ast.ValueSpec)
				for i, n := range vs.Names {
					if i >= len(vs.Values) {
						continue
					}
					if n.Name == "dirScanMap" {
						scan, _ = constString(vs.Values[i])
					} else if rows, ok := compositeRows(vs.Values[i]); ok {
						found[n.Name] = rows
					}
				}
			}
		}
	}
	need := []struct {
		goName, field string
		rows, pad      int
	}{
		{"romanNumerals", "t_roman", 4, 10}, {"oldRomanNumerals", "t_oldroman", 4, 10}, {"cardinalTriples", "t_triples", 1, 0},
		{"cardinalOne", "t_one", 1, 10}, {"cardinalTeen", "t_teen", 1, 10}, {"cardinalTen", "t_ten", 1, 10},
		{"ordinalOne", "t_ordone", 1, 10}, {"ordinalTeen", "t_ordteen", 1, 10},
	}
	var sb strings.Builder
	sb.WriteString("(* regenerated from pkg/cl/control.go on every run by harness/c15 *)\nFrom C15 Require Import Types.\nOpen Scope string_scope.\n")
	sb.WriteString("Definition gen_tables : tables := {|\n")
	for _, nd := range need {
		rows, ok := found[nd.goName]
		if !ok || len(rows) != nd.rows {
			ctx.Violate("table not found in pkg/cl/control.go (or of another shape)", nd.goName, len(rows), nd.rows)
			rows = make([][]string, nd.rows)
		}
		if nd.rows == 1 {
			fmt.Fprintf(&sb, "  %s := %s;\n", nd.field, gTexts(rows[0], nd.pad))
		} else {
			var rs []string
			for _, r := range rows {
				rs = append(rs, gTexts(r, nd.pad))
			}
			fmt.Fprintf(&sb, "  %s := [%s];\n", nd.field, strings.Join(rs, ";\n    "))
		}
	}
	if len(scan) != 256 {
		ctx.Violate("dirScanMap not found in pkg/cl/control.go (or not 256 bytes)", nil, len(scan), 256)
		scan = strings.Repeat(".", 256)
	}
	bits := make([]string, 256)
	for i := 0; i < 256; i++ {
		bits[i] = common.GBool(scan[i] == 'x')
	}
	fmt.Fprintf(&sb, "  t_scan := [%s]\n|}.\n", strings.Join(bits, ";"))
	if err := os.WriteFile(filepath.Join(ctx.OutDir, "Tables.v"), []byte(sb.String()), 0o644); err != nil {
		panic(err)
	}
	return found
}
