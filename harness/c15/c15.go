// Package c15: control strings built from the documented format directives, with their arguments, are
// run through (format nil ...), (format t ...) and (format stream ...) of the real interpreter; the text
// (or the fact that an error was signalled) is written next to the control string and the arguments as
// Gallina cases for coq/C15/Corr.v. ~A / ~S against princ / prin1 and the three destinations against each
// other are compared here, on the implementation alone.
package c15

import (
	"fmt"
	"math/big"
	"os"
	"strings"
	"time"

	"github.com/ohler55/slip"
	"verifharness/common"
)

// ---- argument values ---------------------------------------------------------------------------

type kind int

const (
	kInt kind = iota
	kStr
	kChr
	kSym
	kNil
	kTrue
	kList
)

type val struct {
	k kind
	z *big.Int
	s string
	c byte
	l []val
}

func vInt(n int64) val       { return val{k: kInt, z: big.NewInt(n)} }
func vBig(z *big.Int) val    { return val{k: kInt, z: z} }
func vStr(s string) val      { return val{k: kStr, s: s} }
func vChr(c byte) val        { return val{k: kChr, c: c} }
func vSym(s string) val      { return val{k: kSym, s: s} }
func vList(l ...val) val     { return val{k: kList, l: l} }
func vInts(ns ...int64) val {
	var l []val
	for _, n := range ns {
		l = append(l, vInt(n))
	}
	return val{k: kList, l: l}
}

var vNil = val{k: kNil}
var vTrue = val{k: kTrue}

// inner: Lisp text of the value inside a quoted list
func (v val) inner() string {
	switch v.k {
	case kInt:
		return v.z.String()
	case kStr:
		return `"` + v.s + `"`
	case kChr:
		if v.c == ' ' {
			return `#\Space`
		}
		return `#\` + string(v.c)
	case kSym:
		return v.s
	case kNil:
		return "nil"
	case kTrue:
		return "t"
	default:
		var xs []string
		for _, e := range v.l {
			xs = append(xs, e.inner())
		}
		return "(" + strings.Join(xs, " ") + ")"
	}
}

// lisp: the value as an argument form
func (v val) lisp() string {
	if v.k == kSym || v.k == kList {
		return "'" + v.inner()
	}
	return v.inner()
}

func gChar(c byte) string {
	if c == '"' {
		return `""""%char`
	}
	return `"` + string(c) + `"%char`
}

func (v val) coq() string {
	switch v.k {
	case kInt:
		return "VInt " + common.GZs(v.z.String())
	case kStr:
		return "VStr (tx " + common.GStr(v.s) + ")"
	case kChr:
		return "VChr " + gChar(v.c)
	case kSym:
		return "VSym (tx " + common.GStr(v.s) + ")"
	case kNil:
		return "VNil"
	case kTrue:
		return "VTrue"
	default:
		var xs []string
		for _, e := range v.l {
			xs = append(xs, e.coq())
		}
		return "VList [" + strings.Join(xs, "; ") + "]"
	}
}

// ---- the generator ------------------------------------------------------------------------------

type gen struct {
	ctx *common.Ctx
	r   *common.Rng
}

var pow10 = func() []*big.Int {
	p := []*big.Int{big.NewInt(1)}
	for i := 1; i <= 70; i++ {
		p = append(p, new(big.Int).Mul(p[i-1], big.NewInt(10)))
	}
	return p
}()

// an integer of a random magnitude: small, around powers of ten and of two, fixnum limits, up to 10^40
func (g *gen) integer() *big.Int {
	var z *big.Int
	switch x := g.r.Intn(100); {
	case x < 8:
		z = big.NewInt(int64(g.r.Intn(3))) // 0 1 2
	case x < 30:
		z = big.NewInt(int64(g.r.Intn(1000)))
	case x < 45:
		z = big.NewInt(int64(g.r.Intn(10000000)))
	case x < 60: // around a power of ten: the grouping boundaries
		z = new(big.Int).Add(pow10[g.r.Intn(22)], big.NewInt(int64(g.r.Intn(3)-1)))
	case x < 70: // around a power of two: the other bases
		z = new(big.Int).Lsh(big.NewInt(1), uint(g.r.Intn(70)))
		z.Add(z, big.NewInt(int64(g.r.Intn(3)-1)))
	case x < 78: // fixnum limits
		z = new(big.Int).Lsh(big.NewInt(1), 63)
		z.Add(z, big.NewInt(int64(g.r.Intn(5)-2)))
	default: // d random digits, d up to 40
		d := 1 + g.r.Intn(40)
		z = new(big.Int)
		for i := 0; i < d; i++ {
			z.Mul(z, big.NewInt(10))
			z.Add(z, big.NewInt(int64(g.r.Intn(10))))
		}
	}
	if g.r.Chance(30) {
		z.Neg(z)
	}
	return z
}

const letters = "abcdefghijklmnopqrstuvwxyzABCDEFGHIJKLMNOPQRSTUVWXYZ"

func (g *gen) word(n int, mixed bool) string {
	var b []byte
	for i := 0; i < n; i++ {
		if mixed {
			b = append(b, letters[g.r.Intn(52)])
		} else {
			b = append(b, letters[g.r.Intn(26)])
		}
	}
	return string(b)
}

// a string argument: words of letters and digits separated by blanks (no characters that need escaping);
// some with ' . : _ inside a word (each ends a word for ~:( and ~@( )
func (g *gen) str() string {
	n := g.r.Intn(4)
	var ws []string
	for i := 0; i < n; i++ {
		w := g.word(1+g.r.Intn(4), true)
		if g.r.Chance(15) {
			w = fmt.Sprint(g.r.Intn(20)) + w
		}
		if g.r.Chance(10) {
			w = w + "-" + g.word(2, true)
		}
		if g.r.Chance(12) {
			w = w + common.Pick(g.r, []string{"'", ".", ":", "_"}) + g.word(1+g.r.Intn(2), true)
		}
		ws = append(ws, w)
	}
	s := strings.Join(ws, " ")
	if g.r.Chance(5) {
		s = " " + s
	}
	return s
}

var charPool = []byte("aZ09 x+-*q._|") // characters slip's reader accepts after #\

func (g *gen) atom() val {
	switch x := g.r.Intn(100); {
	case x < 45:
		return vBig(g.integer())
	case x < 65:
		return vStr(g.str())
	case x < 75:
		// (the one-letter symbol t is the constant, and slip's reader turns 't into another symbol)
		name := g.word(2+g.r.Intn(2), false) + []string{"", "", "1", "2"}[g.r.Intn(4)]
		if name == "nil" { // 'nil is the empty list, not a symbol of its own
			return vNil
		}
		return vSym(name)
	case x < 83:
		return vChr(common.Pick(g.r, charPool))
	case x < 90:
		return vNil
	case x < 94:
		return vTrue
	default:
		return vList() // the empty list object
	}
}

func (g *gen) list(maxLen int, depth int) val {
	n := g.r.Intn(maxLen + 1)
	var l []val
	for i := 0; i < n; i++ {
		if depth > 0 && g.r.Chance(15) {
			l = append(l, g.list(3, depth-1))
		} else {
			l = append(l, g.atom())
		}
	}
	return vList(l...)
}

func (g *gen) value() val {
	if g.r.Chance(22) {
		return g.list(4, 1)
	}
	return g.atom()
}

// literal text between directives
func (g *gen) literal() string {
	const pool = "abcXYZ 019,.;:-+=()[]{}<>|!?/*&%$#@^_'"
	n := g.r.Intn(5)
	var b []byte
	for i := 0; i < n; i++ {
		if g.r.Chance(70) {
			b = append(b, letters[g.r.Intn(52)])
		} else {
			b = append(b, pool[g.r.Intn(len(pool))])
		}
	}
	return string(b)
}

// a piece of a control string together with the arguments it expects
type piece struct {
	ctl  string
	args []val
}

func cat(ps ...piece) piece {
	var out piece
	for _, p := range ps {
		out.ctl += p.ctl
		out.args = append(out.args, p.args...)
	}
	return out
}

// a numeric prefix parameter with the given candidate values: written out, taken with v, or #;
// returns its text and the argument v consumes
func (g *gen) numParam(cands []int, allowHash bool) (string, []val) {
	n := common.Pick(g.r, cands)
	switch x := g.r.Intn(100); {
	case x < 70:
		g.ctx.Hist("param:literal")
		return fmt.Sprint(n), nil
	case x < 92 || !allowHash:
		g.ctx.Hist("param:v")
		letter := "v"
		if x%5 == 0 { // V is v (derived from the draw already made: the streams of the seeds stay what they were)
			letter = "V"
			g.ctx.Hist("param:V")
		}
		if g.r.Chance(8) {
			return letter, []val{vNil} // nil: the default
		}
		return letter, []val{vInt(int64(n))}
	default:
		g.ctx.Hist("param:#")
		return "#", nil
	}
}

var padChars = []byte("0_ .-x*~(%&,:@{") // the character after ' is taken whatever it is: directive characters, comma, modifiers
var commaChars = []byte("._ ,'|;]")

func (g *gen) chrParam(pool []byte) (string, []val) {
	c := common.Pick(g.r, pool)
	if g.r.Chance(75) {
		g.ctx.Hist("param:'c")
		return "'" + string(c), nil
	}
	g.ctx.Hist("param:v")
	if strings.IndexByte("(){}[];%&'`", c) >= 0 {
		c = '_' // slip's reader does not read these after #\ (not this property's subject); 'c covers them
	}
	if c == '.' || c == ' ' {
		g.ctx.Hist("param:V")
		return "V", []val{vChr(c)}
	}
	return "v", []val{vChr(c)}
}

func mods(r *common.Rng) string { return []string{"", ":", "@", ":@", "@:"}[r.Intn(5)] }

// join parameters, dropping trailing empty ones
func joinParams(ps []string) string {
	for len(ps) > 0 && ps[len(ps)-1] == "" {
		ps = ps[:len(ps)-1]
	}
	return strings.Join(ps, ",")
}

// ~mincol,padchar,commachar,comma-intervalD and B O X, ~radix,...R
func (g *gen) intDir(arg *val) piece {
	var p piece
	ps := make([]string, 4)
	if g.r.Chance(55) {
		s, a := g.numParam([]int{0, 1, 3, 5, 8, 12, 20, 33}, true)
		ps[0], p.args = s, append(p.args, a...)
	}
	if g.r.Chance(35) {
		s, a := g.chrParam(padChars)
		ps[1], p.args = s, append(p.args, a...)
	}
	if g.r.Chance(30) {
		s, a := g.chrParam(commaChars)
		ps[2], p.args = s, append(p.args, a...)
	}
	if g.r.Chance(35) {
		s, a := g.numParam([]int{1, 2, 3, 4, 5, 7}, true)
		ps[3], p.args = s, append(p.args, a...)
	}
	m := mods(g.r)
	if ps[2] != "" || ps[3] != "" {
		if g.r.Chance(80) && !strings.Contains(m, ":") {
			m = ":" + m
		}
	}
	d := common.Pick(g.r, []string{"D", "D", "D", "B", "O", "X", "d", "x", "R"})
	prm := joinParams(ps)
	if d == "R" {
		radix := fmt.Sprint(2 + g.r.Intn(35))
		if g.r.Chance(30) {
			radix = common.Pick(g.r, []string{"2", "8", "10", "16", "36"})
		}
		if prm == "" {
			prm = radix
		} else {
			prm = radix + "," + prm
		}
	}
	g.ctx.Hist("dir:" + strings.ToUpper(d))
	p.ctl = "~" + prm + m + d
	if arg != nil {
		p.args = append(p.args, *arg)
	} else if g.r.Chance(93) {
		p.args = append(p.args, vBig(g.integer()))
	} else {
		p.args = append(p.args, g.value())
	}
	if arg == nil && strings.Contains(prm, "#") {
		p.args = append(p.args, g.surplus()...)
	}
	return p
}

// arguments nobody takes: they make the value of a # parameter differ from case to case
func (g *gen) surplus() []val {
	var out []val
	for n := g.r.Intn(4); n > 0; n-- {
		out = append(out, vInt(int64(g.r.Intn(50))))
	}
	return out
}

// ~R ~:R ~@R ~:@R without parameters
func (g *gen) wordsDir() piece {
	m := common.Pick(g.r, []string{"", "", ":", ":", "@", ":@"})
	var z *big.Int
	if strings.Contains(m, "@") {
		z = big.NewInt(int64(1 + g.r.Intn(3999)))
		if g.r.Chance(10) {
			z = big.NewInt(int64(common.Pick(g.r, []int{0, -1, 3999, 4000, 4999, 5000, 10000})))
		}
	} else {
		z = g.cardinal()
	}
	g.ctx.Hist("dir:R" + m)
	return piece{"~" + m + "R", []val{vBig(z)}}
}

// numbers for the English renderer: every magnitude up to 10^66 and a little beyond, zero groups, tens with
// and without units
func (g *gen) cardinal() *big.Int {
	z := new(big.Int)
	switch x := g.r.Intn(100); {
	case x < 25:
		z.SetInt64(int64(g.r.Intn(1000)))
	case x < 40:
		z.SetInt64(int64(g.r.Intn(1000000)))
	case x < 47: // k * 10^e
		z.Mul(big.NewInt(int64(1+g.r.Intn(999))), pow10[g.r.Intn(67)])
	case x < 50: // around the limits of the fixnum representation (2^63) and of the narrower widths, both sides
		z.Lsh(big.NewInt(1), uint(common.Pick(g.r, []int{31, 32, 63, 63, 63, 64})))
		z.Add(z, big.NewInt(int64(g.r.Intn(5)-2)))
		if g.r.Chance(50) {
			z.Neg(z)
		}
	default: // random groups, some of them zero or round
		n := 1 + g.r.Intn(23)
		for i := 0; i < n; i++ {
			t := g.r.Intn(1000)
			switch g.r.Intn(6) {
			case 0:
				t = 0
			case 1:
				t = t / 10 * 10
			case 2:
				t = t / 100 * 100
			}
			z.Mul(z, big.NewInt(1000))
			z.Add(z, big.NewInt(int64(t)))
		}
	}
	if g.r.Chance(12) {
		z.Neg(z)
	}
	return z
}

// ~mincol,colinc,minpad,padcharA and S
func (g *gen) asDir(arg *val) piece {
	var p piece
	ps := make([]string, 4)
	if g.r.Chance(40) {
		s, a := g.numParam([]int{0, 1, 4, 7, 10, 15}, true)
		ps[0], p.args = s, append(p.args, a...)
	}
	if g.r.Chance(20) {
		s, a := g.numParam([]int{1, 2, 3, 5}, true)
		ps[1], p.args = s, append(p.args, a...)
	}
	if g.r.Chance(20) {
		s, a := g.numParam([]int{0, 1, 2, 4}, true)
		ps[2], p.args = s, append(p.args, a...)
	}
	if g.r.Chance(25) {
		s, a := g.chrParam(padChars)
		ps[3], p.args = s, append(p.args, a...)
	}
	d := common.Pick(g.r, []string{"A", "A", "S", "a", "s"})
	g.ctx.Hist("dir:" + strings.ToUpper(d))
	p.ctl = "~" + joinParams(ps) + mods(g.r) + d
	if arg != nil {
		p.args = append(p.args, *arg)
	} else {
		p.args = append(p.args, g.value())
		if strings.Contains(p.ctl, "#") {
			p.args = append(p.args, g.surplus()...)
		}
	}
	return p
}

// a directive that consumes exactly one argument (used as iteration bodies)
func (g *gen) oneArgDir(depth int, arg *val) piece {
	switch x := g.r.Intn(100); {
	case x < 45:
		return g.asDir(arg)
	case x < 70:
		return g.intDir(arg)
	case x < 80 && arg == nil:
		return g.wordsDir()
	case x < 88 && arg == nil:
		g.ctx.Hist("dir:C")
		return piece{"~" + mods(g.r) + "C", []val{vChr(common.Pick(g.r, charPool))}}
	default:
		return g.asDir(arg)
	}
}

func (g *gen) simpleDir() piece {
	n := ""
	if g.r.Chance(20) {
		// a fresh-line request right after a newline, with a count
		g.ctx.Hist("dir:&")
		return piece{"~" + common.Pick(g.r, []string{"", "2", "1"}) + "%~" + common.Pick(g.r, []string{"", "0", "1", "2", "3"}) + "&", nil}
	}
	if g.r.Chance(45) {
		s, a := g.numParam([]int{0, 1, 2, 3}, true)
		d := common.Pick(g.r, []string{"%", "&", "~"})
		g.ctx.Hist("dir:" + d)
		return piece{"~" + s + d, a}
	}
	d := common.Pick(g.r, []string{"%", "&", "~"})
	g.ctx.Hist("dir:" + d)
	return piece{"~" + n + d, nil}
}

func (g *gen) tabDir() piece {
	var p piece
	ps := make([]string, 2)
	if g.r.Chance(70) {
		s, a := g.numParam([]int{0, 1, 2, 4, 6, 10, 14}, true)
		ps[0], p.args = s, a
	}
	if g.r.Chance(50) {
		s, a := g.numParam([]int{1, 1, 2, 3, 4, 8, 0}, true)
		ps[1], p.args = s, append(p.args, a...)
	}
	m := common.Pick(g.r, []string{"", "", "@"})
	g.ctx.Hist("dir:T" + m)
	p.ctl = "~" + joinParams(ps) + m + "T"
	return p
}

// a sequence of up to n directives with literal text in between
func (g *gen) seq(n, depth int) piece {
	var out piece
	k := 1 + g.r.Intn(n)
	for i := 0; i < k; i++ {
		if g.r.Chance(60) {
			out.ctl += g.literal()
		}
		out = cat(out, g.directive(depth))
	}
	if g.r.Chance(40) {
		out.ctl += g.literal()
	}
	return out
}

func (g *gen) directive(depth int) piece {
	x := g.r.Intn(100)
	if depth >= 2 && x >= 52 {
		x = g.r.Intn(52)
	}
	switch {
	case x < 14:
		return g.asDir(nil)
	case x < 26:
		return g.intDir(nil)
	case x < 32:
		return g.wordsDir()
	case x < 36:
		g.ctx.Hist("dir:C")
		return piece{"~" + mods(g.r) + "C", []val{vChr(common.Pick(g.r, charPool))}}
	case x < 42:
		return g.simpleDir()
	case x < 47:
		return g.tabDir()
	case x < 52:
		return g.pluralDir()
	case x < 60:
		return g.moveDir(depth)
	case x < 68:
		return g.caseDir(depth)
	case x < 79:
		return g.condDir(depth)
	case x < 93:
		return g.iterDir(depth)
	default:
		return g.procDir(depth)
	}
}

func (g *gen) pluralDir() piece {
	n := int64(common.Pick(g.r, []int{0, 1, 1, 2, 5}))
	m := mods(g.r)
	g.ctx.Hist("dir:P")
	if strings.Contains(m, ":") {
		return piece{"~D thing~" + m + "P", []val{vInt(n)}}
	}
	if g.r.Chance(15) {
		return piece{"~" + m + "P", []val{g.atom()}}
	}
	return piece{"~" + m + "P", []val{vInt(n)}}
}

// ~* in its three forms around directives that print what the cursor reaches
func (g *gen) moveDir(depth int) piece {
	g.ctx.Hist("dir:*")
	a, b, c := g.atom(), g.atom(), g.atom()
	pr := func() string { return common.Pick(g.r, []string{"~A", "~S", "~A"}) }
	if g.r.Chance(30) {
		// the same integer looked at twice (a directive must leave its argument as it found it)
		z := vBig(g.integer())
		if g.r.Chance(50) {
			z = vBig(new(big.Int).Neg(new(big.Int).Lsh(big.NewInt(1), uint(63+g.r.Intn(40)))))
		}
		d1, d2 := g.intDir(&z), g.intDir(&z)
		for len(d1.args) != 1 || len(d2.args) != 1 {
			d1, d2 = g.intDir(&z), g.intDir(&z)
		}
		switch g.r.Intn(4) {
		case 0:
			return piece{d1.ctl + "~:*|" + d2.ctl, []val{z}}
		case 1:
			return piece{d1.ctl + "~0@*|" + d2.ctl + "~:*|~A", []val{z}}
		case 2:
			return piece{"~{" + d1.ctl + "~:*=" + d2.ctl + " ~}", []val{vList(z, vBig(new(big.Int).Neg(z.z)))}}
		default:
			return piece{"~@{" + d1.ctl + "~:*/" + d2.ctl + "~:*/~S ~}", []val{z}}
		}
	}
	switch g.r.Intn(7) {
	case 0: // skip one
		return piece{pr() + "~*" + pr(), []val{a, b, c}}
	case 1: // skip n
		return piece{"~2*" + pr(), []val{a, b, c}}
	case 2: // back up and print again
		return piece{pr() + "~:*" + pr(), []val{a}}
	case 3:
		return piece{pr() + pr() + "~2:*" + pr() + pr(), []val{a, b}}
	case 4: // absolute (only meaningful as the first directive of the control string, positions are absolute)
		return piece{pr() + pr() + "~1@*" + pr(), []val{a, b}}
	case 5:
		s, va := g.numParam([]int{0, 1, 2, 3}, true)
		return piece{"~" + s + common.Pick(g.r, []string{"", ":", "@"}) + "*" + pr(), append(va, a, b, c)}
	default: // may leave the argument list
		return piece{pr() + "~" + fmt.Sprint(g.r.Intn(4)) + common.Pick(g.r, []string{"", ":"}) + "*", []val{a, b}}
	}
}

func (g *gen) caseDir(depth int) piece {
	m := mods(g.r)
	g.ctx.Hist("dir:(" + m)
	var body piece
	if g.r.Chance(50) {
		s := vStr(g.str())
		body = piece{common.Pick(g.r, []string{"~A", "~A", "~S", "x~Ay"}), []val{s}}
		if g.r.Chance(30) {
			body = cat(body, piece{" " + g.word(2, true), nil}, g.wordsDir())
		}
	} else {
		body = g.seq(2, depth+1)
	}
	return piece{"~" + m + "(" + body.ctl + "~)", body.args}
}

func (g *gen) clause(depth int) piece {
	switch x := g.r.Intn(100); {
	case x < 45:
		return piece{g.word(1+g.r.Intn(3), true), nil}
	case x < 55:
		return piece{"", nil}
	case x < 85:
		return cat(piece{g.literal(), nil}, g.oneArgDir(depth+1, nil))
	default:
		return g.seq(2, depth+1)
	}
}

func (g *gen) condDir(depth int) piece {
	switch x := g.r.Intn(100); {
	case x < 20: // ~:[false~;true~]
		g.ctx.Hist("dir:[:")
		f, t := g.clause(depth), g.clause(depth)
		arg := common.Pick(g.r, []val{vNil, vNil, vTrue, vInt(0), vStr("x"), vList(), vInts(1)})
		if g.r.Chance(4) {
			return piece{"~:[" + f.ctl + "~;" + t.ctl + "~]", nil} // no argument
		}
		if arg.k == kNil || (arg.k == kList && len(arg.l) == 0) { // an empty list object is nil
			return piece{"~:[" + f.ctl + "~;" + t.ctl + "~]", append([]val{arg}, f.args...)}
		}
		return piece{"~:[" + f.ctl + "~;" + t.ctl + "~]", append([]val{arg}, t.args...)}
	case x < 35: // ~@[...~]
		g.ctx.Hist("dir:[@")
		arg := common.Pick(g.r, []val{vNil, vInt(7), vStr("x"), vSym("s"), vList()})
		body := common.Pick(g.r, []string{"~A", "<~S>", "x", "~A~:*~A"})
		return piece{"~@[" + body + "~]", []val{arg}}
	default:
		n := 1 + g.r.Intn(4)
		var cl []piece
		for i := 0; i < n; i++ {
			cl = append(cl, g.clause(depth))
		}
		hasDef := g.r.Chance(40)
		var def piece
		if hasDef {
			def = g.clause(depth)
		}
		sel := g.r.Intn(n+2) - 1 // -1 .. n
		if g.r.Chance(5) {
			sel = 1 << 40
		}
		ctl := ""
		for i, c := range cl {
			if i > 0 {
				ctl += "~;"
			}
			ctl += c.ctl
		}
		if hasDef {
			ctl += "~:;" + def.ctl
		}
		ctl += "~]"
		var chosen []val
		if sel >= 0 && sel < n {
			chosen = cl[sel].args
		} else if hasDef {
			chosen = def.args
		}
		switch y := g.r.Intn(100); {
		case y < 60:
			g.ctx.Hist("dir:[")
			arg := vInt(int64(sel))
			if g.r.Chance(4) {
				arg = vBig(new(big.Int).Lsh(big.NewInt(1), 70))
				chosen = def.args
			}
			return piece{"~[" + ctl, append([]val{arg}, chosen...)}
		case y < 75 && sel >= 0:
			g.ctx.Hist("dir:n[")
			return piece{"~" + fmt.Sprint(sel) + "[" + ctl, chosen}
		case y < 85 && sel >= 0:
			g.ctx.Hist("dir:v[")
			return piece{"~v[" + ctl, append([]val{vInt(int64(sel))}, chosen...)}
		default:
			// ~#[ : the number of remaining arguments selects; this directive must come last to be predictable,
			// so whatever the count selects is rendered with the arguments that are there
			g.ctx.Hist("dir:#[")
			k := g.r.Intn(4)
			var as []val
			for i := 0; i < k; i++ {
				as = append(as, g.atom())
			}
			ctl2 := "none~;~A~;~A and ~A~:;~A, ~A~^, ...~]"
			if g.r.Chance(50) {
				ctl2 = "~;one~;two~:;many~]"
			}
			return piece{"~#[" + ctl2, as}
		}
	}
}

func (g *gen) iterDir(depth int) piece {
	per := 1 + g.r.Intn(2) // arguments per iteration
	var body piece
	var protos []bool // which body directive needs an integer
	_ = protos
	sep := common.Pick(g.r, []string{"", " ", ",", "-", "; "})
	mkBody := func() (string, int) {
		ctl := ""
		for i := 0; i < per; i++ {
			if i > 0 {
				ctl += common.Pick(g.r, []string{"", "=", " "})
			}
			d := g.oneArgDir(depth+1, &vNil)
			// only keep directives that take no v arguments so that the consumption per iteration is `per`
			for len(d.args) != 1 {
				d = g.oneArgDir(depth+1, &vNil)
			}
			ctl += d.ctl
		}
		return ctl, per
	}
	bctl, _ := mkBody()
	caret := false
	switch x := g.r.Intn(100); {
	case x < 12:
		bctl += "~^" + sep
		caret = true
	case x < 20 && depth < 1:
		// a nested block in the body
		inner := common.Pick(g.r, []string{"~(~A~)", "~[a~;b~;c~]", "~:[n~;y~]", "~@[~A~]", "~{~A~}", "~2{<~A>~}", "~{~A~:}",
			"~3,'}D", "~1[a~;b~]~A", "~v{~A~}~:*", "~#[~;~A~:;<~A>~]"}) // closers after a quote, openers after parameters
		bctl, per = inner+sep, 1
	default:
		bctl += sep
	}
	_ = caret
	body.ctl = bctl
	elem := func() val {
		if strings.Contains(bctl, "~[") {
			return vInt(int64(g.r.Intn(4)))
		}
		if strings.Contains(bctl, "{") {
			return g.list(3, 0)
		}
		if g.r.Chance(70) {
			return vBig(g.integer())
		}
		return g.atom()
	}
	iters := g.r.Intn(5) // 0..4
	maxn := ""
	var pre []val
	if g.r.Chance(25) {
		s, a := g.numParam([]int{0, 1, 2, 3}, false)
		maxn, pre = s, a
	}
	closer := "~}"
	if g.r.Chance(15) {
		closer = "~:}"
	}
	if g.r.Chance(3) {
		closer = "~}}" // a literal brace after the block
	}
	m := common.Pick(g.r, []string{"", "", "", ":", "@", ":@"})
	g.ctx.Hist("dir:{" + m)
	ctl := "~" + maxn + m + "{" + bctl + closer
	switch m {
	case "":
		var l []val
		for i := 0; i < iters*per; i++ {
			l = append(l, elem())
		}
		if g.r.Chance(5) && per == 2 && len(l) > 0 {
			l = l[:len(l)-1] // a list that runs out in mid-iteration
		}
		arg := vList(l...)
		if len(l) == 0 && g.r.Chance(50) {
			arg = vNil
		}
		if g.r.Chance(3) {
			return piece{ctl, pre} // no argument at all
		}
		return piece{ctl, append(pre, arg)}
	case ":":
		var ls []val
		for i := 0; i < iters; i++ {
			var l []val
			for j := 0; j < per+g.r.Intn(2); j++ {
				l = append(l, elem())
			}
			ls = append(ls, vList(l...))
		}
		arg := vList(ls...)
		if len(ls) == 0 && g.r.Chance(50) {
			arg = vNil
		}
		return piece{ctl, append(pre, arg)}
	case "@":
		var as []val
		for i := 0; i < iters*per; i++ {
			as = append(as, elem())
		}
		return piece{ctl, append(pre, as...)}
	default:
		var as []val
		for i := 0; i < iters; i++ {
			var l []val
			for j := 0; j < per; j++ {
				l = append(l, elem())
			}
			as = append(as, vList(l...))
		}
		return piece{ctl, append(pre, as...)}
	}
}

func (g *gen) procDir(depth int) piece {
	g.ctx.Hist("dir:?")
	inner := g.seq(2, 2)
	for strings.ContainsAny(inner.ctl, `"\`) {
		inner = g.seq(2, 2)
	}
	if g.r.Chance(40) {
		return piece{"~@?", append([]val{vStr(inner.ctl)}, inner.args...)}
	}
	var l val
	if len(inner.args) == 0 {
		l = common.Pick(g.r, []val{vNil, vList(), vList()})
	} else {
		l = vList(inner.args...)
		if g.r.Chance(20) {
			l.l = append(l.l, g.atom()) // an argument the inner control does not use
		}
	}
	return piece{"~?", []val{vStr(inner.ctl), l}}
}

// ---- running the implementation -----------------------------------------------------------------

type observed struct {
	text string
	err  string // "" or the condition class
	msg  string
}

func argForms(args []val) string {
	var b strings.Builder
	for _, a := range args {
		b.WriteString(" ")
		b.WriteString(a.lisp())
	}
	return b.String()
}

func evalString(src string) observed {
	o := common.EvalTimeout(slip.NewScope(), src, 3*time.Second)
	if o.Err != "" {
		return observed{err: o.Err, msg: o.Msg}
	}
	if s, ok := o.Value.(slip.String); ok {
		return observed{text: string(s)}
	}
	return observed{err: "not-a-string", msg: o.Printed}
}

// evalList evaluates src, which must return a list of strings
func evalList(src string) []string {
	o := common.EvalTimeout(slip.NewScope(), src, 3*time.Second)
	if o.Err != "" {
		return nil
	}
	l, ok := o.Value.(slip.List)
	if !ok {
		return nil
	}
	var out []string
	for _, e := range l {
		s, ok := e.(slip.String)
		if !ok {
			return nil
		}
		out = append(out, string(s))
	}
	return out
}

func show(o observed) string {
	if o.err != "" {
		return "!" + o.err
	}
	return o.text
}

func same(a, b observed) bool {
	if a.err != "" || b.err != "" {
		return a.err != "" && b.err != ""
	}
	return a.text == b.text
}

func printable(s string) bool {
	for i := 0; i < len(s); i++ {
		if s[i] < 32 || s[i] > 126 {
			return false
		}
	}
	return true
}

// riskyWidth: a control string with a v parameter (possibly inside a ~? argument) together with an integer
// argument between 2000 and 2^64 could, after a cursor move, take that integer as a width or a repeat
// count and allocate gigabytes; such combinations are not run (larger integers overflow int and are refused
// by slip at once).
func riskyWidth(p piece) bool {
	hasV := strings.ContainsAny(p.ctl, "vV")
	var mid func(v val) bool
	lo, hi := big.NewInt(2000), new(big.Int).Lsh(big.NewInt(1), 64)
	mid = func(v val) bool {
		switch v.k {
		case kInt:
			a := new(big.Int).Abs(v.z)
			return a.Cmp(lo) > 0 && a.Cmp(hi) < 0
		case kStr:
			if strings.ContainsAny(v.s, "vV") && strings.Contains(v.s, "~") {
				hasV = true
			}
		case kList:
			for _, e := range v.l {
				if mid(e) {
					return true
				}
			}
		}
		return false
	}
	risky := false
	for _, a := range p.args {
		if mid(a) {
			risky = true
		}
	}
	return hasV && risky && (strings.Contains(p.ctl, "*") || strings.Contains(p.ctl, "[") || strings.Contains(p.ctl, "?") || strings.Contains(p.ctl, "{"))
}

type caseRec struct {
	Lisp     string `json:"lisp"`
	Observed string `json:"observed"`
	Class    string `json:"class"`
}

func Run(ctx *common.Ctx) {
	// common.NewRng(seed) steps by the same constant it multiplies the seed with, so the streams of seeds
	// 1, 2, 3 ... are shifts of one another; re-seeding from an output of the stream separates them
	g := &gen{ctx: ctx, r: common.NewRng(ctx.Rng.Next())}
	tables, translatorProblem := writeTables(ctx)
	if translatorProblem != "" {
		// the model cannot be instantiated (Tables.v says why and does not compile: a violation without a failing input).
		// Search for a failing input all the same: the implementation against the specification tables; the generated
		// control strings below are still run for the checks made on the implementation alone (destinations, arguments
		// unchanged, ~A / ~S against princ / prin1), but no correspondence files are written.
		fmt.Fprintln(os.Stderr, translatorProblem)
		ctx.Meta.Notes = append(ctx.Meta.Notes, translatorProblem+" -- no correspondence with the model on this run; specification sweep instead")
		if ctx.Meta.Extra == nil {
			ctx.Meta.Extra = map[string]any{}
		}
		ctx.Meta.Extra["table_suspects"] = []string{translatorProblem}
		specSweep(ctx)
	}
	nInt, nWords, nFlow, nAS, nPrint := 1000, 400, 2400, 300, 250
	if ctx.Thorough() {
		nInt, nWords, nFlow, nAS, nPrint = 12000, 6000, 24000, 3000, 3000
	}
	var terms []string
	var descs []any
	distinct := map[string]bool{}
	add := func(class string, p piece) {
		if !printable(p.ctl) || strings.ContainsAny(p.ctl, `"\`) {
			return
		}
		for _, a := range p.args {
			if a.k == kList && len(a.inner()) > 60 {
				// slip's printer breaks long lists over several lines (the pretty printer is C03's subject)
				ctx.Hist("skipped:long-list")
				return
			}
		}
		if riskyWidth(p) {
			ctx.Hist("skipped:v-with-large-integer")
			return
		}
		src := fmt.Sprintf(`(format nil "%s"%s)`, p.ctl, argForms(p.args))
		if distinct[src] {
			return
		}
		distinct[src] = true
		o := evalString(src)
		ctx.Meta.Evaluations++
		if len(o.text) > 3000 {
			// a width taken from an argument: the text is right or wrong in its first few thousand characters already,
			// and a list literal of that length overflows the stack of coqc
			ctx.Hist("skipped:long-output")
			return
		}
		if o.err == "timeout" {
			// handed to the model as an observation of its own kind (none is expected: the cursor cannot leave the
			// argument list since repo_fixes/C15-15, which is what made ~@{ spin)
			ctx.Hist("outcome:no-return")
		}
		// the three destinations
		ot := evalString(fmt.Sprintf(`(let ((*standard-output* (make-string-output-stream))) (format t "%s"%s) (get-output-stream-string *standard-output*))`, p.ctl, argForms(p.args)))
		os := evalString(fmt.Sprintf(`(let ((out (make-string-output-stream))) (format out "%s"%s) (get-output-stream-string out))`, p.ctl, argForms(p.args)))
		if o.err == "timeout" {
			ot, os = o, o
		}
		// the arguments are as they were: bound to variables, formatted, printed before and after
		if len(p.args) > 0 && o.err != "timeout" {
			var binds, names []string
			for i, a := range p.args {
				binds = append(binds, fmt.Sprintf("(a%d %s)", i, a.lisp()))
				names = append(names, fmt.Sprintf("a%d", i))
			}
			ns := strings.Join(names, " ")
			chk := evalList(fmt.Sprintf(`(let* (%s (before (prin1-to-string (list %s)))) (ignore-errors (format nil "%s" %s)) (list before (prin1-to-string (list %s))))`,
				strings.Join(binds, " "), ns, p.ctl, ns, ns))
			if len(chk) == 2 && chk[0] != chk[1] {
				ctx.Violate("format changed one of its arguments", src, chk[1], chk[0])
			} else if len(chk) != 2 {
				ctx.Hist("argument-check:not-evaluated")
			} else {
				ctx.Hist("argument-check:done")
			}
		}
		if !same(o, ot) {
			ctx.Violate("(format t ...) writes a text different from the string (format nil ...) returns", src, show(ot), show(o))
		}
		if !same(o, os) {
			ctx.Violate("(format stream ...) writes a text different from the string (format nil ...) returns", src, show(os), show(o))
		}
		var gargs []string
		for _, a := range p.args {
			gargs = append(gargs, a.coq())
		}
		obs := "ObsError"
		if o.err == "" {
			obs = "(ObsText " + common.GBytes([]byte(o.text)) + ")"
			ctx.Hist("outcome:text")
		} else if o.err == "timeout" {
			obs = "ObsHang"
		} else {
			ctx.Hist("outcome:error")
		}
		terms = append(terms, fmt.Sprintf("{| k_ctl := %s; k_args := [%s]; k_obs := %s |}", common.GStr(p.ctl), strings.Join(gargs, "; "), obs))
		d := caseRec{Lisp: src, Observed: show(o), Class: class}
		descs = append(descs, d)
		ctx.Hist("class:" + class)
		if len(terms)%331 == 7 {
			ctx.Sample(d)
		}
	}

	// 1. the shapes of the known findings and their neighbours, every run
	for _, p := range corpus() {
		add("corpus", p)
	}
	// 2. every entry of the word tables
	for _, p := range tableSweep(tables) {
		add("table-sweep", p)
	}
	// 2b. every order of literal, v and # among the numeric parameters of one directive, with 0..2 arguments nobody takes
	for _, p := range paramOrderSweep() {
		add("parameter-order", p)
	}
	// 2c. the limits of the fixnum / bignum representations and of the machine widths under every integer-rendering directive
	for _, p := range limitSweep() {
		add("representation-limits", p)
	}
	// 3. integer directives
	for i := 0; i < nInt; i++ {
		p := g.intDir(nil)
		if g.r.Chance(25) {
			p = cat(piece{g.literal(), nil}, p, piece{g.literal(), nil})
		}
		add("integer", p)
	}
	// 4. ~R words
	for i := 0; i < nWords; i++ {
		add("words", g.wordsDir())
	}
	// 5. ~A ~S with parameters
	for i := 0; i < nAS; i++ {
		add("aesthetic", g.asDir(nil))
	}
	// 6. compositions of up to 4 directives
	for i := 0; i < nFlow; i++ {
		add("composition", g.seq(4, 0))
	}
	ctx.Meta.DistinctNontrivial = len(distinct)

	// 7. ~A = princ, ~S = prin1 on the implementation alone, for a wider universe of objects
	printerAgreement(ctx, g, nPrint)

	ctx.Meta.Rule = "control strings: (1) a fixed corpus of rare shapes; (2) one ~R / ~:R / ~@R / ~:@R per entry of the word tables; (2b) ~A ~D ~T with every assignment of literal / v / # to their numeric parameters and 0..2 surplus arguments; (2c) every limit 2^k (k = 31 32 53 63 64) of the fixnum / bignum representation and of the machine widths, +-1 (+-2 at 2^63), both signs, under ~R ~:R ~@R ~:@R ~D ~B ~O ~X ~nR with and without modifiers and parameters, ~A ~P — enumerated, the same on every run; (3) ~D ~B ~O ~X ~nR with random subsets of mincol, padchar, commachar, comma-interval given literally, by v or by #, all modifier combinations, integers of 1..40 digits incl. 0, powers of ten and two +-1 and the fixnum limits, a few non-integers; (4) ~R words for numbers up to 10^69 with zero and round groups, Roman 1..3999 and the limits; (5) ~A ~S with mincol, colinc, minpad, padchar; (6) sequences of 1..4 directives (all of ~A ~S ~D ~B ~O ~X ~R ~C ~% ~& ~~ ~T ~* ~P ~( ~[ ~{ ~? ~^, blocks nested to depth 2, lists of 0..4 elements, nested lists for ~:{, missing and surplus arguments, the same integer re-read through ~:* ~@* by a second integer directive) with literal text between; after every call the arguments, bound to variables, are printed again and must be unchanged; every control string is run with destination nil, t and a string stream; distinct = distinct (control, arguments)"
	header := "From C15 Require Import Interp Corr.\nFrom GenC15 Require Import Tables.\nOpen Scope string_scope.\n"
	footer := "Definition res := Eval vm_compute in check_all gen_tables cases.\nPrint res.\n" +
		"Definition in_guard := Eval vm_compute in guard_count gen_tables cases.\nPrint in_guard.\n" +
		"Definition meets_spec := Eval vm_compute in meets_spec_count cases.\nPrint meets_spec.\n" +
		"Definition no_verdict := Eval vm_compute in no_verdict_count gen_tables cases.\nPrint no_verdict.\n"
	if translatorProblem == "" {
		ctx.WriteShards("cases", header, "case", footer, terms, descs, 16)
	}
	ctx.ReplayKnownLisp()
}
