package c15

import (
	"fmt"
	"math/big"
	"strings"
	"time"

	"github.com/ohler55/slip"
	"verifharness/common"
)

func bigs(s string) val {
	z, ok := new(big.Int).SetString(s, 10)
	if !ok {
		panic(s)
	}
	return vBig(z)
}

// corpus: rare shapes, run first on every run: the witnesses of the known findings, their in-guard
// neighbours, and the boundary values of every directive.
func corpus() []piece {
	s := vStr
	ps := []piece{
		// ~R words
		{"~R", []val{vInt(20)}}, {"~:R", []val{vInt(20)}}, {"~R", []val{vInt(21)}}, {"~R", []val{vInt(1000)}}, {"~R", []val{vInt(1001)}},
		{"~R", []val{vInt(20001)}}, {"~:R", []val{vInt(100)}}, {"~:R", []val{vInt(101)}}, {"~:R", []val{vInt(112)}}, {"~R", []val{vInt(0)}},
		{"~:R", []val{vInt(0)}}, {"~R", []val{vInt(-5)}}, {"~:R", []val{vInt(-111)}}, {"~R", []val{bigs("1000000000000000001")}},
		{"~R", []val{bigs("999999999999999999999999999999999999999999999999999999999999999999")}},
		{"~R", []val{bigs("1000000000000000000000000000000000000000000000000000000000000000001")}},
		{"~R", []val{bigs("123456789012345678901234567890123456789012345678901234567890123456")}},
		{"~R", []val{s("x")}}, {"~R", nil}, {"~:R", []val{vInt(1000000)}}, {"~:R", []val{vInt(90)}}, {"~R", []val{vInt(110)}},
		{"~@R", []val{vInt(3999)}}, {"~@R", []val{vInt(4000)}}, {"~:@R", []val{vInt(4)}}, {"~@R", []val{vInt(0)}}, {"~@R", []val{vInt(-3)}},
		{"~@R", []val{vInt(1994)}}, {"~:@R", []val{vInt(1994)}}, {"~:@R", []val{vInt(3999)}}, {"~:@R", []val{vInt(4999)}},
		{"~2R", []val{vInt(5)}}, {"~16R", []val{vInt(255)}}, {"~36,10,'_R", []val{vInt(35)}}, {"~10R", []val{vInt(7)}}, {"~8,6,'0:@R", []val{vInt(4096)}},
		{"~1R", []val{vInt(5)}}, {"~37R", []val{vInt(5)}}, {"~vR", []val{vInt(3), vInt(26)}},
		// integers
		{"~D", []val{vInt(0)}}, {"~@D", []val{vInt(0)}}, {"~:D", []val{vInt(0)}}, {"~:D", []val{vInt(999)}}, {"~:D", []val{vInt(1000)}},
		{"~:D", []val{vInt(-1000)}}, {"~:@D", []val{vInt(1000)}}, {"~:D", []val{vInt(100000)}}, {"~:D", []val{vInt(1234567)}},
		{"~,,'.,4:D", []val{vInt(1234567)}}, {"~,,,1:D", []val{vInt(123)}}, {"~,,,0:D", []val{vInt(123)}}, {"~8,'0:@D", []val{vInt(1234)}},
		{"~10,'*D", []val{vInt(42)}}, {"~10,'xD", []val{vInt(42)}}, {"~10,'0D", []val{vInt(42)}}, {"~3D", []val{vInt(12345)}},
		{"~-3D", []val{vInt(5)}}, {"~5,vD", []val{vChr('*'), vInt(1)}}, {"~v,vD", []val{vNil, vNil, vInt(1)}}, {"~#D", []val{vInt(1), vInt(2), vInt(3)}},
		{"~D", []val{bigs("9223372036854775807")}}, {"~D", []val{bigs("9223372036854775808")}}, {"~D", []val{bigs("-9223372036854775808")}},
		{"~D", []val{bigs("-9223372036854775809")}}, {"~:X", []val{bigs("18446744073709551616")}}, {"~B", []val{vInt(-5)}}, {"~:O", []val{vInt(4096)}},
		{"~x", []val{vInt(255)}}, {"~D", []val{s("abc")}}, {"~5D", []val{vSym("ab")}}, {"~D", []val{vChr('a')}}, {"~:D", []val{s("abcdefg")}},
		{"~@D", []val{s("abc")}}, {"~D", []val{vInts(1, 2)}}, {"~D", nil}, {"~vD", []val{vInt(5)}}, {"~D~D", []val{vInt(1)}},
		// v to the left of #, and the same integer looked at twice
		{"~v,,#A|", []val{vInt(0), vSym("x"), vSym("y")}}, {"~v,,,#:D", []val{vNil, vInt(1234567), vSym("a")}}, {"~v,v,,#:X", []val{vInt(6), vChr('*'), vInt(255)}},
		{"~#,vD|", []val{vChr('_'), vInt(5), vInt(6)}}, {"~v,#,#A|", []val{vInt(9), vSym("x"), vInt(1)}},
		{"~D~:*|~D", []val{bigs("-100000000000000000000")}}, {"~B~0@*|~X|~:*~A", []val{bigs("-9223372036854775809")}}, {"~:D~:*|~:@D", []val{bigs("100000000000000000000")}},
		{"~{~O~:*=~D ~}", []val{vList(bigs("-18446744073709551616"), vInt(-8))}}, {"~D~:*|~D", []val{bigs("-9223372036854775808")}}, {"~@{~X~:*/~S ~}", []val{bigs("-340282366920938463463374607431768211456")}},
		// ~A ~S ~C
		{"~A|~S", []val{s("ab"), s("ab")}}, {"~:A ~:A ~:A", []val{vList(), vNil, vInts(1)}}, {"~5A|~5@A|~5,2A|~5,2,1A|", []val{vInt(1), vInt(2), vInt(3), vInt(4)}},
		{"~3,,4S|", []val{s("ab")}}, {"~vA|~v,vA", []val{vInt(4), vInt(1), vInt(3), vInt(2), vInt(9)}}, {"~#A|", []val{vInt(1), vInt(2), vInt(3)}},
		{"~5,2,1,'xA|", []val{vInt(5)}}, {"~5,2,1,'_A|", []val{vInt(5)}}, {"~A", []val{vList(vInt(1), s("a"), vChr('b'), vNil, vTrue, vSym("sym"), vInts(2, 3), vList())}},
		{"~S", []val{vList(vInt(1), s("a"), vChr('b'), vNil, vTrue, vSym("sym"), vInts(2, 3), vList())}}, {"~A", nil},
		{"~C~:C~@C~:@C", []val{vChr('a'), vChr(' '), vChr('a'), vChr(' ')}}, {"~C", []val{s("a")}}, {"~C", []val{vInt(65)}}, {"~C", nil},
		// ~% ~& ~~ ~T
		{"~3%|~0%|~2~|~0&|~2&", nil}, {"a~%~2&b", nil}, {"a~%~3&b~%~0&c~%~1&d", nil}, {"~2%~&|", nil}, {"a~&b~%~&c~2&d", nil}, {"~&x", nil}, {"~%~{~&~A~}", []val{vInts(1)}}, {"~v%|", []val{vInt(2)}},
		{"~#~", []val{vInt(1), vInt(2)}}, {"abc~{~5T~A~}", []val{vInts(1)}}, {"~T|", nil}, {"a~T|", nil}, {"ab~T|", nil}, {"~10,3T|", nil},
		{"abc~3T|", nil}, {"abc~3,1T|", nil}, {"abc~2,4T|", nil}, {"abc~,8T|", nil}, {"abc~,8@T|", nil}, {"abc~3,4@T|", nil}, {"abc~1,4@T|", nil},
		{"abc~%~3,4@T|", nil}, {"~@T|", nil}, {"abcde~2,3T|", nil}, {"abc~5,0T|", nil}, {"abc~1,0T|", nil}, {"abc~1,0@T|", nil}, {"x~%ab~4T|", nil},
		// ~* ~P
		{"~2*~A", []val{vInt(1), vInt(2), vInt(3)}}, {"~A~:*~A~2:*~A", []val{vInt(1), vInt(2), vInt(3)}}, {"~A~A~1@*~A~@*~A", []val{vInt(1), vInt(2), vInt(3)}},
		{"~5*", nil}, {"~A~5*", []val{vInt(1)}}, {"~A~5*~A", []val{vInt(1)}}, {"~:*~A", []val{vInt(1)}}, {"~A~*", []val{vInt(1), vInt(2)}}, {"~A~*~A", []val{vInt(1), vInt(2)}},
		{"~:@*", []val{vInt(1)}}, {"~3@*~A", []val{vInt(1), vInt(2), vInt(3)}}, {"~2@*~A", []val{vInt(1), vInt(2), vInt(3)}}, {"~0*~A", []val{vInt(1)}},
		{"~D item~:P ~D box~:@P", []val{vInt(1), vInt(2)}}, {"~P ~P ~@P ~@P ~:P", []val{vInt(1), vInt(2), vInt(1), vInt(2)}}, {"~P", []val{bigs("100000000000000000000")}},
		{"~P", nil}, {"~:P", []val{vInt(1)}}, {"~P", []val{s("1")}},
		// ~[
		{"~[a~;b~:;c~]", []val{vInt(5)}}, {"~[a~;b~:;c~]", []val{vInt(1)}}, {"~[a~;b~]", []val{vInt(-1)}}, {"~[a~;b~]", []val{vInt(2)}}, {"~1[a~;b~:;c~]", nil},
		{"~@[x~A~]y", []val{vInt(3)}}, {"~@[x~A~]y", []val{vNil}}, {"~@[x~A~]y", []val{vList()}}, {"~#[none~;one~:;many~]", []val{vInt(1), vInt(2)}},
		{"~:[f~;t~]", []val{vNil}}, {"~:[f~;t~]", []val{vList()}}, {"~:[f~;t~]", []val{vInt(0)}}, {"~:[f~;t~]", nil}, {"~@[x~]", nil}, {"~[a~;b~]", nil},
		{"~[a~;b~]", []val{bigs("100000000000000000000")}}, {"~[a~;b~:;c~]", []val{bigs("100000000000000000000")}}, {"~[a~;b~]", []val{s("x")}},
		{"~:[a~;b~;c~]", []val{vInt(1)}}, {"~@[a~;b~]", []val{vInt(1)}}, {"~:@[a~]", []val{vInt(1)}}, {"~[~A~;~A~A~]|~A", []val{vInt(1), vInt(2), vInt(3), vInt(4)}},
		{"~[~[a~;b~]~;c~]", []val{vInt(0), vInt(1)}}, {"~[x~;~[a~;b~]~;c~]|", []val{vInt(1), vInt(0)}}, {"~[x~;~1[a~;b~]~;c~]|", []val{vInt(1)}}, {"~[a~;]b~]", []val{vInt(1)}},
		{"~[~[a~];b~]", []val{vInt(0), vInt(0)}}, {"~[a~;;b~]", []val{vInt(1)}}, {"~[a~;b~1,~:;c~]", []val{vInt(1)}}, {"~v[a~;b~]", []val{vInt(1)}},
		// ~{
		{"~{~A~^,~}", []val{vInts(1, 2, 3)}}, {"~{~A~^,~}", []val{vInts(1)}}, {"~@{~A~^,~}|", []val{vInt(1), vInt(2), vInt(3)}}, {"~A~^ more", []val{vInt(1)}}, {"~A~^ more~A", []val{vInt(1), vInt(2)}},
		{"~(~A~^x~)y", []val{vInt(1)}}, {"~:{~A~^-~A ~}", []val{vList(vInts(1, 2), vInts(3), vInts(4, 5))}}, {"~{~[a~^~;b~]~}", []val{vInts(0, 1, 0)}},
		{"~3{~A~}", []val{vInts(1, 2, 3, 4, 5)}}, {"~0{~A~}|~A", []val{vInts(1, 2), vInt(3)}}, {"~v{~A~}|~A", []val{vInt(1), vInts(1, 2), vInt(3)}},
		{"~:{~A-~A ~}", []val{vList(vInts(1, 2), vInts(3, 4))}}, {"~@{~A ~}", []val{vInt(1), vInt(2), vInt(3)}}, {"~:@{~A ~}", []val{vInts(1), vInts(2)}},
		{"~{~A~:}", []val{vNil}}, {"~{x~:}|", []val{vNil}}, {"~{x~:}|", []val{vList()}}, {"~:{x~A~:}|", []val{vNil}}, {"~:{x~:}|", []val{vNil}}, {"~:@{x~:}|", nil}, {"~@{x~:}|", nil},
		{"~{~A~A~}", []val{vInts(1, 2, 3)}}, {"~{~A~}", []val{vInt(5)}}, {"~{~A~}", []val{s("ab")}}, {"~:{~A~}", []val{vInts(1, 2)}}, {"~{~A~}", nil}, {"~{~A~}|~A", []val{vNil, vInt(1)}},
		{"~{~A~}}", []val{vInts(1)}}, {"~{~A~}}", []val{vNil}}, {"~{~A~} }", []val{vInts(1)}}, {"~{~{~A~}|~}", []val{vList(vInts(1, 2), vInts(3))}},
		{"~{~2{~A~}|~}", []val{vList(vInts(1, 2, 3), vInts(4, 5, 6))}}, {"~{~{~A~:}|~}", []val{vList(vInts(1), vInts(2))}}, {"~{~:{~A~}|~}", []val{vList(vList(vInts(1), vInts(2)))}},
		{"~{~(~A~)~}", []val{vList(s("AB"), s("CD"))}}, {"~{~[a~;b~]~}", []val{vInts(0, 1, 0)}}, {"~[~{~A~}~;b~]", []val{vInt(0), vInts(1, 2)}}, {"~{~A~*~}", []val{vInts(1, 2, 3, 4)}},
		{"~{~A~:*~A~}", []val{vInts(1, 2)}}, {"~{~#[~;~A~;~A and ~A~:;~A, ~]~}", []val{vInts(1, 2, 3, 4)}}, {"~{~A~#[~;, ~]~}", []val{vInts(1, 2)}}, {"~@{~A~}~A", []val{vInt(1), vInt(2)}},
		{"~2@{~A~}~A", []val{vInt(1), vInt(2), vInt(3)}}, {"~1:@{~A~}~A", []val{vInts(1), vInts(2)}}, {"~1:{~A~}~A", []val{vList(vInts(1), vInts(2)), vInt(3)}},
		// ~? ~(
		{"~?~A", []val{s("~Ax"), vInts(1, 2), vInt(3)}}, {"~@?~A", []val{s("~Ax"), vInt(1), vInt(2)}}, {"~?", []val{s("x"), vNil}}, {"~?", []val{s("x"), vList()}},
		{"~?", []val{s("~A"), vInt(5)}}, {"~?", []val{vInt(5), vInts(1)}}, {"~?|", []val{s("~A")}}, {"~?|", nil}, {"~?|~A", []val{s("~A~A"), vInts(1, 2, 3), vInt(4)}},
		{"~@?|~A", []val{s("~A~A"), vInt(1), vInt(2), vInt(3), vInt(4)}}, {"~?|~A", []val{s("~A~^~A"), vInts(1), vInt(4)}}, {"~?", []val{s("~?"), vList(s("~A"), vInts(1))}},
		{"~(~A~)", []val{s("HeLLo WORLD")}}, {"~:(~A~)", []val{s("heLLo woRLD 2nd x9y")}}, {"~@(~A~)", []val{s("heLLo woRLD")}}, {"~:@(~A~)", []val{s("HeLLo world")}},
		{"~@(~A~)", []val{s(" hello world")}}, {"~@(~A~)", []val{s("1 apple PIE")}}, {"~:(~A~)", []val{s("ab1cd 2ef i-j (o) 12ab")}}, {"~@(~A ~A~)", []val{s("xx"), s("yy zz")}},
		{"~:(~R~)", []val{vInt(1234)}}, {"~@(~R~) ~:(~:R~)", []val{vInt(21), vInt(42)}}, {"~(~(~A~)~)", []val{s("Ab")}}, {"~:(a~(B~)c~)", nil}, {"~(~{~A ~}~)", []val{vList(s("AB"), s("Cd"))}},
		{"~:(~@[~A~]~)", []val{s("xy")}}, {"~(ab", nil}, {"~{~A", []val{vInts(1)}}, {"~[a", []val{vInt(0)}}, {"ab~)", nil}, {"ab~}", nil}, {"ab~]", nil}, {"a~;b", nil},
		// the scanner of prefix parameters
		{"~Q", []val{vInt(1)}}, {"~:::D", []val{vInt(1)}}, {"~1,2", nil}, {"~", nil}, {"a~", nil}, {"~,5D", []val{vInt(1)}}, {"~5,,,3:D", []val{vInt(12345)}}, {"~,,,3:D", []val{vInt(12345)}},
		{"~5,'a,'b,1:D", []val{vInt(123)}}, {"~:5D", []val{vInt(1)}}, {"~@:D", []val{vInt(1234)}}, {"~1-2D", []val{vInt(1)}}, {"~+5D", []val{vInt(1)}}, {"~VD", []val{vInt(3), vInt(1)}},
		{"~a~s~d", []val{vInt(1), vInt(2), vInt(3)}}, {"~5,'abD", []val{vInt(1)}}, {"~5,'SpaceD", []val{vInt(1)}}, {"~5,' D", []val{vInt(1)}},
	}
	return ps
}

// tableSweep: one control string per entry of the regenerated word tables (so that a changed entry
// shows in the comparison with its failing input), plus the ordinal forms S defines itself.
func tableSweep(tables map[string][][]string) []piece {
	var ps []piece
	for r := 0; r < 4; r++ {
		for d := 1; d <= 9; d++ {
			if r == 3 && d > 3 {
				break
			}
			n := int64(d)
			for i := 0; i < r; i++ {
				n *= 10
			}
			ps = append(ps, piece{"~@R", []val{vInt(n)}}, piece{"~:@R", []val{vInt(n)}})
		}
	}
	for _, n := range []int64{3888, 2999, 1444, 949, 499, 94, 49} {
		ps = append(ps, piece{"~@R", []val{vInt(n)}}, piece{"~:@R", []val{vInt(n)}})
	}
	for n := int64(1); n <= 19; n++ {
		ps = append(ps, piece{"~R", []val{vInt(n)}}, piece{"~:R", []val{vInt(n)}})
	}
	for t := int64(2); t <= 9; t++ {
		ps = append(ps, piece{"~R", []val{vInt(t*10 + t - 1)}}, piece{"~:R", []val{vInt(t*10 + t - 1)}}, piece{"~R", []val{vInt(t * 10)}}, piece{"~:R", []val{vInt(t * 10)}},
			piece{"~R", []val{vInt(t*100 + 11)}}, piece{"~:R", []val{vInt(t * 100)}})
	}
	n := 22
	if rows, ok := tables["cardinalTriples"]; ok && len(rows) == 1 {
		n = len(rows[0])
	}
	for k := 1; k <= n; k++ { // one past the table as well
		z := new(big.Int).Set(pow10[3*k])
		ps = append(ps, piece{"~R", []val{vBig(new(big.Int).Add(z, big.NewInt(1)))}}, piece{"~:R", []val{vBig(new(big.Int).Add(z, big.NewInt(2)))}},
			piece{"~R", []val{vBig(new(big.Int).Mul(z, big.NewInt(17)))}}, piece{"~:R", []val{vBig(z)}})
	}
	return ps
}

// printerAgreement: (format nil "~A" x) = (princ-to-string x), (format nil "~S" x) = (prin1-to-string x), the
// padded forms are the same text padded, for objects well beyond the universe of the Coq model.
func printerAgreement(ctx *common.Ctx, g *gen, n int) {
	atoms := []string{"1.5", "-0.25", "1.0e10", "1.0d-5", "3/4", "-7/3", "'abc", "'|a b|", ":key", "\"a\\\"b\"", "\"back\\\\slash\"", "\"\"", "#\\a", "#\\Space", "#\\Newline", "#\\(",
		"123456789012345678901234567890", "-1", "t", "nil", "'()", "''a", "'#'car", "'(1 . 2)", "'(1 2 . 3)", "#(1 2 3)", "#()", "\"two words\"", "'(a \"b\" #\\c 1.5 (d))",
		"'((1 2) (3 (4 5)))", "(list 1 (list) nil)", "'(quote x)", "'|Hello|", "(make-string 3 :initial-element #\\x)", "1e100", "#b101", "#xff", "'a.b", "\"~A\""}
	expr := func() string {
		if g.r.Chance(70) {
			return common.Pick(g.r, atoms)
		}
		k := 1 + g.r.Intn(4)
		var xs []string
		for i := 0; i < k; i++ {
			xs = append(xs, common.Pick(g.r, atoms))
		}
		return "(list " + strings.Join(xs, " ") + ")"
	}
	checked := 0
	for i := 0; i < n; i++ {
		e := expr()
		if i < len(atoms) {
			e = atoms[i]
		}
		w := 1 + g.r.Intn(14)
		src := fmt.Sprintf(`(let ((x %s)) (list (format nil "~A" x) (princ-to-string x) (format nil "~S" x) (prin1-to-string x) (format nil "~%dA" x) (format nil "~%d@S" x)
  (with-output-to-string (s) (princ x s)) (with-output-to-string (s) (prin1 x s)) (with-output-to-string (s) (format s "~A" x)) (stringp x)))`, e, w, w)
		o := common.EvalTimeout(slip.NewScope(), src, 3*time.Second)
		ctx.Meta.Evaluations++
		if o.Err != "" {
			if o.Err != "timeout" {
				ctx.Hist("printer:unreadable-object")
				continue
			}
			ctx.Violate("printing an object through format does not return", src, "timeout", nil)
			continue
		}
		l, ok := o.Value.(slip.List)
		if !ok || len(l) != 10 {
			ctx.Violate("unexpected result shape of the printer comparison", src, o.Printed, nil)
			continue
		}
		str := func(i int) string { s, _ := l[i].(slip.String); return string(s) }
		a, pc, sx, p1 := str(0), str(1), str(2), str(3)
		checked++
		ctx.Hist("printer:checked")
		if l[9] != nil {
			ctx.Hist("printer:string")
		}
		if a != pc {
			ctx.Violate("~A differs from princ", e, a, pc)
		}
		if sx != p1 {
			ctx.Violate("~S differs from prin1-to-string", e, sx, p1)
		}
		padR := pc
		for len([]rune(padR)) < w {
			padR += " "
		}
		padL := p1
		for len([]rune(padL)) < w {
			padL = " " + padL
		}
		if str(4) != padR {
			ctx.Violate(fmt.Sprintf("~%dA is not princ-to-string padded on the right to %d columns", w, w), e, str(4), padR)
		}
		if str(5) != padL {
			ctx.Violate(fmt.Sprintf("~%d@S is not prin1-to-string padded on the left to %d columns", w, w), e, str(5), padL)
		}
		if str(6) != pc {
			ctx.Violate("princ to a stream differs from princ-to-string", e, str(6), pc)
		}
		if str(7) != p1 {
			ctx.Violate("prin1 to a stream differs from prin1-to-string", e, str(7), p1)
		}
		if str(8) != a {
			ctx.Violate("(format stream \"~A\") differs from (format nil \"~A\")", e, str(8), a)
		}
	}
	if ctx.Meta.Extra == nil {
		ctx.Meta.Extra = map[string]any{}
	}
	ctx.Meta.Extra["printer_agreement_checked"] = checked
}

// paramOrderSweep: ~mincol,colinc,minpad A, ~mincol,padchar,commachar,interval :D and ~colnum,colinc T with each
// numeric parameter written out, taken with v, or given as #, in every combination — so v stands before # and # before
// v within one directive — and with 0, 1 or 2 arguments after the directive's own so that the count # yields varies.
func paramOrderSweep() []piece {
	var ps []piece
	kinds := []string{"lit", "v", "#"}
	for surplus := 0; surplus <= 2; surplus++ {
		extra := []val{vInt(41), vSym("zz")}[:surplus]
		build := func(lits []int, pick []int, mid string, tail string, own val, padV bool) piece {
			var parts []string
			var args []val
			for i, k := range pick {
				switch kinds[k] {
				case "lit":
					parts = append(parts, fmt.Sprint(lits[i]))
				case "v":
					parts = append(parts, "v")
					args = append(args, vInt(int64(lits[i])))
				default:
					parts = append(parts, "#")
				}
				if i == 0 && mid != "" {
					if padV {
						parts = append(parts, "v")
						args = append(args, vChr('*'))
					} else {
						parts = append(parts, "'.")
					}
					parts = append(parts, "'_")
				}
			}
			ctl := "~" + strings.Join(parts, ",") + tail + "|"
			return piece{ctl, append(append(args, own), extra...)}
		}
		for a := 0; a < 3; a++ {
			for b := 0; b < 3; b++ {
				for c := 0; c < 3; c++ {
					ps = append(ps, build([]int{6, 2, 1}, []int{a, b, c}, "", "A", vSym("x"), false))
					ps = append(ps, build([]int{5, 3, 2}, []int{a, b, c}, "", "@S", vStr("y"), false))
				}
				// ~mincol,padchar,'_,interval:D
				ps = append(ps, build([]int{12, 2}, []int{a, b}, "D", ":D", vInt(1234567), false))
				ps = append(ps, build([]int{12, 3}, []int{a, b}, "D", ":@X", vInt(-1048575), true))
				ps = append(ps, build([]int{4, 3}, []int{a, b}, "", "T", vInt(0), false))
			}
		}
	}
	// ~T takes no argument of its own: drop the placeholder
	for i := range ps {
		if strings.HasSuffix(ps[i].ctl, "T|") {
			n := strings.Count(ps[i].ctl, "v")
			ps[i].args = append(append([]val{}, ps[i].args[:n]...), ps[i].args[n+1:]...)
			ps[i].ctl = "ab" + ps[i].ctl
		}
	}
	return ps
}

// The limits of Go's two integer representations (slip.Fixnum = int64 inside -2^63 .. 2^63-1, *slip.Bignum outside;
// Model.go_repr) and of the narrower machine widths, with their neighbours on both sides and both signs, handed to
// every directive that renders an integer: the handlers switch on the representation (dirR, dirInt, dirP, dirCond) and
// anything computed on the int64 value (a sign, a magnitude, a comparison) behaves differently exactly here.
// Enumerated, the same on every run.
func representationLimits() []*big.Int {
	var zs []*big.Int
	one := big.NewInt(1)
	for _, k := range []uint{31, 32, 53, 63, 64} {
		span := int64(1)
		if k == 63 {
			span = 2
		}
		p := new(big.Int).Lsh(one, k)
		for d := -span; d <= span; d++ {
			z := new(big.Int).Add(p, big.NewInt(d))
			zs = append(zs, z, new(big.Int).Neg(z))
		}
	}
	return zs
}

func limitSweep() []piece {
	var ps []piece
	dirs := []string{"~R", "~:R", "~@R", "~:@R", "~D", "~:D", "~@D", "~B", "~:O", "~X", "~10R", "~36:R",
		"~24,'*,'_,4:D", "~A"}
	for _, z := range representationLimits() {
		for _, d := range dirs {
			ps = append(ps, piece{d + "|", []val{vBig(z)}})
		}
		// the same integer read twice, by the English and by the decimal writer; the plural of it
		ps = append(ps, piece{"~R=~:*~D ~:*~P", []val{vBig(z)}})
	}
	return ps
}
