// Package c12: histories over a small class world (defclass forms in every order, forward references,
// one optional redefinition, make-instance with initarg subsets, slot access, accessors, typep, class-of,
// a user generic with one :before method per class) run on the real interpreter.  After every defclass the
// whole class table of the case is read back (which class OBJECT is registered under each name, the
// objects on its inherit list, its precedence list); after every other operation its result.
package c12

import (
	"encoding/json"
	"fmt"
	"sort"
	"strings"
	"time"

	"github.com/ohler55/slip"
	"github.com/ohler55/slip/pkg/clos"
	"verifharness/common"
)

const (
	nClasses = 5 // class names 0..4 per case
	nSlots   = 4 // slot names s0..s3, initargs :i0..:i3
	soName   = 8
	ttName   = 9
)

type slotDef struct {
	Name     int
	Initargs []int
	Initform *int64 // nil = none; -1 = the form nil
	Reader   bool
	Writer   bool
	Accessor bool
}

type classForm struct {
	Name   int
	Supers []int
	Slots  []slotDef
}

type opRec struct {
	Lisp string `json:"lisp"`
	Obs  string `json:"observed"`
}

type runner struct {
	ctx    *common.Ctx
	k      int // case number: every name of the case carries it
	scope  *slip.Scope
	ids    map[*clos.StandardClass]int
	nextID int
	ninst  int
	gops   []string
	gobs   []string
	recs   []opRec
	bad    string
}

func (r *runner) cname(j int) string { return fmt.Sprintf("k%dc%d", r.k, j) }
func (r *runner) gname() string      { return fmt.Sprintf("k%dg", r.k) }
func (r *runner) trname() string     { return fmt.Sprintf("*k%dtr*", r.k) }
func (r *runner) accName(kind, s int) string {
	return fmt.Sprintf("k%d%s%d", r.k, []string{"r", "w", "a", "a"}[kind], s)
}

func gSlot(sd slotDef) string {
	ias := make([]string, len(sd.Initargs))
	for i, a := range sd.Initargs {
		ias[i] = fmt.Sprint(a)
	}
	form := "None"
	if sd.Initform != nil {
		form = fmt.Sprintf("(Some (%d)%%Z)", *sd.Initform)
	}
	return fmt.Sprintf("(mkSD %d [%s] %s %s %s %s)", sd.Name, strings.Join(ias, ";"), form,
		common.GBool(sd.Reader), common.GBool(sd.Writer), common.GBool(sd.Accessor))
}

func gNats(xs []int) string {
	ss := make([]string, len(xs))
	for i, x := range xs {
		ss[i] = fmt.Sprint(x)
	}
	return "[" + strings.Join(ss, ";") + "]"
}

func (r *runner) slotLisp(sd slotDef) string {
	var b strings.Builder
	fmt.Fprintf(&b, "(s%d", sd.Name)
	for _, a := range sd.Initargs {
		fmt.Fprintf(&b, " :initarg :i%d", a)
	}
	if sd.Initform != nil {
		if *sd.Initform == -1 {
			b.WriteString(" :initform nil")
		} else {
			fmt.Fprintf(&b, " :initform %d", *sd.Initform)
		}
	}
	if sd.Reader {
		fmt.Fprintf(&b, " :reader %s", r.accName(0, sd.Name))
	}
	if sd.Writer {
		fmt.Fprintf(&b, " :writer %s", r.accName(1, sd.Name))
	}
	if sd.Accessor {
		fmt.Fprintf(&b, " :accessor %s", r.accName(2, sd.Name))
	}
	b.WriteString(")")
	return b.String()
}

// symbol of a precedence list -> number
func (r *runner) nameNum(sym string) (int, bool) {
	switch sym {
	case "standard-object":
		return soName, true
	case "t":
		return ttName, true
	}
	var k, j int
	if n, err := fmt.Sscanf(sym, "k%dc%d", &k, &j); err == nil && n == 2 && k == r.k {
		return j, true
	}
	return 0, false
}

func (r *runner) namesOf(v slip.Object) ([]int, bool) {
	var out []int
	l, ok := v.(slip.List)
	if v != nil && !ok {
		return nil, false
	}
	for _, e := range l {
		sym, isSym := e.(slip.Symbol)
		if !isSym {
			return nil, false
		}
		n, known := r.nameNum(string(sym))
		if !known {
			return nil, false
		}
		out = append(out, n)
	}
	return out, true
}

// No operation of a case can loop; the watchdog only guards the run against a hang introduced by a change.
// It is generous because an abandoned evaluation would go on mutating the class registry behind the harness
// (a 5 s limit once expired on a loaded machine and produced a class object the harness had not seen).
func (r *runner) eval(src string) common.Outcome {
	o := common.EvalTimeout(r.scope, src, 120*time.Second)
	if o.Err == "timeout" && r.bad == "" {
		r.bad = "evaluation did not return within 120 s: " + src
	}
	return o
}

func (r *runner) record(g, lisp, gob, shown string) {
	r.gops = append(r.gops, g)
	r.gobs = append(r.gobs, gob)
	r.recs = append(r.recs, opRec{Lisp: lisp, Obs: shown})
}

func errObs(o common.Outcome) (string, string) {
	return "OErr", "!" + o.Err + ": " + o.Msg
}

// the class table of the case as the implementation holds it now
func (r *runner) tableObs() (string, string) {
	var entries, shown []string
	for j := 0; j < nClasses; j++ {
		c := slip.FindClass(r.cname(j))
		if c == nil {
			entries = append(entries, "None")
			continue
		}
		sc, ok := c.(*clos.StandardClass)
		id, known := r.ids[sc]
		if !ok || !known {
			r.bad = "class " + r.cname(j) + " is registered with an object no defclass of the case returned"
			entries = append(entries, "None")
			continue
		}
		var inh []int
		for _, ic := range sc.InheritsList() {
			isc, _ := ic.(*clos.StandardClass)
			iid, has := r.ids[isc]
			if !has {
				r.bad = "inherit list of " + r.cname(j) + " holds an unknown class object"
				iid = 99
			}
			inh = append(inh, iid)
		}
		po := r.eval(fmt.Sprintf("(class-precedence '%s)", r.cname(j)))
		prec, pok := r.namesOf(po.Value)
		if po.Err != "" || !pok {
			r.bad = "class-precedence of " + r.cname(j) + " is not a list of known names: " + common.ShowOutcome(po)
		}
		entries = append(entries, fmt.Sprintf("Some (%d, %s, %s)", id, gNats(inh), gNats(prec)))
		shown = append(shown, fmt.Sprintf("%s=#%d inherit%v precedence%v", r.cname(j), id, inh, prec))
	}
	return "OTable [" + strings.Join(entries, "; ") + "]", strings.Join(shown, " | ")
}

func (r *runner) defclass(f classForm) {
	if r.bad != "" {
		return
	}
	slots := make([]string, len(f.Slots))
	gslots := make([]string, len(f.Slots))
	for i, sd := range f.Slots {
		slots[i] = r.slotLisp(sd)
		gslots[i] = gSlot(sd)
	}
	supers := make([]string, len(f.Supers))
	for i, s := range f.Supers {
		supers[i] = r.cname(s)
	}
	lisp := fmt.Sprintf("(defclass %s (%s) (%s))", r.cname(f.Name), strings.Join(supers, " "), strings.Join(slots, " "))
	g := fmt.Sprintf("ODefclass %d %s [%s]", f.Name, gNats(f.Supers), strings.Join(gslots, "; "))
	o := r.eval(lisp)
	if o.Err != "" {
		gob, shown := errObs(o)
		r.record(g, lisp, gob, shown)
		return
	}
	if sc, ok := o.Value.(*clos.StandardClass); ok {
		r.ids[sc] = r.nextID
	} else {
		r.bad = "defclass did not return a standard-class"
	}
	r.nextID++
	gob, shown := r.tableObs()
	r.record(g, lisp, gob, shown)
}

func (r *runner) slotState(inst slip.Instance, s int) (string, string) {
	v, has := inst.SlotValue(slip.Symbol(fmt.Sprintf("s%d", s)))
	switch {
	case !has:
		return "SMissing", "-"
	case v == slip.Unbound:
		return "SUnbound", "unbound"
	case v == nil:
		return "SVal (-1)", "nil"
	}
	if fx, ok := v.(slip.Fixnum); ok {
		return fmt.Sprintf("SVal (%d)", int64(fx)), fmt.Sprint(int64(fx))
	}
	r.bad = "slot value is neither an integer, nil nor the unbound marker: " + slip.ObjectString(v)
	return "SMissing", "?"
}

func (r *runner) makeInstance(n int, args [][2]int) {
	if r.bad != "" {
		return
	}
	var la, ga []string
	for _, a := range args {
		la = append(la, fmt.Sprintf(":i%d %d", a[0], a[1]))
		ga = append(ga, fmt.Sprintf("(%d, (%d)%%Z)", a[0], a[1]))
	}
	lisp := fmt.Sprintf("(setq i%d (make-instance '%s %s))", r.ninst, r.cname(n), strings.Join(la, " "))
	g := fmt.Sprintf("OMake %d [%s]", n, strings.Join(ga, "; "))
	o := r.eval(lisp)
	if o.Err != "" {
		gob, shown := errObs(o)
		r.record(g, lisp, gob, shown)
		return
	}
	inst, ok := o.Value.(slip.Instance)
	if !ok {
		r.bad = "make-instance did not return an instance"
		r.record(g, lisp, "OErr", "?")
		return
	}
	r.ninst++
	var st, sh []string
	for s := 0; s < nSlots; s++ {
		a, b := r.slotState(inst, s)
		st = append(st, a)
		sh = append(sh, fmt.Sprintf("s%d=%s", s, b))
	}
	r.record(g, lisp, "OInst ["+strings.Join(st, "; ")+"]", strings.Join(sh, " "))
}

// value results: integer, nil (= -1), the unbound marker, unbound-slot
func (r *runner) valueObs(o common.Outcome) (string, string) {
	if o.Err != "" {
		if o.Err == "unbound-slot" {
			return "OUnb", "!unbound-slot"
		}
		return errObs(o)
	}
	switch tv := o.Value.(type) {
	case nil:
		return "OV (-1)", "nil"
	case slip.Fixnum:
		return fmt.Sprintf("OV (%d)", int64(tv)), fmt.Sprint(int64(tv))
	}
	if o.Value == slip.Unbound {
		return "OUnb", "<unbound>"
	}
	r.bad = "unexpected value " + o.Printed
	return "OErr", o.Printed
}

func (r *runner) simple(g, lisp string, conv func(common.Outcome) (string, string)) {
	if r.bad != "" {
		return
	}
	o := r.eval(lisp)
	gob, shown := conv(o)
	r.record(g, lisp, gob, shown)
}

func (r *runner) boolObs(o common.Outcome) (string, string) {
	if o.Err != "" {
		return errObs(o)
	}
	if o.Value == nil {
		return "OB false", "nil"
	}
	return "OB true", o.Printed
}

func (r *runner) namesObs(o common.Outcome) (string, string) {
	if o.Err != "" {
		return errObs(o)
	}
	if ns, ok := r.namesOf(o.Value); ok {
		return "ONames " + gNats(ns), o.Printed
	}
	// the dispatch trace is a list of integers
	if l, ok := o.Value.(slip.List); ok || o.Value == nil {
		var ns []int
		good := true
		for _, e := range l {
			if fx, isFix := e.(slip.Fixnum); isFix {
				ns = append(ns, int(fx))
			} else {
				good = false
			}
		}
		if good {
			return "ONames " + gNats(ns), o.Printed
		}
	}
	r.bad = "unexpected list " + o.Printed
	return "OErr", o.Printed
}

// dispatchObs: the classes whose :before methods recorded themselves, in order; the empty list when only the silent
// primary on t ran (the model knows that method: w0 holds it, the call is cached like any other)
func (r *runner) dispatchObs(o common.Outcome) (string, string) {
	if o.Err == "" && o.Value == nil {
		return "ONames []", "nil (no :before method applicable)"
	}
	return r.namesObs(o)
}

func doneObs(o common.Outcome) (string, string) {
	if o.Err != "" {
		return errObs(o)
	}
	return "ODone", o.Printed
}

// ---- generation ---------------------------------------------------------------------------

func genSlots(rng *common.Rng, cls int, variant int) []slotDef {
	n := rng.Intn(4)
	if rng.Chance(25) {
		n = 2 + rng.Intn(2)
	}
	perm := []int{0, 1, 2, 3}
	for i := 3; i > 0; i-- {
		j := rng.Intn(i + 1)
		perm[i], perm[j] = perm[j], perm[i]
	}
	var out []slotDef
	for i := 0; i < n; i++ {
		sd := slotDef{Name: perm[i]}
		na := rng.Intn(3)
		used := map[int]bool{} // an initarg is not written twice on one slot
		for a := 0; a < na; a++ {
			ia := rng.Intn(nSlots)
			if rng.Chance(55) {
				ia = sd.Name // the usual :initarg named after the slot (shared with other classes)
			}
			// one initarg on two slots of the same form, or of a class and its superclass, fills both (C12-5)
			if !used[ia] {
				used[ia] = true
				sd.Initargs = append(sd.Initargs, ia)
			}
		}
		switch x := rng.Intn(10); {
		case x < 5:
			v := int64(100 + 20*cls + 4*variant + sd.Name) // tells which definition it came from
			sd.Initform = &v
		case x < 6:
			v := int64(-1)
			sd.Initform = &v
		}
		sd.Reader = rng.Chance(35)
		sd.Writer = rng.Chance(25)
		sd.Accessor = rng.Chance(30)
		out = append(out, sd)
	}
	return out
}

func genSupers(rng *common.Rng, rank []int, j int, undefined []int) []int {
	var lower []int
	for c, rk := range rank {
		if rk >= 0 && rk < rank[j] {
			lower = append(lower, c)
		}
	}
	var out []int
	seen := map[int]bool{}
	want := rng.Intn(4)
	if want == 3 && rng.Chance(50) {
		want = 2
	}
	for len(out) < want && len(out) < len(lower) {
		c := common.Pick(rng, lower)
		if !seen[c] {
			seen[c] = true
			out = append(out, c)
		}
	}
	if len(undefined) > 0 && rng.Chance(4) {
		out = append(out, common.Pick(rng, undefined)) // a superclass that is never defined
	}
	return out
}

func Run(ctx *common.Ctx) {
	ncases := 640
	if ctx.Thorough() {
		ncases = 3000 // the class registry only grows and defclass scans it: run time is quadratic
	}
	var terms []string
	var descs []any
	distinct := map[string]bool{}
	for k := 0; k < ncases; k++ {
		rng := ctx.Rng
		r := &runner{ctx: ctx, k: k, scope: slip.NewScope(), ids: map[*clos.StandardClass]int{}}
		for i := 0; i < 24; i++ {
			r.scope.Let(slip.Symbol(fmt.Sprintf("i%d", i)), nil)
		}
		// the generic has a primary method on t that records nothing: a call whose only applicable
		// methods are :before daemons is no-applicable-method since repo_fixes/C10-3 (it used to run them)
		if o := r.eval(fmt.Sprintf("(defvar %s nil) (defgeneric %s (o)) (defmethod %s ((o t)) nil)", r.trname(), r.gname(), r.gname())); o.Err != "" {
			ctx.Violate("case set-up failed", r.gname(), common.ShowOutcome(o), nil)
			continue
		}
		// the class DAG: a random rank per defined class, supers among lower ranks
		nc := 2 + rng.Intn(4)
		if rng.Chance(40) {
			nc = 4 + rng.Intn(2)
		}
		rank := make([]int, nClasses)
		order := []int{0, 1, 2, 3, 4}
		for i := 4; i > 0; i-- {
			j := rng.Intn(i + 1)
			order[i], order[j] = order[j], order[i]
		}
		for i := range rank {
			rank[i] = -1
		}
		var undefined []int
		for i, c := range order {
			if i < nc {
				rank[c] = i
			} else {
				undefined = append(undefined, c)
			}
		}
		chainy := rng.Chance(35) // deep hierarchies: each class prefers the class just below it
		forms := map[int]classForm{}
		var defined []int
		for _, c := range order[:nc] {
			f := classForm{Name: c, Supers: genSupers(rng, rank, c, undefined), Slots: genSlots(rng, c, 0)}
			if chainy && rank[c] > 0 {
				below := order[rank[c]-1]
				has := false
				for _, s := range f.Supers {
					has = has || s == below
				}
				if !has {
					f.Supers = append([]int{below}, f.Supers...)
					if len(f.Supers) > 2 {
						f.Supers = f.Supers[:2]
					}
				}
			}
			forms[c] = f
			defined = append(defined, c)
		}
		// the order in which the forms are evaluated: any permutation (forward references)
		evalOrder := append([]int{}, defined...)
		for i := len(evalOrder) - 1; i > 0; i-- {
			j := rng.Intn(i + 1)
			evalOrder[i], evalOrder[j] = evalOrder[j], evalOrder[i]
		}
		if rng.Chance(15) { // the textbook order now and then
			sort.Slice(evalOrder, func(a, b int) bool { return rank[evalOrder[a]] < rank[evalOrder[b]] })
		}
		// optional redefinition of one class, somewhere after its definition
		redef := -1
		redefAt := -1
		var redefForm classForm
		if rng.Chance(55) {
			redef = common.Pick(rng, defined)
			if chainy && rng.Chance(50) {
				redef = order[0] // the root of a chain: classes two and more levels below must follow (C12-2)
			}
			redefForm = classForm{Name: redef, Supers: genSupers(rng, rank, redef, undefined), Slots: genSlots(rng, redef, 1)}
			switch x := rng.Intn(10); {
			case x < 3:
				redefForm.Supers = forms[redef].Supers // only the slots change
			case x < 5:
				redefForm.Slots = forms[redef].Slots // only the supers change
			}
			pos := 0
			for i, c := range evalOrder {
				if c == redef {
					pos = i
				}
			}
			redefAt = pos + 1 + rng.Intn(len(evalOrder)-pos)
			if rng.Chance(60) {
				redefAt = len(evalOrder) // after everything is defined: the usual situation
			}
			// a new superclass that is defined only after the redefinition (C12-3): the inheriting classes wait
			if rng.Chance(30) {
				var lower []int
				for _, c := range defined {
					if rank[c] < rank[redef] {
						lower = append(lower, c)
					}
				}
				if len(lower) > 0 {
					later := common.Pick(rng, lower)
					pr, pl := -1, -1
					for i, c := range evalOrder {
						if c == redef {
							pr = i
						}
						if c == later {
							pl = i
						}
					}
					if pl < pr {
						evalOrder[pl], evalOrder[pr] = evalOrder[pr], evalOrder[pl]
						pl, pr = pr, pl
					}
					if pl-pr >= 2 || rng.Chance(50) {
						redefAt = pl // evaluated just before `later` is defined
						has := false
						for _, sp := range redefForm.Supers {
							has = has || sp == later
						}
						if !has {
							redefForm.Supers = append(redefForm.Supers, later)
						}
						ctx.Hist("redefinition-with-superclass-defined-later")
					}
				}
			}
		}
		hasMethod := map[int]bool{}
		defMethod := func(c int) {
			hasMethod[c] = true
			r.simple(fmt.Sprintf("ODefMethod %d", c),
				fmt.Sprintf("(progn (defmethod %s :before ((o %s)) (setq %s (cons %d %s))) nil)", r.gname(), r.cname(c), r.trname(), c, r.trname()), doneObs)
			ctx.Hist("defmethod")
		}
		dispatch := func(i int) {
			r.simple(fmt.Sprintf("ODispatch %d", i),
				fmt.Sprintf("(progn (setq %s nil) (%s i%d) (reverse %s))", r.trname(), r.gname(), i, r.trname()), r.dispatchObs)
			ctx.Hist("dispatch")
		}
		freshMethodClass := func() int {
			var without []int
			for c := 0; c < nClasses; c++ {
				if !hasMethod[c] {
					without = append(without, c)
				}
			}
			if len(without) > 0 && rng.Chance(75) {
				return common.Pick(rng, without)
			}
			return rng.Intn(nClasses)
		}
		randomOps := func(n int) {
			for x := 0; x < n && r.bad == ""; x++ {
				i := 0
				if r.ninst > 0 {
					i = rng.Intn(r.ninst)
					if rng.Chance(50) {
						i = r.ninst - 1 - rng.Intn(min(2, r.ninst)) // recent instances more often
					}
				}
				s := rng.Intn(nSlots)
				kind := rng.Intn(100)
				if r.ninst == 0 && kind >= 30 && kind < 94 {
					kind = rng.Intn(30)
				}
				switch {
				case kind < 30:
					c := common.Pick(rng, defined)
					if rng.Chance(4) {
						c = rng.Intn(nClasses)
					}
					var args [][2]int
					for a := 0; a < nSlots; a++ {
						if rng.Chance(30) {
							args = append(args, [2]int{a, 200 + 10*r.ninst + a})
						}
					}
					for a := len(args) - 1; a > 0; a-- {
						b := rng.Intn(a + 1)
						args[a], args[b] = args[b], args[a]
					}
					r.makeInstance(c, args)
					ctx.Hist(fmt.Sprintf("make-instance:%d-initargs", len(args)))
				case kind < 38:
					r.simple(fmt.Sprintf("OSlotValue %d %d", i, s), fmt.Sprintf("(slot-value i%d 's%d)", i, s), r.valueObs)
					ctx.Hist("slot-value")
				case kind < 42:
					r.simple(fmt.Sprintf("OBoundp %d %d", i, s), fmt.Sprintf("(slot-boundp i%d 's%d)", i, s), r.boolObs)
					ctx.Hist("slot-boundp")
				case kind < 48:
					v := 500 + x
					r.simple(fmt.Sprintf("OSetSlot %d %d (%d)%%Z", i, s, v), fmt.Sprintf("(setf (slot-value i%d 's%d) %d)", i, s, v), r.valueObs)
					ctx.Hist("setf-slot-value")
				case kind < 51:
					r.simple(fmt.Sprintf("OMakunbound %d %d", i, s), fmt.Sprintf("(slot-makunbound i%d 's%d)", i, s), doneObs)
					ctx.Hist("slot-makunbound")
				case kind < 70:
					ak := rng.Intn(4)
					v := 700 + x
					var lisp string
					switch ak {
					case 0, 2:
						lisp = fmt.Sprintf("(%s i%d)", r.accName(ak, s), i)
					case 1:
						lisp = fmt.Sprintf("(%s i%d %d)", r.accName(ak, s), i, v)
					default:
						lisp = fmt.Sprintf("(setf (%s i%d) %d)", r.accName(ak, s), i, v)
					}
					r.simple(fmt.Sprintf("OCall %d %d %d (%d)%%Z", ak, s, i, v), lisp, r.valueObs)
					ctx.Hist([]string{"reader", "writer", "accessor", "setf-accessor"}[ak])
					if (ak == 1 || ak == 3) && rng.Chance(50) { // read back what the writer stored
						r.simple(fmt.Sprintf("OSlotValue %d %d", i, s), fmt.Sprintf("(slot-value i%d 's%d)", i, s), r.valueObs)
						ctx.Hist("slot-value")
					}
				case kind < 76:
					n := rng.Intn(nClasses)
					if rng.Chance(10) {
						n = soName
					}
					tn := r.cname(n)
					if n == soName {
						tn = "standard-object"
					}
					r.simple(fmt.Sprintf("OTypep %d %d", i, n), fmt.Sprintf("(typep i%d '%s)", i, tn), r.boolObs)
					ctx.Hist("typep")
				case kind < 81:
					r.simple(fmt.Sprintf("OClassOf %d", i), fmt.Sprintf("(class-precedence (class-of i%d))", i), r.namesObs)
					ctx.Hist("class-of")
				case kind < 89:
					dispatch(i)
				case kind < 94:
					// a call, a method for a class that had none, the same call again
					dispatch(i)
					defMethod(freshMethodClass())
					dispatch(i)
					ctx.Hist("dispatch-defmethod-dispatch")
				default:
					defMethod(freshMethodClass())
				}
			}
		}
		// a few methods up front so that dispatch has something to find
		for _, c := range defined {
			if rng.Chance(40) {
				defMethod(c)
			}
		}
		// around a redefinition: a call of the user generic with an instance of some class (fills the dispatch
		// cache), the redefinition, the same call with a new instance of the same class (C12-4: defclass drops the caches)
		probeClass := -1
		cacheProbeBefore := func() {
			if rng.Chance(60) && r.bad == "" {
				probeClass = common.Pick(rng, defined)
				before := r.ninst
				r.makeInstance(probeClass, nil)
				ctx.Hist("make-instance:0-initargs")
				if r.ninst > before {
					dispatch(r.ninst - 1)
					ctx.Hist("cache-probe")
				} else {
					probeClass = -1
				}
			}
		}
		cacheProbeAfter := func() {
			if probeClass >= 0 && r.bad == "" {
				before := r.ninst
				r.makeInstance(probeClass, nil)
				ctx.Hist("make-instance:0-initargs")
				if r.ninst > before {
					dispatch(r.ninst - 1)
				}
				probeClass = -1
			}
		}
		for i, c := range evalOrder {
			if i == redefAt {
				cacheProbeBefore()
				r.defclass(redefForm)
				cacheProbeAfter()
				randomOps(rng.Intn(4))
			}
			r.defclass(forms[c])
			if rng.Chance(45) {
				randomOps(rng.Intn(3))
			}
		}
		randomOps(3 + rng.Intn(6))
		if redefAt == len(evalOrder) {
			cacheProbeBefore()
			r.defclass(redefForm)
			cacheProbeAfter()
			randomOps(4 + rng.Intn(6))
		}
		shape := fmt.Sprintf("classes:%d", nc)
		ctx.Hist(shape)
		if redef >= 0 {
			ctx.Hist("redefinition")
		}
		fwd := false
		seenDef := map[int]bool{}
		for _, c := range evalOrder {
			for _, s := range forms[c].Supers {
				if !seenDef[s] {
					fwd = true
				}
			}
			seenDef[c] = true
		}
		if fwd {
			ctx.Hist("forward-reference")
		}
		d := map[string]any{"case": k, "steps": r.recs}
		if r.bad != "" {
			ctx.Violate("the implementation showed something the harness cannot express", d, r.bad, nil)
			continue
		}
		ctx.Meta.Evaluations++
		sig := strings.Join(r.gops, ";")
		if (fwd || redef >= 0) && !distinct[sig] {
			distinct[sig] = true
		}
		terms = append(terms, fmt.Sprintf("(%s,\n    %s)", common.GList(r.gops), common.GList(r.gobs)))
		descs = append(descs, d)
		if k%97 == 3 {
			ctx.Sample(d)
		}
	}
	ctx.Meta.DistinctNontrivial = len(distinct)
	ctx.Meta.Rule = "per case: a random class DAG over <= 5 class names (0-3 direct superclasses, now and then one that is never defined), " +
		"0-3 slots per class over 4 slot names with 0-2 initargs (usually named after the slot, so shared along the hierarchy), initforms at several " +
		"levels (integers telling the defining class, or nil), reader/writer/accessor flags; the defclass forms evaluated in a random permutation " +
		"(forward references); with probability 0.55 one class redefined (supers and/or slots changed; often the root of a chain, or with a new " +
			"superclass that is defined only later); an initarg may sit on several slots of a form; interleaved make-instance with a random " +
		"subset of initargs, slot-value/boundp/setf/makunbound, accessor calls, typep, class-of, defmethod on and calls of a user generic; " +
		"distinct = distinct histories with a forward reference or a redefinition"
	header := "From C12 Require Import Model Spec Corr.\n"
	footer := "Definition res := Eval vm_compute in check_all cases.\nPrint res.\n" +
		"Definition gcount := Eval vm_compute in guard_count cases.\nPrint gcount.\n" +
		"Definition ucount := Eval vm_compute in unguarded_count cases.\nPrint ucount.\n"
	ctx.WriteShards("cases", header, "case", footer, terms, descs, 16)
	ctx.ReplayKnownLisp()
	replayOrderFinding(ctx)
}

// The classChanged finding (fixed by repo_fixes/C12-2) depended on Go's map iteration order: the witness (a chain
// a <- b <- c, a redefined under z) is run `attempts` times with fresh names.  On the unchanged code c was merged
// before b in half of the runs and then missed z.  Some stale run = the defect reproduced (a regression now that the
// finding is recorded as fixed).  EVERY run stale = redefinition no longer reaches the second level at all:
// reported as a violation in its own right.
func replayOrderFinding(ctx *common.Ctx) {
	const id = "C12-redefinition-order-of-subclasses"
	raw, has := ctx.Known[id]
	if !has {
		return
	}
	var w struct {
		Template string `json:"template"`
		Expected string `json:"expected"`
		Attempts int    `json:"attempts"`
	}
	if err := json.Unmarshal(raw, &w); err != nil || w.Template == "" || w.Attempts < 1 {
		return
	}
	stale, ran, seen, last, lastExp := 0, 0, "", "", ""
	for a := 0; a < w.Attempts; a++ {
		src := strings.ReplaceAll(w.Template, "@", fmt.Sprintf("kf%d", a))
		exp := strings.ReplaceAll(w.Expected, "@", fmt.Sprintf("kf%d", a))
		got := strings.Join(strings.Fields(common.ShowOutcome(common.EvalTimeout(slip.NewScope(), src, 120*time.Second))), " ")
		last, lastExp = src, exp
		if got == "!timeout" {
			continue // a loaded machine, not a stale list
		}
		ran++
		if got != exp {
			stale++
			seen = got
		}
	}
	ctx.Hist(fmt.Sprintf("order-witness-stale-runs:%d-of-%d", stale, ran))
	if ran >= 20 && stale == ran {
		ctx.Violate("a redefinition is never reflected in a class two levels below the redefined class (all runs of the witness; "+
			"the unchanged code gets it right whenever Go's map order visits the direct subclass first)", last, seen, lastExp)
	}
	if seen == "" {
		seen = "every run gave the expected lists"
	}
	ctx.KnownResult(id, stale > 0, seen)
}
