package c07

import (
	"fmt"
	"os"
	"path/filepath"
	"strings"
	"sync"
	"sync/atomic"
	"time"

	"github.com/ohler55/slip"
	"github.com/ohler55/slip/pkg/cl"
	"github.com/ohler55/slip/pkg/gi"
	"verifharness/common"
)

// ---- the (tr k) function: records k plus the lock / open-file state observed on the implementation ----

type obsEv struct {
	K, Locks, Files uint64
}
type recorder struct {
	mu      sync.Mutex
	evs     []obsEv
	mutex   [3]*gi.Mutex
	dir     string
	noFiles bool // the program has no with-open-file: nothing to count
}

var (
	curDir string
	dirSeq int
)

// fileDir returns the directory holding f0, f1, f2 for the next case.
func fileDir(root string) string {
	if curDir == "" {
		dirSeq++
		curDir = filepath.Join(root, fmt.Sprint(dirSeq))
		if err := os.Mkdir(curDir, 0o755); err != nil {
			panic(err)
		}
		for i := 0; i < 3; i++ {
			if err := os.WriteFile(filepath.Join(curDir, fmt.Sprintf("f%d", i)), []byte("x\n"), 0o644); err != nil {
				panic(err)
			}
		}
	}
	return curDir
}

func hasKind(f *Form, k string) bool {
	if f == nil {
		return false
	}
	if f.K == k {
		return true
	}
	for _, x := range f.A {
		if hasKind(x, k) {
			return true
		}
	}
	for _, x := range f.B {
		if hasKind(x, k) {
			return true
		}
	}
	if hasKind(f.C, k) {
		return true
	}
	for _, c := range f.Cl {
		if hasKind(c.Test, k) {
			return true
		}
		for _, x := range c.Body {
			if hasKind(x, k) {
				return true
			}
		}
	}
	for _, it := range f.Items {
		if hasKind(it.F, k) {
			return true
		}
	}
	return false
}

func containsKind(b built, k string) bool {
	if hasKind(b.main, k) {
		return true
	}
	for _, body := range b.g.defs {
		for _, f := range body {
			if hasKind(f, k) {
				return true
			}
		}
	}
	return false
}

var (
	recMu sync.Mutex
	recs  = map[int64]*recorder{}
)

// probe reads the state of the three mutexes (TryLock on the Go object) and counts the descriptors of this
// process that are open on <dir>/f0..f2 (/proc/self/fd).
func (r *recorder) probe() (locks, files uint64) {
	for i, m := range r.mutex {
		sm := (*sync.Mutex)(m)
		if sm.TryLock() {
			sm.Unlock()
		} else {
			locks |= 1 << uint(i)
		}
	}
	if r.noFiles {
		return
	}
	ents, err := os.ReadDir("/proc/self/fd")
	if err != nil {
		panic(err)
	}
	for _, e := range ents {
		target, err := os.Readlink("/proc/self/fd/" + e.Name())
		if err != nil || !strings.HasPrefix(target, r.dir+"/f") {
			continue
		}
		switch target[len(r.dir)+2:] {
		case "0":
			files += 1
		case "1":
			files += 8
		case "2":
			files += 64
		}
	}
	return
}

type trFn struct{ slip.Function }

func (f *trFn) Call(s *slip.Scope, args slip.List, depth int) slip.Object {
	id, _ := s.Get(slip.Symbol("c07-rec")).(slip.Fixnum)
	recMu.Lock()
	r := recs[int64(id)]
	recMu.Unlock()
	if r != nil {
		k, _ := args[0].(slip.Fixnum)
		l, fl := r.probe()
		r.mu.Lock()
		r.evs = append(r.evs, obsEv{uint64(k), l, fl})
		r.mu.Unlock()
	}
	return args[0]
}

func defineTr() {
	defer func() { _ = recover() }()
	slip.Define(
		func(args slip.List) slip.Object {
			f := trFn{Function: slip.Function{Name: "tr", Args: args}}
			f.Self = &f
			return &f
		},
		&slip.FuncDoc{Name: "tr", Args: []*slip.DocArg{{Name: "id", Type: "fixnum"}}, Return: "fixnum",
			Text: "verification trace"},
		&slip.UserPkg)
}

// ---- observed values -> Gallina ---------------------------------------------------------------------

func (nm *namer) tagOfName(o slip.Object) (int64, bool) {
	if o == nil {
		return 0, true
	}
	sym, ok := o.(slip.Symbol)
	if !ok {
		return 0, false
	}
	s := string(sym)
	var n int64
	if strings.HasPrefix(s, nm.fnPrefix+"_") {
		if _, err := fmt.Sscanf(s[len(nm.fnPrefix)+1:], "%d", &n); err == nil {
			return 100 + n, true
		}
	}
	if _, err := fmt.Sscanf(s, "b%d", &n); err == nil {
		return n, true
	}
	return 0, false
}

func (nm *namer) gValue(o slip.Object) (string, bool) {
	switch v := o.(type) {
	case nil:
		return "VNil", true
	case slip.Fixnum:
		return fmt.Sprintf("(VInt (%d)%%Z)", int64(v)), true
	case slip.Values:
		if len(v) == 2 && v[0] == nil {
			return "VNilVals", true // what ignore-errors returns after an error
		}
		return "", false
	case slip.List:
		if len(v) == 0 {
			return "VNil", true
		}
		xs := make([]string, len(v))
		for i, e := range v {
			x, ok := nm.gValue(e)
			if !ok {
				return "", false
			}
			xs[i] = x
		}
		return "(VList [" + strings.Join(xs, "; ") + "])", true
	case *slip.ReturnResult:
		t, ok := nm.tagOfName(v.Tag)
		inner, ok2 := nm.gValue(v.Result)
		if !ok || !ok2 {
			return "", false
		}
		return fmt.Sprintf("(VRetM %d%%N %s)", t, inner), true
	case *cl.GoTo:
		switch t := v.Tag.(type) {
		case slip.Fixnum:
			return fmt.Sprintf("(VGoM %d%%N)", int64(t)), true
		case slip.Symbol:
			var n int64
			if _, err := fmt.Sscanf(string(t), "g%d", &n); err == nil {
				return fmt.Sprintf("(VGoM %d%%N)", n), true
			}
		}
		return "", false
	}
	if o == slip.True {
		return "VT", true
	}
	return "", false
}

type caseDesc struct {
	Program string   `json:"program"`
	Result  string   `json:"result"`
	Trace   []string `json:"trace"`
	Final   string   `json:"final_locks_files"`
	Shape   string   `json:"shape"`
}

type built struct {
	g    *gen
	main *Form
	vars []int64
}

// runCase evaluates one program on the interpreter. A run that does not finish is repeated once (fresh
// scope, fresh mutexes, longer watchdog) so that a slow machine is not mistaken for a program parked on a mutex.
func runCase(ctx *common.Ctx, id int64, dir string, b built) (term string, desc caseDesc, ok bool) {
	var hung bool
	if term, desc, ok, hung = runCaseOnce(ctx, id, dir, b, 1500*time.Millisecond); hung {
		ctx.Hist("watchdog-retry")
		term, desc, ok, _ = runCaseOnce(ctx, id+5000000, dir, b, 5*time.Second)
	}
	return
}

func runCaseOnce(ctx *common.Ctx, id int64, dir string, b built, limit time.Duration) (term string, desc caseDesc, ok, hung bool) {
	// a goroutine parked for ever by an earlier case (hang) keeps its streams open: they must not be counted
	// here, so the files live in a directory that is replaced after every run that did not finish
	dir = fileDir(dir)
	nm := &namer{fnPrefix: fmt.Sprintf("f%d", id), dir: dir}
	scope := slip.NewScope()
	rec := &recorder{dir: dir}
	rec.noFiles = !containsKind(b, "WithFile")
	for i := range rec.mutex {
		m, _ := common.EvalIn(scope, "(make-mutex)").Value.(*gi.Mutex)
		if m == nil {
			panic("make-mutex did not return a mutex")
		}
		rec.mutex[i] = m
		scope.Let(slip.Symbol(fmt.Sprintf("m%d", i)), m)
	}
	for i, v := range b.vars {
		scope.Let(slip.Symbol(fmt.Sprintf("v%d", i)), slip.Fixnum(v))
	}
	scope.Let(slip.Symbol("c07-rec"), slip.Fixnum(id))
	// a run the watchdog gives up on must not go on evaluating next to the following cases (slip's function
	// table is not made for that): once abandoned, every further call in it fails
	// ... and a run that makes more calls than any generated program needs (a changed interpreter can turn a
	// bounded recursion into an endless one, which would end the whole process with a Go stack overflow) is
	// abandoned the same way and reported as the observation "did not finish" (MOOF, never what the model says)
	var abandoned, runaway atomic.Bool
	var calls atomic.Int64
	scope.InterruptCheck = func() {
		// (a *slip.Panic: trace.go normalAfter passes it on as it is; for any other value it would build a
		// condition object by calling Lisp code, which runs into this check again, without end)
		if abandoned.Load() {
			panic(&slip.Panic{Message: "c07: run abandoned"})
		}
		if calls.Add(1) > 50000 {
			runaway.Store(true)
			abandoned.Store(true)
			panic(&slip.Panic{Message: "c07: call budget exhausted"})
		}
	}
	recMu.Lock()
	recs[id] = rec
	recMu.Unlock()
	var src strings.Builder
	for i, body := range b.g.defs {
		src.WriteString(nm.defun(i, body, b.g.dctx[i]) + "\n")
	}
	main := nm.Lisp(b.main)
	if def := common.EvalIn(scope, src.String()); def.Err != "" {
		ctx.Violate("defun of a generated function failed", src.String(), def.Err+": "+def.Msg, nil)
		return
	}
	out := common.EvalTimeout(scope, main, limit)
	rec.mu.Lock()
	evs := append([]obsEv(nil), rec.evs...)
	rec.mu.Unlock()
	fl, ff := rec.probe()
	recMu.Lock()
	delete(recs, id)
	recMu.Unlock()

	var gres string
	switch {
	case runaway.Load():
		gres = "MOOF"
		ctx.Hist("call-budget-exhausted")
	case out.Err == "timeout":
		gres = "MHang"
		hung = true
		abandoned.Store(true)
		curDir = "" // whatever this run holds open stays open: next case gets new files
		// the goroutine is parked on its mutex for ever; what it holds is what the model says a hang holds
	case out.Err != "":
		if common.Fault(out.Msg) || out.Err == "go-panic" {
			ctx.Violate("host fault while unwinding", src.String()+main, out.Err+": "+out.Msg, nil)
			return
		}
		gres = "(MErr " + classOf(out.Err) + ")"
	default:
		v, okv := nm.gValue(out.Value)
		if !okv {
			ctx.Violate("result outside the modelled values", src.String()+main, slip.ObjectString(out.Value), nil)
			return
		}
		gres = "(MVal " + v + ")"
	}
	gdefs := make([]string, len(b.g.defs))
	for i, body := range b.g.defs {
		gdefs[i] = "(" + gCtx(b.g.dctx[i]) + ", " + gForms(body) + ")"
	}
	gvars := make([]string, len(b.vars))
	for i, v := range b.vars {
		gvars[i] = fmt.Sprintf("(%d)%%Z", v)
	}
	gobs := make([]string, len(evs))
	desc.Trace = make([]string, len(evs))
	for i, e := range evs {
		gobs[i] = fmt.Sprintf("(%d, %d, %d)%%N", e.K, e.Locks, e.Files)
		desc.Trace[i] = fmt.Sprintf("%d locks=%d files=%d", e.K, e.Locks, e.Files)
	}
	term = fmt.Sprintf("(([%s], %s), [%s], %s, [%s], (%d, %d)%%N)", strings.Join(gdefs, "; "), Gallina(b.main),
		strings.Join(gvars, "; "), gres, strings.Join(gobs, "; "), fl, ff)
	desc.Program = src.String() + main
	desc.Result = common.ShowOutcome(out)
	if out.Err == "" {
		desc.Result = gres
	}
	desc.Final = fmt.Sprintf("locks=%d files=%d", fl, ff)
	return term, desc, true, hung
}

func Run(ctx *common.Ctx) {
	defineTr()
	// slip registers a placeholder function for an unknown name the first time a definition body mentions
	// it (function.go CompileList); from then on a call of that name is an ordinary call that signals
	// undefined-function. Before that, the call fails while the enclosing form compiles its argument, with a
	// bare condition that ignore-errors swallows differently. The generated programs must not depend on
	// which of them ran first, so the placeholder is registered up front (order of definition is C08's).
	if o := common.EvalIn(slip.NewScope(), "(defun c07-warm () (undefined-fn-xyz))"); o.Err != "" {
		panic("warm-up defun failed: " + o.Err + " " + o.Msg)
	}
	dir, err := os.MkdirTemp("", "c07files")
	if err != nil {
		panic(err)
	}
	defer os.RemoveAll(dir)
	nrandom := 1500
	if ctx.Thorough() {
		nrandom = 20000
	}
	var terms []string
	var descs []any
	distinct := map[string]bool{}
	var id int64
	add := func(b built, shape string) {
		id++
		term, d, ok := runCase(ctx, id, dir, b)
		if !ok {
			return
		}
		d.Shape = shape
		ctx.Meta.Evaluations++
		sig := Gallina(b.main)
		for _, body := range b.g.defs {
			sig += gForms(body)
		}
		if !distinct[sig] && len(b.g.usedKinds) > 0 && b.g.exitKind != "normal" {
			distinct[sig] = true
		}
		terms = append(terms, term)
		descs = append(descs, d)
		if len(terms)%97 == 5 {
			ctx.Sample(d)
		}
	}
	wrap := func(g *gen, d int) built {
		// most programs sit inside a block and / or a tagbody with a later tag, so that an exit of each kind
		// has a target whatever the depth
		w := []string{"none", "block", "tagbody", "block-tagbody", "tagbody-block", "block-last", "tagbody-back", "block-tagbody-back", "block-tagbody"}[g.rng.Intn(9)]
		return built{g: g, main: wrapIn(g, d, w), vars: []int64{int64(g.rng.Intn(3)), int64(g.rng.Intn(3))}}
	}
	// (1) systematic family: every form kind x position x exit kind, one level and two levels deep,
	// inside (block b (let () <spine> (tr)) (tr)) / a tagbody with a later tag
	exits := []string{"normal", "return", "go", "error"}
	for _, k1 := range kinds {
		for pos := 0; pos < 3; pos++ {
			for _, ex := range exits {
				g := &gen{rng: ctx.Rng, safe: false, forceKind: []string{k1}, forcePos: []int{pos, pos}, forceExit: ex, nilWrap: pos == 1}
				b := sysWrap(g, 1)
				ctx.Hist("sys1:" + k1)
				add(b, "sys1 "+k1+" "+ex)
			}
		}
	}
	for _, k1 := range kinds {
		for _, k2 := range kinds {
			for _, ex := range exits[1:] {
				pos := ctx.Rng.Intn(3)
				g := &gen{rng: ctx.Rng, safe: false, forceKind: []string{k1, k2}, forcePos: []int{ctx.Rng.Intn(3), ctx.Rng.Intn(3), pos, pos}, forceExit: ex, nilWrap: ctx.Rng.Chance(40)}
				b := sysWrap(g, 2)
				ctx.Hist("sys2")
				add(b, "sys2 "+k1+" "+k2+" "+ex)
			}
		}
	}
	// one program that parks itself on a mutex it already holds: the model says Hang, holding m0, file 1 open
	{
		g := &gen{rng: ctx.Rng}
		main := &Form{K: "WithMutex", N: 0, A: []*Form{g.tr(), {K: "WithFile", N: 1, A: []*Form{
			{K: "UnwindProtect", Z: 1, C: &Form{K: "WithMutex", N: 0, A: []*Form{g.tr()}}, A: []*Form{g.tr()}}}}, g.tr()}}
		ctx.Hist("hang")
		add(built{g: g, main: main, vars: []int64{0, 0}}, "relock of a held mutex")
	}
	// (1b) re-entrant exit sites: a function that calls itself while its own exit is in flight, called repeatedly
	nre := 240
	if ctx.Thorough() {
		nre = 2000
	}
	for i := 0; i < nre; i++ {
		g := &gen{rng: ctx.Rng}
		main, shape := g.reentrant()
		ctx.Hist(shape)
		add(built{g: g, main: main, vars: []int64{0, 0}}, shape)
	}
	// (1c) functions with a closure: where the defun is written x target block x position in the body
	for _, shape := range closureShapeNames {
		for _, target := range closureTargets {
			for _, pos := range closurePositions {
				g := &gen{rng: ctx.Rng}
				main, ok := g.closureCase(shape, target, pos)
				if !ok {
					continue
				}
				ctx.Hist("closure:" + shape)
				ctx.Hist("closure-target:" + target)
				add(built{g: g, main: main, vars: []int64{0, 0}}, "closure "+shape+" "+target+" "+pos)
			}
		}
	}
	// (2) random nestings, depth 1..5; half of them steered towards places that deliver the exit
	for i := 0; i < nrandom; i++ {
		g := &gen{rng: ctx.Rng, safe: ctx.Rng.Chance(50), nilWrap: ctx.Rng.Chance(25)}
		d := 1 + ctx.Rng.Intn(5)
		b := wrap(g, d)
		mode := "wild"
		if g.safe {
			mode = "steered"
		}
		ctx.Hist(fmt.Sprintf("random:%s depth=%d", mode, d))
		ctx.Hist("exit:" + g.exitKind)
		for _, k := range g.usedKinds {
			ctx.Hist("kind:" + k)
		}
		add(b, fmt.Sprintf("random %s depth=%d exit=%s kinds=%s", mode, d, g.exitKind, strings.Join(g.usedKinds, ">")))
	}
	ctx.Meta.DistinctNontrivial = len(distinct)
	ctx.Meta.Rule = "functions with a closure (ENUMERATED: defun written at the top level / in let / let-let / block / block inside let / let inside block / nil block x return-from the function's own name / a block inside the body / the caller's block / the exited block around the defun / an error x exit written directly, in when, in the protected form and in a cleanup form of unwind-protect, in a funcall'ed lambda, in a dolist body, in a let init, in an argument; each function called twice from two blocks of one name); the generated defuns of the random and re-entrant families are also written inside 0-3 let / block scopes; since repo_fixes/C07-1..21 every body position hands an exit on, so exits stand in first / middle / last positions alike, in arguments, let inits, tests, return-from value forms, cleanup forms and result forms, and a go may jump backward (generated behind a counter test so that every program ends), to symbol tags, out of inner tagbodies, loops and function calls; the steered half of the random programs is lexically scoped (inside the guard), the wild half also names blocks / tags of callers and unknown ones; re-entrant: a generated defun whose return-from / return / go site is evaluated again while its own exit is in flight (self-call from an unwind-protect cleanup form, from the value form of the exit, inside the protected form), called 2-3 times with the counter rewound, every evaluation handing a different value to its exit; systematic: every (form kind x body position x exit kind) one level deep and every ordered pair of form kinds two levels deep, inside (block b (tagbody <nest> (tr) T (tr)) (tr)); random: nestings of depth 1..5 (plus side trees) of block, tagbody, unwind-protect (protected form and cleanup), with-mutex-lock, ignore-errors, recover (body and handler), with-open-file, let (body and init), progn, when (body and test), cond (body and test), dolist, dotimes, do (bodies and result forms), list arguments, return-from value, funcall of a lambda, calls of generated defuns, with an exit (normal, return-from/return to a visible or unknown block, go to a visible tag, error of 5 classes) at a random body position; result + ordered (tr k) trace, each entry with the mutexes held (TryLock) and the descriptors open on the test files (/proc/self/fd), + the same after the run; distinct = distinct programs with at least one nesting form and a non-normal exit"
	header := "From C07 Require Import Model Spec Corr.\nOpen Scope N_scope.\n"
	footer := "Definition res := Eval vm_compute in check_all cases.\nPrint res.\n" +
		"Definition in_guard_count := Eval vm_compute in in_guard cases.\nPrint in_guard_count.\n" +
		"Definition model_differs_from_spec_count := Eval vm_compute in model_differs_from_spec cases.\nPrint model_differs_from_spec_count.\n"
	ctx.WriteShards("cases", header, "case", footer, terms, descs, 16)
	ctx.ReplayKnownLisp()
}

// wrapIn puts the spine into
//   block:          (block b <spine> (tr))
//   tagbody:        (tagbody <spine> (tr) T (tr))
//   block-tagbody:  (block b (tagbody <spine> (tr) T (tr)) (tr))
//   tagbody-block:  (tagbody (block b <spine> (tr)) (tr) T (tr))
//   tagbody-back:   (tagbody T (tr) <spine> (tr))   and the same inside a block
func wrapIn(g *gen, d int, w string) *Form {
	stmt := func(f *Form) *Form {
		if f.K == "Const" {
			return &Form{K: "Progn", A: []*Form{f}}
		}
		return f
	}
	g.nextBlk++
	bt := g.nextBlk
	if g.nilWrap {
		bt = 0
	}
	g.nextTag++
	tt := g.nextTag
	adjacent := g.rng.Chance(40) // the tag directly after the statement that exits
	tagbody := func(f *Form) *Form {
		if adjacent {
			return &Form{K: "Tagbody", Items: []Item{{F: stmt(f)}, {IsTag: true, Tag: tt}, {F: g.tr()}}}
		}
		return &Form{K: "Tagbody", Items: []Item{{F: stmt(f)}, {F: g.tr()}, {IsTag: true, Tag: tt}, {F: g.tr()}}}
	}
	fwd := []int64{tt}
	if w == "tagbody-back" || w == "block-tagbody-back" {
		// the tag is written BEFORE the statement that exits: a go to it is a backward jump (generated behind
		// a counter test, see gen.goTo)
		fwd = nil
		tagbody = func(f *Form) *Form {
			if adjacent {
				return &Form{K: "Tagbody", Items: []Item{{F: g.tr()}, {IsTag: true, Tag: tt}, {F: stmt(f)}, {F: g.tr()}}}
			}
			return &Form{K: "Tagbody", Items: []Item{{IsTag: true, Tag: tt}, {F: g.tr()}, {F: stmt(f)}, {F: g.tr()}}}
		}
	}
	switch w {
	case "block-last": // the value of the nest is the value of the program
		return &Form{K: "Block", N: bt, A: []*Form{g.tr(), g.spine(d, gctx{vb: []int64{bt}})}}
	case "block":
		return &Form{K: "Block", N: bt, A: []*Form{g.spine(d, gctx{vb: []int64{bt}}), g.tr()}}
	case "tagbody", "tagbody-back":
		return tagbody(g.spine(d, gctx{vg: []int64{tt}, fwd: fwd}))
	case "block-tagbody", "block-tagbody-back":
		sp := g.spine(d, gctx{vb: []int64{bt}, vg: []int64{tt}, fwd: fwd})
		return &Form{K: "Block", N: bt, A: []*Form{tagbody(sp), g.tr()}}
	case "tagbody-block":
		sp := g.spine(d, gctx{vb: []int64{bt}, vg: []int64{tt}, fwd: fwd})
		return tagbody(&Form{K: "Block", N: bt, A: []*Form{sp, g.tr()}})
	}
	return g.spine(d, gctx{})
}

func sysWrap(g *gen, d int) built {
	w := "block"
	if g.forceExit == "go" {
		w = "tagbody"
		if g.rng.Chance(35) {
			w = "tagbody-back"
		}
	} else if g.rng.Chance(50) {
		w = "block-last"
	}
	return built{g: g, main: wrapIn(g, d, w), vars: []int64{0, 0}}
}
