// Package c07: generated nestings of block / tagbody / unwind-protect / with-mutex-lock / ignore-errors /
// recover / with-open-file around let, progn, when, cond, dolist, dotimes, do and calls, with an exit of
// every kind at every body position; each program is run on the real interpreter and its result, its
// ordered trace of (tr k) markers - each with the mutexes held and the files open at that moment, probed
// on the Go objects / the process's descriptor table - are written as Gallina terms for coq/C07/Corr.v.
package c07

import (
	"fmt"
	"strings"
)

// Form mirrors coq/C07/Model.v `form`.
type Form struct {
	K     string // constructor name
	N     int64  // k / tag / class / x / u / m / f / count / function index
	Z     int64  // literal or comparison constant
	Lit   string // nil | t | int  (Const)
	Kind  string // dolist | dotimes (Loop)
	A     []*Form
	B     []*Form
	C     *Form
	Cl    []Clause
	Items []Item
}
type Clause struct {
	Test *Form
	Body []*Form
}
type Item struct {
	IsTag bool
	Tag   int64
	F     *Form
}

var classes = []string{"CError", "CDivZero", "CTypeError", "CUnbound", "CUndefFn"}
var classLisp = map[string]string{
	"CError":     `(error "boom")`,
	"CDivZero":   `(/ 1 0)`,
	"CTypeError": `(car 1)`,
	"CUnbound":   `(list unbound-xyz)`,
	"CUndefFn":   `(undefined-fn-xyz)`,
}

// condition class (first Hierarchy entry) -> model class
func classOf(name string) string {
	switch name {
	case "error", "simple-error":
		return "CError"
	case "division-by-zero":
		return "CDivZero"
	case "type-error":
		return "CTypeError"
	case "unbound-variable":
		return "CUnbound"
	case "undefined-function":
		return "CUndefFn"
	case "control-error":
		return "CControl"
	}
	return "COther"
}

type namer struct {
	fnPrefix string // user functions are <fnPrefix>_<i>
	dir      string // directory holding f0, f1, f2
	nvar     int
}

func (nm *namer) blockName(t int64) string {
	switch {
	case t == 0:
		return "nil"
	case t >= 100:
		return fmt.Sprintf("%s_%d", nm.fnPrefix, t-100)
	case t == 99:
		return "lambda"
	}
	return fmt.Sprintf("b%d", t)
}
func goTag(t int64) string {
	if t >= 50 {
		return fmt.Sprintf("g%d", t)
	}
	return fmt.Sprint(t)
}

func (nm *namer) forms(fs []*Form) string {
	var b strings.Builder
	for _, f := range fs {
		b.WriteByte(' ')
		b.WriteString(nm.Lisp(f))
	}
	return b.String()
}
func (nm *namer) items(is []Item) string {
	var b strings.Builder
	for _, it := range is {
		b.WriteByte(' ')
		if it.IsTag {
			b.WriteString(goTag(it.Tag))
		} else {
			b.WriteString(nm.Lisp(it.F))
		}
	}
	return b.String()
}

// Lisp renders the form as the text handed to the interpreter.
func (nm *namer) Lisp(f *Form) string {
	switch f.K {
	case "Const":
		if f.Lit == "int" {
			return fmt.Sprint(f.Z)
		}
		return f.Lit
	case "Tr":
		return fmt.Sprintf("(tr %d)", f.N)
	case "Signal":
		return classLisp[classes[f.N]]
	case "Incf":
		return fmt.Sprintf("(setq v%d (+ v%d 1))", f.N, f.N)
	case "Lt":
		return fmt.Sprintf("(< v%d %d)", f.N, f.Z)
	case "Setv":
		return fmt.Sprintf("(setq v%d %d)", f.N, f.Z)
	case "CallList":
		return "(list" + nm.forms(f.A) + ")"
	case "Progn":
		return "(progn" + nm.forms(f.A) + ")"
	case "When":
		return "(when " + nm.Lisp(f.C) + nm.forms(f.A) + ")"
	case "Unless":
		return "(unless " + nm.Lisp(f.C) + nm.forms(f.A) + ")"
	case "If":
		return "(if " + nm.Lisp(f.C) + nm.forms(f.A) + ")"
	case "Cond":
		var b strings.Builder
		b.WriteString("(cond")
		for _, c := range f.Cl {
			b.WriteString(" (" + nm.Lisp(c.Test) + nm.forms(c.Body) + ")")
		}
		return b.String() + ")"
	case "Let":
		var b strings.Builder
		b.WriteString("(let (")
		for i, init := range f.A {
			if i > 0 {
				b.WriteByte(' ')
			}
			nm.nvar++
			fmt.Fprintf(&b, "(u%d %s)", nm.nvar, nm.Lisp(init))
		}
		return b.String() + ")" + nm.forms(f.B) + ")"
	case "Block":
		return "(block " + nm.blockName(f.N) + nm.forms(f.A) + ")"
	case "ReturnFrom":
		return "(return-from " + nm.blockName(f.N) + " " + nm.Lisp(f.C) + ")"
	case "Return":
		return "(return " + nm.Lisp(f.C) + ")"
	case "Tagbody":
		return "(tagbody" + nm.items(f.Items) + ")"
	case "Go":
		return "(go " + goTag(f.N) + ")"
	case "UnwindProtect":
		return "(unwind-protect " + nm.Lisp(f.C) + nm.forms(f.A) + ")"
	case "IgnoreErrors":
		return "(ignore-errors" + nm.forms(f.A) + ")"
	case "Recover":
		nm.nvar++
		return fmt.Sprintf("(recover r%d %s%s)", nm.nvar, nm.Lisp(f.C), nm.forms(f.A))
	case "WithMutex":
		return fmt.Sprintf("(with-mutex-lock m%d%s)", f.N, nm.forms(f.A))
	case "WithFile":
		nm.nvar++
		return fmt.Sprintf("(with-open-file (s%d \"%s/f%d\")%s)", nm.nvar, nm.dir, f.N, nm.forms(f.A))
	case "Loop":
		nm.nvar++
		v := nm.nvar
		if f.Kind == "dolist" {
			lst := "nil"
			if f.N > 0 {
				var xs []string
				for i := int64(1); i <= f.N; i++ {
					xs = append(xs, fmt.Sprint(i))
				}
				lst = "'(" + strings.Join(xs, " ") + ")"
			}
			return fmt.Sprintf("(dolist (x%d %s %s)%s)", v, lst, nm.Lisp(f.C), nm.items(f.Items))
		}
		return fmt.Sprintf("(dotimes (x%d %d %s)%s)", v, f.N, nm.Lisp(f.C), nm.items(f.Items))
	case "Do":
		nm.nvar++
		v := nm.nvar
		return fmt.Sprintf("(do ((i%d 0 (+ i%d 1))) ((= i%d %d)%s)%s)", v, v, v, f.N, nm.forms(f.A), nm.items(f.Items))
	case "Lam":
		return "(funcall (lambda ()" + nm.forms(f.A) + "))"
	case "CallU":
		return fmt.Sprintf("(%s_%d)", nm.fnPrefix, f.N)
	}
	panic("Lisp: unknown form " + f.K)
}

// defun renders the definition of user function i, written inside its defining context (innermost scope first)
func (nm *namer) defun(i int, body []*Form, dc []dscope) string {
	s := fmt.Sprintf("(defun %s_%d ()%s)", nm.fnPrefix, i, nm.forms(body))
	for _, e := range dc {
		if e.Block {
			s = "(block " + nm.blockName(e.Name) + " " + s + ")"
		} else {
			nm.nvar++
			s = fmt.Sprintf("(let ((c%d %d)) %s)", nm.nvar, nm.nvar, s)
		}
	}
	return s
}

// gCtx renders a defining context as a `list scope` of coq/C07/Model.v
func gCtx(dc []dscope) string {
	xs := make([]string, len(dc))
	for i, e := range dc {
		if e.Block {
			xs[i] = fmt.Sprintf("(true, %d%%N)", e.Name)
		} else {
			xs[i] = "(false, 0%N)"
		}
	}
	return "[" + strings.Join(xs, "; ") + "]"
}

func gForms(fs []*Form) string {
	xs := make([]string, len(fs))
	for i, f := range fs {
		xs[i] = Gallina(f)
	}
	return "[" + strings.Join(xs, "; ") + "]"
}
func gItems(is []Item) string {
	xs := make([]string, len(is))
	for i, it := range is {
		if it.IsTag {
			xs[i] = fmt.Sprintf("ITag %d%%N", it.Tag)
		} else {
			xs[i] = "IForm " + Gallina(it.F)
		}
	}
	return "[" + strings.Join(xs, "; ") + "]"
}

// Gallina renders the form as a term of coq/C07/Model.v `form` (parenthesised).
func Gallina(f *Form) string {
	switch f.K {
	case "Const":
		switch f.Lit {
		case "nil":
			return "(Const LNil)"
		case "t":
			return "(Const LT)"
		}
		return fmt.Sprintf("(Const (LInt (%d)%%Z))", f.Z)
	case "Tr":
		return fmt.Sprintf("(Tr %d%%N)", f.N)
	case "Signal":
		return "(Signal " + classes[f.N] + ")"
	case "Incf":
		return fmt.Sprintf("(Incf %d)", f.N)
	case "Lt":
		return fmt.Sprintf("(Lt %d (%d)%%Z)", f.N, f.Z)
	case "Setv":
		return fmt.Sprintf("(Setv %d (%d)%%Z)", f.N, f.Z)
	case "CallList", "Progn", "IgnoreErrors", "Lam":
		return "(" + f.K + " " + gForms(f.A) + ")"
	case "When", "Unless":
		return "(" + f.K + " " + Gallina(f.C) + " " + gForms(f.A) + ")"
	case "If":
		return "(If " + Gallina(f.C) + " " + Gallina(f.A[0]) + " " + Gallina(f.A[1]) + ")"
	case "Cond":
		xs := make([]string, len(f.Cl))
		for i, c := range f.Cl {
			xs[i] = "(" + Gallina(c.Test) + ", " + gForms(c.Body) + ")"
		}
		return "(Cond [" + strings.Join(xs, "; ") + "])"
	case "Let":
		return "(Let " + gForms(f.A) + " " + gForms(f.B) + ")"
	case "Block":
		return fmt.Sprintf("(Block %d%%N %s)", f.N, gForms(f.A))
	case "ReturnFrom":
		return fmt.Sprintf("(ReturnFrom %d%%N %s)", f.N, Gallina(f.C))
	case "Return":
		return "(Return " + Gallina(f.C) + ")"
	case "Tagbody":
		return "(Tagbody " + gItems(f.Items) + ")"
	case "Go":
		return fmt.Sprintf("(Go %d%%N)", f.N)
	case "UnwindProtect":
		return fmt.Sprintf("(UnwindProtect %d%%N %s %s)", f.Z, Gallina(f.C), gForms(f.A))
	case "Recover":
		return "(Recover " + Gallina(f.C) + " " + gForms(f.A) + ")"
	case "WithMutex", "WithFile":
		return fmt.Sprintf("(%s %d%%N %s)", f.K, f.N, gForms(f.A))
	case "Loop":
		k := "KDotimes"
		if f.Kind == "dolist" {
			k = "KDolist"
		}
		return fmt.Sprintf("(Loop %s %d %s %s)", k, f.N, gItems(f.Items), Gallina(f.C))
	case "Do":
		return fmt.Sprintf("(Do %d %s %s)", f.N, gItems(f.Items), gForms(f.A))
	case "CallU":
		return fmt.Sprintf("(CallU %d)", f.N)
	}
	panic("Gallina: unknown form " + f.K)
}
