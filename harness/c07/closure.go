package c07

// Functions with a closure: a systematic block over
//
//	where the defun is written  x  which block the function body returns from  x  where in the body
//
// A defun evaluated inside a let / block gets that scope as closure, and every call scope of the function has
// the two parents [closure, caller] (lambda.go Lambda.Call). scope.go InBlock must test the call scope itself
// (the block named like the function), walk the closure chain and walk the callers. Each function is called
// twice, from two blocks of the same name.

var closureShapes = map[string][]dscope{
	"top":       nil,
	"let":       {{}},
	"let-let":   {{}, {}},
	"block":     {{Block: true, Name: 30}},
	"block-let": {{Block: true, Name: 30}, {}}, // the defun directly inside the block, a let around it
	"let-block": {{}, {Block: true, Name: 30}},
	"nil-block": {{Block: true, Name: 0}},
}
var closureShapeNames = []string{"top", "let", "let-let", "block", "block-let", "let-block", "nil-block"}
var closureTargets = []string{"own-name", "inner-block", "caller-block", "exited-block", "error"}
var closurePositions = []string{"direct", "when", "unwind", "cleanup", "lambda", "dolist", "letinit", "arg"}

// closureCase builds one program of the family; ok is false for combinations that do not exist.
func (g *gen) closureCase(shape, target, pos string) (main *Form, ok bool) {
	dc := closureShapes[shape]
	idx := int64(len(g.defs))
	g.nextK++
	val := &Form{K: "Const", Lit: "int", Z: 1000 + g.nextK}
	var exit *Form
	switch target {
	case "own-name":
		exit = &Form{K: "ReturnFrom", N: 100 + idx, C: val}
	case "inner-block":
		exit = &Form{K: "ReturnFrom", N: 31, C: val}
	case "caller-block":
		exit = &Form{K: "ReturnFrom", N: 32, C: val}
	case "exited-block":
		found := false
		for _, e := range dc {
			if e.Block {
				exit = &Form{K: "ReturnFrom", N: e.Name, C: val}
				if e.Name == 0 {
					exit = &Form{K: "Return", C: val}
				}
				found = true
			}
		}
		if !found {
			return nil, false
		}
	default:
		exit = &Form{K: "Signal", N: int64(g.rng.Intn(len(classes)))}
	}
	var x *Form
	g.nextU++
	switch pos {
	case "direct":
		x = exit
	case "when":
		x = &Form{K: "When", C: &Form{K: "Const", Lit: "t"}, A: []*Form{g.tr(), exit, g.tr()}}
	case "unwind":
		x = &Form{K: "UnwindProtect", Z: g.nextU, C: exit, A: []*Form{g.tr()}}
	case "cleanup":
		x = &Form{K: "UnwindProtect", Z: g.nextU, C: g.tr(), A: []*Form{exit, g.tr()}}
	case "lambda":
		x = &Form{K: "Lam", A: []*Form{g.tr(), exit, g.tr()}}
	case "dolist":
		x = &Form{K: "Loop", Kind: "dolist", N: 2, Items: []Item{{F: g.tr()}, {F: &Form{K: "Progn", A: []*Form{exit}}}, {F: g.tr()}}, C: &Form{K: "Const", Lit: "nil"}}
	case "letinit":
		x = &Form{K: "Let", A: []*Form{g.tr(), exit}, B: []*Form{g.tr()}}
	default:
		x = &Form{K: "CallList", A: []*Form{g.tr(), exit, g.tr()}}
	}
	body := []*Form{g.tr(), x, g.tr()}
	if target == "inner-block" {
		body = []*Form{g.tr(), {K: "Block", N: 31, A: []*Form{g.tr(), x, g.tr()}}, g.tr()}
	}
	g.defs = append(g.defs, body)
	g.setCtx(int(idx), dc)
	call := func() *Form { return &Form{K: "CallU", N: idx} }
	main = &Form{K: "CallList", A: []*Form{
		{K: "Block", N: 32, A: []*Form{g.tr(), call(), g.tr()}},
		g.tr(),
		{K: "IgnoreErrors", A: []*Form{{K: "Block", N: 32, A: []*Form{call(), g.tr()}}}},
	}}
	g.usedKinds = append(g.usedKinds, "closure")
	g.exitKind = target
	return main, true
}
