package c07

import "verifharness/common"

// reentrant builds a program in which one exit SITE (a return-from / return / go written once, in the
// body of a user function) is evaluated again while an exit raised at that very site is still on its way
// to its block - the function calls itself from a cleanup form of the unwind-protect the exit is crossing,
// from the value form of the return-from, or inside the protected form - and in which the function is
// called several times (the first call completes, later calls re-enter differently). Every evaluation
// hands a different value to its exit (a counter), so the value each block yields tells which
// evaluation's exit it received. Recursion is bounded: every evaluation increments v0 before it can
// recurse and recurses only while v0 < k.
func (g *gen) reentrant() (main *Form, shape string) {
	k := int64(2 + g.rng.Intn(2))
	ek := common.Pick(g.rng, []string{"return-from-block", "return-from-fn", "return", "go"})
	rp := common.Pick(g.rng, []string{"cleanup", "cleanup", "value", "protected", "cleanup+value"})
	if ek == "go" && (rp == "value" || rp == "cleanup+value") {
		rp = "cleanup"
	}
	idx := int64(len(g.defs))
	g.defs = append(g.defs, nil) // reserved: the body refers to its own index
	call := func() *Form {
		c := &Form{K: "CallU", N: idx}
		switch g.rng.Intn(5) {
		case 0:
			return &Form{K: "Let", B: []*Form{c}}
		case 1:
			return &Form{K: "CallList", A: []*Form{c}}
		case 2:
			return &Form{K: "Progn", A: []*Form{g.tr(), c}}
		}
		return c
	}
	again := func() *Form { // (when (< v0 k) (w))
		body := []*Form{call()}
		if g.rng.Bool() {
			body = append([]*Form{g.tr()}, body...)
		}
		return &Form{K: "When", C: &Form{K: "Lt", N: 0, Z: k}, A: body}
	}
	incf := func(x int64) *Form { return &Form{K: "Incf", N: x} }
	g.nextBlk++
	b := g.nextBlk
	g.nextTag++
	tag := g.nextTag
	exit := func(val *Form) *Form {
		var e *Form
		switch ek {
		case "return-from-block":
			e = &Form{K: "ReturnFrom", N: b, C: val}
		case "return-from-fn":
			e = &Form{K: "ReturnFrom", N: 100 + idx, C: val}
		case "return":
			e = &Form{K: "Return", C: val}
			if g.rng.Bool() {
				e = &Form{K: "ReturnFrom", N: 0, C: val}
			}
		default: // go: the value form is evaluated for its effect, then the go
			e = &Form{K: "Progn", A: []*Form{val, {K: "Go", N: tag}}}
		}
		// forms that hand an exit on from this position
		switch g.rng.Intn(5) {
		case 0:
			return &Form{K: "Let", B: []*Form{g.tr(), e}}
		case 1:
			return &Form{K: "When", C: &Form{K: "Const", Lit: "t"}, A: []*Form{e}}
		case 2:
			return &Form{K: "Progn", A: []*Form{g.tr(), e}}
		}
		return e
	}
	g.nextU++
	u := g.nextU
	var x *Form
	switch rp {
	case "cleanup":
		x = &Form{K: "UnwindProtect", Z: u, C: exit(incf(0)), A: []*Form{g.tr(), again(), g.tr()}}
	case "value":
		x = exit(&Form{K: "Progn", A: []*Form{incf(0), again(), incf(1)}})
		if g.rng.Bool() {
			x = &Form{K: "UnwindProtect", Z: u, C: x, A: []*Form{g.tr()}}
		}
	case "protected":
		x = &Form{K: "UnwindProtect", Z: u, C: &Form{K: "Progn", A: []*Form{incf(0), again(), exit(incf(1))}}, A: []*Form{g.tr()}}
	default: // cleanup+value
		x = &Form{K: "UnwindProtect", Z: u, C: exit(&Form{K: "Progn", A: []*Form{incf(0), again(), incf(1)}}),
			A: []*Form{g.tr(), again()}}
	}
	if g.rng.Chance(30) { // a resource the exit has to release on its way
		if g.rng.Bool() {
			x = &Form{K: "WithFile", N: int64(g.rng.Intn(3)), A: []*Form{x}}
		} else {
			x = &Form{K: "Let", B: []*Form{g.tr(), x}}
		}
	}
	var body []*Form
	switch ek {
	case "return-from-block":
		body = []*Form{{K: "Block", N: b, A: []*Form{x, g.tr()}}}
	case "return-from-fn":
		body = []*Form{x, g.tr()}
	case "return":
		body = []*Form{{K: "Block", N: 0, A: []*Form{x, g.tr()}}}
	default:
		if x.K == "Const" {
			x = &Form{K: "Progn", A: []*Form{x}}
		}
		body = []*Form{{K: "Tagbody", Items: []Item{{F: x}, {F: g.tr()}, {IsTag: true, Tag: tag}, {F: g.tr()}}}, incf(1)}
	}
	if g.rng.Chance(30) {
		body = append([]*Form{g.tr()}, body...)
	}
	g.defs[idx] = body
	if g.rng.Chance(50) { // the function has a closure: its call scopes have two parents
		dc := []dscope{{}}
		if g.rng.Bool() {
			dc = append(dc, dscope{})
		}
		g.setCtx(int(idx), dc)
	}
	// several calls; the counter is rewound before each, so that the first call completes and later ones re-enter
	ncalls := 2 + g.rng.Intn(2)
	var calls []*Form
	for i := 0; i < ncalls; i++ {
		z := int64(g.rng.Intn(int(k) + 1))
		if i == ncalls-1 || (i > 0 && g.rng.Bool()) {
			z = 0
		}
		calls = append(calls, &Form{K: "Progn", A: []*Form{{K: "Setv", N: 0, Z: z}, {K: "CallU", N: idx}}})
	}
	g.usedKinds = append(g.usedKinds, "reentrant")
	g.exitKind = ek
	return &Form{K: "CallList", A: calls}, "reentrant " + ek + " " + rp
}
