package c07

import (
	"verifharness/common"
)

// gctx is what the generator knows about the place a form is written at. vb/vg: block names / go tags
// lexically visible (the guard of coq/C07/Spec.v admits exactly the exits to these; it is only mirrored
// here to steer the generation, the guard itself is computed in Coq). fwd: the visible tags a go may jump
// to without a risk of looping for ever (tags written after the current statement of their body); a go to
// any other tag is generated as (when (< vX k) (setq vX (+ vX 1)) (go T)), so that every program ends.
type gctx struct {
	vb, vg, fwd []int64
	held        []int64
	dyn         []int64 // blocks of the callers (visible to InBlock, not lexically) - function bodies only
	dynG        []int64 // tags of the callers (reachable through the inherited TagBody flag) - function bodies only
	exited      []int64 // blocks around the defun form of this function (on the closure chain, exited) - function bodies only
}

// dscope is one scope around a defun form: (let ((c 1)) ...) or (block name ...). A defun written inside such
// a form gets that scope as its closure (defun.go), and every call scope of the function then has the two
// parents [closure, caller] (lambda.go Lambda.Call): the shape scope.go InBlock has to walk.
type dscope struct {
	Block bool
	Name  int64
}

// defCtx picks the context of a new defun: none (top level, no closure) or 1-3 scopes.
func (g *gen) defCtx() []dscope {
	if g.rng.Chance(40) {
		return nil
	}
	n := 1 + g.rng.Intn(3)
	if g.rng.Chance(50) {
		n = 1
	}
	out := make([]dscope, n)
	for i := range out {
		if g.rng.Chance(35) {
			g.nextBlk++
			out[i] = dscope{Block: true, Name: g.nextBlk}
			if g.rng.Chance(30) {
				out[i].Name = 0
			}
		}
	}
	return out
}

func (g *gen) setCtx(idx int, dc []dscope) {
	if len(dc) == 0 {
		return
	}
	if g.dctx == nil {
		g.dctx = map[int][]dscope{}
	}
	g.dctx[idx] = dc
}

func has(xs []int64, x int64) bool {
	for _, y := range xs {
		if y == x {
			return true
		}
	}
	return false
}

// goTo is (go t), behind a counter test unless t is known to be ahead
func (g *gen) goTo(c gctx, t int64, lexical bool) *Form {
	if lexical && has(c.fwd, t) {
		return &Form{K: "Go", N: t}
	}
	g.backGo = true
	x := int64(g.rng.Intn(2))
	return &Form{K: "When", C: &Form{K: "Lt", N: x, Z: int64(1 + g.rng.Intn(3))},
		A: []*Form{{K: "Incf", N: x}, {K: "Go", N: t}}}
}

var kinds = []string{"block", "tagbody", "unwind", "mutex", "ignore", "recover", "file", "let", "letinit",
	"progn", "when", "whentest", "unless", "unlesstest", "if", "iftest", "cond", "condtest", "dolist", "dotimes", "do", "loopres", "list", "lam", "callu",
	"unwindcleanup", "recoverh", "retval"}

type gen struct {
	rng     *common.Rng
	nextK   int64
	nextU   int64
	nextTag int64
	nextBlk int64
	nextPh  int64 // placeholders for the name of a function whose index is not known yet (negative)
	defs    [][]*Form
	dctx    map[int][]dscope // where the defun of function i is written (innermost scope first); absent = top level
	safe    bool
	nilWrap bool // the wrapping block is (block nil ...)
	hist    func(string)
	// scripted choices (systematic family); consumed level by level
	forceKind []string
	forcePos  []int // 0 first, 1 middle, 2 last
	forceExit string
	usedKinds []string
	exitKind  string
	backGo    bool // some go is a backward / dynamic one (behind a counter test)
}

func (g *gen) tr() *Form { g.nextK++; return &Form{K: "Tr", N: g.nextK} }
func (g *gen) filler() *Form {
	switch x := g.rng.Intn(20); {
	case x < 16:
		return g.tr()
	case x < 17:
		return &Form{K: "Const", Lit: "int", Z: int64(g.rng.Intn(9))}
	case x < 18:
		if g.rng.Chance(4) {
			return &Form{K: "Incf", N: 2} // v2 does not exist: unbound-variable
		}
		return &Form{K: "Incf", N: int64(g.rng.Intn(2))}
	case x < 19:
		return &Form{K: "CallList", A: []*Form{g.tr()}}
	default:
		if len(g.defs) > 0 {
			return &Form{K: "CallU", N: int64(g.rng.Intn(len(g.defs)))}
		}
		return g.tr()
	}
}
func (g *gen) test() *Form {
	switch x := g.rng.Intn(20); {
	case x < 12:
		return &Form{K: "Const", Lit: "t"}
	case x < 14:
		return &Form{K: "Const", Lit: "nil"}
	case x < 16:
		return g.tr()
	default:
		return &Form{K: "Lt", N: int64(g.rng.Intn(2)), Z: int64(1 + g.rng.Intn(3))}
	}
}

func cp(xs []int64, more ...int64) []int64 {
	out := make([]int64, 0, len(xs)+len(more))
	out = append(out, more...)
	return append(out, xs...)
}

// exit form of the requested kind at a place described by c
func (g *gen) leaf(c gctx, kind string) *Form {
	g.exitKind = kind
	switch kind {
	case "return":
		cands := c.vb
		if !g.safe && len(c.dyn) > 0 && g.rng.Chance(50) {
			cands = c.dyn
		}
		if !g.safe && len(c.exited) > 0 && g.rng.Chance(35) {
			// a block around the defun form: it has exited, but is on the closure chain
			g.nextK++
			g.exitKind = "return-exited"
			t := c.exited[g.rng.Intn(len(c.exited))]
			return &Form{K: "ReturnFrom", N: t, C: &Form{K: "Const", Lit: "int", Z: 1000 + g.nextK}}
		}
		var t int64
		switch {
		case len(cands) > 0:
			t = cands[g.rng.Intn(len(cands))]
			if g.forceExit != "" || g.rng.Chance(40) {
				t = cands[len(cands)-1] // the outermost one: the exit crosses every form in between
			}
		case !g.safe && g.rng.Chance(40):
			t = 40 + int64(g.rng.Intn(3)) // a block that does not exist
			if g.rng.Chance(30) {
				t = 0
				for _, x := range c.vb {
					if x == 0 {
						t = 41
					}
				}
			}
			g.exitKind = "return-unknown"
		default:
			return g.leaf(c, common.Pick(g.rng, []string{"normal", "error"}))
		}
		g.nextK++
		var val *Form = &Form{K: "Const", Lit: "int", Z: 1000 + g.nextK}
		if g.rng.Chance(25) || (g.exitKind == "return-unknown" && g.rng.Chance(50)) {
			val = g.tr()
		} else if !g.safe && len(c.vb) > 0 && g.rng.Chance(6) {
			val = &Form{K: "ReturnFrom", N: c.vb[g.rng.Intn(len(c.vb))], C: g.tr()}
		}
		if t == 0 && g.rng.Bool() {
			return &Form{K: "Return", C: val}
		}
		return &Form{K: "ReturnFrom", N: t, C: val}
	case "go":
		cands := c.vg
		if !g.safe && len(c.dynG) > 0 && g.rng.Chance(50) {
			// a tag of a caller: the call may be made from anywhere, so always behind the counter test
			g.exitKind = "go-dynamic"
			return g.goTo(c, c.dynG[g.rng.Intn(len(c.dynG))], false)
		}
		if len(cands) == 0 || (!g.safe && g.rng.Chance(4)) {
			if !g.safe && g.rng.Chance(30) {
				g.exitKind = "go-unknown"
				return &Form{K: "Go", N: 45}
			}
			return g.leaf(c, common.Pick(g.rng, []string{"normal", "error", "return"}))
		}
		if g.forceExit != "" || g.rng.Chance(40) {
			return g.goTo(c, cands[len(cands)-1], true)
		}
		return g.goTo(c, cands[g.rng.Intn(len(cands))], true)
	case "error":
		return &Form{K: "Signal", N: int64(g.rng.Intn(len(classes)))}
	}
	return g.tr()
}

func (g *gen) pickKind() string {
	if len(g.forceKind) > 0 {
		k := g.forceKind[0]
		g.forceKind = g.forceKind[1:]
		return k
	}
	return kinds[g.rng.Intn(len(kinds))]
}

// position of the spine child among n forms
func (g *gen) pickPos(n int) int {
	if len(g.forcePos) > 0 {
		p := g.forcePos[0]
		g.forcePos = g.forcePos[1:]
		switch p {
		case 0:
			return 0
		case 2:
			return n - 1
		}
		return n / 2
	}
	return g.rng.Intn(n)
}
func (g *gen) pickN() int {
	if len(g.forcePos) > 0 {
		return 3
	}
	return 1 + g.rng.Intn(3)
}

// body of n forms: the spine child (depth d) at position p, the rest fillers or small side trees.
// at(i) gives the context of position i.
func (g *gen) body(n, p, d int, at func(i int) gctx) []*Form {
	out := make([]*Form, n)
	for i := range out {
		switch {
		case i == p:
			out[i] = g.spine(d, at(i))
		case d >= 1 && len(g.forceKind) == 0 && g.forceExit == "" && g.rng.Chance(12):
			save := g.exitKind
			out[i] = g.spine(g.rng.Intn(2), at(i))
			g.exitKind = save
		default:
			out[i] = g.filler()
		}
	}
	return out
}

// every position of every form hands an exit on since repo_fixes/C07-1 .. C07-21
func same(c gctx) func(int) gctx { return func(int) gctx { return c } }

func (g *gen) freshTags(n int) []int64 {
	out := make([]int64, n)
	for i := range out {
		g.nextTag++
		out[i] = g.nextTag
		if g.rng.Chance(12) {
			out[i] = 50 + g.nextTag // a symbol tag
		}
	}
	return out
}

// statements of a tagbody-like body: tags interleaved; every statement sees all the tags of the body, those
// after it are the ones it may go to unconditionally. mk(tagsAfter, own) is the context of a statement.
func (g *gen) itemsBody(d int, c gctx, mk func(tagsAfter []int64, own []int64) gctx) []Item {
	nst := g.pickN()
	p := g.pickPos(nst)
	ntags := g.rng.Intn(3)
	if len(g.forcePos) > 0 || g.forceExit == "go" {
		ntags = 1 + g.rng.Intn(2)
	}
	tags := g.freshTags(ntags)
	// tag j is placed before statement slot[j] (slot nst = at the end)
	slots := make([]int, ntags)
	for j := range slots {
		slots[j] = g.rng.Intn(nst + 1)
		if g.rng.Chance(55) {
			// after the spine statement, so that a forward go exists; often right after it
			slots[j] = p + 1 + g.rng.Intn(nst-p)
			if g.rng.Chance(40) {
				slots[j] = p + 1
			}
		}
	}
	var items []Item
	var stIdx []int
	for i := 0; i <= nst; i++ {
		for j, s := range slots {
			if s == i {
				items = append(items, Item{IsTag: true, Tag: tags[j]})
			}
		}
		if i < nst {
			stIdx = append(stIdx, len(items))
			items = append(items, Item{})
		}
	}
	if n := len(items); n > 0 && items[n-1].IsTag && g.rng.Chance(75) {
		// something to observe after the last tag
		stIdx = append(stIdx, len(items))
		items = append(items, Item{})
		nst++
	}
	for i := 0; i < nst; i++ {
		var after []int64
		for _, it := range items[stIdx[i]+1:] {
			if it.IsTag {
				after = append(after, it.Tag)
			}
		}
		ci := mk(after, tags)
		var f *Form
		switch {
		case i == p:
			f = g.spine(d, ci)
		default:
			f = g.filler()
		}
		if f.K == "Const" {
			f = g.tr() // a bare constant statement would be read as a tag
		}
		items[stIdx[i]].F = f
	}
	return items
}

// without2 removes every element of ys from xs (an inner tag of the same name shadows the outer one)
func without2(xs, ys []int64) []int64 {
	var out []int64
	for _, x := range xs {
		if !has(ys, x) {
			out = append(out, x)
		}
	}
	return out
}

func without(xs []int64, x int64) []int64 {
	var out []int64
	for _, y := range xs {
		if y != x {
			out = append(out, y)
		}
	}
	return out
}

// spine builds d nested forms around an exit.
func (g *gen) spine(d int, c gctx) *Form {
	if d <= 0 {
		kind := g.forceExit
		if kind == "" {
			kind = common.Pick(g.rng, []string{"normal", "return", "return", "go", "go", "error", "error"})
		}
		return g.leaf(c, kind)
	}
	k := g.pickKind()
	g.usedKinds = append(g.usedKinds, k)
	switch k {
	case "block":
		g.nextBlk++
		t := g.nextBlk
		if g.rng.Chance(25) {
			t = 0
		} else if len(c.vb) > 0 && g.rng.Chance(8) {
			t = c.vb[g.rng.Intn(len(c.vb))] // shadowing
			if t >= 99 {
				t = g.nextBlk
			}
		}
		n := g.pickN()
		x := c
		x.vb = cp(c.vb, t)
		return &Form{K: "Block", N: t, A: g.body(n, g.pickPos(n), d-1, same(x))}
	case "tagbody":
		items := g.itemsBody(d-1, c, func(after, own []int64) gctx {
			x := c
			x.vg, x.fwd = cp(c.vg, own...), cp(without2(c.fwd, own), after...)
			return x
		})
		return &Form{K: "Tagbody", Items: items}
	case "unwind", "unwindcleanup":
		g.nextU++
		u := g.nextU
		if k == "unwind" {
			p := g.spine(d-1, c)
			n := 1 + g.rng.Intn(2)
			cs := make([]*Form, n)
			for i := range cs {
				cs[i] = g.tr()
			}
			if g.rng.Chance(5) {
				cs[0] = &Form{K: "Signal", N: int64(g.rng.Intn(len(classes)))}
			}
			return &Form{K: "UnwindProtect", Z: u, C: p, A: cs}
		}
		// the spine goes through a cleanup form
		n := g.pickN()
		var prot *Form = g.filler()
		if g.rng.Chance(30) {
			prot = g.leaf(c, common.Pick(g.rng, []string{"return", "go", "error"}))
		}
		return &Form{K: "UnwindProtect", Z: u, C: prot, A: g.body(n, g.pickPos(n), d-1, same(c))}
	case "mutex":
		m := int64(g.rng.Intn(3))
		for try := 0; try < 5; try++ {
			heldAlready := false
			for _, h := range c.held {
				heldAlready = heldAlready || h == m
			}
			if !heldAlready || g.rng.Chance(2) {
				break
			}
			m = int64(g.rng.Intn(3))
		}
		n := g.pickN()
		c2 := c
		c2.held = cp(c.held, m)
		return &Form{K: "WithMutex", N: m, A: g.body(n, g.pickPos(n), d-1, same(c2))}
	case "ignore":
		n := g.pickN()
		return &Form{K: "IgnoreErrors", A: g.body(n, g.pickPos(n), d-1, same(c))}
	case "recover", "recoverh":
		n := g.pickN()
		if k == "recover" {
			var h *Form = g.tr()
			if g.rng.Chance(20) {
				h = &Form{K: "Const", Lit: "int", Z: 77}
			}
			return &Form{K: "Recover", C: h, A: g.body(n, g.pickPos(n), d-1, same(c))}
		}
		ch := c
		body := []*Form{g.filler(), &Form{K: "Signal", N: int64(g.rng.Intn(len(classes)))}}
		if g.rng.Chance(30) {
			body = []*Form{g.filler()}
		}
		return &Form{K: "Recover", C: g.spine(d-1, ch), A: body}
	case "file":
		n := g.pickN()
		return &Form{K: "WithFile", N: int64(g.rng.Intn(3)), A: g.body(n, g.pickPos(n), d-1, same(c))}
	case "let":
		n := g.pickN()
		var inits []*Form
		for i := g.rng.Intn(3); i > 0; i-- {
			inits = append(inits, g.filler())
		}
		return &Form{K: "Let", A: inits, B: g.body(n, g.pickPos(n), d-1, same(c))}
	case "letinit":
		n := g.pickN()
		inits := g.body(n, g.pickPos(n), d-1, same(c))
		return &Form{K: "Let", A: inits, B: []*Form{g.filler(), g.filler()}}
	case "progn":
		n := g.pickN()
		return &Form{K: "Progn", A: g.body(n, g.pickPos(n), d-1, same(c))}
	case "when":
		n := g.pickN()
		return &Form{K: "When", C: g.test(), A: g.body(n, g.pickPos(n), d-1, same(c))}
	case "whentest":
		return &Form{K: "When", C: g.spine(d-1, c), A: []*Form{g.filler(), g.filler()}}
	case "unless":
		n := g.pickN()
		t := g.test()
		if t.K == "Const" && g.rng.Chance(85) {
			t = &Form{K: "Const", Lit: "nil"} // the body runs
		}
		return &Form{K: "Unless", C: t, A: g.body(n, g.pickPos(n), d-1, same(c))}
	case "unlesstest":
		return &Form{K: "Unless", C: g.spine(d-1, c), A: []*Form{g.filler(), g.filler()}}
	case "if":
		// the spine continues in the branch that is taken (mostly)
		t := g.test()
		sp := g.spine(d-1, c)
		other := g.filler()
		if (t.K == "Const" && t.Lit == "nil") || (t.K != "Const" && g.rng.Bool()) {
			return &Form{K: "If", C: t, A: []*Form{other, sp}}
		}
		return &Form{K: "If", C: t, A: []*Form{sp, other}}
	case "iftest":
		return &Form{K: "If", C: g.spine(d-1, c), A: []*Form{g.filler(), g.filler()}}
	case "cond", "condtest":
		ncl := 1 + g.rng.Intn(3)
		pc := g.rng.Intn(ncl)
		cl := make([]Clause, ncl)
		for i := range cl {
			cl[i] = Clause{Test: g.test(), Body: []*Form{g.filler()}}
			if i == pc {
				if k == "cond" {
					n := g.pickN()
					cl[i].Body = g.body(n, g.pickPos(n), d-1, same(c))
					if g.rng.Chance(70) {
						cl[i].Test = &Form{K: "Const", Lit: "t"}
					}
				} else {
					cl[i].Test = g.spine(d-1, c)
					if g.rng.Chance(25) {
						cl[i].Body = nil // a clause without forms yields the value of its test
					}
				}
			}
		}
		return &Form{K: "Cond", Cl: cl}
	case "dolist", "dotimes", "do":
		cnt := int64(g.rng.Intn(4))
		if g.rng.Chance(60) {
			cnt = 1 + int64(g.rng.Intn(2))
		}
		mk := func(after, own []int64) gctx {
			x := c
			x.vb, x.vg, x.fwd = cp(c.vb, 0), cp(c.vg, own...), cp(without2(c.fwd, own), after...)
			return x
		}
		items := g.itemsBody(d-1, c, mk)
		if k == "do" {
			var res []*Form
			for i := g.rng.Intn(3); i > 0; i-- {
				res = append(res, g.filler())
			}
			return &Form{K: "Do", N: cnt, Items: items, A: res}
		}
		var res *Form = &Form{K: "Const", Lit: "nil"}
		if g.rng.Chance(40) {
			res = g.filler()
		}
		return &Form{K: "Loop", Kind: k, N: cnt, Items: items, C: res}
	case "loopres":
		// the spine goes through the result form of a loop
		cr := c
		cr.vb = cp(c.vb, 0)
		cnt := int64(g.rng.Intn(3))
		items := []Item{{F: g.tr()}}
		if g.rng.Bool() {
			return &Form{K: "Loop", Kind: common.Pick(g.rng, []string{"dolist", "dotimes"}), N: cnt, Items: items, C: g.spine(d-1, cr)}
		}
		n := g.pickN()
		return &Form{K: "Do", N: cnt, Items: items, A: g.body(n, g.pickPos(n), d-1, same(cr))}
	case "list":
		n := g.pickN()
		return &Form{K: "CallList", A: g.body(n, g.pickPos(n), d-1, same(c))}
	case "retval":
		// the spine goes through the value form of a return-from
		cands := c.vb
		if len(cands) == 0 {
			return g.spine(d, c)
		}
		t := cands[g.rng.Intn(len(cands))]
		if has(cands, 0) && g.rng.Chance(35) {
			return &Form{K: "Return", C: g.spine(d-1, c)} // return.go is a file of its own
		}
		return &Form{K: "ReturnFrom", N: t, C: g.spine(d-1, c)}
	case "lam":
		n := g.pickN()
		return &Form{K: "Lam", A: g.body(n, g.pickPos(n), d-1, same(c))}
	case "callu":
		// a new user function whose body continues the spine
		n := g.pickN()
		idx := -1
		// the index is only known once the body (which may define functions itself) is complete: the
		// body refers to its own block through a placeholder that is patched afterwards
		g.nextPh--
		placeholder := g.nextPh
		fc := gctx{vb: []int64{placeholder}, held: c.held}
		dc := g.defCtx()
		if !g.safe {
			fc.dyn = c.vb
			fc.dynG = c.vg
			for _, e := range dc {
				if e.Block {
					fc.exited = append(fc.exited, e.Name)
				}
			}
		}
		body := g.body(n, g.pickPos(n), d-1, same(fc))
		idx = len(g.defs)
		g.defs = append(g.defs, body)
		g.setCtx(idx, dc)
		for _, b := range g.defs {
			for _, f := range b {
				patch(f, placeholder, int64(100+idx))
			}
		}
		return &Form{K: "CallU", N: int64(idx)}
	}
	panic("spine: kind " + k)
}

func patch(f *Form, from, to int64) {
	if f == nil {
		return
	}
	if (f.K == "ReturnFrom" || f.K == "Block") && f.N == from {
		f.N = to
	}
	for _, x := range f.A {
		patch(x, from, to)
	}
	for _, x := range f.B {
		patch(x, from, to)
	}
	patch(f.C, from, to)
	for _, c := range f.Cl {
		patch(c.Test, from, to)
		for _, x := range c.Body {
			patch(x, from, to)
		}
	}
	for _, it := range f.Items {
		patch(it.F, from, to)
	}
}
