// model.go: a Go transcription of coq/C17/Model.v `step`, used ONLY to search for a schedule that explains
// an observed outcome.  It is not trusted: the schedule found is replayed by the Coq model, which decides.
package c17

import (
	"strconv"
	"strings"
)

type mval struct {
	null bool
	z    int64
}

const (
	kPlain = iota
	kLock
	kCatch
	kBlock
)

type mframe struct {
	kind int
	tb   bool // kBlock: tagbody
	b    int  // kBlock: name / tag
	m    int
	ops  []Op
	id   int // identifies the body this frame runs (for state keys)
}

type mrt struct {
	stk   []mframe // top LAST (cheap push/pop)
	unw   bool
	ext   bool // an exit marker (extTB, extB) is travelling up
	extTB bool
	extB  int
	got   mval
	acc   int64
	lp    int // entries of the routine's log produced so far
}

type mentry struct {
	v    mval
	from int
}

type mch struct {
	cap    int
	q      []mentry
	closed bool
}

type mstate struct {
	rs  []mrt
	chs []mch
	mus []int // -1 free, else owner
	mem []int64
}

// what the search knows about the run: the logs of the routines that reported
type guide struct {
	want [][]logEntry // nil: unknown (routine did not report)
	// for channel c: value -> (routine, index among the routine's entries of channel c), for values that
	// occur exactly once in the reported logs of channel c
	owner []map[int64][2]int
	// pre[i][c][lp]: entries of channel c among the first lp entries of routine i's log
	pre [][][]int
}

// staticUnique: for channel c, the literal values pushed by exactly one operation of the program; nil when
// some push on c sends a computed value (got / acc)
func staticUnique(p *Prog) []map[int64]bool {
	n := len(p.Caps)
	cnt := make([]map[int64]int, n)
	dyn := make([]bool, n)
	for c := range cnt {
		cnt[c] = map[int64]int{}
	}
	var walk func(ops []Op)
	walk = func(ops []Op) {
		for i := range ops {
			o := &ops[i]
			if o.Kind == "push" && o.C < n {
				if o.E.Kind == "lit" {
					cnt[o.C][o.E.Z]++
				} else {
					dyn[o.C] = true
				}
			}
			walk(o.Body)
		}
	}
	for _, r := range p.Code {
		walk(r)
	}
	out := make([]map[int64]bool, n)
	for c := range out {
		if dyn[c] {
			continue
		}
		out[c] = map[int64]bool{}
		for v, k := range cnt[c] {
			if k == 1 {
				out[c][v] = true
			}
		}
	}
	return out
}

// newGuide: strict[c] = every entry ever queued on c is known to be received by a reporting routine
// (all routines reported and the channel ended empty); otherwise only statically unique literals are tracked
func newGuide(want [][]logEntry, nch int, strict []bool, uniq []map[int64]bool) *guide {
	g := &guide{want: want, owner: make([]map[int64][2]int, nch), pre: make([][][]int, len(want))}
	count := make([]map[int64]int, nch)
	for c := range count {
		count[c] = map[int64]int{}
		g.owner[c] = map[int64][2]int{}
	}
	for i, w := range want {
		g.pre[i] = make([][]int, nch)
		for c := 0; c < nch; c++ {
			g.pre[i][c] = make([]int, len(w)+1)
		}
		for k, e := range w {
			for c := 0; c < nch; c++ {
				g.pre[i][c][k+1] = g.pre[i][c][k]
			}
			if e.Tag >= 0 && e.Tag < nch {
				if !e.Nil {
					count[e.Tag][e.Val]++
					g.owner[e.Tag][e.Val] = [2]int{i, g.pre[i][e.Tag][k]}
				}
				g.pre[i][e.Tag][k+1]++
			}
		}
	}
	for c := range count {
		for v, n := range count[c] {
			if n != 1 || (!strict[c] && (uniq[c] == nil || !uniq[c][v])) {
				delete(g.owner[c], v)
			}
		}
	}
	return g
}

// queueOK: the entries waiting in channel c can still come out in an order that agrees with the reported
// logs (each reporter receives its values of channel c in the order it logged them)
func (g *guide) queueOK(s *mstate, c int) bool {
	if g == nil || g.owner == nil {
		return true
	}
	var ptr [16]int
	var set [16]bool
	for _, e := range s.chs[c].q {
		if e.v.null {
			continue
		}
		ow, ok := g.owner[c][e.v.z]
		if !ok {
			continue
		}
		a := ow[0]
		if a >= len(ptr) {
			continue
		}
		if !set[a] {
			set[a] = true
			ptr[a] = g.pre[a][c][s.rs[a].lp]
		}
		if ow[1] != ptr[a] {
			return false
		}
		ptr[a]++
	}
	return true
}

func initState(p *Prog) *mstate {
	s := &mstate{}
	for i, ops := range p.Code {
		s.rs = append(s.rs, mrt{stk: []mframe{{kind: kPlain, ops: ops, id: -(i + 1)}}, got: mval{null: true}})
	}
	for _, c := range p.Caps {
		s.chs = append(s.chs, mch{cap: c})
	}
	for m := 0; m < p.NMutex; m++ {
		s.mus = append(s.mus, -1)
	}
	s.mem = append(s.mem, p.Mem...)
	return s
}

func (s *mstate) clone() *mstate {
	n := &mstate{rs: make([]mrt, len(s.rs)), chs: make([]mch, len(s.chs)), mus: append([]int(nil), s.mus...), mem: append([]int64(nil), s.mem...)}
	copy(n.rs, s.rs) // stacks are copied on write
	copy(n.chs, s.chs)
	return n
}

func (s *mstate) parked(i int) bool {
	for c := range s.chs {
		ch := &s.chs[c]
		for k := ch.cap; k < len(ch.q); k++ {
			if ch.q[k].from == i {
				return true
			}
		}
	}
	return false
}

func (r *mrt) finished() bool { return len(r.stk) == 0 }

// key of the state for the visited set
func (s *mstate) key() string {
	var b strings.Builder
	for i := range s.rs {
		r := &s.rs[i]
		if r.unw {
			b.WriteByte('u')
		}
		if r.ext {
			b.WriteByte('e')
			if r.extTB {
				b.WriteByte('t')
			}
			b.WriteString(strconv.Itoa(r.extB))
		}
		if r.got.null {
			b.WriteByte('n')
		} else {
			b.WriteString(strconv.FormatInt(r.got.z, 36))
		}
		b.WriteByte(',')
		b.WriteString(strconv.FormatInt(r.acc, 36))
		b.WriteByte(',')
		b.WriteString(strconv.Itoa(r.lp))
		for _, f := range r.stk {
			b.WriteByte('/')
			b.WriteString(strconv.Itoa(f.id))
			b.WriteByte('.')
			b.WriteString(strconv.Itoa(len(f.ops)))
		}
		b.WriteByte('|')
	}
	for c := range s.chs {
		ch := &s.chs[c]
		if ch.closed {
			b.WriteByte('x')
		}
		for _, e := range ch.q {
			if e.v.null {
				b.WriteByte('n')
			} else {
				b.WriteString(strconv.FormatInt(e.v.z, 36))
			}
			b.WriteByte('@')
			b.WriteString(strconv.Itoa(e.from))
			b.WriteByte(' ')
		}
		b.WriteByte('|')
	}
	for _, m := range s.mus {
		b.WriteString(strconv.Itoa(m))
		b.WriteByte(' ')
	}
	b.WriteByte('|')
	for _, z := range s.mem {
		b.WriteString(strconv.FormatInt(z, 36))
		b.WriteByte(' ')
	}
	return b.String()
}

func veval(r *mrt, e *Expr) mval {
	switch e.Kind {
	case "lit":
		return mval{z: e.Z}
	case "got":
		return r.got
	}
	return mval{z: r.acc}
}

// consistent reports whether producing log entry (tag, v) next agrees with what routine i reported
func (g *guide) consistent(i int, r *mrt, tag int, v mval) bool {
	if g == nil || g.want[i] == nil {
		return true
	}
	w := g.want[i]
	if r.lp >= len(w) {
		return false
	}
	e := w[r.lp]
	if e.Tag != tag || e.Str != "" {
		return false
	}
	if e.Nil != v.null {
		return false
	}
	return v.null || e.Val == v.z
}

// step returns the successor of s when routine i moves (k: select clause), or nil when the move is not
// enabled or contradicts the guide.  s is not modified.
func (s *mstate) step(i, k int, g *guide, ids map[*Op]int) *mstate {
	if i >= len(s.rs) {
		return nil
	}
	r0 := &s.rs[i]
	if len(r0.stk) == 0 || s.parked(i) {
		return nil
	}
	top := r0.stk[len(r0.stk)-1]
	n := s.clone()
	r := &n.rs[i]
	pop := func() { r.stk = append([]mframe(nil), r.stk[:len(r.stk)-1]...) }
	if r0.unw {
		pop()
		switch top.kind {
		case kCatch:
			r.unw = false
		case kLock:
			n.mus[top.m] = -1
		}
		return n
	}
	if r0.ext {
		// the marker is the value of the form just evaluated in the top frame: every form passes it up at once,
		// from any position of its body (slip after the repairs C07-1..21)
		pop()
		switch top.kind {
		case kLock:
			n.mus[top.m] = -1 // the deferred Unlock
		case kBlock:
			if !top.tb { // block: takes the return marker that carries its name
				if !r0.extTB && top.b == r0.extB {
					r.ext = false
				}
			} else if r0.extTB && top.b == r0.extB { // tagbody: takes the go marker that carries its tag
				r.ext = false
			}
		}
		return n
	}
	if len(top.ops) == 0 {
		pop()
		if top.kind == kLock {
			n.mus[top.m] = -1
		}
		return n
	}
	o := &top.ops[0]
	// advance: copy the stack with the top frame shortened
	adv := func() {
		st := append([]mframe(nil), r.stk...)
		st[len(st)-1].ops = top.ops[1:]
		r.stk = st
	}
	take := func(c int, stay bool) *mstate {
		if c >= len(s.chs) {
			return nil
		}
		ch := &n.chs[c]
		var v mval
		if len(ch.q) > 0 {
			v = ch.q[0].v
			ch.q = append([]mentry(nil), ch.q[1:]...)
		} else if ch.closed {
			v = mval{null: true}
		} else {
			return nil
		}
		if !g.consistent(i, r, c, v) {
			return nil
		}
		if !stay {
			adv()
		}
		r.got = v
		r.lp++
		return n
	}
	switch o.Kind {
	case "push":
		if o.C >= len(s.chs) {
			return nil
		}
		adv()
		ch := &n.chs[o.C]
		if ch.closed {
			r.unw = true
			return n
		}
		ch.q = append(append([]mentry(nil), ch.q...), mentry{v: veval(r, o.E), from: i})
		if !g.queueOK(n, o.C) {
			return nil
		}
		return n
	case "pop":
		return take(o.C, false)
	case "range":
		if o.C >= len(s.chs) {
			return nil
		}
		if len(s.chs[o.C].q) > 0 {
			return take(o.C, true)
		}
		if s.chs[o.C].closed {
			adv()
			return n
		}
		return nil
	case "select":
		if k >= len(o.Cs) || o.Cs[k] < 0 { // a timeout clause is never ready
			return nil
		}
		return take(o.Cs[k], false)
	case "close":
		if o.C >= len(s.chs) {
			return nil
		}
		adv()
		ch := &n.chs[o.C]
		if ch.closed {
			r.unw = true
			return n
		}
		ch.closed = true
		if len(ch.q) > ch.cap {
			for _, e := range ch.q[ch.cap:] {
				n.rs[e.from].unw = true
			}
			ch.q = append([]mentry(nil), ch.q[:ch.cap]...)
		}
		return n
	case "load":
		if o.X >= len(s.mem) {
			return nil
		}
		v := mval{z: s.mem[o.X]}
		if !g.consistent(i, r, 100+o.X, v) {
			return nil
		}
		adv()
		r.acc = v.z
		r.lp++
		return n
	case "store":
		if o.X >= len(s.mem) {
			return nil
		}
		adv()
		if o.E.Kind == "lit" {
			n.mem[o.X] = o.E.Z
		} else {
			n.mem[o.X] = r.acc + o.E.Z
		}
		return n
	case "fail":
		adv()
		r.unw = true
		return n
	case "lock":
		if o.M >= len(s.mus) || s.mus[o.M] != -1 {
			return nil
		}
		adv()
		n.mus[o.M] = i
		r.stk = append(r.stk, mframe{kind: kLock, m: o.M, ops: o.Body, id: ids[o]})
		return n
	case "catch":
		adv()
		r.stk = append(r.stk, mframe{kind: kCatch, ops: o.Body, id: ids[o]})
		return n
	case "block":
		adv()
		r.stk = append(r.stk, mframe{kind: kBlock, tb: o.TB, b: o.B, ops: o.Body, id: ids[o]})
		return n
	case "exit":
		adv()
		found := false
		for _, f := range r.stk {
			if f.kind == kBlock && ((o.TB && f.tb) || (!o.TB && !f.tb && f.b == o.B)) {
				found = true
			}
		}
		if found {
			r.ext, r.extTB, r.extB = true, o.TB, o.B
		} else {
			r.unw = true
		}
		return n
	}
	return nil
}

// nextOp returns the operation routine i would execute next (nil: frame pop, unwinding step or finished)
func (s *mstate) nextOp(i int) *Op {
	r := &s.rs[i]
	if len(r.stk) == 0 || r.unw || r.ext {
		return nil
	}
	top := r.stk[len(r.stk)-1]
	if len(top.ops) == 0 {
		return nil
	}
	return &top.ops[0]
}

func (s *mstate) choices(i int) int {
	if o := s.nextOp(i); o != nil && o.Kind == "select" {
		return len(o.Cs)
	}
	return 1
}

func (s *mstate) stuck() bool {
	for i := range s.rs {
		for k := 0; k < s.choices(i); k++ {
			if s.step(i, k, nil, nil) != nil {
				return false
			}
		}
	}
	return true
}

// number every lock / catch operation (identity of the body a frame runs)
func numberOps(p *Prog) map[*Op]int {
	ids := map[*Op]int{}
	var walk func(ops []Op)
	walk = func(ops []Op) {
		for i := range ops {
			o := &ops[i]
			if o.Kind == "lock" || o.Kind == "catch" || o.Kind == "block" {
				ids[o] = len(ids) + 1
				walk(o.Body)
			}
		}
	}
	for _, r := range p.Code {
		walk(r)
	}
	return ids
}
