// probe.go: a development aid.  VERIF_C17_PROBE=<file with one JSON job per line> [VERIF_C17_RACE=1]
// build/harness C17 --out /tmp/x : runs the jobs in a worker process and prints what came back.
package c17

import (
	"bufio"
	"encoding/json"
	"fmt"
	"os"
	"sort"

	"verifharness/common"
)

func probe(ctx *common.Ctx) {
	var jobs []job
	if os.Getenv("VERIF_C17_PROBE") == "INST" {
		ips := genInstProbes()
		for i := range ips {
			ips[i].Job.ID = i
			jobs = append(jobs, ips[i].Job)
		}
		dir, _ := os.MkdirTemp("", "c17p-")
		defer os.RemoveAll(dir)
		for i, oc := range runJobs(selfBin(), dir, jobs, nil) {
			if oc.Res == nil {
				fmt.Println(ips[i].Op, ips[i].Kind, ips[i].Sync, "NO RESULT", oc.Crash)
				continue
			}
			fmt.Printf("%-18s %-7s sync=%-5v waited=%-5v probed=%v value=%s err=%s hang=%v\n", ips[i].Op, ips[i].Kind, ips[i].Sync, oc.Res.Blocked, oc.Res.Probed, oc.Res.Value, oc.Res.Err, oc.Res.Hang)
		}
		return
	}
	if os.Getenv("VERIF_C17_PROBE") == "LOCKS" {
		jobs = genLockProbes(0)
		for i := range jobs {
			jobs[i].ID = i
		}
		dir, _ := os.MkdirTemp("", "c17p-")
		defer os.RemoveAll(dir)
		for i, oc := range runJobs(selfBin(), dir, jobs, nil) {
			if oc.Res == nil {
				fmt.Println(lockOps[i].Name, "NO RESULT", oc.Crash)
				continue
			}
			if os.Getenv("VERIF_C17_VERBOSE") != "" {
				fmt.Println(oc.Stderr)
			}
			fmt.Printf("%-20s blocked=%-5v probed=%v value=%s err=%s hang=%v\n", lockOps[i].Name, oc.Res.Blocked, oc.Res.Probed, oc.Res.Value, oc.Res.Err, oc.Res.Hang)
		}
		return
	}
	f, err := os.Open(os.Getenv("VERIF_C17_PROBE"))
	if err != nil {
		panic(err)
	}
	defer f.Close()
	sc := bufio.NewScanner(f)
	sc.Buffer(make([]byte, 1<<20), 1<<26)
	for sc.Scan() {
		var j job
		if json.Unmarshal(sc.Bytes(), &j) == nil && len(j.Runs) > 0 {
			j.ID = len(jobs)
			jobs = append(jobs, j)
		}
	}
	bin := selfBin()
	if os.Getenv("VERIF_C17_RACE") != "" {
		bin = buildRace(ctx)
		if bin == "" {
			fmt.Println("no race build:", ctx.Meta.Notes)
			return
		}
	}
	dir, _ := os.MkdirTemp("", "c17p-")
	defer os.RemoveAll(dir)
	outs := runJobs(bin, dir, jobs, nil)
	for i, oc := range outs {
		fmt.Printf("=== job %d\n", i)
		if oc.Res != nil {
			b, _ := json.Marshal(oc.Res)
			s := string(b)
			if len(s) > 3000 {
				s = s[:3000] + "..."
			}
			fmt.Println(s)
		} else {
			fmt.Println("NO RESULT; crash:", oc.Crash)
			fmt.Println(oc.Stderr)
		}
		sigs := map[string]int{}
		for _, r := range oc.Races {
			sigs[raceSignature(r)]++
		}
		var keys []string
		for k := range sigs {
			keys = append(keys, k)
		}
		sort.Strings(keys)
		for _, k := range keys {
			fmt.Printf("  race x%d: %s\n", sigs[k], k)
		}
		if os.Getenv("VERIF_C17_VERBOSE") != "" {
			for _, r := range oc.Races {
				fmt.Println(r)
			}
		}
	}
}
