// Package c17: channels, mutexes and synchronized objects under concurrency.
//
// prog.go: the program language shared by the Coq model (coq/C17/Model.v) and the harness, its rendering
// as a slip program (one form per routine, or - Cold - one never-called function per kind of routine) and as a
// Gallina term.
package c17

import (
	"fmt"
	"strings"
)

// Expr kinds: "lit" (Z), "got", "acc" for pushes; "lit", "accplus" (acc + Z) for stores.
type Expr struct {
	Kind string `json:"k"`
	Z    int64  `json:"z,omitempty"`
}

// Op kinds: push pop range select close load store fail lock catch.
type Op struct {
	Kind string `json:"op"`
	C    int    `json:"c,omitempty"`  // channel
	X    int    `json:"x,omitempty"`  // cell
	M    int    `json:"m,omitempty"`  // mutex
	E    *Expr  `json:"e,omitempty"`  // push / store operand
	Cs   []int  `json:"cs,omitempty"` // select clauses
	Body []Op   `json:"body,omitempty"`
	TB   bool   `json:"tb,omitempty"` // block / exit: tagbody + go instead of block + return-from
	B    int    `json:"b,omitempty"`  // block / exit: block name, tag
}

// Prog is a program of the model plus the rendering choices that the model does not see.
type Prog struct {
	Caps   []int    `json:"caps"`
	NMutex int      `json:"nmutex"`
	Mem    []int64  `json:"mem"`
	Cells  []string `json:"cells"` // how cell x is realised: global | clos | flavor | let | hash (hash: only under one mutex)
	Code   [][]Op   `json:"code"`
	Shape  string   `json:"shape"`
	Yield  int      `json:"yield"` // percent of operations followed by (vyield)
	Slow   int      `json:"slow"`  // routine that is held back by short sleeps (priority perturbation), -1 none
	Procs  int      `json:"procs"` // GOMAXPROCS
	// Cold: the body of every routine is a function of its own kind (routines with equal code share ONE function)
	// that nobody has called before the routines start: they enter it, and compile its forms in place, at once
	Cold bool `json:"cold"`
}

func lit(z int64) *Expr     { return &Expr{Kind: "lit", Z: z} }
func accplus(k int64) *Expr { return &Expr{Kind: "accplus", Z: k} }

func Push(c int, z int64) Op              { return Op{Kind: "push", C: c, E: lit(z)} }
func PushGot(c int) Op                    { return Op{Kind: "push", C: c, E: &Expr{Kind: "got"}} }
func PushAcc(c int) Op                    { return Op{Kind: "push", C: c, E: &Expr{Kind: "acc"}} }
func Pop(c int) Op                        { return Op{Kind: "pop", C: c} }
func Range(c int) Op                      { return Op{Kind: "range", C: c} }
func Select(cs ...int) Op                 { return Op{Kind: "select", Cs: cs} } // -1: a timeout clause
func Close(c int) Op                      { return Op{Kind: "close", C: c} }
func Load(x int) Op                       { return Op{Kind: "load", X: x} }
func Store(x int, e *Expr) Op             { return Op{Kind: "store", X: x, E: e} }
func Fail() Op                            { return Op{Kind: "fail"} }
func Lock(m int, b ...Op) Op              { return Op{Kind: "lock", M: m, Body: b} }
func Catch(b ...Op) Op                    { return Op{Kind: "catch", Body: b} }
func Block(tb bool, b int, body ...Op) Op { return Op{Kind: "block", TB: tb, B: b, Body: body} }
func Exit(tb bool, b int) Op              { return Op{Kind: "exit", TB: tb, B: b} }
func Incr(m, x int, k int64) Op           { return Lock(m, Load(x), Store(x, accplus(k))) }

// CountOps counts operations including nested ones.
func CountOps(ops []Op) int {
	n := 0
	for _, o := range ops {
		n += 1 + CountOps(o.Body)
	}
	return n
}

// ---- Gallina --------------------------------------------------------------------------------

func gz(z int64) string { return fmt.Sprintf("(%d)%%Z", z) }

func (o Op) Gallina() string {
	switch o.Kind {
	case "push":
		switch o.E.Kind {
		case "lit":
			return fmt.Sprintf("OPush %d (VLit %s)", o.C, gz(o.E.Z))
		case "got":
			return fmt.Sprintf("OPush %d VGot", o.C)
		default:
			return fmt.Sprintf("OPush %d VAcc", o.C)
		}
	case "pop":
		return fmt.Sprintf("OPop %d", o.C)
	case "range":
		return fmt.Sprintf("ORange %d", o.C)
	case "select":
		var cs []string
		for _, c := range o.Cs {
			if c < 0 {
				cs = append(cs, "None") // a timeout clause
			} else {
				cs = append(cs, fmt.Sprintf("Some %d", c))
			}
		}
		return "OSelect [" + strings.Join(cs, ";") + "]"
	case "close":
		return fmt.Sprintf("OClose %d", o.C)
	case "load":
		return fmt.Sprintf("OLoad %d", o.X)
	case "store":
		if o.E.Kind == "lit" {
			return fmt.Sprintf("OStore %d (ZLit %s)", o.X, gz(o.E.Z))
		}
		return fmt.Sprintf("OStore %d (ZAccPlus %s)", o.X, gz(o.E.Z))
	case "fail":
		return "OFail"
	case "lock":
		return fmt.Sprintf("OLock %d %s", o.M, GOps(o.Body))
	case "catch":
		return "OCatch " + GOps(o.Body)
	case "block":
		return fmt.Sprintf("OBlock %v %d %s", o.TB, o.B, GOps(o.Body))
	case "exit":
		return fmt.Sprintf("OExit %v %d", o.TB, o.B)
	}
	panic("unknown op " + o.Kind)
}

func GOps(ops []Op) string {
	items := make([]string, len(ops))
	for i, o := range ops {
		items[i] = o.Gallina()
	}
	return "[" + strings.Join(items, "; ") + "]"
}

func (p *Prog) Gallina() string {
	var caps, mem, code []string
	for _, c := range p.Caps {
		caps = append(caps, fmt.Sprint(c))
	}
	for _, z := range p.Mem {
		mem = append(mem, gz(z))
	}
	for _, r := range p.Code {
		code = append(code, GOps(r))
	}
	return fmt.Sprintf("(mkP [%s] %d [%s] [%s])", strings.Join(caps, ";"), p.NMutex, strings.Join(mem, ";"), strings.Join(code, ";\n      "))
}

// ---- slip program ---------------------------------------------------------------------------

// every job of one worker process uses its own global names
func cellRead(kind string, x int, job int) string {
	switch kind {
	case "global":
		return fmt.Sprintf("*c17g-%d-%d*", job, x)
	case "clos":
		return fmt.Sprintf("(slot-value o%d 'v)", x)
	case "flavor":
		return fmt.Sprintf("(send o%d :v)", x)
	case "hash":
		return fmt.Sprintf("(values (gethash 'k h%d))", x)
	case "let": // a variable of the scope that all routines of the job are started from
		return fmt.Sprintf("v%d", x)
	}
	panic("cell kind " + kind)
}

func cellWrite(kind string, x int, job int, e string) string {
	switch kind {
	case "global":
		return fmt.Sprintf("(setq *c17g-%d-%d* %s)", job, x, e)
	case "clos":
		return fmt.Sprintf("(setf (slot-value o%d 'v) %s)", x, e)
	case "flavor":
		return fmt.Sprintf("(send o%d :set-v %s)", x, e)
	case "hash":
		return fmt.Sprintf("(setf (gethash 'k h%d) %s)", x, e)
	case "let":
		return fmt.Sprintf("(setq v%d %s)", x, e)
	}
	panic("cell kind " + kind)
}

type renderer struct {
	p     *Prog
	job   int
	rid   int
	after func(rid int) string // text inserted after an operation of routine rid: "", " (vyield)", " (vpause n)"
}

func (rd *renderer) ops(b *strings.Builder, ops []Op) {
	for _, o := range ops {
		rd.op(b, o)
		if rd.after != nil {
			b.WriteString(rd.after(rd.rid))
		}
	}
}

func (rd *renderer) op(b *strings.Builder, o Op) {
	p := rd.p
	switch o.Kind {
	case "push":
		e := "got"
		switch o.E.Kind {
		case "lit":
			e = fmt.Sprint(o.E.Z)
		case "acc":
			e = "acc"
		}
		fmt.Fprintf(b, " (channel-push c%d %s)", o.C, e)
	case "pop":
		fmt.Fprintf(b, " (setq got (channel-pop c%d)) (setq log (cons (list %d got) log))", o.C, o.C)
	case "range":
		fmt.Fprintf(b, " (range (lambda (v) (setq got v) (setq log (cons (list %d v) log))) c%d)", o.C, o.C)
	case "select":
		b.WriteString(" (select")
		for _, c := range o.Cs {
			if c < 0 {
				// a timeout that cannot fire during the run; were its clause evaluated, the log would say so (tag 99)
				b.WriteString(" ((time-after 1000) tv (setq log (cons (list 99 0) log)))")
				continue
			}
			fmt.Fprintf(b, " (c%d v (setq got v) (setq log (cons (list %d v) log)))", c, c)
		}
		b.WriteString(")")
	case "close":
		fmt.Fprintf(b, " (channel-close c%d)", o.C)
	case "load":
		fmt.Fprintf(b, " (setq acc %s) (setq log (cons (list %d acc) log))", cellRead(p.Cells[o.X], o.X, rd.job), 100+o.X)
	case "store":
		e := fmt.Sprint(o.E.Z)
		if o.E.Kind == "accplus" {
			e = fmt.Sprintf("(+ acc %d)", o.E.Z)
		}
		b.WriteString(" " + cellWrite(p.Cells[o.X], o.X, rd.job, e))
	case "fail":
		b.WriteString(` (error "boom")`)
	case "lock":
		fmt.Fprintf(b, " (with-mutex-lock m%d", o.M)
		rd.ops(b, o.Body)
		b.WriteString(")")
	case "catch":
		b.WriteString(" (ignore-errors")
		rd.ops(b, o.Body)
		b.WriteString(")")
	case "block":
		if o.TB {
			b.WriteString(" (tagbody")
			rd.ops(b, o.Body)
			fmt.Fprintf(b, " %d)", o.B)
		} else {
			fmt.Fprintf(b, " (block c17b%d", o.B)
			rd.ops(b, o.Body)
			b.WriteString(")")
		}
	case "exit":
		if o.TB {
			fmt.Fprintf(b, " (go %d)", o.B)
		} else {
			fmt.Fprintf(b, " (return-from c17b%d 7)", o.B)
		}
	default:
		panic("unknown op " + o.Kind)
	}
}

// Lisp renders the program: setup forms (evaluated one after the other before any routine starts, in the
// scope that holds the channels, mutexes and objects), one (run ...) form per routine, and the forms that
// read the cells and the channel lengths afterwards.
func (p *Prog) Lisp(job int, after func(rid int) string) (setup []string, runs []string, finals []string) {
	for x, kind := range p.Cells {
		switch kind {
		case "global":
			setup = append(setup, fmt.Sprintf("(defvar *c17g-%d-%d* %d)", job, x, p.Mem[x]))
		case "clos":
			setup = append(setup, fmt.Sprintf("(setf (slot-value o%d 'v) %d)", x, p.Mem[x]))
		case "flavor":
			setup = append(setup, fmt.Sprintf("(send o%d :set-v %d)", x, p.Mem[x]))
		case "hash":
			setup = append(setup, fmt.Sprintf("(setf (gethash 'k h%d) %d)", x, p.Mem[x]))
		case "let":
			setup = append(setup, fmt.Sprintf("(setq v%d %d)", x, p.Mem[x]))
		}
		finals = append(finals, cellRead(kind, x, job))
	}
	rd := &renderer{p: p, job: job, after: after}
	fns := map[string]string{} // code of a routine -> name of the function that is its body (Cold)
	for i, r := range p.Code {
		rd.rid = i
		var b strings.Builder
		if p.Cold {
			key := GOps(r)
			name, have := fns[key]
			if !have {
				name = fmt.Sprintf("c17fn-%d-%d", job, len(fns))
				fns[key] = name
				fmt.Fprintf(&b, "(defun %s (rid) (let ((got nil) (acc 0) (log nil))", name)
				rd.ops(&b, r)
				b.WriteString(" (channel-push res (list rid log))))")
				setup = append(setup, b.String())
			}
			runs = append(runs, fmt.Sprintf("(run (%s %d))", name, i))
			continue
		}
		b.WriteString("(run (let ((got nil) (acc 0) (log nil))")
		rd.ops(&b, r)
		fmt.Fprintf(&b, " (channel-push res (list %d log))))", i)
		runs = append(runs, b.String())
	}
	for c := range p.Caps {
		finals = append(finals, fmt.Sprintf("(length c%d)", c))
	}
	return
}

// HasExit reports whether the program contains a return-from / go.
func HasExit(ops []Op) bool {
	for _, o := range ops {
		if o.Kind == "exit" || HasExit(o.Body) {
			return true
		}
	}
	return false
}
