// forced.go: implementation-only jobs whose schedule is forced by unbuffered channels, so that a defect
// shows deterministically:
//
//   - shared scope: several consumer routines started from the SAME scope (no let of their own) receive an
//     item into a variable of the same name (select clause variable, let around channel-pop, lambda parameter
//     of range), announce it on `ready`, wait at `gate`, and only then use the item.  Every consumer holds its
//     item before any of them uses it; every item pushed must come out exactly once.
//   - exits: the body of with-mutex-lock is left by return-from / return / go to a block or tagbody OUTSIDE
//     it (directly, out of nested locks, through ignore-errors / unwind-protect / let / progn, in last and in
//     non-last position), by an error, and normally; afterwards ANOTHER routine takes the same mutexes.  A mutex
//     that is not free again shows as routines blocked for good, with the program as the failing input.
//   - let counters: the documented example of with-mutex-lock (a counter in a let variable shared by the routines
//     started from that let); the sum must be exact, the process must survive (the variable map is shared).
//   - cold code: routines parked inside a function nobody has called before (or inside one form started k times)
//     are released together and compile its forms in place at the same time; every one must get the sequential value.
package c17

import (
	"fmt"
	"strings"

	"verifharness/common"
)

// the routine is evaluated directly in the scope shared by all routines of the job
func sharedRoutine(body string, rid int) string {
	return fmt.Sprintf("(run (progn %s (channel-push res (list %d nil))))", body, rid)
}

func genForced(ctx *common.Ctx) []implJob {
	r := ctx.Rng
	var out []implJob
	// ---- consumers sharing a scope and a variable name ----
	for _, kind := range []string{"select", "select2", "let-pop", "range"} {
		k := 2 + r.Intn(3) // consumers = items
		// channels: c0 items, c1 ready, c2 gate, c3 out, c4 second item channel (select2)
		caps := []int{0, 0, 0, k, 0}
		use := "(channel-push c1 t) (channel-pop c2) (channel-push c3 item)"
		var runs []string
		for i := 0; i < k; i++ {
			var body string
			switch kind {
			case "select":
				body = fmt.Sprintf("(select (c0 item %s))", use)
			case "select2":
				body = fmt.Sprintf("(select (c0 item %s) (c4 item %s))", use, use)
			case "let-pop":
				body = fmt.Sprintf("(let ((item (channel-pop c0))) %s)", use)
			case "range":
				body = fmt.Sprintf("(range (lambda (item) %s) c0)", use)
			}
			runs = append(runs, sharedRoutine(body, i))
		}
		var d strings.Builder
		var want []string
		for i := 0; i < k; i++ {
			ch := 0
			if kind == "select2" && i%2 == 1 {
				ch = 4
			}
			fmt.Fprintf(&d, "(channel-push c%d %d) ", ch, i+1)
			want = append(want, fmt.Sprint(i+1))
		}
		for i := 0; i < k; i++ {
			d.WriteString("(channel-pop c1) ")
		}
		for i := 0; i < k; i++ {
			d.WriteString("(channel-push c2 t) ")
		}
		d.WriteString("(setq log (cons (list 0 (if (equal (sort (list")
		for i := 0; i < k; i++ {
			d.WriteString(" (channel-pop c3)")
		}
		fmt.Fprintf(&d, ") '<) '(%s)) 1 0)) log))", strings.Join(want, " "))
		if kind == "range" {
			d.WriteString(" (channel-close c0)")
		}
		runs = append(runs, implRoutine(d.String(), k))
		counts := make([]int, k+1)
		counts[k] = 1
		out = append(out, implJob{Job: job{Kind: "lisp", Caps: caps, Runs: runs, Procs: common.Pick(r, procChoices)},
			Shape: "forced-shared-" + kind, Counts: counts})
	}

	// ---- every kind of exit from with-mutex-lock, then another routine takes the mutexes ----
	type exitKind struct{ name, open, exit, close string }
	exits := []exitKind{
		{"return-from", "(block c17b", "(return-from c17b 7)", ")"},
		{"return", "(block nil", "(return 7)", ")"},
		{"go", "(tagbody", "(go 0)", " 0)"},
		{"error", "(ignore-errors", `(error "boom")`, ")"},
		{"normal", "(progn", "7", ")"},
	}
	// what lies between the block and the with-mutex-lock on m0, and between the lock and the exit
	outer := []string{"%s", "(ignore-errors %s)", "(unwind-protect %s (channel-push c1 1))", "(let ((z 1)) %s)", "(with-mutex-lock m1 %s)", "(progn 1 %s)"}
	inner := []string{"%s", "(ignore-errors %s)", "(unwind-protect %s (channel-push c1 2))", "(let ((z 2)) %s)", "(with-mutex-lock m1 %s)", "(with-mutex-lock m1 5 %s)"}
	n := 10
	if ctx.Thorough() {
		n = 60
	}
	for t := 0; t < n; t++ {
		ex := exits[t%len(exits)]
		o, in := common.Pick(r, outer), common.Pick(r, inner)
		if strings.Contains(o, "m1") && strings.Contains(in, "m1") {
			in = "%s" // m1 is not re-entrant
		}
		pre, post := "", ""
		if r.Chance(50) {
			pre = "(channel-push c1 3) "
		}
		if r.Chance(35) {
			post = " (channel-push c1 4)" // the exit is not the last form: it leaves all the same, the mutex must be free
		}
		lock := fmt.Sprintf("(with-mutex-lock m0 %s%s%s)", pre, fmt.Sprintf(in, ex.exit), post)
		form := ex.open + " " + fmt.Sprintf(o, lock) + ex.close
		rounds := 1 + r.Intn(2)
		var a strings.Builder
		for k := 0; k < rounds; k++ {
			a.WriteString(form + " ")
		}
		// routine 0 leaves the locks, tells routine 1, which takes both mutexes; then routine 0 takes them again
		a.WriteString("(channel-push c0 1) (channel-pop c2) (with-mutex-lock m0 (with-mutex-lock m1 (setq log (cons (list 1 1) log))))")
		b := "(channel-pop c0) (with-mutex-lock m1 (with-mutex-lock m0 (setq log (cons (list 2 1) log)))) (channel-push c2 1)"
		out = append(out, implJob{Job: job{Kind: "lisp", Caps: []int{0, 64, 0}, NMutex: 2,
			Runs: []string{implRoutine(a.String(), 0), implRoutine(b, 1)}, Procs: common.Pick(r, procChoices)},
			Shape: "forced-exit-" + ex.name, Counts: []int{1, 1}})
	}
	// ---- select with a timeout clause written before / between / after the channel clauses: a consumer forwards
	//      every item to the out channel of the clause that ran; items must come out on the right channel ----
	for t := 0; t < 3; t++ {
		nch := 1 + r.Intn(3)
		// channels: c0..c(nch-1) in, c(nch)..c(2nch-1) out
		caps := make([]int, 2*nch)
		for c := range caps {
			caps[c] = 8
		}
		order := selectClauses(r, nch).Cs
		if t == 0 { // the documented consumer-with-timeout, timeout first
			order = append([]int{-1}, order...)
			var keep []int
			seen := 0
			for _, c := range order {
				if c < 0 {
					seen++
					if seen > 2 {
						continue
					}
				}
				keep = append(keep, c)
			}
			order = keep
		}
		var sel strings.Builder
		sel.WriteString("(select")
		for _, c := range order {
			if c < 0 {
				sel.WriteString(" ((time-after 1000) tv (channel-push c0 -1))")
			} else {
				fmt.Fprintf(&sel, " (c%d v (channel-push c%d v))", c, nch+c)
			}
		}
		sel.WriteString(")")
		items := 2 + r.Intn(3)
		var cons, drv strings.Builder
		for k := 0; k < items*nch; k++ {
			cons.WriteString(sel.String() + " ")
		}
		for k := 0; k < items; k++ {
			for c := 0; c < nch; c++ {
				fmt.Fprintf(&drv, "(channel-push c%d %d) ", c, 100*c+k)
			}
		}
		n := 0
		for c := 0; c < nch; c++ {
			for k := 0; k < items; k++ {
				drv.WriteString(okEntry(n, fmt.Sprintf("(channel-pop c%d)", nch+c), fmt.Sprint(100*c+k)) + " ")
				n++
			}
		}
		out = append(out, implJob{Job: job{Kind: "lisp", Caps: caps, Runs: []string{implRoutine(cons.String(), 0), implRoutine(drv.String(), 1)},
			Procs: common.Pick(r, procChoices)}, Shape: "forced-select-timeout", Counts: []int{0, n}})
	}

	// ---- range with a second consumer on the same buffered channel and a close in between: n items wait in the
	//      buffer; the ranging routine is held INSIDE its function on item p; meanwhile another routine takes the next t
	//      items and closes the channel; then the ranging routine is let go.  It must have seen exactly the items
	//      1..p and p+t+1..n, each once, and nothing else (no nil from the closed channel).  Every (n, p, t) with
	//      n <= 4 is run: 10 jobs ----
	for n := 2; n <= 4; n++ {
		for p := 1; p < n; p++ {
			for t := 1; t <= n-p; t++ {
				// c0 items (cap n), c1 "I am inside on item p", c2 "go on"
				var want []string
				for v := 1; v <= n; v++ {
					if v <= p || v > p+t {
						want = append(want, fmt.Sprint(v))
					}
				}
				ranger := fmt.Sprintf("(let ((seen nil)) (range (lambda (v) (setq seen (cons v seen)) (if (equal v %d) (progn (channel-push c1 1) (channel-pop c2)) nil)) c0) %s)",
					p, okEntry(0, "(reverse seen)", "'("+strings.Join(want, " ")+")"))
				var d strings.Builder
				for v := 1; v <= n; v++ {
					fmt.Fprintf(&d, "(channel-push c0 %d) ", v)
				}
				d.WriteString("(channel-push c3 1) (channel-pop c1) ")
				for k := 0; k < t; k++ {
					d.WriteString(okEntry(k, "(channel-pop c0)", fmt.Sprint(p+1+k)) + " ")
				}
				d.WriteString("(channel-close c0) (channel-push c2 1)")
				// the ranging routine starts when all items are in the buffer
				out = append(out, implJob{Job: job{Kind: "lisp", Caps: []int{n, 0, 0, 1},
					Runs: []string{implRoutine("(channel-pop c3) "+ranger, 0), implRoutine(d.String(), 1)}, Procs: common.Pick(r, procChoices)},
					Shape: "forced-range-steal", Counts: []int{1, t}})
			}
		}
	}

	// ---- select over a CLOSED channel: its clause runs with nil, whether select can use the Go select statement
	//      (at most two timer clauses) or has to go through reflect.Select (three and more) ----
	for _, nt := range []int{0, 2, 3, 4} {
		var sel strings.Builder
		sel.WriteString("(select")
		pos := r.Intn(nt + 1)
		for t := 0; t <= nt; t++ {
			if t == pos {
				sel.WriteString(" (c0 v (list 7 v))")
			}
			if t < nt {
				sel.WriteString(" ((time-after 1000) tv (list 99 tv))")
			}
		}
		sel.WriteString(")")
		body := "(channel-push c0 5) (channel-close c0) " + okEntry(0, sel.String(), "'(7 5)") + " " + okEntry(1, sel.String(), "'(7 nil)") + " " +
			okEntry(2, sel.String(), "'(7 nil)")
		out = append(out, implJob{Job: job{Kind: "lisp", Caps: []int{1}, Runs: []string{implRoutine(body, 0)}, Procs: common.Pick(r, procChoices)},
			Shape: fmt.Sprintf("forced-select-closed-%d-timers", nt), Counts: []int{3}})
	}

	// ---- synchronizedp / set-synchronized while another routine is inside a slot access (vhold holds the instance
	//      lock the way a slot access does): the instance must still be reported synchronized, set-synchronized
	//      must leave its mutex alone, a slot write must wait for the holder ----
	for _, kind := range []string{"clos", "flavor"} {
		// c0 told, c1 release, c2 go-write, c3 wrote
		hold := "(vhold o0 c0 c1)"
		probe := "(channel-pop c0) " + okEntry(0, "(synchronizedp o0)", "t") + " (set-synchronized o0 t) " + okEntry(1, "(synchronizedp o0)", "t") +
			" (channel-push c2 1) (vpause 20000) " + okEntry(2, "(length c3)", "0") + " (channel-push c1 1) " +
			okEntry(3, "(channel-pop c3)", "5") + " " + okEntry(4, cellRead(kind, 0, 0), "5") + " " + okEntry(5, "(synchronizedp o0)", "t")
		write := "(channel-pop c2) " + cellWrite(kind, 0, 0, "5") + " (channel-push c3 5)"
		out = append(out, implJob{Job: job{Kind: "lisp", Caps: []int{0, 0, 0, 1}, Cells: []string{kind},
			Runs: []string{implRoutine(hold, 0), implRoutine(probe, 1), implRoutine(write, 2)}, Procs: common.Pick(r, procChoices)},
			Shape: "forced-sync-held-" + kind, Counts: []int{0, 6, 0}})
	}
	// ---- the same without the harness holding anything: writers hammer their own slot of one synchronized
	//      instance while a routine keeps asking synchronizedp and setting synchronized again ----
	for _, kind := range []string{"clos", "flavor"} {
		nw := 3 + r.Intn(3)
		loops := 1500
		var runs []string
		counts := make([]int, nw+1)
		for i := 0; i < nw; i++ {
			runs = append(runs, implRoutine(fmt.Sprintf("(dotimes (k%d %d) %s)", i, loops, cellWrite(kind, 0, 0, fmt.Sprintf("k%d", i))), i))
		}
		ask := fmt.Sprintf("(let ((bad 0)) (dotimes (q %d) (if (synchronizedp o0) nil (setq bad (+ bad 1))) (set-synchronized o0 t)) %s)", loops,
			okEntry(0, "bad", "0"))
		runs = append(runs, implRoutine(ask, nw))
		counts[nw] = 1
		out = append(out, implJob{Job: job{Kind: "lisp", Cells: []string{kind}, Runs: runs, Procs: common.Pick(r, []int{4, 8, 16})},
			Shape: "forced-sync-load-" + kind, Counts: counts})
	}
	// ---- the documented way of guarding shared data: a counter in a LET variable, incremented inside with-mutex-lock
	//      by routines started from that let (the scope's variable map is shared by all of them; run makes it
	//      synchronized).  Two ways of starting the routines: one form each, and ONE form started k times by dotimes
	//      (then the routines also compile that form in place at the same time).  The sum must be exact ----
	for t, loop := range []bool{false, true, r.Bool()} {
		k := 2 + r.Intn(5)
		per := 40 + r.Intn(120)
		worker := fmt.Sprintf("(run (progn (dotimes (i %d) (with-mutex-lock m (setq n (+ n 1)))) (with-mutex-lock m (setq total (+ total %d))) (channel-push d 1)))", per, per)
		var b strings.Builder
		fmt.Fprintf(&b, "(let ((n 0) (total 0) (m (make-mutex)) (d (make-channel %d)))", k)
		if loop {
			fmt.Fprintf(&b, " (dotimes (w %d) %s)", k, worker)
		} else {
			for i := 0; i < k; i++ {
				b.WriteString(" " + worker)
			}
		}
		fmt.Fprintf(&b, " (run (let ((log nil)) (dotimes (w %d) (channel-pop d)) %s %s (channel-push res (list 0 log)))))", k,
			okEntry(0, "n", fmt.Sprint(k*per)), okEntry(1, "total", fmt.Sprint(k*per)))
		shape := "forced-let-counter"
		if loop {
			shape = "forced-let-counter-loop"
		}
		_ = t
		out = append(out, implJob{Job: job{Kind: "lisp", Runs: []string{b.String()}, Results: 1, Procs: common.Pick(r, []int{2, 4, 8, 16})},
			Shape: shape, Counts: []int{2}})
	}
	// ---- k routines are parked INSIDE a function nobody has called before and released together: they compile its
	//      forms in place at the same time; every routine must get the sequential value.  Second variant: the same
	//      thing for one (run form) started k times ----
	coldBody := func(x string) string {
		return fmt.Sprintf("(let* ((y (* %[1]s %[1]s)) (acc (list y))) "+
			"(cond ((< y 0) (setq acc (cons -1 acc))) (t (setq acc (cons (+ y 1) acc)))) "+
			"(dotimes (i 3) (setq acc (cons (+ i %[1]s) acc))) "+
			"(dolist (z (list 1 2)) (setq acc (cons (* z %[1]s) acc))) "+
			"(when (> y -1) (setq acc (cons (if (evenp %[1]s) 0 1) acc))) "+
			"(setq acc (cons (funcall (lambda (q) (+ q 1)) %[1]s) acc)) "+
			"(case %[1]s (1 (setq acc (cons 100 acc))) (t (setq acc (cons 200 acc)))) "+
			"(apply #'+ acc))", x)
	}
	coldValue := func(x int) int {
		v := 2*x*x + 7*x + 5 + 200
		if x%2 != 0 {
			v++
		}
		if x == 1 {
			v -= 100
		}
		return v
	}
	for t := 0; t < 2; t++ {
		k := 2 + r.Intn(5)
		name := fmt.Sprintf("c17cold-%d-%d", r.Intn(1000000), t)
		setup := []string{fmt.Sprintf("(defun %s (g x) (channel-pop g) %s)", name, coldBody("x"))}
		var runs []string
		counts := make([]int, k+1)
		for i := 0; i < k; i++ {
			runs = append(runs, implRoutine(okEntry(0, fmt.Sprintf("(%s c0 %d)", name, i), fmt.Sprint(coldValue(i))), i))
			counts[i] = 1
		}
		var d strings.Builder
		d.WriteString("(vpause 20000)")
		for i := 0; i < k; i++ {
			d.WriteString(" (channel-push c0 1)")
		}
		runs = append(runs, implRoutine(d.String(), k))
		out = append(out, implJob{Job: job{Kind: "lisp", Caps: []int{0}, Setup: setup, Runs: runs, Procs: common.Pick(r, []int{2, 4, 8, 16})},
			Shape: "forced-cold-function", Counts: counts})
	}
	{
		k := 2 + r.Intn(5)
		x := 2 + r.Intn(5)
		var b strings.Builder
		fmt.Fprintf(&b, "(progn (dotimes (w %d) (run (progn (channel-pop c0) (channel-push c1 %s))))", k, coldBody(fmt.Sprint(x)))
		b.WriteString(" (run (let ((log nil)) (vpause 20000)")
		for i := 0; i < k; i++ {
			b.WriteString(" (channel-push c0 1)")
		}
		for i := 0; i < k; i++ {
			b.WriteString(" " + okEntry(i, "(channel-pop c1)", fmt.Sprint(coldValue(x))))
		}
		b.WriteString(" (channel-push res (list 0 log)))))")
		out = append(out, implJob{Job: job{Kind: "lisp", Caps: []int{0, k}, Runs: []string{b.String()}, Results: 1, Procs: common.Pick(r, []int{2, 4, 8, 16})},
			Shape: "forced-same-form", Counts: []int{k}})
	}
	return out
}
