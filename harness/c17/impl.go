// impl.go: what the model cannot exhibit is exercised on the implementation only: routines that
// concurrently define variables, functions and methods, call shared functions nobody has called before, print, and touch a synchronized instance while its
// mode is set again.  Every routine logs (k ok) where ok is 1 when the value it saw equals the value the same
// expression has sequentially; the parent demands: every routine finishes, every ok is 1, the process
// survives, and (race-enabled worker) no data race is reported.
package c17

import (
	"fmt"
	"strings"

	"verifharness/common"
)

type implJob struct {
	Job    job
	Shape  string
	Counts []int    // log entries expected per routine
	Finals []string // expected printed finals
}

func implRoutine(body string, rid int) string {
	return fmt.Sprintf("(run (let ((log nil)) %s (channel-push res (list %d log))))", body, rid)
}

func okEntry(k int, got, want string) string {
	return fmt.Sprintf("(setq log (cons (list %d (if (equal %s %s) 1 0)) log))", k, got, want)
}

// genImpl builds the implementation-only jobs; uid makes every global name unique within the run.
func genImpl(ctx *common.Ctx, uid int) []implJob {
	r := ctx.Rng
	var out []implJob
	nr := 2 + r.Intn(7)
	per := 4 + r.Intn(12)
	mk := func(shape string, setup []string, bodies []string, counts []int, finals []string, finalsExpect []string, nmutex int, cells []string) {
		j := job{Kind: "lisp", Setup: setup, Finals: finals, NMutex: nmutex, Cells: cells, Procs: common.Pick(r, procChoices)}
		for i, b := range bodies {
			j.Runs = append(j.Runs, implRoutine(b, i))
		}
		out = append(out, implJob{Job: j, Shape: shape, Counts: counts, Finals: finalsExpect})
	}
	yield := func() string {
		if r.Chance(25) {
			return " (vyield)"
		}
		return ""
	}

	// ---- defvar / setq of distinct globals, read back ----
	{
		var bodies []string
		var counts []int
		for i := 0; i < nr; i++ {
			var b strings.Builder
			for k := 0; k < per; k++ {
				name := fmt.Sprintf("*c17v-%d-%d-%d*", uid, i, k)
				val := i*1000 + k
				fmt.Fprintf(&b, "(defvar %s %d)%s %s (setq %s %d) %s ", name, val, yield(), okEntry(2*k, name, fmt.Sprint(val)), name, val+1,
					okEntry(2*k+1, name, fmt.Sprint(val+1)))
			}
			bodies = append(bodies, b.String())
			counts = append(counts, 2*per)
		}
		last := fmt.Sprintf("*c17v-%d-%d-%d*", uid, nr-1, per-1)
		mk("impl-defvar", nil, bodies, counts, []string{last}, []string{fmt.Sprint((nr-1)*1000 + per - 1 + 1)}, 0, nil)
	}
	// ---- calls of a shared function that nobody has called before (its forms are compiled in place by the routines
	//      that get there first) and of routine-local lambdas ----
	{
		shared := fmt.Sprintf("c17sq-%d", uid)
		setup := []string{fmt.Sprintf("(defun %s (x) (let ((y (* x x))) (cond ((< y 0) (list y y)) ((> y 100000) (- y)) (t (when (> x -1) (+ y 1))))))", shared)}
		var bodies []string
		var counts []int
		for i := 0; i < nr; i++ {
			var b strings.Builder
			for k := 0; k < per; k++ {
				fmt.Fprintf(&b, "%s%s %s ", okEntry(2*k, fmt.Sprintf("(funcall (lambda (x) (+ x %d)) %d)", k, i), fmt.Sprint(i+k)), yield(),
					okEntry(2*k+1, fmt.Sprintf("(%s %d)", shared, k), fmt.Sprint(k*k+1)))
			}
			bodies = append(bodies, b.String())
			counts = append(counts, 2*per)
		}
		mk("impl-call", setup, bodies, counts, []string{fmt.Sprintf("(%s 5)", shared)}, []string{"26"}, 0, nil)
	}
	// ---- every routine defines functions of its own and calls them, and calls a function that another routine
	//      defines (defined by the time it is called: the definer says so on a channel) ----
	{
		var bodies []string
		var counts []int
		for i := 0; i < nr; i++ {
			var b strings.Builder
			for k := 0; k < per; k++ {
				name := fmt.Sprintf("c17f-%d-%d-%d", uid, i, k)
				fmt.Fprintf(&b, "(defun %s (x) (let ((y (+ x %d))) (if (< y 0) (list y) (* y 2))))%s %s ", name, k, yield(),
					okEntry(k, fmt.Sprintf("(%s %d)", name, i), fmt.Sprint(2*(i+k))))
			}
			// tell the next routine that my first function exists, call the first function of the previous one
			fmt.Fprintf(&b, "(channel-push c%d 1) (channel-pop c%d) %s ", i, (i+nr-1)%nr,
				okEntry(per, fmt.Sprintf("(c17f-%d-%d-0 7)", uid, (i+nr-1)%nr), "14"))
			bodies = append(bodies, b.String())
			counts = append(counts, per+1)
		}
		mk("impl-defun", nil, bodies, counts, []string{fmt.Sprintf("(c17f-%d-0-0 1)", uid)}, []string{"2"}, 0, nil)
		caps := make([]int, nr)
		for c := range caps {
			caps[c] = 1
		}
		out[len(out)-1].Job.Caps = caps
	}
	// ---- the variable table of the package under load: some routines INSERT new globals (defvar, defparameter, setq
	//      of a new name) and delete them (makunbound), the others bind and assign scope variables all the time (let,
	//      a call with a parameter, dotimes, setq: each asks the table whether the name is a constant) ----
	{
		fn := fmt.Sprintf("c17vt-%d", uid)
		setup := []string{fmt.Sprintf("(defun %s (a) (let ((b (+ a 1))) (setq b (+ b 1)) b))", fn), fmt.Sprintf("(%s 0)", fn)}
		nw, nrd := 1+r.Intn(3), 1+r.Intn(3)
		var bodies []string
		var counts []int
		for i := 0; i < nw; i++ {
			var b strings.Builder
			n := 60 + r.Intn(120)
			for k := 0; k < n; k++ {
				name := fmt.Sprintf("*c17vt-%d-%d-%d*", uid, i, k)
				switch k % 4 {
				case 0:
					fmt.Fprintf(&b, "(defvar %s %d) ", name, k)
				case 1:
					fmt.Fprintf(&b, "(defparameter %s %d) ", name, k)
				case 2:
					fmt.Fprintf(&b, "(setq %s %d) ", strings.Trim(name, "*"), k)
				default:
					fmt.Fprintf(&b, "(defvar %s %d) (makunbound '%s) ", name, k, name)
				}
			}
			last := fmt.Sprintf("*c17vt-%d-%d-%d*", uid, i, 0)
			b.WriteString(okEntry(0, last, "0"))
			bodies = append(bodies, b.String())
			counts = append(counts, 1)
		}
		for i := 0; i < nrd; i++ {
			loops := 1500 + r.Intn(2500)
			body := fmt.Sprintf("(let ((sum 0)) (dotimes (k%d %d) (let ((y k%d)) (setq sum (+ sum (- (%s y) y))))) %s)", i, loops, i, fn,
				okEntry(0, "sum", fmt.Sprint(2*loops)))
			bodies = append(bodies, body)
			counts = append(counts, 1)
		}
		mk("impl-vartable", setup, bodies, counts, nil, nil, 0, nil)
	}
	// ---- defmethod on shared generic functions + dispatch ----
	{
		var setup []string
		ng := 3
		for g := 0; g < ng; g++ {
			setup = append(setup, fmt.Sprintf("(defgeneric c17g-%d-%d (x))", uid, g))
		}
		setup = append(setup, fmt.Sprintf("(defgeneric c17gs-%d (x))", uid), fmt.Sprintf("(defmethod c17gs-%d ((x integer)) (* x 2))", uid),
			fmt.Sprintf("(defmethod c17gs-%d ((x string)) x)", uid), fmt.Sprintf("(c17gs-%d 1)", uid))
		for i := 0; i < nr; i++ {
			setup = append(setup, fmt.Sprintf("(defclass c17c-%d-%d () ())", uid, i))
		}
		var bodies []string
		var counts []int
		for i := 0; i < nr; i++ {
			var b strings.Builder
			for k := 0; k < per; k++ {
				g := k % ng
				fmt.Fprintf(&b, "(defmethod c17g-%d-%d ((x c17c-%d-%d)) (list %d %d))%s %s %s ", uid, g, uid, i, i, k, yield(),
					okEntry(2*k, fmt.Sprintf("(c17g-%d-%d (make-instance 'c17c-%d-%d))", uid, g, uid, i), fmt.Sprintf("'(%d %d)", i, k)),
					okEntry(2*k+1, fmt.Sprintf("(c17gs-%d %d)", uid, k), fmt.Sprint(2*k)))
			}
			bodies = append(bodies, b.String())
			counts = append(counts, 2*per)
		}
		mk("impl-defmethod", setup, bodies, counts, []string{fmt.Sprintf("(c17gs-%d 21)", uid)}, []string{"42"}, 0, nil)
	}
	// ---- printing: the same expressions printed sequentially first (reference), then concurrently ----
	{
		exprs := []string{
			`(format nil "~A-~D ~S" 'r %d (list 1 "two" 3.5))`,
			`(princ-to-string (list %d 'abc "s" #\a))`,
			`(write-to-string (list %d (list 'a 'b (list 'c (list 'd 'e)))) :pretty t :right-margin 12)`,
			`(format nil "~5,'0D|~X|~B|~R" %d 255 5 12)`,
			`(write-to-string %d :base 16 :radix t)`,
			`(prin1-to-string (list %d 1.5 2/3 "q\"q" 'sym))`,
		}
		var setup []string
		var bodies []string
		var counts []int
		for i := 0; i < nr; i++ {
			var b strings.Builder
			for k := 0; k < per; k++ {
				e := fmt.Sprintf(exprs[(i+k)%len(exprs)], i*100+k)
				if (i+k)%3 == 0 {
					// pretty printing with line breaks at an indentation that grows from routine to routine and from
					// expression to expression (the indentation was once taken from a shared buffer grown on demand)
					nest := fmt.Sprint(i*100 + k)
					for d := 0; d < 3+2*k+i; d++ {
						nest = "(aaaa " + nest + ")"
					}
					e = fmt.Sprintf("(write-to-string '%s :pretty t :right-margin %d)", nest, 12+4*k+2*i)
				}
				ref := fmt.Sprintf("*c17p-%d-%d-%d*", uid, i, k)
				setup = append(setup, fmt.Sprintf("(defvar %s %s)", ref, e))
				fmt.Fprintf(&b, "%s%s ", okEntry(k, e, ref), yield())
			}
			bodies = append(bodies, b.String())
			counts = append(counts, per)
		}
		mk("impl-print", setup, bodies, counts, nil, nil, 0, nil)
	}
	// ---- a synchronized instance under load: writers of one slot against readers of another slot of the SAME
	//      instance (one Go map) through every kind of slot read ----
	{
		kind := common.Pick(r, []string{"clos", "flavor"})
		nw, nrd := 1+r.Intn(2), 2+r.Intn(3)
		var bodies []string
		var counts []int
		for i := 0; i < nw; i++ {
			bodies = append(bodies, fmt.Sprintf("(dotimes (k%d %d) %s) %s", i, 1500+r.Intn(1500), cellWrite(kind, 0, 0, fmt.Sprintf("k%d", i)),
				okEntry(0, fmt.Sprintf("(integerp %s)", cellRead(kind, 0, 0)), "t")))
			counts = append(counts, 1)
		}
		reads := []string{"(slot-value o0 'v)", "(slot-boundp o0 'v)", "(with-slots (v) o0 v)"}
		if kind == "flavor" {
			reads = []string{"(send o0 :v)", "(slot-value o0 'v)"}
		}
		for i := 0; i < nrd; i++ {
			rd := reads[i%len(reads)]
			bodies = append(bodies, fmt.Sprintf("(let ((bad 0)) (dotimes (q%d %d) (if %s nil (setq bad (+ bad 1)))) %s)", i, 2000+r.Intn(2000), rd,
				okEntry(0, "bad", "0")))
			counts = append(counts, 1)
		}
		mk("impl-slot-load", nil, bodies, counts, []string{"(synchronizedp o0)"}, []string{"t"}, 0, []string{kind})
	}
	// ---- (set-synchronized o t) again while others read and write the instance ----
	{
		var bodies []string
		var counts []int
		kind := common.Pick(r, []string{"clos", "flavor"})
		for i := 0; i < nr; i++ {
			var b strings.Builder
			for k := 0; k < per; k++ {
				fmt.Fprintf(&b, "(set-synchronized o0 t)%s %s %s ", yield(), cellWrite(kind, 0, 0, fmt.Sprint(i*100+k)),
					okEntry(k, fmt.Sprintf("(integerp %s)", cellRead(kind, 0, 0)), "t"))
			}
			bodies = append(bodies, b.String())
			counts = append(counts, per)
		}
		mk("impl-resync", nil, bodies, counts, []string{"(synchronizedp o0)"}, []string{"t"}, 0, []string{kind})
	}
	return out
}

// judgeImpl reports what is wrong with the outcome of an implementation-only job ("" = nothing).
func judgeImpl(ij *implJob, oc *jobOutcome) string {
	if oc.Res == nil {
		return "the process died: " + oc.Crash
	}
	res := oc.Res
	if res.Err != "" {
		return "setup failed: " + res.Err
	}
	if res.Hang {
		return "routines still running at the hard deadline (states " + strings.Join(res.States, ",") + ")"
	}
	if res.Deadlock {
		return "routines blocked for good (states " + strings.Join(res.States, ",") + ")"
	}
	for i, fin := range res.Fin {
		if !fin {
			return fmt.Sprintf("routine %d did not report", i)
		}
		if len(res.Logs[i]) != ij.Counts[i] {
			return fmt.Sprintf("routine %d logged %d entries, expected %d", i, len(res.Logs[i]), ij.Counts[i])
		}
		for n, e := range res.Logs[i] {
			if e.Val != 1 || e.Nil || e.Str != "" {
				return fmt.Sprintf("routine %d, check %d (entry %d): the value seen differs from the sequential one", i, e.Tag, n)
			}
		}
	}
	for k, want := range ij.Finals {
		if k >= len(res.Finals) || res.Finals[k] != want {
			got := "?"
			if k < len(res.Finals) {
				got = res.Finals[k]
			}
			return fmt.Sprintf("final %d is %s, expected %s", k, got, want)
		}
	}
	return ""
}
