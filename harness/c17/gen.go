// gen.go: program generators.  Every random choice comes from ctx.Rng.
package c17

import (
	"verifharness/common"
)

var procChoices = []int{1, 2, 3, 4, 8, 16}

func finish(ctx *common.Ctx, p *Prog) *Prog {
	p.Procs = common.Pick(ctx.Rng, procChoices)
	p.Yield = common.Pick(ctx.Rng, []int{0, 0, 10, 30, 60})
	if p.Cells == nil {
		p.Cells = []string{}
	}
	if p.Mem == nil {
		p.Mem = []int64{}
	}
	if p.Caps == nil {
		p.Caps = []int{}
	}
	return p
}

// producers push tagged literals on one channel, consumers pop fixed numbers of them
func genPipe(ctx *common.Ctx, maxItems int) *Prog {
	r := ctx.Rng
	np, nc := 1+r.Intn(4), 1+r.Intn(3)
	per := 1 + r.Intn(maxItems)
	p := &Prog{Shape: "pipe", Caps: []int{common.Pick(r, []int{0, 0, 1, 2, 3, 8})}}
	total := np * per
	for i := 0; i < np; i++ {
		var ops []Op
		for k := 0; k < per; k++ {
			ops = append(ops, Push(0, int64(i*1000+k)))
		}
		p.Code = append(p.Code, ops)
	}
	left := total
	for j := 0; j < nc; j++ {
		n := left / (nc - j)
		if j < nc-1 && n > 0 {
			n = 1 + r.Intn(2*n)
			if n > left {
				n = left
			}
		}
		if j == nc-1 {
			n = left
		}
		left -= n
		var ops []Op
		for k := 0; k < n; k++ {
			ops = append(ops, Pop(0))
		}
		p.Code = append(p.Code, ops)
	}
	return finish(ctx, p)
}

// routines increment shared cells inside with-mutex-lock
func genCounter(ctx *common.Ctx, maxIncr int) *Prog {
	r := ctx.Rng
	n := 2 + r.Intn(5)
	per := 1 + r.Intn(maxIncr)
	kind := common.Pick(r, []string{"global", "clos", "flavor", "hash"})
	p := &Prog{Shape: "counter-" + kind, NMutex: 1, Mem: []int64{int64(r.Intn(5))}, Cells: []string{kind}}
	for i := 0; i < n; i++ {
		var ops []Op
		for k := 0; k < per; k++ {
			ops = append(ops, Incr(0, 0, 1))
		}
		p.Code = append(p.Code, ops)
	}
	return finish(ctx, p)
}

func generate(ctx *common.Ctx) []*Prog {
	var ps []*Prog
	n := 40
	for i := 0; i < n; i++ {
		ps = append(ps, genPipe(ctx, 6))
		ps = append(ps, genCounter(ctx, 6))
	}
	return ps
}

func probe(ctx *common.Ctx) {}
