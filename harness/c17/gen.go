// gen.go: program generators.  Every random choice comes from ctx.Rng.
package c17

import (
	"fmt"

	"verifharness/common"
)

var procChoices = []int{1, 2, 3, 4, 8, 16}

func finish(ctx *common.Ctx, p *Prog) *Prog {
	p.Procs = common.Pick(ctx.Rng, procChoices)
	p.Yield = common.Pick(ctx.Rng, []int{0, 0, 10, 30, 60})
	p.Slow = -1
	if ctx.Rng.Chance(25) && len(p.Code) > 0 && CountOps(p.Code[0]) < 60 {
		p.Slow = ctx.Rng.Intn(len(p.Code))
	}
	// one program in three: the routines' bodies are functions that nobody has called yet (routines with equal
	// code share one): the forms are compiled in place by whichever routines get there first
	p.Cold = ctx.Rng.Chance(33)
	for i := range p.Code {
		p.Code[i] = fixGoTags(ctx.Rng, p.Code[i], nil)
	}
	if p.Cells == nil {
		p.Cells = []string{}
	}
	if p.Mem == nil {
		p.Mem = []int64{}
	}
	if p.Caps == nil {
		p.Caps = []int{}
	}
	return p
}

// fixGoTags: (go b) checks only that SOME tagbody encloses it; a tag that none of the enclosing tagbodies has
// would travel up to the top of the routine and end it without a report.  Such a go gets the tag of one of the
// tagbodies around it (none around it: it stays what it is, a control-error).
func fixGoTags(r *common.Rng, ops []Op, tags []int) []Op {
	out := make([]Op, len(ops))
	for k, o := range ops {
		switch {
		case o.Kind == "exit" && o.TB && len(tags) > 0:
			found := false
			for _, t := range tags {
				found = found || t == o.B
			}
			if !found {
				o.B = tags[r.Intn(len(tags))]
			}
		case o.Kind == "block" && o.TB:
			o.Body = fixGoTags(r, o.Body, append(append([]int(nil), tags...), o.B))
		case len(o.Body) > 0:
			o.Body = fixGoTags(r, o.Body, tags)
		}
		out[k] = o
	}
	return out
}

func repeatOp(n int, f func(k int) Op) (ops []Op) {
	for k := 0; k < n; k++ {
		ops = append(ops, f(k))
	}
	return
}

// split total into n positive-or-zero parts
func split(r *common.Rng, total, n int) []int {
	parts := make([]int, n)
	for k := 0; k < total; k++ {
		parts[r.Intn(n)]++
	}
	return parts
}

// producers push tagged literals on one channel; consumers pop fixed numbers of them, or range until the
// channel is closed by a closer routine that first collects a "done" token from every producer
func genPipe(ctx *common.Ctx, maxItems int) *Prog {
	r := ctx.Rng
	np, nc := 1+r.Intn(4), 1+r.Intn(3)
	per := 1 + r.Intn(maxItems)
	p := &Prog{Shape: "pipe", Caps: []int{common.Pick(r, []int{0, 0, 1, 2, 3, 8})}}
	ranged := r.Chance(35)
	if ranged {
		p.Shape = "pipe-range"
		p.Caps = append(p.Caps, common.Pick(r, []int{0, 1, 4})) // done tokens
	}
	for i := 0; i < np; i++ {
		ops := repeatOp(per, func(k int) Op { return Push(0, int64(i*1000+k)) })
		if ranged {
			ops = append(ops, Push(1, int64(i)))
		}
		p.Code = append(p.Code, ops)
	}
	if ranged {
		for j := 0; j < nc; j++ {
			p.Code = append(p.Code, []Op{Range(0)})
		}
		closer := repeatOp(np, func(int) Op { return Pop(1) })
		p.Code = append(p.Code, append(closer, Close(0)))
	} else {
		for _, n := range split(r, np*per, nc) {
			p.Code = append(p.Code, repeatOp(n, func(int) Op { return Pop(0) }))
		}
	}
	return finish(ctx, p)
}

// two stages: producers -> c0 -> forwarders (pop, push what they got) -> c1 -> sinks
func genStages(ctx *common.Ctx, maxItems int) *Prog {
	r := ctx.Rng
	np, nf, ns := 1+r.Intn(3), 1+r.Intn(3), 1+r.Intn(2)
	per := 1 + r.Intn(maxItems)
	p := &Prog{Shape: "stages", Caps: []int{common.Pick(r, []int{0, 1, 2, 5}), common.Pick(r, []int{0, 1, 3})}}
	total := np * per
	for i := 0; i < np; i++ {
		p.Code = append(p.Code, repeatOp(per, func(k int) Op { return Push(0, int64(i*1000+k)) }))
	}
	for _, n := range split(r, total, nf) {
		var ops []Op
		for k := 0; k < n; k++ {
			ops = append(ops, Pop(0), PushGot(1))
		}
		p.Code = append(p.Code, ops)
	}
	for _, n := range split(r, total, ns) {
		p.Code = append(p.Code, repeatOp(n, func(int) Op { return Pop(1) }))
	}
	return finish(ctx, p)
}

// consumers select over two channels fed by different producers
func genSelect(ctx *common.Ctx, maxItems int) *Prog {
	r := ctx.Rng
	per := 1 + r.Intn(maxItems)
	p := &Prog{Shape: "select", Caps: []int{common.Pick(r, []int{0, 1, 2}), common.Pick(r, []int{0, 1, 4})}}
	nch := 2
	if r.Chance(35) {
		nch = 3
		p.Caps = append(p.Caps, r.Intn(3))
	}
	np := nch + r.Intn(2)
	for i := 0; i < np; i++ {
		c := i % nch
		p.Code = append(p.Code, repeatOp(per, func(k int) Op { return Push(c, int64(i*1000+k)) }))
	}
	nc := 1 + r.Intn(2)
	for _, n := range split(r, np*per, nc) {
		p.Code = append(p.Code, repeatOp(n, func(int) Op { return selectClauses(r, nch) }))
	}
	return finish(ctx, p)
}

// selectClauses: a select over channels 0..nch-1 in a random order, with timeout clauses (that never fire) at
// random positions among them: none (30%), one or two (the static path of select.go), three (its reflect path)
func selectClauses(r *common.Rng, nch int) Op {
	cs := make([]int, nch)
	for c := range cs {
		cs[c] = c
	}
	for k := len(cs) - 1; k > 0; k-- {
		j := r.Intn(k + 1)
		cs[k], cs[j] = cs[j], cs[k]
	}
	nt := 0
	switch x := r.Intn(100); {
	case x < 30:
	case x < 65:
		nt = 1
	case x < 92:
		nt = 2
	default:
		nt = 3
	}
	for t := 0; t < nt; t++ {
		pos := r.Intn(len(cs) + 1)
		if t == 0 && r.Chance(50) {
			pos = 0 // the "timeout first" way of writing a guarded receive
		}
		cs = append(cs[:pos], append([]int{-1}, cs[pos:]...)...)
	}
	return Select(cs...)
}

// routines increment shared cells inside with-mutex-lock; the cell is a global, a slot of a synchronized
// CLOS or flavors instance, or a hash-table entry
func genCounter(ctx *common.Ctx, maxIncr int) *Prog {
	r := ctx.Rng
	n := 2 + r.Intn(7)
	per := 1 + r.Intn(maxIncr)
	ncell := 1 + r.Intn(2)
	p := &Prog{Shape: "counter", NMutex: ncell}
	for x := 0; x < ncell; x++ {
		p.Cells = append(p.Cells, common.Pick(r, []string{"global", "clos", "flavor", "hash", "let", "let"}))
		p.Mem = append(p.Mem, int64(r.Intn(5)))
	}
	p.Shape += "-" + p.Cells[0]
	same := r.Chance(50) // every routine runs the same code (one shared function when the program is rendered Cold)
	for i := 0; i < n; i++ {
		if same && i > 0 {
			p.Code = append(p.Code, append([]Op(nil), p.Code[0]...))
			continue
		}
		p.Code = append(p.Code, repeatOp(per, func(k int) Op {
			x := r.Intn(ncell)
			return Incr(x, x, int64(1+r.Intn(3)))
		}))
	}
	return finish(ctx, p)
}

// read-modify-write on a synchronized instance / global WITHOUT a mutex: the model allows lost updates
func genUnguarded(ctx *common.Ctx, maxIncr int) *Prog {
	r := ctx.Rng
	n := 2 + r.Intn(4)
	per := 1 + r.Intn(maxIncr)
	kind := common.Pick(r, []string{"global", "clos", "flavor", "let"})
	p := &Prog{Shape: "unguarded-" + kind, Mem: []int64{0}, Cells: []string{kind}}
	for i := 0; i < n; i++ {
		var ops []Op
		for k := 0; k < per; k++ {
			ops = append(ops, Load(0), Store(0, accplus(1)))
		}
		p.Code = append(p.Code, ops)
	}
	return finish(ctx, p)
}

// errors inside with-mutex-lock, caught outside it: the mutex must be free afterwards
func genErrors(ctx *common.Ctx) *Prog {
	r := ctx.Rng
	n := 1 + r.Intn(4)
	kind := common.Pick(r, []string{"global", "clos", "flavor", "hash", "let"})
	p := &Prog{Shape: "errors", NMutex: 2, Mem: []int64{0}, Cells: []string{kind}, Caps: []int{1 + r.Intn(2)}}
	for i := 0; i < n; i++ {
		var ops []Op
		rounds := 1 + r.Intn(4)
		for k := 0; k < rounds; k++ {
			switch r.Intn(5) {
			case 0: // error after the update
				ops = append(ops, Catch(Lock(0, Load(0), Store(0, accplus(1)), Fail(), Store(0, lit(-99)))))
			case 1: // error before the update, nested locks
				ops = append(ops, Catch(Lock(1, Lock(0, Fail(), Store(0, lit(-99))), Store(0, lit(-98)))))
			case 2: // push on a closed channel inside the lock (channel 0 is closed by the first to get here)
				ops = append(ops, Catch(Lock(0, Load(0), Store(0, accplus(1)), Close(0), Store(0, accplus(100)))))
			case 3:
				ops = append(ops, Lock(0, Catch(Fail()), Load(0), Store(0, accplus(1))))
			default:
				ops = append(ops, Incr(0, 0, 1))
			}
		}
		p.Code = append(p.Code, ops)
	}
	return finish(ctx, p)
}

// small programs that block for good in some or all schedules
func genDeadlock(ctx *common.Ctx) *Prog {
	r := ctx.Rng
	var p *Prog
	switch r.Intn(6) {
	case 0: // relock of a held mutex
		p = &Prog{Shape: "dl-relock", NMutex: 1, Code: [][]Op{{Lock(0, Lock(0))}}}
	case 1: // more pushes than capacity, nobody receives
		c := r.Intn(3)
		p = &Prog{Shape: "dl-overflow", Caps: []int{c}, Code: [][]Op{repeatOp(c+1, func(k int) Op { return Push(0, int64(k)) })}}
	case 2: // exactly the capacity: completes
		c := 1 + r.Intn(3)
		p = &Prog{Shape: "cap-exact", Caps: []int{c}, Code: [][]Op{repeatOp(c, func(k int) Op { return Push(0, int64(k)) })}}
	case 3: // lock order inversion: blocks in some schedules only
		p = &Prog{Shape: "dl-inversion", NMutex: 2, Mem: []int64{0}, Cells: []string{"global"},
			Code: [][]Op{{Lock(0, Lock(1, Load(0), Store(0, accplus(1))))}, {Lock(1, Lock(0, Load(0), Store(0, accplus(10))))}}}
	case 4: // one pop too many
		n := 1 + r.Intn(3)
		p = &Prog{Shape: "dl-starved", Caps: []int{r.Intn(2)}, Code: [][]Op{repeatOp(n, func(k int) Op { return Push(0, int64(k)) }),
			repeatOp(n+1, func(int) Op { return Pop(0) })}}
	default: // an error leaves with-mutex-lock, then the same routine and another one lock again: must not block
		p = &Prog{Shape: "relock-after-error", NMutex: 1, Mem: []int64{0}, Cells: []string{"global"},
			Code: [][]Op{{Catch(Lock(0, Fail())), Incr(0, 0, 1)}, {Incr(0, 0, 1)}}}
	}
	return finish(ctx, p)
}

// non-local exits out of with-mutex-lock: return-from / go to a block / tagbody outside it, at every depth, out
// of nested locks, through ignore-errors and other blocks, in last and non-last position; other routines (and
// the same one) take the mutexes afterwards
func genExits(ctx *common.Ctx) *Prog {
	r := ctx.Rng
	kind := common.Pick(r, []string{"global", "clos", "flavor", "let"})
	p := &Prog{Shape: "exits", NMutex: 2, Mem: []int64{0}, Cells: []string{kind}}
	nblock := 0
	exitForm := func(rid int) Op {
		tb := r.Bool()
		b := rid*10 + nblock
		nblock++
		inner := []Op{Exit(tb, b)}
		if r.Chance(40) {
			inner = append([]Op{Store(0, lit(int64(10+r.Intn(80))))}, inner...)
		}
		if r.Chance(25) {
			inner = append(inner, Store(0, lit(int64(100+r.Intn(50))))) // not the last form: skipped, the exit leaves from any position
		}
		heldM1 := false
		wrap := func(x []Op, allowM1 bool) []Op {
			switch r.Intn(6) {
			case 0:
				return []Op{Catch(x...)}
			case 1:
				if allowM1 && !heldM1 {
					heldM1 = true
					return []Op{Lock(1, x...)}
				}
			case 2: // another block / tagbody in between
				nblock++
				return []Op{Block(r.Bool(), rid*10+nblock+4, x...)}
			case 3:
				if r.Chance(50) {
					return append(x, Load(0))
				}
			}
			return x
		}
		body := wrap(inner, true)
		lock := []Op{Lock(0, body...)}
		lock = wrap(lock, true)
		if r.Chance(30) {
			lock = wrap(lock, true)
		}
		if r.Chance(30) {
			lock = append(lock, Store(0, lit(int64(200+r.Intn(50))))) // skipped when the exit gets here
		}
		if r.Chance(8) { // no block of that name around: a control-error, caught
			return Catch(lock...)
		}
		return Block(tb, b, lock...)
	}
	n := 2 + r.Intn(2)
	for i := 0; i < n; i++ {
		var ops []Op
		rounds := 1 + r.Intn(2)
		for k := 0; k < rounds; k++ {
			if i == 0 || r.Chance(50) {
				ops = append(ops, exitForm(i))
			}
			switch r.Intn(3) {
			case 0:
				ops = append(ops, Incr(0, 0, 1))
			case 1:
				ops = append(ops, Lock(1, Lock(0, Load(0))))
			default:
				ops = append(ops, Lock(0, Load(0)), Lock(1, Load(0)))
			}
		}
		p.Code = append(p.Code, ops)
	}
	return finish(ctx, p)
}

// random small programs over everything
func genSoup(ctx *common.Ctx) *Prog {
	r := ctx.Rng
	nch, nmu, ncell := 1+r.Intn(2), 1+r.Intn(2), r.Intn(3)
	p := &Prog{Shape: "soup", NMutex: nmu}
	for c := 0; c < nch; c++ {
		p.Caps = append(p.Caps, r.Intn(3))
	}
	for x := 0; x < ncell; x++ {
		p.Cells = append(p.Cells, common.Pick(r, []string{"global", "clos", "flavor", "let"}))
		p.Mem = append(p.Mem, int64(r.Intn(3)))
	}
	nr := 2 + r.Intn(3)
	next := int64(0)
	var ops func(rid, depth, n int, caught bool) []Op
	ops = func(rid, depth, n int, caught bool) (out []Op) {
		for k := 0; k < n; k++ {
			x := r.Intn(100)
			switch {
			case x < 22:
				next++
				out = append(out, Push(r.Intn(nch), int64(rid)*1000+next))
			case x < 25:
				out = append(out, PushGot(r.Intn(nch)))
			case x < 27:
				out = append(out, PushAcc(r.Intn(nch)))
			case x < 47:
				out = append(out, Pop(r.Intn(nch)))
			case x < 52:
				out = append(out, selectClauses(r, nch))
			case x < 55:
				out = append(out, Range(r.Intn(nch)))
			case x < 60:
				out = append(out, Close(r.Intn(nch)))
			case x < 68 && ncell > 0:
				out = append(out, Load(r.Intn(ncell)))
			case x < 76 && ncell > 0:
				if r.Bool() {
					out = append(out, Store(r.Intn(ncell), accplus(int64(1+r.Intn(2)))))
				} else {
					out = append(out, Store(r.Intn(ncell), lit(int64(r.Intn(50)))))
				}
			case x < 79:
				if caught || r.Chance(15) {
					out = append(out, Fail())
				}
			case x < 90:
				if depth < 2 {
					out = append(out, Lock(r.Intn(nmu), ops(rid, depth+1, 1+r.Intn(3), caught)...))
				}
			case x < 95:
				if depth < 2 {
					out = append(out, Catch(ops(rid, depth+1, 1+r.Intn(3), true)...))
				}
			case x < 98:
				if depth < 2 {
					out = append(out, Block(r.Bool(), r.Intn(2), ops(rid, depth+1, 1+r.Intn(3), caught)...))
				}
			default:
				if depth > 0 && (caught || r.Chance(50)) {
					out = append(out, Exit(r.Bool(), r.Intn(2)))
				}
			}
		}
		return
	}
	for i := 0; i < nr; i++ {
		p.Code = append(p.Code, ops(i, 0, 1+r.Intn(5), false))
	}
	return finish(ctx, p)
}

func generate(ctx *common.Ctx) []*Prog {
	var ps []*Prog
	small, big := 30, 4
	if ctx.Thorough() {
		small, big = 300, 40
	}
	for i := 0; i < small; i++ {
		ps = append(ps, genPipe(ctx, 6), genStages(ctx, 5), genSelect(ctx, 5), genCounter(ctx, 6), genUnguarded(ctx, 4),
			genErrors(ctx), genDeadlock(ctx), genSoup(ctx), genSoup(ctx), genSoup(ctx), genExits(ctx), genExits(ctx))
	}
	for i := 0; i < big; i++ {
		ps = append(ps, genPipe(ctx, 50), genCounter(ctx, 60), genStages(ctx, 30))
	}
	// the largest shapes the property names: 8 routines x 200 operations
	ps = append(ps, stressPipe(ctx), stressCounter(ctx))
	for i, p := range ps {
		if len(p.Code) > 8 {
			panic(fmt.Sprintf("program %d (%s) has %d routines", i, p.Shape, len(p.Code)))
		}
	}
	return ps
}

// 4 producers x 200 pushes, 4 consumers x 200 pops over one small channel
func stressPipe(ctx *common.Ctx) *Prog {
	p := &Prog{Shape: "stress-pipe", Caps: []int{common.Pick(ctx.Rng, []int{0, 1, 4})}}
	for i := 0; i < 4; i++ {
		p.Code = append(p.Code, repeatOp(200, func(k int) Op { return Push(0, int64(i*1000+k)) }))
	}
	for j := 0; j < 4; j++ {
		p.Code = append(p.Code, repeatOp(200, func(int) Op { return Pop(0) }))
	}
	return finish(ctx, p)
}

// 8 routines x 66 guarded increments (198 operations each) on two cells
func stressCounter(ctx *common.Ctx) *Prog {
	r := ctx.Rng
	p := &Prog{Shape: "stress-counter", NMutex: 2, Mem: []int64{0, 7},
		Cells: []string{common.Pick(r, []string{"global", "clos", "flavor", "hash", "let"}), common.Pick(r, []string{"global", "clos", "flavor", "hash", "let"})}}
	for i := 0; i < 8; i++ {
		p.Code = append(p.Code, repeatOp(66, func(k int) Op {
			x := r.Intn(2)
			return Incr(x, x, int64(1+r.Intn(2)))
		}))
	}
	return finish(ctx, p)
}
