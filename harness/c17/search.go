// search.go: given a program and what one run on the implementation showed, look for a schedule of the
// model that shows the same (depth-first, guided by the reported logs, visited-set, node budget).
// Complete when it terminates within the budget: "none" then means no schedule of the model explains the run.
package c17

// Observation of one run, in model terms.
type Observation struct {
	Crash bool         `json:"crash"`
	Fin   []bool       `json:"fin"`
	Logs  [][]logEntry `json:"logs"`
	Mem   []int64      `json:"mem"`
	Lens  []int        `json:"lens"`
}

type move struct{ i, k int }

type searcher struct {
	p      *Prog
	ids    map[*Op]int
	g      *guide
	obs    *Observation
	seen   map[string]struct{}
	nodes  int
	budget int
	prot   []int // cell -> mutex protecting every access, or -1
	path   []move
}

// protectedCells: cell x is protected when every access to it lies inside a (with-mutex-lock m) for one m
func protectedCells(p *Prog) []int {
	prot := make([]int, len(p.Mem))
	state := make([]int, len(p.Mem)) // 0 unseen, 1 consistent, 2 conflicting
	var walk func(ops []Op, held []int)
	walk = func(ops []Op, held []int) {
		for i := range ops {
			o := &ops[i]
			switch o.Kind {
			case "load", "store":
				if o.X >= len(prot) {
					continue
				}
				if len(held) == 0 {
					state[o.X] = 2
					continue
				}
				// candidates: any held mutex; keep the intersection over all accesses (track one: the innermost common)
				switch state[o.X] {
				case 0:
					state[o.X], prot[o.X] = 1, held[len(held)-1]
				case 1:
					ok := false
					for _, m := range held {
						if m == prot[o.X] {
							ok = true
						}
					}
					if !ok {
						state[o.X] = 2
					}
				}
			case "lock":
				walk(o.Body, append(append([]int(nil), held...), o.M))
			case "catch", "block":
				walk(o.Body, held)
			}
		}
	}
	for _, r := range p.Code {
		walk(r, nil)
	}
	for x := range prot {
		if state[x] != 1 {
			prot[x] = -1
		}
	}
	return prot
}

// eager: a move of routine i that commutes to the left of every move of the other routines, so taking it
// at once loses no schedule: frame exits (including the unlock), entering ignore-errors, raising an error,
// and accesses to a cell that only the holder of its mutex touches.
func (sr *searcher) eager(s *mstate, i int) bool {
	r := &s.rs[i]
	if len(r.stk) == 0 {
		return false
	}
	o := s.nextOp(i)
	if o == nil {
		return true
	}
	switch o.Kind {
	case "catch", "fail", "block", "exit":
		return true
	case "load", "store":
		return o.X < len(sr.prot) && sr.prot[o.X] >= 0
	}
	return false
}

func (sr *searcher) violates(s *mstate) bool {
	if sr.obs.Crash {
		return false
	}
	for i := range s.rs {
		r := &s.rs[i]
		if r.finished() {
			if r.unw { // crashed, but the process was seen alive
				return true
			}
			if !sr.obs.Fin[i] {
				return true
			}
		}
	}
	return false
}

func (sr *searcher) goal(s *mstate) bool {
	if sr.obs.Crash {
		for i := range s.rs {
			if s.rs[i].finished() && s.rs[i].unw {
				return true
			}
		}
		return false
	}
	for i := range s.rs {
		r := &s.rs[i]
		if r.finished() != sr.obs.Fin[i] {
			return false
		}
		if sr.obs.Fin[i] && r.lp != len(sr.obs.Logs[i]) {
			return false
		}
	}
	for x, z := range sr.obs.Mem {
		if s.mem[x] != z {
			return false
		}
	}
	for c, n := range sr.obs.Lens {
		l := len(s.chs[c].q)
		if l > s.chs[c].cap {
			l = s.chs[c].cap
		}
		if l != n {
			return false
		}
	}
	return s.stuck()
}

func (sr *searcher) rank(s *mstate, i int) int {
	o := s.nextOp(i)
	if o == nil {
		return 0
	}
	switch o.Kind {
	case "pop", "range", "select":
		return 1
	case "load":
		return 2
	case "store":
		return 3
	case "lock":
		return 4
	case "push":
		// a push into an empty channel first
		if o.C < len(s.chs) && len(s.chs[o.C].q) == 0 {
			return 5
		}
		return 6
	case "close":
		return 7
	}
	return 8
}

func (sr *searcher) dfs(s *mstate) bool {
	// eager closure
	for progress := true; progress; {
		progress = false
		for i := range s.rs {
			for sr.eager(s, i) {
				n := s.step(i, 0, sr.g, sr.ids)
				if n == nil {
					break
				}
				s = n
				sr.path = append(sr.path, move{i, 0})
				progress = true
			}
		}
	}
	if sr.violates(s) {
		return false
	}
	if sr.goal(s) {
		return true
	}
	key := s.key()
	if _, dup := sr.seen[key]; dup {
		return false
	}
	sr.seen[key] = struct{}{}
	sr.nodes++
	if sr.nodes > sr.budget {
		return false
	}
	mark := len(sr.path)
	for rk := 0; rk <= 8; rk++ {
		for i := range s.rs {
			if sr.rank(s, i) != rk {
				continue
			}
			for k := 0; k < s.choices(i); k++ {
				n := s.step(i, k, sr.g, sr.ids)
				if n == nil {
					continue
				}
				sr.path = append(sr.path[:mark], move{i, k})
				if sr.dfs(n) {
					return true
				}
				if sr.nodes > sr.budget {
					return false
				}
			}
		}
	}
	sr.path = sr.path[:mark]
	return false
}

// FindSchedule returns (schedule, verdict): verdict "found", "none" (search exhausted: no schedule of the
// model shows this observation) or "budget".
func FindSchedule(p *Prog, obs *Observation, budget int) ([]move, string, int) {
	sr := &searcher{p: p, ids: numberOps(p), obs: obs, seen: map[string]struct{}{}, budget: budget, prot: protectedCells(p)}
	want := make([][]logEntry, len(p.Code))
	if !obs.Crash {
		for i := range p.Code {
			if i < len(obs.Fin) && obs.Fin[i] {
				want[i] = obs.Logs[i]
				if want[i] == nil {
					want[i] = []logEntry{}
				}
			}
		}
	}
	strict := make([]bool, len(p.Caps))
	if !obs.Crash {
		all := true
		for _, f := range obs.Fin {
			all = all && f
		}
		for c := range strict {
			strict[c] = all && c < len(obs.Lens) && obs.Lens[c] == 0
		}
	}
	sr.g = newGuide(want, len(p.Caps), strict, staticUnique(p))
	if sr.dfs(initState(p)) {
		return append([]move(nil), sr.path...), "found", sr.nodes
	}
	if sr.nodes > sr.budget {
		return nil, "budget", sr.nodes
	}
	return nil, "none", sr.nodes
}
