// worker.go: `harness C17W` — evaluates one concurrent job per line of standard input in a process of its
// own (an uncaught error in a routine, a Go fatal error or a hang must not take the harness down) and
// prints one result line per job on file descriptor 3.  Standard error carries a marker per job so that
// race-detector reports can be attributed.
package c17

import (
	"bufio"
	"encoding/json"
	"fmt"
	"os"
	"runtime"
	"strings"
	"time"

	"github.com/ohler55/slip"
	_ "github.com/ohler55/slip/pkg"
	"github.com/ohler55/slip/pkg/gi"
	"verifharness/common"
)

type job struct {
	ID      int      `json:"id"`
	Kind    string   `json:"kind"` // "prog": a program of the model; "lisp": free-form concurrent forms (implementation-only checks)
	Caps    []int    `json:"caps"`
	NMutex  int      `json:"nmutex"`
	Cells   []string `json:"cells"`
	Setup   []string `json:"setup"`
	Runs    []string `json:"runs"`
	Finals  []string `json:"finals"`
	Procs   int      `json:"procs"`
	HardMS  int      `json:"hard_ms"` // give up (hang) after this long
	Results int      `json:"results"` // routines that report on `res` (default: one per entry of Runs)
}

type logEntry struct {
	Tag int    `json:"t"`
	Nil bool   `json:"nil,omitempty"`
	Val int64  `json:"v,omitempty"`
	Str string `json:"s,omitempty"` // non-integer value (lisp jobs)
}

type result struct {
	ID       int          `json:"id"`
	Fin      []bool       `json:"fin"`
	Logs     [][]logEntry `json:"logs"`
	Finals   []string     `json:"finals"`
	Deadlock bool         `json:"deadlock"` // every unfinished routine is blocked for good
	Hang     bool         `json:"hang"`     // hard deadline passed with routines still runnable
	Err      string       `json:"err"`      // an error in the setup / spawning forms
	States   []string     `json:"states,omitempty"`
	Micros   int64        `json:"us"`
	// lock probe (kind "lockprobe"): did the probed form wait for the package mutex while the harness held it
	Blocked bool   `json:"blocked,omitempty"`
	Probed  bool   `json:"probed,omitempty"`
	Value   string `json:"value,omitempty"`
}

type vyield struct{ slip.Function }

func (f *vyield) Call(s *slip.Scope, args slip.List, depth int) slip.Object {
	runtime.Gosched()
	return nil
}

type vpause struct{ slip.Function }

func (f *vpause) Call(s *slip.Scope, args slip.List, depth int) slip.Object {
	if n, ok := args[0].(slip.Fixnum); ok {
		time.Sleep(time.Duration(n) * time.Microsecond)
	}
	return nil
}

// vhold stands for a routine that is in the middle of a slot access of a synchronized instance: it takes the
// instance lock through the instance's own exported Lock(), says so on the first channel, waits for a value on
// the second one and releases the lock.
type vhold struct{ slip.Function }

type instLocker interface {
	Lock()
	Unlock()
}

func (f *vhold) Call(s *slip.Scope, args slip.List, depth int) slip.Object {
	l, ok := args[0].(instLocker)
	told, ok2 := args[1].(gi.Channel)
	wait, ok3 := args[2].(gi.Channel)
	if !ok || !ok2 || !ok3 {
		panic("vhold: instance channel channel")
	}
	l.Lock()
	told <- slip.True
	<-wait
	l.Unlock()
	return nil
}

// vchain reports, for the scope it is evaluated in and every scope a variable lookup reaches from there (the
// recursive walk over Scope.Parents(), in that order), whether the scope is synchronized: "1" or "0" per scope.
type vchain struct{ slip.Function }

func (f *vchain) Call(s *slip.Scope, args slip.List, depth int) slip.Object {
	var b []byte
	var walk func(sc *slip.Scope)
	walk = func(sc *slip.Scope) {
		if sc.Synchronized() {
			b = append(b, '1')
		} else {
			b = append(b, '0')
		}
		for _, p := range sc.Parents() {
			walk(p)
		}
	}
	walk(s)
	return slip.String(b)
}

func defineBuiltins() {
	defer func() { _ = recover() }()
	slip.Define(
		func(args slip.List) slip.Object {
			f := vchain{Function: slip.Function{Name: "vchain", Args: args}}
			f.Self = &f
			return &f
		},
		&slip.FuncDoc{Name: "vchain", Args: []*slip.DocArg{}, Return: "string", Text: "verification: the synchronized flags of the scope chain"},
		&slip.UserPkg)
	slip.Define(
		func(args slip.List) slip.Object {
			f := vhold{Function: slip.Function{Name: "vhold", Args: args}}
			f.Self = &f
			return &f
		},
		&slip.FuncDoc{Name: "vhold", Args: []*slip.DocArg{{Name: "instance", Type: "instance"}, {Name: "told", Type: "channel"}, {Name: "wait", Type: "channel"}},
			Return: "nil", Text: "verification: hold the instance lock as a slot access in flight does"},
		&slip.UserPkg)
	slip.Define(
		func(args slip.List) slip.Object {
			f := vyield{Function: slip.Function{Name: "vyield", Args: args}}
			f.Self = &f
			return &f
		},
		&slip.FuncDoc{Name: "vyield", Args: []*slip.DocArg{}, Return: "nil", Text: "verification: yield the processor"},
		&slip.UserPkg)
	slip.Define(
		func(args slip.List) slip.Object {
			f := vpause{Function: slip.Function{Name: "vpause", Args: args}}
			f.Self = &f
			return &f
		},
		&slip.FuncDoc{Name: "vpause", Args: []*slip.DocArg{{Name: "us", Type: "fixnum"}}, Return: "nil", Text: "verification: sleep"},
		&slip.UserPkg)
}

// goroutines started by (run ...): how many exist and how many of them are blocked for good unless
// another goroutine acts (channel operation, mutex, select)
func runGoroutines() (total, blocked int, states []string) {
	buf := make([]byte, 1<<20)
	for {
		n := runtime.Stack(buf, true)
		if n < len(buf) {
			buf = buf[:n]
			break
		}
		buf = make([]byte, 2*len(buf))
	}
	for _, blk := range strings.Split(string(buf), "\n\n") {
		if !strings.Contains(blk, "pkg/gi.(*Run).Call") || !strings.Contains(blk, "created by") {
			continue
		}
		lb, rb := strings.IndexByte(blk, '['), strings.IndexByte(blk, ']')
		if lb < 0 || rb < lb {
			continue
		}
		st := blk[lb+1 : rb]
		if i := strings.IndexByte(st, ','); i >= 0 {
			st = st[:i]
		}
		total++
		states = append(states, st)
		switch st {
		case "chan receive", "chan send", "select", "sync.Mutex.Lock", "semacquire", "sync.RWMutex.Lock", "sync.RWMutex.RLock",
			"chan receive (nil chan)", "chan send (nil chan)", "select (no cases)", "sync.WaitGroup.Wait", "sync.Cond.Wait":
			blocked++
		}
	}
	return
}

func toEntry(o slip.Object) (e logEntry) {
	// (tag value)
	l, ok := o.(slip.List)
	if !ok || len(l) != 2 {
		return logEntry{Tag: -1, Str: slip.ObjectString(o)}
	}
	if t, ok := l[0].(slip.Fixnum); ok {
		e.Tag = int(t)
	} else {
		e.Tag = -1
	}
	switch v := l[1].(type) {
	case nil:
		e.Nil = true
	case slip.Fixnum:
		e.Val = int64(v)
	default:
		e.Str = slip.ObjectString(v)
	}
	return
}

// probeGoroutine reports the state of the goroutine that evaluates the probed form ("" when it is gone)
func probeGoroutine() string {
	buf := make([]byte, 1<<20)
	buf = buf[:runtime.Stack(buf, true)]
	for _, blk := range strings.Split(string(buf), "\n\n") {
		if !strings.Contains(blk, "c17.evalProbe") {
			continue
		}
		lb, rb := strings.IndexByte(blk, '['), strings.IndexByte(blk, ']')
		if lb < 0 || rb < lb {
			continue
		}
		st := blk[lb+1 : rb]
		if i := strings.IndexByte(st, ','); i >= 0 {
			st = st[:i]
		}
		if os.Getenv("VERIF_C17_VERBOSE") != "" && strings.Contains(st, "Mutex") {
			fmt.Fprintln(os.Stderr, blk)
		}
		return st
	}
	return ""
}

//go:noinline
func evalProbe(scope *slip.Scope, code slip.Code, done chan string) {
	val := ""
	defer func() {
		if rec := recover(); rec != nil {
			val = fmt.Sprintf("error: %v", rec)
		}
		done <- val
	}()
	var v slip.Object
	for _, o := range code {
		v = scope.Eval(o, 0)
	}
	val = slip.ObjectString(v)
}

// runLockProbe: the forms of Setup are evaluated, the form Runs[0] is read and compiled; then the harness takes the
// mutex of the current package the way every writer of its tables does (Package.EachVarName runs its callback with
// the mutex held) and, holding it, lets another goroutine evaluate the form.  Either that goroutine finishes - the
// form does not need the mutex - or it ends up waiting in sync.Mutex.Lock: it does.  No timing is involved: the
// state is read from the goroutine dump.
func runLockProbe(j job) (r result) {
	r.ID = j.ID
	slip.CurrentPackage = &slip.UserPkg
	scope := slip.NewScope()
	scope.Let(slip.Symbol("x"), slip.Fixnum(1))
	for _, src := range j.Setup {
		if o := common.EvalIn(scope, src); o.Err != "" {
			r.Err = fmt.Sprintf("%s: %s: %s", src, o.Err, o.Msg)
			return
		}
	}
	var code slip.Code
	func() {
		defer func() {
			if rec := recover(); rec != nil {
				r.Err = fmt.Sprintf("read: %v", rec)
			}
		}()
		code = slip.ReadString(j.Runs[0], scope)
		// a top-level list is turned into a function object when it is evaluated (FindFunc: the function table):
		// do that now, the probe is about what the evaluation of the operation itself needs
		for i, o := range code {
			if l, ok := o.(slip.List); ok && len(l) > 0 {
				code[i] = slip.CompileList(l)
			}
		}
	}()
	if r.Err != "" {
		return
	}
	done := make(chan string, 1)
	first := true
	finished := false
	slip.UserPkg.EachVarName(func(string) {
		if !first {
			return
		}
		first = false
		go evalProbe(scope, code, done)
		deadline := time.Now().Add(5 * time.Second)
		for time.Now().Before(deadline) {
			select {
			case r.Value = <-done:
				finished = true
				r.Probed = true
				return
			default:
			}
			switch probeGoroutine() {
			case "sync.Mutex.Lock", "semacquire":
				r.Blocked, r.Probed = true, true
				return
			}
			time.Sleep(100 * time.Microsecond)
		}
		r.Hang = true
	})
	if first {
		r.Err = "the package has no variable: the mutex was never held"
		return
	}
	if !finished {
		select {
		case r.Value = <-done:
		case <-time.After(5 * time.Second):
			r.Hang = true
		}
	}
	return
}

// runInstProbe: the same for the lock of an instance.  Cells[0] says what `o` is: "clos" / "flavor" (made
// synchronized with set-synchronized) or "clos-plain" / "flavor-plain" (not synchronized).  The harness takes the
// instance lock through the instance's exported Lock() - exactly what SlotValue / SetSlotValue / Scope.get do around a
// slot access - and, holding it, lets another goroutine evaluate the (already compiled) form.
func runInstProbe(j job) (r result) {
	r.ID = j.ID
	slip.CurrentPackage = &slip.UserPkg
	scope := slip.NewScope()
	src := "(make-instance 'c17icell)"
	if strings.HasPrefix(j.Cells[0], "flavor") {
		src = "(make-instance 'c17ifcell)"
	}
	o := common.EvalIn(scope, src)
	if o.Err != "" {
		r.Err = o.Err + ": " + o.Msg
		return
	}
	scope.Let(slip.Symbol("o"), o.Value)
	if !strings.HasSuffix(j.Cells[0], "-plain") {
		if so := common.EvalIn(scope, "(set-synchronized o t)"); so.Err != "" {
			r.Err = so.Err + ": " + so.Msg
			return
		}
	}
	for _, s := range j.Setup {
		if so := common.EvalIn(scope, s); so.Err != "" {
			r.Err = fmt.Sprintf("%s: %s: %s", s, so.Err, so.Msg)
			return
		}
	}
	l, ok := o.Value.(instLocker)
	if !ok {
		r.Err = "the instance has no Lock()"
		return
	}
	var code slip.Code
	func() {
		defer func() {
			if rec := recover(); rec != nil {
				r.Err = fmt.Sprintf("read: %v", rec)
			}
		}()
		code = slip.ReadString(j.Runs[0], scope)
		for i, f := range code {
			if lst, ok := f.(slip.List); ok && len(lst) > 0 {
				code[i] = slip.CompileList(lst)
			}
		}
		// evaluate once without the lock held: everything that is compiled on first evaluation is compiled now
		for _, f := range code {
			scope.Eval(f, 0)
		}
		for _, s := range j.Finals { // forms that undo what the warm-up evaluation did
			common.EvalIn(scope, s)
		}
	}()
	if r.Err != "" {
		return
	}
	done := make(chan string, 1)
	finished := false
	l.Lock()
	go evalProbe(scope, code, done)
	deadline := time.Now().Add(5 * time.Second)
wait:
	for time.Now().Before(deadline) {
		select {
		case r.Value = <-done:
			finished, r.Probed = true, true
			break wait
		default:
		}
		switch probeGoroutine() {
		case "sync.Mutex.Lock", "semacquire":
			r.Blocked, r.Probed = true, true
			break wait
		}
		time.Sleep(100 * time.Microsecond)
	}
	l.Unlock()
	if !r.Probed {
		r.Hang = true
	}
	if !finished {
		select {
		case r.Value = <-done:
		case <-time.After(5 * time.Second):
			r.Hang = true
		}
	}
	return
}

func runJob(j job) (r result) {
	if j.Kind == "lockprobe" {
		return runLockProbe(j)
	}
	if j.Kind == "instprobe" {
		return runInstProbe(j)
	}
	t0 := time.Now()
	r.ID = j.ID
	n := len(j.Runs)
	if j.Results > 0 {
		n = j.Results
	}
	r.Fin = make([]bool, n)
	r.Logs = make([][]logEntry, n)
	if j.Procs > 0 {
		runtime.GOMAXPROCS(j.Procs)
	}
	slip.CurrentPackage = &slip.UserPkg
	scope := slip.NewScope()
	res := make(chan slip.Object, n+1)
	bind := func(name, src string) bool {
		o := common.EvalIn(scope, src)
		if o.Err != "" {
			r.Err = fmt.Sprintf("%s: %s: %s", src, o.Err, o.Msg)
			return false
		}
		scope.Let(slip.Symbol(name), o.Value)
		return true
	}
	scope.Let(slip.Symbol("res"), gi.Channel(res))
	for c, k := range j.Caps {
		if !bind(fmt.Sprintf("c%d", c), fmt.Sprintf("(make-channel %d)", k)) {
			return
		}
	}
	for m := 0; m < j.NMutex; m++ {
		if !bind(fmt.Sprintf("m%d", m), "(make-mutex)") {
			return
		}
	}
	for x, kind := range j.Cells {
		switch kind {
		case "clos":
			if !bind(fmt.Sprintf("o%d", x), "(let ((o (make-instance 'c17cell))) (set-synchronized o t) o)") {
				return
			}
		case "flavor":
			if !bind(fmt.Sprintf("o%d", x), "(let ((o (make-instance 'c17fcell))) (set-synchronized o t) o)") {
				return
			}
		case "hash":
			if !bind(fmt.Sprintf("h%d", x), "(make-hash-table)") {
				return
			}
		case "let":
			// a variable of the scope the routines are started from: shared by all of them
			scope.Let(slip.Symbol(fmt.Sprintf("v%d", x)), slip.Fixnum(0))
		}
	}
	for _, src := range j.Setup {
		if o := common.EvalIn(scope, src); o.Err != "" {
			r.Err = fmt.Sprintf("%s: %s: %s", src, o.Err, o.Msg)
			return
		}
	}
	// parse every routine first, then start them back to back
	forms := make([]slip.Code, n)
	for i, src := range j.Runs {
		func() {
			defer func() {
				if rec := recover(); rec != nil {
					r.Err = fmt.Sprintf("read routine %d: %v", i, rec)
				}
			}()
			forms[i] = slip.ReadString(src, scope)
		}()
		if r.Err != "" {
			return
		}
	}
	func() {
		defer func() {
			if rec := recover(); rec != nil {
				r.Err = fmt.Sprintf("spawn: %v", rec)
			}
		}()
		for _, code := range forms {
			for _, o := range code {
				scope.Eval(o, 0)
			}
		}
	}()
	if r.Err != "" {
		return
	}
	hard := time.Duration(j.HardMS) * time.Millisecond
	if hard == 0 {
		hard = 20 * time.Second
	}
	got := 0
	tick := 2 * time.Millisecond
	timer := time.NewTimer(tick)
	defer timer.Stop()
loop:
	for got < n {
		select {
		case o := <-res:
			got++
			if l, ok := o.(slip.List); ok && len(l) == 2 {
				if id, ok := l[0].(slip.Fixnum); ok && int(id) >= 0 && int(id) < n {
					r.Fin[id] = true
					if lg, ok := l[1].(slip.List); ok {
						ents := make([]logEntry, len(lg))
						for k, e := range lg { // consed: newest first
							ents[len(lg)-1-k] = toEntry(e)
						}
						r.Logs[id] = ents
					} else {
						r.Logs[id] = []logEntry{}
					}
				}
			}
		case <-timer.C:
			total, blocked, states := runGoroutines()
			if total > 0 && blocked == total && len(res) == 0 {
				// confirm with a second snapshot: nothing moved
				time.Sleep(2 * time.Millisecond)
				t2, b2, _ := runGoroutines()
				if t2 == total && b2 == t2 && len(res) == 0 {
					r.Deadlock = true
					r.States = states
					break loop
				}
			}
			if time.Since(t0) > hard {
				r.Hang = true
				r.States = states
				break loop
			}
			if tick < 20*time.Millisecond {
				tick *= 2
			}
			timer.Reset(tick)
		}
	}
	for _, src := range j.Finals {
		o := common.EvalTimeout(scope, src, 5*time.Second)
		r.Finals = append(r.Finals, common.ShowOutcome(o))
	}
	r.Micros = time.Since(t0).Microseconds()
	return
}

// Worker is the entry point of `harness C17W`.
func Worker(ctx *common.Ctx) {
	defineBuiltins()
	s := slip.NewScope()
	for _, src := range []string{
		"(defclass c17cell () ((v :initform 0)))",
		"(defflavor c17fcell ((v 0)) () :gettable-instance-variables :settable-instance-variables)",
		"(defflavor c17sflav () ())",
		"(defclass c17icell () ((v :initform 0 :accessor c17i-v :reader c17i-rv :writer c17i-wv) (w :initform 1)))",
		"(defflavor c17ifcell ((v 0) (w 1)) () :gettable-instance-variables :settable-instance-variables)",
		"(defmethod (c17ifcell :peek) () v)",
		"(defmethod (c17ifcell :poke) (x) (setq v x))",
	} {
		if o := common.EvalIn(s, src); o.Err != "" {
			fmt.Fprintln(os.Stderr, "worker setup failed:", src, o.Err, o.Msg)
			os.Exit(3)
		}
	}
	in := bufio.NewReaderSize(os.Stdin, 1<<22)
	out := bufio.NewWriter(os.NewFile(3, "results"))
	for {
		line, err := in.ReadBytes('\n')
		if len(line) > 1 {
			var j job
			if e := json.Unmarshal(line, &j); e == nil {
				fmt.Fprintf(os.Stderr, "### C17 JOB %d\n", j.ID)
				res := runJob(j)
				fmt.Fprintf(os.Stderr, "### C17 END %d\n", j.ID)
				b, _ := json.Marshal(res)
				out.Write(b)
				out.WriteByte('\n')
				out.Flush()
				if res.Deadlock || res.Hang {
					// blocked routines stay behind: the parent starts a fresh process
					os.Exit(0)
				}
			}
		}
		if err != nil {
			break
		}
	}
	os.Exit(0)
}
