// c17.go: orchestration.  Generated programs run on the implementation in worker processes; every
// observed outcome goes to Coq together with a schedule found by the (untrusted) search.
package c17

import (
	"encoding/json"
	"fmt"
	"os"
	"os/exec"
	"path/filepath"
	"regexp"
	"strconv"
	"strings"

	"verifharness/common"
)

func selfBin() string {
	self, err := os.Executable()
	if err != nil {
		panic(err)
	}
	return self
}

// buildRace builds the race-enabled harness next to the plain one; "" when that is not possible here.
func buildRace(ctx *common.Ctx) string {
	self := selfBin()
	buildDir := filepath.Dir(self)
	root := filepath.Dir(buildDir)
	src := filepath.Join(root, "harness")
	if _, err := os.Stat(filepath.Join(src, "go.mod")); err != nil {
		return ""
	}
	out := filepath.Join(buildDir, "harness-race")
	args := []string{"build", "-race", "-tags", "verif", "-o", out}
	if repo := os.Getenv("VERIF_REPO"); repo != "" && repo != "/repo" {
		alt := filepath.Join(buildDir, "go.alt.mod")
		if _, err := os.Stat(alt); err == nil {
			args = append(args, "-modfile="+alt)
		}
	}
	args = append(args, "./cmd/harness")
	cmd := exec.Command("go", args...)
	cmd.Dir = src
	cmd.Env = append(os.Environ(), "GOFLAGS=-mod=mod", "GOPROXY=off", "CGO_ENABLED=1")
	if msg, err := cmd.CombinedOutput(); err != nil {
		ctx.Meta.Notes = append(ctx.Meta.Notes, "race-enabled build not available: "+strings.TrimSpace(string(msg)))
		return ""
	}
	return out
}

func toJob(id int, p *Prog, after func(rid int) string) job {
	setup, runs, finals := p.Lisp(id, after)
	return job{ID: id, Kind: "prog", Caps: p.Caps, NMutex: p.NMutex, Cells: p.Cells, Setup: setup, Runs: runs, Finals: finals, Procs: p.Procs}
}

// observe turns a worker result into an observation in model terms; ok=false when the result cannot be
// expressed (a final value that is not an integer, ...): what then is returned as a complaint.
func observe(p *Prog, oc *jobOutcome) (obs *Observation, complaint string) {
	obs = &Observation{}
	if oc.Res == nil {
		obs.Crash = true
		return obs, ""
	}
	r := oc.Res
	if r.Err != "" {
		return nil, "setup failed: " + r.Err
	}
	if r.Hang {
		return nil, "routines still running at the hard deadline: " + strings.Join(r.States, ",")
	}
	obs.Fin = r.Fin
	obs.Logs = r.Logs
	for i := range obs.Logs {
		for _, e := range obs.Logs[i] {
			if e.Tag < 0 || e.Str != "" {
				return nil, fmt.Sprintf("routine %d logged a value outside the model: %v", i, e)
			}
		}
	}
	if len(r.Finals) != len(p.Mem)+len(p.Caps) {
		return nil, "final values missing"
	}
	for x := range p.Mem {
		z, err := strconv.ParseInt(r.Finals[x], 10, 64)
		if err != nil {
			return nil, fmt.Sprintf("cell %d holds %s", x, r.Finals[x])
		}
		obs.Mem = append(obs.Mem, z)
	}
	for c := range p.Caps {
		n, err := strconv.Atoi(r.Finals[len(p.Mem)+c])
		if err != nil {
			return nil, fmt.Sprintf("(length c%d) is %s", c, r.Finals[len(p.Mem)+c])
		}
		obs.Lens = append(obs.Lens, n)
	}
	return obs, ""
}

func (o *Observation) Gallina() string {
	var fin, logs, mem, lens []string
	for i := range o.Fin {
		fin = append(fin, common.GBool(o.Fin[i]))
		var es []string
		if o.Fin[i] {
			for _, e := range o.Logs[i] {
				switch {
				case e.Tag >= 100:
					es = append(es, fmt.Sprintf("EvLoad %d %s", e.Tag-100, gz(e.Val)))
				case e.Nil:
					es = append(es, fmt.Sprintf("EvPop %d None", e.Tag))
				default:
					es = append(es, fmt.Sprintf("EvPop %d (Some %s)", e.Tag, gz(e.Val)))
				}
			}
		}
		logs = append(logs, "["+strings.Join(es, "; ")+"]")
	}
	for _, z := range o.Mem {
		mem = append(mem, gz(z))
	}
	for _, n := range o.Lens {
		lens = append(lens, fmt.Sprint(n))
	}
	return fmt.Sprintf("(mkO %s [%s] [%s] [%s] [%s])", common.GBool(o.Crash), strings.Join(fin, ";"), strings.Join(logs, ";\n      "),
		strings.Join(mem, ";"), strings.Join(lens, ";"))
}

func gSchedule(ms []move) string {
	items := make([]string, len(ms))
	for i, m := range ms {
		items[i] = fmt.Sprintf("(%d,%d)", m.i, m.k)
	}
	return "[" + strings.Join(items, ";") + "]"
}

func (o *Observation) summary() string {
	if o.Crash {
		return "process died"
	}
	b, _ := json.Marshal(o)
	s := string(b)
	if len(s) > 1500 {
		s = s[:1500] + "..."
	}
	return s
}

// raceWitness is the shape of a known-finding witness that needs the race detector (or a crash) to show.
type raceWitness struct {
	Kind       string   `json:"kind"` // "race"
	NMutex     int      `json:"nmutex"`
	Caps       []int    `json:"caps"`
	Cells      []string `json:"cells"`
	Setup      []string `json:"setup"`
	Runs       []string `json:"runs"`
	Match      string   `json:"match"`   // regular expression over a race report / crash message that identifies the finding
	Results    int      `json:"results"` // routines that report (default: one per entry of runs)
	Repeat     int      `json:"repeat"`  // fresh processes to try
	Observed   string   `json:"observed"`
	Expected   string   `json:"expected"`
	PlainCrash bool     `json:"plain_crash"` // may also kill the plain build (fatal error)
}

// replayRaceWitnesses runs every witness of kind "race" in fresh race-enabled workers.
func replayRaceWitnesses(ctx *common.Ctx, raceBin, dir string) {
	for _, id := range common.SortedKeys(ctx.Known) {
		var w raceWitness
		if err := json.Unmarshal(ctx.Known[id], &w); err != nil || w.Kind != "race" {
			continue
		}
		if raceBin == "" {
			continue // reported as not replayed
		}
		reps := w.Repeat
		if reps <= 0 {
			reps = 3
		}
		rx, rerr := regexp.Compile(w.Match)
		if rerr != nil {
			ctx.KnownResult(id, false, "bad match expression")
			continue
		}
		found, seen := false, ""
		for k := 0; k < reps && !found; k++ {
			j := job{ID: 0, Kind: "lisp", NMutex: w.NMutex, Caps: w.Caps, Cells: w.Cells, Setup: w.Setup, Runs: w.Runs, Results: w.Results,
				Procs: []int{4, 8, 2}[k%3], HardMS: 8000}
			outs := runJobs(raceBin, dir, []job{j}, []string{"GORACE=halt_on_error=0"})
			oc := outs[0]
			for _, rep := range oc.Races {
				if rx.MatchString(rep) {
					found, seen = true, "race: "+raceSignature(rep)
					break
				}
			}
			if !found && oc.Crash != "" && rx.MatchString(oc.Crash+oc.Stderr) {
				found, seen = true, oc.Crash
			}
			if !found && oc.Res != nil && oc.Res.Hang && rx.MatchString("hang") {
				found, seen = true, "hang"
			}
			if !found && seen == "" {
				seen = fmt.Sprintf("%d race reports, none naming %s", len(oc.Races), w.Match)
			}
		}
		ctx.KnownResult(id, found, seen)
	}
}

// hostFault: the process died of something the model has no word for (a Go runtime fatal error, a nil
// dereference, ...) rather than of an uncaught error in a routine
func hostFault(crash string) bool {
	if strings.HasPrefix(crash, "fatal error:") || strings.HasPrefix(crash, "FATAL") {
		return true
	}
	for _, s := range []string{"runtime error:", "unexpected signal", "sync: ", "concurrent map", "worker process ended"} {
		if strings.Contains(crash, s) {
			return true
		}
	}
	return false
}

func Run(ctx *common.Ctx) {
	if os.Getenv("VERIF_C17_PROBE") != "" {
		probe(ctx)
		return
	}
	progs := generate(ctx)
	dir, err := os.MkdirTemp("", "c17-")
	if err != nil {
		panic(err)
	}
	defer os.RemoveAll(dir)
	// the race-enabled worker is built while the plain one runs
	raceCh := make(chan string, 1)
	raceCtx := &common.Ctx{}
	go func() { raceCh <- buildRace(raceCtx) }()

	jobs := make([]job, len(progs))
	for i, p := range progs {
		pct, slow := p.Yield, p.Slow
		// synchronized instances of the program: now and then a routine sets them synchronized again or asks whether
		// they are (both must be without effect; an instance reported as not synchronized raises an error that
		// nothing in the model accounts for).
		var insts []int
		for x, kind := range p.Cells {
			if kind == "clos" || kind == "flavor" {
				insts = append(insts, x)
			}
		}
		jobs[i] = toJob(i, p, func(rid int) string {
			if len(insts) > 0 && ctx.Rng.Chance(12) {
				x := insts[ctx.Rng.Intn(len(insts))]
				if ctx.Rng.Bool() {
					return fmt.Sprintf(" (set-synchronized o%d t)", x)
				}
				return fmt.Sprintf(` (if (synchronizedp o%d) nil (error "c17: a synchronized instance is reported as not synchronized"))`, x)
			}
			if rid == slow && ctx.Rng.Chance(40) {
				return fmt.Sprintf(" (vpause %d)", 20+ctx.Rng.Intn(200))
			}
			if pct > 0 && ctx.Rng.Chance(pct) {
				return " (vyield)"
			}
			return ""
		})
	}
	// implementation-only jobs, each under several GOMAXPROCS
	var impls []implJob
	reps := 3
	if ctx.Thorough() {
		reps = 12
	}
	uid := 0
	for k := 0; k < reps; k++ {
		for _, ij := range genImpl(ctx, uid) {
			ij.Job.ID = len(jobs) + len(impls)
			impls = append(impls, ij)
		}
		uid++
	}
	for _, ij := range genForced(ctx) {
		ij.Job.ID = len(jobs) + len(impls)
		impls = append(impls, ij)
	}
	all := append([]job(nil), jobs...)
	for _, ij := range impls {
		all = append(all, ij.Job)
	}
	// scenarios for the scopes shared by routines (second correspondence, coq/C17/ScopeModel.v)
	nscope := 60
	if ctx.Thorough() {
		nscope = 600
	}
	scopeJobs := append(append(sysScenarios(ctx.Rng), sysLockScenarios(ctx.Rng)...), genScopes(ctx, nscope)...)
	for k := range scopeJobs {
		scopeJobs[k].Job.ID = len(all)
		all = append(all, scopeJobs[k].Job)
	}
	// the lock discipline of the package tables: the whole alphabet, every run (third correspondence)
	lockJobs := genLockProbes(1)
	for k := range lockJobs {
		lockJobs[k].ID = len(all)
		all = append(all, lockJobs[k])
	}
	// the lock of an instance: every slot operation x instance kind x synchronized or not (fourth correspondence)
	instProbes := genInstProbes()
	for k := range instProbes {
		instProbes[k].Job.ID = len(all)
		all = append(all, instProbes[k].Job)
	}
	// two plain workers side by side
	half := len(all) / 2
	var outsA, outsB []jobOutcome
	doneB := make(chan struct{})
	go func() { outsB = runJobs(selfBin(), dir, all[half:], nil); close(doneB) }()
	outsA = runJobs(selfBin(), dir, all[:half], nil)
	<-doneB
	outs := append(outsA, outsB...)

	var terms []string
	var descs []any
	distinct := map[string]bool{}
	for i, p := range progs {
		oc := &outs[i]
		if oc.Skipped {
			ctx.Violate("worker process could not be started", p.Shape, oc.Stderr, nil)
			continue
		}
		if oc.Res == nil && hostFault(oc.Crash) {
			ctx.Violate("the interpreter process died of a host fault while running a concurrent program", map[string]any{"shape": p.Shape,
				"routines": jobs[i].Runs, "setup": jobs[i].Setup, "procs": p.Procs}, oc.Crash+"\n"+oc.Stderr, "no Go-level fatal error")
			continue
		}
		obs, complaint := observe(p, oc)
		if obs == nil {
			ctx.Violate("concurrent program: "+complaint, map[string]any{"shape": p.Shape, "runs": jobs[i].Runs, "setup": jobs[i].Setup}, oc.Stderr, nil)
			continue
		}
		sched, verdict, nodes := FindSchedule(p, obs, 400000)
		ctx.Hist("shape:" + p.Shape)
		ctx.Hist("search:" + verdict)
		ctx.Hist(fmt.Sprintf("procs:%d", p.Procs))
		for _, rt := range p.Code {
			if HasExit(rt) {
				ctx.Hist("programs with return-from / go")
				break
			}
		}
		if p.Cold {
			ctx.Hist("rendering:routine bodies are never-called functions")
		} else {
			ctx.Hist("rendering:one form per routine")
		}
		if obs.Crash {
			ctx.Hist("outcome:process-died")
		} else if oc.Res.Deadlock {
			ctx.Hist("outcome:deadlock")
		} else {
			ctx.Hist("outcome:completed")
		}
		if verdict == "budget" {
			ctx.Meta.Notes = append(ctx.Meta.Notes, fmt.Sprintf("case %d (%s): schedule search gave up after %d nodes; judged by the necessary conditions only", i, p.Shape, nodes))
		}
		ctx.Meta.Evaluations++
		distinct[p.Gallina()] = true
		d := map[string]any{"shape": p.Shape, "procs": p.Procs, "routines": jobs[i].Runs, "setup": jobs[i].Setup, "observed": obs.summary(),
			"search": verdict, "nodes": nodes}
		if oc.Crash != "" {
			d["crash"] = oc.Crash
		}
		gs := "Some " + gSchedule(sched)
		if verdict == "budget" {
			gs = "None"
		}
		terms = append(terms, fmt.Sprintf("(%s,\n    %s,\n    %s)", p.Gallina(), obs.Gallina(), gs))
		descs = append(descs, d)
		if len(terms)%37 == 1 {
			ctx.Sample(map[string]any{"shape": p.Shape, "routines": len(p.Code), "observed": obs.summary()})
		}
	}
	for k := range impls {
		ij := &impls[k]
		oc := &outs[len(progs)+k]
		ctx.Hist("shape:" + ij.Shape)
		ctx.Meta.Evaluations++
		if msg := judgeImpl(ij, oc); msg != "" {
			ctx.Violate("implementation-only check ("+ij.Shape+"): "+msg, map[string]any{"setup": ij.Job.Setup, "routines": ij.Job.Runs, "procs": ij.Job.Procs},
				oc.Stderr, "every routine finishes and sees the sequential values")
		}
	}

	var sterms []string
	var sdescs []any
	for k := range scopeJobs {
		sj := &scopeJobs[k]
		oc := &outs[len(progs)+len(impls)+k]
		ctx.Hist("shape:" + sj.Shape)
		ctx.Hist(fmt.Sprintf("scopes:routines:%d", len(sj.Probes)))
		ctx.Meta.Evaluations++
		term, complaint := scopeCase(sj, oc)
		if complaint != "" {
			ctx.Violate("scope scenario: "+complaint, map[string]any{"routines": sj.Job.Runs, "procs": sj.Job.Procs}, oc.Stderr,
				"every routine finishes and reports its probes")
			continue
		}
		sterms = append(sterms, term)
		sdescs = append(sdescs, map[string]any{"shape": sj.Shape, "setup": sj.Job.Setup, "routines": sj.Job.Runs, "model_operations": sj.Codes, "procs": sj.Job.Procs})
		distinct[term] = true
	}

	var lterms []string
	var ldescs []any
	for k := range lockJobs {
		oc := &outs[len(progs)+len(impls)+len(scopeJobs)+k]
		ctx.Hist("shape:lock-probe")
		ctx.Meta.Evaluations++
		what := map[string]any{"operation": lockOps[k].Name, "form": lockJobs[k].Runs[0], "setup": lockJobs[k].Setup}
		if oc.Res == nil || oc.Res.Err != "" || oc.Res.Hang || !oc.Res.Probed {
			msg := oc.Crash
			if oc.Res != nil {
				msg = fmt.Sprintf("err=%q hang=%v probed=%v", oc.Res.Err, oc.Res.Hang, oc.Res.Probed)
			}
			ctx.Violate("lock probe: the operation could not be probed", what, msg+"\n"+oc.Stderr, "the operation finishes or waits for the package mutex")
			continue
		}
		if strings.HasPrefix(oc.Res.Value, "error:") {
			ctx.Violate("lock probe: the probed operation raised an error", what, oc.Res.Value, "a value")
			continue
		}
		what["waited_for_the_package_mutex"] = oc.Res.Blocked
		what["value"] = oc.Res.Value
		lterms = append(lterms, fmt.Sprintf("(%s, %s)", lockOps[k].Name, common.GBool(oc.Res.Blocked)))
		ldescs = append(ldescs, what)
		distinct["lock:"+lockOps[k].Name] = true
	}

	var iterms []string
	var idescs []any
	for k := range instProbes {
		ip := &instProbes[k]
		oc := &outs[len(progs)+len(impls)+len(scopeJobs)+len(lockJobs)+k]
		ctx.Hist("shape:instance-lock-probe")
		ctx.Meta.Evaluations++
		what := map[string]any{"operation": ip.Op, "form": ip.Job.Runs[0], "instance": ip.Kind, "synchronized": ip.Sync}
		if oc.Res == nil || oc.Res.Err != "" || oc.Res.Hang || !oc.Res.Probed {
			msg := oc.Crash
			if oc.Res != nil {
				msg = fmt.Sprintf("err=%q hang=%v probed=%v", oc.Res.Err, oc.Res.Hang, oc.Res.Probed)
			}
			ctx.Violate("instance lock probe: the operation could not be probed", what, msg+"\n"+oc.Stderr, "the operation finishes or waits for the instance lock")
			continue
		}
		if strings.HasPrefix(oc.Res.Value, "error:") {
			ctx.Violate("instance lock probe: the probed operation raised an error", what, oc.Res.Value, "a value")
			continue
		}
		what["waited_for_the_instance_lock"] = oc.Res.Blocked
		what["value"] = oc.Res.Value
		iterms = append(iterms, fmt.Sprintf("(%s, %s, %s)", ip.Op, common.GBool(ip.Sync), common.GBool(oc.Res.Blocked)))
		idescs = append(idescs, what)
		distinct[fmt.Sprintf("inst:%s:%s:%v", ip.Op, ip.Kind, ip.Sync)] = true
	}

	// ---- race-enabled worker: a sample of the model programs, the implementation-only jobs, the witnesses ----
	raceBin := <-raceCh
	ctx.Meta.Notes = append(ctx.Meta.Notes, raceCtx.Meta.Notes...)
	extra := map[string]any{"race_build": raceBin != ""}
	if raceBin != "" {
		var rjobs []job
		var what []string
		nModel := 70
		if ctx.Thorough() {
			nModel = 600
		}
		for i, p := range progs {
			if len(rjobs) >= nModel {
				break
			}
			if CountOps(p.Code[0]) > 80 && i%3 != 0 {
				continue
			}
			j := jobs[i]
			j.ID = len(rjobs)
			rjobs = append(rjobs, j)
			what = append(what, p.Shape)
		}
		nmodel := len(rjobs)
		rimpl := append(genImpl(ctx, 1000), genForced(ctx)...)
		for _, ij := range rimpl {
			ij.Job.ID = len(rjobs)
			rjobs = append(rjobs, ij.Job)
			what = append(what, ij.Shape)
		}
		for _, sj := range genScopes(ctx, 25) {
			sj.Job.ID = len(rjobs)
			rjobs = append(rjobs, sj.Job)
			what = append(what, "scopes")
		}
		routs := runJobs(raceBin, dir, rjobs, []string{"GORACE=halt_on_error=0"})
		races := 0
		for k := range routs {
			oc := &routs[k]
			ctx.Hist("race-run:" + what[k])
			if len(oc.Races) > 0 {
				races += len(oc.Races)
				sigs := map[string]bool{}
				for _, rep := range oc.Races {
					sigs[raceSignature(rep)] = true
				}
				first := oc.Races[0]
				if len(first) > 3000 {
					first = first[:3000]
				}
				ctx.Violate("the race detector reports a data race in the interpreter ("+what[k]+")",
					map[string]any{"setup": rjobs[k].Setup, "routines": rjobs[k].Runs, "procs": rjobs[k].Procs},
					map[string]any{"signatures": common.SortedKeys(sigs), "first_report": first}, "no data race")
			}
			if k >= nmodel+len(rimpl) {
				if oc.Res == nil || oc.Res.Hang || oc.Res.Deadlock || oc.Res.Err != "" {
					ctx.Violate("scope scenario under the race detector: the routines did not all finish", map[string]any{"routines": rjobs[k].Runs}, oc.Crash+oc.Stderr, nil)
				}
			} else if k >= nmodel {
				if msg := judgeImpl(&rimpl[k-nmodel], oc); msg != "" {
					ctx.Violate("implementation-only check under the race detector ("+what[k]+"): "+msg,
						map[string]any{"setup": rjobs[k].Setup, "routines": rjobs[k].Runs}, oc.Stderr, nil)
				}
			} else if oc.Res == nil && hostFault(oc.Crash) {
				// the process may die of an uncaught error in a routine (the model's crash), never of a Go fatal error
				ctx.Violate("the race-enabled worker died of a host fault ("+what[k]+")", map[string]any{"routines": rjobs[k].Runs}, oc.Crash, nil)
			}
		}
		extra["race_jobs"] = len(rjobs)
		extra["race_reports"] = races
		ctx.Meta.Evaluations += len(rjobs)
	}
	replayRaceWitnesses(ctx, raceBin, dir)
	ctx.ReplayKnownLisp()
	ctx.Meta.Extra = extra

	ctx.Meta.DistinctNontrivial = len(distinct)
	ctx.Meta.Rule = "generated concurrent programs (<= 8 routines; producers/consumers over buffered and unbuffered channels with fixed pops, range+close, select, two stages; mutex-guarded and unguarded counters on globals, synchronized CLOS/flavors instances and hash entries; errors unwinding through with-mutex-lock; deliberate deadlocks; random mixes) run on the implementation in worker processes under GOMAXPROCS 1..16 with random yields; each observed outcome is replayed through the Coq model along a schedule found by guided search; plus implementation-only jobs (concurrent defvar/defun/defmethod/printing/set-synchronized) and a race-enabled worker; distinct = distinct programs"
	header := "From C17 Require Import Model Spec Corr.\nOpen Scope nat_scope.\n"
	footer := "Definition res := Eval vm_compute in check_all cases.\nPrint res.\nDefinition steps := Eval vm_compute in sched_steps cases.\nPrint steps.\nDefinition undecided_cases := Eval vm_compute in undecided cases.\nPrint undecided_cases.\n"
	ctx.WriteShards("cases", header, "case", footer, terms, descs, 16)
	sheader := "From C17 Require Import Model ScopeModel ScopeLockModel Corr.\nOpen Scope nat_scope.\n"
	sfooter := "Definition res := Eval vm_compute in scheck_all cases.\nPrint res.\nDefinition scope_probes_compared := Eval vm_compute in scope_probes cases.\nPrint scope_probes_compared.\nDefinition scopes_reported_synchronized := Eval vm_compute in scopes_seen_synchronized cases.\nPrint scopes_reported_synchronized.\n"
	ctx.WriteShards("scopes", sheader, "scase", sfooter, sterms, sdescs, 4)
	lheader := "From C17 Require Import Model TableModel Corr.\nOpen Scope nat_scope.\n"
	lfooter := "Definition res := Eval vm_compute in tcheck_all cases.\nPrint res.\nDefinition operations_waiting_for_the_package_mutex := Eval vm_compute in operations_seen_waiting_for_the_package_mutex cases.\nPrint operations_waiting_for_the_package_mutex.\n"
	ctx.WriteShards("locks", lheader, "tcase", lfooter, lterms, ldescs, 1)
	ifooter := "Definition res := Eval vm_compute in icheck_all cases.\nPrint res.\nDefinition slot_operations_waiting_for_the_instance_lock := Eval vm_compute in slot_operations_seen_waiting_for_the_instance_lock cases.\nPrint slot_operations_waiting_for_the_instance_lock.\n"
	ctx.WriteShards("instlocks", lheader, "icase", ifooter, iterms, idescs, 1)
}
