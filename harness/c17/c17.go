// c17.go: orchestration.  Generated programs run on the implementation in worker processes; every
// observed outcome goes to Coq together with a schedule found by the (untrusted) search.
package c17

import (
	"encoding/json"
	"fmt"
	"os"
	"os/exec"
	"path/filepath"
	"strconv"
	"strings"

	"verifharness/common"
)

func selfBin() string {
	self, err := os.Executable()
	if err != nil {
		panic(err)
	}
	return self
}

// buildRace builds the race-enabled harness next to the plain one; "" when that is not possible here.
func buildRace(ctx *common.Ctx) string {
	self := selfBin()
	buildDir := filepath.Dir(self)
	root := filepath.Dir(buildDir)
	src := filepath.Join(root, "harness")
	if _, err := os.Stat(filepath.Join(src, "go.mod")); err != nil {
		return ""
	}
	out := filepath.Join(buildDir, "harness-race")
	args := []string{"build", "-race", "-tags", "verif", "-o", out}
	if repo := os.Getenv("VERIF_REPO"); repo != "" && repo != "/repo" {
		alt := filepath.Join(buildDir, "go.alt.mod")
		if _, err := os.Stat(alt); err == nil {
			args = append(args, "-modfile="+alt)
		}
	}
	args = append(args, "./cmd/harness")
	cmd := exec.Command("go", args...)
	cmd.Dir = src
	cmd.Env = append(os.Environ(), "GOFLAGS=-mod=mod", "GOPROXY=off", "CGO_ENABLED=1")
	if msg, err := cmd.CombinedOutput(); err != nil {
		ctx.Meta.Notes = append(ctx.Meta.Notes, "race-enabled build not available: "+strings.TrimSpace(string(msg)))
		return ""
	}
	return out
}

func toJob(id int, p *Prog, yield func() bool) job {
	setup, runs, finals := p.Lisp(id, yield)
	return job{ID: id, Kind: "prog", Caps: p.Caps, NMutex: p.NMutex, Cells: p.Cells, Setup: setup, Runs: runs, Finals: finals, Procs: p.Procs}
}

// observe turns a worker result into an observation in model terms; ok=false when the result cannot be
// expressed (a final value that is not an integer, ...): what then is returned as a complaint.
func observe(p *Prog, oc *jobOutcome) (obs *Observation, complaint string) {
	obs = &Observation{}
	if oc.Res == nil {
		obs.Crash = true
		return obs, ""
	}
	r := oc.Res
	if r.Err != "" {
		return nil, "setup failed: " + r.Err
	}
	if r.Hang {
		return nil, "routines still running at the hard deadline: " + strings.Join(r.States, ",")
	}
	obs.Fin = r.Fin
	obs.Logs = r.Logs
	for i := range obs.Logs {
		for _, e := range obs.Logs[i] {
			if e.Tag < 0 || e.Str != "" {
				return nil, fmt.Sprintf("routine %d logged a value outside the model: %v", i, e)
			}
		}
	}
	if len(r.Finals) != len(p.Mem)+len(p.Caps) {
		return nil, "final values missing"
	}
	for x := range p.Mem {
		z, err := strconv.ParseInt(r.Finals[x], 10, 64)
		if err != nil {
			return nil, fmt.Sprintf("cell %d holds %s", x, r.Finals[x])
		}
		obs.Mem = append(obs.Mem, z)
	}
	for c := range p.Caps {
		n, err := strconv.Atoi(r.Finals[len(p.Mem)+c])
		if err != nil {
			return nil, fmt.Sprintf("(length c%d) is %s", c, r.Finals[len(p.Mem)+c])
		}
		obs.Lens = append(obs.Lens, n)
	}
	return obs, ""
}

func (o *Observation) Gallina() string {
	var fin, logs, mem, lens []string
	for i := range o.Fin {
		fin = append(fin, common.GBool(o.Fin[i]))
		var es []string
		if o.Fin[i] {
			for _, e := range o.Logs[i] {
				switch {
				case e.Tag >= 100:
					es = append(es, fmt.Sprintf("EvLoad %d %s", e.Tag-100, gz(e.Val)))
				case e.Nil:
					es = append(es, fmt.Sprintf("EvPop %d None", e.Tag))
				default:
					es = append(es, fmt.Sprintf("EvPop %d (Some %s)", e.Tag, gz(e.Val)))
				}
			}
		}
		logs = append(logs, "["+strings.Join(es, "; ")+"]")
	}
	for _, z := range o.Mem {
		mem = append(mem, gz(z))
	}
	for _, n := range o.Lens {
		lens = append(lens, fmt.Sprint(n))
	}
	return fmt.Sprintf("(mkO %s [%s] [%s] [%s] [%s])", common.GBool(o.Crash), strings.Join(fin, ";"), strings.Join(logs, ";\n      "),
		strings.Join(mem, ";"), strings.Join(lens, ";"))
}

func gSchedule(ms []move) string {
	items := make([]string, len(ms))
	for i, m := range ms {
		items[i] = fmt.Sprintf("(%d,%d)", m.i, m.k)
	}
	return "[" + strings.Join(items, ";") + "]"
}

func (o *Observation) summary() string {
	if o.Crash {
		return "process died"
	}
	b, _ := json.Marshal(o)
	s := string(b)
	if len(s) > 1500 {
		s = s[:1500] + "..."
	}
	return s
}

func Run(ctx *common.Ctx) {
	if os.Getenv("VERIF_C17_PROBE") != "" {
		probe(ctx)
		return
	}
	progs := generate(ctx)
	dir, err := os.MkdirTemp("", "c17-")
	if err != nil {
		panic(err)
	}
	defer os.RemoveAll(dir)
	jobs := make([]job, len(progs))
	for i, p := range progs {
		pct := p.Yield
		jobs[i] = toJob(i, p, func() bool { return pct > 0 && ctx.Rng.Chance(pct) })
	}
	outs := runJobs(selfBin(), dir, jobs, nil)
	var terms []string
	var descs []any
	distinct := map[string]bool{}
	for i, p := range progs {
		oc := &outs[i]
		if oc.Skipped {
			ctx.Violate("worker process could not be started", p.Shape, oc.Stderr, nil)
			continue
		}
		obs, complaint := observe(p, oc)
		if obs == nil {
			ctx.Violate("concurrent program: "+complaint, map[string]any{"shape": p.Shape, "runs": jobs[i].Runs, "setup": jobs[i].Setup}, oc.Stderr, nil)
			continue
		}
		sched, verdict, nodes := FindSchedule(p, obs, 400000)
		ctx.Hist("shape:" + p.Shape)
		ctx.Hist("search:" + verdict)
		ctx.Hist(fmt.Sprintf("procs:%d", p.Procs))
		if obs.Crash {
			ctx.Hist("outcome:process-died")
		} else if oc.Res.Deadlock {
			ctx.Hist("outcome:deadlock")
		} else {
			ctx.Hist("outcome:completed")
		}
		if verdict == "budget" {
			ctx.Meta.Notes = append(ctx.Meta.Notes, fmt.Sprintf("case %d (%s): schedule search gave up after %d nodes; judged by the necessary conditions only", i, p.Shape, nodes))
		}
		ctx.Meta.Evaluations++
		distinct[p.Gallina()] = true
		d := map[string]any{"shape": p.Shape, "procs": p.Procs, "routines": jobs[i].Runs, "setup": jobs[i].Setup, "observed": obs.summary(),
			"search": verdict, "nodes": nodes}
		if oc.Crash != "" {
			d["crash"] = oc.Crash
		}
		gs := "Some " + gSchedule(sched)
		if verdict == "budget" {
			gs = "None"
		}
		terms = append(terms, fmt.Sprintf("(%s,\n    %s,\n    %s)", p.Gallina(), obs.Gallina(), gs))
		descs = append(descs, d)
		if len(terms)%37 == 1 {
			ctx.Sample(map[string]any{"shape": p.Shape, "routines": len(p.Code), "observed": obs.summary()})
		}
	}
	ctx.Meta.DistinctNontrivial = len(distinct)
	ctx.Meta.Rule = "generated concurrent programs over the model's operations, each run on the implementation in a worker process; distinct = distinct programs"
	header := "From C17 Require Import Model Spec Corr.\nOpen Scope nat_scope.\n"
	footer := "Definition res := Eval vm_compute in check_all cases.\nPrint res.\nDefinition steps := Eval vm_compute in sched_steps cases.\nPrint steps.\nDefinition undecided_cases := Eval vm_compute in undecided cases.\nPrint undecided_cases.\n"
	ctx.WriteShards("cases", header, "case", footer, terms, descs, 16)
}
