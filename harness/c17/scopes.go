// scopes.go: scenarios for the scopes that routines share (coq/C17/ScopeModel.v).  A scenario is a tree of
// nested let / call-of-a-lambda / run forms with probes; a probe ((vchain), a harness builtin) walks from the
// scope it is evaluated in through Scope.Parents() and reports Scope.Synchronized() of every scope it visits, in
// walk order.  The scenario is flattened into the operations of the model (one list per routine, routines and
// scopes numbered in the order the model creates them); Coq executes them and must predict every report.
// Touches ((setq v (+ v 1)) on a visible variable: a let variable, or the variable of a with-slots form - a *Ref
// binding in the scope of the with-slots body) are the scope operations of coq/C17/ScopeLockModel.v: a Scope.get and
// a Scope.set that walk from the current scope to the scope the variable is bound in, taking and releasing the mutex
// of every scope on the way that run has shared.  The model says they complete and leave nothing locked; a routine
// that does not get to its next probe / its report is caught by the worker's watchdog (the program is the failing
// input).  They also give the race detector something to look at.
//
// History shapes: a "spawner" is a closure (a lambda made inside a let and kept in a variable) whose body starts
// routines; it is CALLED SEVERAL TIMES, from different places (directly, from a fresh let, from two nested lets, from
// the body of another lambda).  Every call gives the body a scope with two parents: the closure's scope and the
// caller's.  An "inst" is a synchronized flavors instance whose method starts routines: Instance.Receive gives the
// method's scope the parents [instance scope, sender's scope].  After the first call has started a routine the first
// parent is synchronized - run has to go on to the second one all the same.
package c17

import (
	"fmt"
	"strings"

	"verifharness/common"
)

type snode struct {
	kind string // let | slots | call | deepcall | run | obs | touch | spawner | callf | inst | send
	vn   string // let / slots: the variable the node binds (slots: a with-slots variable, a *Ref in the scope's map)
	id   int    // absolute id (probe tag, variable name); in a template: the local id
	kids []*snode
	v    string // touch: the variable
	// spawner / inst: the body of the closure / of the method (a template: local ids, local run numbers)
	tmpl     []*snode
	tmplIDs  int
	tmplRuns int
	runIdx   int // template run node: its number within the template
	// callf / send: one call
	target  *snode
	wrap    int // 0 called directly, 1 from a fresh let, 2 from two nested lets, 3 from the body of another lambda
	tagBase int
	ridBase int
	lispRid int // run node outside a template: the rid in the lisp text
}

type scopeScenario struct {
	serial  int // makes method names unique within a worker process
	root    []*snode
	nextID  int
	nrun    int
	nextRid int
	setup   []string
}

type tmplCtx struct {
	owner *snode
	ids   int
	runs  int
}

func (sc *scopeScenario) varName(id int, t *tmplCtx) string {
	if t != nil {
		return fmt.Sprintf("a%dt%d", t.owner.id, id)
	}
	return fmt.Sprintf("a%d", id)
}

// gen: one level of the tree.  t != nil: inside the template of t.owner (ids and run numbers are local).
// targets: the spawners / instances that may be called here (none inside a template or below a run: the body of a
// spawner logs into `log`, which must be the log of the routine that makes the call).
func (sc *scopeScenario) gen(r *common.Rng, depth int, vars []string, budget *int, t *tmplCtx, targets []*snode) []*snode {
	newID := func() int {
		if t != nil {
			t.ids++
			return t.ids
		}
		sc.nextID++
		return sc.nextID
	}
	var out []*snode
	n := 1 + r.Intn(4)
	for k := 0; k < n && *budget > 0; k++ {
		*budget--
		nd := &snode{id: newID()}
		x := r.Intn(110)
		switch {
		case x >= 100 && depth < 4:
			// (with-slots ((s v)) o ...): a scope whose binding is a *Ref; routines started below it share it
			nd.kind = "slots"
			nd.vn = "s" + sc.varName(nd.id, t)
			nd.kids = sc.gen(r, depth+1, append(append([]string(nil), vars...), nd.vn), budget, t, targets)
		case x >= 100:
			nd.kind = "obs"
		case x < 18 && depth < 4:
			nd.kind = "let"
			nd.vn = sc.varName(nd.id, t)
			nd.kids = sc.gen(r, depth+1, append(append([]string(nil), vars...), nd.vn), budget, t, targets)
		case x < 28 && depth < 4:
			nd.kind = "call"
			nd.kids = sc.gen(r, depth+1, vars, budget, t, targets)
		case x < 36 && depth < 3:
			nd.kind = "deepcall"
			nd.kids = sc.gen(r, depth+1, vars, budget, t, targets)
		case x < 52 && sc.nrun < 7:
			nd.kind = "run"
			sc.nrun++
			if t != nil {
				nd.runIdx = t.runs
				t.runs++
			}
			nd.kids = sc.gen(r, depth+1, vars, budget, t, nil)
		case x < 62 && t == nil && depth < 3 && *budget >= 4 && sc.nrun < 5:
			// a spawner or an instance with a method: the template first (its runs count for every call)
			nd.kind = "spawner"
			tvars := vars
			if r.Chance(40) {
				nd.kind = "inst"
				tvars = nil // a method body sees the caller's variables only dynamically: it touches its own lets
			}
			tc := &tmplCtx{owner: nd}
			save := sc.nrun
			tb := 2 + r.Intn(5)
			nd.tmpl = sc.gen(r, depth+1, tvars, &tb, tc, nil)
			if tc.runs == 0 { // a spawner spawns
				tc.ids++
				run := &snode{kind: "run", id: tc.ids, runIdx: 0}
				tc.ids++
				run.kids = []*snode{{kind: "obs", id: tc.ids}}
				tc.runs = 1
				nd.tmpl = append([]*snode{run}, nd.tmpl...)
			}
			sc.nrun = save
			nd.tmplIDs, nd.tmplRuns = tc.ids, tc.runs
			nd.kids = sc.gen(r, depth+1, vars, budget, t, append(append([]*snode(nil), targets...), nd))
			// called at least twice, the second time from a place of its own
			for c := 0; c < 2; c++ {
				if sc.nrun+nd.tmplRuns <= 8 {
					nd.kids = append(nd.kids, sc.newCall(r, nd, []int{r.Intn(4), 1 + r.Intn(3)}[c]), &snode{kind: "obs", id: newID()})
				}
			}
		case x < 72 && len(targets) > 0 && sc.nrun+targets[len(targets)-1].tmplRuns <= 8:
			*nd = *sc.newCall(r, targets[r.Intn(len(targets))], r.Intn(4))
			if sc.nrun > 8 {
				nd.kind = "obs"
			}
		case x < 86 && len(vars) > 0:
			nd.kind = "touch"
			nd.v = vars[r.Intn(len(vars))]
		default:
			nd.kind = "obs"
		}
		out = append(out, nd)
	}
	// every level ends with a probe: what the lets and runs before it did to the chain
	out = append(out, &snode{kind: "obs", id: newID()})
	return out
}

// newCall: one call of a spawner / one send to an instance: a copy of the template with absolute ids
func (sc *scopeScenario) newCall(r *common.Rng, target *snode, wrap int) *snode {
	sc.nextID++
	nd := &snode{kind: "callf", id: sc.nextID, target: target, wrap: wrap}
	if target.kind == "inst" {
		nd.kind = "send"
	}
	nd.tagBase = sc.nextID
	sc.nextID += target.tmplIDs
	nd.ridBase = sc.nextRid
	sc.nextRid += target.tmplRuns
	sc.nrun += target.tmplRuns
	var copyOf func(nodes []*snode) []*snode
	copyOf = func(nodes []*snode) []*snode {
		var out []*snode
		for _, m := range nodes {
			c := *m
			c.id = nd.tagBase + m.id
			if m.kind == "run" {
				c.lispRid = nd.ridBase + m.runIdx
			}
			c.kids = copyOf(m.kids)
			out = append(out, &c)
		}
		return out
	}
	nd.kids = copyOf(target.tmpl)
	return nd
}

func (sc *scopeScenario) lisp(b *strings.Builder, nodes []*snode, t *snode) {
	tag := func(id int) string {
		if t != nil {
			return fmt.Sprintf("(+ q %d)", id)
		}
		return fmt.Sprint(id)
	}
	vn := func(id int) string {
		if t != nil {
			return fmt.Sprintf("a%dt%d", t.id, id)
		}
		return fmt.Sprintf("a%d", id)
	}
	for _, nd := range nodes {
		switch nd.kind {
		case "let":
			fmt.Fprintf(b, " (let ((%s 0))", vn(nd.id))
			sc.lisp(b, nd.kids, t)
			b.WriteString(")")
		case "slots":
			// the instance is synchronized: its slot map has a lock of its own (the routines touch the slot unguarded)
			fmt.Fprintf(b, " (let ((o%s (make-instance 'c17cell))) (set-synchronized o%s t) (with-slots ((s%s v)) o%s", vn(nd.id), vn(nd.id), vn(nd.id), vn(nd.id))
			sc.lisp(b, nd.kids, t)
			b.WriteString("))")
		case "call":
			fmt.Fprintf(b, " (funcall (lambda (p%s)", vn(nd.id))
			sc.lisp(b, nd.kids, t)
			b.WriteString(") 0)")
		case "deepcall":
			fmt.Fprintf(b, " (let ((f%s nil)) (setq f%s (lambda (p%s)", vn(nd.id), vn(nd.id), vn(nd.id))
			sc.lisp(b, nd.kids, t)
			fmt.Fprintf(b, ")) (let ((z%s 0)) (funcall f%s 0)))", vn(nd.id), vn(nd.id))
		case "run":
			b.WriteString(" (run (let ((log nil))")
			sc.lisp(b, nd.kids, t)
			if t != nil {
				fmt.Fprintf(b, " (channel-push res (list (+ r %d) log))))", nd.runIdx)
			} else {
				fmt.Fprintf(b, " (channel-push res (list %d log))))", nd.lispRid)
			}
		case "obs":
			fmt.Fprintf(b, " (setq log (cons (list %s (vchain)) log))", tag(nd.id))
		case "touch":
			fmt.Fprintf(b, " (setq %s (+ %s 1))", nd.v, nd.v)
		case "spawner":
			fmt.Fprintf(b, " (let ((f%d nil)) (setq f%d (lambda (q r)", nd.id, nd.id)
			sc.lisp(b, nd.tmpl, nd)
			b.WriteString("))")
			sc.lisp(b, nd.kids, t)
			b.WriteString(")")
		case "inst":
			var m strings.Builder
			fmt.Fprintf(&m, "(defmethod (c17sflav :m%dx%d) (q r)", sc.serial, nd.id)
			sc.lisp(&m, nd.tmpl, nd)
			m.WriteString(")")
			sc.setup = append(sc.setup, m.String())
			fmt.Fprintf(b, " (let ((o%d (make-instance 'c17sflav))) (set-synchronized o%d t)", nd.id, nd.id)
			sc.lisp(b, nd.kids, t)
			b.WriteString(")")
		case "callf", "send":
			call := fmt.Sprintf("(funcall f%d %d %d)", nd.target.id, nd.tagBase, nd.ridBase)
			if nd.kind == "send" {
				call = fmt.Sprintf("(send o%d :m%dx%d %d %d)", nd.target.id, sc.serial, nd.target.id, nd.tagBase, nd.ridBase)
			}
			switch nd.wrap {
			case 1:
				call = fmt.Sprintf("(let ((w%d 0)) %s)", nd.id, call)
			case 2:
				call = fmt.Sprintf("(let ((w%d 0)) (let ((v%d 0)) %s))", nd.id, nd.id, call)
			case 3:
				call = fmt.Sprintf("(funcall (lambda (w%d) %s) 0)", nd.id, call)
			}
			b.WriteString(" " + call)
		}
	}
}

// flatten numbers routines and scopes the way the model creates them (routine 0 = the harness, which starts the
// root routine; then every routine in turn, from its first operation to its last) and returns the operations of
// every routine as a Gallina term, and for every routine its lisp rid and its probes in program order
func (sc *scopeScenario) flatten() (codes []string, rids []int, probes [][]int) {
	type pending struct {
		kids  []*snode
		spawn int // scope the routine is started in
		rid   int
		env   map[string]int // variable -> the scope it is bound in, as seen where the routine is started
	}
	queue := []pending{{kids: sc.root, spawn: 0, rid: 0, env: map[string]int{}}}
	codes = append(codes, "[XOp SRun]") // the harness evaluates the (run ...) form of the root routine in scope 0
	nscopes := 1
	scopeOf := map[*snode]int{} // spawner: the scope its closure is made in; inst: the instance's scope
	for len(queue) > 0 {
		cur := queue[0]
		queue = queue[1:]
		var ops []string
		var obs []int
		stack := []int{cur.spawn}
		env := cur.env
		top := func() int { return stack[len(stack)-1] }
		push := func(op string) {
			ops = append(ops, "XOp "+op)
			stack = append(stack, nscopes)
			nscopes++
		}
		pop := func() {
			ops = append(ops, "XOp SEnd")
			stack = stack[:len(stack)-1]
		}
		var walk func(nodes []*snode)
		walk = func(nodes []*snode) {
			for _, nd := range nodes {
				switch nd.kind {
				case "let":
					push("SLet")
					if nd.vn != "" {
						env[nd.vn] = top()
					}
					walk(nd.kids)
					pop()
				case "slots":
					push("SLet") // the let that holds the instance
					push("SLet") // WithSlots.Call: ns := s.NewScope(), the *Ref is bound there
					env[nd.vn] = top()
					walk(nd.kids)
					pop()
					pop()
				case "touch":
					// (setq v (+ v 1)): Scope.get, then Scope.set, both from the current scope
					if sco, ok := env[nd.v]; ok {
						bk := "BPlain"
						if strings.HasPrefix(nd.v, "s") {
							bk = "BRef"
						}
						ops = append(ops, fmt.Sprintf("XAcc KGet %d %s", sco, bk), fmt.Sprintf("XAcc KSet %d %s", sco, bk))
					} else {
						ops = append(ops, "XAcc KGet 999999 BPlain") // generator mistake: shows as code 3
					}
				case "call":
					push(fmt.Sprintf("(SCall %d)", top()))
					walk(nd.kids)
					pop()
				case "deepcall":
					push("SLet")
					a := top()
					push("SLet")
					push(fmt.Sprintf("(SCall %d)", a))
					walk(nd.kids)
					pop()
					pop()
					pop()
				case "run":
					ops = append(ops, "XOp SRun")
					envCopy := make(map[string]int, len(env))
					for k, v := range env {
						envCopy[k] = v
					}
					queue = append(queue, pending{kids: nd.kids, spawn: top(), rid: nd.lispRid, env: envCopy})
				case "obs":
					ops = append(ops, fmt.Sprintf("XObs %d", nd.id))
					obs = append(obs, nd.id)
				case "spawner":
					push("SLet")
					scopeOf[nd] = top()
					walk(nd.kids)
					pop()
				case "inst":
					push("SLet")
					ops = append(ops, "XOp SInst") // the instance's own scope: synchronized, no parents, on no stack
					scopeOf[nd] = nscopes
					nscopes++
					walk(nd.kids)
					pop()
				case "callf", "send":
					wraps := 0
					switch nd.wrap {
					case 1:
						push("SLet")
						wraps = 1
					case 2:
						push("SLet")
						push("SLet")
						wraps = 2
					case 3:
						push(fmt.Sprintf("(SCall %d)", top()))
						wraps = 1
					}
					if nd.kind == "callf" {
						push(fmt.Sprintf("(SCall %d)", scopeOf[nd.target])) // Lambda.Call: [closure scope; caller's scope]
						walk(nd.kids)
						pop()
					} else {
						// Instance.Receive: [instance scope; sender's scope]; Method.Call / the daemon's Lambda.Call put
						// two more scopes on top of it: [that one] and [the second; the second]
						push(fmt.Sprintf("(SCall %d)", scopeOf[nd.target]))
						push("SLet")
						push(fmt.Sprintf("(SCall %d)", top()))
						walk(nd.kids)
						pop()
						pop()
						pop()
					}
					for ; wraps > 0; wraps-- {
						pop()
					}
				}
			}
		}
		push("SLet") // the routine's own (let ((log nil)) ...)
		walk(cur.kids)
		codes = append(codes, "["+strings.Join(ops, "; ")+"]")
		rids = append(rids, cur.rid)
		probes = append(probes, obs)
	}
	return
}

type scopeJob struct {
	Job    job
	Shape  string
	Codes  []string
	Rids   []int
	Probes [][]int
}

var scopeSerial int

func (sc *scopeScenario) job(r *common.Rng, shape string) scopeJob {
	sc.nextRid = 1 // 0: the root routine
	// the calls were created during generation and took their rids then: renumber everything in one pass
	var renum func(nodes []*snode)
	renum = func(nodes []*snode) {
		for _, nd := range nodes {
			switch nd.kind {
			case "run":
				nd.lispRid = sc.nextRid
				sc.nextRid++
			case "callf", "send":
				nd.ridBase = sc.nextRid
				sc.nextRid += nd.target.tmplRuns
				var fix func(ns []*snode)
				fix = func(ns []*snode) {
					for _, m := range ns {
						if m.kind == "run" {
							m.lispRid = nd.ridBase + m.runIdx
						}
						fix(m.kids)
					}
				}
				fix(nd.kids)
				continue
			}
			renum(nd.kids)
		}
	}
	renum(sc.root)
	codes, rids, probes := sc.flatten()
	var b strings.Builder
	b.WriteString("(run (let ((log nil))")
	sc.lisp(&b, sc.root, nil)
	b.WriteString(" (channel-push res (list 0 log))))")
	return scopeJob{Job: job{Kind: "lisp", Setup: sc.setup, Runs: []string{b.String()}, Results: len(probes), Procs: common.Pick(r, procChoices)},
		Shape: shape, Codes: codes, Rids: rids, Probes: probes}
}

// sysScenarios: the systematic block.  For a spawner closure and for a synchronized instance with a method: every
// pair of places the first and the second call are made from (4 x 4) x the routine is started directly in the body /
// inside a let of the body.  The body probes before and after, the routine it starts probes, the caller probes after
// each call.
func sysScenarios(r *common.Rng) []scopeJob {
	var out []scopeJob
	for _, kind := range []string{"spawner", "inst"} {
		for w1 := 0; w1 < 4; w1++ {
			for w2 := 0; w2 < 4; w2++ {
				for pos := 0; pos < 2; pos++ {
					scopeSerial++
					sc := &scopeScenario{serial: scopeSerial}
					sc.nextID = 1
					sp := &snode{kind: kind, id: 1}
					run := &snode{kind: "run", id: 2, runIdx: 0, kids: []*snode{{kind: "obs", id: 3}}}
					body := []*snode{{kind: "obs", id: 1}, run, {kind: "obs", id: 4}}
					if pos == 1 {
						body = []*snode{{kind: "obs", id: 1}, {kind: "let", id: 5, kids: []*snode{run, {kind: "obs", id: 6}}}, {kind: "obs", id: 4}}
					}
					sp.tmpl, sp.tmplIDs, sp.tmplRuns = body, 6, 1
					c1 := sc.newCall(r, sp, w1)
					sc.nextID++
					o1 := &snode{kind: "obs", id: sc.nextID}
					c2 := sc.newCall(r, sp, w2)
					sc.nextID++
					o2 := &snode{kind: "obs", id: sc.nextID}
					sp.kids = []*snode{c1, o1, c2, o2}
					sc.nextID++
					sc.root = []*snode{sp, {kind: "obs", id: sc.nextID}}
					out = append(out, sc.job(r, fmt.Sprintf("scopes-sys-%s", kind)))
				}
			}
		}
	}
	return out
}

// sysLockScenarios: the systematic block for the scope mutex (coq/C17/ScopeLockModel.v), independent of the random
// seed.  binding (a let variable / a with-slots variable) x where run is called (in the body of the binding form
// itself / in a let below it / in the body of a lambda called below it / in a let and a lambda below it) x who assigns
// the variable after the routine was started (the creator / the routine / both) x the routine is started before /
// after a first assignment.  Everybody probes and reports afterwards - which takes lookups through the shared scope.
func sysLockScenarios(r *common.Rng) []scopeJob {
	var out []scopeJob
	for _, bind := range []string{"let", "slots"} {
		for place := 0; place < 4; place++ {
			for who := 0; who < 3; who++ {
				for early := 0; early < 2; early++ {
					scopeSerial++
					sc := &scopeScenario{serial: scopeSerial}
					id := func() int { sc.nextID++; return sc.nextID }
					obs := func() *snode { return &snode{kind: "obs", id: id()} }
					b := &snode{kind: bind, id: id()}
					b.vn = sc.varName(b.id, nil)
					if bind == "slots" {
						b.vn = "s" + b.vn
					}
					touch := func() *snode { return &snode{kind: "touch", id: id(), v: b.vn} }
					run := &snode{kind: "run", id: id()}
					sc.nrun++
					if who != 0 {
						run.kids = append(run.kids, touch())
					}
					run.kids = append(run.kids, obs(), touch(), obs())
					var body []*snode
					if early == 1 {
						body = append(body, touch())
					}
					body = append(body, run)
					if who != 1 {
						body = append(body, touch())
					}
					body = append(body, obs())
					switch place {
					case 0:
						b.kids = body
					case 1:
						b.kids = []*snode{{kind: "let", id: id(), kids: body}}
					case 2:
						b.kids = []*snode{{kind: "call", id: id(), kids: body}}
					case 3:
						b.kids = []*snode{{kind: "let", id: id(), kids: []*snode{{kind: "call", id: id(), kids: body}}}}
					}
					b.kids = append(b.kids, touch(), obs())
					sc.root = []*snode{b, obs()}
					out = append(out, sc.job(r, "scopes-sys-lock-"+bind))
				}
			}
		}
	}
	return out
}

func genScopes(ctx *common.Ctx, n int) []scopeJob {
	var out []scopeJob
	for k := 0; k < n; k++ {
		scopeSerial++
		sc := &scopeScenario{serial: scopeSerial}
		budget := 8 + ctx.Rng.Intn(22)
		sc.root = sc.gen(ctx.Rng, 0, nil, &budget, nil, nil)
		out = append(out, sc.job(ctx.Rng, "scopes"))
	}
	return out
}

// scopeCase turns the outcome of a scope job into a Gallina case; complaint != "" when the outcome cannot be
// expressed (a routine did not report, a probe is missing)
func scopeCase(sj *scopeJob, oc *jobOutcome) (term string, complaint string) {
	if oc.Res == nil {
		return "", "the process died: " + oc.Crash
	}
	res := oc.Res
	if res.Err != "" {
		return "", "setup failed: " + res.Err
	}
	if res.Hang || res.Deadlock {
		return "", "routines did not finish (states " + strings.Join(res.States, ",") + ")"
	}
	var obs []string
	for i, want := range sj.Probes {
		rid := sj.Rids[i]
		if rid >= len(res.Fin) || !res.Fin[rid] {
			return "", fmt.Sprintf("routine %d did not report", rid)
		}
		if len(res.Logs[rid]) != len(want) {
			return "", fmt.Sprintf("routine %d reported %d probes, expected %d", rid, len(res.Logs[rid]), len(want))
		}
		for k, e := range res.Logs[rid] {
			if e.Tag != want[k] {
				return "", fmt.Sprintf("routine %d, probe %d has tag %d, expected %d", rid, k, e.Tag, want[k])
			}
			flags := strings.Trim(e.Str, `"`)
			var fs []string
			for _, c := range flags {
				switch c {
				case '1':
					fs = append(fs, "true")
				case '0':
					fs = append(fs, "false")
				default:
					return "", fmt.Sprintf("routine %d, probe %d reported %q", rid, k, e.Str)
				}
			}
			obs = append(obs, fmt.Sprintf("(%d, [%s])", e.Tag, strings.Join(fs, ";")))
		}
	}
	return fmt.Sprintf("([%s],\n    [%s])", strings.Join(sj.Codes, ";\n     "), strings.Join(obs, "; ")), ""
}
