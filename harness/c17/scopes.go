// scopes.go: scenarios for the scopes that routines share (coq/C17/ScopeModel.v).  A scenario is a tree of
// nested let / call-of-a-lambda / run forms with probes; a probe ((vchain), a harness builtin) walks from the
// scope it is evaluated in through Scope.Parents() and reports Scope.Synchronized() of every scope it visits, in
// walk order.  The scenario is flattened into the operations of the model (one list per routine, routines and
// scopes numbered in the order the model creates them); Coq executes them and must predict every report.
// Touches (reads and writes of let variables that are visible, hence possibly shared) give the race detector
// something to look at: in the model they are no operation at all.
package c17

import (
	"fmt"
	"strings"

	"verifharness/common"
)

type snode struct {
	kind string // let | call | deepcall | run | obs | touch
	id   int
	kids []*snode
	v    int // touch: id of the let variable
}

type scopeScenario struct {
	root   []*snode
	nextID int
	nrun   int
}

func genScopeTree(r *common.Rng, sc *scopeScenario, depth int, vars []int, budget *int) []*snode {
	var out []*snode
	n := 1 + r.Intn(4)
	for k := 0; k < n && *budget > 0; k++ {
		*budget--
		sc.nextID++
		nd := &snode{id: sc.nextID}
		x := r.Intn(100)
		switch {
		case x < 22 && depth < 4:
			nd.kind = "let"
			nd.kids = genScopeTree(r, sc, depth+1, append(append([]int(nil), vars...), nd.id), budget)
		case x < 34 && depth < 4:
			nd.kind = "call"
			nd.kids = genScopeTree(r, sc, depth+1, vars, budget)
		case x < 44 && depth < 3:
			nd.kind = "deepcall"
			nd.kids = genScopeTree(r, sc, depth+1, vars, budget)
		case x < 62 && sc.nrun < 6:
			nd.kind = "run"
			sc.nrun++
			nd.kids = genScopeTree(r, sc, depth+1, vars, budget)
		case x < 80 && len(vars) > 0:
			nd.kind = "touch"
			nd.v = vars[r.Intn(len(vars))]
		default:
			nd.kind = "obs"
		}
		out = append(out, nd)
	}
	// every level ends with a probe: what the lets and runs before it did to the chain
	sc.nextID++
	out = append(out, &snode{kind: "obs", id: sc.nextID})
	return out
}

func (sc *scopeScenario) lisp(b *strings.Builder, nodes []*snode, rid *int, ridOf map[*snode]int) {
	for _, nd := range nodes {
		switch nd.kind {
		case "let":
			fmt.Fprintf(b, " (let ((a%d 0))", nd.id)
			sc.lisp(b, nd.kids, rid, ridOf)
			b.WriteString(")")
		case "call":
			fmt.Fprintf(b, " (funcall (lambda (q%d)", nd.id)
			sc.lisp(b, nd.kids, rid, ridOf)
			b.WriteString(") 0)")
		case "deepcall":
			fmt.Fprintf(b, " (let ((f%d nil)) (setq f%d (lambda (q%d)", nd.id, nd.id, nd.id)
			sc.lisp(b, nd.kids, rid, ridOf)
			fmt.Fprintf(b, ")) (let ((z%d 0)) (funcall f%d 0)))", nd.id, nd.id)
		case "run":
			fmt.Fprintf(b, " (run (let ((log nil))")
			sc.lisp(b, nd.kids, rid, ridOf)
			fmt.Fprintf(b, " (channel-push res (list %d log))))", ridOf[nd])
		case "obs":
			fmt.Fprintf(b, " (setq log (cons (list %d (vchain)) log))", nd.id)
		case "touch":
			fmt.Fprintf(b, " (setq a%d (+ a%d 1))", nd.v, nd.v)
		}
	}
}

// flatten numbers routines and scopes the way the model creates them (routine 0 = the harness, which starts the
// root routine; then every routine in turn, from its first operation to its last) and returns the operations of
// every routine as a Gallina term, the probes of every routine in program order, and the lisp rid of each run node
func (sc *scopeScenario) flatten() (codes []string, probes [][]int, ridOf map[*snode]int) {
	type pending struct {
		kids  []*snode
		spawn int // scope the routine is started in
	}
	ridOf = map[*snode]int{}
	queue := []pending{{kids: sc.root, spawn: 0}}
	codes = append(codes, "[XOp SRun]") // the harness evaluates the (run ...) form of the root routine in scope 0
	nscopes := 1
	nroutines := 2 // 0: harness, 1: root routine
	for len(queue) > 0 {
		cur := queue[0]
		queue = queue[1:]
		var ops []string
		var obs []int
		stack := []int{cur.spawn}
		push := func(op string) {
			ops = append(ops, "XOp "+op)
			stack = append(stack, nscopes)
			nscopes++
		}
		pop := func() {
			ops = append(ops, "XOp SEnd")
			stack = stack[:len(stack)-1]
		}
		var walk func(nodes []*snode)
		walk = func(nodes []*snode) {
			for _, nd := range nodes {
				switch nd.kind {
				case "let":
					push("SLet")
					walk(nd.kids)
					pop()
				case "call":
					push(fmt.Sprintf("(SCall %d)", stack[len(stack)-1]))
					walk(nd.kids)
					pop()
				case "deepcall":
					push("SLet")
					a := stack[len(stack)-1]
					push("SLet")
					push(fmt.Sprintf("(SCall %d)", a))
					walk(nd.kids)
					pop()
					pop()
					pop()
				case "run":
					ops = append(ops, "XOp SRun")
					ridOf[nd] = nroutines - 1 // lisp rid: the harness itself does not report
					nroutines++
					queue = append(queue, pending{kids: nd.kids, spawn: stack[len(stack)-1]})
				case "obs":
					ops = append(ops, fmt.Sprintf("XObs %d", nd.id))
					obs = append(obs, nd.id)
				}
			}
		}
		push("SLet") // the routine's own (let ((log nil)) ...)
		walk(cur.kids)
		codes = append(codes, "["+strings.Join(ops, "; ")+"]")
		probes = append(probes, obs)
	}
	return
}

type scopeJob struct {
	Job    job
	Codes  []string
	Probes [][]int
}

func genScopes(ctx *common.Ctx, n int) []scopeJob {
	var out []scopeJob
	for k := 0; k < n; k++ {
		sc := &scopeScenario{}
		budget := 8 + ctx.Rng.Intn(22)
		sc.root = genScopeTree(ctx.Rng, sc, 0, nil, &budget)
		codes, probes, ridOf := sc.flatten()
		var b strings.Builder
		b.WriteString("(run (let ((log nil))")
		rid := 0
		sc.lisp(&b, sc.root, &rid, ridOf)
		b.WriteString(" (channel-push res (list 0 log))))")
		out = append(out, scopeJob{Job: job{Kind: "lisp", Runs: []string{b.String()}, Results: len(probes), Procs: common.Pick(ctx.Rng, procChoices)},
			Codes: codes, Probes: probes})
	}
	return out
}

// scopeCase turns the outcome of a scope job into a Gallina case; complaint != "" when the outcome cannot be
// expressed (a routine did not report, a probe is missing)
func scopeCase(sj *scopeJob, oc *jobOutcome) (term string, complaint string) {
	if oc.Res == nil {
		return "", "the process died: " + oc.Crash
	}
	res := oc.Res
	if res.Err != "" {
		return "", "setup failed: " + res.Err
	}
	if res.Hang || res.Deadlock {
		return "", "routines did not finish (states " + strings.Join(res.States, ",") + ")"
	}
	var obs []string
	for i, want := range sj.Probes {
		if i >= len(res.Fin) || !res.Fin[i] {
			return "", fmt.Sprintf("routine %d did not report", i)
		}
		if len(res.Logs[i]) != len(want) {
			return "", fmt.Sprintf("routine %d reported %d probes, expected %d", i, len(res.Logs[i]), len(want))
		}
		for k, e := range res.Logs[i] {
			if e.Tag != want[k] {
				return "", fmt.Sprintf("routine %d, probe %d has tag %d, expected %d", i, k, e.Tag, want[k])
			}
			flags := strings.Trim(e.Str, `"`)
			var fs []string
			for _, c := range flags {
				switch c {
				case '1':
					fs = append(fs, "true")
				case '0':
					fs = append(fs, "false")
				default:
					return "", fmt.Sprintf("routine %d, probe %d reported %q", i, k, e.Str)
				}
			}
			obs = append(obs, fmt.Sprintf("(%d, [%s])", e.Tag, strings.Join(fs, ";")))
		}
	}
	return fmt.Sprintf("([%s],\n    [%s])", strings.Join(sj.Codes, ";\n     "), strings.Join(obs, "; ")), ""
}
