// pool.go: runs jobs in worker processes (`harness C17W`, optionally the race-enabled build), restarting
// the worker after a crash, a deadlock or a hang, and collects race-detector reports per job.
package c17

import (
	"bufio"
	"encoding/json"
	"fmt"
	"os"
	"os/exec"
	"regexp"
	"sort"
	"strings"
	"time"
)

type jobOutcome struct {
	Res     *result  // nil when the process died while running the job
	Crash   string   // first line of the fatal error / panic
	Stderr  string   // what the process wrote while running the job (truncated)
	Races   []string // race reports (full text) attributed to the job
	Skipped bool     // could not be run (worker would not start)
}

var jobMark = regexp.MustCompile(`(?m)^### C17 (JOB|END) (\d+)$`)

// runJobs runs the jobs in order in processes of binary bin and returns one outcome per job.
func runJobs(bin string, dir string, jobs []job, env []string) []jobOutcome {
	out := make([]jobOutcome, len(jobs))
	index := map[int]int{}
	for i, j := range jobs {
		index[j.ID] = i
	}
	next := 0
	for round := 0; next < len(jobs); round++ {
		errFile, err := os.CreateTemp(dir, "worker-*.stderr")
		if err != nil {
			panic(err)
		}
		errPath := errFile.Name()
		pr, pw, _ := os.Pipe()
		cmd := exec.Command(bin, "C17W", "--out", dir)
		cmd.Env = append(os.Environ(), env...)
		cmd.Stderr = errFile
		cmd.Stdout = errFile
		cmd.ExtraFiles = []*os.File{pw}
		stdin, _ := cmd.StdinPipe()
		if err = cmd.Start(); err != nil {
			for ; next < len(jobs); next++ {
				out[next].Skipped = true
			}
			break
		}
		pw.Close()
		go func(from int) {
			w := bufio.NewWriter(stdin)
			for k := from; k < len(jobs); k++ {
				b, _ := json.Marshal(jobs[k])
				w.Write(b)
				w.WriteByte('\n')
				if w.Flush() != nil {
					break
				}
			}
			stdin.Close()
		}(next)
		rd := bufio.NewReaderSize(pr, 1<<22)
		answered := next
		for {
			line, rerr := rd.ReadBytes('\n')
			if len(line) > 1 {
				var r result
				if json.Unmarshal(line, &r) == nil {
					if k, ok := index[r.ID]; ok {
						rr := r
						out[k].Res = &rr
						if k+1 > answered {
							answered = k + 1
						}
					}
				}
			}
			if rerr != nil {
				break
			}
		}
		done := make(chan struct{})
		go func() { _ = cmd.Wait(); close(done) }()
		select {
		case <-done:
		case <-time.After(60 * time.Second):
			_ = cmd.Process.Kill()
			<-done
		}
		pr.Close()
		errFile.Close()
		text, _ := os.ReadFile(errPath)
		_ = os.Remove(errPath)
		attribute(string(text), jobs, index, out)
		if answered < len(jobs) {
			last := answered - 1
			planned := last >= 0 && out[last].Res != nil && (out[last].Res.Deadlock || out[last].Res.Hang) && last >= next
			if !planned {
				// the process died while running job `answered`
				k := answered
				out[k].Crash = crashLine(out[k].Stderr)
				if out[k].Crash == "" {
					out[k].Crash = "worker process ended without a result"
				}
				answered = k + 1
			}
		}
		if answered == next { // no progress: avoid spinning
			out[next].Skipped = true
			answered = next + 1
		}
		next = answered
	}
	return out
}

// attribute splits the stderr text at the job markers
func attribute(text string, jobs []job, index map[int]int, out []jobOutcome) {
	locs := jobMark.FindAllStringSubmatchIndex(text, -1)
	for n, loc := range locs {
		kind := text[loc[2]:loc[3]]
		if kind != "JOB" {
			continue
		}
		var id int
		fmt.Sscanf(text[loc[4]:loc[5]], "%d", &id)
		end := len(text)
		if n+1 < len(locs) {
			end = locs[n+1][0]
		}
		seg := text[loc[1]:end]
		k, ok := index[id]
		if !ok {
			continue
		}
		for _, rep := range splitRaces(seg) {
			out[k].Races = append(out[k].Races, rep)
		}
		if len(seg) > 6000 {
			seg = seg[:3000] + "\n...\n" + seg[len(seg)-3000:]
		}
		out[k].Stderr = strings.TrimSpace(seg)
	}
}

var chanRaceRx = regexp.MustCompile(`(?m)^(Read|Write|Previous read|Previous write) at \S+ by [^\n]*\n  runtime\.(chansend|closechan|chanrecv)\(\)`)

// splitRaces returns the race reports of a stderr segment.  A close of a channel that races with a send or
// a receive on it is a race of the generated PROGRAM (the model covers it: push on a closed channel), which
// the detector reports with runtime.closechan / chansend on top of both stacks: not an interpreter race.
func splitRaces(seg string) (reps []string) {
	for _, blk := range strings.Split(seg, "==================") {
		if strings.Contains(blk, "WARNING: DATA RACE") {
			if len(chanRaceRx.FindAllString(blk, -1)) >= 2 {
				continue
			}
			reps = append(reps, strings.TrimSpace(blk))
		}
	}
	return
}

func crashLine(stderr string) string {
	for _, line := range strings.Split(stderr, "\n") {
		if strings.HasPrefix(line, "fatal error:") || strings.HasPrefix(line, "panic:") || strings.HasPrefix(line, "FATAL") {
			return strings.TrimSpace(line)
		}
	}
	return ""
}

var accessRx = regexp.MustCompile(`(?m)^(Read|Write|Previous read|Previous write|Atomic read|Atomic write|Previous atomic read|Previous atomic write) at .*$`)

// raceSignature: the innermost function of the slip repository in each of the two access stacks, sorted.
func raceSignature(rep string) string {
	parts := accessRx.Split(rep, -1)
	var sig []string
	for _, part := range parts[1:] {
		if i := strings.Index(part, "\nGoroutine "); i >= 0 { // stop at the goroutine creation section
			part = part[:i]
		}
		if i := strings.Index(part, "\n\n"); i >= 0 { // one stack only
			part = part[:i]
		}
		lines := strings.Split(part, "\n")
		found := "?"
		for n := 0; n+1 < len(lines); n++ {
			fn := strings.TrimSpace(lines[n])
			loc := strings.TrimSpace(lines[n+1])
			if strings.HasSuffix(fn, ")") && strings.Contains(loc, ".go:") && strings.Contains(fn, "github.com/ohler55/slip") {
				found = strings.TrimSuffix(strings.TrimPrefix(fn, "github.com/ohler55/"), "()")
				break
			}
		}
		sig = append(sig, found)
	}
	sort.Strings(sig)
	return strings.Join(sig, " <-> ")
}
