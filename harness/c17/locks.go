// locks.go: the lock discipline of the package tables (coq/C17/TableModel.v).  The variable, function and class
// tables of a package are Go maps guarded by the package mutex; every operation of the interpreter that reads or
// writes one of them has to hold that mutex while it does.  For every operation of a fixed alphabet the harness
// holds the mutex of the current package and lets another goroutine evaluate the operation (worker.go,
// runLockProbe): the operation either finishes (it does not take the mutex) or waits in sync.Mutex.Lock (it does).
// The model says which operations use the tables; Coq compares.  The alphabet is ENUMERATED completely on every
// run (no random choice): see lockOps.
package c17

import (
	"fmt"
	"strings"
)

type lockOp struct {
	Name  string // constructor of TableModel.lop
	Form  string // %d = a number unique to the job (global names must be new where the operation says "new")
	Setup []string
}

// every form is flat: nothing in it is compiled on first evaluation except where that is the operation probed
// (LFirstEval), so that the mutex is needed by the operation itself and by nothing around it
var lockOps = []lockOp{
	// binding and assigning variables of a scope: Scope.Let / Scope.set look the name up in the variable table
	// of the current package (a constant must not be bound or set)
	{"LLetBind", "(let ((y 1)) y)", nil},
	{"LLetStarBind", "(let* ((y 1)) y)", nil},
	{"LSetLocal", "(setq x 2)", nil},
	{"LCallParam", "(c17d-f-%d 1)", []string{"(defun c17d-f-%d (a) a)", "(c17d-f-%d 0)"}},
	{"LDotimes", "(dotimes (i 1) nil)", nil},
	{"LDolist", "(dolist (el (list 1)) nil)", nil},
	{"LFuncallLambda", "(funcall (lambda (z) z) 1)", nil},
	{"LMultipleValueBind", "(multiple-value-bind (u v) (values 1 2) u)", nil},
	// global variables
	{"LReadGlobal", "*c17d-g-%d*", []string{"(defvar *c17d-g-%d* 1)"}},
	{"LSetGlobal", "(setq *c17d-g-%d* 3)", []string{"(defvar *c17d-g-%d* 1)"}},
	{"LDefvarNew", "(defvar *c17d-n1-%d* 1)", nil},
	{"LDefparameterNew", "(defparameter *c17d-n2-%d* 1)", nil},
	{"LDefconstantNew", "(defconstant +c17d-n3-%d+ 1)", nil},
	{"LSetqNewGlobal", "(setq c17d-n4-%d 5)", nil},
	{"LMakunbound", "(makunbound '*c17d-t-%d*)", []string{"(defvar *c17d-t-%d* 1)"}},
	{"LBoundp", "(boundp '*c17d-g-%d*)", []string{"(defvar *c17d-g-%d* 1)"}},
	{"LSymbolValue", "(symbol-value '*c17d-g-%d*)", []string{"(defvar *c17d-g-%d* 1)"}},
	// functions
	{"LDefunNew", "(defun c17d-h-%d (a) a)", nil},
	{"LFboundp", "(fboundp 'c17d-f-%d)", []string{"(defun c17d-f-%d (a) a)"}},
	{"LFirstEval", "(if x (list 1) 2)", nil}, // (list 1) is compiled when the if is evaluated for the first time: FindFunc
	{"LFunctionQuote", "(function c17d-f-%d)", []string{"(defun c17d-f-%d (a) a)"}},
	// operations that use no table of the package
	{"LReadLocal", "x", nil},
	{"LArithLocal", "(+ x 1)", nil},
	{"LQuote", "'abc", nil},
	{"LConsLocal", "(cons x x)", nil},
	{"LIfLocal", "(if x 1 2)", nil},
	{"LPrognLocal", "(progn x x)", nil},
}

func genLockProbes(uid int) []job {
	var out []job
	for k, op := range lockOps {
		n := uid*100 + k
		j := job{Kind: "lockprobe", Procs: 4}
		for _, s := range op.Setup {
			j.Setup = append(j.Setup, strings.ReplaceAll(s, "%d", fmt.Sprint(n)))
		}
		// the package must have at least one variable (the mutex is held from inside Package.EachVarName)
		j.Setup = append(j.Setup, fmt.Sprintf("(defvar *c17d-any-%d* 0)", n))
		j.Runs = []string{strings.ReplaceAll(op.Form, "%d", fmt.Sprint(n))}
		out = append(out, j)
	}
	return out
}

// ---- the lock of a synchronized instance: every operation on its slots waits while the lock is held, no operation
//      on an unsynchronized instance does.  Enumerated: every operation x {clos, flavors} where it applies x
//      {synchronized, not synchronized} ----
type instOp struct {
	Name  string // constructor of TableModel.iop
	Form  string
	Kinds []string // "clos", "flavor"
	Undo  []string // evaluated after the warm-up evaluation
}

var instOps = []instOp{
	{"ISlotValue", "(slot-value o 'v)", []string{"clos", "flavor"}, nil},
	{"ISetfSlotValue", "(setf (slot-value o 'v) 3)", []string{"clos", "flavor"}, nil},
	{"ISlotBoundp", "(slot-boundp o 'v)", []string{"clos"}, nil},
	{"ISlotMakunbound", "(slot-makunbound o 'w)", []string{"clos"}, nil},
	{"ISlotExistsp", "(slot-exists-p o 'v)", []string{"clos"}, nil},
	{"IAccessorRead", "(c17i-v o)", []string{"clos"}, nil},
	{"IReaderRead", "(c17i-rv o)", []string{"clos"}, nil},
	{"IAccessorWrite", "(setf (c17i-v o) 4)", []string{"clos"}, nil},
	{"IWriterWrite", "(c17i-wv o 5)", []string{"clos"}, nil},
	{"IWithSlotsRead", "(with-slots (v) o v)", []string{"clos"}, nil},
	{"IWithSlotsWrite", "(with-slots (v) o (setq v 6))", []string{"clos"}, nil},
	{"ISendGet", "(send o :v)", []string{"flavor"}, nil},
	{"ISendSet", "(send o :set-v 7)", []string{"flavor"}, nil},
	{"IMethodReadsVar", "(send o :peek)", []string{"flavor"}, nil},
	{"IMethodSetsVar", "(send o :poke 8)", []string{"flavor"}, nil},
	// no slot is touched
	{"ISynchronizedp", "(synchronizedp o)", []string{"clos", "flavor"}, nil},
	{"IJustTheInstance", "o", []string{"clos", "flavor"}, nil},
}

type instProbe struct {
	Job  job
	Op   string
	Kind string
	Sync bool
}

func genInstProbes() []instProbe {
	var out []instProbe
	for _, op := range instOps {
		for _, kind := range op.Kinds {
			for _, sync := range []bool{true, false} {
				cell := kind
				if !sync {
					cell += "-plain"
				}
				out = append(out, instProbe{Job: job{Kind: "instprobe", Cells: []string{cell}, Runs: []string{op.Form}, Finals: op.Undo, Procs: 4},
					Op: op.Name, Kind: kind, Sync: sync})
			}
		}
	}
	return out
}
